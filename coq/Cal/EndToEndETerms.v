(* C01, leakage types: the composition EndToEndFinal.c01_model_end_to_end_leak_lemma2 with its physical hypotheses
   restated in E TERMS -- the calibration-error box of vnacal_layout.h ("E terms": [El Er; Et Em]):
     TE10 / UE10   per port i: directivity ed i, reflection tracking er i, transmission tracking et i, match em i
                   (the off-diagonal El is additive leakage, separate: el r c);
     UE14 / E12    per driven column c: ed c, et c, er c i, em c i.
   EndToEndFinal states the hypotheses `network_of' (every standard) and `device_network' (the device) in the T / U /
   UE14 terms read out of an abstract term function fe : nat -> K through the layout.  Here fe is the term function
   the E box stands for (fe_TE10, fe_UE10, fe_UE14: the documented conversions "From E terms", in layout order, with
   the common factor that makes the unity term of the type 1: TE10 k0 = et 0 (tm 0 = 1), UE10 k0 = er 0 (um 0 = 1),
   UE14 / E12_UE14 column c: kk c = er c c (um c c = 1)), and the hypotheses are LeakETerms.physE / physE14: the wave
   equations of the box,  B = S (Et e_j + Em B),  Mc = El + Er B,  no inverse formed.

   1. physT / physU / phys14 and the kernel predicates of NT / NU / N14 read their matrices at indices < n only
      (physT_ext, physU_ext, phys14_ext, NT_ext, NU_ext, N14_ext, left_kernel_ext, right_kernel_ext): every n, field.
   2. te_blocks_partial / ue_blocks_partial / c14_blocks_partial: the layout blocks of fe_* ARE the converted terms
      of LeakETerms (et_Ts.., eu_Um.., e14_um..).  Bound in the statement: n = 1..3 (square n x n); every field.
   3. eterms_network_of8_partial / eterms_network_of14_partial, eterms_device_network8_partial /
      eterms_device_network14_partial: physE + well-posedness of the E network (trivial kernel of I - S Em, for TE10
      also of I - Em S) + non-vanishing tracking terms give network_of / device_network; for E12 the regularity
      e12_regular of the solved terms is DERIVED (eterms_e12_regular_partial: us um - ui ux = er c c * et c).
   4. c01_model_end_to_end_leak_eterms_partial (TE10, UE10) and c01_model_end_to_end_leak_eterms14_partial (UE14, E12)
      at the Gaussian rationals: solve returns the vector of the box, apply returns S.
      Bound (in the statements): the four types, square n = 1..3, standards of the family AssembleList.zcfgs. *)
Require Import List ZArith Bool Arith Lia QArith Qcanon.
Require Import LV.Base.CField LV.Base.QcI LV.Lin.MatL LV.Lin.LuGenA.
Require Import LV.Gen.LayoutGen LV.Cal.Sym LV.Cal.TermsModel LV.Cal.AddModel LV.Cal.ApplyModel LV.Cal.ApplyProofs
               LV.Cal.ApplyIdentity LV.Cal.AssembleIdentity LV.Cal.SolveSimple LV.Cal.CalQI LV.Cal.AssembleList
               LV.Cal.LeakProofs LV.Cal.LeakPhysical LV.Cal.LeakETerms LV.Cal.EndToEndLeak LV.Cal.ApplyRecovers
               LV.Cal.SolveRecovers LV.Cal.EndToEnd LV.Cal.EndToEndAll LV.Cal.EndToEndDevice LV.Cal.EndToEndFinal.
Import ListNotations.
Local Open Scope nat_scope.

(* ================================================================ 1. the predicates read their matrices below n *)
Section Ext.
Variable K : CField.
Add Field Kf_ee : (cth K).
Variable n : nat.
Variable S : nat -> nat -> K.
Local Open Scope cf_scope.
Notation sm := (@sumf K n).

Definition agree (X Y : nat -> nat -> K) : Prop := forall i k, (i < n)%nat -> (k < n)%nat -> X i k = Y i k.

Lemma agree_sym X Y : agree X Y -> agree Y X.
Proof. intros H i k Hi Hk. symmetry. exact (H i k Hi Hk). Qed.

Lemma left_kernel_ext (N N' : nat -> nat -> K) :
  agree N N' -> left_kernel_trivial K n N -> left_kernel_trivial K n N'.
Proof.
  intros HN Hk x Hx. apply Hk. intros j Hj. rewrite <- (Hx j Hj). apply sumf_ext. intros k Hk'.
  rewrite (HN k j Hk' Hj). reflexivity.
Qed.

Lemma right_kernel_ext (N N' : nat -> nat -> K) :
  agree N N' -> right_kernel_trivial K n N -> right_kernel_trivial K n N'.
Proof.
  intros HN Hk x Hx. apply Hk. intros i Hi. rewrite <- (Hx i Hi). apply sumf_ext. intros k Hk'.
  rewrite (HN i k Hi Hk'). reflexivity.
Qed.

Lemma NT_ext Tx Tm Tx' Tm' : agree Tx Tx' -> agree Tm Tm' -> agree (NT K n S Tx Tm) (NT K n S Tx' Tm').
Proof.
  intros Hx Hm a j Ha Hj. unfold NT. rewrite (Hm a j Ha Hj). f_equal.
  apply sumf_ext. intros k Hk. rewrite (Hx a k Ha Hk). reflexivity.
Qed.

Lemma RT_ext Ts Ti Ts' Ti' : agree Ts Ts' -> agree Ti Ti' -> agree (RT K n S Ts Ti) (RT K n S Ts' Ti').
Proof.
  intros Hs Hi' i j Hi Hj. unfold RT. rewrite (Hi' i j Hi Hj). f_equal.
  apply sumf_ext. intros k Hk. rewrite (Hs i k Hi Hk). reflexivity.
Qed.

Lemma physT_ext_imp Ts Ti Tx Tm Ts' Ti' Tx' Tm' mr Mc : (mr <= n)%nat ->
  agree Ts Ts' -> agree Ti Ti' -> agree Tx Tx' -> agree Tm Tm' ->
  physT K n S Ts Ti Tx Tm mr Mc -> physT K n S Ts' Ti' Tx' Tm' mr Mc.
Proof.
  intros Hmr Hs Hi' Hx Hm H i j Hi Hj.
  rewrite <- (RT_ext Ts Ti Ts' Ti' Hs Hi' i j ltac:(lia) Hj), <- (H i j Hi Hj).
  apply sumf_ext. intros a Ha. rewrite (NT_ext Tx Tm Tx' Tm' Hx Hm a j Ha Hj). reflexivity.
Qed.

Theorem physT_ext Ts Ti Tx Tm Ts' Ti' Tx' Tm' mr Mc : (mr <= n)%nat ->
  agree Ts Ts' -> agree Ti Ti' -> agree Tx Tx' -> agree Tm Tm' ->
  (physT K n S Ts Ti Tx Tm mr Mc <-> physT K n S Ts' Ti' Tx' Tm' mr Mc).
Proof.
  intros Hmr Hs Hi Hx Hm. split; apply physT_ext_imp; auto using agree_sym.
Qed.

Lemma NU_ext Um Ux Um' Ux' : agree Um Um' -> agree Ux Ux' -> agree (NU K n S Um Ux) (NU K n S Um' Ux').
Proof.
  intros Hm Hx i k Hi Hk. unfold NU. rewrite (Hm i k Hi Hk). f_equal.
  apply sumf_ext. intros a Ha. rewrite (Hx a k Ha Hk). reflexivity.
Qed.

Lemma RU_ext Ui Us Ui' Us' : agree Ui Ui' -> agree Us Us' -> agree (RU K n S Ui Us) (RU K n S Ui' Us').
Proof.
  intros Hi' Hs i j Hi Hj. unfold RU. rewrite (Hi' i j Hi Hj). f_equal.
  apply sumf_ext. intros k Hk. rewrite (Hs k j Hk Hj). reflexivity.
Qed.

Lemma physU_ext_imp Um Ui Ux Us Um' Ui' Ux' Us' mc Mc : (mc <= n)%nat ->
  agree Um Um' -> agree Ui Ui' -> agree Ux Ux' -> agree Us Us' ->
  physU K n S Um Ui Ux Us mc Mc -> physU K n S Um' Ui' Ux' Us' mc Mc.
Proof.
  intros Hmc Hm Hi' Hx Hs H i j Hi Hj.
  rewrite <- (RU_ext Ui Us Ui' Us' Hi' Hs i j Hi ltac:(lia)), <- (H i j Hi Hj).
  apply sumf_ext. intros k Hk. rewrite (NU_ext Um Ux Um' Ux' Hm Hx i k Hi Hk). reflexivity.
Qed.

Theorem physU_ext Um Ui Ux Us Um' Ui' Ux' Us' mc Mc : (mc <= n)%nat ->
  agree Um Um' -> agree Ui Ui' -> agree Ux Ux' -> agree Us Us' ->
  (physU K n S Um Ui Ux Us mc Mc <-> physU K n S Um' Ui' Ux' Us' mc Mc).
Proof.
  intros Hmc Hm Hi Hx Hs. split; apply physU_ext_imp; auto using agree_sym.
Qed.

(* UE14: column c reads um c i, ux c i (i < n), ui c, us c for the driven columns c < mc *)
Definition agree14 (mc : nat) (um um' : nat -> nat -> K) : Prop :=
  forall c i, (c < mc)%nat -> (i < n)%nat -> um c i = um' c i.
Definition agree14s (mc : nat) (u u' : nat -> K) : Prop := forall c, (c < mc)%nat -> u c = u' c.

Lemma N14_ext mc um ux um' ux' c : (c < mc)%nat -> agree14 mc um um' -> agree14 mc ux ux' ->
  agree (N14 K S um ux c) (N14 K S um' ux' c).
Proof.
  intros Hc Hm Hx i k Hi Hk. unfold N14. rewrite (Hm c i Hc Hi), (Hx c k Hc Hk). reflexivity.
Qed.

Lemma phys14_ext_imp um ux ui us um' ux' ui' us' mc Mc :
  agree14 mc um um' -> agree14 mc ux ux' -> agree14s mc ui ui' -> agree14s mc us us' ->
  phys14 K n S um ux ui us mc Mc -> phys14 K n S um' ux' ui' us' mc Mc.
Proof.
  intros Hm Hx Hi' Hs H i c Hi Hc.
  transitivity (R14 K S ui us c i).
  - rewrite <- (H i c Hi Hc). apply sumf_ext. intros k Hk.
    rewrite (N14_ext mc um ux um' ux' c Hc Hm Hx i k Hi Hk). reflexivity.
  - unfold R14. rewrite (Hi' c Hc), (Hs c Hc). reflexivity.
Qed.

Theorem phys14_ext um ux ui us um' ux' ui' us' mc Mc :
  agree14 mc um um' -> agree14 mc ux ux' -> agree14s mc ui ui' -> agree14s mc us us' ->
  (phys14 K n S um ux ui us mc Mc <-> phys14 K n S um' ux' ui' us' mc Mc).
Proof.
  intros Hm Hx Hi Hs. split; apply phys14_ext_imp; auto.
  all: try (intros c i Hc Hi'; symmetry; auto). all: intros c Hc; symmetry; auto.
Qed.
End Ext.

(* ================================================================ 2. the term function an E box stands for *)
Section Box.
Variable K : CField.
Add Field Kf_eb : (cth K).
Local Open Scope cf_scope.

Lemma mul_nz (a b : K) : a <> 0 -> b <> 0 -> a * b <> 0.
Proof. intros Ha Hb H. apply Ha. transitivity (a * b / b); [field; exact Hb | rewrite H; field; exact Hb]. Qed.
Lemma div_nz (a b : K) : a <> 0 -> b <> 0 -> a / b <> 0.
Proof. intros Ha Hb H. apply Ha. transitivity (a / b * b); [field; exact Hb | rewrite H; ring]. Qed.

(* ---------------------------------------------------------------- TE10 / UE10: per port ed, er, et, em *)
Section Box8.
Variables (n : nat) (ed er et em : nat -> K).

(* TE10, layout order Ts | Ti | Tx | Tm (n diagonal terms each), common factor k0 = et 0: the unity term tm 0 is 1 *)
Definition fe_TE10 : nat -> K :=
  let k0 := et 0%nat in
  fun k => nth k (map (fun i => k0 * (er i - ed i * em i / et i)) (seq 0 n) ++
                  map (fun i => k0 * ed i / et i) (seq 0 n) ++
                  map (fun i => - k0 * em i / et i) (seq 0 n) ++
                  map (fun i => k0 / et i) (seq 0 n)) 0.

(* UE10, layout order Um | Ui | Ux | Us, common factor k0 = er 0: the unity term um 0 is 1 *)
Definition fe_UE10 : nat -> K :=
  let k0 := er 0%nat in
  fun k => nth k (map (fun i => k0 / er i) (seq 0 n) ++
                  map (fun i => - k0 * ed i / er i) (seq 0 n) ++
                  map (fun i => k0 * em i / er i) (seq 0 n) ++
                  map (fun i => k0 * (et i - em i * ed i / er i)) (seq 0 n)) 0.
End Box8.

(* ---------------------------------------------------------------- UE14 / E12: per driven column c: ed c, et c, er c i, em c i *)
Section Box14.
Variables (n : nat) (ed et : nat -> K) (er em : nat -> nat -> K).

(* the column's factor kk c = er c c: the unity term um c c of system c is 1 *)
Definition kk14 (c : nat) : K := er c c.
(* layout order per column c: um c (n terms) | ui c | ux c (n terms) | us c *)
Definition fe_UE14 : nat -> K :=
  fun k => nth k (concat (map (fun c =>
                  map (fun i => kk14 c / er c i) (seq 0 n) ++
                  [- kk14 c * ed c / er c c] ++
                  map (fun i => kk14 c * em c i / er c i) (seq 0 n) ++
                  [kk14 c * (et c - em c c * ed c / er c c)]) (seq 0 n))) 0.
End Box14.

Definition small_n (n : nat) : Prop := In n [1; 2; 3]%nat.

Ltac small n Hn := destruct Hn as [<-|[<-|[<-|[]]]].
Ltac idx i Hi := repeat (destruct i as [|i]; [|try (exfalso; lia)]); try (exfalso; lia).
Ltac blk_eq := cbv -[cadd cmul csub copp cdiv cinv c0 c1 F]; try reflexivity; field; repeat split; assumption.

Lemma te_blocks_partial n ed er et em : small_n n -> (forall i, (i < n)%nat -> et i <> 0) ->
  let fe := fe_TE10 n ed er et em in let k0 := et 0%nat in
  agree K n (te_Ts K n n fe) (et_Ts K ed er et em k0) /\ agree K n (te_Ti K n n fe) (et_Ti K ed et k0) /\
  agree K n (te_Tx K n n fe) (et_Tx K et em k0) /\ agree K n (te_Tm K n n fe) (et_Tm K et k0).
Proof.
  intros Hn Hnz fe k0. unfold fe, k0. clear fe k0.
  small n Hn.
  - pose proof (Hnz 0%nat ltac:(lia)).
    repeat split; intros i k Hi Hk; idx i Hi; idx k Hk; blk_eq.
  - pose proof (Hnz 0%nat ltac:(lia)). pose proof (Hnz 1%nat ltac:(lia)).
    repeat split; intros i k Hi Hk; idx i Hi; idx k Hk; blk_eq.
  - pose proof (Hnz 0%nat ltac:(lia)). pose proof (Hnz 1%nat ltac:(lia)). pose proof (Hnz 2%nat ltac:(lia)).
    repeat split; intros i k Hi Hk; idx i Hi; idx k Hk; blk_eq.
Qed.

Lemma ue_blocks_partial n ed er et em : small_n n -> (forall i, (i < n)%nat -> er i <> 0) ->
  let fe := fe_UE10 n ed er et em in let k0 := er 0%nat in
  agree K n (ue_Um K n n fe) (eu_Um K er k0) /\ agree K n (ue_Ui K n n fe) (eu_Ui K ed er k0) /\
  agree K n (ue_Ux K n n fe) (eu_Ux K er em k0) /\ agree K n (ue_Us K n n fe) (eu_Us K ed er et em k0).
Proof.
  intros Hn Hnz fe k0. unfold fe, k0. clear fe k0.
  small n Hn.
  - pose proof (Hnz 0%nat ltac:(lia)).
    repeat split; intros i k Hi Hk; idx i Hi; idx k Hk; blk_eq.
  - pose proof (Hnz 0%nat ltac:(lia)). pose proof (Hnz 1%nat ltac:(lia)).
    repeat split; intros i k Hi Hk; idx i Hi; idx k Hk; blk_eq.
  - pose proof (Hnz 0%nat ltac:(lia)). pose proof (Hnz 1%nat ltac:(lia)). pose proof (Hnz 2%nat ltac:(lia)).
    repeat split; intros i k Hi Hk; idx i Hi; idx k Hk; blk_eq.
Qed.

Ltac c14_tac :=
  split; [intros c i Hc Hi; idx c Hc; idx i Hi; blk_eq |
  split; [intros c i Hc Hi; idx c Hc; idx i Hi; blk_eq |
  split; [intros c Hc; idx c Hc; blk_eq | intros c Hc; idx c Hc; blk_eq]]].

Lemma c14_blocks_partial n ty ed et er em : small_n n -> ty = UE14 \/ ty = E12_UE14 ->
  (forall c i, (c < n)%nat -> (i < n)%nat -> er c i <> 0) ->
  let fe := fe_UE14 n ed et er em in let kk := kk14 er in
  agree14 K n n (c14_um K n n fe ty) (e14_um K kk er) /\ agree14 K n n (c14_ux K n n fe ty) (e14_ux K kk er em) /\
  agree14s K n (c14_ui K n n fe ty) (e14_ui K ed kk er) /\ agree14s K n (c14_us K n n fe ty) (e14_us K ed et kk er em).
Proof.
  intros Hn Hty Hnz fe kk. unfold fe, kk. clear fe kk.
  small n Hn.
  - pose proof (Hnz 0%nat 0%nat ltac:(lia) ltac:(lia)).
    destruct Hty as [-> | ->]; c14_tac.
  - pose proof (Hnz 0%nat 0%nat ltac:(lia) ltac:(lia)). pose proof (Hnz 0%nat 1%nat ltac:(lia) ltac:(lia)).
    pose proof (Hnz 1%nat 0%nat ltac:(lia) ltac:(lia)). pose proof (Hnz 1%nat 1%nat ltac:(lia) ltac:(lia)).
    destruct Hty as [-> | ->]; c14_tac.
  - pose proof (Hnz 0%nat 0%nat ltac:(lia) ltac:(lia)). pose proof (Hnz 0%nat 1%nat ltac:(lia) ltac:(lia)).
    pose proof (Hnz 0%nat 2%nat ltac:(lia) ltac:(lia)).
    pose proof (Hnz 1%nat 0%nat ltac:(lia) ltac:(lia)). pose proof (Hnz 1%nat 1%nat ltac:(lia) ltac:(lia)).
    pose proof (Hnz 1%nat 2%nat ltac:(lia) ltac:(lia)).
    pose proof (Hnz 2%nat 0%nat ltac:(lia) ltac:(lia)). pose proof (Hnz 2%nat 1%nat ltac:(lia) ltac:(lia)).
    pose proof (Hnz 2%nat 2%nat ltac:(lia) ltac:(lia)).
    destruct Hty as [-> | ->]; c14_tac.
Qed.
End Box.

(* ================================================================ 3. the physical hypotheses in E terms *)
Lemma conj_all_intro {A} (P : A -> Prop) (l : list A) : (forall x, In x l -> P x) -> conj_all (map P l).
Proof.
  induction l as [|a l IH]; intros H; cbn; [exact I|].
  split; [apply H; left; reflexivity | apply IH; intros x Hx; apply H; right; exact Hx].
Qed.

Lemma in_pairs_inv p i j : In (i, j) (pairs p) -> i < p /\ j < p.
Proof.
  unfold pairs. intros H. apply in_flat_map in H. destruct H as (i' & Hi & H).
  apply in_map_iff in H. destruct H as (j' & E & Hj). injection E as <- <-.
  apply in_seq in Hi. apply in_seq in Hj. lia.
Qed.

Section Networks.
Variable K : CField.
Add Field Kf_en : (cth K).
Let O := ops_of K.
Local Open Scope cf_scope.
Variable n : nat.
Hypothesis Hn : small_n n.

Lemma small_pos : (0 < n)%nat.
Proof. destruct Hn as [<-|[<-|[<-|[]]]]; lia. Qed.

(* ---------------------------------------------------------------- TE10 / UE10 *)
Section N8.
Variables (ed er et em : nat -> K).

(* any S: the determining equation of the type at the terms read through the layout *)
Theorem eterms_physT_TE10_partial (S Mc : nat -> nat -> K) :
  (forall i, (i < n)%nat -> et i <> 0) ->
  right_kernel_trivial K n (ISE K S em) ->
  physE K n S ed er et em n n Mc ->
  let fe := fe_TE10 K n ed er et em in
  physT K n S (te_Ts K n n fe) (te_Ti K n n fe) (te_Tx K n n fe) (te_Tm K n n fe) n Mc.
Proof.
  intros Hnz Hr Hp fe.
  destruct (te_blocks_partial K n ed er et em Hn Hnz) as (As & Ai & Ax & Am).
  apply (physT_ext_imp K n S _ _ _ _ _ _ _ _ n Mc (le_n n)
           (agree_sym K n _ _ As) (agree_sym K n _ _ Ai) (agree_sym K n _ _ Ax) (agree_sym K n _ _ Am)).
  exact (eterms_give_physT K n S ed er et em (et 0%nat) n Mc (le_n n) Hnz Hr Hp).
Qed.

Theorem eterms_kernel_TE10_partial (S : nat -> nat -> K) :
  (forall i, (i < n)%nat -> et i <> 0) ->
  left_kernel_trivial K n (IES K S em) ->
  let fe := fe_TE10 K n ed er et em in
  left_kernel_trivial K n (NT K n S (te_Tx K n n fe) (te_Tm K n n fe)).
Proof.
  intros Hnz Hl fe.
  destruct (te_blocks_partial K n ed er et em Hn Hnz) as (As & Ai & Ax & Am).
  apply (left_kernel_ext K n (NT K n S (et_Tx K et em (et 0%nat)) (et_Tm K et (et 0%nat)))).
  - apply NT_ext; apply agree_sym; assumption.
  - exact (eterms_kernel_T K n S et em (et 0%nat) Hnz (Hnz 0%nat small_pos) Hl).
Qed.

Theorem eterms_physU_UE10_partial (S Mc : nat -> nat -> K) :
  (forall i, (i < n)%nat -> er i <> 0) ->
  physE K n S ed er et em n n Mc ->
  let fe := fe_UE10 K n ed er et em in
  physU K n S (ue_Um K n n fe) (ue_Ui K n n fe) (ue_Ux K n n fe) (ue_Us K n n fe) n Mc.
Proof.
  intros Hnz Hp fe.
  destruct (ue_blocks_partial K n ed er et em Hn Hnz) as (Am & Ai & Ax & As).
  apply (physU_ext_imp K n S _ _ _ _ _ _ _ _ n Mc (le_n n)
           (agree_sym K n _ _ Am) (agree_sym K n _ _ Ai) (agree_sym K n _ _ Ax) (agree_sym K n _ _ As)).
  exact (eterms_give_physU K n S ed er et em (er 0%nat) n Mc (le_n n) Hnz Hp).
Qed.

Theorem eterms_kernel_UE10_partial (S : nat -> nat -> K) :
  (forall i, (i < n)%nat -> er i <> 0) ->
  right_kernel_trivial K n (ISE K S em) ->
  let fe := fe_UE10 K n ed er et em in
  right_kernel_trivial K n (NU K n S (ue_Um K n n fe) (ue_Ux K n n fe)).
Proof.
  intros Hnz Hr fe.
  destruct (ue_blocks_partial K n ed er et em Hn Hnz) as (Am & Ai & Ax & As).
  apply (right_kernel_ext K n (NU K n S (eu_Um K er (er 0%nat)) (eu_Ux K er em (er 0%nat)))).
  - apply NU_ext; apply agree_sym; assumption.
  - exact (eterms_kernel_U K n S er em (er 0%nat) Hnz (Hnz 0%nat small_pos) Hr).
Qed.

(* the term function, the tracking terms that must not vanish, and the well-posedness of the E network, by type *)
Definition fe_box8 (ty : caltype) : nat -> K :=
  match ty with TE10 => fe_TE10 K n ed er et em | _ => fe_UE10 K n ed er et em end.
Definition box8_regular (ty : caltype) : Prop :=
  match ty with TE10 => forall i, (i < n)%nat -> et i <> 0 | _ => forall i, (i < n)%nat -> er i <> 0 end.
Definition box8_wellposed_std (ty : caltype) (S : nat -> nat -> K) : Prop :=
  match ty with
  | TE10 => right_kernel_trivial K n (ISE K S em) /\ left_kernel_trivial K n (IES K S em)
  | _ => right_kernel_trivial K n (ISE K S em)
  end.
Definition box8_wellposed_dev (ty : caltype) (S : nat -> nat -> K) : Prop :=
  match ty with TE10 => right_kernel_trivial K n (ISE K S em) | _ => True end.

Variables (pv : Z -> K) (fxof : mvals O -> nat -> K) (core : mvals O -> nat -> nat -> K).

Theorem eterms_network_of8_partial (ty : caltype) (mv : mvals O) :
  ty = TE10 \/ ty = UE10 ->
  box8_regular ty ->
  box8_wellposed_std ty (Sof K n n pv fxof mv) ->
  physE K n (Sof K n n pv fxof mv) ed er et em n n (core mv) ->
  network_of K n n (fe_box8 ty) pv fxof core ty mv.
Proof.
  intros [-> | ->] Hnz Hw Hp; cbn [network_of fe_box8]; cbn [box8_regular box8_wellposed_std] in Hnz, Hw.
  - destruct Hw as [Hr Hl]. unfold te_network. cbv zeta. rewrite Nat.max_id. split.
    + exact (eterms_physT_TE10_partial _ _ Hnz Hr Hp).
    + exact (eterms_kernel_TE10_partial _ Hnz Hl).
  - unfold ue_network. cbv zeta. rewrite Nat.max_id. split.
    + exact (eterms_physU_UE10_partial _ _ Hnz Hp).
    + exact (eterms_kernel_UE10_partial _ Hnz Hw).
Qed.

Theorem eterms_device_network8_partial (ty : caltype) (S Mc : nat -> nat -> K) :
  ty = TE10 \/ ty = UE10 ->
  box8_regular ty ->
  box8_wellposed_dev ty S ->
  physE K n S ed er et em n n Mc ->
  device_network K ty n (fe_box8 ty) Mc S.
Proof.
  intros [-> | ->] Hnz Hw Hp; cbn [device_network fe_box8]; cbn [box8_regular box8_wellposed_dev] in Hnz, Hw.
  - exact (eterms_physT_TE10_partial _ _ Hnz Hw Hp).
  - exact (eterms_physU_UE10_partial _ _ Hnz Hp).
Qed.
End N8.

(* ---------------------------------------------------------------- UE14 / E12 (solved as E12_UE14) *)
Section N14.
Variables (ed et : nat -> K) (er em : nat -> nat -> K).
Let fe := fe_UE14 K n ed et er em.

Theorem eterms_phys14_partial (ty : caltype) (S Mc : nat -> nat -> K) :
  ty = UE14 \/ ty = E12_UE14 ->
  (forall c i, (c < n)%nat -> (i < n)%nat -> er c i <> 0) ->
  physE14 K n S ed et er em n Mc ->
  phys14 K n S (c14_um K n n fe ty) (c14_ux K n n fe ty) (c14_ui K n n fe ty) (c14_us K n n fe ty) n Mc.
Proof.
  intros Hty Hnz Hp.
  destruct (c14_blocks_partial K n ty ed et er em Hn Hty Hnz) as (Am & Ax & Ai & As).
  apply (phys14_ext_imp K n S (e14_um K (kk14 K er) er) (e14_ux K (kk14 K er) er em)
           (e14_ui K ed (kk14 K er) er) (e14_us K ed et (kk14 K er) er em)).
  - intros c i Hc Hi. symmetry. exact (Am c i Hc Hi).
  - intros c i Hc Hi. symmetry. exact (Ax c i Hc Hi).
  - intros c Hc. symmetry. exact (Ai c Hc).
  - intros c Hc. symmetry. exact (As c Hc).
  - exact (eterms_give_phys14 K n S ed et (kk14 K er) er em n Mc (le_n n) Hnz Hp).
Qed.

Theorem eterms_kernel_14_partial (ty : caltype) (S : nat -> nat -> K) :
  ty = UE14 \/ ty = E12_UE14 ->
  (forall c i, (c < n)%nat -> (i < n)%nat -> er c i <> 0) ->
  (forall c, (c < n)%nat -> right_kernel_trivial K n (ISE K S (em c))) ->
  forall c, (c < n)%nat -> right_kernel_trivial K n (N14 K S (c14_um K n n fe ty) (c14_ux K n n fe ty) c).
Proof.
  intros Hty Hnz Hr c Hc.
  destruct (c14_blocks_partial K n ty ed et er em Hn Hty Hnz) as (Am & Ax & _ & _).
  apply (right_kernel_ext K n (N14 K S (e14_um K (kk14 K er) er) (e14_ux K (kk14 K er) er em) c)).
  - apply (N14_ext K n S n _ _ _ _ c Hc).
    + intros c' i Hc' Hi. symmetry. exact (Am c' i Hc' Hi).
    + intros c' i Hc' Hi. symmetry. exact (Ax c' i Hc' Hi).
  - exact (eterms_kernel_14 K n S (kk14 K er) er em n Hnz (fun c' Hc' => Hnz c' c' Hc' Hc') Hr c Hc).
Qed.

(* E12: the solved terms are regular when, in addition, no et c vanishes: us_c um_c[c] - ui_c ux_c[c] = er c c * et c *)
Theorem eterms_e12_regular_partial :
  (forall c i, (c < n)%nat -> (i < n)%nat -> er c i <> 0) ->
  (forall c, (c < n)%nat -> et c <> 0) ->
  e12_regular K n fe.
Proof.
  intros Hnz Het.
  destruct (c14_blocks_partial K n E12_UE14 ed et er em Hn (or_intror eq_refl) Hnz) as (Am & Ax & Ai & As).
  split.
  - apply (conj_all_intro (fun ck => c14_um K n n fe E12_UE14 (fst ck) (snd ck) <> c0)).
    intros [c k] Hin. destruct (in_pairs_inv n c k Hin) as [Hc Hk]. cbn [fst snd].
    fold fe in Am. rewrite (Am c k Hc Hk). unfold e14_um, kk14.
    exact (div_nz K _ _ (Hnz c c Hc Hc) (Hnz c k Hc Hk)).
  - apply (conj_all_intro (fun c => e12_nd K n fe c <> c0)).
    intros c Hin. apply in_seq in Hin. assert (Hc : (c < n)%nat) by lia.
    unfold e12_nd. fold fe in Am, Ax, Ai, As.
    rewrite (Am c c Hc Hc), (Ax c c Hc Hc), (Ai c Hc), (As c Hc).
    unfold e14_um, e14_ux, e14_ui, e14_us, kk14.
    pose proof (Hnz c c Hc Hc) as Hcc.
    replace (er c c * (et c - em c c * ed c / er c c) * (er c c / er c c)
             - - er c c * ed c / er c c * (er c c * em c c / er c c)) with (er c c * et c) by (field; exact Hcc).
    exact (mul_nz K _ _ Hcc (Het c Hc)).
Qed.

Variables (pv : Z -> K) (fxof : mvals O -> nat -> K) (core : mvals O -> nat -> nat -> K).

Theorem eterms_network_of14_partial (sty : caltype) (mv : mvals O) :
  sty = UE14 \/ sty = E12_UE14 ->
  (forall c i, (c < n)%nat -> (i < n)%nat -> er c i <> 0) ->
  (forall c, (c < n)%nat -> right_kernel_trivial K n (ISE K (Sof K n n pv fxof mv) (em c))) ->
  physE14 K n (Sof K n n pv fxof mv) ed et er em n (core mv) ->
  network_of K n n fe pv fxof core sty mv.
Proof.
  intros Hty Hnz Hr Hp.
  assert (E : network_of K n n fe pv fxof core sty mv = c14_network K n n fe pv fxof core sty mv)
    by (destruct Hty as [-> | ->]; reflexivity).
  rewrite E. unfold c14_network. cbv zeta. rewrite Nat.max_id. split.
  - exact (eterms_phys14_partial sty _ _ Hty Hnz Hp).
  - exact (eterms_kernel_14_partial sty _ Hty Hnz Hr).
Qed.

Theorem eterms_device_network14_partial (ty : caltype) (S Mc : nat -> nat -> K) :
  ty = UE14 \/ ty = E12 ->
  (forall c i, (c < n)%nat -> (i < n)%nat -> er c i <> 0) ->
  (ty = E12 -> forall c, (c < n)%nat -> et c <> 0) ->
  physE14 K n S ed et er em n Mc ->
  device_network K ty n fe Mc S.
Proof.
  intros [-> | ->] Hnz Het Hp; cbn [device_network].
  - exact (eterms_phys14_partial UE14 _ _ (or_introl eq_refl) Hnz Hp).
  - split.
    + exact (eterms_phys14_partial E12_UE14 _ _ (or_intror eq_refl) Hnz Hp).
    + exact (eterms_e12_regular_partial Hnz (Het eq_refl)).
Qed.
End N14.
End Networks.

(* ================================================================ 4. the composition with the E box as the hypothesis *)
Lemma in_dev_cases_all ty n : In ty [TE10; UE10; UE14; E12] -> In n [1; 2; 3] -> In (ty, n) dev_cases_all.
Proof.
  intros Ht Hn. unfold dev_cases_all. apply in_flat_map. exists ty. split; [exact Ht|].
  apply in_map_iff. exists n. split; [reflexivity | exact Hn].
Qed.

(* TE10 / UE10.  Bound (in the statement): stored type TE10 or UE10, square dimensions n = 1..3, standards of the
   family AssembleList.zcfgs (std_of), Gaussian rationals. *)
Theorem c01_model_end_to_end_leak_eterms_partial (ty : caltype) (n : nat) :
  In ty [TE10; UE10] -> In n [1; 2; 3] ->
  forall (ed er et em : nat -> qi) (el : nat -> nat -> qi) (pv : Z -> qi) (ms : list (mvals qops))
         (fxof : mvals qops -> nat -> qi) (core : mvals qops -> nat -> nat -> qi),
  (* the tracking terms the conversion divides by: et (TE10), er (UE10) *)
  box8_regular QIF n er et ty ->
  (* every standard: of the family; the E network is well posed on it and gives the core response; leakage added *)
  (forall mv, In mv ms ->
     std_of QIF ty n n mv /\
     (box8_wellposed_std QIF n em ty (Sof QIF n n pv fxof mv) /\
      physE QIF n (Sof QIF n n pv fxof mv) ed er et em n n (core mv)) /\
     measured_with_leakage QIF n n el core mv) ->
  covered QIF n n el ms ->
  (forall sys, sys < systems_of ty n ->
     let rows := q_assemble ty n n ms pv sys in
     unknowns ty n n <= length rows /\ kernel_trivial (unknowns ty n n) rows) ->
  let e_true := dev_vector QIF ty n (fe_box8 QIF n ed er et em ty) el in
  q_error_terms ty n n ms pv = Some e_true /\
  forall (m s : list qi) (Mc : nat -> nat -> qi), length m = n * n -> length s = n * n ->
    let S := fun a b => nth (a * n + b) s (@c0 QIF) in
    box8_wellposed_dev QIF n em ty S ->
    physE QIF n S ed er et em n n Mc ->
    (forall r c, r < n -> c < n ->
       nth (r * n + c) m (@c0 QIF) = @cadd QIF (Mc r c) (if Nat.eqb r c then @c0 QIF else el r c)) ->
    forall a b x, q_apply ty n n e_true m = AOk a b x -> x = s.
Proof.
  intros Hty Hn ed er et em el pv ms fxof core Hreg Hstd Hcov Hrank e_true.
  assert (Hty8 : ty = TE10 \/ ty = UE10) by (destruct Hty as [<-|[<-|[]]]; auto).
  assert (Hin : In (ty, n) dev_cases_all).
  { apply in_dev_cases_all; [|exact Hn]. destruct Hty8 as [-> | ->]; cbn; tauto. }
  assert (Est : solve_type ty = ty) by (destruct Hty8 as [-> | ->]; reflexivity).
  pose proof (c01_model_end_to_end_leak_lemma2 ty n Hin) as L. cbv zeta in L. rewrite Est in L.
  destruct (L (fe_box8 QIF n ed er et em ty) el pv ms fxof core) as [Hq Hap].
  - intros mv Hmv. destruct (Hstd mv Hmv) as (H1 & (Hw & Hp) & H3). split; [exact H1|]. split; [|exact H3].
    exact (eterms_network_of8_partial QIF n Hn ed er et em pv fxof core ty mv Hty8 Hreg Hw Hp).
  - exact Hcov.
  - exact Hrank.
  - split; [exact Hq|].
    intros m s Mc Hm Hs S Hw Hp Hmeas a b x Ha.
    refine (Hap m s Mc Hm Hs _ Hmeas a b x Ha).
    exact (eterms_device_network8_partial QIF n Hn ed er et em ty S Mc Hty8 Hreg Hw Hp).
Qed.

(* UE14 / E12 (solved as E12_UE14).  Bound (in the statement): stored type UE14 or E12, square dimensions n = 1..3,
   standards of the family AssembleList.zcfgs (std_of), Gaussian rationals. *)
Theorem c01_model_end_to_end_leak_eterms14_partial (ty : caltype) (n : nat) :
  In ty [UE14; E12] -> In n [1; 2; 3] ->
  let sty := solve_type ty in
  forall (ed et : nat -> qi) (er em : nat -> nat -> qi) (el : nat -> nat -> qi) (pv : Z -> qi)
         (ms : list (mvals qops)) (fxof : mvals qops -> nat -> qi) (core : mvals qops -> nat -> nat -> qi),
  (forall c i, c < n -> i < n -> er c i <> @c0 QIF) ->
  (ty = E12 -> forall c, c < n -> et c <> @c0 QIF) ->
  (forall mv, In mv ms ->
     std_of QIF sty n n mv /\
     ((forall c, c < n -> right_kernel_trivial QIF n (ISE QIF (Sof QIF n n pv fxof mv) (em c))) /\
      physE14 QIF n (Sof QIF n n pv fxof mv) ed et er em n (core mv)) /\
     measured_with_leakage QIF n n el core mv) ->
  covered QIF n n el ms ->
  (forall sys, sys < systems_of sty n ->
     let rows := q_assemble sty n n ms pv sys in
     unknowns sty n n <= length rows /\ kernel_trivial (unknowns sty n n) rows) ->
  let e_true := dev_vector QIF ty n (fe_UE14 QIF n ed et er em) el in
  q_error_terms sty n n ms pv = Some e_true /\
  forall (m s : list qi) (Mc : nat -> nat -> qi), length m = n * n -> length s = n * n ->
    physE14 QIF n (fun a b => nth (a * n + b) s (@c0 QIF)) ed et er em n Mc ->
    (forall r c, r < n -> c < n ->
       nth (r * n + c) m (@c0 QIF) = @cadd QIF (Mc r c) (if Nat.eqb r c then @c0 QIF else el r c)) ->
    forall a b x, q_apply ty n n e_true m = AOk a b x -> x = s.
Proof.
  intros Hty Hn sty ed et er em el pv ms fxof core Hnz Het Hstd Hcov Hrank e_true.
  assert (Hty14 : ty = UE14 \/ ty = E12) by (destruct Hty as [<-|[<-|[]]]; auto).
  assert (Hin : In (ty, n) dev_cases_all).
  { apply in_dev_cases_all; [|exact Hn]. destruct Hty14 as [-> | ->]; cbn; tauto. }
  assert (Hsty : sty = UE14 \/ sty = E12_UE14) by (unfold sty; destruct Hty14 as [-> | ->]; cbn; auto).
  pose proof (c01_model_end_to_end_leak_lemma2 ty n Hin) as L. cbv zeta in L. fold sty in L.
  destruct (L (fe_UE14 QIF n ed et er em) el pv ms fxof core) as [Hq Hap].
  - intros mv Hmv. destruct (Hstd mv Hmv) as (H1 & (Hw & Hp) & H3). split; [exact H1|]. split; [|exact H3].
    exact (eterms_network_of14_partial QIF n Hn ed et er em pv fxof core sty mv Hsty Hnz Hw Hp).
  - exact Hcov.
  - exact Hrank.
  - split; [exact Hq|].
    intros m s Mc Hm Hs Hp Hmeas a b x Ha.
    refine (Hap m s Mc Hm Hs _ Hmeas a b x Ha).
    exact (eterms_device_network14_partial QIF n Hn ed et er em ty _ Mc Hty14 Hnz Het Hp).
Qed.

(* ================================================================ 5. the term functions at a concrete box *)
(* the 2-port box of LeakETerms (ex_ed, ex_er, ex_et, ex_em): the unity terms are 1, and the box is not degenerate *)
Example fe_unity_terms :
  fe_TE10 QIF 2 ex_ed ex_er ex_et ex_em 6 = qi1 /\ fe_UE10 QIF 2 ex_ed ex_er ex_et ex_em 0 = qi1 /\
  fe_UE14 QIF 2 ex_ed ex_et (fun _ => ex_er) (fun _ => ex_em) 0 = qi1 /\
  fe_UE14 QIF 2 ex_ed ex_et (fun _ => ex_er) (fun _ => ex_em) 7 = qi1 /\
  fe_TE10 QIF 2 ex_ed ex_er ex_et ex_em 7 <> qi1 /\ fe_TE10 QIF 2 ex_ed ex_er ex_et ex_em 0 <> @c0 QIF.
Proof. repeat split; try qdec_e; qnz_e. Qed.

(* the example network of LeakETerms, as the hypothesis of device_network through the layout (TE10 and UE10, n = 2) *)
Example eterms_example_device :
  device_network QIF TE10 2 (fe_box8 QIF 2 ex_ed ex_er ex_et ex_em TE10) ex_Mc ex_S /\
  device_network QIF UE10 2 (fe_box8 QIF 2 ex_ed ex_er ex_et ex_em UE10) ex_Mc ex_S.
Proof.
  assert (H2 : small_n 2) by (cbn; tauto).
  split.
  - exact (eterms_device_network8_partial QIF 2 H2 ex_ed ex_er ex_et ex_em TE10 ex_S ex_Mc
             (or_introl eq_refl) ex_et_nz ex_ISE_kernel ex_physE).
  - exact (eterms_device_network8_partial QIF 2 H2 ex_ed ex_er ex_et ex_em UE10 ex_S ex_Mc
             (or_intror eq_refl) ex_er_nz I ex_physE).
Qed.
