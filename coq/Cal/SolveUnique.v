(* solve_unique: what the exact model of the solvers guarantees for the assembled systems
   (instances of the C19 theorems lu_solves / ls_solve_normal / ls_consistent_exact, which
   Properties_C19.v exports as c19_lu_solves, c19_ls_solve_normal, c19_ls_consistent_exact):
   square case - when every pivot met is non-zero the LU solution solves the system, and the system has
   no other solution (trivial kernel); tall case - the normal-equation (least-squares) solution of a
   CONSISTENT system (one that some x0 solves exactly, e.g. the true error terms) solves it exactly. *)
Require Import List Arith QArith Qcanon.
Require Import LV.Base.CField LV.Base.QcI LV.Lin.MatL LV.Lin.LuModel LV.Lin.LuQI LV.Lin.LuQI2
               LV.Lin.LuGenA LV.Lin.LuProofs LV.Lin.LsSpec LV.Lin.LsProofs.
Import ListNotations.
Local Open Scope nat_scope.

Lemma solve_square_exact_lemma (n : nat) (a b : mat QIF) :
  wf n n a -> pivots_nonzero QIF Qc qi_nrm Qcmult Qc_ltb 0%Qc row_scale_of_max a n -> wf n 1 b ->
  forall i, i < n ->
    mget QIF (mmul QIF n n 1 a (fst (q_mldivide a b n 1))) i 0 = mget QIF b i 0.
Proof.
  intros Hwf Hp Hb i Hi.
  destruct (lu_solves QIF Qc qi_nrm Qcmult Qc_ltb 0%Qc row_scale_of_max n a Hwf Hp) as (H1 & _).
  apply (H1 1 b Hb i 0 Hi). auto.
Qed.

Lemma solve_square_unique_lemma (n : nat) (a : mat QIF) :
  wf n n a -> pivots_nonzero QIF Qc qi_nrm Qcmult Qc_ltb 0%Qc row_scale_of_max a n ->
  forall v, in_kernel QIF a n v -> forall k, k < n -> v k = c0.
Proof. exact (lu_kernel_trivial QIF Qc qi_nrm Qcmult Qc_ltb 0%Qc row_scale_of_max a n). Qed.

Lemma solve_tall_consistent_exact_lemma (m n : nat) (a b x : mat QIF) :
  q2_ls_solve m n 1 a b = Some x ->
  (exists x0 : mat QIF, forall i k, i < m -> k < 1 -> mget QIF (mmul QIF m n 1 a x0) i k = mget QIF b i k) ->
  forall i, i < m -> mget QIF (mmul QIF m n 1 a x) i 0 = mget QIF b i 0.
Proof.
  intros Hs Hx i Hi.
  apply (ls_consistent_exact m n 1 a b x (ls_solve_normal m n 1 a b x Hs) Hx i 0 Hi). auto.
Qed.
