(* solve_unique: what the exact model of the solvers guarantees for the assembled systems
   (instances of the lemmas lu_solves / lu_kernel_trivial (Lin/LuProofs.v) and ls_solve_normal /
   ls_consistent_exact (Lin/LsProofs.v) of property C19; Properties_C19.v exports the conditional form
   used here as c19_lu_solves_if_pivots_nonzero -- its c19_lu_solves is stated from a hypothesis on the
   input matrix -- and the two least-squares lemmas as c19_ls_gj_oracle_sound_by_construction and
   c19_ls_consistent_exact_spec_level):
   square case - when every pivot met is non-zero the LU solution solves the system, and the system has
   no other solution (trivial kernel); tall case - the normal-equation (least-squares) solution of a
   CONSISTENT system (one that some x0 solves exactly, e.g. the true error terms) solves it exactly. *)
Require Import List Arith QArith Qcanon.
Require Import LV.Base.CField LV.Base.QcI LV.Lin.MatL LV.Lin.LuModel LV.Lin.LuQI LV.Lin.LuQI2
               LV.Lin.LuGenA LV.Lin.LuProofs LV.Lin.LsSpec LV.Lin.LsProofs.
Import ListNotations.
Local Open Scope nat_scope.

Lemma solve_square_exact_lemma (n : nat) (a b : mat QIF) :
  wf n n a -> pivots_nonzero QIF Qc qi_nrm Qcmult Qc_ltb 0%Qc row_scale_of_max a n -> wf n 1 b ->
  forall i, i < n ->
    mget QIF (mmul QIF n n 1 a (fst (q_mldivide a b n 1))) i 0 = mget QIF b i 0.
Proof.
  intros Hwf Hp Hb i Hi.
  destruct (lu_solves QIF Qc qi_nrm Qcmult Qc_ltb 0%Qc row_scale_of_max n a Hwf Hp) as (H1 & _).
  apply (H1 1 b Hb i 0 Hi). auto.
Qed.

Lemma solve_square_unique_lemma (n : nat) (a : mat QIF) :
  wf n n a -> pivots_nonzero QIF Qc qi_nrm Qcmult Qc_ltb 0%Qc row_scale_of_max a n ->
  forall v, in_kernel QIF a n v -> forall k, k < n -> v k = c0.
Proof. exact (lu_kernel_trivial QIF Qc qi_nrm Qcmult Qc_ltb 0%Qc row_scale_of_max a n). Qed.

Lemma solve_tall_consistent_exact_lemma (m n : nat) (a b x : mat QIF) :
  q2_ls_solve m n 1 a b = Some x ->
  (exists x0 : mat QIF, forall i k, i < m -> k < 1 -> mget QIF (mmul QIF m n 1 a x0) i k = mget QIF b i k) ->
  forall i, i < m -> mget QIF (mmul QIF m n 1 a x) i 0 = mget QIF b i 0.
Proof.
  intros Hs Hx i Hi.
  apply (ls_consistent_exact m n 1 a b x (ls_solve_normal m n 1 a b x Hs) Hx i 0 Hi). auto.
Qed.

(* ---------------------------------------------------------------- the hypotheses can be met *)
Require Import Lia.
Definition su_a : mat QIF := [[mkqi 2 1 0 1; mkqi 1 1 1 1]; [mkqi 0 1 1 1; mkqi 3 1 0 1]].
Definition su_b : mat QIF := [[mkqi 1 1 0 1]; [mkqi 0 1 2 1]].

Example solve_square_nonvacuous :
  wf 2 2 su_a /\ pivots_nonzero QIF Qc qi_nrm Qcmult Qc_ltb 0%Qc row_scale_of_max su_a 2 /\ wf 2 1 su_b.
Proof.
  split; [split; [reflexivity | repeat constructor]|].
  split; [|split; [reflexivity | repeat constructor]].
  intros j Hj. apply qi_neqb.
  destruct j as [|[|j]]; [vm_compute; reflexivity | vm_compute; reflexivity | lia].
Qed.

(* a consistent tall system: the C19 example ex2 (3 x 2, two right-hand sides) restricted to its first column *)
Definition su_ta : mat QIF := [[mkqi 1 1 0 1; mkqi 0 1 0 1]; [mkqi 0 1 0 1; mkqi 1 1 0 1]; [mkqi 1 1 0 1; mkqi 1 1 0 1]].
Definition su_tx : mat QIF := [[mkqi 1 1 1 1]; [mkqi 2 1 0 1]].
Definition su_tb : mat QIF := mmul QIF 3 2 1 su_ta su_tx.

Example solve_tall_nonvacuous :
  q2_ls_solve 3 2 1 su_ta su_tb = Some su_tx /\
  exists x0 : mat QIF, forall i k, i < 3 -> k < 1 -> mget QIF (mmul QIF 3 2 1 su_ta x0) i k = mget QIF su_tb i k.
Proof.
  split; [apply omat_eqb_sound; vm_compute; reflexivity|].
  exists su_tx. intros i k Hi Hk. reflexivity.
Qed.
