(* ALL hypotheses of EndToEndFinal.c01_model_end_to_end_leak_lemma2 at once, and its conclusion computed:
   2 x 2 TE10 at the Gaussian rationals, ideal core network, El12 = 1/4 + i/8, El21 = 1/3, a MINIMAL determining set
   of three standards of the family zcfgs -- a through-like two-port (S11 = S22 = known zero, S12 = S21 = 1: 4
   equations), a two-port with S12 = S21 = known zero and reflections -1, 1/2 (2 equations, samples both leakage
   cells), a match on port 1 with port 2 not given (1 equation, samples both cells) -- 7 equations for 7 unknowns:
   the square (LU) branch.  Full column rank is obtained from the solve model's own success through
   DeterminingProofs.system_ok_iff.  Device: a non-reciprocal two-port. *)
Require Import List ZArith Bool Arith Lia QArith Qcanon.
Require Import LV.Base.CField LV.Base.QcI LV.Lin.MatL LV.Lin.LuModel LV.Lin.LuQI LV.Lin.LuQI2 LV.Lin.LsSpec LV.Lin.LuGenA.
Require Import LV.Gen.LayoutGen LV.Cal.Sym LV.Cal.TermsModel LV.Cal.AddModel LV.Cal.ApplyModel LV.Cal.SolveSimple
               LV.Cal.CalQI LV.Cal.LeakProofs LV.Cal.ApplyIdentity LV.Cal.AssembleIdentity LV.Cal.AssembleList
               LV.Cal.ApplyRecovers LV.Cal.SolveRecovers LV.Cal.EndToEnd
               LV.Cal.LeakPhysical LV.Cal.LeakPhysicalEx LV.Cal.EndToEndLeak LV.Cal.EndToEndAll LV.Cal.EndToEndDevice
               LV.Cal.EndToEndFinal.
Require Import LV.SolveCount.DeterminingProofs.
Import ListNotations.
Local Open Scope nat_scope.
Add Field qif_fx : (cth QIF).

Definition fz_c1 : zcfg := (TE10, (2, 2), [1; 2], [true; false; false; true]).
Definition fz_c2 : zcfg := (TE10, (2, 2), [1; 2], [false; true; true; false]).
Definition fz_c3 : zcfg := (TE10, (2, 2), [1], [true]).
Definition fz_pv (h : Z) : qi :=
  if Z.eqb h 3 then mkqi (-1) 1 0 1 else if Z.eqb h 6 then mkqi 1 2 0 1 else mkqi 1 1 0 1.
Definition fz_meas (c : zcfg) : measurement :=
  match add_common (zcfg_args c) with Accepted m => m | _ => mkMeas [] [] None [] end.
Definition fz_S (c : zcfg) (i j : nat) : qi := std_S QIF 2 2 (fz_meas c) (fun _ => qi0) fz_pv i j.
(* ideal core: Mc = S; measured = S + El off the diagonal *)
Definition fz_mv (c : zcfg) : mvals QO :=
  mkMV QO (fz_meas c) [fz_S c 0 0; qi_add (fz_S c 0 1) (lx_el 0 1); qi_add (fz_S c 1 0) (lx_el 1 0); fz_S c 1 1].
Definition fz_ms : list (mvals QO) := [fz_mv fz_c1; fz_mv fz_c2; fz_mv fz_c3].
Definition fz_core (mv : mvals QO) (r c : nat) : qi := std_S QIF 2 2 (mv_meas QO mv) (fun _ => qi0) fz_pv r c.

Definition fz_s : list qi := [mkqi 1 3 0 1; mkqi 1 5 0 1; mkqi 0 1 1 2; mkqi (-1) 4 0 1].
Definition fz_Mc (r c : nat) : qi := nth (r * 2 + c) fz_s qi0.
Definition fz_m : list qi := [fz_Mc 0 0; qi_add (fz_Mc 0 1) (lx_el 0 1); qi_add (fz_Mc 1 0) (lx_el 1 0); fz_Mc 1 1].

Ltac two i Hi := destruct i as [|[|i]]; [| |exfalso; lia].
Ltac qdec := apply qi_eqb_eq; vm_compute; reflexivity.
Ltac keq := match goal with |- @eq _ ?x ?y => change (@eq (F QIF) x y) end.

Lemma fz_kernel mv : In mv fz_ms ->
  left_kernel_trivial QIF 2 (NT QIF 2 (Sof QIF 2 2 fz_pv lx_fx mv) (te_Tx QIF 2 2 lx_fe) (te_Tm QIF 2 2 lx_fe)).
Proof.
  intros Hmv x H k Hk.
  assert (N00 : forall mv', In mv' fz_ms -> forall a j, a < 2 -> j < 2 ->
            NT QIF 2 (Sof QIF 2 2 fz_pv lx_fx mv') (te_Tx QIF 2 2 lx_fe) (te_Tm QIF 2 2 lx_fe) a j
            = if Nat.eqb a j then @c1 QIF else @c0 QIF).
  { intros mv' [<-|[<-|[<-|[]]]] a j Ha Hj; two a Ha; two j Hj; qdec. }
  pose proof (H k Hk) as E. cbn [sumf] in E.
  rewrite !(N00 mv Hmv) in E by lia.
  two k Hk; cbn [Nat.eqb] in E.
  - transitivity (cadd (cadd c0 (cmul (x 0) c1)) (cmul (x 1) c0)); [keq; ring | exact E].
  - transitivity (cadd (cadd c0 (cmul (x 0) c0)) (cmul (x 1) c1)); [keq; ring | exact E].
Qed.

Ltac in_zcfgs :=
  apply in_flat_map; exists TE10; split; [simpl; tauto|];
  unfold zcfgs_for; apply in_flat_map; exists (2, 2); split; [vm_compute; tauto|];
  vm_compute; repeat (first [left; reflexivity | right]).

Definition sysok_is (r : sys_res) : bool := match r with SysOk _ _ => true | _ => false end.

(* assembled once *)
Lemma fz_rows_count : length (q_assemble TE10 2 2 fz_ms fz_pv 0) = 7 /\ unknowns TE10 2 2 = 7.
Proof. split; vm_compute; reflexivity. Qed.

(* a positive verdict of the solve model names the assembled rows (all arguments; no computation) *)
Lemma sysok_sound ty mr mc (ms : list (mvals qops)) (pv : Z -> qi) sys :
  sysok_is (q_solve_system ty mr mc ms pv sys) = true ->
  exists x, q_solve_system ty mr mc ms pv sys = SysOk (q_assemble ty mr mc ms pv sys) x.
Proof.
  intros C. destruct (q_solve_system ty mr mc ms pv sys) as [rows x| |] eqn:E; try discriminate.
  exists x. f_equal. unfold q_solve_system in E. unfold q_assemble.
  destruct (Nat.ltb _ _); [discriminate|]. destruct (Nat.eqb _ _).
  - destruct (q_mldivide _ _ _ _) as [X d]. destruct (qi_eqb d qi0); [discriminate|]. congruence.
  - destruct (q2_ls_solve _ _ _ _ _); [congruence | discriminate].
Qed.

(* verdict once: the square system is solved by the LU model, hence has full column rank *)
Lemma fz_verdict : sysok_is (q_solve_system TE10 2 2 fz_ms fz_pv 0) = true.
Proof. vm_compute. reflexivity. Qed.

Lemma fz_rank : kernel_trivial (unknowns TE10 2 2) (q_assemble TE10 2 2 fz_ms fz_pv 0).
Proof. exact (proj2 (proj1 (system_ok_iff TE10 2 2 fz_ms fz_pv 0) (sysok_sound TE10 2 2 fz_ms fz_pv 0 fz_verdict))). Qed.

(* apply once *)
Lemma fz_apply : exists a b, q_apply TE10 2 2 (dev_vector QIF TE10 2 lx_fe lx_el) fz_m = AOk a b fz_s.
Proof. apply res_is_sound. vm_compute. reflexivity. Qed.

Example c01_model_end_to_end_leak_nonvacuous :
  In (TE10, 2) dev_cases_all /\
  (forall mv, In mv fz_ms ->
     std_of QIF TE10 2 2 mv /\ network_of QIF 2 2 lx_fe fz_pv lx_fx fz_core TE10 mv /\
     measured_with_leakage QIF 2 2 lx_el fz_core mv) /\
  covered QIF 2 2 lx_el fz_ms /\
  (forall sys, sys < systems_of TE10 2 ->
     let rows := q_assemble TE10 2 2 fz_ms fz_pv sys in
     length rows = 7 /\ unknowns TE10 2 2 <= length rows /\ kernel_trivial (unknowns TE10 2 2) rows) /\
  length fz_m = 4 /\ length fz_s = 4 /\
  device_network QIF TE10 2 lx_fe fz_Mc (fun a b => nth (a * 2 + b) fz_s (@c0 QIF)) /\
  (forall r c, r < 2 -> c < 2 ->
     nth (r * 2 + c) fz_m (@c0 QIF) = @cadd QIF (fz_Mc r c) (if Nat.eqb r c then @c0 QIF else lx_el r c)) /\
  (* the conclusions, as the theorem gives them and as computed *)
  q_error_terms TE10 2 2 fz_ms fz_pv = Some (dev_vector QIF TE10 2 lx_fe lx_el) /\
  (forall a b x, q_apply TE10 2 2 (dev_vector QIF TE10 2 lx_fe lx_el) fz_m = AOk a b x -> x = fz_s) /\
  exists a b, q_apply TE10 2 2 (dev_vector QIF TE10 2 lx_fe lx_el) fz_m = AOk a b fz_s.
Proof.
  assert (H : forall mv, In mv fz_ms ->
     std_of QIF TE10 2 2 mv /\ network_of QIF 2 2 lx_fe fz_pv lx_fx fz_core TE10 mv /\
     measured_with_leakage QIF 2 2 lx_el fz_core mv).
  { intros mv Hmv. split; [|split; [split|]].
    - destruct Hmv as [<-|[<-|[<-|[]]]].
      + exists fz_c1. split; [in_zcfgs|]. repeat split; vm_compute; reflexivity.
      + exists fz_c2. split; [in_zcfgs|]. repeat split; vm_compute; reflexivity.
      + exists fz_c3. split; [in_zcfgs|]. repeat split; vm_compute; reflexivity.
    - intros i j Hi Hj. destruct Hmv as [<-|[<-|[<-|[]]]]; two i Hi; two j Hj; qdec.
    - exact (fz_kernel mv Hmv).
    - intros r c Hr Hc. destruct Hmv as [<-|[<-|[<-|[]]]]; two r Hr; two c Hc; qdec. }
  assert (Hcov : covered QIF 2 2 lx_el fz_ms).
  { intros r c Hr Hc Hrc Hn. exfalso. two r Hr; two c Hc; try lia; vm_compute in Hn; discriminate. }
  assert (Hrank : forall sys, sys < systems_of TE10 2 ->
     let rows := q_assemble TE10 2 2 fz_ms fz_pv sys in
     length rows = 7 /\ unknowns TE10 2 2 <= length rows /\ kernel_trivial (unknowns TE10 2 2) rows).
  { intros sys Hs. assert (sys = 0) by (vm_compute in Hs; lia). subst sys. cbv zeta.
    destruct fz_rows_count as [E1 E2]. split; [exact E1|]. split; [rewrite E1, E2; lia | exact fz_rank]. }
  assert (Hdev : device_network QIF TE10 2 lx_fe fz_Mc (fun a b => nth (a * 2 + b) fz_s (@c0 QIF))).
  { intros i j Hi Hj. two i Hi; two j Hj; qdec. }
  assert (Hmeas : forall r c, r < 2 -> c < 2 ->
     nth (r * 2 + c) fz_m (@c0 QIF) = @cadd QIF (fz_Mc r c) (if Nat.eqb r c then @c0 QIF else lx_el r c)).
  { intros r c Hr Hc. two r Hr; two c Hc; qdec. }
  split; [vm_compute; tauto|]. split; [exact H|]. split; [exact Hcov|]. split; [exact Hrank|].
  split; [reflexivity|]. split; [reflexivity|]. split; [exact Hdev|]. split; [exact Hmeas|].
  pose proof (c01_model_end_to_end_leak_lemma2 TE10 2 ltac:(vm_compute; tauto) lx_fe lx_el fz_pv fz_ms lx_fx fz_core H Hcov
                (fun sys Hs => proj2 (Hrank sys Hs))) as [Hq Hap].
  split; [exact Hq|]. split.
  - intros a b x Ha. exact (Hap fz_m fz_s fz_Mc eq_refl eq_refl Hdev Hmeas a b x Ha).
  - exact fz_apply.
Qed.
