(* build_connectivity_matrix (vnacal_new_add_common.c) for EVERY number of ports and EVERY S matrix:
   the union-find code as coded (AddModel: find_leader, collapse, find_set, union, scan_set, conn_scan)
   computes the reflexive - symmetric - transitive closure of "S cell (a, b), a <> b, is not the known zero".

   Invariant of the scan (Inv): the array is a forest whose parent links go to smaller indices (wfset:
   acyclic, and the fuel n of find_leader is never used up), the leader function is constant on every
   class of the closure of the cells processed so far, and two ports with the same leader are related
   by that closure.  find() changes the array but no leader (find_set_spec); a union redirects the
   larger leader to the smaller one (link_spec).

   Corollary: equivariance under every renumbering of the ports (connectivity_equivariant). *)
Require Import List ZArith Bool Arith Lia Relations Permutation.
Require Import LV.Gen.LayoutGen LV.Cal.TermsModel LV.Cal.AddModel.
Import ListNotations.
Local Open Scope nat_scope.

(* ---------------------------------------------------------------- arrays *)
Lemma upd_length {A} (l : list A) i x : length (upd l i x) = length l.
Proof. revert i; induction l as [|y r IH]; intros [|i]; simpl; auto. Qed.

Lemma nth_upd_same {A} (l : list A) i x d : i < length l -> nth i (upd l i x) d = x.
Proof. revert i; induction l as [|y r IH]; intros [|i] H; simpl in *; try lia; auto. apply IH; lia. Qed.

Lemma nth_upd_other {A} (l : list A) i k x d : k <> i -> nth k (upd l i x) d = nth k l d.
Proof.
  revert i k; induction l as [|y r IH]; intros [|i] [|k] H; simpl; auto; try lia;
  try (apply IH; lia).
Qed.

Lemma upd_nth_id {A} (l : list A) i d : upd l i (nth i l d) = l.
Proof. revert i; induction l as [|y r IH]; intros [|i]; simpl; auto. rewrite IH; reflexivity. Qed.

(* ---------------------------------------------------------------- the forest *)
(* set[] has n cells and no parent link goes upwards: set[i] <= i, with equality exactly at the leaders *)
Definition wfset (n : nat) (set : list nat) : Prop :=
  length set = n /\ forall i, i < n -> nth i set i <= i.

Definition rep (n : nat) (set : list nat) (i : nat) : nat := find_leader n set i.

Lemma find_leader_spec n set : wfset n set -> forall i f, i < n -> i <= f ->
  find_leader f set i <= i /\
  nth (find_leader f set i) set (find_leader f set i) = find_leader f set i /\
  forall f', i <= f' -> find_leader f' set i = find_leader f set i.
Proof.
  intros [Hl Hw] i. induction i as [i IH] using lt_wf_ind. intros f Hi Hf.
  pose proof (Hw i Hi) as Hp.
  destruct f as [|f0].
  - assert (i = 0) by lia. subst i. simpl.
    assert (E : nth 0 set 0 = 0) by lia.
    split; [lia|]. split; [exact E|].
    intros [|f'] _; simpl; [reflexivity|]. rewrite E. reflexivity.
  - simpl. destruct (Nat.eqb_spec (nth i set i) i) as [E|NE].
    + split; [lia|]. split; [exact E|].
      intros [|f'] Hf'; simpl; [reflexivity|].
      rewrite E, Nat.eqb_refl. reflexivity.
    + assert (Hj : nth i set i < i) by lia.
      destruct (IH _ Hj f0 ltac:(lia) ltac:(lia)) as (A & B & C).
      split; [lia|]. split; [exact B|].
      intros [|f'] Hf'; [lia|]. simpl.
      destruct (Nat.eqb_spec (nth i set i) i); [lia|].
      apply C. lia.
Qed.

Lemma rep_le n set i : wfset n set -> i < n -> rep n set i <= i.
Proof. intros H Hi. exact (proj1 (find_leader_spec n set H i n Hi ltac:(lia))). Qed.

Lemma rep_root n set i : wfset n set -> i < n -> nth (rep n set i) set (rep n set i) = rep n set i.
Proof. intros H Hi. exact (proj1 (proj2 (find_leader_spec n set H i n Hi ltac:(lia)))). Qed.

(* FUEL ADEQUACY of the first loop: with the fuel n the loop has ended by its own condition (rep_root:
   the result is a leader), and any larger fuel gives the same result *)
Lemma find_leader_fuel n set i f : wfset n set -> i < n -> n <= f -> find_leader f set i = rep n set i.
Proof.
  intros H Hi Hf. exact (proj2 (proj2 (find_leader_spec n set H i n Hi ltac:(lia))) f ltac:(lia)).
Qed.

Lemma rep_unfold n set i : wfset n set -> i < n ->
  rep n set i = if Nat.eqb (nth i set i) i then i else rep n set (nth i set i).
Proof.
  intros H Hi. unfold rep. destruct n as [|n0]; [lia|]. simpl.
  destruct (Nat.eqb_spec (nth i set i) i) as [E|NE]; [reflexivity|].
  pose proof (proj2 H i Hi) as Hp.
  assert (Hj : nth i set i < S n0) by lia.
  destruct (find_leader_spec (S n0) set H _ (S n0) Hj ltac:(lia)) as (_ & _ & C).
  simpl in C. rewrite <- (C n0 ltac:(lia)). reflexivity.
Qed.

Lemma rep_of_root n set i : wfset n set -> i < n -> nth i set i = i -> rep n set i = i.
Proof. intros H Hi E. rewrite rep_unfold by assumption. rewrite E, Nat.eqb_refl. reflexivity. Qed.

Lemma rep_idem n set i : wfset n set -> i < n -> rep n set (rep n set i) = rep n set i.
Proof.
  intros H Hi. apply rep_of_root; [exact H| |apply rep_root; assumption].
  pose proof (rep_le n set i H Hi). lia.
Qed.

Lemma rep_out n set i : length set = n -> n <= i -> rep n set i = i.
Proof.
  intros Hl Hi. unfold rep. destruct n as [|n0]; simpl; [reflexivity|].
  rewrite nth_overflow by lia. rewrite Nat.eqb_refl. reflexivity.
Qed.

(* a function that satisfies the recursion of the first loop IS the leader function *)
Lemma rep_char n set (F : nat -> nat) : wfset n set ->
  (forall k, k < n -> F k = if Nat.eqb (nth k set k) k then k else F (nth k set k)) ->
  forall k, k < n -> rep n set k = F k.
Proof.
  intros H HF k. induction k as [k IH] using lt_wf_ind. intros Hk.
  rewrite rep_unfold by assumption. rewrite (HF k Hk).
  destruct (Nat.eqb_spec (nth k set k) k) as [E|NE]; [reflexivity|].
  pose proof (proj2 H k Hk). apply IH; lia.
Qed.

(* ---------------------------------------------------------------- find() *)
(* the second loop as coded redirects set[index] and nothing else, for every fuel >= 1 (with fuel >= 2 it
   has also evaluated its own exit condition) *)
Lemma collapse_as_coded n set i f : wfset n set -> i < n -> 1 <= f ->
  collapse f set (rep n set i) i = upd set i (rep n set i).
Proof.
  intros H Hi Hf. destruct f as [|f0]; [lia|]. simpl.
  destruct (Nat.eqb_spec (nth i set i) (rep n set i)) as [E|NE].
  - rewrite <- E. symmetry. apply upd_nth_id.
  - rewrite nth_upd_same by (rewrite (proj1 H); exact Hi).
    destruct f0 as [|f1]; [reflexivity|]. simpl.
    assert (Hne : rep n set i <> i).
    { intros Ei. apply NE. rewrite Ei.
      pose proof (rep_root n set i H Hi) as R. rewrite Ei in R. exact R. }
    rewrite nth_upd_other by exact Hne.
    rewrite (rep_root n set i H Hi), Nat.eqb_refl. reflexivity.
Qed.

(* find() returns the leader, keeps the forest well formed and changes no leader *)
Lemma find_set_spec n set i : wfset n set -> i < n ->
  exists set', find_set n set i = (rep n set i, set') /\ wfset n set' /\
               forall k, rep n set' k = rep n set k.
Proof.
  intros H Hi. exists (upd set i (rep n set i)).
  assert (Hw' : wfset n (upd set i (rep n set i))).
  { split; [rewrite upd_length; exact (proj1 H)|].
    intros k Hk. destruct (Nat.eq_dec k i) as [->|Hne].
    - rewrite nth_upd_same by (rewrite (proj1 H); exact Hi). apply rep_le; assumption.
    - rewrite nth_upd_other by exact Hne. apply (proj2 H); exact Hk. }
  split; [|split; [exact Hw'|]].
  - unfold find_set. fold (rep n set i). rewrite (collapse_as_coded n set i n) by (assumption || lia). reflexivity.
  - intros k. destruct (Nat.lt_ge_cases k n) as [Hk|Hk].
    2:{ rewrite !rep_out; auto; [exact (proj1 H)|exact (proj1 Hw')]. }
    apply (rep_char n _ (rep n set) Hw'); [|exact Hk].
    intros q Hq. destruct (Nat.eq_dec q i) as [->|Hne].
    + rewrite nth_upd_same by (rewrite (proj1 H); exact Hi).
      destruct (Nat.eqb_spec (rep n set i) i) as [E|NE]; [exact E|].
      symmetry. apply rep_idem; assumption.
    + rewrite nth_upd_other by exact Hne. apply rep_unfold; assumption.
Qed.

(* FUEL ADEQUACY of find(): any fuel >= the number of ports gives the same leader and the same array *)
Lemma find_fuel_adequate_lemma n set i f : wfset n set -> i < n -> n <= f ->
  find_set f set i = find_set n set i /\
  nth (fst (find_set n set i)) set (fst (find_set n set i)) = fst (find_set n set i).
Proof.
  intros H Hi Hf. unfold find_set. cbn [fst].
  rewrite (find_leader_fuel n set i f H Hi Hf). fold (rep n set i).
  rewrite (collapse_as_coded n set i f) by (assumption || lia).
  rewrite (collapse_as_coded n set i n) by (assumption || lia).
  split; [reflexivity|apply rep_root; assumption].
Qed.

(* ---------------------------------------------------------------- the union step *)
(* set[j] = i for two leaders i < j *)
Lemma link_spec n s i j : wfset n s -> i < j -> j < n -> nth i s i = i -> nth j s j = j ->
  wfset n (upd s j i) /\
  forall k, k < n -> rep n (upd s j i) k = if Nat.eqb (rep n s k) j then i else rep n s k.
Proof.
  intros H Hij Hj Ri Rj.
  assert (Hw' : wfset n (upd s j i)).
  { split; [rewrite upd_length; exact (proj1 H)|].
    intros k Hk. destruct (Nat.eq_dec k j) as [->|Hne].
    - rewrite nth_upd_same by (rewrite (proj1 H); exact Hj). lia.
    - rewrite nth_upd_other by exact Hne. apply (proj2 H); exact Hk. }
  split; [exact Hw'|].
  apply (rep_char n _ (fun k => if Nat.eqb (rep n s k) j then i else rep n s k) Hw').
  intros k Hk. destruct (Nat.eq_dec k j) as [->|Hne].
  - rewrite nth_upd_same by (rewrite (proj1 H); exact Hj).
    rewrite (rep_of_root n s j H Hj Rj), Nat.eqb_refl.
    destruct (Nat.eqb_spec i j); [lia|].
    rewrite (rep_of_root n s i H ltac:(lia) Ri).
    destruct (Nat.eqb_spec i j); [lia|reflexivity].
  - rewrite nth_upd_other by exact Hne.
    rewrite (rep_unfold n s k H Hk).
    destruct (Nat.eqb_spec (nth k s k) k) as [E|NE]; [|reflexivity].
    destruct (Nat.eqb_spec k j); [lia|reflexivity].
Qed.

Lemma union_spec n set a b : wfset n set -> a < n -> b < n ->
  let i := rep n set a in let j := rep n set b in
  wfset n (union n set a b) /\
  forall k, k < n ->
    rep n (union n set a b) k =
    if orb (Nat.eqb (rep n set k) i) (Nat.eqb (rep n set k) j) then Nat.min i j else rep n set k.
Proof.
  intros H Ha Hb i j.
  destruct (find_set_spec n set a H Ha) as (s1 & E1 & W1 & R1).
  destruct (find_set_spec n s1 b W1 Hb) as (s2 & E2 & W2 & R2).
  unfold union. rewrite E1, E2. rewrite (R1 b). fold i j.
  assert (Rk : forall k, rep n s2 k = rep n set k) by (intros k; rewrite R2, R1; reflexivity).
  assert (Hi : i <= a) by (apply rep_le; assumption).
  assert (Hj : j <= b) by (apply rep_le; assumption).
  assert (Ri : nth i s2 i = i).
  { unfold i. rewrite <- (Rk a). apply rep_root; assumption. }
  assert (Rj : nth j s2 j = j).
  { unfold j. rewrite <- (Rk b). apply rep_root; assumption. }
  destruct (Nat.ltb_spec i j) as [Lij|Gij].
  - destruct (link_spec n s2 i j W2 Lij ltac:(lia) Ri Rj) as (W & R).
    split; [exact W|]. intros k Hk. rewrite (R k Hk), Rk.
    rewrite Nat.min_l by lia.
    destruct (Nat.eqb_spec (rep n set k) i) as [Ei|Ni], (Nat.eqb_spec (rep n set k) j) as [Ej|Nj]; simpl; try reflexivity; lia.
  - destruct (Nat.ltb_spec j i) as [Lji|Gji].
    + destruct (link_spec n s2 j i W2 Lji ltac:(lia) Rj Ri) as (W & R).
      split; [exact W|]. intros k Hk. rewrite (R k Hk), Rk.
      rewrite Nat.min_r by lia.
      destruct (Nat.eqb_spec (rep n set k) i) as [Ei|Ni], (Nat.eqb_spec (rep n set k) j) as [Ej|Nj]; simpl; try reflexivity; lia.
    + assert (Eij : i = j) by lia.
      split; [exact W2|]. intros k Hk. rewrite Rk. rewrite <- Eij, Nat.min_id, orb_diag.
      destruct (Nat.eqb_spec (rep n set k) i) as [Ei|Ni]; [exact Ei|reflexivity].
Qed.

(* ---------------------------------------------------------------- the closure and the invariant *)
Definition conn (E : list (nat * nat)) : nat -> nat -> Prop :=
  clos_refl_sym_trans nat (fun a b => In (a, b) E).

Lemma clos_rst_mono (R1 R2 : nat -> nat -> Prop) : (forall a b, R1 a b -> R2 a b) ->
  forall x y, clos_refl_sym_trans nat R1 x y -> clos_refl_sym_trans nat R2 x y.
Proof.
  intros H x y C. induction C.
  - apply rst_step. apply H; assumption.
  - apply rst_refl.
  - apply rst_sym; assumption.
  - eapply rst_trans; eassumption.
Qed.

Definition in_range (n : nat) (E : list (nat * nat)) : Prop := Forall (fun e => fst e < n /\ snd e < n) E.

Definition Inv (n : nat) (set : list nat) (E : list (nat * nat)) : Prop :=
  wfset n set /\ in_range n E /\
  (forall x y, conn E x y -> rep n set x = rep n set y) /\
  (forall x y, x < n -> y < n -> rep n set x = rep n set y -> conn E x y).

Lemma inv_init n : Inv n (seq 0 n) [].
Proof.
  assert (W : wfset n (seq 0 n)).
  { split; [apply seq_length|]. intros i Hi. rewrite seq_nth by exact Hi. simpl. lia. }
  split; [exact W|]. split; [constructor|]. split.
  - intros x y C. induction C; try congruence. contradiction.
  - intros x y Hx Hy E.
    rewrite !rep_of_root in E; try assumption; try (rewrite seq_nth by assumption; reflexivity).
    subst y. apply rst_refl.
Qed.

Lemma inv_find n set E i : Inv n set E -> i < n -> Inv n (snd (find_set n set i)) E.
Proof.
  intros (W & Rg & A & B) Hi.
  destruct (find_set_spec n set i W Hi) as (s' & Es & W' & R'). rewrite Es. cbn [snd].
  split; [exact W'|]. split; [exact Rg|]. split.
  - intros x y C. rewrite !R'. apply A; exact C.
  - intros x y Hx Hy Exy. rewrite !R' in Exy. apply B; assumption.
Qed.

Lemma inv_union n set E a b : Inv n set E -> a < n -> b < n -> Inv n (union n set a b) (E ++ [(a, b)]).
Proof.
  intros (W & Rg & A & B) Ha Hb.
  destruct (union_spec n set a b W Ha Hb) as (W' & R').
  set (i := rep n set a) in *. set (j := rep n set b) in *.
  assert (Mono : forall x y, conn E x y -> conn (E ++ [(a, b)]) x y).
  { apply clos_rst_mono. intros u v Huv. apply in_or_app. left; exact Huv. }
  assert (Cab : conn (E ++ [(a, b)]) a b).
  { apply rst_step. apply in_or_app. right. left. reflexivity. }
  split; [exact W'|]. split.
  { apply Forall_app. split; [exact Rg|]. constructor; [simpl; lia|constructor]. }
  split.
  - intros x y C. induction C as [u v Huv| | |]; try congruence.
    apply in_app_or in Huv. destruct Huv as [Huv|[Huv|[]]].
    + pose proof (proj1 (Forall_forall _ _) Rg _ Huv) as [Hu Hv]. simpl in Hu, Hv.
      rewrite (R' u Hu), (R' v Hv). rewrite (A u v (rst_step _ _ _ _ Huv)). reflexivity.
    + injection Huv as <- <-. rewrite (R' a Ha), (R' b Hb). fold i j.
      rewrite !Nat.eqb_refl, orb_true_r. reflexivity.
  - intros x y Hx Hy Exy. rewrite (R' x Hx), (R' y Hy) in Exy.
    (* a port whose old leader is i or j is related to a or to b by the old closure *)
    assert (Near : forall z, z < n -> orb (Nat.eqb (rep n set z) i) (Nat.eqb (rep n set z) j) = true ->
                   conn (E ++ [(a, b)]) z a).
    { intros z Hz Hor. apply orb_true_iff in Hor. destruct Hor as [Ez|Ez]; apply Nat.eqb_eq in Ez.
      - apply Mono. apply B; assumption.
      - eapply rst_trans; [apply Mono; apply (B z b); assumption|apply rst_sym; exact Cab]. }
    assert (Mi : orb (Nat.eqb (Nat.min i j) i) (Nat.eqb (Nat.min i j) j) = true).
    { apply orb_true_iff. destruct (Nat.min_spec i j) as [[_ ->]|[_ ->]]; rewrite Nat.eqb_refl; auto. }
    destruct (orb (Nat.eqb (rep n set x) i) (Nat.eqb (rep n set x) j)) eqn:Ox,
             (orb (Nat.eqb (rep n set y) i) (Nat.eqb (rep n set y) j)) eqn:Oy.
    + eapply rst_trans; [apply Near; assumption|apply rst_sym; apply Near; assumption].
    + rewrite <- Exy in Oy. rewrite Mi in Oy. discriminate.
    + rewrite Exy in Ox. rewrite Mi in Ox. discriminate.
    + apply Mono. apply B; assumption.
Qed.

(* the cells of the scan that cause a union *)
Definition is_edge (n : nat) (s : list scell) (rc : nat * nat) : bool :=
  andb (negb (Nat.eqb (fst rc) (snd rc))) (negb (scell_is_zero (nth (fst rc * n + snd rc) s SNull))).

Definition scan_step (n : nat) (s : list scell) (set : list nat) (rc : nat * nat) : list nat :=
  let '(r, c) := rc in
  if Nat.eqb r c then set
  else if scell_is_zero (nth (r * n + c) s SNull) then set
  else union n set r c.

Lemma inv_scan n s cells : in_range n cells -> forall set E,
  Inv n set E -> Inv n (fold_left (scan_step n s) cells set) (E ++ filter (is_edge n s) cells).
Proof.
  induction cells as [|[r c] rest IH]; intros Hr set E HI; simpl.
  - rewrite app_nil_r. exact HI.
  - inversion Hr as [|? ? [Hrn Hcn] Hrest]; subst. simpl in Hrn, Hcn.
    unfold is_edge at 1. simpl.
    destruct (Nat.eqb r c); simpl; [apply IH; assumption|].
    destruct (scell_is_zero (nth (r * n + c) s SNull)); simpl; [apply IH; assumption|].
    replace (E ++ (r, c) :: filter (is_edge n s) rest) with ((E ++ [(r, c)]) ++ filter (is_edge n s) rest)
      by (rewrite <- app_assoc; reflexivity).
    apply IH; [assumption|]. apply inv_union; assumption.
Qed.

Lemma in_all_cells n a b : In (a, b) (all_cells n) <-> a < n /\ b < n.
Proof.
  unfold all_cells. rewrite in_flat_map. split.
  - intros (r & Hr & Hin). apply in_map_iff in Hin. destruct Hin as (c & Ec & Hc).
    injection Ec as <- <-. apply in_seq in Hr, Hc. lia.
  - intros [Ha Hb]. exists a. split; [apply in_seq; lia|]. apply in_map_iff. exists b. split; [reflexivity|apply in_seq; lia].
Qed.

Lemma all_cells_in_range n : in_range n (all_cells n).
Proof. apply Forall_forall. intros [a b] H. apply in_all_cells in H. exact H. Qed.

Lemma scan_set_eq n s : scan_set n s = fold_left (scan_step n s) (all_cells n) (seq 0 n).
Proof. reflexivity. Qed.

(* the relation whose closure is computed *)
Definition s_edge (n : nat) (s : list scell) (a b : nat) : Prop :=
  a < n /\ b < n /\ a <> b /\ scell_is_zero (nth (a * n + b) s SNull) = false.

Lemma edges_of_scan n s a b : In (a, b) (filter (is_edge n s) (all_cells n)) <-> s_edge n s a b.
Proof.
  rewrite filter_In, in_all_cells. unfold is_edge, s_edge. simpl.
  rewrite andb_true_iff, !negb_true_iff, Nat.eqb_neq. tauto.
Qed.

Lemma scan_inv n s : Inv n (scan_set n s) (filter (is_edge n s) (all_cells n)).
Proof.
  rewrite scan_set_eq. exact (inv_scan n s (all_cells n) (all_cells_in_range n) _ [] (inv_init n)).
Qed.

(* the forest left by the scan is acyclic: no parent link goes upwards *)
Lemma scan_forest_acyclic_lemma n s : wfset n (scan_set n s).
Proof. exact (proj1 (scan_inv n s)). Qed.

Lemma scan_leaders n s x y : x < n -> y < n ->
  (rep n (scan_set n s) x = rep n (scan_set n s) y <-> clos_refl_sym_trans nat (s_edge n s) x y).
Proof.
  intros Hx Hy. destruct (scan_inv n s) as (_ & _ & A & B). split.
  - intros E. eapply clos_rst_mono; [|apply (B x y Hx Hy E)].
    intros a b. apply edges_of_scan.
  - intros C. apply A. eapply clos_rst_mono; [|exact C]. intros a b. apply edges_of_scan.
Qed.

(* ---------------------------------------------------------------- the second pass *)
Lemma conn_scan_spec n set0 cells : in_range n cells -> forall set,
  wfset n set -> (forall k, rep n set k = rep n set0 k) ->
  conn_scan n set cells =
  map (fun rc => orb (Nat.eqb (fst rc) (snd rc)) (Nat.eqb (rep n set0 (fst rc)) (rep n set0 (snd rc)))) cells.
Proof.
  induction cells as [|[i j] rest IH]; intros Hr set W R; cbn [conn_scan map fst snd]; [reflexivity|].
  inversion Hr as [|? ? [Hi Hj] Hrest]; subst. simpl in Hi, Hj.
  destruct (Nat.eqb i j); cbn [orb]; [f_equal; apply IH; assumption|].
  destruct (find_set_spec n set i W Hi) as (s1 & E1 & W1 & R1). rewrite E1.
  destruct (find_set_spec n s1 j W1 Hj) as (s2 & E2 & W2 & R2). rewrite E2.
  rewrite (R1 j), !R. f_equal. apply IH; [assumption|exact W2|].
  intros k. rewrite R2, R1. apply R.
Qed.

Lemma nth_cells_from n d : forall m a i j, i < m -> j < n ->
  nth (i * n + j) (flat_map (fun r => map (fun c => (r, c)) (seq 0 n)) (seq a m)) d = (a + i, j).
Proof.
  induction m as [|m IH]; intros a i j Hi Hj; [lia|].
  simpl. destruct i as [|i].
  - simpl. rewrite app_nth1 by (rewrite map_length, seq_length; exact Hj).
    rewrite (nth_indep _ d (a, 0)) by (rewrite map_length, seq_length; exact Hj).
    rewrite (map_nth (fun c => (a, c))). rewrite seq_nth by exact Hj. f_equal; lia.
  - rewrite app_nth2 by (rewrite map_length, seq_length; simpl; lia).
    rewrite map_length, seq_length.
    replace (S i * n + j - n) with (i * n + j) by (simpl; lia).
    rewrite IH by lia. f_equal; lia.
Qed.

Lemma nth_all_cells n i j d : i < n -> j < n -> nth (i * n + j) (all_cells n) d = (i, j).
Proof. intros Hi Hj. unfold all_cells. rewrite nth_cells_from by assumption. reflexivity. Qed.

Lemma all_cells_length n : length (all_cells n) = n * n.
Proof.
  unfold all_cells.
  assert (G : forall l : list nat, length (flat_map (fun r => map (fun c => (r, c)) (seq 0 n)) l) = length l * n).
  { induction l as [|x r IH]; simpl; [reflexivity|].
    rewrite app_length, map_length, seq_length, IH. reflexivity. }
  rewrite G, seq_length. reflexivity.
Qed.

Lemma build_connectivity_map n s :
  build_connectivity n s =
  map (fun rc => orb (Nat.eqb (fst rc) (snd rc))
                     (Nat.eqb (rep n (scan_set n s) (fst rc)) (rep n (scan_set n s) (snd rc)))) (all_cells n).
Proof.
  unfold build_connectivity.
  apply conn_scan_spec; [apply all_cells_in_range|apply scan_forest_acyclic_lemma|reflexivity].
Qed.

Lemma build_connectivity_length_lemma n s : length (build_connectivity n s) = n * n.
Proof. rewrite build_connectivity_map, map_length. apply all_cells_length. Qed.

Lemma build_connectivity_nth n s i j : i < n -> j < n ->
  nth (i * n + j) (build_connectivity n s) false =
  orb (Nat.eqb i j) (Nat.eqb (rep n (scan_set n s) i) (rep n (scan_set n s) j)).
Proof.
  intros Hi Hj. rewrite build_connectivity_map.
  set (f := fun rc : nat * nat => orb (Nat.eqb (fst rc) (snd rc))
                (Nat.eqb (rep n (scan_set n s) (fst rc)) (rep n (scan_set n s) (snd rc)))).
  assert (Hlt : i * n + j < length (all_cells n)) by (rewrite all_cells_length; nia).
  rewrite (nth_indep _ false (f (0, 0))) by (rewrite map_length; exact Hlt).
  rewrite map_nth, nth_all_cells by assumption. reflexivity.
Qed.

(* ---------------------------------------------------------------- the theorem *)
Lemma connectivity_closed_every_n_lemma : forall n s i j, i < n -> j < n ->
  (nth (i * n + j) (build_connectivity n s) false = true <-> clos_refl_sym_trans nat (s_edge n s) i j).
Proof.
  intros n s i j Hi Hj. rewrite build_connectivity_nth by assumption.
  rewrite orb_true_iff, !Nat.eqb_eq, (scan_leaders n s i j Hi Hj).
  split; [intros [->|C]; [apply rst_refl|exact C]|intros C; right; exact C].
Qed.

(* S matrix with the non-zero off-diagonal cells nz, every other cell the known zero *)
Definition s_pattern (n : nat) (nz : list (nat * nat)) : list scell :=
  map (fun rc => if existsb (fun q => andb (Nat.eqb (fst q) (fst rc)) (Nat.eqb (snd q) (snd rc))) nz
                 then SParam 3 else SZero) (all_cells n).

(* the hypotheses are met by a forest with two levels: six ports, S non-zero only at (0-based) (1,2), (2,0),
   (3,4), (4,2) (non-reciprocal).  The scan by rows: (1,2) makes 2 -> 1; (2,0) makes 1 -> 0 (chain 2 -> 1 -> 0);
   (3,4) makes 4 -> 3; (4,2): find(4) = 3, find(2) = 0 redirects 2 -> 0, then 3 -> 0: the chain 4 -> 3 -> 0 stays.
   Ports 0..4 connected, port 5 alone. *)
Definition chain6 : list scell := s_pattern 6 [(1, 2); (2, 0); (3, 4); (4, 2)].
Lemma connectivity_two_level_example :
  scan_set 6 chain6 = [0; 0; 0; 0; 3; 5] /\
  nth (4 * 6 + 1) (build_connectivity 6 chain6) false = true /\
  nth (4 * 6 + 5) (build_connectivity 6 chain6) false = false /\
  clos_refl_sym_trans nat (s_edge 6 chain6) 4 1 /\
  ~ clos_refl_sym_trans nat (s_edge 6 chain6) 4 5.
Proof.
  split; [vm_compute; reflexivity|]. split; [vm_compute; reflexivity|]. split; [vm_compute; reflexivity|]. split.
  - apply (connectivity_closed_every_n_lemma 6 chain6 4 1); [lia|lia|vm_compute; reflexivity].
  - intros C. apply (connectivity_closed_every_n_lemma 6 chain6 4 5) in C; [|lia|lia]. vm_compute in C. discriminate.
Qed.

(* ---------------------------------------------------------------- renumbering of the ports *)
(* p a renumbering of the ports 0 .. n-1 with inverse q; s' the S matrix of the renumbered standard (as far
   as known-zero cells go).  Then the connectivity matrix of s' is the renumbered connectivity matrix. *)
Lemma clos_rst_image (R R' : nat -> nat -> Prop) (p : nat -> nat) :
  (forall a b, R a b -> R' (p a) (p b)) ->
  forall x y, clos_refl_sym_trans nat R x y -> clos_refl_sym_trans nat R' (p x) (p y).
Proof.
  intros H x y C. induction C.
  - apply rst_step. apply H; assumption.
  - apply rst_refl.
  - apply rst_sym; assumption.
  - eapply rst_trans; eassumption.
Qed.

Lemma connectivity_equivariant_lemma : forall n s s' (p q : nat -> nat),
  (forall i, i < n -> p i < n /\ q (p i) = i) ->
  (forall k, k < n -> q k < n /\ p (q k) = k) ->
  (forall i j, i < n -> j < n ->
     scell_is_zero (nth (p i * n + p j) s' SNull) = scell_is_zero (nth (i * n + j) s SNull)) ->
  forall i j, i < n -> j < n ->
    nth (p i * n + p j) (build_connectivity n s') false = nth (i * n + j) (build_connectivity n s) false.
Proof.
  intros n s s' p q Hp Hq Hs i j Hi Hj.
  destruct (Hp i Hi) as [Hpi Hqi]. destruct (Hp j Hj) as [Hpj Hqj].
  apply eq_true_iff_eq.
  rewrite (connectivity_closed_every_n_lemma n s' (p i) (p j) Hpi Hpj).
  rewrite (connectivity_closed_every_n_lemma n s i j Hi Hj).
  split.
  - intros C. rewrite <- Hqi, <- Hqj.
    apply (clos_rst_image (s_edge n s') (s_edge n s) q); [|exact C].
    intros a b (Ha & Hb & Hab & Hz).
    destruct (Hq a Ha) as [Hqa Hpa]. destruct (Hq b Hb) as [Hqb Hpb].
    split; [exact Hqa|]. split; [exact Hqb|]. split; [intros E; apply Hab; rewrite <- Hpa, <- Hpb, E; reflexivity|].
    rewrite <- (Hs (q a) (q b) Hqa Hqb), Hpa, Hpb. exact Hz.
  - intros C.
    apply (clos_rst_image (s_edge n s) (s_edge n s') p); [|exact C].
    intros a b (Ha & Hb & Hab & Hz).
    destruct (Hp a Ha) as [Hpa Hqa]. destruct (Hp b Hb) as [Hpb Hqb].
    split; [exact Hpa|]. split; [exact Hpb|]. split; [intros E; apply Hab; rewrite <- Hqa, <- Hqb, E; reflexivity|].
    rewrite (Hs a b Ha Hb). exact Hz.
Qed.

(* every permutation given as a list (Permutation pl (seq 0 n), p i = nth i pl 0) has such an inverse *)
Fixpoint index_of (k : nat) (l : list nat) : nat :=
  match l with [] => 0 | x :: r => if Nat.eqb x k then 0 else S (index_of k r) end.

Lemma index_of_spec k l : In k l -> index_of k l < length l /\ nth (index_of k l) l 0 = k.
Proof.
  induction l as [|x r IH]; intros H; [contradiction|]. simpl.
  destruct (Nat.eqb_spec x k) as [E|NE]; [split; [lia|exact E]|].
  destruct H as [H|H]; [contradiction|]. destruct (IH H). split; [lia|assumption].
Qed.

Lemma index_of_nth l i : NoDup l -> i < length l -> index_of (nth i l 0) l = i.
Proof.
  intros ND. revert i. induction ND as [|x r Hx ND IH]; intros i Hi; simpl in *; [lia|].
  destruct i as [|i].
  - rewrite Nat.eqb_refl. reflexivity.
  - destruct (Nat.eqb_spec x (nth i r 0)) as [E|NE].
    + exfalso. apply Hx. rewrite E. apply nth_In. lia.
    + rewrite IH by lia. reflexivity.
Qed.

Lemma connectivity_equivariant_perm_lemma : forall n s s' (pl : list nat),
  Permutation pl (seq 0 n) ->
  (forall i j, i < n -> j < n ->
     scell_is_zero (nth (nth i pl 0 * n + nth j pl 0) s' SNull) = scell_is_zero (nth (i * n + j) s SNull)) ->
  forall i j, i < n -> j < n ->
    nth (nth i pl 0 * n + nth j pl 0) (build_connectivity n s') false = nth (i * n + j) (build_connectivity n s) false.
Proof.
  intros n s s' pl HP Hs.
  assert (Hlen : length pl = n) by (rewrite (Permutation_length HP); apply seq_length).
  assert (ND : NoDup pl) by (apply (Permutation_NoDup (Permutation_sym HP)); apply seq_NoDup).
  apply (connectivity_equivariant_lemma n s s' (fun i => nth i pl 0) (fun k => index_of k pl)); [| |exact Hs].
  - intros i Hi. split.
    + assert (In (nth i pl 0) (seq 0 n)) by (apply (Permutation_in _ HP); apply nth_In; lia).
      apply in_seq in H. lia.
    + apply index_of_nth; [exact ND|lia].
  - intros k Hk.
    assert (Hin : In k pl) by (apply (Permutation_in _ (Permutation_sym HP)); apply in_seq; lia).
    destruct (index_of_spec k pl Hin) as [A B]. split; [lia|exact B].
Qed.

(* not vacuous: the chain on six ports above, renumbered by the rotation i -> i + 1 mod 6: the arrays set[]
   the two scans leave are NOT renumbered copies of each other (the forest depends on the numbering), the
   connectivity matrices are *)
Definition rot6 : list nat := [1; 2; 3; 4; 5; 0].
Definition chain6_rot : list scell := s_pattern 6 [(2, 3); (3, 1); (4, 5); (5, 3)].
Lemma connectivity_equivariant_example :
  Permutation rot6 (seq 0 6) /\
  (forall i j, i < 6 -> j < 6 ->
     scell_is_zero (nth (nth i rot6 0 * 6 + nth j rot6 0) chain6_rot SNull) = scell_is_zero (nth (i * 6 + j) chain6 SNull)) /\
  scan_set 6 chain6_rot <> map (fun k => nth k rot6 0) (scan_set 6 chain6) /\
  build_connectivity 6 chain6_rot <> build_connectivity 6 chain6.
Proof.
  split.
  - change (Permutation ([1; 2; 3; 4; 5] ++ [0]) (0 :: [1; 2; 3; 4; 5])). apply Permutation_sym, Permutation_cons_append.
  - split.
    + intros i j Hi Hj.
      do 6 (destruct i as [|i]; [do 6 (destruct j as [|j]; [vm_compute; reflexivity|]); lia|]); lia.
    + split; vm_compute; discriminate.
Qed.
