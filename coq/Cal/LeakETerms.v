(* C01: the physical E-term model of vnacal_layout.h gives the determining equations of LeakPhysical.v, for EVERY
   number of ports and every field, without forming an inverse.

   The error box is the 2x2 block S-matrix [El Er; Et Em] (vnacal_layout.h, "E terms").  For the 8-term core of
   T8 / TE10 / U8 / UE10 the four blocks are diagonal: per port i directivity ed i, reflection tracking er i,
   transmission tracking et i, match em i.  (The off-diagonal El of TE10 / UE10 / UE14 is additive leakage, treated
   in LeakPhysical.v.)  With wave variables, for the standard S and the driven column j:
        B(:,j) = S A(:,j)                    the wave the standard reflects into the box
        A k j  = [k = j] et k + em k * B k j  incident = transmitted source + match reflection
        Mc i j = [i = j] ed i + er i * B i j  the core response
   i.e. (I - S Em) B = S Et, Mc = El + Er B, which is  M = El + Er (I - S Em)^-1 S Et  without the inverse.

   Proved here, with the documented conversions and ANY common scale factor k0 (the solver normalises one term):
     eterms_give_physU    U from E:  Um = Er^-1, Ui = -Er^-1 El, Ux = Em Er^-1, Us = Et - Em Er^-1 El   (times k0)
     physU_gives_eterms   the converse (k0 <> 0): B := Er^-1 (Mc - El) satisfies the wave equations
     eterms_give_physT    T from E:  Ts = Er - El Et^-1 Em, Ti = El Et^-1, Tx = -Et^-1 Em, Tm = Et^-1  (times k0);
                          uses the push-through identity (I - S Em)^-1 S = S (I - Em S)^-1 in the inverse-free form
                          `push_through', from the well-posedness right_kernel_trivial (I - S Em)
     eterms_give_phys14   UE14 / E12: one scale factor per driven column
     phys14_gives_eterms  the converse
     eterms_kernel_U / eterms_kernel_14 / eterms_kernel_T   the well-posedness hypotheses of LeakPhysical.v
                          (trivial kernel of NU / N14 / NT) follow from the well-posedness of the E network
                          (trivial kernel of I - S Em, resp. I - Em S)
     eterms_example_physU a concrete 2-port E network at the Gaussian rationals measuring a through. *)
Require Import List ZArith Bool Arith Lia QArith Qcanon.
Require Import LV.Base.CField LV.Base.QcI LV.Lin.LuGenA LV.Cal.LeakPhysical.
Import ListNotations.
Local Open Scope nat_scope.

Section ETerms.
Variable K : CField.
Add Field Kf_le : (cth K).
Variable n : nat.                       (* number of VNA ports *)
Variable Sm : nat -> nat -> K.          (* the standard on the n ports *)
Local Open Scope cf_scope.
Notation sm := (@sumf K n).

(* a diagonal matrix *)
Definition dg (d : nat -> K) (i k : nat) : K := if Nat.eqb i k then d i else 0.
(* I - S Em  and  I - Em S *)
Definition ISE (em : nat -> K) (i k : nat) : K := (if Nat.eqb i k then 1 else 0) - Sm i k * em k.
Definition IES (em : nat -> K) (k j : nat) : K := (if Nat.eqb k j then 1 else 0) - em k * Sm k j.

(* ---------------------------------------------------------------- the E network, wave variables, no inverse *)
(* rows i < nr of Mc are measured, columns j < nc are driven; B is n x nc *)
Definition physE (ed er et em : nat -> K) (nr nc : nat) (Mc : nat -> nat -> K) : Prop :=
  exists B : nat -> nat -> K,
    (forall i j, (i < n)%nat -> (j < nc)%nat ->
       B i j = sm (fun k => Sm i k * ((if Nat.eqb k j then et k else 0) + em k * B k j))) /\
    (forall i j, (i < nr)%nat -> (j < nc)%nat ->
       Mc i j = (if Nat.eqb i j then ed i else 0) + er i * B i j).

(* UE14 / E12: column c has its own er c i, em c i, directivity ed c (= el c c) and the scalar et c *)
Definition physE14 (ed et : nat -> K) (er em : nat -> nat -> K) (mc : nat) (Mc : nat -> nat -> K) : Prop :=
  exists B : nat -> nat -> K,
    (forall i c, (i < n)%nat -> (c < mc)%nat ->
       B i c = sm (fun k => Sm i k * ((if Nat.eqb k c then et c else 0) + em c k * B k c))) /\
    (forall i c, (i < n)%nat -> (c < mc)%nat ->
       Mc i c = (if Nat.eqb i c then ed c else 0) + er c i * B i c).

(* ---------------------------------------------------------------- sums with a diagonal factor *)
Lemma sumf_pick_l i (d : K) (x : nat -> K) : (i < n)%nat ->
  sm (fun k => (if Nat.eqb i k then d else 0) * x k) = d * x i.
Proof.
  intros Hi. rewrite (sumf_ext K n _ (fun k => if Nat.eqb k i then d * x k else 0)).
  - exact (sumf_single K n i (fun k => d * x k) Hi).
  - intros k _. rewrite (Nat.eqb_sym i k). destruct (Nat.eqb k i); ring.
Qed.

Lemma sumf_pick_r j (x d : nat -> K) : (j < n)%nat ->
  sm (fun k => x k * (if Nat.eqb k j then d k else 0)) = x j * d j.
Proof.
  intros Hj. rewrite (sumf_ext K n _ (fun k => if Nat.eqb k j then x k * d k else 0)).
  - exact (sumf_single K n j (fun k => x k * d k) Hj).
  - intros k _. destruct (Nat.eqb k j); ring.
Qed.

Lemma wave_split (c : nat) (t : K) (em b : nat -> K) i : (c < n)%nat ->
  sm (fun k => Sm i k * ((if Nat.eqb k c then t else 0) + em k * b k))
  = Sm i c * t + sm (fun k => Sm i k * (em k * b k)).
Proof.
  intros Hc.
  rewrite (sumf_ext K n _ (fun k => (if Nat.eqb k c then Sm i k * t else 0) + Sm i k * (em k * b k))).
  2:{ intros k _. destruct (Nat.eqb k c); ring. }
  rewrite sumf_add, (sumf_single K n c (fun k => Sm i k * t) Hc). reflexivity.
Qed.

Lemma wave_split_var (c : nat) (t em b : nat -> K) i : (c < n)%nat ->
  sm (fun k => Sm i k * ((if Nat.eqb k c then t k else 0) + em k * b k))
  = Sm i c * t c + sm (fun k => Sm i k * (em k * b k)).
Proof.
  intros Hc. rewrite <- (wave_split c (t c) em b i Hc). apply sumf_ext. intros k _.
  destruct (Nat.eqb_spec k c) as [->|]; reflexivity.
Qed.

Lemma apply_ISE em (x : nat -> K) i : (i < n)%nat ->
  sm (fun k => ISE em i k * x k) = x i - sm (fun k => Sm i k * (em k * x k)).
Proof.
  intros Hi. unfold ISE.
  rewrite (sumf_ext K n _ (fun k => (if Nat.eqb i k then 1 else 0) * x k - Sm i k * (em k * x k))) by (intros; ring).
  rewrite sumf_sub_k, (sumf_pick_l i 1 x Hi). ring.
Qed.

(* ---------------------------------------------------------------- one driven column (U and UE14) *)
Lemma col_core (c : nat) (kc et0 ed0 : K) (er em b m : nat -> K) :
  (c < n)%nat -> (forall i, (i < n)%nat -> er i <> 0) ->
  (forall i, (i < n)%nat -> b i = sm (fun k => Sm i k * ((if Nat.eqb k c then et0 else 0) + em k * b k))) ->
  (forall i, (i < n)%nat -> m i = (if Nat.eqb i c then ed0 else 0) + er i * b i) ->
  forall i, (i < n)%nat ->
  sm (fun k => ((if Nat.eqb i k then kc / er i else 0) - Sm i k * (kc * em k / er k)) * m k)
  = Sm i c * (kc * (et0 - em c * ed0 / er c)) - (if Nat.eqb i c then - kc * ed0 / er c else 0).
Proof.
  intros Hc Her Hb Hm i Hi.
  rewrite (sumf_ext K n _ (fun k => (if Nat.eqb i k then kc / er i else 0) * m k
        - ((if Nat.eqb k c then Sm i k * (kc * em k * ed0 / er k) else 0) + kc * (Sm i k * (em k * b k))))).
  2:{ intros k Hk. rewrite (Hm k Hk). destruct (Nat.eqb k c); field; auto. }
  rewrite sumf_sub_k, sumf_add, (sumf_pick_l i _ m Hi),
          (sumf_single K n c (fun k => Sm i k * (kc * em k * ed0 / er k)) Hc), <- sumf_scale_l.
  rewrite (Hm i Hi).
  pose proof (Hb i Hi) as E. rewrite (wave_split c et0 em b i Hc) in E.
  assert (Es : sm (fun k => Sm i k * (em k * b k)) = b i - Sm i c * et0) by (rewrite E; ring).
  rewrite Es. pose proof (Her c Hc). pose proof (Her i Hi).
  destruct (Nat.eqb_spec i c) as [->|]; cbv iota; field; auto.
Qed.

Lemma col_core_conv (c : nat) (kc et0 ed0 : K) (er em m : nat -> K) :
  (c < n)%nat -> kc <> 0 -> (forall i, (i < n)%nat -> er i <> 0) ->
  (forall i, (i < n)%nat ->
    sm (fun k => ((if Nat.eqb i k then kc / er i else 0) - Sm i k * (kc * em k / er k)) * m k)
    = Sm i c * (kc * (et0 - em c * ed0 / er c)) - (if Nat.eqb i c then - kc * ed0 / er c else 0)) ->
  (forall i, (i < n)%nat ->
     (m i - (if Nat.eqb i c then ed0 else 0)) / er i
     = sm (fun k => Sm i k * ((if Nat.eqb k c then et0 else 0)
                              + em k * ((m k - (if Nat.eqb k c then ed0 else 0)) / er k)))) /\
  (forall i, (i < n)%nat ->
     m i = (if Nat.eqb i c then ed0 else 0) + er i * ((m i - (if Nat.eqb i c then ed0 else 0)) / er i)).
Proof.
  intros Hc Hk Her H. split.
  2:{ intros i Hi. field. auto. }
  intros i Hi.
  rewrite (wave_split c et0 em (fun k => (m k - (if Nat.eqb k c then ed0 else 0)) / er k) i Hc).
  pose proof (H i Hi) as E.
  rewrite (sumf_ext K n _ (fun k => (if Nat.eqb i k then kc / er i else 0) * m k
                                    - kc * (Sm i k * (em k * m k / er k)))) in E.
  2:{ intros k Hk'. field. auto. }
  rewrite sumf_sub_k, (sumf_pick_l i _ m Hi), <- sumf_scale_l in E.
  rewrite (sumf_ext K n (fun k => Sm i k * (em k * ((m k - (if Nat.eqb k c then ed0 else 0)) / er k)))
             (fun k => Sm i k * (em k * m k / er k) - (if Nat.eqb k c then Sm i k * (em k * ed0 / er k) else 0))).
  2:{ intros k Hk'. destruct (Nat.eqb k c); field; auto. }
  rewrite sumf_sub_k, (sumf_single K n c (fun k => Sm i k * (em k * ed0 / er k)) Hc).
  set (T := sm (fun k => Sm i k * (em k * m k / er k))) in *.
  pose proof (Her c Hc). pose proof (Her i Hi).
  assert (ET : T = (kc / er i * m i
                    - (Sm i c * (kc * (et0 - em c * ed0 / er c)) - (if Nat.eqb i c then - kc * ed0 / er c else 0))) / kc).
  { rewrite <- E. field. auto. }
  rewrite ET. destruct (Nat.eqb_spec i c) as [->|]; cbv iota; field; auto.
Qed.

Lemma col_kernel (kc : K) (er em : nat -> K) :
  kc <> 0 -> (forall i, (i < n)%nat -> er i <> 0) ->
  right_kernel_trivial K n (ISE em) ->
  right_kernel_trivial K n (fun i k => (if Nat.eqb i k then kc / er i else 0) - Sm i k * (kc * em k / er k)).
Proof.
  intros Hk Her Hker x Hx k Hk'.
  assert (E : kc / er k * x k = 0).
  { apply (Hker (fun t => kc / er t * x t)); [|exact Hk'].
    intros i Hi. refine (eq_trans _ (Hx i Hi)). apply sumf_ext. intros t Ht. unfold ISE.
    pose proof (Her t Ht). destruct (Nat.eqb_spec i t) as [->|]; field; auto. }
  transitivity (kc / er k * x k * (er k / kc)); [field; auto | rewrite E; field; auto].
Qed.

(* ---------------------------------------------------------------- (3) UE14 / E12 *)
Section E14.
Variables (ed et kk : nat -> K) (er em : nat -> nat -> K) (mc : nat) (Mc : nat -> nat -> K).
Hypothesis mc_le : (mc <= n)%nat.
Hypothesis er_nz : forall c i, (c < mc)%nat -> (i < n)%nat -> er c i <> 0.

Definition e14_um (c i : nat) : K := kk c / er c i.
Definition e14_ux (c i : nat) : K := kk c * em c i / er c i.
Definition e14_ui (c : nat) : K := - kk c * ed c / er c c.
Definition e14_us (c : nat) : K := kk c * (et c - em c c * ed c / er c c).

Theorem eterms_give_phys14 :
  physE14 ed et er em mc Mc -> phys14 K n Sm e14_um e14_ux e14_ui e14_us mc Mc.
Proof.
  intros (B & HB & HM) i c Hi Hc.
  assert (Hc' : (c < n)%nat) by lia.
  exact (col_core c (kk c) (et c) (ed c) (er c) (em c) (fun i => B i c) (fun i => Mc i c) Hc'
           (fun i Hi => er_nz c i Hc Hi) (fun i Hi => HB i c Hi Hc) (fun i Hi => HM i c Hi Hc) i Hi).
Qed.

Theorem phys14_gives_eterms :
  (forall c, (c < mc)%nat -> kk c <> 0) ->
  phys14 K n Sm e14_um e14_ux e14_ui e14_us mc Mc -> physE14 ed et er em mc Mc.
Proof.
  intros Hk H.
  exists (fun i c => (Mc i c - (if Nat.eqb i c then ed c else 0)) / er c i).
  split; intros i c Hi Hc.
  - assert (Hc' : (c < n)%nat) by lia.
    exact (proj1 (col_core_conv c (kk c) (et c) (ed c) (er c) (em c) (fun i => Mc i c) Hc' (Hk c Hc)
                    (fun i Hi => er_nz c i Hc Hi) (fun i Hi => H i c Hi Hc)) i Hi).
  - field. exact (er_nz c i Hc Hi).
Qed.

Theorem eterms_kernel_14 :
  (forall c, (c < mc)%nat -> kk c <> 0) ->
  (forall c, (c < mc)%nat -> right_kernel_trivial K n (ISE (em c))) ->
  forall c, (c < mc)%nat -> right_kernel_trivial K n (N14 K Sm e14_um e14_ux c).
Proof.
  intros Hk Hker c Hc.
  exact (col_kernel (kk c) (er c) (em c) (Hk c Hc) (fun i Hi => er_nz c i Hc Hi) (Hker c Hc)).
Qed.
End E14.

(* ---------------------------------------------------------------- (1) U8 / UE10 core *)
Section EU.
Variables (ed er et em : nat -> K) (k0 : K) (mc : nat) (Mc : nat -> nat -> K).
Hypothesis mc_le : (mc <= n)%nat.
Hypothesis er_nz : forall i, (i < n)%nat -> er i <> 0.

Definition eu_Um := dg (fun i => k0 / er i).
Definition eu_Ui := dg (fun i => - k0 * ed i / er i).
Definition eu_Ux := dg (fun i => k0 * em i / er i).
Definition eu_Us := dg (fun i => k0 * (et i - em i * ed i / er i)).

Lemma NU_dg (um ux : nat -> K) i k : (k < n)%nat ->
  NU K n Sm (dg um) (dg ux) i k = (if Nat.eqb i k then um i else 0) - Sm i k * ux k.
Proof. intros Hk. unfold NU, dg. rewrite (sumf_pick_r k (fun a => Sm i a) ux Hk). reflexivity. Qed.

Lemma RU_dg (ui us : nat -> K) i j : (j < n)%nat ->
  RU K n Sm (dg ui) (dg us) i j = Sm i j * us j - (if Nat.eqb i j then ui i else 0).
Proof. intros Hj. unfold RU, dg. rewrite (sumf_pick_r j (fun a => Sm i a) us Hj). reflexivity. Qed.

Theorem eterms_give_physU :
  physE ed er et em n mc Mc -> physU K n Sm eu_Um eu_Ui eu_Ux eu_Us mc Mc.
Proof.
  intros (B & HB & HM) i j Hi Hj.
  assert (Hj' : (j < n)%nat) by lia.
  unfold eu_Um, eu_Ui, eu_Ux, eu_Us. rewrite (RU_dg _ _ i j Hj').
  rewrite (sumf_ext K n _ (fun k => ((if Nat.eqb i k then k0 / er i else 0) - Sm i k * (k0 * em k / er k)) * Mc k j)).
  2:{ intros k Hk. rewrite (NU_dg _ _ i k Hk). reflexivity. }
  rewrite (col_core j k0 (et j) (ed j) er em (fun i => B i j) (fun i => Mc i j) Hj' er_nz).
  - destruct (Nat.eqb_spec i j) as [->|]; reflexivity.
  - intros a Ha. rewrite (HB a j Ha Hj). apply sumf_ext. intros k _.
    destruct (Nat.eqb_spec k j) as [->|]; reflexivity.
  - intros a Ha. rewrite (HM a j Ha Hj). destruct (Nat.eqb_spec a j) as [->|]; reflexivity.
  - exact Hi.
Qed.

Theorem physU_gives_eterms :
  k0 <> 0 -> physU K n Sm eu_Um eu_Ui eu_Ux eu_Us mc Mc -> physE ed er et em n mc Mc.
Proof.
  intros Hk H.
  exists (fun i j => (Mc i j - (if Nat.eqb i j then ed i else 0)) / er i).
  split; intros i j Hi Hj.
  2:{ field. exact (er_nz i Hi). }
  assert (Hj' : (j < n)%nat) by lia.
  assert (Hcol : forall a, (a < n)%nat ->
    sm (fun k => ((if Nat.eqb a k then k0 / er a else 0) - Sm a k * (k0 * em k / er k)) * Mc k j)
    = Sm a j * (k0 * (et j - em j * ed j / er j)) - (if Nat.eqb a j then - k0 * ed j / er j else 0)).
  { intros a Ha. pose proof (H a j Ha Hj) as E. unfold eu_Um, eu_Ui, eu_Ux, eu_Us in E.
    rewrite (RU_dg _ _ a j Hj') in E.
    rewrite (sumf_ext K n _ (fun k => ((if Nat.eqb a k then k0 / er a else 0) - Sm a k * (k0 * em k / er k)) * Mc k j)) in E.
    2:{ intros k Hk'. rewrite (NU_dg _ _ a k Hk'). reflexivity. }
    rewrite E. destruct (Nat.eqb_spec a j) as [->|]; reflexivity. }
  pose proof (proj1 (col_core_conv j k0 (et j) (ed j) er em (fun a => Mc a j) Hj' Hk er_nz Hcol) i Hi) as E.
  cbv beta in E.
  transitivity ((Mc i j - (if Nat.eqb i j then ed j else 0)) / er i).
  { destruct (Nat.eqb_spec i j) as [->|]; reflexivity. }
  rewrite E. apply sumf_ext. intros k _.
  destruct (Nat.eqb_spec k j) as [->|]; reflexivity.
Qed.

Theorem eterms_kernel_U :
  k0 <> 0 -> right_kernel_trivial K n (ISE em) -> right_kernel_trivial K n (NU K n Sm eu_Um eu_Ux).
Proof.
  intros Hk Hker x Hx.
  apply (col_kernel k0 er em Hk er_nz Hker x).
  intros i Hi. refine (eq_trans _ (Hx i Hi)). apply sumf_ext. intros k Hk'.
  unfold eu_Um, eu_Ux. rewrite (NU_dg _ _ i k Hk'). reflexivity.
Qed.
End EU.

(* ---------------------------------------------------------------- (2) T8 / TE10 core *)
Section ET.
Variables (ed er et em : nat -> K) (k0 : K) (mr : nat) (Mc : nat -> nat -> K).
Hypothesis mr_le : (mr <= n)%nat.
Hypothesis et_nz : forall i, (i < n)%nat -> et i <> 0.

Definition et_Ts := dg (fun i => k0 * (er i - ed i * em i / et i)).
Definition et_Ti := dg (fun i => k0 * ed i / et i).
Definition et_Tx := dg (fun i => - k0 * em i / et i).
Definition et_Tm := dg (fun i => k0 / et i).

(* Et^-1 (I - Em S) *)
Definition Wm (a j : nat) : K := IES em a j / et a.

Lemma NT_dg a j : (a < n)%nat -> NT K n Sm et_Tx et_Tm a j = k0 * Wm a j.
Proof.
  intros Ha. unfold NT, et_Tx, et_Tm, dg, Wm, IES.
  rewrite (sumf_pick_l a _ (fun k => Sm k j) Ha). pose proof (et_nz a Ha).
  destruct (Nat.eqb a j); field; auto.
Qed.

Lemma RT_dg i j : (i < n)%nat ->
  RT K n Sm et_Ts et_Ti i j = k0 * (er i - ed i * em i / et i) * Sm i j + (if Nat.eqb i j then k0 * ed i / et i else 0).
Proof. intros Hi. unfold RT, et_Ts, et_Ti, dg. rewrite (sumf_pick_l i _ (fun k => Sm k j) Hi). reflexivity. Qed.

(* push-through  (I - S Em)^-1 S = S (I - Em S)^-1  without inverses:  B Et^-1 (I - Em S) = S
   for the solution B of (I - S Em) B = S Et *)
Lemma push_through (B : nat -> nat -> K) :
  right_kernel_trivial K n (ISE em) ->
  (forall i j, (i < n)%nat -> (j < n)%nat ->
     B i j = sm (fun k => Sm i k * ((if Nat.eqb k j then et k else 0) + em k * B k j))) ->
  forall i j, (i < n)%nat -> (j < n)%nat -> sm (fun a => B i a * Wm a j) = Sm i j.
Proof.
  intros Hker HB i j Hi Hj.
  set (X := fun i j => sm (fun a => B i a * Wm a j)).
  assert (E : X i j - Sm i j = 0).
  { apply (Hker (fun k => X k j - Sm k j)); [|exact Hi].
    intros r Hr. rewrite (apply_ISE em _ r Hr).
    rewrite (sumf_ext K n (fun k => Sm r k * (em k * (X k j - Sm k j)))
                          (fun k => Sm r k * (em k * X k j) - Sm r k * (em k * Sm k j))) by (intros; ring).
    rewrite sumf_sub_k.
    assert (EX : X r j - sm (fun k => Sm r k * (em k * X k j)) = Sm r j - sm (fun k => Sm r k * (em k * Sm k j))).
    { unfold X.
      rewrite (sumf_ext K n (fun k => Sm r k * (em k * sm (fun a => B k a * Wm a j)))
                            (fun k => sm (fun a => Sm r k * (em k * B k a) * Wm a j))).
      2:{ intros k _. transitivity ((Sm r k * em k) * sm (fun a => B k a * Wm a j)); [ring|].
          rewrite sumf_scale_l. apply sumf_ext. intros; ring. }
      rewrite (sumf_exchange K n n (fun k a => Sm r k * (em k * B k a) * Wm a j)).
      rewrite (sumf_ext K n (fun a => sm (fun k => Sm r k * (em k * B k a) * Wm a j))
                            (fun a => sm (fun k => Sm r k * (em k * B k a)) * Wm a j)).
      2:{ intros a _. rewrite sumf_scale_r. reflexivity. }
      rewrite <- sumf_sub_k.
      rewrite (sumf_ext K n _ (fun a => (if Nat.eqb a j then Sm r a else 0) - Sm r a * (em a * Sm a j))).
      2:{ intros a Ha. pose proof (HB r a Hr Ha) as Ew. rewrite (wave_split_var a et em (fun k => B k a) r Ha) in Ew.
          assert (Es : sm (fun k => Sm r k * (em k * B k a)) = B r a - Sm r a * et a) by (rewrite Ew; ring).
          rewrite Es. unfold Wm, IES. pose proof (et_nz a Ha). destruct (Nat.eqb a j); field; auto. }
      rewrite sumf_sub_k, (sumf_single K n j (fun a => Sm r a) Hj). reflexivity. }
    transitivity ((X r j - sm (fun k => Sm r k * (em k * X k j))) - (Sm r j - sm (fun k => Sm r k * (em k * Sm k j)))); [ring|].
    rewrite EX. ring. }
  transitivity ((X i j - Sm i j) + Sm i j); [unfold X; ring | rewrite E; ring].
Qed.

Theorem eterms_give_physT :
  right_kernel_trivial K n (ISE em) ->
  physE ed er et em mr n Mc -> physT K n Sm et_Ts et_Ti et_Tx et_Tm mr Mc.
Proof.
  intros Hker (B & HB & HM) i j Hi Hj.
  assert (Hi' : (i < n)%nat) by lia.
  rewrite (RT_dg i j Hi').
  rewrite (sumf_ext K n _ (fun a => (if Nat.eqb a i then ed i * k0 * Wm a j else 0) + (er i * k0) * (B i a * Wm a j))).
  2:{ intros a Ha. rewrite (NT_dg a j Ha), (HM i a Hi Ha), (Nat.eqb_sym i a). destruct (Nat.eqb a i); ring. }
  rewrite sumf_add, (sumf_single K n i (fun a => ed i * k0 * Wm a j) Hi'), <- sumf_scale_l.
  rewrite (push_through B Hker HB i j Hi' Hj).
  unfold Wm, IES. pose proof (et_nz i Hi').
  destruct (Nat.eqb i j); field; auto.
Qed.

Theorem eterms_kernel_T :
  k0 <> 0 -> left_kernel_trivial K n (IES em) -> left_kernel_trivial K n (NT K n Sm et_Tx et_Tm).
Proof.
  intros Hk Hker x Hx k Hk'.
  assert (E : x k * k0 / et k = 0).
  { apply (Hker (fun t => x t * k0 / et t)); [|exact Hk'].
    intros j Hj. refine (eq_trans _ (Hx j Hj)). apply sumf_ext. intros t Ht.
    rewrite (NT_dg t j Ht). unfold Wm. field. exact (et_nz t Ht). }
  pose proof (et_nz k Hk').
  transitivity (x k * k0 / et k * (et k / k0)); [field; auto | rewrite E; field; auto].
Qed.
End ET.
End ETerms.

(* ================================================================ (5) the hypotheses are satisfiable *)
(* a 2 x 2 determinant criterion for the kernels, every field *)
Section Kernel2.
Variable K : CField.
Add Field Kf_le2 : (cth K).
Local Open Scope cf_scope.
Variable N : nat -> nat -> K.
Hypothesis det_nz : N 0%nat 0%nat * N 1%nat 1%nat - N 0%nat 1%nat * N 1%nat 0%nat <> 0.

Lemma right_kernel_2 : right_kernel_trivial K 2 N.
Proof.
  intros x H k Hk.
  pose proof (H 0%nat ltac:(lia)) as E0. pose proof (H 1%nat ltac:(lia)) as E1. cbn [sumf] in E0, E1.
  set (d := N 0%nat 0%nat * N 1%nat 1%nat - N 0%nat 1%nat * N 1%nat 0%nat) in *.
  destruct k as [|[|k]]; [| |exfalso; lia].
  - assert (E : x 0%nat * d = 0).
    { transitivity (N 1%nat 1%nat * (0 + N 0%nat 0%nat * x 0%nat + N 0%nat 1%nat * x 1%nat)
                    - N 0%nat 1%nat * (0 + N 1%nat 0%nat * x 0%nat + N 1%nat 1%nat * x 1%nat)); [unfold d; ring|].
      rewrite E0, E1. ring. }
    transitivity (x 0%nat * d / d); [field; exact det_nz | rewrite E; field; exact det_nz].
  - assert (E : x 1%nat * d = 0).
    { transitivity (N 0%nat 0%nat * (0 + N 1%nat 0%nat * x 0%nat + N 1%nat 1%nat * x 1%nat)
                    - N 1%nat 0%nat * (0 + N 0%nat 0%nat * x 0%nat + N 0%nat 1%nat * x 1%nat)); [unfold d; ring|].
      rewrite E0, E1. ring. }
    transitivity (x 1%nat * d / d); [field; exact det_nz | rewrite E; field; exact det_nz].
Qed.

Lemma left_kernel_2 : left_kernel_trivial K 2 N.
Proof.
  intros x H k Hk.
  pose proof (H 0%nat ltac:(lia)) as E0. pose proof (H 1%nat ltac:(lia)) as E1. cbn [sumf] in E0, E1.
  set (d := N 0%nat 0%nat * N 1%nat 1%nat - N 0%nat 1%nat * N 1%nat 0%nat) in *.
  destruct k as [|[|k]]; [| |exfalso; lia].
  - assert (E : x 0%nat * d = 0).
    { transitivity ((0 + x 0%nat * N 0%nat 0%nat + x 1%nat * N 1%nat 0%nat) * N 1%nat 1%nat
                    - (0 + x 0%nat * N 0%nat 1%nat + x 1%nat * N 1%nat 1%nat) * N 1%nat 0%nat); [unfold d; ring|].
      rewrite E0, E1. ring. }
    transitivity (x 0%nat * d / d); [field; exact det_nz | rewrite E; field; exact det_nz].
  - assert (E : x 1%nat * d = 0).
    { transitivity ((0 + x 0%nat * N 0%nat 1%nat + x 1%nat * N 1%nat 1%nat) * N 0%nat 0%nat
                    - (0 + x 0%nat * N 0%nat 0%nat + x 1%nat * N 1%nat 0%nat) * N 0%nat 1%nat); [unfold d; ring|].
      rewrite E0, E1. ring. }
    transitivity (x 1%nat * d / d); [field; exact det_nz | rewrite E; field; exact det_nz].
Qed.
End Kernel2.

(* a 2-port E network at the Gaussian rationals measuring a through:
     ed = [1/10, -1/5 + i/7], er = [2, 3/2], et = [1/2, 1], em = [1/4, 1/3 - i/2], S = [0 1; 1 0], scale k0 = 3 + i *)
Definition ex_S (i j : nat) : qi := if Nat.eqb i j then qi0 else qi1.
Definition ex_ed (i : nat) : qi := match i with O => mkqi 1 10 0 1 | _ => mkqi (-1) 5 1 7 end.
Definition ex_er (i : nat) : qi := match i with O => mkqi 2 1 0 1 | _ => mkqi 3 2 0 1 end.
Definition ex_et (i : nat) : qi := match i with O => mkqi 1 2 0 1 | _ => mkqi 1 1 0 1 end.
Definition ex_em (i : nat) : qi := match i with O => mkqi 1 4 0 1 | _ => mkqi 1 3 (-1) 2 end.
Definition ex_k0 : qi := mkqi 3 1 1 1.
(* the wave the through returns: the solution of (I - S Em) B = S Et, computed by Cramer's rule *)
Definition ex_det : qi := @csub QIF qi1 (@cmul QIF (ex_em 0) (ex_em 1)).
Definition ex_B (i j : nat) : qi :=
  match i, j with
  | O, O => @cdiv QIF (@cmul QIF (ex_em 1) (ex_et 0)) ex_det
  | O, _ => @cdiv QIF (ex_et 1) ex_det
  | _, O => @cdiv QIF (ex_et 0) ex_det
  | _, _ => @cdiv QIF (@cmul QIF (ex_em 0) (ex_et 1)) ex_det
  end.
Definition ex_Mc (i j : nat) : qi :=
  @cadd QIF (if Nat.eqb i j then ex_ed i else qi0) (@cmul QIF (ex_er i) (ex_B i j)).

Ltac two_e i Hi := destruct i as [|[|i]]; [| |exfalso; lia].
Ltac qdec_e := apply qi_eqb_eq; vm_compute; reflexivity.
Ltac qnz_e := let H := fresh in intro H; apply (proj2 (qi_eqb_eq _ _)) in H; vm_compute in H; discriminate H.

Example ex_physE : physE QIF 2 ex_S ex_ed ex_er ex_et ex_em 2 2 ex_Mc.
Proof.
  exists ex_B. split; intros i j Hi Hj; two_e i Hi; two_e j Hj; qdec_e.
Qed.

Example ex_er_nz : forall i, i < 2 -> ex_er i <> @c0 QIF.
Proof. intros i Hi. two_e i Hi; qnz_e. Qed.
Example ex_et_nz : forall i, i < 2 -> ex_et i <> @c0 QIF.
Proof. intros i Hi. two_e i Hi; qnz_e. Qed.
Example ex_k0_nz : ex_k0 <> @c0 QIF.
Proof. qnz_e. Qed.

Example ex_ISE_kernel : right_kernel_trivial QIF 2 (ISE QIF ex_S ex_em).
Proof. apply right_kernel_2. qnz_e. Qed.
Example ex_IES_kernel : left_kernel_trivial QIF 2 (IES QIF ex_S ex_em).
Proof. apply left_kernel_2. qnz_e. Qed.

(* the response is not trivial: the four cells are different from each other and from 0 *)
Example ex_Mc_values :
  ex_Mc 0 0 <> ex_Mc 1 1 /\ ex_Mc 0 1 <> ex_Mc 1 0 /\ ex_Mc 0 1 <> @c0 QIF /\ ex_Mc 1 0 <> @c0 QIF /\ ex_Mc 0 0 <> ex_ed 0.
Proof. repeat split; qnz_e. Qed.

Example eterms_example_physU :
  physU QIF 2 ex_S (eu_Um QIF ex_er ex_k0) (eu_Ui QIF ex_ed ex_er ex_k0) (eu_Ux QIF ex_er ex_em ex_k0)
        (eu_Us QIF ex_ed ex_er ex_et ex_em ex_k0) 2 ex_Mc /\
  right_kernel_trivial QIF 2 (NU QIF 2 ex_S (eu_Um QIF ex_er ex_k0) (eu_Ux QIF ex_er ex_em ex_k0)).
Proof.
  split.
  - exact (eterms_give_physU QIF 2 ex_S ex_ed ex_er ex_et ex_em ex_k0 2 ex_Mc (le_n 2) ex_er_nz ex_physE).
  - exact (eterms_kernel_U QIF 2 ex_S ex_er ex_em ex_k0 ex_er_nz ex_k0_nz ex_ISE_kernel).
Qed.

Example eterms_example_physT :
  physT QIF 2 ex_S (et_Ts QIF ex_ed ex_er ex_et ex_em ex_k0) (et_Ti QIF ex_ed ex_et ex_k0)
        (et_Tx QIF ex_et ex_em ex_k0) (et_Tm QIF ex_et ex_k0) 2 ex_Mc /\
  left_kernel_trivial QIF 2 (NT QIF 2 ex_S (et_Tx QIF ex_et ex_em ex_k0) (et_Tm QIF ex_et ex_k0)).
Proof.
  split.
  - exact (eterms_give_physT QIF 2 ex_S ex_ed ex_er ex_et ex_em ex_k0 2 ex_Mc (le_n 2) ex_et_nz ex_ISE_kernel ex_physE).
  - exact (eterms_kernel_T QIF 2 ex_S ex_et ex_em ex_k0 ex_et_nz ex_k0_nz ex_IES_kernel).
Qed.

(* the same network column by column (UE14 with the same terms in both columns, scale factors 1 and k0) *)
Example eterms_example_phys14 :
  let kk := fun c : nat => match c with O => qi1 | _ => ex_k0 end in
  phys14 QIF 2 ex_S (e14_um QIF kk (fun _ => ex_er)) (e14_ux QIF kk (fun _ => ex_er) (fun _ => ex_em))
         (e14_ui QIF ex_ed kk (fun _ => ex_er)) (e14_us QIF ex_ed ex_et kk (fun _ => ex_er) (fun _ => ex_em)) 2 ex_Mc.
Proof.
  intros kk.
  apply (eterms_give_phys14 QIF 2 ex_S ex_ed ex_et kk (fun _ => ex_er) (fun _ => ex_em) 2 ex_Mc (le_n 2)).
  - intros c i _ Hi. exact (ex_er_nz i Hi).
  - exists ex_B. split; intros i c Hi Hc; two_e i Hi; two_e c Hc; qdec_e.
Qed.
