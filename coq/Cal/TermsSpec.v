(* Specification of the equations a measured standard contributes: the literal expansion of the
   documented matrix equations (vnacal_layout.h)
        T types:  - Ts S V - Ti V + M Tx S V + M Tm V = 0        (cell eq_row, eq_col)
        U types:    V Um M + V Ui - V S Ux M - V S Us = 0
   as a list of products  sign * [m cell] * [s cell] * v cell * (error term number).  Error terms are
   numbered by the layout regenerated from the C text (Gen/LayoutGen.v: VL_*_OFFSET + cell), then the
   unity term (tm11 / um11 / um_kk of column k) is moved to the right-hand side: index -1, sign
   flipped, and the terms after it are renumbered.  No proofs here. *)
Require Import List ZArith Bool Arith.
Require Import LV.Gen.LayoutGen LV.Cal.TermsModel.
Import ListNotations.
Local Open Scope nat_scope.

Record sterm := mkS { st_idx : Z; st_neg : bool; st_m : Z; st_s : Z; st_v : Z; st_nov : bool }.

Section Spec.
Variables (ty : caltype) (mr mc : nat).
Let p := Nat.max mr mc.
Let l := layout ty (Z.of_nat mr) (Z.of_nat mc).
Let full := orb (caltype_eqb ty T16) (caltype_eqb ty U16).
Variables (eq_row eq_col : nat).

Definition zc (n : nat) : Z := Z.of_nat n.
Definition nn : Z := (-1)%Z.

(* cell number inside a block: by rows for the 16-term types, the diagonal position otherwise *)
Definition cellno (row col ncols : nat) : Z := if full then zc (row * ncols + col) else zc row.
Definition present (row col : nat) : bool := orb full (Nat.eqb row col).

(* T: error-term matrices Ts (mr x p), Ti (mr x p), Tx (mc x p), Tm (mc x p); S, V: p x p *)
Definition spec_t : list sterm :=
  flat_map (fun i => flat_map (fun k =>
     if present eq_row i then
       [mkS (VL_TS_OFFSET l + cellno eq_row i p) true nn (zc (i * p + k)) (zc (k * p + eq_col)) (Nat.eqb k eq_col)]
     else []) (seq 0 p)) (seq 0 p)
  ++
  flat_map (fun k =>
     if present eq_row k then
       [mkS (VL_TI_OFFSET l + cellno eq_row k p) true nn nn (zc (k * p + eq_col)) (Nat.eqb k eq_col)]
     else []) (seq 0 p)
  ++
  flat_map (fun j => flat_map (fun i => flat_map (fun k =>
     if present j i then
       [mkS (VL_TX_OFFSET l + cellno j i p) false (zc (eq_row * mc + j)) (zc (i * p + k)) (zc (k * p + eq_col)) (Nat.eqb k eq_col)]
     else []) (seq 0 p)) (seq 0 p)) (seq 0 mc)
  ++
  flat_map (fun j => flat_map (fun k =>
     if present j k then
       [mkS (VL_TM_OFFSET l + cellno j k p) false (zc (eq_row * mc + j)) nn (zc (k * p + eq_col)) (Nat.eqb k eq_col)]
     else []) (seq 0 p)) (seq 0 mc).

(* U: Um (p x mr), Ui (p x mc), Ux (p x mr), Us (p x mc); offsets relative to `base' (the start of the
   column's system for UE14) *)
Definition spec_u (base : Z) (um_off ui_off ux_off us_off : Z) : list sterm :=
  flat_map (fun k => flat_map (fun j =>
     if present k j then
       [mkS (um_off - base + cellno k j mr) false (zc (j * mc + eq_col)) nn (zc (eq_row * p + k)) (Nat.eqb k eq_row)]
     else []) (seq 0 mr)) (seq 0 p)
  ++
  flat_map (fun k =>
     if present k eq_col then
       [mkS (ui_off - base + (if full then zc (k * mc + eq_col) else if VNACAL_IS_UE14 ty then 0%Z else zc eq_col))
            false nn nn (zc (eq_row * p + k)) (Nat.eqb k eq_row)]
     else []) (seq 0 p)
  ++
  flat_map (fun k => flat_map (fun i => flat_map (fun j =>
     if present i j then
       [mkS (ux_off - base + cellno i j mr) true (zc (j * mc + eq_col)) (zc (k * p + i)) (zc (eq_row * p + k)) (Nat.eqb k eq_row)]
     else []) (seq 0 mr)) (seq 0 p)) (seq 0 p)
  ++
  flat_map (fun k => flat_map (fun i =>
     if present i eq_col then
       [mkS (us_off - base + (if full then zc (i * mc + eq_col) else if VNACAL_IS_UE14 ty then 0%Z else zc eq_col))
            true nn (zc (k * p + i)) (zc (eq_row * p + k)) (Nat.eqb k eq_row)]
     else []) (seq 0 p)) (seq 0 p).

Definition spec_raw : list sterm :=
  if VNACAL_IS_T ty then spec_t
  else if VNACAL_IS_UE14 ty then
    let c := zc eq_col in
    spec_u (VL_UM14_OFFSET l c) (VL_UM14_OFFSET l c) (VL_UI14_OFFSET l c) (VL_UX14_OFFSET l c) (VL_US14_OFFSET l c)
  else spec_u 0%Z (VL_UM_OFFSET l) (VL_UI_OFFSET l) (VL_UX_OFFSET l) (VL_US_OFFSET l).

(* number of the unity term inside its system *)
Definition unity : Z :=
  if VNACAL_IS_UE14 ty then vl_unity_offset l (zc eq_col) else vl_unity_offset l 0.

(* known-zero terms: S cell known to be zero; V entry between ports without a path (diagonal types) *)
Definition dropped (s : nat -> scell) (conn : option (nat -> bool)) (t : sterm) : bool :=
  orb (if Z.ltb (st_s t) 0 then false else scell_is_zero (s (Z.to_nat (st_s t))))
      (match conn with Some cm => negb (cm (Z.to_nat (st_v t))) | None => false end).

Definition to_rhs (t : sterm) : Z * bool * Z * Z * Z * bool :=
  let i := st_idx t in
  if Z.eqb i unity then ((-1)%Z, negb (st_neg t), st_m t, st_s t, st_v t, st_nov t)
  else ((if Z.ltb unity i then (i - 1)%Z else i), st_neg t, st_m t, st_s t, st_v t, st_nov t).

Definition spec_terms (s : nat -> scell) (conn : option (nat -> bool)) : list (Z * bool * Z * Z * Z * bool) :=
  map to_rhs (filter (fun t => negb (dropped s conn t)) spec_raw).
End Spec.

(* ---------------------------------------------------------------- multiset comparison *)
Definition tup := (Z * bool * Z * Z * Z * bool)%type.
Definition tup_eqb (a b : tup) : bool :=
  let '(x1, n1, m1, s1, v1, o1) := a in let '(x2, n2, m2, s2, v2, o2) := b in
  andb (andb (andb (Z.eqb x1 x2) (Bool.eqb n1 n2)) (andb (Z.eqb m1 m2) (Z.eqb s1 s2))) (andb (Z.eqb v1 v2) (Bool.eqb o1 o2)).
Definition countt (t : tup) (l : list tup) : nat := length (filter (tup_eqb t) l).
Definition multiset_eqb (a b : list tup) : bool :=
  andb (Nat.eqb (length a) (length b)) (forallb (fun t => Nat.eqb (countt t a) (countt t b)) (a ++ b)).

Definition model_tuple (vcols : nat) (t : term) : tup := (t_x t, t_neg t, t_m t, t_s t, t_v t, t_nov vcols t).
