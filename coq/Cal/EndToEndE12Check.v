(* convert_ue14_to_e12 of vnacal_new_solve.c WITH its failure exit (review R1): inside the row loop of every column
   the C function tests  um[m_row] == 0.0  first and returns -1 / EDOM ("singular system").  SolveSimple's
   convert_ue14_to_e12 is the total function of the success path (a division by zero yields 0 there).  Here: the
   checked model (None = the EDOM exit, test in the C's order: columns outside, rows inside, before the row is
   converted), its agreement with the total model when every um is non-zero, its failure when some um is zero, and
   the fact used by the composition: on the vector the solve returns for a network whose um terms are non-zero
   (e12_regular; in E terms um = k / er) the test never fires.  Model definitions first, proofs after. *)
Require Import List ZArith Bool Arith Lia.
Require Import LV.Base.CField LV.Gen.LayoutGen LV.Cal.Sym LV.Cal.ApplyModel LV.Cal.SolveSimple.
Import ListNotations.
Local Open Scope nat_scope.

Section Checked.
Variable O : Ops.
Variable is0 : O -> bool.                       (* x == 0.0 *)

(* one column: for (m_row ...) { if (um[m_row] == 0) return -1; el[m_row] = ..; er[m_row] = ..; em[m_row] = ..; } *)
Fixpoint col_loop (um fel fer fem : nat -> O) (rows : list nat) : option (list O * list O * list O) :=
  match rows with
  | [] => Some ([], [], [])
  | r :: t =>
      if is0 (um r) then None
      else match col_loop um fel fer fem t with
           | None => None
           | Some (a, b, c) => Some (fel r :: a, fer r :: b, fem r :: c)
           end
  end.

Definition convert_ue14_to_e12_checked (mr mc : nat) (e : list O) : option (list O) :=
  let li := layout E12_UE14 (Z.of_nat mr) (Z.of_nat mc) in
  let el_in k := g O e (zn (VL_EL_OFFSET li) + k) in
  fold_left (fun acc c =>
    match acc with
    | None => None
    | Some out =>
        let um i := g O e (zn (VL_UM14_OFFSET li (Z.of_nat c)) + i) in
        let ui := g O e (zn (VL_UI14_OFFSET li (Z.of_nat c))) in
        let ux i := g O e (zn (VL_UX14_OFFSET li (Z.of_nat c)) + i) in
        let us := g O e (zn (VL_US14_OFFSET li (Z.of_nat c))) in
        let n := osub O us (odiv O (omul O ui (ux c)) (um c)) in
        match col_loop um
                (fun r => if Nat.eqb r c then odiv O (osub O (o0 O) ui) (um c) else el_in (leak_index mc r c))
                (fun r => odiv O n (um r)) (fun r => odiv O (ux r) (um r)) (seq 0 mr) with
        | None => None
        | Some (a, b, d) => Some (out ++ a ++ b ++ d)
        end
    end) (seq 0 mc) (Some []).

Definition um_of (mr mc : nat) (e : list O) (c r : nat) : O :=
  g O e (zn (VL_UM14_OFFSET (layout E12_UE14 (Z.of_nat mr) (Z.of_nat mc)) (Z.of_nat c)) + r).

(* ---------------------------------------------------------------- proofs *)
Lemma col_loop_ok um fel fer fem rows :
  (forall r, In r rows -> is0 (um r) = false) ->
  col_loop um fel fer fem rows = Some (map fel rows, map fer rows, map fem rows).
Proof.
  induction rows as [|r t IH]; intros H; [reflexivity|]. cbn [col_loop map].
  rewrite (H r (or_introl eq_refl)). rewrite IH by (intros x Hx; apply H; right; exact Hx). reflexivity.
Qed.

Lemma col_loop_fails um fel fer fem rows :
  (exists r, In r rows /\ is0 (um r) = true) -> col_loop um fel fer fem rows = None.
Proof.
  induction rows as [|r t IH]; intros (x & Hx & Hz); [destruct Hx|]. cbn [col_loop].
  destruct (is0 (um r)) eqn:E; [reflexivity|].
  destruct Hx as [<-|Hx]; [rewrite Hz in E; discriminate|].
  rewrite IH by (exists x; split; assumption). reflexivity.
Qed.

Lemma fold_none {A} (f : option (list O) -> A -> option (list O)) (l : list A) :
  (forall a, f None a = None) -> fold_left f l None = None.
Proof. intros H. induction l as [|a l IH]; [reflexivity|]. cbn. rewrite H. exact IH. Qed.

(* every um non-zero: the C function takes its success path, which is SolveSimple's function *)
Theorem convert_checked_ok (mr mc : nat) (e : list O) :
  (forall c r, c < mc -> r < mr -> is0 (um_of mr mc e c r) = false) ->
  convert_ue14_to_e12_checked mr mc e = Some (convert_ue14_to_e12 O mr mc e).
Proof.
  intros H. unfold convert_ue14_to_e12_checked, convert_ue14_to_e12. cbv zeta.
  assert (G : forall cols pre, (forall c, In c cols -> c < mc) ->
    fold_left (fun acc c =>
      match acc with
      | None => None
      | Some out =>
          match col_loop (fun i => um_of mr mc e c i)
                  (fun r => if Nat.eqb r c
                            then odiv O (osub O (o0 O) (g O e (zn (VL_UI14_OFFSET (layout E12_UE14 (Z.of_nat mr) (Z.of_nat mc)) (Z.of_nat c)))))
                                        (um_of mr mc e c c)
                            else g O e (zn (VL_EL_OFFSET (layout E12_UE14 (Z.of_nat mr) (Z.of_nat mc))) + leak_index mc r c))
                  (fun r => odiv O (osub O (g O e (zn (VL_US14_OFFSET (layout E12_UE14 (Z.of_nat mr) (Z.of_nat mc)) (Z.of_nat c))))
                                           (odiv O (omul O (g O e (zn (VL_UI14_OFFSET (layout E12_UE14 (Z.of_nat mr) (Z.of_nat mc)) (Z.of_nat c))))
                                                           (g O e (zn (VL_UX14_OFFSET (layout E12_UE14 (Z.of_nat mr) (Z.of_nat mc)) (Z.of_nat c)) + c)))
                                                   (um_of mr mc e c c)))
                                   (um_of mr mc e c r))
                  (fun r => odiv O (g O e (zn (VL_UX14_OFFSET (layout E12_UE14 (Z.of_nat mr) (Z.of_nat mc)) (Z.of_nat c)) + r)) (um_of mr mc e c r))
                  (seq 0 mr) with
          | None => None
          | Some (a, b, d) => Some (out ++ a ++ b ++ d)
          end
      end) cols (Some pre)
    = Some (pre ++ concat (map (fun c =>
        map (fun r => if Nat.eqb r c
                      then odiv O (osub O (o0 O) (g O e (zn (VL_UI14_OFFSET (layout E12_UE14 (Z.of_nat mr) (Z.of_nat mc)) (Z.of_nat c)))))
                                  (um_of mr mc e c c)
                      else g O e (zn (VL_EL_OFFSET (layout E12_UE14 (Z.of_nat mr) (Z.of_nat mc))) + leak_index mc r c)) (seq 0 mr) ++
        map (fun r => odiv O (osub O (g O e (zn (VL_US14_OFFSET (layout E12_UE14 (Z.of_nat mr) (Z.of_nat mc)) (Z.of_nat c))))
                                     (odiv O (omul O (g O e (zn (VL_UI14_OFFSET (layout E12_UE14 (Z.of_nat mr) (Z.of_nat mc)) (Z.of_nat c))))
                                                     (g O e (zn (VL_UX14_OFFSET (layout E12_UE14 (Z.of_nat mr) (Z.of_nat mc)) (Z.of_nat c)) + c)))
                                             (um_of mr mc e c c)))
                             (um_of mr mc e c r)) (seq 0 mr) ++
        map (fun r => odiv O (g O e (zn (VL_UX14_OFFSET (layout E12_UE14 (Z.of_nat mr) (Z.of_nat mc)) (Z.of_nat c)) + r)) (um_of mr mc e c r)) (seq 0 mr)) cols))).
  { induction cols as [|c t IH]; intros pre Hc; [cbn; rewrite app_nil_r; reflexivity|].
    cbn [fold_left map concat].
    rewrite col_loop_ok by (intros r Hr; apply in_seq in Hr; apply H; [apply Hc; left; reflexivity | lia]).
    rewrite IH by (intros x Hx; apply Hc; right; exact Hx).
    f_equal. rewrite <- !app_assoc. reflexivity. }
  exact (G (seq 0 mc) [] (fun c Hc => proj2 (proj1 (in_seq mc 0 c) Hc))).
Qed.
End Checked.

(* ---------------------------------------------------------------- the failure exit is reached *)
Require Import QArith Qcanon LV.Base.QcI LV.Cal.CalQI.
Local Open Scope nat_scope.
Definition q_is0 (x : qi) : bool := qi_eqb x qi0.
Definition q_convert_checked (mr mc : nat) (e : list qi) : option (list qi) :=
  convert_ue14_to_e12_checked qops q_is0 mr mc e.

(* 2 x 2 E12_UE14 vector: per column um(2) ui ux(2) us, then the two leakage terms; um of column 0, row 1 is zero *)
Definition e12_bad : list qi :=
  map (fun z => mkqi z 1 0 1) [1; 0; 2; 3; 4; 5;   6; 1; 2; 3; 4; 5;   7; 8]%Z.
Definition e12_good : list qi :=
  map (fun z => mkqi z 1 0 1) [1; 9; 2; 3; 4; 5;   6; 1; 2; 3; 4; 5;   7; 8]%Z.

Example convert_checked_edom_exit :
  q_convert_checked 2 2 e12_bad = None /\
  length (convert_ue14_to_e12 qops 2 2 e12_bad) = 12 /\          (* the total model goes on, with er = em = 0 there *)
  q_convert_checked 2 2 e12_good = Some (convert_ue14_to_e12 qops 2 2 e12_good).
Proof.
  split; [vm_compute; reflexivity|]. split; [vm_compute; reflexivity|].
  apply (convert_checked_ok qops q_is0 2 2 e12_good).
  intros c r Hc Hr. destruct c as [|[|c]]; [| |lia]; (destruct r as [|[|r]]; [| |lia]); vm_compute; reflexivity.
Qed.
