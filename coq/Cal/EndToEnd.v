(* c01_model_end_to_end: composition of the two halves on the models as coded, at the Gaussian rationals.
   For every stored type and every shape vnacal_apply accepts with dimensions 1..4 (the 40 cases of
   ApplyProofs.apply_cases), EVERY list of standards, parameter values, measured values:
     if some normalised error-term vectors xs_true (one per linear system, unity term removed) satisfy
     every equation the model of _vnacal_new_solve_simple assembles from the standards, and each system
     determines them (square: the solver does not report a zero determinant -- part of "the solve
     succeeds"; tall: trivial kernel, explicit hypothesis), and the solve succeeds with error terms e,
     then e is the true vector (unity terms inserted, leakage means appended, converted for E12), and
     for every device S and measurement m that satisfy the documented equation with the true vector,
     the model of vnacal_apply on (e, m) -- when it reports success -- returns S. *)
Require Import List ZArith Bool Arith Lia QArith Qcanon.
Require Import LV.Base.CField LV.Base.QcI LV.Lin.MatL LV.Lin.LuModel LV.Lin.LuQI LV.Lin.LuQI2 LV.Lin.LsSpec.
Require Import LV.Gen.LayoutGen LV.Cal.Sym LV.Cal.TermsModel LV.Cal.AddModel LV.Cal.ApplyModel LV.Cal.ApplyProofs
               LV.Cal.ApplyIdentity LV.Cal.SolveSimple LV.Cal.CalQI LV.Cal.ApplyRecovers LV.Cal.SolveRecovers.
Import ListNotations.
Local Open Scope nat_scope.

(* the layout type used while measuring / solving *)
Definition solve_type (ty : caltype) : caltype := if caltype_eqb ty E12 then E12_UE14 else ty.

(* the saved vector built from normalised solutions xs (as vnacal_new_solve builds it) *)
Definition true_terms (ty : caltype) (mr mc : nat) (ms : list (mvals qops)) (xs : list (list qi)) : list qi :=
  let sty := solve_type ty in
  let e := e_vector qops sty mr mc ms xs in
  if caltype_eqb sty E12_UE14 then convert_ue14_to_e12 qops mr mc e else e.

Lemma convert_length (O : Ops) (mr mc : nat) (e : list O) :
  length (convert_ue14_to_e12 O mr mc e) = mc * (mr + mr + mr).
Proof.
  unfold convert_ue14_to_e12.
  assert (G : forall (f : nat -> list O) l, (forall c, length (f c) = mr + mr + mr) ->
              length (concat (map f l)) = length l * (mr + mr + mr)).
  { intros f l Hf. induction l as [|c l IH]; [reflexivity|]. cbn [map concat length].
    rewrite app_length, Hf, IH. reflexivity. }
  rewrite G; [rewrite seq_length; reflexivity|].
  intros c. rewrite !app_length, !map_length, !seq_length. lia.
Qed.

Definition count_ok (c : caltype * (nat * nat)) : bool :=
  let '(ty, (mr, mc)) := c in
  let sty := solve_type ty in
  if caltype_eqb ty E12 then Nat.eqb (mc * (mr + mr + mr)) (nterms ty mr mc)
  else Nat.eqb (systems_of sty mc * S (unknowns sty mr mc)
                + (if has_outside_leakage sty then length (offdiag_cells mr mc) else 0)) (nterms ty mr mc).

Lemma count_ok_all : forallb count_ok apply_cases = true.
Proof. vm_compute. reflexivity. Qed.

Lemma e12_only_all : forallb (fun c => Bool.eqb (caltype_eqb (solve_type (fst c)) E12_UE14) (caltype_eqb (fst c) E12)) apply_cases = true.
Proof. vm_compute. reflexivity. Qed.

Theorem c01_model_end_to_end_lemma (ty : caltype) (mr mc : nat) :
  In (ty, (mr, mc)) apply_cases ->
  let sty := solve_type ty in
  let n := unknowns sty mr mc in
  let nsys := systems_of sty mc in
  let p := Nat.max mr mc in
  forall (ms : list (mvals qops)) (pval : Z -> qi) (xs_true : list (list qi)) (e : list qi),
  length xs_true = nsys ->
  (forall sys, sys < nsys ->
     let xt := nth sys xs_true [] in
     let rows := q_assemble sty mr mc ms pval sys in
     length xt = n /\ (forall r, In r rows -> rdot n (fst r) xt = snd r) /\
     (n < length rows -> kernel_trivial n rows)) ->
  q_error_terms sty mr mc ms pval = Some e ->
  e = true_terms ty mr mc ms xs_true /\
  forall m s : list qi, length m = p * p -> length s = p * p ->
  (forall i j, i < p -> j < p -> doc_cell QIF ty mr mc (true_terms ty mr mc ms xs_true) m s i j = @c0 QIF) ->
  forall a b x, q_apply ty mr mc e m = AOk a b x -> x = s.
Proof.
  intros Hin sty n nsys p ms pval xs_true e Hl Hsys Hq.
  pose proof (error_terms_recover_lemma sty mr mc ms pval xs_true e Hl Hsys Hq) as He.
  fold (true_terms ty mr mc ms xs_true) in He.
  split; [exact He|].
  intros m s Hm Hs Hdoc a b x Ha. subst e.
  refine (apply_model_recovers_S_lemma ty mr mc (true_terms ty mr mc ms xs_true) m s Hin _ Hm Hs Hdoc a b x Ha).
  (* the true vector has the length of the layout *)
  pose proof count_ok_all as Hc. rewrite forallb_forall in Hc. specialize (Hc _ Hin). cbn [count_ok] in Hc.
  pose proof e12_only_all as H12. rewrite forallb_forall in H12. specialize (H12 _ Hin). cbn [fst] in H12.
  unfold true_terms. cbv zeta. fold sty.
  destruct (caltype_eqb ty E12) eqn:E12.
  - apply Bool.eqb_prop in H12. fold sty in H12. rewrite H12.
    etransitivity; [apply (convert_length qops)|]. apply Nat.eqb_eq. exact Hc.
  - apply Bool.eqb_prop in H12. fold sty in H12. rewrite H12.
    assert (Hxl : forall xk, In xk xs_true -> length xk = n).
    { intros xk Hk. destruct (In_nth _ _ [] Hk) as (sys & Hs' & <-). rewrite Hl in Hs'. exact (proj1 (Hsys sys Hs')). }
    pose proof (e_vector_length qops sty mr mc ms xs_true n Hxl) as EL.
    pose proof (leak_terms_length qops sty mr mc ms) as LL.
    apply Nat.eqb_eq in Hc.
    etransitivity; [exact EL|].
    etransitivity; [exact (f_equal (fun z => length xs_true * S n + z) LL)|].
    rewrite Hl. exact Hc.
Qed.

(* ---------------------------------------------------------------- the hypotheses can be met *)
(* One-port T8 calibration with three reflection standards (S = -1, 1, 1/2), a VNA with
   Ts = 2, Ti = 1/2, Tx = 1/4, Tm = 1 (the unity term), and a device S = 1/3 + i/5. *)
Definition ex_ts : qi := mkqi 2 1 0 1.
Definition ex_ti : qi := mkqi 1 2 0 1.
Definition ex_tx : qi := mkqi 1 4 0 1.
Definition ex_meas (s : qi) : qi := qi_div (qi_add (qi_mul ex_ts s) ex_ti) (qi_add (qi_mul ex_tx s) qi1).
Definition ex_pval (h : Z) : qi :=
  if Z.eqb h 3 then mkqi (-1) 1 0 1 else if Z.eqb h 4 then mkqi 1 1 0 1 else mkqi 1 2 0 1.
Definition ex_args (h : Z) : add_args :=
  mkArgs T8 1 1 false (fun _ => true) false 0 0 1 1 [h] 1 1 false (Some [1%Z]).
Definition ex_ms : list (mvals qops) :=
  flat_map (fun h => match add_common (ex_args h) with
                     | Accepted m => [mkMV qops m [ex_meas (ex_pval h)]]
                     | _ => [] end) [3%Z; 4%Z; 5%Z].
Definition ex_xs : list (list qi) := [[ex_ts; ex_ti; ex_tx]].
Definition ex_dut : qi := mkqi 1 3 1 5.

Definition olist_is (o : option (list qi)) (l : list qi) : bool :=
  match o with Some x => qlist_eqb x l | None => false end.
Lemma olist_is_sound o l : olist_is o l = true -> o = Some l.
Proof. destruct o as [x|]; cbn; intros H; [rewrite (qlist_eqb_sound x l H); reflexivity | discriminate]. Qed.

Example c01_model_end_to_end_nonvacuous :
  In (T8, (1, 1)) apply_cases /\
  length ex_ms = 3 /\ length ex_xs = systems_of T8 1 /\
  (let xt := nth 0 ex_xs [] in let rows := q_assemble T8 1 1 ex_ms ex_pval 0 in
   length rows = 3 /\ length xt = unknowns T8 1 1 /\
   (forall r, In r rows -> rdot (unknowns T8 1 1) (fst r) xt = snd r) /\
   (unknowns T8 1 1 < length rows -> kernel_trivial (unknowns T8 1 1) rows)) /\
  q_error_terms T8 1 1 ex_ms ex_pval = Some (true_terms T8 1 1 ex_ms ex_xs) /\
  true_terms T8 1 1 ex_ms ex_xs = [ex_ts; ex_ti; ex_tx; qi1] /\
  doc_cell QIF T8 1 1 (true_terms T8 1 1 ex_ms ex_xs) [ex_meas ex_dut] [ex_dut] 0 0 = @c0 QIF /\
  exists a b, q_apply T8 1 1 (true_terms T8 1 1 ex_ms ex_xs) [ex_meas ex_dut] = AOk a b [ex_dut].
Proof.
  split; [vm_compute; tauto|].
  split; [vm_compute; reflexivity|]. split; [reflexivity|].
  split.
  { cbv zeta. split; [vm_compute; reflexivity|]. split; [vm_compute; reflexivity|]. split.
    - assert (H : forallb (fun r : list qi * qi => qi_eqb (rdot (unknowns T8 1 1) (fst r) (nth 0 ex_xs [])) (snd r))
                          (q_assemble T8 1 1 ex_ms ex_pval 0) = true) by (vm_compute; reflexivity).
      rewrite forallb_forall in H. intros r Hr. apply qi_eqb_eq. exact (H r Hr).
    - assert (E : length (q_assemble T8 1 1 ex_ms ex_pval 0) = 3) by (vm_compute; reflexivity).
      assert (U : unknowns T8 1 1 = 3) by (vm_compute; reflexivity).
      rewrite E, U. intros H. exfalso. exact (Nat.lt_irrefl 3 H). }
  split; [apply olist_is_sound; vm_compute; reflexivity|].
  split; [apply qlist_eqb_sound; vm_compute; reflexivity|].
  split; [apply qi_eqb_eq; vm_compute; reflexivity|].
  apply res_is_sound. vm_compute. reflexivity.
Qed.

(* the same calibration with a fourth standard (S = i/3): a tall (4 x 3) system; the trivial-kernel
   hypothesis holds (the first three rows already have non-zero LU pivots) and the least-squares model
   returns the true terms *)
Require Import LV.Lin.LuGenA LV.Lin.LuProofs.
Definition ex_pval4 (h : Z) : qi := if Z.eqb h 6 then mkqi 0 1 1 3 else ex_pval h.
Definition ex_ms4 : list (mvals qops) :=
  flat_map (fun h => match add_common (ex_args h) with
                     | Accepted m => [mkMV qops m [ex_meas (ex_pval4 h)]]
                     | _ => [] end) [3%Z; 4%Z; 5%Z; 6%Z].

Definition sysres_is (r : sys_res) (x : list qi) : bool :=
  match r with SysOk _ y => qlist_eqb y x | _ => false end.
Lemma sysres_is_sound r x : sysres_is r x = true -> exists rows, r = SysOk rows x.
Proof. destruct r as [rows y| |]; cbn; intros H; try discriminate. exists rows. rewrite (qlist_eqb_sound y x H). reflexivity. Qed.

Example solve_system_recovers_tall_nonvacuous :
  let rows := q_assemble T8 1 1 ex_ms4 ex_pval4 0 in
  length rows = 4 /\ unknowns T8 1 1 = 3 /\
  (forall r, In r rows -> rdot 3 (fst r) [ex_ts; ex_ti; ex_tx] = snd r) /\
  kernel_trivial 3 rows /\
  exists rows', q_solve_system T8 1 1 ex_ms4 ex_pval4 0 = SysOk rows' [ex_ts; ex_ti; ex_tx].
Proof.
  cbv zeta. split; [vm_compute; reflexivity|]. split; [vm_compute; reflexivity|]. split; [|split].
  - assert (H : forallb (fun r : list qi * qi => qi_eqb (rdot 3 (fst r) [ex_ts; ex_ti; ex_tx]) (snd r))
                        (q_assemble T8 1 1 ex_ms4 ex_pval4 0) = true) by (vm_compute; reflexivity).
    rewrite forallb_forall in H. intros r Hr. apply qi_eqb_eq. exact (H r Hr).
  - set (rows := q_assemble T8 1 1 ex_ms4 ex_pval4 0).
    set (A := map fst (firstn 3 rows) : mat QIF).
    assert (HwA : @wf QIF 3 3 A) by (split; [reflexivity | repeat constructor]).
    assert (Hp : pivots_nonzero QIF Qc qi_nrm Qcmult Qc_ltb 0%Qc row_scale_of_max A 3).
    { intros j Hj. apply qi_neqb. destruct j as [|[|[|j]]]; [vm_compute; reflexivity ..|lia]. }
    intros v Hv k Hk.
    apply (lu_kernel_trivial QIF Qc qi_nrm Qcmult Qc_ltb 0%Qc row_scale_of_max A 3 HwA Hp v); [|exact Hk].
    intros i Hi.
    assert (Hin : In (nth i rows ([], @c0 QIF)) rows) by (apply nth_In; change (length rows) with 4; lia).
    rewrite <- (Hv _ Hin). apply sumf_ext. intros t _. f_equal.
    destruct i as [|[|[|i]]]; [reflexivity ..|lia].
  - apply sysres_is_sound. vm_compute. reflexivity.
Qed.
