(* C01, the NON-leakage types T8, U8, T16, U16: the device half from the PHYSICAL hypothesis, and the composition
   calibrate-then-apply on the models as coded.

   Device half (every field K).  The vector the solve model saves for a network fe (EndToEndCore: unity terms
   inserted, no leakage terms, no conversion) is `core_dev_vector'; a device S measured by the same network gives
   m = Mc exactly (`core_dev_m'), Mc the response.  core_device_identity: the documented expression that
   ApplyIdentity.doc_cell reads out of the SAVED VECTOR through the layout, at the measured matrix, IS the
   documented expression of LeakPhysical (docT / docU, blocks with the `full' flag for T16 / U16) at the network's
   terms and Mc -- all values; bound in the statement: core_dev_cases = T8, U8, T16, U16 x square n = 1..5
   (unfolding at an abstract field + ring).  Hence (core_device_doc_vanishes_lemma) it vanishes when Mc satisfies
   the physical equation of the network, and (core_device_apply_recovers_lemma, Gaussian rationals) the apply
   model on that vector and M returns S when it does not report a zero determinant.

   Composition (c01_model_end_to_end_core_lemma, Gaussian rationals).  Bound in the statement: ty in core_types,
   SQUARE dimensions n = 1..3 (core_e2e_cases; the family AssembleList.zcfgs of standards stops at 3), standards of
   zcfgs (any number, order, mix).  If every standard is measured exactly by one network of the type (terms fe,
   unity term 1) and every assembled system has at least as many equations as unknowns and full column rank, then
     (a) the solve model (assembly as coded, LU / least squares) SUCCEEDS and returns exactly the network's vector;
     (b) for EVERY device S (n x n) measured by the same network, M = Mc with Mc the response to S, the apply model
         (fill_t8 / fill_u8 / fill_t16 / fill_u16 as coded, then the LU model of A \ B or B / A) on the returned
         vector and M, when it does not report a zero determinant, returns S. *)
Require Import List ZArith Bool Arith Lia QArith Qcanon.
Require Import LV.Base.CField LV.Base.QcI LV.Lin.MatL LV.Lin.LuGenA.
Require Import LV.Gen.LayoutGen LV.Cal.Sym LV.Cal.TermsModel LV.Cal.AddModel LV.Cal.ApplyModel LV.Cal.ApplyProofs
               LV.Cal.ApplyIdentity LV.Cal.AssembleIdentity LV.Cal.SolveSimple LV.Cal.CalQI LV.Cal.AssembleList
               LV.Cal.LeakPhysical LV.Cal.ApplyRecovers LV.Cal.SolveRecovers
               LV.Cal.EndToEndAll LV.Cal.EndToEndDevice LV.Cal.FillLoopsRecovers LV.Cal.EndToEndCore.
Import ListNotations.
Local Open Scope nat_scope.

Definition core_dev_cases : list (caltype * nat) :=
  flat_map (fun ty => map (fun n => (ty, n)) [1; 2; 3; 4; 5]) core_types.

Section K.
Variable K : CField.
Add Field Kf_cdev : (cth K).
Let O := ops_of K.

(* what the solve model saves for the network fe: no leakage terms, no conversion *)
Definition core_dev_vector (ty : caltype) (n : nat) (fe : nat -> K) : list K :=
  net_vector O ty n n (xs_of_K K ty n n fe) [].
(* the measured matrix of the device: the response, nothing added *)
Definition core_dev_m (n : nat) (Mc : nat -> nat -> K) : list K :=
  lst K (n * n) (fun cell => Mc (cell / n) (cell mod n)).

(* the documented expression at the network's terms *)
Definition core_dev_doc (ty : caltype) (n : nat) (fe : nat -> K) (Mc S : nat -> nat -> K) (i j : nat) : K :=
  if VNACAL_IS_T ty
  then docT K n S (core_Ts K ty n n fe) (core_Ti K ty n n fe) (core_Tx K ty n n fe) (core_Tm K ty n n fe) Mc i j
  else docU K n S (core_Um K ty n n fe) (core_Ui K ty n n fe) (core_Ux K ty n n fe) (core_Us K ty n n fe) Mc i j.

Definition core_device_identity (c : caltype * nat) : Prop :=
  let '(ty, n) := c in
  forall (fe : nat -> K) (Mc : nat -> nat -> K) (fs : nat -> K),
    conj_all (map (fun ij =>
        doc_cell K ty n n (core_dev_vector ty n fe) (core_dev_m n Mc) (lst K (n * n) fs) (fst ij) (snd ij)
        = core_dev_doc ty n fe Mc (fun a b => fs (a * n + b)) (fst ij) (snd ij)) (pairs n)).

Ltac cdev_id := intros fe Mc fs; cbv -[cadd cmul csub copp cdiv cinv c0 c1 F]; repeat split; ring.

Lemma core_device_identity_all : forall c, In c core_dev_cases -> core_device_identity c.
Proof.
  intros c H. vm_compute in H.
  repeat (destruct H as [<-|H]; [cdev_id|]). contradiction.
Qed.

(* the physical hypothesis on the device: its response Mc satisfies the determining equation of the network with
   the terms fe (read through the layout as EndToEndCore reads them) *)
Definition core_device_network (ty : caltype) (n : nat) (fe : nat -> K) (Mc S : nat -> nat -> K) : Prop :=
  match ty with
  | T8 | T16 => physT K n S (core_Ts K ty n n fe) (core_Ti K ty n n fe) (core_Tx K ty n n fe) (core_Tm K ty n n fe) n Mc
  | U8 | U16 => physU K n S (core_Um K ty n n fe) (core_Ui K ty n n fe) (core_Ux K ty n n fe) (core_Us K ty n n fe) n Mc
  | _ => False
  end.

Lemma core_dev_cases_inv ty n : In (ty, n) core_dev_cases -> In ty core_types /\ In n [1; 2; 3; 4; 5].
Proof.
  intros Hin. unfold core_dev_cases in Hin. apply in_flat_map in Hin. destruct Hin as (ty' & Ht & Hn).
  apply in_map_iff in Hn. destruct Hn as (n' & E & Hn). injection E as <- <-. split; assumption.
Qed.

Theorem core_device_doc_vanishes_lemma (ty : caltype) (n : nat) (fe : nat -> K) (Mc : nat -> nat -> K) (fs : nat -> K) :
  In (ty, n) core_dev_cases ->
  core_device_network ty n fe Mc (fun a b => fs (a * n + b)) ->
  forall i j, i < n -> j < n ->
    doc_cell K ty n n (core_dev_vector ty n fe) (core_dev_m n Mc) (lst K (n * n) fs) i j = @c0 K.
Proof.
  intros Hin Hnet i j Hi Hj.
  pose proof (core_device_identity_all _ Hin fe Mc fs) as H.
  pose proof (conj_all_in _ H _ (in_map _ _ _ (in_pairs n i j Hi Hj))) as E. cbv beta in E. cbn [fst snd] in E.
  rewrite E. unfold core_dev_doc.
  destruct (core_dev_cases_inv ty n Hin) as [Hty _].
  destruct Hty as [<-|[<-|[<-|[<-|[]]]]]; cbn [core_device_network] in Hnet.
  - exact (proj1 (physT_iff_doc K n _ _ _ _ _ n Mc) Hnet i j Hi Hj).
  - exact (proj1 (physU_iff_doc K n _ _ _ _ _ n Mc) Hnet i j Hi Hj).
  - exact (proj1 (physT_iff_doc K n _ _ _ _ _ n Mc) Hnet i j Hi Hj).
  - exact (proj1 (physU_iff_doc K n _ _ _ _ _ n Mc) Hnet i j Hi Hj).
Qed.
End K.

(* ================================================================ the apply model on the network's vector *)
Lemma core_stored ty : In ty core_types -> In ty stored_types.
Proof. intros [<-|[<-|[<-|[<-|[]]]]]; cbn; tauto. Qed.

Theorem core_device_apply_recovers_lemma (ty : caltype) (n : nat) :
  In (ty, n) core_dev_cases ->
  forall (fe : nat -> qi) (m s : list qi) (Mc : nat -> nat -> qi), length m = n * n -> length s = n * n ->
    core_device_network QIF ty n fe Mc (fun a b => nth (a * n + b) s (@c0 QIF)) ->
    (forall r c, r < n -> c < n -> nth (r * n + c) m (@c0 QIF) = Mc r c) ->
    forall a b x, q_apply ty n n (core_dev_vector QIF ty n fe) m = AOk a b x -> x = s.
Proof.
  intros Hin fe m s Mc Hm Hs Hnet Hmeas a b x Ha.
  destruct (core_dev_cases_inv ty n Hin) as [Hty Hn].
  assert (Hn1 : 1 <= n) by (destruct Hn as [<-|[<-|[<-|[<-|[<-|[]]]]]]; lia).
  refine (apply_model_recovers_S_every_n ty n (core_dev_vector QIF ty n fe) m s (core_stored ty Hty) Hn1 Hm Hs _ a b x Ha).
  intros i j Hi Hj.
  assert (Em : m = core_dev_m QIF n Mc).
  { rewrite (lst_of_list QIF (n * n) m Hm). unfold core_dev_m. unfold lst. apply map_ext_in. intros cell Hc.
    apply in_seq in Hc.
    assert (Hr : cell / n < n) by (apply Nat.div_lt_upper_bound; lia).
    assert (Hcc : cell mod n < n) by (apply Nat.mod_upper_bound; lia).
    rewrite <- (Hmeas (cell / n) (cell mod n) Hr Hcc). f_equal.
    rewrite (Nat.mul_comm (cell / n) n). apply Nat.div_mod. lia. }
  assert (Es : s = lst QIF (n * n) (fun k => nth k s (@c0 QIF))) by (exact (lst_of_list QIF (n * n) s Hs)).
  rewrite Em. rewrite Es at 1.
  exact (core_device_doc_vanishes_lemma QIF ty n fe Mc (fun k => nth k s (@c0 QIF)) Hin Hnet i j Hi Hj).
Qed.

(* ================================================================ the composition *)
Definition core_e2e_cases : list (caltype * nat) :=
  flat_map (fun ty => map (fun n => (ty, n)) [1; 2; 3]) core_types.

Lemma core_e2e_dev ty n : In (ty, n) core_e2e_cases -> In ty core_types /\ In (ty, n) core_dev_cases.
Proof.
  intros Hin. unfold core_e2e_cases in Hin. apply in_flat_map in Hin. destruct Hin as (ty' & Ht & Hn).
  apply in_map_iff in Hn. destruct Hn as (n' & E & Hn). injection E as <- <-. split; [exact Ht|].
  unfold core_dev_cases. apply in_flat_map. exists ty'. split; [exact Ht|].
  apply in_map. cbn in Hn |- *. tauto.
Qed.

Theorem c01_model_end_to_end_core_lemma (ty : caltype) (n : nat) :
  In (ty, n) core_e2e_cases ->
  forall (fe : nat -> qi) (pv : Z -> qi) (ms : list (mvals qops))
         (fxof : mvals qops -> nat -> qi) (core : mvals qops -> nat -> nat -> qi),
  (forall mv, In mv ms ->
     std_of QIF ty n n mv /\ core_network QIF ty n n fe pv fxof core mv /\ measured_exactly QIF n n core mv) ->
  (forall sys, sys < systems_of ty n ->
     let rows := q_assemble ty n n ms pv sys in
     unknowns ty n n <= length rows /\ kernel_trivial (unknowns ty n n) rows) ->
  let e_true := core_dev_vector QIF ty n fe in
  q_error_terms ty n n ms pv = Some e_true /\
  forall (m s : list qi) (Mc : nat -> nat -> qi), length m = n * n -> length s = n * n ->
    core_device_network QIF ty n fe Mc (fun a b => nth (a * n + b) s (@c0 QIF)) ->
    (forall r c, r < n -> c < n -> nth (r * n + c) m (@c0 QIF) = Mc r c) ->
    forall a b x, q_apply ty n n e_true m = AOk a b x -> x = s.
Proof.
  intros Hin fe pv ms fxof core Hstd Hrank e_true.
  destruct (core_e2e_dev ty n Hin) as [Hty Hdev].
  split.
  - exact (proj1 (core_solve_returns_true_terms_lemma ty n n fe pv ms fxof core Hty Hstd Hrank)).
  - intros m s Mc Hm Hs Hnet Hmeas a b x Ha.
    exact (core_device_apply_recovers_lemma ty n Hdev fe m s Mc Hm Hs Hnet Hmeas a b x Ha).
Qed.

(* ---------------------------------------------------------------- the hypotheses can be met *)
(* the hypotheses of the device half can be met: T8 2x2, the ideal network Ts = Tm = I, Ti = Tx = 0 (ApplyRecovers.ex_e),
   response Mc = S, the device ApplyRecovers.ex_s (not symmetric) *)
Definition cx_fe (k : nat) : qi := nth k ex_e (@c0 QIF).
Definition cx_S (a b : nat) : qi := nth (a * 2 + b) ex_s (@c0 QIF).

Example core_device_nonvacuous :
  In (T8, 2) core_dev_cases /\
  core_dev_vector QIF T8 2 cx_fe = ex_e /\
  core_device_network QIF T8 2 cx_fe cx_S cx_S /\
  (forall r c, r < 2 -> c < 2 -> nth (r * 2 + c) ex_s (@c0 QIF) = cx_S r c) /\
  exists a b, q_apply T8 2 2 (core_dev_vector QIF T8 2 cx_fe) ex_s = AOk a b ex_s.
Proof.
  split; [vm_compute; tauto|].
  split; [apply qlist_eqb_sound; vm_compute; reflexivity|].
  split.
  - cbn [core_device_network]. intros i j Hi Hj.
    destruct i as [|[|i]]; [| |lia]; (destruct j as [|[|j]]; [| |lia]); apply qi_eqb_eq; vm_compute; reflexivity.
  - split; [intros; reflexivity|]. apply res_is_sound. vm_compute. reflexivity.
Qed.
