(* C17 "E12 and UE14 calibrations of the same data correct identically", on the models.
   (1) e12_doc_identity: for EVERY field, the shapes vnacal_apply accepts with dimensions 1..4 (1x1 .. 4x4 and 2x1), and ALL
       UE14 term vectors e, matrices m handed to apply and candidate S matrices s: the documented E12 expression evaluated at
       the terms convert_ue14_to_e12 (as coded) produces from e is, cell by cell, the documented UE14 expression at e up to the
       non-zero factor of its column:   doc12(convert e)[i,j] * (us_c um_c,c - ui_c ux_c,c) = doc14(e)[i,j] * um_c,c
       (c = j; c = 0 for 2x1), provided the um terms and those determinants are non-zero (convert divides by them).
   (2) e12_ue14_same_solution: over the Gaussian rationals, with the apply model as coded (fill_ue14 / fill_e12, LU model):
       whenever vnacal_apply succeeds with the UE14 terms and with the converted E12 terms on the same matrix, both return
       the same S.
   (3) e12_ue14_same_systems: the solve model assembles and solves the same systems for UE14 and for E12 (E12_UE14 while
       solving): q_error_terms E12_UE14 = convert_ue14_to_e12 of q_error_terms UE14, for every list of standards.
   Proved by unfolding the models at an abstract field and `field' (1), by the uniqueness theorem of the LU model (2). *)
Require Import List ZArith Bool Arith Lia QArith Qcanon.
Require Import LV.Base.CField LV.Base.QcI LV.Lin.MatL LV.Lin.LuModel LV.Lin.LuQI LV.Lin.LuGenA LV.Lin.LuProofs LV.Lin.LuNonsing.
Require Import LV.Gen.LayoutGen LV.Cal.Sym LV.Cal.TermsModel LV.Cal.AddModel LV.Cal.ApplyModel LV.Cal.ApplyProofs
               LV.Cal.ApplyIdentity LV.Cal.SolveSimple LV.Cal.LinUnique LV.Cal.CalQI LV.Cal.ApplyRecovers LV.Cal.EndToEnd.
Import ListNotations.
Local Open Scope nat_scope.

Definition e12_shapes : list (nat * nat) := [(1, 1); (2, 2); (3, 3); (4, 4); (2, 1)].

Section K.
Variable K : CField.
Add Field Kf_e12u : (cth K).
Notation O := (ops_of K).
Local Open Scope cf_scope.

Definition um14 (mr mc : nat) (e : list K) (c r : nat) : K :=
  g O e (zn (VL_UM14_OFFSET (layout E12_UE14 (Z.of_nat mr) (Z.of_nat mc)) (Z.of_nat c)) + r).
(* us_c um_c,c - ui_c ux_c,c  (= n_c um_c,c with n_c the scalar convert_ue14_to_e12 divides by) *)
Definition det14 (mr mc : nat) (e : list K) (c : nat) : K :=
  let li := layout E12_UE14 (Z.of_nat mr) (Z.of_nat mc) in
  g O e (zn (VL_US14_OFFSET li (Z.of_nat c))) * um14 mr mc e c c -
  g O e (zn (VL_UI14_OFFSET li (Z.of_nat c))) * g O e (zn (VL_UX14_OFFSET li (Z.of_nat c)) + c).

Definition cells (n m : nat) : list (nat * nat) := flat_map (fun i => map (fun j => (i, j)) (seq 0 m)) (seq 0 n).

Lemma in_cells n m i j : (i < n)%nat -> (j < m)%nat -> In (i, j) (cells n m).
Proof.
  intros Hi Hj. unfold cells. apply in_flat_map. exists i. split; [apply in_seq; lia|].
  apply in_map. apply in_seq. lia.
Qed.

Lemma cells_in n m i j : In (i, j) (cells n m) -> (i < n)%nat /\ (j < m)%nat.
Proof.
  unfold cells. intros H. apply in_flat_map in H. destruct H as (i' & Hi' & H).
  apply in_map_iff in H. destruct H as (j' & E & Hj'). apply in_seq in Hi'. apply in_seq in Hj'.
  inversion E; subst. split; lia.
Qed.

Definition convertible (mr mc : nat) (e : list K) : Prop :=
  conj_all (map (fun cr => um14 mr mc e (fst cr) (snd cr) <> 0) (cells mc mr)) /\
  conj_all (map (fun c => det14 mr mc e c <> 0) (seq 0 mc)).

Definition col_of (mc j : nat) : nat := if Nat.eqb mc 1 then 0%nat else j.

Definition e12_identity (rc : nat * nat) : Prop :=
  let '(mr, mc) := rc in
  let p := Nat.max mr mc in
  forall fe fm fs : nat -> K,
    let e := lst K (nterms UE14 mr mc) fe in let m := lst K (p * p) fm in let s := lst K (p * p) fs in
    convertible mr mc e ->
    conj_all (map (fun ij =>
                doc_cell K E12 mr mc (convert_ue14_to_e12 O mr mc e) m s (fst ij) (snd ij) * det14 mr mc e (col_of mc (snd ij))
                = doc_cell K UE14 mr mc e m s (fst ij) (snd ij) * um14 mr mc e (col_of mc (snd ij)) (col_of mc (snd ij)))
              (pairs p)).

Ltac e12_id :=
  intros fe fm fs e m s [Hu Hd];
  cbv -[cadd cmul csub copp cdiv cinv c0 c1 F] in Hu, Hd |- *;
  repeat match goal with H : _ /\ _ |- _ => destruct H end;
  repeat split; field; repeat split; assumption.

Lemma e12_identity_all : forall rc, In rc e12_shapes -> e12_identity rc.
Proof.
  intros rc H. cbv [e12_shapes In] in H.
  repeat (destruct H as [<-|H]; [e12_id|]). contradiction.
Qed.

Lemma conj_all_map_in {A} (P : A -> Prop) (l : list A) : conj_all (map P l) -> forall x, In x l -> P x.
Proof. intros H x Hx. apply (conj_all_in _ H). apply in_map. exact Hx. Qed.

Lemma conj_all_of {A} (P : A -> Prop) (l : list A) : (forall x, In x l -> P x) -> conj_all (map P l).
Proof.
  induction l as [|a l IH]; intros H; cbn; [exact I|].
  split; [apply H; left; reflexivity | apply IH; intros x Hx; apply H; right; exact Hx].
Qed.

(* all e, m, s of the right lengths *)
Lemma e12_doc_identity_lemma (mr mc : nat) (e m s : list K) :
  In (mr, mc) e12_shapes ->
  let p := Nat.max mr mc in
  length e = nterms UE14 mr mc -> length m = (p * p)%nat -> length s = (p * p)%nat ->
  (forall c r, (c < mc)%nat -> (r < mr)%nat -> um14 mr mc e c r <> 0) ->
  (forall c, (c < mc)%nat -> det14 mr mc e c <> 0) ->
  forall i j, (i < p)%nat -> (j < p)%nat ->
    doc_cell K E12 mr mc (convert_ue14_to_e12 O mr mc e) m s i j * det14 mr mc e (col_of mc j)
    = doc_cell K UE14 mr mc e m s i j * um14 mr mc e (col_of mc j) (col_of mc j).
Proof.
  intros Hin p He Hm Hs Hu Hd i j Hi Hj.
  pose proof (e12_identity_all _ Hin) as H. unfold e12_identity in H. fold p in H.
  specialize (H (fun i => nth i e c0) (fun i => nth i m c0) (fun i => nth i s c0)). cbv zeta in H.
  rewrite <- (lst_of_list K _ e He), <- (lst_of_list K _ m Hm), <- (lst_of_list K _ s Hs) in H.
  assert (Hc : convertible mr mc e).
  { split.
    - apply conj_all_of. intros [c r] Hx. destruct (cells_in _ _ _ _ Hx) as [Hc' Hr']. cbn [fst snd]. apply Hu; assumption.
    - apply conj_all_of. intros c Hx. apply in_seq in Hx. apply Hd. lia. }
  exact (conj_all_map_in _ _ (H Hc) (i, j) (in_pairs p i j Hi Hj)).
Qed.

Lemma mul_nz_zero (x y : K) : x * y = 0 -> y <> 0 -> x = 0.
Proof. exact (mul_zero_r_nz K x y). Qed.
End K.

(* ---------------------------------------------------------------- the apply model at the Gaussian rationals *)
Section Q.
Add Field qif_e12u : (cth QIF).
Local Open Scope cf_scope.
Notation q0 := (@c0 QIF).

Lemma q_opp_zero (x y : QIF) : x - y = - q0 -> x = y.
Proof. intros H. transitivity ((x - y) + y); [ring | rewrite H; ring]. Qed.

(* what vnacal_apply returns satisfies the documented equation with the terms it was given (U-type layouts:
   S = B A^-1 with X A = B from the LU theorems) *)
Lemma apply_result_satisfies_doc_U (ty : caltype) (mr mc : nat) (e m : list qi) (a b s : list qi) :
  In (ty, (mr, mc)) apply_cases -> VNACAL_IS_T ty = false ->
  let p := Nat.max mr mc in
  length e = nterms ty mr mc -> length m = (p * p)%nat ->
  q_apply ty mr mc e m = AOk a b s ->
  length s = (p * p)%nat /\ forall i j, (i < p)%nat -> (j < p)%nat -> doc_cell QIF ty mr mc e m s i j = q0.
Proof.
  intros Hin HT p He Hm Hq.
  unfold q_apply in Hq. fold p in Hq. rewrite HT in Hq.
  destruct (apply_fill qops ty mr mc e m) as [m' a0 b0| |] eqn:Hf; try discriminate.
  destruct (q_mrdivide (munflat QIF p p b0) (munflat QIF p p a0) p p) as [X d] eqn:EX.
  destruct (qi_eqb d qi0) eqn:Ed; [discriminate|]. injection Hq as <- <- <-.
  set (A := munflat QIF p p a0) in *. set (B := munflat QIF p p b0) in *.
  assert (HwA : wf p p A) by apply wf_mbuild.
  assert (HwB : wf p p B) by apply wf_mbuild.
  assert (HwX : wf p p X).
  { pose proof (wf_mrdivide QIF Qc qi_nrm Qcmult Qc_ltb 0%Qc row_scale_of_max B A p p) as H.
    change (mrdivide QIF Qc qi_nrm Qcmult Qc_ltb 0%Qc row_scale_of_max) with q_mrdivide in H. rewrite EX in H. exact H. }
  assert (Hd : lu_d QIF Qc (q_lu A p) <> q0).
  { apply qi_neqb in Ed. intro Hz. apply Ed. change d with (snd (X, d)). rewrite <- EX. exact Hz. }
  assert (Hp : pivots_nonzero QIF Qc qi_nrm Qcmult Qc_ltb 0%Qc row_scale_of_max A p) by (apply det_nonzero_pivots; assumption).
  destruct (lu_solves QIF Qc qi_nrm Qcmult Qc_ltb 0%Qc row_scale_of_max p A HwA Hp) as (_ & H2 & _).
  assert (Ls : length (mflat QIF X) = (p * p)%nat) by (unfold mflat; apply (length_concat_wf QIF p p X HwX)).
  split; [exact Ls|]. intros i j Hi Hj.
  destruct (fill_solves_lemma QIF ty mr mc e m (mflat QIF X) Hin He Hm Ls) as (m2 & a2 & b2 & Hf2 & Hid).
  change (ops_of QIF) with qops in Hf2. rewrite Hf in Hf2. injection Hf2 as <- <- <-.
  fold p in Hid. specialize (Hid i j Hi Hj).
  assert (E : prod_cell QIF ty mr mc a0 (mflat QIF X) i j = g (ops_of QIF) b0 (i * p + j)).
  { unfold prod_cell. fold p. rewrite HT. rewrite sumk_sumf.
    pose proof (H2 p B HwB i j Hi Hj) as E2.
    change (mrdivide QIF Qc qi_nrm Qcmult Qc_ltb 0%Qc row_scale_of_max) with q_mrdivide in E2. rewrite EX in E2. cbn [fst] in E2.
    rewrite mget_mmul in E2 by assumption.
    unfold B in E2. rewrite (mget_munflat QIF p p b0 i j Hi Hj) in E2.
    etransitivity; [|exact E2]. apply sumf_ext. intros k Hk.
    unfold A. rewrite (mget_munflat QIF p p a0 k j Hk Hj).
    rewrite <- (nth_concat_wf QIF p p X HwX i k Hi Hk). reflexivity. }
  rewrite E in Hid.
  assert (Z : - doc_cell QIF ty mr mc e m (mflat QIF X) i j = q0).
  { rewrite <- Hid. unfold g. ring. }
  transitivity (- - doc_cell QIF ty mr mc e m (mflat QIF X) i j); [ring | rewrite Z; ring].
Qed.

Lemma convert_length (mr mc : nat) (e : list qi) : In (mr, mc) e12_shapes ->
  length (convert_ue14_to_e12 qops mr mc e) = nterms E12 mr mc.
Proof.
  intros H. cbv [e12_shapes In] in H.
  repeat (destruct H as [E|H]; [injection E as <- <-; reflexivity|]). contradiction.
Qed.

Lemma col_of_lt (mr mc j : nat) : In (mr, mc) e12_shapes -> (j < Nat.max mr mc)%nat -> (col_of mc j < mc)%nat.
Proof.
  intros H Hj. cbv [e12_shapes In] in H. unfold col_of.
  repeat (destruct H as [E|H]; [injection E as <- <-; cbn in *; lia|]). contradiction.
Qed.

Lemma shape_cases (mr mc : nat) : In (mr, mc) e12_shapes -> In (UE14, (mr, mc)) apply_cases /\ In (E12, (mr, mc)) apply_cases.
Proof.
  intros H. cbv [e12_shapes In] in H.
  repeat (destruct H as [E|H]; [injection E as <- <-; split; vm_compute; tauto|]). contradiction.
Qed.

(* (2) the same data corrected with the UE14 terms and with the E12 terms converted from them: the same S *)
Theorem e12_ue14_same_solution (mr mc : nat) (e m : list qi) :
  In (mr, mc) e12_shapes ->
  let p := Nat.max mr mc in
  length e = nterms UE14 mr mc -> length m = (p * p)%nat ->
  (forall c r, (c < mc)%nat -> (r < mr)%nat -> um14 QIF mr mc e c r <> q0) ->
  (forall c, (c < mc)%nat -> det14 QIF mr mc e c <> q0) ->
  forall a b s, q_apply UE14 mr mc e m = AOk a b s ->
  forall a' b' s', q_apply E12 mr mc (convert_ue14_to_e12 qops mr mc e) m = AOk a' b' s' -> s' = s.
Proof.
  intros Hin p He Hm Hu Hd a b s Hq a' b' s' Hq'.
  destruct (shape_cases mr mc Hin) as [H14 H12].
  destruct (apply_result_satisfies_doc_U UE14 mr mc e m a b s H14 eq_refl He Hm Hq) as [Ls Hdoc]. fold p in Ls, Hdoc.
  apply (apply_model_recovers_S_lemma E12 mr mc (convert_ue14_to_e12 qops mr mc e) m s H12
           (convert_length mr mc e Hin) Hm Ls) with (a := a') (b := b'); [|exact Hq'].
  fold p. intros i j Hi Hj.
  pose proof (e12_doc_identity_lemma QIF mr mc e m s Hin He Hm Ls Hu Hd i j Hi Hj) as E.
  change (ops_of QIF) with qops in E.
  rewrite (Hdoc i j Hi Hj) in E.
  apply (mul_nz_zero QIF _ (det14 QIF mr mc e (col_of mc j))).
  - rewrite E. ring.
  - apply Hd. exact (col_of_lt mr mc j Hin Hj).
Qed.
End Q.

(* (3) the solve model treats UE14 and E12 (E12_UE14 while solving) alike up to the final conversion: same assembled
   systems, same verdicts, same solutions; every shape, every list of standards *)
Lemma e12_assemble_same (mr mc : nat) (ms : list (mvals qops)) (pval : Z -> qi) sys :
  assemble qops E12_UE14 mr mc pval ms sys = assemble qops UE14 mr mc pval ms sys.
Proof. reflexivity. Qed.

Lemma e12_solve_system_same (mr mc : nat) (ms : list (mvals qops)) (pval : Z -> qi) sys :
  q_solve_system E12_UE14 mr mc ms pval sys = q_solve_system UE14 mr mc ms pval sys.
Proof.
  unfold q_solve_system. rewrite e12_assemble_same.
  change (unknowns E12_UE14 mr mc) with (unknowns UE14 mr mc). reflexivity.
Qed.

Theorem e12_ue14_same_systems (mr mc : nat) (ms : list (mvals qops)) (pval : Z -> qi) :
  q_error_terms E12_UE14 mr mc ms pval =
  match q_error_terms UE14 mr mc ms pval with Some e => Some (convert_ue14_to_e12 qops mr mc e) | None => None end.
Proof.
  unfold q_error_terms. change (systems_of E12_UE14 mc) with (systems_of UE14 mc).
  rewrite (map_ext _ _ (e12_solve_system_same mr mc ms pval)).
  destruct (forallb _ _); [|reflexivity].
  change (caltype_eqb E12_UE14 E12_UE14) with true. change (caltype_eqb UE14 E12_UE14) with false. cbv iota.
  f_equal.
Qed.

(* E12 and UE14 calibrations of the same data correct identically *)
Theorem e12_ue14_correct_identically_lemma (mr mc : nat) (ms : list (mvals qops)) (pval : Z -> qi) (e14 m : list qi) :
  In (mr, mc) e12_shapes ->
  let p := Nat.max mr mc in
  q_error_terms UE14 mr mc ms pval = Some e14 ->
  length e14 = nterms UE14 mr mc -> length m = p * p ->
  (forall c r, c < mc -> r < mr -> um14 QIF mr mc e14 c r <> @c0 QIF) ->
  (forall c, c < mc -> det14 QIF mr mc e14 c <> @c0 QIF) ->
  q_error_terms E12_UE14 mr mc ms pval = Some (convert_ue14_to_e12 qops mr mc e14) /\
  forall a b s, q_apply UE14 mr mc e14 m = AOk a b s ->
  forall a' b' s', q_apply E12 mr mc (convert_ue14_to_e12 qops mr mc e14) m = AOk a' b' s' -> s' = s.
Proof.
  intros Hin p Hq He Hm Hu Hd. split.
  - rewrite e12_ue14_same_systems, Hq. reflexivity.
  - exact (e12_ue14_same_solution mr mc e14 m Hin He Hm Hu Hd).
Qed.

(* ---------------------------------------------------------------- the hypotheses can be met *)
(* one-port UE14: um = 2, ui = 1/2, ux = 1/3, us = 1; reflects -1, 1, 1/2 measured through that network
   ( m = (s us - ui) / (um - s ux) ), device s = 1/3 + i/5 *)
Definition x_um : qi := mkqi 2 1 0 1.
Definition x_ui : qi := mkqi 1 2 0 1.
Definition x_ux : qi := mkqi 1 3 0 1.
Definition x_meas (s : qi) : qi := qi_div (qi_sub s x_ui) (qi_sub x_um (qi_mul s x_ux)).
Definition x_pval (h : Z) : qi :=
  if Z.eqb h 3 then mkqi (-1) 1 0 1 else if Z.eqb h 4 then mkqi 1 1 0 1 else mkqi 1 2 0 1.
Definition x_args (h : Z) : add_args :=
  mkArgs UE14 1 1 false (fun _ => true) false 0 0 1 1 [h] 1 1 false (Some [1%Z]).
Definition x_ms : list (mvals qops) :=
  flat_map (fun h => match add_common (x_args h) with
                     | Accepted m => [mkMV qops m [x_meas (x_pval h)]]
                     | _ => [] end) [3%Z; 4%Z; 5%Z].
Definition x_dut : qi := mkqi 1 3 1 5.
Definition x_e14 : list qi := [qi1; qi_div x_ui x_um; qi_div x_ux x_um; qi_div qi1 x_um].

Example e12_ue14_correct_identically_example :
  In (1, 1) e12_shapes /\ q_error_terms UE14 1 1 x_ms x_pval = Some x_e14 /\
  length x_e14 = nterms UE14 1 1 /\
  (forall c r, c < 1 -> r < 1 -> um14 QIF 1 1 x_e14 c r <> @c0 QIF) /\
  (forall c, c < 1 -> det14 QIF 1 1 x_e14 c <> @c0 QIF) /\
  (exists a b, q_apply UE14 1 1 x_e14 [x_meas x_dut] = AOk a b [x_dut]) /\
  (exists a b, q_apply E12 1 1 (convert_ue14_to_e12 qops 1 1 x_e14) [x_meas x_dut] = AOk a b [x_dut]).
Proof.
  split; [left; reflexivity|].
  split; [apply EndToEnd.olist_is_sound; vm_compute; reflexivity|].
  split; [reflexivity|].
  split; [intros c r Hc Hr; assert (c = 0) by lia; assert (r = 0) by lia; subst; apply qi_neqb; vm_compute; reflexivity|].
  split; [intros c Hc; assert (c = 0) by lia; subst; apply qi_neqb; vm_compute; reflexivity|].
  split; apply res_is_sound; vm_compute; reflexivity.
Qed.
