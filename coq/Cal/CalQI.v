(* The numeric calibration models instantiated at the Gaussian rationals (for the exact ties). *)
Require Import List ZArith Bool Arith QArith Qcanon.
Require Import LV.Base.CField LV.Base.QcI LV.Lin.MatL LV.Lin.LuModel LV.Lin.LuQI.
Require Import LV.Gen.LayoutGen LV.Cal.Sym LV.Cal.ApplyModel.
Import ListNotations.
Local Open Scope nat_scope.

Definition qops : Ops := ops_of QIF.

Inductive apply_res := AOk (a b s : list qi) | ASingular (a b : list qi) | ARefused | AAssert.

(* _vnacal_apply_common at one frequency, m form: fill, then S = A^-1 B (T) or B A^-1 (U, E) *)
Definition q_apply (ty : caltype) (mr mc : nat) (e m : list qi) : apply_res :=
  let p := Nat.max mr mc in
  match apply_fill qops ty mr mc e m with
  | Refused => ARefused
  | FAssert => AAssert
  | Filled _ a b =>
      let am := munflat QIF p p a in let bm := munflat QIF p p b in
      let '(s, d) := if VNACAL_IS_T ty then q_mldivide am bm p p else q_mrdivide bm am p p in
      if qi_eqb d qi0 then ASingular a b else AOk a b (mflat QIF s)
  end.

(* ---------------------------------------------------------------- vnacal_new_solve, one frequency *)
Require Import LV.Lin.LsSpec LV.Lin.LuQI2 LV.Cal.TermsModel LV.Cal.AddModel LV.Cal.SolveSimple.

Inductive sys_res :=
| SysOk (rows : list (list qi * qi)) (x : list qi)
| SysInsufficient (rows : list (list qi * qi))
| SysSingular (rows : list (list qi * qi)).

Definition q_solve_system (ty : caltype) (mr mc : nat) (ms : list (mvals qops)) (pval : Z -> qi) (sys : nat) : sys_res :=
  let rows := assemble qops ty mr mc pval ms sys in
  let n := unknowns ty mr mc in
  let m := length rows in
  if Nat.ltb m n then SysInsufficient rows else
  let a := map fst rows in
  let b := map (fun r => [snd r]) rows in
  if Nat.eqb m n then
    let '(x, d) := q_mldivide a b n 1 in
    if qi_eqb d qi0 then SysSingular rows else SysOk rows (map (fun r => nth 0 r qi0) x)
  else
    match q2_ls_solve m n 1 a b with
    | Some x => SysOk rows (map (fun r => nth 0 r qi0) x)
    | None => SysSingular rows
    end.

Definition q_assemble (ty : caltype) (mr mc : nat) (ms : list (mvals qops)) (pval : Z -> qi) (sys : nat) :=
  assemble qops ty mr mc pval ms sys.
Definition q_unknowns (ty : caltype) (mr mc : nat) : nat := unknowns ty mr mc.

(* the saved error terms (after convert_ue14_to_e12 for E12), None when some system does not solve *)
Definition q_error_terms (ty : caltype) (mr mc : nat) (ms : list (mvals qops)) (pval : Z -> qi) : option (list qi) :=
  let rs := map (q_solve_system ty mr mc ms pval) (seq 0 (systems_of ty mc)) in
  if forallb (fun r => match r with SysOk _ _ => true | _ => false end) rs then
    let xs := map (fun r => match r with SysOk _ x => x | _ => [] end) rs in
    let e := e_vector qops ty mr mc ms xs in
    Some (if caltype_eqb ty E12_UE14 then convert_ue14_to_e12 qops mr mc e else e)
  else None.
