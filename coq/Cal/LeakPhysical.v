(* C01, the leakage types (TE10, UE10, UE14, E12 measured as E12_UE14): physical model of the additive leakage
   and the block-diagonal argument of vnacal_layout.h, for EVERY number of ports, every field.

   Measurements:  M = Mc + El off the diagonal, Mc the response of the core error network (T8, U8 or the
   per-column U7 systems of UE14) to the standard S, given in the form that determines it,
        T:     Mc (Tx S + Tm) = Ts S + Ti          (Ts, Ti, Tx, Tm diagonal)
        U:     (Um - S Ux) Mc = S Us - Ui          (Um, Ui, Ux, Us diagonal)
        UE14:  (Um_c - S Ux_c) Mc(:,c) = (S us_c - ui_c) e_c        for every driven column c,
   the network being well posed: the matrix that multiplies Mc has the trivial kernel.

   1. (block-diagonal argument)  if S has no entry between different classes of an equivalence `same' on the
      ports, then neither has Mc: Mc[i,j] = 0 whenever i and j are in different classes.  No inverse is
      formed: the restriction of Mc to the blocks satisfies the same equation, and the equation has one solution.
   2. (the code)  with `same' = the connectivity matrix the model of build_connectivity_matrix computes
      (ConnProofs.connectivity_closed_every_n: it IS the reflexive-symmetric-transitive closure of the cells not
      known to be zero), every cell the solver samples (SolveSimple.leak_acc: cell given, no path) measures
      El exactly; hence the mean is El for every number of samples >= 1 (LeakProofs.leak_mean_exact without its
      assumption), the saved leakage terms are El, and the corrected values m_adjusted are Mc, which
      satisfies the documented equation of the core type (AssembleIdentity.std_cell = 0) in EVERY cell. *)
Require Import List ZArith Bool Arith Lia Relations.
Require Import LV.Base.CField LV.Lin.MatL LV.Lin.LuGenA.
Require Import LV.Gen.LayoutGen LV.Cal.Sym LV.Cal.TermsModel LV.Cal.AddModel LV.Cal.ApplyModel LV.Cal.SolveSimple
               LV.Cal.ConnProofs LV.Cal.LeakProofs LV.Cal.ApplyIdentity LV.Cal.AssembleIdentity.
Import ListNotations.
Local Open Scope nat_scope.

(* ================================================================ 1. block-diagonal argument *)
Section BlockDiag.
Variable K : CField.
Add Field Kf_lp : (cth K).
Variable n : nat.
Variable same : nat -> nat -> bool.
Hypothesis same_refl : forall i, i < n -> same i i = true.
Hypothesis same_sym : forall i j, i < n -> j < n -> same i j = true -> same j i = true.
Hypothesis same_trans : forall i j k, i < n -> j < n -> k < n -> same i j = true -> same j k = true -> same i k = true.
Local Open Scope cf_scope.

Definition bd (X : nat -> nat -> K) : Prop :=
  forall i j, (i < n)%nat -> (j < n)%nat -> same i j = false -> X i j = 0.

Definition left_kernel_trivial (N : nat -> nat -> K) : Prop :=
  forall x : nat -> K, (forall j, (j < n)%nat -> @sumf K n (fun k => x k * N k j) = 0) -> forall k, (k < n)%nat -> x k = 0.
Definition right_kernel_trivial (N : nat -> nat -> K) : Prop :=
  forall x : nat -> K, (forall i, (i < n)%nat -> @sumf K n (fun k => N i k * x k) = 0) -> forall k, (k < n)%nat -> x k = 0.

Lemma sumf_sub_k m (f h : nat -> K) : @sumf K m (fun k => f k - h k) = @sumf K m f - @sumf K m h.
Proof. induction m; simpl; [ring|]. rewrite IHm. ring. Qed.

Lemma same_false_l i j k : (i < n)%nat -> (j < n)%nat -> (k < n)%nat ->
  same i j = true -> same i k = false -> same k j = false.
Proof.
  intros Hi Hj Hk H1 H2. destruct (same k j) eqn:E; [|reflexivity].
  rewrite (same_trans i j k Hi Hj Hk H1 (same_sym k j Hk Hj E)) in H2. discriminate.
Qed.

Lemma bd_diag (d : nat -> K) : bd (fun i j => if Nat.eqb i j then d i else 0).
Proof.
  intros i j Hi Hj H. destruct (Nat.eqb_spec i j) as [->|]; [|reflexivity].
  rewrite (same_refl j Hj) in H. discriminate.
Qed.

Lemma bd_add (X Y : nat -> nat -> K) : bd X -> bd Y -> bd (fun i j => X i j + Y i j).
Proof. intros HX HY i j Hi Hj H. rewrite (HX i j Hi Hj H), (HY i j Hi Hj H). ring. Qed.

Lemma bd_sub (X Y : nat -> nat -> K) : bd X -> bd Y -> bd (fun i j => X i j - Y i j).
Proof. intros HX HY i j Hi Hj H. rewrite (HX i j Hi Hj H), (HY i j Hi Hj H). ring. Qed.

Lemma bd_mul (X Y : nat -> nat -> K) : bd X -> bd Y -> bd (fun i j => @sumf K n (fun k => X i k * Y k j)).
Proof.
  intros HX HY i j Hi Hj H. apply sumf_zero. intros k Hk.
  destruct (same i k) eqn:E.
  - rewrite (HY k j Hk Hj); [ring|].
    destruct (same k j) eqn:E2; [|reflexivity].
    rewrite (same_trans i k j Hi Hk Hj E E2) in H. discriminate.
  - rewrite (HX i k Hi Hk E). ring.
Qed.

(* a row x with x N = r, r supported on the class of i, N block diagonal, one solution: x is supported on the class of i *)
Lemma bd_left_row (N : nat -> nat -> K) (x r : nat -> K) (i : nat) :
  (i < n)%nat -> bd N -> left_kernel_trivial N ->
  (forall j, (j < n)%nat -> same i j = false -> r j = 0) ->
  (forall j, (j < n)%nat -> @sumf K n (fun k => x k * N k j) = r j) ->
  forall k, (k < n)%nat -> same i k = false -> x k = 0.
Proof.
  intros Hi HN Hker Hr Hx k Hk Hik.
  set (x' := fun k => if same i k then x k else 0).
  assert (Hx' : forall j, (j < n)%nat -> @sumf K n (fun k => x' k * N k j) = r j).
  { intros j Hj. destruct (same i j) eqn:Eij.
    - rewrite <- (Hx j Hj). apply sumf_ext. intros t Ht. unfold x'.
      destruct (same i t) eqn:Eit; [reflexivity|].
      rewrite (HN t j Ht Hj (same_false_l i j t Hi Hj Ht Eij Eit)). ring.
    - rewrite (Hr j Hj Eij). apply sumf_zero. intros t Ht. unfold x'.
      destruct (same i t) eqn:Eit; [|ring].
      rewrite (HN t j Ht Hj); [ring|].
      destruct (same t j) eqn:E2; [|reflexivity].
      rewrite (same_trans i t j Hi Ht Hj Eit E2) in Eij. discriminate. }
  assert (E : x k - x' k = 0).
  { apply (Hker (fun t => x t - x' t)); [|exact Hk].
    intros j Hj.
    rewrite (sumf_ext K n _ (fun t => x t * N t j - x' t * N t j)) by (intros; ring).
    rewrite sumf_sub_k, (Hx j Hj), (Hx' j Hj). ring. }
  unfold x' in E. rewrite Hik in E. rewrite <- E. ring.
Qed.

(* a column x with N x = r *)
Lemma bd_right_col (N : nat -> nat -> K) (x r : nat -> K) (j : nat) :
  (j < n)%nat -> bd N -> right_kernel_trivial N ->
  (forall i, (i < n)%nat -> same i j = false -> r i = 0) ->
  (forall i, (i < n)%nat -> @sumf K n (fun k => N i k * x k) = r i) ->
  forall k, (k < n)%nat -> same k j = false -> x k = 0.
Proof.
  intros Hj HN Hker Hr Hx k Hk Hkj.
  set (x' := fun k => if same k j then x k else 0).
  assert (Hx' : forall i, (i < n)%nat -> @sumf K n (fun k => N i k * x' k) = r i).
  { intros i Hi. destruct (same i j) eqn:Eij.
    - rewrite <- (Hx i Hi). apply sumf_ext. intros t Ht. unfold x'.
      destruct (same t j) eqn:Etj; [reflexivity|].
      rewrite (HN i t Hi Ht); [ring|].
      destruct (same i t) eqn:E2; [|reflexivity].
      rewrite (same_trans t i j Ht Hi Hj (same_sym i t Hi Ht E2) Eij) in Etj. discriminate.
    - rewrite (Hr i Hi Eij). apply sumf_zero. intros t Ht. unfold x'.
      destruct (same t j) eqn:Etj; [|ring].
      rewrite (HN i t Hi Ht); [ring|].
      destruct (same i t) eqn:E2; [|reflexivity].
      rewrite (same_trans i t j Hi Ht Hj E2 Etj) in Eij. discriminate. }
  assert (E : x k - x' k = 0).
  { apply (Hker (fun t => x t - x' t)); [|exact Hk].
    intros i Hi.
    rewrite (sumf_ext K n _ (fun t => N i t * x t - N i t * x' t)) by (intros; ring).
    rewrite sumf_sub_k, (Hx i Hi), (Hx' i Hi). ring. }
  unfold x' in E. rewrite Hkj in E. rewrite <- E. ring.
Qed.
End BlockDiag.

(* ================================================================ 2. the three core networks *)
Section Physical.
Variable K : CField.
Add Field Kf_lp2 : (cth K).
Variable n : nat.                       (* number of VNA ports = max rows columns *)
Variable same : nat -> nat -> bool.
Hypothesis same_refl : forall i, i < n -> same i i = true.
Hypothesis same_sym : forall i j, i < n -> j < n -> same i j = true -> same j i = true.
Hypothesis same_trans : forall i j k, i < n -> j < n -> k < n -> same i j = true -> same j k = true -> same i k = true.
Variable S : nat -> nat -> K.           (* the standard on the n ports *)
Hypothesis S_bd : bd K n same S.
Local Open Scope cf_scope.
Notation sm := (@sumf K n).
Notation BD := (bd K n same).

(* ---------------------------------------------------------------- T:  Mc (Tx S + Tm) = Ts S + Ti *)
Section T.
Variables (Ts Ti Tx Tm : nat -> nat -> K) (mr : nat) (Mc : nat -> nat -> K).
Hypotheses (Ts_bd : BD Ts) (Ti_bd : BD Ti) (Tx_bd : BD Tx) (Tm_bd : BD Tm).
Hypothesis mr_le : (mr <= n)%nat.

Definition NT (a j : nat) : K := sm (fun k => Tx a k * S k j) + Tm a j.
Definition RT (i j : nat) : K := sm (fun k => Ts i k * S k j) + Ti i j.
Definition physT : Prop := forall i j, (i < mr)%nat -> (j < n)%nat -> sm (fun a => Mc i a * NT a j) = RT i j.
(* the documented expression  - Ts S - Ti + M Tx S + M Tm  in cell (i, j) *)
Definition docT (i j : nat) : K :=
  (- sm (fun k => Ts i k * S k j) - Ti i j) + sm (fun a => Mc i a * sm (fun k => Tx a k * S k j)) + sm (fun a => Mc i a * Tm a j).

Lemma docT_phys i j : docT i j = sm (fun a => Mc i a * NT a j) - RT i j.
Proof.
  unfold docT, NT, RT.
  rewrite (sumf_ext K n (fun a => Mc i a * (sm (fun k => Tx a k * S k j) + Tm a j))
                        (fun a => Mc i a * sm (fun k => Tx a k * S k j) + Mc i a * Tm a j)) by (intros; ring).
  rewrite sumf_add. ring.
Qed.

Lemma physT_iff_doc : physT <-> forall i j, (i < mr)%nat -> (j < n)%nat -> docT i j = 0.
Proof.
  split; intros H i j Hi Hj.
  - rewrite docT_phys, (H i j Hi Hj). ring.
  - pose proof (H i j Hi Hj) as E. rewrite docT_phys in E.
    transitivity ((sm (fun a => Mc i a * NT a j) - RT i j) + RT i j); [ring | rewrite E; ring].
Qed.

Theorem physT_offblock :
  left_kernel_trivial K n NT -> physT ->
  forall i k, (i < mr)%nat -> (k < n)%nat -> same i k = false -> Mc i k = 0.
Proof.
  intros Hker Hp i k Hi Hk Hik.
  assert (Hi' : (i < n)%nat) by lia.
  apply (bd_left_row K n same same_sym same_trans NT (Mc i) (RT i) i Hi'); try assumption.
  - unfold NT. apply (bd_add K n same (fun a j => sm (fun k => Tx a k * S k j)) Tm); [|exact Tm_bd].
    apply (bd_mul K n same same_trans); assumption.
  - intros j Hj Hij. unfold RT.
    exact (bd_add K n same (fun a j => sm (fun k => Ts a k * S k j)) Ti
             (bd_mul K n same same_trans Ts S Ts_bd S_bd) Ti_bd i j Hi' Hj Hij).
  - intros j Hj. exact (Hp i j Hi Hj).
Qed.
End T.

(* ---------------------------------------------------------------- U:  (Um - S Ux) Mc = S Us - Ui *)
Section U.
Variables (Um Ui Ux Us : nat -> nat -> K) (mc : nat) (Mc : nat -> nat -> K).
Hypotheses (Um_bd : BD Um) (Ui_bd : BD Ui) (Ux_bd : BD Ux) (Us_bd : BD Us).
Hypothesis mc_le : (mc <= n)%nat.

Definition NU (i k : nat) : K := Um i k - sm (fun a => S i a * Ux a k).
Definition RU (i j : nat) : K := sm (fun k => S i k * Us k j) - Ui i j.
Definition physU : Prop := forall i j, (i < n)%nat -> (j < mc)%nat -> sm (fun k => NU i k * Mc k j) = RU i j.
(* Um M + Ui - S Ux M - S Us in cell (i, j) *)
Definition docU (i j : nat) : K :=
  (sm (fun a => Um i a * Mc a j) + Ui i j) - sm (fun k => S i k * sm (fun a => Ux k a * Mc a j)) - sm (fun k => S i k * Us k j).

Lemma docU_phys i j : docU i j = sm (fun k => NU i k * Mc k j) - RU i j.
Proof.
  unfold docU, NU, RU.
  rewrite (sumf_ext K n (fun k => (Um i k - sm (fun a => S i a * Ux a k)) * Mc k j)
                        (fun k => Um i k * Mc k j - sm (fun a => S i a * Ux a k * Mc k j))).
  2:{ intros k _. rewrite <- sumf_scale_r. ring. }
  rewrite sumf_sub_k.
  rewrite (sumf_exchange K n n (fun k a => S i a * Ux a k * Mc k j)).
  rewrite (sumf_ext K n (fun k => S i k * sm (fun a => Ux k a * Mc a j)) (fun k => sm (fun a => S i k * Ux k a * Mc a j))).
  2:{ intros k _. rewrite sumf_scale_l. apply sumf_ext. intros; ring. }
  ring.
Qed.

Lemma physU_iff_doc : physU <-> forall i j, (i < n)%nat -> (j < mc)%nat -> docU i j = 0.
Proof.
  split; intros H i j Hi Hj.
  - rewrite docU_phys, (H i j Hi Hj). ring.
  - pose proof (H i j Hi Hj) as E. rewrite docU_phys in E.
    transitivity ((sm (fun k => NU i k * Mc k j) - RU i j) + RU i j); [ring | rewrite E; ring].
Qed.

Theorem physU_offblock :
  right_kernel_trivial K n NU -> physU ->
  forall k j, (k < n)%nat -> (j < mc)%nat -> same k j = false -> Mc k j = 0.
Proof.
  intros Hker Hp k j Hk Hj Hkj.
  assert (Hj' : (j < n)%nat) by lia.
  apply (bd_right_col K n same same_sym same_trans NU (fun k => Mc k j) (fun i => RU i j) j Hj'); try assumption.
  - unfold NU. apply (bd_sub K n same Um (fun i k => sm (fun a => S i a * Ux a k))); [exact Um_bd|].
    apply (bd_mul K n same same_trans); assumption.
  - intros i Hi Hij. unfold RU.
    exact (bd_sub K n same (fun i j => sm (fun k => S i k * Us k j)) Ui
             (bd_mul K n same same_trans S Us S_bd Us_bd) Ui_bd i j Hi Hj' Hij).
  - intros i Hi. exact (Hp i j Hi Hj).
Qed.
End U.

(* ---------------------------------------------------------------- UE14: one U7 system per driven column *)
Section C14.
Variables (um ux : nat -> nat -> K) (ui us : nat -> K).     (* um c i, ux c i: the diagonals of column c *)
Variables (mc : nat) (Mc : nat -> nat -> K).
Hypothesis mc_le : (mc <= n)%nat.

Definition N14 (c i k : nat) : K := (if Nat.eqb i k then um c i else 0) - S i k * ux c k.
Definition R14 (c i : nat) : K := S i c * us c - (if Nat.eqb i c then ui c else 0).
Definition phys14 : Prop := forall i c, (i < n)%nat -> (c < mc)%nat -> sm (fun k => N14 c i k * Mc k c) = R14 c i.
Definition doc14 (i c : nat) : K :=
  (um c i * Mc i c + (if Nat.eqb i c then ui c else 0)) - sm (fun k => S i k * (ux c k * Mc k c)) - S i c * us c.

Lemma doc14_phys i c : (i < n)%nat -> doc14 i c = sm (fun k => N14 c i k * Mc k c) - R14 c i.
Proof.
  intros Hi. unfold doc14, N14, R14.
  rewrite (sumf_ext K n (fun k => ((if Nat.eqb i k then um c i else 0) - S i k * ux c k) * Mc k c)
                        (fun k => (if Nat.eqb k i then um c i * Mc k c else 0) - S i k * (ux c k * Mc k c))).
  2:{ intros k _. rewrite (Nat.eqb_sym i k). destruct (Nat.eqb k i); ring. }
  rewrite sumf_sub_k, (sumf_single K n i (fun k => um c i * Mc k c) Hi). ring.
Qed.

Lemma phys14_iff_doc : phys14 <-> forall i c, (i < n)%nat -> (c < mc)%nat -> doc14 i c = 0.
Proof.
  split; intros H i c Hi Hc.
  - rewrite (doc14_phys i c Hi), (H i c Hi Hc). ring.
  - pose proof (H i c Hi Hc) as E. rewrite (doc14_phys i c Hi) in E.
    transitivity ((sm (fun k => N14 c i k * Mc k c) - R14 c i) + R14 c i); [ring | rewrite E; ring].
Qed.

Theorem phys14_offblock :
  (forall c, (c < mc)%nat -> right_kernel_trivial K n (N14 c)) -> phys14 ->
  forall k c, (k < n)%nat -> (c < mc)%nat -> same k c = false -> Mc k c = 0.
Proof.
  intros Hker Hp k c Hk Hc Hkc.
  assert (Hc' : (c < n)%nat) by lia.
  apply (bd_right_col K n same same_sym same_trans (N14 c) (fun k => Mc k c) (R14 c) c Hc'); try assumption.
  - unfold N14. apply (bd_sub K n same (fun i k => if Nat.eqb i k then um c i else 0) (fun i k => S i k * ux c k)).
    + apply (bd_diag K n same same_refl).
    + intros i j Hi Hj H. rewrite (S_bd i j Hi Hj H). ring.
  - exact (Hker c Hc).
  - intros i Hi Hic. unfold R14. rewrite (S_bd i c Hi Hc' Hic).
    destruct (Nat.eqb_spec i c) as [->|]; [rewrite (same_refl c Hc') in Hic; discriminate | ring].
  - intros i Hi. exact (Hp i c Hi Hc).
Qed.
End C14.
End Physical.

(* ================================================================ 3. the code *)
Section Code.
Variable K : CField.
Add Field Kf_lp3 : (cth K).
Let O := ops_of K.
Variables (ty : caltype) (mr mc : nat).
Let p := Nat.max mr mc.
Local Open Scope cf_scope.

Ltac keq := match goal with |- @eq _ ?x ?y => change (@eq (F K) x y) end.

Lemma sumk_sumf_K (m : nat) (f : nat -> K) : sumk O m f = @sumf K m f.
Proof. exact (msum_sumf K m f). Qed.

(* ---------------------------------------------------------------- samples, means, corrected values *)
Section Means.
Variables (ms : list (mvals O)) (el : nat -> nat -> K) (core : mvals O -> nat -> nat -> K).
(* every standard: measured value = response of the core network + leakage off the diagonal *)
Hypothesis measured : forall mv, In mv ms -> forall r c, (r < mr)%nat -> (c < mc)%nat ->
  g O (mv_m O mv) (r * mc + c) = core mv r c + (if Nat.eqb r c then 0 else el r c).
(* block-diagonal argument (discharged below): the core response of a sampled cell is zero *)
Hypothesis sampled_core_zero : forall mv, In mv ms -> forall r c, (r < mr)%nat -> (c < mc)%nat -> r <> c ->
  sampled K mr mc mv r c = true -> core mv r c = 0.
Hypothesis Hchar : forall k : nat, k <> 0%nat -> onat O k <> 0.

Lemma sample_measures_El_gen : forall mv, In mv ms -> forall r c, (r < mr)%nat -> (c < mc)%nat -> r <> c ->
  sampled K mr mc mv r c = true -> g O (mv_m O mv) (r * mc + c) = el r c.
Proof.
  intros mv Hmv r c Hr Hc Hrc Hs. rewrite (measured mv Hmv r c Hr Hc), (sampled_core_zero mv Hmv r c Hr Hc Hrc Hs).
  destruct (Nat.eqb_spec r c); [contradiction | keq; ring].
Qed.

Lemma leak_mean_is_El_gen : forall r c v, (r < mr)%nat -> (c < mc)%nat -> r <> c ->
  leak_mean O mr mc ms (r, c) = Some v -> v = el r c.
Proof.
  intros r c v Hr Hc Hrc Hv.
  apply (leak_mean_exact_lemma K mr mc ms r c (el r c) v); [|exact Hchar|exact Hv].
  intros mv Hmv Hs. exact (sample_measures_El_gen mv Hmv r c Hr Hc Hrc Hs).
Qed.

(* sufficient standards: a cell without any sample has no leakage to remove *)
Hypothesis covered : forall r c, (r < mr)%nat -> (c < mc)%nat -> r <> c -> leak_mean O mr mc ms (r, c) = None -> el r c = 0.
Hypothesis has_leak : has_outside_leakage ty = true.

Lemma m_adjusted_is_core_gen : forall mv, In mv ms -> forall r c, (r < mr)%nat -> (c < mc)%nat ->
  m_adjusted O ty mr mc ms mv (r * mc + c) = core mv r c.
Proof.
  intros mv Hmv r c Hr Hc. unfold m_adjusted. rewrite has_leak.
  assert (E1 : ((r * mc + c) / mc = r)%nat) by (rewrite Nat.div_add_l by lia; rewrite Nat.div_small by lia; lia).
  assert (E2 : ((r * mc + c) mod mc = c)%nat) by (rewrite Nat.add_comm, Nat.mod_add by lia; apply Nat.mod_small; lia).
  rewrite E1, E2. cbn [andb]. rewrite (measured mv Hmv r c Hr Hc).
  destruct (Nat.eqb_spec r c) as [E|NE]; cbn [negb].
  - keq. ring.
  - destruct (leak_mean O mr mc ms (r, c)) as [v|] eqn:Ev.
    + rewrite (leak_mean_is_El_gen r c v Hr Hc NE Ev). change (osub O) with (@csub K). keq. ring.
    + rewrite (covered r c Hr Hc NE Ev). keq. ring.
Qed.

Lemma in_offdiag_cells r c : In (r, c) (offdiag_cells mr mc) -> (r < mr)%nat /\ (c < mc)%nat /\ r <> c.
Proof.
  unfold offdiag_cells. intros H. apply in_flat_map in H. destruct H as (r' & Hr' & H).
  apply in_flat_map in H. destruct H as (c' & Hc' & H).
  apply in_seq in Hr'. apply in_seq in Hc'.
  destruct (Nat.eqb_spec r' c') as [E|NE]; [destruct H|].
  destruct H as [H|[]]. injection H as <- <-. repeat split; lia.
Qed.

Lemma leak_terms_are_El_gen :
  leak_terms O ty mr mc ms = map (fun rc => el (fst rc) (snd rc)) (offdiag_cells mr mc).
Proof.
  unfold leak_terms. rewrite has_leak. apply map_ext_in. intros [r c] Hin.
  destruct (in_offdiag_cells r c Hin) as (Hr & Hc & Hrc). cbn [fst snd].
  destruct (leak_mean O mr mc ms (r, c)) as [v|] eqn:Ev.
  - exact (leak_mean_is_El_gen r c v Hr Hc Hrc Ev).
  - symmetry. exact (covered r c Hr Hc Hrc Ev).
Qed.
End Means.

(* ---------------------------------------------------------------- connectivity as computed = an equivalence that S respects *)
Section Conn.
Variables (m : measurement) (fx : nat -> K) (pv : Z -> K).
Hypothesis conn_built : ms_conn m = Some (build_connectivity p (ms_s m)).
Definition same_of (i j : nat) : bool := nth (i * p + j) (build_connectivity p (ms_s m)) false.

Lemma same_of_refl i : (i < p)%nat -> same_of i i = true.
Proof. intros Hi. apply (connectivity_closed_every_n_lemma p (ms_s m) i i Hi Hi). apply rst_refl. Qed.
Lemma same_of_sym i j : (i < p)%nat -> (j < p)%nat -> same_of i j = true -> same_of j i = true.
Proof.
  intros Hi Hj H. apply (connectivity_closed_every_n_lemma p (ms_s m) j i Hj Hi). apply rst_sym.
  apply (connectivity_closed_every_n_lemma p (ms_s m) i j Hi Hj). exact H.
Qed.
Lemma same_of_trans i j k : (i < p)%nat -> (j < p)%nat -> (k < p)%nat ->
  same_of i j = true -> same_of j k = true -> same_of i k = true.
Proof.
  intros Hi Hj Hk H1 H2. apply (connectivity_closed_every_n_lemma p (ms_s m) i k Hi Hk).
  apply rst_trans with j.
  - apply (connectivity_closed_every_n_lemma p (ms_s m) i j Hi Hj). exact H1.
  - apply (connectivity_closed_every_n_lemma p (ms_s m) j k Hj Hk). exact H2.
Qed.

(* the S matrix of the standard: parameters, known zeros, and ANY value in the cells that were not given *)
Lemma std_S_bd : bd K p same_of (std_S K mr mc m fx pv).
Proof.
  intros i j Hi Hj H. unfold std_S. fold p.
  destruct (nth (i * p + j) (ms_s m) SNull) eqn:E; [| reflexivity |]; exfalso.
  all: assert (C : same_of i j = true);
    [apply (connectivity_closed_every_n_lemma p (ms_s m) i j Hi Hj); apply rst_step;
     split; [exact Hi|]; split; [exact Hj|]; split;
     [intros ->; rewrite (same_of_refl j Hj) in H; discriminate | rewrite E; reflexivity]
    | rewrite C in H; discriminate].
Qed.

Lemma sampled_same (mvv : list K) r c : sampled K mr mc (mkMV O m mvv) r c = true -> same_of r c = false.
Proof.
  unfold sampled. cbn [mv_meas]. rewrite conn_built. fold p. intros H. apply andb_prop in H. destruct H as [_ H].
  apply negb_true_iff in H. exact H.
Qed.
End Conn.
End Code.

(* ================================================================ 4. the leakage types *)
Section Types.
Variable K : CField.
Add Field Kf_lp4 : (cth K).
Let O := ops_of K.
Variables (mr mc : nat).
Let n := Nat.max mr mc.
Variables (fe : nat -> K) (el : nat -> nat -> K) (pv : Z -> K).
Variable ms : list (mvals O).
(* the network assigns to every standard the values of its S cells that were not given and a core response *)
Variables (fxof : mvals O -> nat -> K) (core : mvals O -> nat -> nat -> K).
Hypothesis Hchar : forall k : nat, k <> 0%nat -> onat O k <> @c0 K.
Local Open Scope cf_scope.

Definition Sof (mv : mvals O) : nat -> nat -> K := std_S K mr mc (mv_meas O mv) (fxof mv) pv.
Definition conn_built (mv : mvals O) : Prop :=
  ms_conn (mv_meas O mv) = Some (build_connectivity n (ms_s (mv_meas O mv))).
Definition measured_with_leakage (mv : mvals O) : Prop :=
  forall r c, (r < mr)%nat -> (c < mc)%nat ->
    g O (mv_m O mv) (r * mc + c) = core mv r c + (if Nat.eqb r c then 0 else el r c).
Definition covered : Prop :=
  forall r c, (r < mr)%nat -> (c < mc)%nat -> r <> c -> leak_mean O mr mc ms (r, c) = None -> el r c = 0.

(* what is concluded for every leakage type *)
Definition leak_conclusion (ty : caltype) : Prop :=
  (forall mv, In mv ms -> forall r c, (r < mr)%nat -> (c < mc)%nat -> r <> c ->
     sampled K mr mc mv r c = true -> g O (mv_m O mv) (r * mc + c) = el r c) /\
  (forall r c v, (r < mr)%nat -> (c < mc)%nat -> r <> c -> leak_mean O mr mc ms (r, c) = Some v -> v = el r c) /\
  (covered ->
     leak_terms O ty mr mc ms = map (fun rc => el (fst rc) (snd rc)) (offdiag_cells mr mc) /\
     forall mv, In mv ms -> forall i j, (i < mr)%nat -> (j < mc)%nat ->
       m_adjusted O ty mr mc ms mv (i * mc + j) = core mv i j /\
       std_cell K ty mr mc (mv_meas O mv) fe (m_adjusted O ty mr mc ms mv) (fxof mv) pv i j = 0).

Lemma sampled_same_mv (mv : mvals O) r c :
  conn_built mv -> sampled K mr mc mv r c = true -> same_of mr mc (mv_meas O mv) r c = false.
Proof. destruct mv as [m vals]. intros Hc H. exact (sampled_same K mr mc m Hc vals r c H). Qed.

(* ---------------------------------------------------------------- TE10 *)
Section TE10.
Hypothesis dims : (mr <= mc)%nat.
Let l := layout TE10 (Z.of_nat mr) (Z.of_nat mc).
Let e0 := terms_of K TE10 mr mc fe 0.
Definition te_Ts := blk O false (zn (VL_TS_OFFSET l)) n e0.
Definition te_Ti := blk O false (zn (VL_TI_OFFSET l)) n e0.
Definition te_Tx := blk O false (zn (VL_TX_OFFSET l)) n e0.
Definition te_Tm := blk O false (zn (VL_TM_OFFSET l)) n e0.
Definition te_network (mv : mvals O) : Prop :=
  physT K n (Sof mv) te_Ts te_Ti te_Tx te_Tm mr (core mv) /\ left_kernel_trivial K n (NT K n (Sof mv) te_Tx te_Tm).

Lemma blk_diag_bd (m : measurement) off (e : list K) : bd K n (same_of mr mc m) (blk O false off n e).
Proof. unfold blk. exact (bd_diag K n (same_of mr mc m) (same_of_refl mr mc m) (fun i => g O e (off + i))). Qed.

Lemma te_core_zero mv : conn_built mv -> te_network mv ->
  forall r c, (r < mr)%nat -> (c < mc)%nat -> sampled K mr mc mv r c = true -> core mv r c = 0.
Proof.
  intros Hc [Hp Hk] r c Hr Hc' Hs.
  set (m := mv_meas O mv).
  refine (physT_offblock K n (same_of mr mc m) (same_of_sym mr mc m) (same_of_trans mr mc m) (Sof mv)
            (std_S_bd K mr mc m (fxof mv) pv) te_Ts te_Ti te_Tx te_Tm mr (core mv)
            (blk_diag_bd m _ _) (blk_diag_bd m _ _) (blk_diag_bd m _ _) (blk_diag_bd m _ _) _ Hk Hp r c Hr _ _).
  - unfold n. lia.
  - unfold n. lia.
  - exact (sampled_same_mv mv r c Hc Hs).
Qed.

Lemma te_std_cell mv (fm : nat -> K) i j : (i < mr)%nat -> (j < mc)%nat ->
  (forall a, (a < mc)%nat -> fm (i * mc + a)%nat = core mv i a) ->
  std_cell K TE10 mr mc (mv_meas O mv) fe fm (fxof mv) pv i j
  = docT K n (Sof mv) te_Ts te_Ti te_Tx te_Tm (core mv) i j.
Proof.
  intros Hi Hj Hfm. unfold std_cell. change (VNACAL_IS_T TE10) with true. cbv iota. unfold std_cell_T, docT, std_M.
  change (caltype_eqb TE10 T16 || caltype_eqb TE10 U16)%bool with false.
  rewrite !sumk_sumf_K.
  assert (En : Nat.max mr mc = mc) by lia.
  unfold te_Ts, te_Ti, te_Tx, te_Tm, Sof, e0, l, n. rewrite !En.
  f_equal; [f_equal|].
  - apply sumf_ext. intros a Ha. rewrite (Hfm a Ha), sumk_sumf_K. reflexivity.
  - apply sumf_ext. intros a Ha. rewrite (Hfm a Ha). reflexivity.
Qed.

Theorem leak_TE10_lemma :
  (forall mv, In mv ms -> conn_built mv /\ te_network mv /\ measured_with_leakage mv) -> leak_conclusion TE10.
Proof.
  intros H.
  assert (Hm : forall mv, In mv ms -> forall r c, (r < mr)%nat -> (c < mc)%nat ->
            g O (mv_m O mv) (r * mc + c) = core mv r c + (if Nat.eqb r c then 0 else el r c))
    by (intros mv Hmv; exact (proj2 (proj2 (H mv Hmv)))).
  assert (Hz : forall mv, In mv ms -> forall r c, (r < mr)%nat -> (c < mc)%nat -> r <> c ->
            sampled K mr mc mv r c = true -> core mv r c = 0).
  { intros mv Hmv r c Hr Hc _ Hs. destruct (H mv Hmv) as (H1 & H2 & _). exact (te_core_zero mv H1 H2 r c Hr Hc Hs). }
  split; [exact (sample_measures_El_gen K mr mc ms el core Hm Hz)|].
  split; [exact (leak_mean_is_El_gen K mr mc ms el core Hm Hz Hchar)|].
  intros Hcov. split; [exact (leak_terms_are_El_gen K TE10 mr mc ms el core Hm Hz Hchar Hcov eq_refl)|].
  intros mv Hmv i j Hi Hj.
  pose proof (m_adjusted_is_core_gen K TE10 mr mc ms el core Hm Hz Hchar Hcov eq_refl mv Hmv) as Hadj.
  split; [exact (Hadj i j Hi Hj)|].
  refine (eq_trans (te_std_cell mv _ i j Hi Hj (fun a Ha => Hadj i a Hi Ha)) _).
  destruct (H mv Hmv) as (_ & [Hp _] & _).
  apply (proj1 (physT_iff_doc K n (Sof mv) te_Ts te_Ti te_Tx te_Tm mr (core mv)) Hp i j Hi). unfold n. lia.
Qed.
End TE10.

Lemma blk_diag_bd_cols (m : measurement) off cols (e : list K) : bd K n (same_of mr mc m) (blk O false off cols e).
Proof. unfold blk. exact (bd_diag K n (same_of mr mc m) (same_of_refl mr mc m) (fun i => g O e (off + i))). Qed.

(* ---------------------------------------------------------------- UE10 *)
Section UE10.
Hypothesis dims : (mc <= mr)%nat.
Let l := layout UE10 (Z.of_nat mr) (Z.of_nat mc).
Let e0 := terms_of K UE10 mr mc fe 0.
Definition ue_Um := blk O false (zn (VL_UM_OFFSET l)) mr e0.
Definition ue_Ui := blk O false (zn (VL_UI_OFFSET l)) mc e0.
Definition ue_Ux := blk O false (zn (VL_UX_OFFSET l)) mr e0.
Definition ue_Us := blk O false (zn (VL_US_OFFSET l)) mc e0.
Definition ue_network (mv : mvals O) : Prop :=
  physU K n (Sof mv) ue_Um ue_Ui ue_Ux ue_Us mc (core mv) /\ right_kernel_trivial K n (NU K n (Sof mv) ue_Um ue_Ux).

Lemma ue_core_zero mv : conn_built mv -> ue_network mv ->
  forall r c, (r < mr)%nat -> (c < mc)%nat -> sampled K mr mc mv r c = true -> core mv r c = 0.
Proof.
  intros Hc [Hp Hk] r c Hr Hc' Hs.
  set (m := mv_meas O mv).
  refine (physU_offblock K n (same_of mr mc m) (same_of_sym mr mc m) (same_of_trans mr mc m) (Sof mv)
            (std_S_bd K mr mc m (fxof mv) pv) ue_Um ue_Ui ue_Ux ue_Us mc (core mv)
            (blk_diag_bd_cols m _ _ _) (blk_diag_bd_cols m _ _ _) (blk_diag_bd_cols m _ _ _) (blk_diag_bd_cols m _ _ _) _ Hk Hp r c _ Hc' _).
  - unfold n. lia.
  - unfold n. lia.
  - exact (sampled_same_mv mv r c Hc Hs).
Qed.

Lemma ue_std_cell mv (fm : nat -> K) i j : (i < mr)%nat -> (j < mc)%nat ->
  (forall a, (a < mr)%nat -> fm (a * mc + j)%nat = core mv a j) ->
  std_cell K UE10 mr mc (mv_meas O mv) fe fm (fxof mv) pv i j
  = docU K n (Sof mv) ue_Um ue_Ui ue_Ux ue_Us (core mv) i j.
Proof.
  intros Hi Hj Hfm. unfold std_cell. change (VNACAL_IS_T UE10) with false. change (VNACAL_IS_UE14 UE10) with false.
  cbv iota. unfold std_cell_U, docU, std_M.
  change (caltype_eqb UE10 T16 || caltype_eqb UE10 U16)%bool with false.
  rewrite !sumk_sumf_K.
  assert (En : Nat.max mr mc = mr) by lia.
  unfold ue_Um, ue_Ui, ue_Ux, ue_Us, Sof, e0, l, n. rewrite !En.
  f_equal. f_equal; [f_equal|].
  - apply sumf_ext. intros a Ha. rewrite (Hfm a Ha). reflexivity.
  - apply sumf_ext. intros k Hk. f_equal. rewrite sumk_sumf_K. apply sumf_ext. intros a Ha. rewrite (Hfm a Ha). reflexivity.
Qed.

Theorem leak_UE10_lemma :
  (forall mv, In mv ms -> conn_built mv /\ ue_network mv /\ measured_with_leakage mv) -> leak_conclusion UE10.
Proof.
  intros H.
  assert (Hm : forall mv, In mv ms -> forall r c, (r < mr)%nat -> (c < mc)%nat ->
            g O (mv_m O mv) (r * mc + c) = core mv r c + (if Nat.eqb r c then 0 else el r c))
    by (intros mv Hmv; exact (proj2 (proj2 (H mv Hmv)))).
  assert (Hz : forall mv, In mv ms -> forall r c, (r < mr)%nat -> (c < mc)%nat -> r <> c ->
            sampled K mr mc mv r c = true -> core mv r c = 0).
  { intros mv Hmv r c Hr Hc _ Hs. destruct (H mv Hmv) as (H1 & H2 & _). exact (ue_core_zero mv H1 H2 r c Hr Hc Hs). }
  split; [exact (sample_measures_El_gen K mr mc ms el core Hm Hz)|].
  split; [exact (leak_mean_is_El_gen K mr mc ms el core Hm Hz Hchar)|].
  intros Hcov. split; [exact (leak_terms_are_El_gen K UE10 mr mc ms el core Hm Hz Hchar Hcov eq_refl)|].
  intros mv Hmv i j Hi Hj.
  pose proof (m_adjusted_is_core_gen K UE10 mr mc ms el core Hm Hz Hchar Hcov eq_refl mv Hmv) as Hadj.
  split; [exact (Hadj i j Hi Hj)|].
  refine (eq_trans (ue_std_cell mv _ i j Hi Hj (fun a Ha => Hadj a j Ha Hj)) _).
  destruct (H mv Hmv) as (_ & [Hp _] & _).
  apply (proj1 (physU_iff_doc K n (Sof mv) ue_Um ue_Ui ue_Ux ue_Us mc (core mv)) Hp i j); [unfold n; lia | exact Hj].
Qed.
End UE10.

(* ---------------------------------------------------------------- UE14 and E12 (measured as E12_UE14) *)
Section UE14.
Variable ty : caltype.
Hypothesis Hty : ty = UE14 \/ ty = E12_UE14.
Hypothesis dims : (mc <= mr)%nat.
Let l := layout ty (Z.of_nat mr) (Z.of_nat mc).
Definition c14_um (c i : nat) : K := g O (terms_of K ty mr mc fe c) (zn (VL_UM14_OFFSET l (Z.of_nat c)) + i).
Definition c14_ux (c i : nat) : K := g O (terms_of K ty mr mc fe c) (zn (VL_UX14_OFFSET l (Z.of_nat c)) + i).
Definition c14_ui (c : nat) : K := g O (terms_of K ty mr mc fe c) (zn (VL_UI14_OFFSET l (Z.of_nat c))).
Definition c14_us (c : nat) : K := g O (terms_of K ty mr mc fe c) (zn (VL_US14_OFFSET l (Z.of_nat c))).
Definition c14_network (mv : mvals O) : Prop :=
  phys14 K n (Sof mv) c14_um c14_ux c14_ui c14_us mc (core mv) /\
  forall c, (c < mc)%nat -> right_kernel_trivial K n (N14 K (Sof mv) c14_um c14_ux c).

Lemma c14_core_zero mv : conn_built mv -> c14_network mv ->
  forall r c, (r < mr)%nat -> (c < mc)%nat -> sampled K mr mc mv r c = true -> core mv r c = 0.
Proof.
  intros Hc [Hp Hk] r c Hr Hc' Hs.
  set (m := mv_meas O mv).
  refine (phys14_offblock K n (same_of mr mc m) (same_of_refl mr mc m) (same_of_sym mr mc m) (same_of_trans mr mc m) (Sof mv)
            (std_S_bd K mr mc m (fxof mv) pv) c14_um c14_ux c14_ui c14_us mc (core mv) _ Hk Hp r c _ Hc' _).
  - unfold n. lia.
  - unfold n. lia.
  - exact (sampled_same_mv mv r c Hc Hs).
Qed.

Lemma c14_std_cell mv (fm : nat -> K) i j : (i < mr)%nat -> (j < mc)%nat ->
  (forall a, (a < mr)%nat -> fm (a * mc + j)%nat = core mv a j) ->
  std_cell K ty mr mc (mv_meas O mv) fe fm (fxof mv) pv i j
  = doc14 K n (Sof mv) c14_um c14_ux c14_ui c14_us (core mv) i j.
Proof.
  intros Hi Hj Hfm. unfold std_cell.
  assert (E1 : VNACAL_IS_T ty = false) by (destruct Hty as [E|E]; rewrite E; reflexivity).
  assert (E2 : VNACAL_IS_UE14 ty = true) by (destruct Hty as [E|E]; rewrite E; reflexivity).
  rewrite E1, E2. unfold std_cell_14, doc14, std_M.
  rewrite !sumk_sumf_K.
  assert (En : Nat.max mr mc = mr) by lia.
  unfold c14_um, c14_ux, c14_ui, c14_us, Sof, l, n. rewrite !En.
  rewrite (Hfm i Hi).
  f_equal. f_equal.
  apply sumf_ext. intros k Hk. rewrite (Hfm k Hk). reflexivity.
Qed.

Theorem leak_UE14_lemma :
  (forall mv, In mv ms -> conn_built mv /\ c14_network mv /\ measured_with_leakage mv) -> leak_conclusion ty.
Proof.
  intros H.
  assert (HL : has_outside_leakage ty = true) by (destruct Hty as [E|E]; rewrite E; reflexivity).
  assert (Hm : forall mv, In mv ms -> forall r c, (r < mr)%nat -> (c < mc)%nat ->
            g O (mv_m O mv) (r * mc + c) = core mv r c + (if Nat.eqb r c then 0 else el r c))
    by (intros mv Hmv; exact (proj2 (proj2 (H mv Hmv)))).
  assert (Hz : forall mv, In mv ms -> forall r c, (r < mr)%nat -> (c < mc)%nat -> r <> c ->
            sampled K mr mc mv r c = true -> core mv r c = 0).
  { intros mv Hmv r c Hr Hc _ Hs. destruct (H mv Hmv) as (H1 & H2 & _). exact (c14_core_zero mv H1 H2 r c Hr Hc Hs). }
  split; [exact (sample_measures_El_gen K mr mc ms el core Hm Hz)|].
  split; [exact (leak_mean_is_El_gen K mr mc ms el core Hm Hz Hchar)|].
  intros Hcov. split; [exact (leak_terms_are_El_gen K ty mr mc ms el core Hm Hz Hchar Hcov HL)|].
  intros mv Hmv i j Hi Hj.
  pose proof (m_adjusted_is_core_gen K ty mr mc ms el core Hm Hz Hchar Hcov HL mv Hmv) as Hadj.
  split; [exact (Hadj i j Hi Hj)|].
  refine (eq_trans (c14_std_cell mv _ i j Hi Hj (fun a Ha => Hadj a j Ha Hj)) _).
  destruct (H mv Hmv) as (_ & [Hp _] & _).
  apply (proj1 (phys14_iff_doc K n (Sof mv) c14_um c14_ux c14_ui c14_us mc (core mv)) Hp i j); [unfold n; lia | exact Hj].
Qed.
End UE14.
End Types.

(* ================================================================ 5. what add_common records *)
(* inversion of the accepting path of the model of _vnacal_new_add_common, all arguments: the connectivity matrix
   of an accepted standard of a type other than T16 / U16 is the one build_connectivity computes from its S cells *)
Lemma accepted_conn_built_lemma : forall a m, add_common a = Accepted m ->
  ms_conn m = if is_16 (aa_ty a) then None
              else Some (build_connectivity (Nat.max (aa_mr a) (aa_mc a)) (ms_s m)).
Proof.
  intros a m H. unfold add_common in H.
  repeat match type of H with
  | (if ?c then _ else _) = _ => destruct c; [discriminate H|]
  | (let '(_, _) := ?p in _) = _ => destruct p
  | match ?x with Some _ => _ | None => _ end = _ => destruct x; [discriminate H|]
  end.
  match type of H with
  | match ?x with Some _ => _ | None => _ end = _ => destruct x as [[? r]|]; [destruct r; discriminate H|]
  end.
  injection H as <-. reflexivity.
Qed.
