(* The fill functions of vnacal_apply.c for EVERY square dimension n (no bound on n).

   (a) loop_fill_eq_model: the closed-form executable model Cal/ApplyModel.v (build / div / mod) and the
       loop-literal model Cal/FillLoops.v (nested fold_left over seq 0 n, in-place updl, running el_cur)
       compute the same (m', A, B), for every Ops, every n, all e and m (square calibrations).
   (b) fill_solves_every_n: for every field K, every stored type, every n and ALL e, m, s with
       length m = n * n, the filled (A, B) satisfy cell by cell
             T types: (A S - B)[i,j] = - doc[i,j]          U, UE14, E12: (S A - B)[i,j] = - doc[i,j]
       with doc the documented expression ApplyIdentity.doc_cell.  This is ApplyIdentity.fill_solves_lemma
       without the restriction to ApplyProofs.apply_cases (dimensions 1..4), for mr = mc = n.
       No hypothesis on e: cells read outside e are 0 on both sides.
   (c) a computed instance at n = 5 over the Gaussian rationals.
   Proof of (b): nth of `build', sums as LuGenA.sumf (collapse of the diagonal blocks, exchange of the
   two sums for T16), the leakage subtraction identified with leak_index by induction over the two
   loops (kf_sub_leak_cell), then `ring'. *)
Require Import List ZArith Bool Arith Lia.
Require Import LV.Base.CField LV.Lin.MatL LV.Lin.LuGenA.
Require Import LV.Gen.LayoutGen LV.Cal.Sym LV.Cal.ApplyModel LV.Cal.ApplyProofs LV.Cal.ApplyIdentity LV.Cal.FillLoops.
Import ListNotations.
Local Open Scope nat_scope.

(* ================================================================ (a) loops = closed form *)
Section LoopEqModel.
Variable O : Ops.
Notation "x +! y" := (oadd O x y) (at level 50, left associativity).
Notation "x -! y" := (osub O x y) (at level 50, left associativity).
Notation "x *! y" := (omul O x y) (at level 40, left associativity).
Notation "x /! y" := (odiv O x y) (at level 40, left associativity).
Notation Z0 := (o0 O).
Notation ONE := (o1 O).

(* ---------------------------------------------------------------- folds *)
Lemma fl_fold_flat_map {S X Y} (f : S -> Y -> S) (h : X -> list Y) l s :
  fold_left f (flat_map h l) s = fold_left (fun s x => fold_left f (h x) s) l s.
Proof. revert s; induction l; simpl; intros; [reflexivity|]. rewrite fold_left_app. apply IHl. Qed.

Lemma fl_fold_ext {S X} (f f' : S -> X -> S) l :
  (forall s x, f s x = f' s x) -> forall s, fold_left f l s = fold_left f' l s.
Proof. intros H; induction l; simpl; intros; [reflexivity|]. rewrite H. apply IHl. Qed.

Lemma fl_fold_proj {S S' X} (pi : S -> S') (f : S -> X -> S) (f' : S' -> X -> S') l :
  (forall s x, pi (f s x) = f' (pi s) x) -> forall s, pi (fold_left f l s) = fold_left f' l (pi s).
Proof. intros H; induction l; simpl; intros; [reflexivity|]. rewrite IHl, H. reflexivity. Qed.

Lemma fl_fold_pair {A B X} (fa : A -> X -> A) (fb : B -> X -> B) l a b :
  fold_left (fun ab x => let '(a, b) := ab in (fa a x, fb b x)) l (a, b)
  = (fold_left fa l a, fold_left fb l b).
Proof. revert a b; induction l; simpl; intros; [reflexivity|]. apply IHl. Qed.

Lemma fl_fold_pair2 {A B X Y} (fa : A -> X -> Y -> A) (fb : B -> X -> Y -> B) lx ly a b :
  fold_left (fun ab x => fold_left (fun ab y => let '(a, b) := ab in (fa a x y, fb b x y)) ly ab) lx (a, b)
  = (fold_left (fun a x => fold_left (fun a y => fa a x y) ly a) lx a,
     fold_left (fun b x => fold_left (fun b y => fb b x y) ly b) lx b).
Proof.
  revert a b; induction lx; simpl; intros; [reflexivity|].
  rewrite (fl_fold_pair (fun a0 y => fa a0 a y) (fun b0 y => fb b0 a y)). apply IHlx.
Qed.

(* ---------------------------------------------------------------- sub_leak *)
Lemma loop_sub_leak_eq mr mc m el : loop_sub_leak O mr mc m el = sub_leak O mr mc m el.
Proof.
  unfold loop_sub_leak, sub_leak. cbv zeta. f_equal. symmetry.
  rewrite fl_fold_flat_map. apply fl_fold_ext. intros st r.
  rewrite fl_fold_flat_map. apply fl_fold_ext. intros st' c.
  destruct (r =? c); reflexivity.
Qed.

(* ---------------------------------------------------------------- updl / g *)
Lemma fl_updl_length {A} (l : list A) i v : length (updl l i v) = length l.
Proof. revert i; induction l; destruct i; simpl; auto. Qed.

Lemma fl_g_updl_eq l i v : i < length l -> g O (updl l i v) i = v.
Proof.
  unfold g. revert i; induction l; destruct i; simpl; intros; try lia; auto.
  apply IHl. lia.
Qed.

Lemma fl_g_updl_neq l i j v : i <> j -> g O (updl l i v) j = g O l j.
Proof.
  unfold g. revert i j; induction l; destruct i, j; simpl; intros; try lia; auto.
Qed.

Lemma fl_updl_updl {A} (l : list A) i v w : updl (updl l i v) i w = updl l i w.
Proof. revert i; induction l; destruct i; simpl; intros; auto. f_equal; auto. Qed.

Lemma fl_acc_sub (w : nat -> O) cell l : forall a v, cell < length a ->
  fold_left (fun a k => updl a cell (g O a cell -! w k)) l (updl a cell v)
  = updl a cell (fold_left (fun acc k => acc -! w k) l v).
Proof.
  induction l; simpl; intros; [reflexivity|].
  rewrite fl_g_updl_eq by assumption. rewrite fl_updl_updl. apply IHl; assumption.
Qed.

Lemma fl_acc_add (w : nat -> O) cell l : forall a v, cell < length a ->
  fold_left (fun a k => updl a cell (g O a cell +! w k)) l (updl a cell v)
  = updl a cell (fold_left (fun acc k => acc +! w k) l v).
Proof.
  induction l; simpl; intros; [reflexivity|].
  rewrite fl_g_updl_eq by assumption. rewrite fl_updl_updl. apply IHl; assumption.
Qed.

(* ---------------------------------------------------------------- single loop of cell writes *)
Lemma fl_loop_updl (body : list O -> nat -> list O) (cf : nat -> nat) (vf : nat -> O) L q :
  (forall a j, length a = L -> j < q -> body a j = updl a (cf j) (vf j)) ->
  (forall j, j < q -> cf j < L) ->
  (forall j j', j < q -> j' < q -> cf j = cf j' -> j = j') ->
  forall a, length a = L ->
    let r := fold_left body (seq 0 q) a in
    length r = L /\ (forall j, j < q -> g O r (cf j) = vf j) /\
    (forall cell, (forall j, j < q -> cell <> cf j) -> g O r cell = g O a cell).
Proof.
  induction q; intros Hb Hlt Hinj a Ha; cbv zeta.
  - simpl. repeat split; auto. intros; lia.
  - rewrite seq_S, fold_left_app. simpl.
    destruct (IHq (fun a j Hl Hj => Hb a j Hl (Nat.lt_lt_succ_r _ _ Hj))
                  (fun j Hj => Hlt j (Nat.lt_lt_succ_r _ _ Hj))
                  (fun j j' Hj Hj' => Hinj j j' (Nat.lt_lt_succ_r _ _ Hj) (Nat.lt_lt_succ_r _ _ Hj'))
                  a Ha) as (Hl & Hv & Hu).
    set (r0 := fold_left body (seq 0 q) a) in *.
    rewrite (Hb r0 q Hl) by lia.
    split; [rewrite fl_updl_length; exact Hl|]. split.
    + intros j Hj. destruct (Nat.eq_dec j q) as [->|Hne].
      * apply fl_g_updl_eq. rewrite Hl. apply Hlt. lia.
      * rewrite fl_g_updl_neq. apply Hv; lia.
        intro E. apply Hinj in E; lia.
    + intros cell Hc. rewrite fl_g_updl_neq. apply Hu. intros; apply Hc; lia.
      intro E. apply (Hc q); lia.
Qed.

(* ---------------------------------------------------------------- double loop *)
Lemma fl_nest_updl_gen (body : list O -> nat -> nat -> list O) (idx : nat -> nat -> nat)
      (val : nat -> nat -> O) n L :
  (forall a i j, length a = L -> i < n -> j < n -> body a i j = updl a (idx i j) (val i j)) ->
  (forall i j, i < n -> j < n -> idx i j < L) ->
  (forall i j i' j', i < n -> j < n -> i' < n -> j' < n -> idx i j = idx i' j' -> i = i' /\ j = j') ->
  forall p, p <= n -> forall a, length a = L ->
    let r := fold_left (fun a i => fold_left (fun a j => body a i j) (seq 0 n) a) (seq 0 p) a in
    length r = L /\ (forall i j, i < p -> j < n -> g O r (idx i j) = val i j) /\
    (forall cell, (forall i j, i < p -> j < n -> cell <> idx i j) -> g O r cell = g O a cell).
Proof.
  intros Hb Hlt Hinj. induction p; intros Hp a Ha; cbv zeta.
  - simpl. repeat split; auto. intros; lia.
  - rewrite seq_S, fold_left_app. simpl.
    destruct (IHp (Nat.lt_le_incl _ _ Hp) a Ha) as (Hl & Hv & Hu).
    set (r0 := fold_left _ (seq 0 p) a) in *.
    destruct (fl_loop_updl (fun a j => body a p j) (idx p) (val p) L n
                (fun a j Hl Hj => Hb a p j Hl Hp Hj) (fun j Hj => Hlt p j Hp Hj)
                (fun j j' Hj Hj' E => proj2 (Hinj p j p j' Hp Hj Hp Hj' E)) r0 Hl) as (Hl1 & Hv1 & Hu1).
    split; [exact Hl1|]. split.
    + intros i j Hi Hj. destruct (Nat.eq_dec i p) as [->|Hne].
      * apply Hv1; assumption.
      * rewrite Hu1. apply Hv; lia.
        intros j' Hj' E. apply Hinj in E; lia.
    + intros cell Hc. rewrite Hu1. apply Hu. intros; apply Hc; lia.
      intros j Hj. apply Hc; lia.
Qed.

Lemma fl_nest_updl (body : list O -> nat -> nat -> list O) (idx : nat -> nat -> nat)
      (val : nat -> nat -> O) n L :
  (forall a i j, length a = L -> i < n -> j < n -> body a i j = updl a (idx i j) (val i j)) ->
  (forall i j, i < n -> j < n -> idx i j < L) ->
  (forall i j i' j', i < n -> j < n -> i' < n -> j' < n -> idx i j = idx i' j' -> i = i' /\ j = j') ->
  forall a, length a = L ->
    let r := fold_left (fun a i => fold_left (fun a j => body a i j) (seq 0 n) a) (seq 0 n) a in
    length r = L /\ forall i j, i < n -> j < n -> g O r (idx i j) = val i j.
Proof.
  intros Hb Hlt Hinj a Ha.
  destruct (fl_nest_updl_gen body idx val n L Hb Hlt Hinj n (le_n n) a Ha) as (H1 & H2 & _).
  split; assumption.
Qed.

(* ---------------------------------------------------------------- build *)
Lemma fl_div n i j : j < n -> (i * n + j) / n = i.
Proof. intros. rewrite Nat.div_add_l by lia. rewrite Nat.div_small by lia. lia. Qed.

Lemma fl_mod n i j : j < n -> (i * n + j) mod n = j.
Proof. intros. rewrite Nat.add_comm, Nat.mod_add by lia. apply Nat.mod_small; lia. Qed.

Lemma fl_nth_build (F : nat -> O) N i d : i < N -> nth i (build O N F) d = F i.
Proof.
  intros H. unfold build. rewrite (nth_indep _ d (F 0)) by (rewrite map_length, seq_length; auto).
  rewrite map_nth. rewrite seq_nth; auto.
Qed.

Lemma fl_eq_build n (r : list O) (F : nat -> O) :
  length r = n * n -> (forall i j, i < n -> j < n -> g O r (i * n + j) = F (i * n + j)) ->
  r = build O (n * n) F.
Proof.
  intros Hl Hv. apply (nth_ext _ _ Z0 Z0).
  - unfold build. rewrite map_length, seq_length. exact Hl.
  - intros cell Hc. rewrite Hl in Hc. rewrite fl_nth_build by exact Hc.
    assert (Hn : n <> 0) by (intro; subst; simpl in Hc; lia).
    assert (E : cell = (cell / n) * n + cell mod n) by (rewrite Nat.mul_comm; apply Nat.div_mod; exact Hn).
    rewrite E. apply Hv.
    + apply Nat.div_lt_upper_bound; auto.
    + apply Nat.mod_upper_bound; auto.
Qed.

Lemma fl_idx_inj n i j i' j' : j < n -> j' < n -> i * n + j = i' * n + j' -> i = i' /\ j = j'.
Proof.
  intros Hj Hj' E.
  assert (i = i') by (rewrite <- (fl_div n i j Hj), <- (fl_div n i' j' Hj'), E; reflexivity).
  subst. lia.
Qed.

(* outer loop = row, inner loop = column *)
Lemma fl_rowmajor (body : list O -> nat -> nat -> list O) (F : nat -> O) n :
  (forall a i j, length a = n * n -> i < n -> j < n -> i * n + j < length a ->
      body a i j = updl a (i * n + j) (F (i * n + j))) ->
  fold_left (fun a i => fold_left (fun a j => body a i j) (seq 0 n) a) (seq 0 n) (repeat Z0 (n * n))
  = build O (n * n) F.
Proof.
  intros Hb.
  destruct (fl_nest_updl body (fun i j => i * n + j) (fun i j => F (i * n + j)) n (n * n)) with
    (a := repeat Z0 (n * n)) as (Hl & Hv).
  - intros. apply Hb; auto. nia.
  - intros. nia.
  - intros i j i' j' Hi Hj Hi' Hj' E. apply (fl_idx_inj n); auto.
  - apply repeat_length.
  - apply fl_eq_build; auto.
Qed.

(* outer loop = column, inner loop = row *)
Lemma fl_colmajor (body : list O -> nat -> nat -> list O) (F : nat -> O) n :
  (forall a c r, length a = n * n -> c < n -> r < n -> r * n + c < length a ->
      body a c r = updl a (r * n + c) (F (r * n + c))) ->
  fold_left (fun a c => fold_left (fun a r => body a c r) (seq 0 n) a) (seq 0 n) (repeat Z0 (n * n))
  = build O (n * n) F.
Proof.
  intros Hb.
  destruct (fl_nest_updl body (fun c r => r * n + c) (fun c r => F (r * n + c)) n (n * n)) with
    (a := repeat Z0 (n * n)) as (Hl & Hv).
  - intros. apply Hb; auto. nia.
  - intros. nia.
  - intros i j i' j' Hi Hj Hi' Hj' E. apply (fl_idx_inj n) in E; auto. tauto.
  - apply repeat_length.
  - apply fl_eq_build; auto.
Qed.

Lemma fl_and12 n : andb (n =? 1) (n =? 2) = false.
Proof. destruct (Nat.eqb_spec n 1), (Nat.eqb_spec n 2); simpl; auto; lia. Qed.
Lemma fl_and21 n : andb (n =? 2) (n =? 1) = false.
Proof. destruct (Nat.eqb_spec n 1), (Nat.eqb_spec n 2); simpl; auto; lia. Qed.

Ltac fl_upd :=
  repeat (rewrite ?fl_updl_updl; rewrite ?fl_g_updl_eq by (rewrite ?fl_updl_length; assumption)).

Lemma loop_fill_t8_eq ty n e m :
  fill_t8 O ty n n e m = (let '(m', a, b) := loop_fill_t8 O ty n n e m in Filled m' a b).
Proof.
  unfold fill_t8, loop_fill_t8. cbv zeta.
  rewrite fl_and12, Nat.eqb_refl, Nat.max_id. cbv iota beta. simpl negb. cbv iota.
  rewrite loop_sub_leak_eq.
  f_equal; symmetry; apply fl_rowmajor; intros a i j Ha Hi Hj Hc; cbv beta;
    rewrite (fl_div n i j Hj), (fl_mod n i j Hj);
    destruct (i =? j); fl_upd; reflexivity.
Qed.

Lemma loop_fill_u8_eq ty n e m :
  fill_u8 O ty n n e m = (let '(m', a, b) := loop_fill_u8 O ty n n e m in Filled m' a b).
Proof.
  unfold fill_u8, loop_fill_u8. cbv zeta.
  rewrite fl_and21, Nat.eqb_refl, Nat.max_id. cbv iota beta. simpl negb. cbv iota.
  rewrite loop_sub_leak_eq.
  f_equal; symmetry; apply fl_rowmajor; intros a i j Ha Hi Hj Hc; cbv beta;
    rewrite (fl_div n i j Hj), (fl_mod n i j Hj);
    destruct (i =? j); fl_upd; reflexivity.
Qed.

Lemma loop_fill_t16_eq ty n e m :
  fill_t16 O ty n n e m = (let '(m', a, b) := loop_fill_t16 O ty n n e m in Filled m' a b).
Proof.
  unfold fill_t16, loop_fill_t16. cbv zeta.
  rewrite fl_and12, Nat.eqb_refl, Nat.max_id. cbv iota beta. simpl negb. cbv iota.
  f_equal; symmetry; apply fl_rowmajor; intros a i j Ha Hi Hj Hc; cbv beta;
    rewrite (fl_div n i j Hj), (fl_mod n i j Hj).
  - rewrite fl_acc_sub by assumption. reflexivity.
  - rewrite fl_acc_add by assumption. reflexivity.
Qed.

Lemma loop_fill_u16_eq ty n e m :
  fill_u16 O ty n n e m = (let '(m', a, b) := loop_fill_u16 O ty n n e m in Filled m' a b).
Proof.
  unfold fill_u16, loop_fill_u16. cbv zeta.
  rewrite fl_and21, Nat.eqb_refl, Nat.max_id. cbv iota beta. simpl negb. cbv iota.
  f_equal; symmetry; apply fl_rowmajor; intros a i j Ha Hi Hj Hc; cbv beta;
    rewrite (fl_div n i j Hj), (fl_mod n i j Hj);
    rewrite fl_acc_add by assumption; fl_upd; reflexivity.
Qed.

Lemma loop_fill_ue14_eq ty n e m :
  fill_ue14 O ty n n e m = (let '(m', a, b) := loop_fill_ue14 O ty n n e m in Filled m' a b).
Proof.
  unfold fill_ue14, loop_fill_ue14. cbv zeta.
  rewrite fl_and21, Nat.eqb_refl, Nat.max_id. cbv iota beta. simpl negb. cbv iota.
  rewrite loop_sub_leak_eq.
  rewrite fl_fold_pair. cbv beta iota. simpl fst. simpl snd.
  f_equal; symmetry; apply fl_colmajor; intros a c r Ha Hc Hr Hlt; cbv beta;
    rewrite (fl_div n r c Hc), (fl_mod n r c Hc), Nat.add_0_r;
    destruct (r =? c); fl_upd; reflexivity.
Qed.

Lemma loop_fill_e12_eq ty n e m :
  fill_e12 O ty n n e m = (let '(m', a, b) := loop_fill_e12 O ty n n e m in Filled m' a b).
Proof.
  unfold fill_e12, loop_fill_e12. cbv zeta.
  rewrite fl_and21, Nat.eqb_refl. cbv iota beta. simpl negb. cbv iota.
  rewrite fl_fold_pair2. cbv beta iota. simpl fst. simpl snd.
  f_equal; symmetry; apply fl_colmajor; intros a c r Ha Hc Hr Hlt; cbv beta;
    rewrite (fl_div n r c Hc), (fl_mod n r c Hc); reflexivity.
Qed.

Theorem loop_fill_eq_model ty n e m :
  apply_fill O ty n n e m = (let '(m', a, b) := loop_apply_fill O ty n e m in Filled m' a b).
Proof.
  unfold apply_fill, loop_apply_fill. rewrite Nat.eqb_refl. simpl andb. cbv iota.
  destruct ty.
  - apply loop_fill_t8_eq.
  - apply loop_fill_u8_eq.
  - apply loop_fill_t8_eq.
  - apply loop_fill_u8_eq.
  - apply loop_fill_t16_eq.
  - apply loop_fill_u16_eq.
  - apply loop_fill_ue14_eq.
  - apply loop_fill_ue14_eq.
  - apply loop_fill_e12_eq.
Qed.

End LoopEqModel.

(* ================================================================ lists, cells *)
Section ListFacts.
Variable O : Ops.

Lemma kf_updl_length {A} (l : list A) i v : length (updl l i v) = length l.
Proof. revert i; induction l; intros [|i]; simpl; auto. Qed.

Lemma kf_g_updl_eq (l : list O) i v : i < length l -> g O (updl l i v) i = v.
Proof. unfold g. revert i; induction l; intros [|i] H; simpl in *; try lia; auto. apply IHl; lia. Qed.

Lemma kf_g_updl_neq (l : list O) i j v : i <> j -> g O (updl l i v) j = g O l j.
Proof. unfold g. revert i j; induction l; intros [|i] [|j] H; simpl; auto; try lia. Qed.

Lemma kf_g_build N f cell : cell < N -> g O (build O N f) cell = f cell.
Proof. intros H. unfold g, build. apply nth_map_seq. exact H. Qed.

Lemma kf_div_rc n r c : c < n -> (r * n + c) / n = r.
Proof. intros H. symmetry. apply (Nat.div_unique _ _ _ c); lia. Qed.

Lemma kf_mod_rc n r c : c < n -> (r * n + c) mod n = c.
Proof. intros H. symmetry. apply (Nat.mod_unique _ _ r c); lia. Qed.

Lemma kf_cell_inj n r c r' c' : c < n -> c' < n -> r * n + c = r' * n + c' -> r = r' /\ c = c'.
Proof.
  intros H H' E. pose proof (kf_div_rc n r c H) as D. pose proof (kf_mod_rc n r c H) as M.
  rewrite E in D, M. rewrite (kf_div_rc n r' c' H') in D. rewrite (kf_mod_rc n r' c' H') in M. lia.
Qed.

(* ---------------------------------------------------------------- leakage subtraction, every n *)
Section Leak.
Variable el : nat -> O.
Let step := fun (st : list O * nat) (cell : nat) =>
  let '(m, k) := st in (updl m cell (osub O (g O m cell) (el k)), S k).

Lemma kf_leak_row n r : r < n -> forall c', c' <= n -> forall m k0, length m = n * n ->
  let st := fold_left step (flat_map (fun c => if Nat.eqb r c then [] else [r * n + c]) (seq 0 c')) (m, k0) in
  length (fst st) = n * n /\ snd st = k0 + c' - (if r <? c' then 1 else 0) /\
  forall r2 c2, c2 < n -> g O (fst st) (r2 * n + c2) =
     if (r2 =? r) && (c2 <? c') && negb (c2 =? r)
     then osub O (g O m (r2 * n + c2)) (el (k0 + c2 - (if r <? c2 then 1 else 0)))
     else g O m (r2 * n + c2).
Proof.
  intros Hr c'. induction c' as [|c' IH]; intros Hc m k0 Hm.
  - cbn. split; [exact Hm|]. split; [lia|]. intros r2 c2 H2. rewrite andb_false_r. reflexivity.
  - specialize (IH ltac:(lia) m k0 Hm). cbv zeta in IH |- *.
    rewrite seq_S, flat_map_app, fold_left_app. cbn [flat_map Nat.add]. rewrite app_nil_r.
    destruct (fold_left step (flat_map (fun c => if r =? c then [] else [r * n + c]) (seq 0 c')) (m, k0)) as [m1 k1].
    cbn [fst snd] in IH. destruct IH as (L1 & K1 & G1).
    destruct (Nat.eqb_spec r c') as [E|E].
    + cbn [fold_left fst snd]. split; [exact L1|]. split.
      * rewrite K1. subst c'. destruct (Nat.ltb_spec r r); destruct (Nat.ltb_spec r (S r)); lia.
      * intros r2 c2 H2. rewrite (G1 r2 c2 H2). subst c'.
        destruct (Nat.eqb_spec r2 r); cbn [andb]; [|reflexivity].
        destruct (Nat.ltb_spec c2 r); destruct (Nat.ltb_spec c2 (S r)); destruct (Nat.eqb_spec c2 r); cbn [andb negb]; try reflexivity; lia.
    + cbn [fold_left step fst snd]. split; [rewrite kf_updl_length; exact L1|]. split.
      * rewrite K1. destruct (Nat.ltb_spec r c'); destruct (Nat.ltb_spec r (S c')); lia.
      * intros r2 c2 H2.
        destruct (Nat.eq_dec (r * n + c') (r2 * n + c2)) as [Q|Q].
        -- apply kf_cell_inj in Q; [|lia|lia]. destruct Q as [<- <-].
           rewrite kf_g_updl_eq by (rewrite L1; nia).
           rewrite (G1 r c' ltac:(lia)). rewrite Nat.eqb_refl, Nat.ltb_irrefl. cbn [andb].
           destruct (Nat.ltb_spec c' (S c')); [|lia]. destruct (Nat.eqb_spec c' r); [lia|]. cbn [negb].
           rewrite K1. reflexivity.
        -- rewrite kf_g_updl_neq by exact Q. rewrite (G1 r2 c2 H2).
           destruct (Nat.eqb_spec r2 r); cbn [andb]; [|reflexivity].
           destruct (Nat.ltb_spec c2 c'); destruct (Nat.ltb_spec c2 (S c')); cbn [andb]; try reflexivity; try lia.
Qed.

Lemma kf_leak_rows n : forall r', r' <= n -> forall m, length m = n * n ->
  let st := fold_left step (flat_map (fun r => flat_map (fun c => if Nat.eqb r c then [] else [r * n + c]) (seq 0 n)) (seq 0 r')) (m, 0) in
  length (fst st) = n * n /\ snd st = r' * n - r' /\
  forall r2 c2, c2 < n -> g O (fst st) (r2 * n + c2) =
     if (r2 <? r') && negb (c2 =? r2)
     then osub O (g O m (r2 * n + c2)) (el (r2 * n - r2 + c2 - (if r2 <? c2 then 1 else 0)))
     else g O m (r2 * n + c2).
Proof.
  induction r' as [|r' IH]; intros Hr m Hm.
  - cbn. split; [exact Hm|]. split; [lia|]. intros; reflexivity.
  - specialize (IH ltac:(lia) m Hm). cbv zeta in IH |- *.
    rewrite seq_S, flat_map_app, fold_left_app. cbn [flat_map Nat.add]. rewrite app_nil_r.
    destruct (fold_left step (flat_map (fun r => flat_map (fun c => if r =? c then [] else [r * n + c]) (seq 0 n)) (seq 0 r')) (m, 0)) as [m1 k1].
    cbn [fst snd] in IH. destruct IH as (L1 & K1 & G1).
    pose proof (kf_leak_row n r' ltac:(lia) n (le_n n) m1 k1 L1) as R. cbv zeta in R.
    destruct R as (L2 & K2 & G2).
    split; [exact L2|]. split.
    + rewrite K2, K1. destruct (Nat.ltb_spec r' n); [|lia]. assert (r' <= r' * n) by nia. lia.
    + intros r2 c2 H2. rewrite (G2 r2 c2 H2), (G1 r2 c2 H2).
      destruct (Nat.eqb_spec r2 r') as [->|N]; cbn [andb].
      * rewrite Nat.ltb_irrefl. destruct (Nat.ltb_spec r' (S r')); [|lia]. destruct (Nat.ltb_spec c2 n); [|lia]. cbn [andb].
        destruct (Nat.eqb_spec c2 r'); cbn [negb]; [reflexivity|]. rewrite K1. reflexivity.
      * destruct (Nat.ltb_spec r2 r'); destruct (Nat.ltb_spec r2 (S r')); cbn [andb]; try reflexivity; lia.
Qed.

Lemma kf_sub_leak_cell n m r c : length m = n * n -> r < n -> c < n ->
  g O (sub_leak O n n m el) (r * n + c) = m_minus_el O true el n (fun r c => g O m (r * n + c)) r c.
Proof.
  intros Hm Hr Hc. unfold sub_leak.
  pose proof (kf_leak_rows n n (le_n n) m Hm) as R. cbv zeta in R. destruct R as (_ & _ & G).
  fold step. rewrite (G r c Hc). unfold m_minus_el, leak_index. cbn [andb].
  destruct (Nat.ltb_spec r n); [|lia]. cbn [andb].
  destruct (Nat.eqb_spec c r); destruct (Nat.eqb_spec r c); cbn [negb]; try reflexivity; try lia.
  f_equal. f_equal. assert (r <= r * n) by nia. destruct (Nat.ltb_spec r c); lia.
Qed.
End Leak.
End ListFacts.

(* ================================================================ sums over a field *)
Section KSums.
Variable K : CField.
Add Field KfFL : (cth K).
Let O := ops_of K.
Notation sk := (sumk (ops_of K)).

Lemma kf_sumk_sumf n (f : nat -> K) : sk n f = sumf n f.
Proof. exact (msum_sumf K n f). Qed.

Lemma kf_sumk_ext n (f h : nat -> K) : (forall k, k < n -> f k = h k) -> sk n f = sk n h.
Proof. intros H. rewrite !kf_sumk_sumf. apply sumf_ext. exact H. Qed.

Lemma kf_sumk_add n (f h : nat -> K) : sk n (fun k => cadd (f k) (h k)) = cadd (sk n f) (sk n h).
Proof. rewrite !kf_sumk_sumf. apply sumf_add. Qed.

Lemma kf_sumk_sub n (f h : nat -> K) : sk n (fun k => csub (f k) (h k)) = csub (sk n f) (sk n h).
Proof. rewrite !kf_sumk_sumf. induction n; simpl; [ring|]. rewrite IHn. ring. Qed.

Lemma kf_sumk_scale_l n c (f : nat -> K) : cmul c (sk n f) = sk n (fun k => cmul c (f k)).
Proof. rewrite !kf_sumk_sumf. apply sumf_scale_l. Qed.

Lemma kf_sumk_scale_r n c (f : nat -> K) : cmul (sk n f) c = sk n (fun k => cmul (f k) c).
Proof. rewrite !kf_sumk_sumf. apply sumf_scale_r. Qed.

Lemma kf_sumk_exchange n m (f : nat -> nat -> K) :
  sk n (fun i => sk m (fun j => f i j)) = sk m (fun j => sk n (fun i => f i j)).
Proof.
  rewrite kf_sumk_sumf. rewrite (sumf_ext K n _ (fun i => sumf m (fun j => f i j))) by (intros; apply kf_sumk_sumf).
  rewrite sumf_exchange. rewrite kf_sumk_sumf. apply sumf_ext. intros; symmetry; apply kf_sumk_sumf.
Qed.

(* k =? i *)
Lemma kf_sumk_pick n i (h : nat -> K) : i < n -> sk n (fun k => if k =? i then h k else c0) = h i.
Proof. intros H. rewrite kf_sumk_sumf. apply (sumf_single K n i h H). Qed.

(* i =? k *)
Lemma kf_sumk_pick' n i (h : nat -> K) : i < n -> sk n (fun k => if i =? k then h k else c0) = h i.
Proof.
  intros H. rewrite <- (kf_sumk_pick n i h H). apply kf_sumk_ext. intros k _. rewrite (Nat.eqb_sym i k). reflexivity.
Qed.

Lemma kf_fold_sub n (f : nat -> K) init :
  fold_left (fun acc k => csub acc (f k)) (seq 0 n) init = csub init (sk n f).
Proof. rewrite kf_sumk_sumf. rewrite (fold_sub_seq K n 0 f init). reflexivity. Qed.

Lemma kf_fold_add n (f : nat -> K) init :
  fold_left (fun acc k => cadd acc (f k)) (seq 0 n) init = cadd init (sk n f).
Proof. rewrite kf_sumk_sumf. rewrite (fold_add_seq K n 0 f init). reflexivity. Qed.
End KSums.

Section KFill.
Variable K : CField.
Add Field KfFL2 : (cth K).
Notation O := (ops_of K).
Notation sk := (sumk (ops_of K)).

Ltac kfn := cbn [oadd osub omul oopp odiv o0 o1 ops_of T].

Lemma kf_diag_l n i (x : K) (f : nat -> K) : i < n ->
  sk n (fun k => cmul (if i =? k then x else c0) (f k)) = cmul x (f i).
Proof.
  intros H. rewrite <- (kf_sumk_pick' K n i (fun k => cmul x (f k)) H). apply kf_sumk_ext.
  intros k _. destruct (i =? k); ring.
Qed.

Lemma kf_diag_r n j (f h : nat -> K) : j < n ->
  sk n (fun a => cmul (f a) (if a =? j then h a else c0)) = cmul (f j) (h j).
Proof.
  intros H. rewrite <- (kf_sumk_pick K n j (fun k => cmul (f k) (h k)) H). apply kf_sumk_ext.
  intros k _. destruct (k =? j); ring.
Qed.

Lemma kf_not12 n : andb (n =? 1) (n =? 2) = false.
Proof. destruct (Nat.eqb_spec n 1); destruct (Nat.eqb_spec n 2); cbn; auto; lia. Qed.
Lemma kf_not21 n : andb (n =? 2) (n =? 1) = false.
Proof. destruct (Nat.eqb_spec n 1); destruct (Nat.eqb_spec n 2); cbn; auto; lia. Qed.

Lemma kf_t8 (ty : caltype) (n : nat) (e m s : list K) :
  VNACAL_IS_T ty = true -> orb (caltype_eqb ty T16) (caltype_eqb ty U16) = false ->
  has_leak ty = caltype_eqb ty TE10 ->
  length m = n * n ->
  exists m' a b, fill_t8 O ty n n e m = Filled m' a b /\
    forall i j, i < n -> j < n ->
      csub (prod_cell K ty n n a s i j) (g O b (i * n + j)) = copp (doc_cell K ty n n e m s i j).
Proof.
  intros HT HF HL Hm.
  set (el := fun i => g O e (zn (VL_EL_OFFSET (layout ty (Z.of_nat n) (Z.of_nat n))) + i)).
  set (m' := if caltype_eqb ty TE10 then sub_leak O n n m el else m).
  assert (Hm' : forall i a, i < n -> a < n ->
            g O m' (i * n + a) = m_minus_el O (has_leak ty) (el_at O ty n n e) n (fun r c => g O m (r * n + c)) i a).
  { intros i a Hi Ha. subst m'. rewrite HL. destruct (caltype_eqb ty TE10).
    - apply (kf_sub_leak_cell O el n m i a Hm Hi Ha).
    - reflexivity. }
  exists m'. eexists. eexists. split.
  { unfold fill_t8. rewrite kf_not12, Nat.eqb_refl. cbn [negb]. fold el. fold m'. reflexivity. }
  intros i j Hi Hj.
  unfold prod_cell, doc_cell. rewrite HT, Nat.eqb_refl. unfold docT_row. rewrite HF.
  cbv beta iota zeta delta [blk]. rewrite !Nat.max_id.
  set (MU := m_minus_el O (has_leak ty) (el_at O ty n n e) n (fun r c => g O m (r * n + c))) in *.
  clearbody MU m'. clear el.
  rewrite (kf_g_build O) by nia. cbv beta. rewrite kf_div_rc, kf_mod_rc by lia. rewrite Hm' by lia.
  rewrite (kf_sumk_ext K n _ (fun k => csub
     (cmul (if i =? k then g O e (zn (VL_TS_OFFSET (layout ty (Z.of_nat n) (Z.of_nat n))) + i) else c0) (g O s (k * n + j)))
     (cmul (MU i k) (cmul (g O e (zn (VL_TX_OFFSET (layout ty (Z.of_nat n) (Z.of_nat n))) + k)) (g O s (k * n + j)))))).
  2:{ intros k Hk. rewrite (kf_g_build O) by nia. cbv beta. rewrite kf_div_rc, kf_mod_rc by lia. rewrite Hm' by lia.
      kfn. destruct (i =? k); ring. }
  rewrite kf_sumk_sub. kfn. rewrite !kf_diag_l by lia.
  rewrite (kf_sumk_ext K n (fun a => cmul (MU i a) (sk n _)) (fun a => cmul (MU i a)
      (cmul (g O e (zn (VL_TX_OFFSET (layout ty (Z.of_nat n) (Z.of_nat n))) + a)) (g O s (a * n + j))))).
  2:{ intros a Ha. rewrite kf_diag_l by lia. reflexivity. }
  rewrite kf_diag_r by lia.
  destruct (i =? j); ring.
Qed.
Lemma kf_u8 (ty : caltype) (n : nat) (e m s : list K) :
  VNACAL_IS_T ty = false -> caltype_eqb ty E12 = false -> VNACAL_IS_UE14 ty = false ->
  orb (caltype_eqb ty T16) (caltype_eqb ty U16) = false ->
  has_leak ty = caltype_eqb ty UE10 ->
  length m = n * n ->
  exists m' a b, fill_u8 O ty n n e m = Filled m' a b /\
    forall i j, i < n -> j < n ->
      csub (prod_cell K ty n n a s i j) (g O b (i * n + j)) = copp (doc_cell K ty n n e m s i j).
Proof.
  intros HT HE H14 HF HL Hm.
  set (el := fun i => g O e (zn (VL_EL_OFFSET (layout ty (Z.of_nat n) (Z.of_nat n))) + i)).
  set (m' := if caltype_eqb ty UE10 then sub_leak O n n m el else m).
  assert (Hm' : forall i a, i < n -> a < n ->
            g O m' (i * n + a) = m_minus_el O (has_leak ty) (el_at O ty n n e) n (fun r c => g O m (r * n + c)) i a).
  { intros i a Hi Ha. subst m'. rewrite HL. destruct (caltype_eqb ty UE10).
    - apply (kf_sub_leak_cell O el n m i a Hm Hi Ha).
    - reflexivity. }
  exists m'. eexists. eexists. split.
  { unfold fill_u8. rewrite kf_not21, Nat.eqb_refl. cbn [negb]. fold el. fold m'. reflexivity. }
  intros i j Hi Hj.
  unfold prod_cell, doc_cell. rewrite HT, HE, H14, Nat.eqb_refl. unfold docU_col. rewrite HF.
  cbv beta iota zeta delta [blk]. rewrite !Nat.max_id.
  set (MU := m_minus_el O (has_leak ty) (el_at O ty n n e) n (fun r c => g O m (r * n + c))) in *.
  clearbody MU m'. clear el.
  rewrite (kf_g_build O) by nia. cbv beta. rewrite kf_div_rc, kf_mod_rc by lia. rewrite Hm' by lia.
  rewrite (kf_sumk_ext K n _ (fun k => cadd
     (cmul (g O s (i * n + k)) (cmul (g O e (zn (VL_UX_OFFSET (layout ty (Z.of_nat n) (Z.of_nat n))) + k)) (MU k j)))
     (cmul (g O s (i * n + k)) (if k =? j then g O e (zn (VL_US_OFFSET (layout ty (Z.of_nat n) (Z.of_nat n))) + k) else c0)))).
  2:{ intros k Hk. rewrite (kf_g_build O) by nia. cbv beta. rewrite kf_div_rc, kf_mod_rc by lia. rewrite Hm' by lia.
      kfn. destruct (k =? j); ring. }
  rewrite kf_sumk_add. kfn. rewrite !kf_diag_r by lia. rewrite kf_diag_l by lia.
  rewrite (kf_sumk_ext K n (fun k => cmul (g O s (i * n + k)) (sk n _)) (fun k => cmul (g O s (i * n + k))
      (cmul (g O e (zn (VL_UX_OFFSET (layout ty (Z.of_nat n) (Z.of_nat n))) + k)) (MU k j)))).
  2:{ intros a Ha. rewrite kf_diag_l by lia. reflexivity. }
  destruct (i =? j); ring.
Qed.
Lemma kf_t16 (ty : caltype) (n : nat) (e m s : list K) :
  VNACAL_IS_T ty = true -> orb (caltype_eqb ty T16) (caltype_eqb ty U16) = true ->
  has_leak ty = false ->
  exists a b, fill_t16 O ty n n e m = Filled m a b /\
    forall i j, i < n -> j < n ->
      csub (prod_cell K ty n n a s i j) (g O b (i * n + j)) = copp (doc_cell K ty n n e m s i j).
Proof.
  intros HT HF HL.
  eexists. eexists. split.
  { unfold fill_t16. rewrite kf_not12, Nat.eqb_refl. cbn [negb]. reflexivity. }
  intros i j Hi Hj.
  unfold prod_cell, doc_cell. rewrite HT, HL, Nat.eqb_refl. unfold docT_row. rewrite HF.
  cbv beta iota zeta delta [blk m_minus_el andb]. rewrite !Nat.max_id.
  set (oTS := zn (VL_TS_OFFSET _)). set (oTI := zn (VL_TI_OFFSET _)).
  set (oTX := zn (VL_TX_OFFSET _)). set (oTM := zn (VL_TM_OFFSET _)).
  rewrite (kf_g_build O) by nia. cbv beta. rewrite kf_div_rc, kf_mod_rc by lia.
  kfn. rewrite kf_fold_add.
  rewrite (kf_sumk_ext K n _ (fun k => csub
     (cmul (g O e (oTS + i * n + k)) (g O s (k * n + j)))
     (sk n (fun a => cmul (g O m (i * n + a)) (cmul (g O e (oTX + a * n + k)) (g O s (k * n + j))))))).
  2:{ intros k Hk. rewrite (kf_g_build O) by nia. cbv beta. rewrite kf_div_rc, kf_mod_rc by lia.
      kfn. rewrite kf_fold_sub. rewrite Nat.add_assoc.
      transitivity (csub (cmul (g O e (oTS + i * n + k)) (g O s (k * n + j)))
                         (cmul (sk n (fun a => cmul (g O m (i * n + a)) (g O e (oTX + a * n + k)))) (g O s (k * n + j)))).
      - kfn. rewrite (kf_sumk_ext K n _ (fun a => cmul (g O m (i * n + a)) (g O e (oTX + a * n + k))))
          by (intros; rewrite Nat.add_assoc; reflexivity). ring.
      - f_equal. rewrite kf_sumk_scale_r. apply kf_sumk_ext. intros; kfn; ring. }
  rewrite kf_sumk_sub. rewrite kf_sumk_exchange.
  rewrite (kf_sumk_ext K n (fun a => cmul (g O m (i * n + a)) (sk n _))
      (fun a => sk n (fun k => cmul (g O m (i * n + a)) (cmul (g O e (oTX + a * n + k)) (g O s (k * n + j))))))
    by (intros; apply kf_sumk_scale_l).
  rewrite (kf_sumk_ext K n (fun a => cmul (g O m (i * n + a)) (g O e (oTM + (a * n + j))))
      (fun a => cmul (g O m (i * n + a)) (g O e (oTM + a * n + j))))
    by (intros; rewrite Nat.add_assoc; reflexivity).
  rewrite (Nat.add_assoc oTI). kfn. ring.
Qed.

Lemma kf_u16 (ty : caltype) (n : nat) (e m s : list K) :
  VNACAL_IS_T ty = false -> caltype_eqb ty E12 = false -> VNACAL_IS_UE14 ty = false ->
  orb (caltype_eqb ty T16) (caltype_eqb ty U16) = true ->
  has_leak ty = false ->
  exists a b, fill_u16 O ty n n e m = Filled m a b /\
    forall i j, i < n -> j < n ->
      csub (prod_cell K ty n n a s i j) (g O b (i * n + j)) = copp (doc_cell K ty n n e m s i j).
Proof.
  intros HT HE H14 HF HL.
  eexists. eexists. split.
  { unfold fill_u16. rewrite kf_not21, Nat.eqb_refl. cbn [negb]. reflexivity. }
  intros i j Hi Hj.
  unfold prod_cell, doc_cell. rewrite HT, HE, H14, HL, Nat.eqb_refl. unfold docU_col. rewrite HF.
  cbv beta iota zeta delta [blk m_minus_el andb]. rewrite !Nat.max_id.
  set (oUS := zn (VL_US_OFFSET _)). set (oUI := zn (VL_UI_OFFSET _)).
  set (oUX := zn (VL_UX_OFFSET _)). set (oUM := zn (VL_UM_OFFSET _)).
  rewrite (kf_g_build O) by nia. cbv beta. rewrite kf_div_rc, kf_mod_rc by lia.
  kfn. rewrite kf_fold_add.
  rewrite (kf_sumk_ext K n _ (fun k => cadd
     (cmul (g O s (i * n + k)) (sk n (fun a => cmul (g O e (oUX + k * n + a)) (g O m (a * n + j)))))
     (cmul (g O s (i * n + k)) (g O e (oUS + k * n + j))))).
  2:{ intros k Hk. rewrite (kf_g_build O) by nia. cbv beta. rewrite kf_div_rc, kf_mod_rc by lia.
      kfn. rewrite kf_fold_add. rewrite Nat.add_assoc.
      rewrite (kf_sumk_ext K n _ (fun a => cmul (g O e (oUX + k * n + a)) (g O m (a * n + j))))
        by (intros; rewrite Nat.add_assoc; kfn; ring).
      kfn. ring. }
  rewrite kf_sumk_add.
  rewrite (kf_sumk_ext K n (fun a => cmul (g O m (a * n + j)) (g O e (oUM + (i * n + a))))
      (fun a => cmul (g O e (oUM + i * n + a)) (g O m (a * n + j))))
    by (intros; rewrite Nat.add_assoc; kfn; ring).
  rewrite (Nat.add_assoc oUI). kfn. ring.
Qed.

Lemma kf_ue14 (ty : caltype) (n : nat) (e m s : list K) :
  VNACAL_IS_T ty = false -> caltype_eqb ty E12 = false -> VNACAL_IS_UE14 ty = true ->
  has_leak ty = true ->
  length m = n * n ->
  exists m' a b, fill_ue14 O ty n n e m = Filled m' a b /\
    forall i j, i < n -> j < n ->
      csub (prod_cell K ty n n a s i j) (g O b (i * n + j)) = copp (doc_cell K ty n n e m s i j).
Proof.
  intros HT HE H14 HL Hm.
  set (el := fun i => g O e (zn (VL_EL_OFFSET (layout ty (Z.of_nat n) (Z.of_nat n))) + i)).
  set (m' := sub_leak O n n m el).
  assert (Hm' : forall i a, i < n -> a < n ->
            g O m' (i * n + a) = m_minus_el O (has_leak ty) (el_at O ty n n e) n (fun r c => g O m (r * n + c)) i a).
  { intros i a Hi Ha. subst m'. rewrite HL. apply (kf_sub_leak_cell O el n m i a Hm Hi Ha). }
  exists m'. eexists. eexists. split.
  { unfold fill_ue14. rewrite kf_not21, Nat.eqb_refl. cbn [negb]. fold el. fold m'. reflexivity. }
  intros i j Hi Hj.
  unfold prod_cell, doc_cell. rewrite HT, HE, H14, Nat.eqb_refl. unfold doc14_col.
  cbv beta iota zeta. rewrite !Nat.max_id.
  set (MU := m_minus_el O (has_leak ty) (el_at O ty n n e) n (fun r c => g O m (r * n + c))) in *.
  clearbody MU m'. clear el.
  set (l := layout ty (Z.of_nat n) (Z.of_nat n)).
  rewrite (kf_g_build O) by nia. cbv beta. rewrite kf_div_rc, kf_mod_rc by lia. rewrite Hm' by lia.
  rewrite (kf_sumk_ext K n _ (fun k => cadd
     (cmul (g O s (i * n + k)) (cmul (g O e (zn (VL_UX14_OFFSET l (Z.of_nat j)) + k)) (MU k j)))
     (cmul (g O s (i * n + k)) (if k =? j then g O e (zn (VL_US14_OFFSET l (Z.of_nat j))) else c0)))).
  2:{ intros k Hk. rewrite (kf_g_build O) by nia. cbv beta. rewrite kf_div_rc, kf_mod_rc by lia. rewrite Hm' by lia.
      kfn. destruct (k =? j); ring. }
  rewrite kf_sumk_add. kfn.
  rewrite (kf_diag_r n j (fun k => g O s (i * n + k)) (fun _ => g O e (zn (VL_US14_OFFSET l (Z.of_nat j))))) by lia.
  destruct (i =? j); kfn; ring.
Qed.

Lemma kf_e12 (ty : caltype) (n : nat) (e m s : list K) :
  VNACAL_IS_T ty = false -> caltype_eqb ty E12 = true ->
  has_leak ty = false ->
  exists a b, fill_e12 O ty n n e m = Filled m a b /\
    forall i j, i < n -> j < n ->
      csub (prod_cell K ty n n a s i j) (g O b (i * n + j)) = copp (doc_cell K ty n n e m s i j).
Proof.
  intros HT HE HL.
  eexists. eexists. split.
  { unfold fill_e12. rewrite kf_not21, Nat.eqb_refl. cbn [negb]. reflexivity. }
  intros i j Hi Hj.
  unfold prod_cell, doc_cell. rewrite HT, HE, HL, Nat.eqb_refl. unfold doc12_col.
  cbv beta iota zeta delta [m_minus_el andb]. rewrite !Nat.max_id.
  set (l := layout ty (Z.of_nat n) (Z.of_nat n)).
  rewrite (kf_g_build O) by nia. cbv beta. rewrite kf_div_rc, kf_mod_rc by lia.
  set (bq := fun k => cdiv (csub (g O m (k * n + j)) (g O e (zn (VL_EL12_OFFSET l (Z.of_nat j)) + k)))
                           (g O e (zn (VL_ER12_OFFSET l (Z.of_nat j)) + k))).
  rewrite (kf_sumk_ext K n _ (fun k => cadd
     (cmul (g O s (i * n + k)) (if k =? j then c1 else c0))
     (cmul (g O s (i * n + k)) (cmul (g O e (zn (VL_EM12_OFFSET l (Z.of_nat j)) + k)) (bq k))))).
  2:{ intros k Hk. rewrite (kf_g_build O) by nia. cbv beta. rewrite kf_div_rc, kf_mod_rc by lia.
      kfn. fold (bq k). destruct (k =? j); ring. }
  rewrite kf_sumk_add.
  rewrite (kf_diag_r n j (fun k => g O s (i * n + k)) (fun _ => c1)) by lia.
  kfn. subst bq. cbv beta. ring.
Qed.
End KFill.

(* ================================================================ (b) the main theorem *)
Theorem fill_solves_every_n (K : CField) (ty : caltype) (n : nat) (e m s : list K) :
  In ty stored_types -> 1 <= n -> length m = n * n ->
  exists m' a b, apply_fill (ops_of K) ty n n e m = Filled m' a b /\
    forall i j, i < n -> j < n ->
      csub (prod_cell K ty n n a s i j) (g (ops_of K) b (i * n + j)) = copp (doc_cell K ty n n e m s i j).
Proof.
  intros Hin _ Hm. unfold apply_fill. rewrite Nat.eqb_refl. cbn [negb andb].
  cbn [stored_types In] in Hin.
  destruct Hin as [<-|[<-|[<-|[<-|[<-|[<-|[<-|[<-|[]]]]]]]]].
  - apply (kf_t8 K T8 n e m s); try reflexivity; exact Hm.
  - apply (kf_u8 K U8 n e m s); try reflexivity; exact Hm.
  - apply (kf_t8 K TE10 n e m s); try reflexivity; exact Hm.
  - apply (kf_u8 K UE10 n e m s); try reflexivity; exact Hm.
  - destruct (kf_t16 K T16 n e m s eq_refl eq_refl eq_refl) as (a & b & H1 & H2). exists m, a, b. split; assumption.
  - destruct (kf_u16 K U16 n e m s eq_refl eq_refl eq_refl eq_refl eq_refl) as (a & b & H1 & H2). exists m, a, b. split; assumption.
  - apply (kf_ue14 K UE14 n e m s); try reflexivity; exact Hm.
  - destruct (kf_e12 K E12 n e m s eq_refl eq_refl eq_refl) as (a & b & H1 & H2). exists m, a, b. split; assumption.
Qed.

(* (a) + (b): the same identity for the matrices computed by the loop-literal model *)
Theorem loop_fill_solves_every_n (K : CField) (ty : caltype) (n : nat) (e m s : list K) :
  In ty stored_types -> 1 <= n -> length m = n * n ->
  let '(m', a, b) := loop_apply_fill (ops_of K) ty n e m in
  forall i j, i < n -> j < n ->
    csub (prod_cell K ty n n a s i j) (g (ops_of K) b (i * n + j)) = copp (doc_cell K ty n n e m s i j).
Proof.
  intros Hin Hn Hm.
  destruct (fill_solves_every_n K ty n e m s Hin Hn Hm) as (m' & a & b & H1 & H2).
  rewrite loop_fill_eq_model in H1.
  destruct (loop_apply_fill (ops_of K) ty n e m) as [[m1 a1] b1].
  injection H1 as -> -> ->. exact H2.
Qed.

(* ================================================================ (c) an instance beyond the old bound *)
Require Import LV.Base.QcI.

(* T8 5x5 at the Gaussian rationals, ideal error terms Ts = Tm = I, Ti = Tx = 0 (so M = S), a device that
   is not symmetric: apply_fill answers Filled, both models agree, the documented expression vanishes
   and the identity of fill_solves_every_n holds at cell (1, 3) with A S = B there. *)
Definition kf_e5 : list qi := repeat (mkqi 1 1 0 1) 5 ++ repeat (mkqi 0 1 0 1) 10 ++ repeat (mkqi 1 1 0 1) 5.
Definition kf_s5 : list qi := map (fun k => mkqi (Z.of_nat k + 1) 2 (Z.of_nat (k * k)) 3) (seq 0 25).

Example fill_solves_n5_nonvacuous :
  In T8 stored_types /\ 1 <= 5 /\ length kf_s5 = 5 * 5 /\
  match apply_fill (ops_of QIF) T8 5 5 kf_e5 kf_s5 with
  | Filled m' a b =>
      loop_apply_fill (ops_of QIF) T8 5 kf_e5 kf_s5 = (m', a, b) /\
      length a = 25 /\ length b = 25 /\
      doc_cell QIF T8 5 5 kf_e5 kf_s5 kf_s5 1 3 = @c0 QIF /\
      csub (prod_cell QIF T8 5 5 a kf_s5 1 3) (g (ops_of QIF) b (1 * 5 + 3)) = copp (doc_cell QIF T8 5 5 kf_e5 kf_s5 kf_s5 1 3) /\
      prod_cell QIF T8 5 5 a kf_s5 1 3 = g (ops_of QIF) b (1 * 5 + 3) /\
      g (ops_of QIF) b (1 * 5 + 3) = mkqi 9 2 64 3
  | _ => False
  end.
Proof.
  split; [vm_compute; tauto|]. split; [lia|]. split; [reflexivity|].
  pose proof (loop_fill_eq_model (ops_of QIF) T8 5 kf_e5 kf_s5) as E.
  destruct (fill_solves_every_n QIF T8 5 kf_e5 kf_s5 kf_s5) as (m' & a & b & H1 & H2);
    [vm_compute; tauto | lia | reflexivity |].
  rewrite H1 in E |- *.
  destruct (loop_apply_fill (ops_of QIF) T8 5 kf_e5 kf_s5) as [[m1 a1] b1] eqn:EL.
  injection E as <- <- <-.
  split; [reflexivity|].
  assert (V : apply_fill (ops_of QIF) T8 5 5 kf_e5 kf_s5 = Filled m' a b) by exact H1.
  vm_compute in V. injection V as <- <- <-.
  split; [reflexivity|]. split; [reflexivity|].
  split; [apply qi_eqb_eq; vm_compute; reflexivity|].
  split; [apply (H2 1 3); lia|].
  split; apply qi_eqb_eq; vm_compute; reflexivity.
Qed.
