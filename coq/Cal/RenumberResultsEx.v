(* C17 renumbering, the hypotheses of RenumberResults can be met: T8 2x2, ports swapped.
   True terms Ts = diag(2, 3), Ti = diag(1/2, 1/3), Tx = 0, Tm = diag(1, 5) (so that the term that lands on the
   unity position after the swap, tm[1] = 5, is not 1); standards: through, (short, i), (i, 1/2), (1/2, short);
   measured values from M = (Ts S + Ti) (Tx S + Tm)^-1. *)
Require Import List ZArith Bool Arith Lia QArith Qcanon.
Require Import LV.Base.CField LV.Base.QcI LV.Lin.MatL LV.Lin.LuModel LV.Lin.LuQI LV.Lin.LuQI2 LV.Lin.LsSpec LV.Lin.LuGenA.
Require Import LV.Gen.LayoutGen LV.Cal.Sym LV.Cal.TermsModel LV.Cal.AddModel LV.Cal.ApplyModel LV.Cal.ApplyProofs
               LV.Cal.ApplyIdentity LV.Cal.ApplyRecovers LV.Cal.SolveSimple LV.Cal.CalQI LV.Cal.SolveRecovers LV.Cal.EndToEnd
               LV.Cal.RenumberModel LV.Cal.RenumberProofs LV.Cal.RenumberResultsModel LV.Cal.RenumberResults.
Require Import LV.SolveCount.DeterminingProofs.
Import ListNotations.
Local Open Scope nat_scope.

Definition rx_q (a b : Z) : qi := mkqi a (Z.to_pos b) 0 1.
Definition rx_xt : list qi := [rx_q 2 1; rx_q 3 1; rx_q 1 2; rx_q 1 3; rx_q 0 1; rx_q 0 1; rx_q 5 1].
Definition rx_pval (h : Z) : qi :=
  if Z.eqb h 1 then rx_q 1 1 else if Z.eqb h 2 then rx_q (-1) 1 else if Z.eqb h 3 then mkqi 0 1 1 1 else rx_q 1 2.
(* M = (Ts S + Ti) Tm^-1 for the true terms above *)
Definition rx_meas (s11 s12 s21 s22 : qi) : list qi :=
  [qi_add (qi_mul (rx_q 2 1) s11) (rx_q 1 2); qi_div (qi_mul (rx_q 2 1) s12) (rx_q 5 1);
   qi_mul (rx_q 3 1) s21; qi_div (qi_add (qi_mul (rx_q 3 1) s22) (rx_q 1 3)) (rx_q 5 1)].
Definition rx_args (diag : bool) (s : list Z) : add_args :=
  mkArgs T8 2 2 false (fun _ => true) false 0 0 2 2 s 2 2 diag (Some [1; 2]%Z).
Definition rx_mv (diag : bool) (s : list Z) (vals : list qi) : mvals qops := mkMV qops (rn_meas (rx_args diag s)) vals.
Definition rx_ms : list (mvals qops) :=
  [rx_mv false [0; 1; 1; 0]%Z (rx_meas qi0 qi1 qi1 qi0);
   rx_mv true [2; 3]%Z (rx_meas (rx_pval 2) qi0 qi0 (rx_pval 3));
   rx_mv true [3; 4]%Z (rx_meas (rx_pval 3) qi0 qi0 (rx_pval 4));
   rx_mv true [4; 2]%Z (rx_meas (rx_pval 4) qi0 qi0 (rx_pval 2))].
Definition rx_ms' : list (mvals qops) := map (renum_mv qops T8 2 sw2 sw2) rx_ms.

Lemma sw2_renum : is_renum 2 sw2 sw2.
Proof. split; intros i Hi; unfold sw2; split; lia. Qed.

Lemma sysok_rows ty mr mc ms pval sys rows x :
  q_solve_system ty mr mc ms pval sys = SysOk rows x -> rows = q_assemble ty mr mc ms pval sys.
Proof.
  unfold q_solve_system, q_assemble. destruct (Nat.ltb _ _); [discriminate|]. destruct (Nat.eqb _ _).
  - destruct (q_mldivide _ _ _ _) as [X d]. destruct (qi_eqb d qi0); [discriminate|]. congruence.
  - destruct (q2_ls_solve _ _ _ _ _); [congruence | discriminate].
Qed.

Definition rows_sat_b (n : nat) (rows : list (list qi * qi)) (x : list qi) : bool :=
  forallb (fun r => qi_eqb (rdot n (fst r) x) (snd r)) rows.
Lemma rows_sat_b_sound n rows x : rows_sat_b n rows x = true -> forall r, In r rows -> rdot n (fst r) x = snd r.
Proof. intros H r Hr. apply qi_eqb_eq. exact (proj1 (forallb_forall _ _) H r Hr). Qed.

(* (a), (b): every hypothesis of renum_solved_terms_lemma holds, and the predicted terms of the renumbered
   calibration are not the original ones (divided by tm[1] = 5 and permuted) *)
Lemma renum_results_example_lemma :
  is_renum 2 sw2 sw2 /\
  (forall mv, In mv rx_ms -> meas_wf T8 2 (mv_meas qops mv)) /\
  length rx_xt = unknowns T8 2 2 /\
  (forall r, In r (q_assemble T8 2 2 rx_ms rx_pval 0) -> rdot (unknowns T8 2 2) (fst r) rx_xt = snd r) /\
  hsat QIF (unity_pos T8 2) (t_terms_of T8 2) (q_assemble T8 2 2 rx_ms rx_pval 0) (full_terms qops T8 2 rx_xt) /\
  unknowns T8 2 2 <= length (q_assemble T8 2 2 rx_ms' rx_pval 0) /\
  kernel_trivial (unknowns T8 2 2) (q_assemble T8 2 2 rx_ms' rx_pval 0) /\
  full_terms qops T8 2 rx_xt (perm_index T8 2 sw2 (unity_pos T8 2)) = rx_q 5 1 /\
  full_terms qops T8 2 rx_xt (perm_index T8 2 sw2 (unity_pos T8 2)) <> q0 /\
  renum_terms QIF T8 2 sw2 rx_xt = [rx_q 3 5; rx_q 2 5; rx_q 1 15; rx_q 1 10; rx_q 0 1; rx_q 0 1; rx_q 1 5] /\
  q_solve_system T8 2 2 rx_ms' rx_pval 0 =
    SysOk (q_assemble T8 2 2 rx_ms' rx_pval 0) (renum_terms QIF T8 2 sw2 rx_xt).
Proof.
  assert (Hwf : forall mv, In mv rx_ms -> meas_wf T8 2 (mv_meas qops mv)).
  { intros mv [<-|[<-|[<-|[<-|[]]]]]; intros e He; vm_compute in He;
      repeat (destruct He as [<-|He]; [split; [cbn; lia|split; [cbn; lia|vm_compute; reflexivity]]|]); destruct He. }
  assert (Hsat : forall r, In r (q_assemble T8 2 2 rx_ms rx_pval 0) -> rdot (unknowns T8 2 2) (fst r) rx_xt = snd r)
    by (apply rows_sat_b_sound; vm_compute; reflexivity).
  assert (Hok : exists x, q_solve_system T8 2 2 rx_ms' rx_pval 0 = SysOk (q_assemble T8 2 2 rx_ms' rx_pval 0) x).
  { destruct (sysres_is_sound (q_solve_system T8 2 2 rx_ms' rx_pval 0)
                (renum_terms QIF T8 2 sw2 rx_xt)) as (rows & E); [vm_compute; reflexivity|].
    exists (renum_terms QIF T8 2 sw2 rx_xt). rewrite E. f_equal. exact (sysok_rows _ _ _ _ _ _ _ _ E). }
  apply (system_ok_iff T8 2 2 rx_ms' rx_pval 0) in Hok. destruct Hok as [Hcnt Hker].
  assert (Hc : full_terms qops T8 2 rx_xt (perm_index T8 2 sw2 (unity_pos T8 2)) = rx_q 5 1)
    by (apply qi_eqb_eq; vm_compute; reflexivity).
  assert (Hc0 : full_terms qops T8 2 rx_xt (perm_index T8 2 sw2 (unity_pos T8 2)) <> q0)
    by (rewrite Hc; intros H; apply (f_equal (fun z => qi_eqb z qi0)) in H; vm_compute in H; discriminate H).
  split; [exact sw2_renum|]. split; [exact Hwf|]. split; [reflexivity|]. split; [exact Hsat|].
  split; [exact (sat_hsat T8 2 eq_refl Nat.lt_0_2 (q_assemble T8 2 2 rx_ms rx_pval 0) rx_xt eq_refl Hsat)|].
  split; [exact Hcnt|]. split; [exact Hker|]. split; [exact Hc|]. split; [exact Hc0|].
  split; [apply qlist_eqb_sound; vm_compute; reflexivity|].
  exact (renum_solved_terms_lemma T8 2 sw2 sw2 rx_pval rx_ms eq_refl sw2_renum Nat.lt_0_2 Hwf rx_xt eq_refl Hsat Hcnt Hker Hc0).
Qed.

(* (c): a non-symmetric device measured with the true terms; the renumbered terms (scaled by 1/5) applied to the
   renumbered measurement return the renumbered S *)
Definition rx_e : list qi := insert_unity qops T8 2 2 0 rx_xt.
Definition rx_e' : list qi := insert_unity qops T8 2 2 0 (renum_terms QIF T8 2 sw2 rx_xt).
Definition rx_s : list qi := [mkqi 1 2 1 3; rx_q 2 1; mkqi 0 1 (-1) 1; rx_q 1 4].
Definition rx_m : list qi := rx_meas (mkqi 1 2 1 3) (rx_q 2 1) (mkqi 0 1 (-1) 1) (rx_q 1 4).

Lemma renum_apply_example_lemma :
  (forall k, k < t_terms_of T8 2 -> g qops rx_e' (perm_index T8 2 sw2 k) = cmul (g qops rx_e k) (rx_q 1 5)) /\
  (forall i j, i < 2 -> j < 2 -> doc_cell QIF T8 2 2 rx_e rx_m rx_s i j = @c0 QIF) /\
  renum_cells 2 sw2 rx_s qi0 <> rx_s /\
  exists a b, q_apply T8 2 2 rx_e' (renum_cells 2 sw2 rx_m qi0) = AOk a b (renum_cells 2 sw2 rx_s qi0).
Proof.
  split.
  { intros k Hk. change (t_terms_of T8 2) with 8 in Hk.
    do 8 (destruct k as [|k]; [apply qi_eqb_eq; vm_compute; reflexivity|]). lia. }
  split.
  { intros i j Hi Hj.
    destruct i as [|[|i]]; [| |lia]; (destruct j as [|[|j]]; [| |lia]); apply qi_eqb_eq; vm_compute; reflexivity. }
  split.
  { intros H. apply (f_equal (fun l => qlist_eqb l rx_s)) in H. vm_compute in H. discriminate H. }
  apply res_is_sound. vm_compute. reflexivity.
Qed.
