(* The hypotheses of LeakPhysical.leak_TE10_lemma are met by a concrete calibration, and its conclusion is
   non-trivial there: a 2 x 2 TE10 calibration at the Gaussian rationals, ideal core network
   (Ts = Tm = 1, Ti = Tx = 0), leakage El12 = 1/4 + i/8, El21 = 1/3, two double-reflect standards entered
   through the model of _vnacal_new_add_common (S = diag(-1, 1/2) and diag(1/2, -1)): both off-diagonal
   cells are sampled twice, the means and the saved leakage terms are El. *)
Require Import List ZArith Bool Arith Lia QArith Qcanon.
Require Import LV.Base.CField LV.Base.QcI LV.Lin.LuGenA.
Require Import LV.Gen.LayoutGen LV.Cal.Sym LV.Cal.TermsModel LV.Cal.AddModel LV.Cal.ApplyModel LV.Cal.SolveSimple
               LV.Cal.LeakProofs LV.Cal.ApplyIdentity LV.Cal.AssembleIdentity LV.Cal.LeakPhysical.
Import ListNotations.
Local Open Scope nat_scope.

Add Field qif_lpx : (cth QIF).
Notation QO := (ops_of QIF).

Definition lx_args (h1 h2 : Z) : add_args :=
  mkArgs TE10 2 2 false (fun _ => true) false 0 0 2 2 [h1; h2] 2 2 true (Some [1; 2]%Z).
Definition lx_meas (h1 h2 : Z) : measurement :=
  match add_common (lx_args h1 h2) with Accepted m => m | _ => mkMeas [] [] None [] end.
Definition lx_pv (h : Z) : qi := if Z.eqb h 3 then mkqi (-1) 1 0 1 else mkqi 1 2 0 1.
Definition lx_el (r c : nat) : qi := if Nat.ltb r c then mkqi 1 4 1 8 else mkqi 1 3 0 1.
Definition lx_fe (k : nat) : qi := if existsb (Nat.eqb k) [0; 1; 6; 7] then qi1 else qi0.
Definition lx_ms : list (mvals QO) :=
  [mkMV QO (lx_meas 3 4) [lx_pv 3; lx_el 0 1; lx_el 1 0; lx_pv 4];
   mkMV QO (lx_meas 4 3) [lx_pv 4; lx_el 0 1; lx_el 1 0; lx_pv 3]].
Definition lx_fx (mv : mvals QO) (k : nat) : qi := qi0.
Definition lx_core (mv : mvals QO) (r c : nat) : qi := if Nat.eqb r c then g QO (mv_m QO mv) (r * 2 + c) else qi0.

Ltac two i Hi := destruct i as [|[|i]]; [| |exfalso; lia].
Ltac qdec := apply qi_eqb_eq; vm_compute; reflexivity.
Ltac keq := match goal with |- @eq _ ?x ?y => change (@eq (F QIF) x y) end.

Lemma lx_kernel mv : In mv lx_ms ->
  left_kernel_trivial QIF 2 (NT QIF 2 (Sof QIF 2 2 lx_pv lx_fx mv) (te_Tx QIF 2 2 lx_fe) (te_Tm QIF 2 2 lx_fe)).
Proof.
  intros Hmv x H k Hk.
  assert (N00 : forall mv', In mv' lx_ms -> forall a j, a < 2 -> j < 2 ->
            NT QIF 2 (Sof QIF 2 2 lx_pv lx_fx mv') (te_Tx QIF 2 2 lx_fe) (te_Tm QIF 2 2 lx_fe) a j
            = if Nat.eqb a j then @c1 QIF else @c0 QIF).
  { intros mv' [<-|[<-|[]]] a j Ha Hj; two a Ha; two j Hj; qdec. }
  pose proof (H k Hk) as E. cbn [sumf] in E.
  rewrite !(N00 mv Hmv) in E by lia.
  two k Hk; cbn [Nat.eqb] in E.
  - transitivity (cadd (cadd c0 (cmul (x 0) c1)) (cmul (x 1) c0)); [keq; ring | exact E].
  - transitivity (cadd (cadd c0 (cmul (x 0) c0)) (cmul (x 1) c1)); [keq; ring | exact E].
Qed.

Example leak_TE10_nonvacuous :
  (forall mv, In mv lx_ms ->
     conn_built QIF 2 2 mv /\ te_network QIF 2 2 lx_fe lx_pv lx_fx lx_core mv /\
     measured_with_leakage QIF 2 2 lx_el lx_core mv) /\
  covered QIF 2 2 lx_el lx_ms /\
  (forall r c, r < 2 -> c < 2 -> r <> c -> exists mv, In mv lx_ms /\ sampled QIF 2 2 mv r c = true) /\
  leak_terms QO TE10 2 2 lx_ms = [mkqi 1 4 1 8; mkqi 1 3 0 1] /\
  length (ms_eqs (lx_meas 3 4)) = 2.
Proof.
  assert (H : forall mv, In mv lx_ms ->
     conn_built QIF 2 2 mv /\ te_network QIF 2 2 lx_fe lx_pv lx_fx lx_core mv /\
     measured_with_leakage QIF 2 2 lx_el lx_core mv).
  { intros mv Hmv. split; [|split; [split|]].
    - destruct Hmv as [<-|[<-|[]]]; vm_compute; reflexivity.
    - intros i j Hi Hj. destruct Hmv as [<-|[<-|[]]]; two i Hi; two j Hj; qdec.
    - exact (lx_kernel mv Hmv).
    - intros r c Hr Hc. destruct Hmv as [<-|[<-|[]]]; two r Hr; two c Hc; qdec. }
  assert (Hcov : covered QIF 2 2 lx_el lx_ms).
  { intros r c Hr Hc Hrc Hn. exfalso. two r Hr; two c Hc; try lia; vm_compute in Hn; discriminate. }
  split; [exact H|]. split; [exact Hcov|]. split; [|split].
  - intros r c Hr Hc Hrc. exists (mkMV QO (lx_meas 3 4) [lx_pv 3; lx_el 0 1; lx_el 1 0; lx_pv 4]).
    split; [left; reflexivity|]. two r Hr; two c Hc; try lia; vm_compute; reflexivity.
  - pose proof (leak_TE10_lemma QIF 2 2 lx_fe lx_el lx_pv lx_ms lx_fx lx_core onat_qif_nonzero (le_n 2) H) as (_ & _ & C).
    destruct (C Hcov) as [C1 _]. rewrite C1. apply (f_equal2 (@cons qi)); [qdec|]. apply (f_equal2 (@cons qi)); [qdec|reflexivity].
  - vm_compute. reflexivity.
Qed.
