(* Symbolic values for the bounded "as coded = specification" theorems: fractions of polynomials with
   integer coefficients over numbered indeterminates, with a normal form.  Two values are equal
   (feqb) when the cross-multiplied numerators have the same normal form, i.e. when they are equal
   as rational functions.  Also: the small interface `Ops' over which the numeric models of the
   calibration core are written, so that the same code runs on a CField and on symbolic values. *)
Require Import List ZArith Bool Arith.
Require Import LV.Base.CField.
Import ListNotations.
Local Open Scope nat_scope.

Record Ops := mkOps {
  T :> Type; o0 : T; o1 : T;
  oadd : T -> T -> T; omul : T -> T -> T; osub : T -> T -> T; oopp : T -> T; odiv : T -> T -> T }.

Definition ops_of (K : CField) : Ops :=
  mkOps K (@c0 K) (@c1 K) (@cadd K) (@cmul K) (@csub K) (@copp K) (@cdiv K).

(* ---------------------------------------------------------------- polynomials *)
Definition mono := list nat.                    (* sorted list of indeterminates, with repetition *)
Definition poly := list (Z * mono).

Fixpoint ins_nat (x : nat) (l : list nat) : list nat :=
  match l with [] => [x] | y :: r => if Nat.leb x y then x :: l else y :: ins_nat x r end.
Definition sort_nat (l : list nat) : list nat := fold_right ins_nat [] l.

Fixpoint mono_cmp (a b : mono) : comparison :=
  match a, b with
  | [], [] => Eq
  | [], _ => Lt
  | _, [] => Gt
  | x :: r, y :: s => match Nat.compare x y with Eq => mono_cmp r s | c => c end
  end.

(* insert a monomial into a list sorted by mono_cmp, adding coefficients of equal monomials *)
Fixpoint ins_mono (c : Z) (m : mono) (p : poly) : poly :=
  match p with
  | [] => [(c, m)]
  | (d, n) :: r =>
      match mono_cmp m n with
      | Eq => ((c + d)%Z, n) :: r
      | Lt => (c, m) :: p
      | Gt => (d, n) :: ins_mono c m r
      end
  end.

Definition pnorm (p : poly) : poly :=
  filter (fun cm => negb (Z.eqb (fst cm) 0))
         (fold_right (fun cm acc => ins_mono (fst cm) (sort_nat (snd cm)) acc) [] p).

Definition pconst (z : Z) : poly := [(z, [])].
Definition pvar (v : nat) : poly := [(1%Z, [v])].
Definition padd (p q : poly) : poly := pnorm (p ++ q).
Definition pneg (p : poly) : poly := map (fun cm => (Z.opp (fst cm), snd cm)) p.
Definition psub (p q : poly) : poly := padd p (pneg q).
Definition pmul (p q : poly) : poly :=
  pnorm (flat_map (fun a => map (fun b => ((fst a * fst b)%Z, snd a ++ snd b)) q) p).

Fixpoint mono_eqb (a b : mono) : bool :=
  match a, b with
  | [], [] => true
  | x :: r, y :: s => andb (Nat.eqb x y) (mono_eqb r s)
  | _, _ => false
  end.
Fixpoint poly_eqb (p q : poly) : bool :=
  match p, q with
  | [], [] => true
  | (c, m) :: r, (d, n) :: s => andb (andb (Z.eqb c d) (mono_eqb m n)) (poly_eqb r s)
  | _, _ => false
  end.
Definition peqb (p q : poly) : bool := poly_eqb (pnorm (psub p q)) [].

(* ---------------------------------------------------------------- fractions *)
Record frac := mkF { fnum : poly; fden : poly }.

Definition fconst (z : Z) : frac := mkF (pconst z) (pconst 1).
Definition fvar (v : nat) : frac := mkF (pvar v) (pconst 1).
Definition is_one (p : poly) : bool := poly_eqb p (pconst 1).
Definition fadd (a b : frac) : frac :=
  if andb (is_one (fden a)) (is_one (fden b)) then mkF (padd (fnum a) (fnum b)) (pconst 1)
  else if poly_eqb (fden a) (fden b) then mkF (padd (fnum a) (fnum b)) (fden a)
  else mkF (padd (pmul (fnum a) (fden b)) (pmul (fnum b) (fden a))) (pmul (fden a) (fden b)).
Definition fopp (a : frac) : frac := mkF (pnorm (pneg (fnum a))) (fden a).
Definition fsub (a b : frac) : frac := fadd a (fopp b).
Definition fmul (a b : frac) : frac := mkF (pmul (fnum a) (fnum b)) (pmul (fden a) (fden b)).
Definition fdiv (a b : frac) : frac := mkF (pmul (fnum a) (fden b)) (pmul (fden a) (fnum b)).
Definition feqb (a b : frac) : bool := peqb (pmul (fnum a) (fden b)) (pmul (fnum b) (fden a)).

Definition sym_ops : Ops := mkOps frac (fconst 0) (fconst 1) fadd fmul fsub fopp fdiv.

(* numbering of the indeterminates *)
Definition v_e (k : nat) : nat := 4 * k.          (* error term k *)
Definition v_m (cell : nat) : nat := 4 * cell + 1.  (* measurement cell *)
Definition v_s (cell : nat) : nat := 4 * cell + 2.  (* S cell *)
Definition v_x (k : nat) : nat := 4 * k + 3.       (* anything else *)

Definition list_feqb (a b : list frac) : bool :=
  andb (Nat.eqb (length a) (length b)) (forallb (fun xy => feqb (fst xy) (snd xy)) (combine a b)).
