(* C17, renumbering of the VNA ports: definitions (no proofs here).

   A renumbering is a function p on 0..n-1 given with its inverse q (as in ConnProofs).  For a calibration
   with mr = mc = n:
     renum_cells   an n x n array by rows with cell (p i, p j) holding what cell (i, j) held;
     renum_meas    the record of a measured standard after the renumbering: *_given, S cells and connectivity
                   permuted cell by cell, every equation (r, c) replaced by the equation (p r, p c) whose terms
                   are REBUILT by the term builders as coded (TermsModel) on the renumbered record;
     perm_index    the permutation the renumbering induces on the error terms of one linear system
                   (T8/TE10/U8/UE10: four vectors of n diagonal terms, element i -> p i;
                    T16/U16: four n x n blocks, cell (i, j) -> (p i, p j));
     hrow          a row (a, b) of SolveSimple.assemble re-expanded to all t_terms columns of the HOMOGENEOUS
                   system: the unity term gets its column back, with coefficient -b. *)
Require Import List ZArith Bool Arith.
Require Import LV.Base.CField LV.Gen.LayoutGen LV.Cal.Sym LV.Cal.TermsModel LV.Cal.AddModel LV.Cal.ApplyModel
               LV.Cal.SolveSimple.
Import ListNotations.
Local Open Scope nat_scope.

Definition renum_cells {A} (n : nat) (q : nat -> nat) (l : list A) (d : A) : list A :=
  map (fun cell => nth (q (cell / n) * n + q (cell mod n)) l d) (seq 0 (n * n)).

(* the context _vnacal_new_add_common hands to the term builders, read back from the record *)
Definition ctx_of_meas (n : nat) (m : measurement) : mctx :=
  mkCtx n n (fun i => nth i (ms_s m) SNull)
        (fun cell => match ms_conn m with None => true | Some cm => getb cm cell end)
        (getb (ms_m_given m)).

(* the items the builder of the type emits (TermsModel.build_terms before `collect') *)
Definition items_of (ty : caltype) (c : mctx) (eq_row eq_column : nat) : list titem :=
  match ty with
  | T8 | TE10 => build_terms_t8 c eq_row eq_column
  | U8 | UE10 => build_terms_u8 c eq_row eq_column
  | T16 => build_terms_t16 c eq_row eq_column
  | U16 => build_terms_u16 c eq_row eq_column
  | UE14 | E12_UE14 => build_terms_ue14 c eq_row eq_column
  | E12 => []
  end.

(* the terms in the order emitted; equal to what `collect' returns when no assert fails *)
Definition terms_of_items (l : list titem) : list term :=
  flat_map (fun it => match it with Tm t => [t] | AssertFail _ => [] end) l.

(* the equation (r, c) becomes the equation (p r, p c), its terms rebuilt on the renumbered record *)
Definition renum_eqn (ty : caltype) (p : nat -> nat) (c' : mctx) (e : equation) : equation :=
  mkEq (p (e_row e)) (p (e_col e)) (terms_of_items (items_of ty c' (p (e_row e)) (p (e_col e)))).

Definition renum_meas (ty : caltype) (n : nat) (p q : nat -> nat) (m : measurement) : measurement :=
  let m0 := mkMeasurement (renum_cells n q (ms_m_given m) false) (renum_cells n q (ms_s m) SNull)
                          (option_map (fun cm => renum_cells n q cm false) (ms_conn m)) [] [] in
  mkMeasurement (ms_m_given m0) (ms_s m0) (ms_conn m0)
    (map (renum_eqn ty p (ctx_of_meas n m0)) (ms_eqs m))
    [].

(* the types covered by the renumbering theorems: one linear system, mr = mc *)
Definition renum_type (ty : caltype) : bool :=
  match ty with T8 | TE10 | U8 | UE10 | T16 | U16 => true | _ => false end.

Definition renum_mv (O : Ops) (ty : caltype) (n : nat) (p q : nat -> nat) (mv : mvals O) : mvals O :=
  mkMV O (renum_meas ty n p q (mv_meas O mv)) (renum_cells n q (mv_m O mv) (o0 O)).

(* a record as _vnacal_new_add_common leaves it: arrays of n*n cells, every equation inside the matrix and
   carrying the terms the builder emits for it *)
Definition meas_wf (ty : caltype) (n : nat) (m : measurement) : Prop :=
  forall e, In e (ms_eqs m) ->
    e_row e < n /\ e_col e < n /\
    build_terms ty (ctx_of_meas n m) (e_row e) (e_col e) = BOk (e_terms e).

Definition perm_index (ty : caltype) (n : nat) (p : nat -> nat) (k : nat) : nat :=
  if is_16 ty then
    let nn := n * n in (k / nn) * nn + (p ((k mod nn) / n) * n + p ((k mod nn) mod n))
  else (k / n) * n + p (k mod n).

(* position of the unity term among the t_terms error terms of the (single) system *)
Definition unity_pos (ty : caltype) (n : nat) : nat :=
  Z.to_nat (vl_unity_offset (layout ty (Z.of_nat n) (Z.of_nat n)) 0).

Definition t_terms_of (ty : caltype) (n : nat) : nat := Z.to_nat (vl_t_terms (layout ty (Z.of_nat n) (Z.of_nat n))).

Definition hrow (O : Ops) (u : nat) (row : list O * O) (k : nat) : O :=
  if Nat.ltb k u then g O (fst row) k
  else if Nat.eqb k u then osub O (o0 O) (snd row)
  else g O (fst row) (k - 1).

(* the error terms of one system with the unity term in its place, as a function of the term number *)
Definition full_terms (O : Ops) (ty : caltype) (n : nat) (x : list O) (k : nat) : O :=
  g O (insert_unity O ty n n 0 x) k.

(* p renumbers 0..n-1 and q is its inverse *)
Definition is_renum (n : nat) (p q : nat -> nat) : Prop :=
  (forall i, i < n -> p i < n /\ q (p i) = i) /\ (forall k, k < n -> q k < n /\ p (q k) = k).
