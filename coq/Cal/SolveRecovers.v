(* solve_recovers_true_terms: what the model of one frequency of vnacal_new_solve (CalQI.q_solve_system,
   q_error_terms: assembly AS CODED by SolveSimple.assemble, then the exact LU / least-squares models)
   returns when some vector xt satisfies every assembled equation -- xt itself, provided the system
   determines it: square systems whenever the solver does not report a zero determinant, tall systems
   under the explicit hypothesis that the coefficient matrix has the trivial kernel.
   For EVERY type, all dimensions, every list of standards, every value of the parameters. *)
Require Import List ZArith Bool Arith Lia QArith Qcanon.
Require Import LV.Base.CField LV.Base.QcI LV.Lin.MatL LV.Lin.LuModel LV.Lin.LuQI LV.Lin.LuQI2 LV.Lin.LuGenA
               LV.Lin.LuProofs LV.Lin.LsSpec LV.Lin.LsProofs.
Require Import LV.Gen.LayoutGen LV.Cal.Sym LV.Cal.TermsModel LV.Cal.AddModel LV.Cal.ApplyModel LV.Cal.SolveSimple
               LV.Cal.LinUnique LV.Cal.CalQI.
Import ListNotations.
Local Open Scope nat_scope.

Notation q0 := (@c0 QIF).
Notation qmul := (@cmul QIF).
Notation qsub := (@csub QIF).
Notation qadd := (@cadd QIF).

(* sum_k a_k x_k over the unknowns *)
Definition rdot (n : nat) (a x : list qi) : qi := @sumf QIF n (fun k => qmul (nth k a q0) (nth k x q0)).

Definition kernel_trivial (n : nat) (rows : list (list qi * qi)) : Prop :=
  forall v : nat -> qi,
    (forall r, In r rows -> @sumf QIF n (fun k => qmul (nth k (fst r) q0) (v k)) = q0) ->
    forall k, k < n -> v k = q0.

(* ---------------------------------------------------------------- shape of the assembled rows *)
Lemma updl_length {A} (l : list A) i x : length (updl l i x) = length l.
Proof. revert i; induction l as [|y l IH]; intros [|i]; cbn; try reflexivity. rewrite IH. reflexivity. Qed.

Lemma row_of_length (O : Ops) ty mr mc pval ms ie :
  length (fst (row_of O ty mr mc pval ms ie)) = unknowns ty mr mc.
Proof.
  unfold row_of. destruct ie as [i e].
  apply (fold_inv (fun ab : list O * O => length (fst ab) = unknowns ty mr mc)).
  - intros ab t H.
    destruct (negb (t_nov (v_columns_of ty mr mc) t)); [exact H|].
    cbv zeta.
    destruct (Z.ltb (t_x t) 0); cbn [fst]; [exact H|].
    rewrite updl_length. exact H.
  - cbn [fst]. apply repeat_length.
Qed.

Lemma assemble_rows_length (O : Ops) ty mr mc pval ms sys r :
  In r (assemble O ty mr mc pval ms sys) -> length (fst r) = unknowns ty mr mc.
Proof. unfold assemble. intros H. apply in_map_iff in H. destruct H as (ie & <- & _). apply row_of_length. Qed.

(* ---------------------------------------------------------------- list lemmas *)
Lemma lt_eq_r (i a b : nat) : i < b -> a = b -> i < a.
Proof. intros H E; rewrite E; exact H. Qed.

Lemma nth_map_dflt {A B} (f : A -> B) (l : list A) (d : A) (d' : B) (i : nat) :
  i < length l -> nth i (map f l) d' = f (nth i l d).
Proof.
  revert i. induction l as [|y l IH]; intros i H; cbn in H; [lia|].
  destruct i as [|i]; cbn; [reflexivity | apply IH; lia].
Qed.

Lemma nth_map_fst_rows (rows : list (list qi * qi)) i : i < length rows ->
  nth i (map fst rows) [] = fst (nth i rows ([], q0)).
Proof. intros H. apply nth_map_dflt. exact H. Qed.

Lemma mget_rows (rows : list (list qi * qi)) i k : i < length rows ->
  mget QIF (map fst rows) i k = nth k (fst (nth i rows ([], q0))) q0.
Proof. intros H. unfold mget, mrow. rewrite nth_map_fst_rows by exact H. reflexivity. Qed.

Lemma mget_rhs (rows : list (list qi * qi)) i : i < length rows ->
  mget QIF (map (fun r => [snd r]) rows) i 0 = snd (nth i rows ([], q0)).
Proof.
  intros H. unfold mget, mrow. rewrite (nth_map_dflt _ rows ([], q0)) by exact H. reflexivity.
Qed.

Lemma wf_rows (n : nat) (rows : list (list qi * qi)) :
  (forall r, In r rows -> length (fst r) = n) -> @wf QIF (length rows) n (map fst rows).
Proof.
  intros H. split; [apply map_length|]. apply Forall_forall. intros row Hr.
  apply in_map_iff in Hr. destruct Hr as (r & <- & Hr). exact (H r Hr).
Qed.

Lemma wf_rhs (rows : list (list qi * qi)) : @wf QIF (length rows) 1 (map (fun r => [snd r]) rows).
Proof.
  split; [apply map_length|]. apply Forall_forall. intros row Hr.
  apply in_map_iff in Hr. destruct Hr as (r & <- & _). reflexivity.
Qed.

Lemma sumf_sub_q (n : nat) (f h : nat -> qi) :
  @sumf QIF n (fun k => qsub (f k) (h k)) = qsub (@sumf QIF n f) (@sumf QIF n h).
Proof. exact (sumf_sub' QIF n f h). Qed.

Lemma q_sub_zero (x y : QIF) : qsub x y = q0 -> x = y.
Proof.
  intros H. assert (E : x = qadd (qsub x y) y) by (destruct x, y; apply qi_eq; cbn; ring).
  rewrite E, H. destruct y; apply qi_eq; cbn; ring.
Qed.

Lemma q_sub_self (x : QIF) : qsub x x = q0.
Proof. destruct x; apply qi_eq; cbn; ring. Qed.

Lemma q_mul_sub (a x y : QIF) : qmul a (qsub x y) = qsub (qmul a x) (qmul a y).
Proof. destruct a, x, y; apply qi_eq; cbn; ring. Qed.

(* ---------------------------------------------------------------- the least-squares result has n rows *)
Lemma gj_fold_length (n : nat) (l : list nat) :
  forall st rows, fold_left (gj_step QIF qi_isz n) l st = Some rows ->
    match st with Some r0 => l = [] /\ rows = r0 \/ length rows = n | None => False end.
Proof.
  induction l as [|c l IH]; intros st rows H; cbn in H.
  - destruct st as [r0|]; [left; split; [reflexivity | congruence] | discriminate].
  - specialize (IH _ _ H).
    destruct st as [r0|]; cbn [gj_step] in IH |- *; [|exact IH].
    destruct (find _ _) as [p|]; [|contradiction].
    right. destruct IH as [[-> ->]|IH]; [|exact IH].
    rewrite map_length, seq_length. reflexivity.
Qed.

Lemma ls_solve_length (m n : nat) (a b x : mat QIF) : q2_ls_solve m n 1 a b = Some x -> length x = n.
Proof.
  unfold q2_ls_solve, ls_solve. destruct (gj_solve QIF qi_isz n 1 _ _) as [y|] eqn:E; [|discriminate].
  destruct (mat_eqb _ _ _ _ _ _); [|discriminate]. intros H; injection H as <-.
  unfold gj_solve in E.
  destruct (fold_left _ _ _) as [rows|] eqn:EF; [|discriminate]. injection E as <-.
  rewrite map_length.
  pose proof (gj_fold_length n (seq 0 n) _ _ EF) as [[Hs ->]|Hl]; [|exact Hl].
  rewrite map_length, seq_length. reflexivity.
Qed.

(* ---------------------------------------------------------------- one system *)
Theorem solve_system_recovers_lemma ty mr mc (ms : list (mvals qops)) (pval : Z -> qi) (sys : nat)
        (rows : list (list qi * qi)) (x xt : list qi) :
  q_solve_system ty mr mc ms pval sys = SysOk rows x ->
  let n := unknowns ty mr mc in
  length xt = n ->
  (forall r, In r rows -> rdot n (fst r) xt = snd r) ->
  (n < length rows -> kernel_trivial n rows) ->
  rows = q_assemble ty mr mc ms pval sys /\ x = xt.
Proof.
  intros Hq n Hxt Hsat Hker.
  unfold q_solve_system in Hq. fold n in Hq.
  set (rws := assemble qops ty mr mc pval ms sys) in *.
  assert (Hlen : forall r, In r rws -> length (fst r) = n)
    by (intros r Hr; exact (assemble_rows_length qops ty mr mc pval ms sys r Hr)).
  destruct (Nat.ltb (length rws) n) eqn:E1; [discriminate|].
  apply Nat.ltb_ge in E1.
  change (map (fun r : list qops * qops => [snd r]) rws) with (map (fun r : list qi * qi => [snd r]) rws) in Hq.
  set (A := map fst rws) in *. set (B := map (fun r : list qi * qi => [snd r]) rws) in *.
  (* common end: a matrix X with A X = B, n rows, and a trivial kernel *)
  assert (Fin : forall X : mat QIF, length X = n ->
            (forall i, i < length rws -> mget QIF (mmul QIF (length rws) n 1 A X) i 0 = mget QIF B i 0) ->
            kernel_trivial n rws -> rws = rows -> map (fun r => nth 0 r qi0) X = xt).
  { intros X HX HAX Hk Hr. subst rows.
    apply (nth_ext _ _ q0 q0); [rewrite map_length; transitivity n; [exact HX | symmetry; exact Hxt]|].
    rewrite map_length. intros k Hk'.
    rewrite (nth_map_dflt _ X []) by exact Hk'.
    change (nth 0 (nth k X []) qi0) with (mget QIF X k 0).
    apply q_sub_zero.
    apply (Hk (fun k => qsub (mget QIF X k 0) (nth k xt q0))); [|rewrite <- HX; exact Hk'].
    intros r Hr. destruct (In_nth _ _ ([], q0) Hr) as (i & Hi & Er). pose proof (Hsat r Hr) as Hsr.
    transitivity (qsub (@sumf QIF n (fun k0 => qmul (nth k0 (fst r) q0) (mget QIF X k0 0)))
                       (@sumf QIF n (fun k0 => qmul (nth k0 (fst r) q0) (nth k0 xt q0)))).
    { rewrite <- sumf_sub_q. apply sumf_ext. intros k0 _. apply q_mul_sub. }
    pose proof (HAX i Hi) as E. rewrite mget_mmul in E by (try exact Hi; auto with arith).
    unfold B in E. rewrite mget_rhs in E by exact Hi.
    rewrite (sumf_ext QIF n _ (fun t => qmul (nth t (fst r) q0) (mget QIF X t 0))) in E
      by (intros t _; f_equal; unfold A; rewrite mget_rows by exact Hi; exact (f_equal (fun z : list qi * qi => nth t (fst z) q0) Er)).
    rewrite E. unfold rdot in Hsr. rewrite Hsr. transitivity (qsub (snd r) (snd r)); [|apply q_sub_self].
    f_equal. exact (f_equal snd Er). }
  destruct (Nat.eqb (length rws) n) eqn:E2.
  - apply Nat.eqb_eq in E2.
    destruct (q_mldivide A B n 1) as [X d] eqn:EX.
    destruct (qi_eqb d qi0) eqn:Ed; [discriminate|].
    injection Hq as Hr Hx. split; [symmetry; exact Hr|]. subst x.
    assert (HwA : @wf QIF n n A) by (unfold A; rewrite <- E2 at 1; apply wf_rows; exact Hlen).
    assert (HwB : @wf QIF n 1 B) by (unfold B; rewrite <- E2; apply wf_rhs).
    assert (Hd : lu_d QIF Qc (q_lu A n) <> q0).
    { apply qi_neqb in Ed. intro Hz. apply Ed.
      change d with (snd (X, d)). rewrite <- EX. exact Hz. }
    assert (Hp : pivots_nonzero QIF Qc qi_nrm Qcmult Qc_ltb 0%Qc row_scale_of_max A n)
      by (apply det_nonzero_pivots; assumption).
    assert (EXf : X = fst (q_mldivide A B n 1)) by (rewrite EX; reflexivity).
    apply Fin.
    + pose proof (wf_mldivide QIF Qc qi_nrm Qcmult Qc_ltb 0%Qc row_scale_of_max A B n 1) as [HwX _].
      change (mldivide QIF Qc qi_nrm Qcmult Qc_ltb 0%Qc row_scale_of_max) with q_mldivide in HwX.
      rewrite EX in HwX. exact HwX.
    + intros i Hi. rewrite E2 in *.
      destruct (lu_solves QIF Qc qi_nrm Qcmult Qc_ltb 0%Qc row_scale_of_max n A HwA Hp) as (H1 & _).
      rewrite EXf. apply (H1 1 B HwB i 0 Hi). lia.
    + (* a square system with non-zero pivots has the trivial kernel *)
      intros v Hv k Hk.
      apply (lu_kernel_trivial QIF Qc qi_nrm Qcmult Qc_ltb 0%Qc row_scale_of_max A n HwA Hp v); [|exact Hk].
      intros i Hi. rewrite <- (Hv (nth i rws ([], q0))) by (apply nth_In; lia).
      apply sumf_ext. intros t _. unfold A. rewrite mget_rows by exact (lt_eq_r _ _ _ Hi E2). reflexivity.
    + exact Hr.
  - apply Nat.eqb_neq in E2.
    destruct (q2_ls_solve (length rws) n 1 A B) as [X|] eqn:EX; [|discriminate].
    injection Hq as Hr Hx. split; [symmetry; exact Hr|]. subst x.
    apply Fin.
    + exact (ls_solve_length _ _ _ _ _ EX).
    + intros i Hi.
      apply (ls_solve_consistent_exact (length rws) n 1 A B X EX); [|exact Hi|lia].
      exists (map (fun v => [v]) xt). intros i0 k0 Hi0 Hk0.
      assert (k0 = 0) by lia; subst k0.
      rewrite mget_mmul by lia. unfold B. rewrite mget_rhs by exact Hi0.
      assert (Hin : In (nth i0 rws (([], q0) : list qi * qi)) rows) by (rewrite <- Hr; apply nth_In; exact Hi0).
      etransitivity; [|exact (Hsat _ Hin)].
      unfold rdot. apply sumf_ext. intros t Ht. unfold A. rewrite mget_rows by exact Hi0.
      f_equal. unfold mget, mrow. rewrite (nth_map_dflt _ xt q0) by (rewrite Hxt; exact Ht). reflexivity.
    + rewrite Hr. apply Hker. rewrite <- Hr. apply Nat.le_neq. split; [exact E1 | intro Hc; apply E2; symmetry; exact Hc].
    + exact Hr.
Qed.

(* ---------------------------------------------------------------- all systems: the saved vector *)
Definition sys_x (r : sys_res) : list qi := match r with SysOk _ x => x | _ => [] end.

Theorem error_terms_recover_lemma ty mr mc (ms : list (mvals qops)) (pval : Z -> qi)
        (xs_true : list (list qi)) (e : list qi) :
  let n := unknowns ty mr mc in
  let nsys := systems_of ty mc in
  length xs_true = nsys ->
  (forall sys, sys < nsys ->
     let xt := nth sys xs_true [] in
     let rows := q_assemble ty mr mc ms pval sys in
     length xt = n /\ (forall r, In r rows -> rdot n (fst r) xt = snd r) /\
     (n < length rows -> kernel_trivial n rows)) ->
  q_error_terms ty mr mc ms pval = Some e ->
  e = (if caltype_eqb ty E12_UE14 then convert_ue14_to_e12 qops mr mc (e_vector qops ty mr mc ms xs_true)
       else e_vector qops ty mr mc ms xs_true).
Proof.
  intros n nsys Hl Hsys Hq. unfold q_error_terms in Hq. fold nsys in Hq.
  destruct (forallb _ _) eqn:Hall; [|discriminate]. injection Hq as <-.
  rewrite forallb_forall in Hall.
  assert (E : map (fun r => match r with SysOk _ x => x | _ => [] end)
                  (map (q_solve_system ty mr mc ms pval) (seq 0 nsys)) = xs_true).
  { rewrite map_map.
    apply (nth_ext _ _ [] []); [rewrite map_length, seq_length; congruence|].
    rewrite map_length, seq_length. intros sys Hs.
    rewrite (nth_map_dflt _ (seq 0 nsys) 0) by (rewrite seq_length; exact Hs).
    rewrite seq_nth by exact Hs. cbn [Nat.add].
    specialize (Hall (q_solve_system ty mr mc ms pval sys)
                     (in_map _ _ _ (proj2 (in_seq nsys 0 sys) (conj (Nat.le_0_l _) Hs)))).
    destruct (q_solve_system ty mr mc ms pval sys) as [rows x| |] eqn:Es; try discriminate.
    destruct (Hsys sys Hs) as (H1 & H2 & H3).
    destruct (solve_system_recovers_lemma ty mr mc ms pval sys rows x _ Es H1) as [Hr Hx].
    - intros r Hr. apply H2.
      assert (Er : rows = q_assemble ty mr mc ms pval sys).
      { unfold q_solve_system in Es. unfold q_assemble.
        destruct (Nat.ltb _ _); [discriminate|]. destruct (Nat.eqb _ _).
        - destruct (q_mldivide _ _ _ _) as [X d]. destruct (qi_eqb d qi0); [discriminate|]. congruence.
        - destruct (q2_ls_solve _ _ _ _ _); [congruence | discriminate]. }
      rewrite <- Er. exact Hr.
    - intros Hn. assert (Er : rows = q_assemble ty mr mc ms pval sys).
      { unfold q_solve_system in Es. unfold q_assemble.
        destruct (Nat.ltb _ _); [discriminate|]. destruct (Nat.eqb _ _).
        - destruct (q_mldivide _ _ _ _) as [X d]. destruct (qi_eqb d qi0); [discriminate|]. congruence.
        - destruct (q2_ls_solve _ _ _ _ _); [congruence | discriminate]. }
      rewrite Er. apply H3. rewrite <- Er. exact Hn.
    - exact Hx. }
  rewrite E. reflexivity.
Qed.

(* ---------------------------------------------------------------- length of the saved vector *)
Lemma insert_unity_length (O : Ops) ty mr mc sys (x : list O) :
  length (insert_unity O ty mr mc sys x) = S (length x).
Proof.
  unfold insert_unity. rewrite !app_length. cbn [length].
  rewrite <- (firstn_skipn (Z.to_nat (vl_unity_offset (layout ty (Z.of_nat mr) (Z.of_nat mc)) (Z.of_nat sys))) x) at 3.
  rewrite app_length. lia.
Qed.

Lemma e_vector_length (O : Ops) ty mr mc ms (xs : list (list O)) (u : nat) :
  (forall x, In x xs -> length x = u) ->
  length (e_vector O ty mr mc ms xs) = length xs * S u + length (leak_terms O ty mr mc ms).
Proof.
  intros H. unfold e_vector. rewrite app_length. f_equal.
  generalize 0 as a. induction xs as [|x xs IH]; intros a; [reflexivity|].
  cbn [length seq combine map concat fst snd]. rewrite app_length, insert_unity_length.
  rewrite (H x (or_introl eq_refl)). rewrite IH by (intros y Hy; apply H; right; exact Hy). reflexivity.
Qed.

Lemma leak_terms_length (O : Ops) ty mr mc ms :
  length (leak_terms O ty mr mc ms) =
  if has_outside_leakage ty then length (offdiag_cells mr mc) else 0.
Proof. unfold leak_terms. destruct (has_outside_leakage ty); [apply map_length | reflexivity]. Qed.
