(* apply_model_recovers_S for EVERY square dimension n: the model of _vnacal_apply_common at one frequency
   (CalQI.q_apply: the fill functions as coded, then the exact LU model of A \ B resp. B / A, at the
   Gaussian rationals) returns the device's S whenever the measurement satisfies the documented equation
   with the error terms and the solver does not report a zero determinant.  All stored types, every n,
   all error terms, all measurements, all S.  Same proof as ApplyRecovers.apply_model_recovers_S_lemma
   with FillLoopsProofs.fill_solves_every_n in place of the bounded fill_solves_lemma. *)
Require Import List ZArith Bool Arith Lia QArith Qcanon.
Require Import LV.Base.CField LV.Base.QcI LV.Lin.MatL LV.Lin.LuModel LV.Lin.LuQI LV.Lin.LuGenA LV.Lin.LuProofs.
Require Import LV.Gen.LayoutGen LV.Cal.Sym LV.Cal.ApplyModel LV.Cal.ApplyProofs LV.Cal.ApplyIdentity
               LV.Cal.LinUnique LV.Cal.CalQI LV.Cal.ApplyRecovers LV.Cal.FillLoops LV.Cal.FillLoopsProofs.
Import ListNotations.
Local Open Scope nat_scope.

Theorem apply_model_recovers_S_every_n (ty : caltype) (n : nat) (e m s : list qi) :
  In ty stored_types -> 1 <= n -> length m = n * n -> length s = n * n ->
  (forall i j, i < n -> j < n -> doc_cell QIF ty n n e m s i j = @c0 QIF) ->
  forall a b x, q_apply ty n n e m = AOk a b x -> x = s.
Proof.
  intros Hin Hn Hm Hs Hdoc a b x Hq.
  destruct (fill_solves_every_n QIF ty n e m s Hin Hn Hm) as (m' & a0 & b0 & Hf & Hid).
  unfold q_apply in Hq. rewrite Nat.max_id in Hq. change qops with (ops_of QIF) in Hq. rewrite Hf in Hq.
  assert (Hcell : forall i j, i < n -> j < n ->
            prod_cell QIF ty n n a0 s i j = nth (i * n + j) b0 (@c0 QIF)).
  { intros i j Hi Hj. apply csub_zero_eq. pose proof (Hid i j Hi Hj) as E. rewrite (Hdoc i j Hi Hj) in E. exact E. }
  unfold prod_cell in Hcell. rewrite Nat.max_id in Hcell.
  destruct (VNACAL_IS_T ty) eqn:ET.
  - destruct (q_mldivide (munflat QIF n n a0) (munflat QIF n n b0) n n) as [X d] eqn:EX.
    destruct (qi_eqb d qi0) eqn:Ed; [discriminate|].
    injection Hq as <- <- <-.
    pose proof (mldivide_unique QIF Qc qi_nrm Qcmult Qc_ltb 0%Qc row_scale_of_max n a0 b0 s Hs) as U.
    cbv zeta in U. change (mldivide QIF Qc qi_nrm Qcmult Qc_ltb 0%Qc row_scale_of_max) with q_mldivide in U.
    rewrite EX in U. cbn [fst snd] in U. apply U.
    + intros i j Hi Hj. etransitivity; [|exact (Hcell i j Hi Hj)]. symmetry. apply sumk_sumf.
    + apply qi_neqb. exact Ed.
  - destruct (q_mrdivide (munflat QIF n n b0) (munflat QIF n n a0) n n) as [X d] eqn:EX.
    destruct (qi_eqb d qi0) eqn:Ed; [discriminate|].
    injection Hq as <- <- <-.
    pose proof (mrdivide_unique QIF Qc qi_nrm Qcmult Qc_ltb 0%Qc row_scale_of_max n a0 b0 s Hs) as U.
    cbv zeta in U. change (mrdivide QIF Qc qi_nrm Qcmult Qc_ltb 0%Qc row_scale_of_max) with q_mrdivide in U.
    rewrite EX in U. cbn [fst snd] in U. apply U.
    + intros i j Hi Hj. etransitivity; [|exact (Hcell i j Hi Hj)]. symmetry. apply sumk_sumf.
    + apply qi_neqb. exact Ed.
Qed.

(* the hypotheses can be met beyond the old bound: T8 5x5, ideal error terms (M = S), the device kf_s5 *)
Example apply_model_recovers_S_n5_nonvacuous :
  (forall i j, i < 5 -> j < 5 -> doc_cell QIF T8 5 5 kf_e5 kf_s5 kf_s5 i j = @c0 QIF) /\
  exists a b, q_apply T8 5 5 kf_e5 kf_s5 = AOk a b kf_s5.
Proof.
  split.
  - intros i j Hi Hj.
    do 5 (destruct i as [|i]; [do 5 (destruct j as [|j]; [apply qi_eqb_eq; vm_compute; reflexivity|]); lia|]); lia.
  - apply res_is_sound. vm_compute. reflexivity.
Qed.
