(* C17 - equivalent ways of describing the same calibration give the same result: the theorems.
   See docs/design_C17.md (what is proved on the model AddModel, what is matrix algebra only, what is
   tested only).  Nothing here speaks about binary64 rounding. *)
Require Import ZArith List Sorted Permutation.
Require Import LV.Gen.LayoutGen LV.Cal.TermsModel LV.Cal.AddModel LV.Cal.TermsProofs LV.Cal.C17Proofs.
Import ListNotations.

(* ---------------------------------------------------------------------------------- entry points *)
(* through p1 p2, line (0,1;1,0) p1 p2 and the mapped matrix [0 1; 1 0] with map {p1, p2} hand the same
   argument structure to _vnacal_new_add_common: identical outcome for all arguments.  BY CONSTRUCTION:
   the three model entry points are transcriptions of the three C wrappers and the statement holds by
   unfolding them; its content is the tie of these definitions to the C wrappers (check C17,
   "entry points" correspondence: the extracted add_through / add_line / add_mapped_matrix against
   vnacal_new_add_through / _line / _mapped_matrix). *)
Theorem through_eq_line_eq_mapped_by_construction :
  forall ty mr mc merr valid a_given a_rows a_cols b_rows b_cols port1 port2,
    add_through ty mr mc merr valid a_given a_rows a_cols b_rows b_cols port1 port2
    = add_line ty mr mc merr valid a_given a_rows a_cols b_rows b_cols 0 1 1 0 port1 port2
    /\
    add_through ty mr mc merr valid a_given a_rows a_cols b_rows b_cols port1 port2
    = add_mapped_matrix ty mr mc merr valid a_given a_rows a_cols b_rows b_cols
        [0; 1; 1; 0]%Z 2 2 (Some [port1; port2]).
Proof. exact through_eq_line_eq_mapped_lemma. Qed.
Print Assumptions through_eq_line_eq_mapped_by_construction.

(* ---------------------------------------------------------------------------------- the sorted port map *)
(* the model of the qsort of m_port_map sorts: ascending, same elements (all lists) *)
Theorem sort_z_sorts : forall l, Sorted Z.le (sort_z l) /\ Permutation l (sort_z l).
Proof. exact sort_z_sorts_lemma. Qed.
Print Assumptions sort_z_sorts.

(* For ALL arguments of _vnacal_new_add_common (model): if the same standard is entered with its ports
   listed in another order (mp' a permutation of the ports used of mp; S cells s' whatever they are) and
   both calls are accepted, the cell of vnm_m_matrix that every cell of the caller's measurement matrix
   is stored in is the same: the rows / columns of an (abbreviated) M matrix follow the VNA ports in
   ascending order, not the order of the map.  (Fails when the sort is replaced by the identity.) *)
Theorem port_order_irrelevant_for_m_cells : forall a mp mp' s' m m',
  aa_map a = Some mp ->
  Permutation (map_ports a) (map_ports (with_map_s a mp' s')) ->
  add_common a = Accepted m ->
  add_common (with_map_s a mp' s') = Accepted m' ->
  ms_m_cells m' = ms_m_cells m.
Proof. exact port_order_irrelevant_for_m_cells_lemma. Qed.
Print Assumptions port_order_irrelevant_for_m_cells.

(* the hypotheses are met by a non-trivial pair: ports 4,2,1 and 1,2,4 of a 4 x 4 T8 calibration with a
   3 x 3 measurement matrix; both accepted, the map is the ascending one and differs from the order given *)
Example port_order_irrelevant_nonvacuous :
  let a := x_args (mkX T8 4 4 [4; 2; 1] (SFull 0) false false) 3 3 in
  let mp' := [1; 2; 4]%Z in
  aa_map a = Some [4; 2; 1]%Z /\
  Permutation (map_ports a) (map_ports (with_map_s a mp' (aa_s a))) /\
  (exists m m', add_common a = Accepted m /\ add_common (with_map_s a mp' (aa_s a)) = Accepted m' /\
                ms_m_cells m = [0; 1; 3; 4; 5; 7; 12; 13; 15]%nat /\ ms_m_cells m' = ms_m_cells m).
Proof. exact port_order_irrelevant_nonvacuous_lemma. Qed.

(* ---------------------------------------------------------------------------------- full vs abbreviated *)
(* BOUNDED SWEEP (the bound is sweep_cfgs, 10000 configurations x the shapes (k, mc), (mr, k), (k, k), k the
   number of ports of the standard), decided by vm_compute in the kernel:
     the 8 layout types (E12 as E12_UE14), dimensions 1..4 x 1..4 the type allows, square S only, and
     A  every non-empty set of VNA ports in EVERY order (2480), all S cells parameters;
     B  ascending / descending / rotated port maps x {every off-diagonal cell zero and a match, zero above the
        diagonal, non-zero only at S24 S31 S32 (non-reciprocal), diagonal form vnaa_s_is_diagonal} (5408);
     C  descending maps x {m_error set, a matrix given, both} (2112).
   RESTRICTIONS: no rectangular S (T16 / U16 partial S), no unknown-parameter distinction (the model has
   none), every parameter handle valid, a matrix of the accepted dimensions only.
   For every configuration (check_x):
   * the full call is accepted, unless m_error is set on T16 / U16 and the standard has fewer ports than the
     VNA - then every shape is refused too;
   * a shape is accepted EXACTLY when shape_allowed says so (written from vnacal_new_add_*(3) and the D48
     repair, independent of the model), never aborts;
   * where accepted: the values of the caller's matrix - read as the rows / columns of the standard's ports in
     ASCENDING order (denoted_cells, written with a filter, not with the sort) - are stored by the copy loop
     store_m in exactly the cells of vnm_m_matrix in which the full call stores them, and exactly those cells
     are marked given; vnm_s_matrix and the connectivity matrix are those of the full call;
   * every equation of the abbreviated call is an equation of the full call with the identical term list;
     for the 6 types other than T16 / U16 the two equation lists are EQUAL.  For T16 / U16: INCLUSION ONLY
     (the full matrix adds the rows / columns that carry the in-system leakage terms). *)
Theorem abbreviated_agrees_with_full_swept : forall c, In c sweep_cfgs -> check_x c = true.
Proof. exact abbreviated_agrees_with_full_swept_lemma. Qed.
Print Assumptions abbreviated_agrees_with_full_swept.

(* ---------------------------------------------------------------------------------- order of the standards *)
(* For ALL lists of vnacal_new_add_* calls (any arguments, accepted or refused) and every linear system:
   making the same calls in another order yields the same measurements and the same rows
   (measurement, equation with its terms) of the system, in another order.  This is the model-level half of
   "the order of the standards does not matter"; the algebra half is order_irrelevant_*_algebra below.
   (The link between a Permutation of this list and a row_perm of the coefficient matrix is not formalised.) *)
Theorem add_order_permutes_rows : forall ty sys l l',
  Permutation l l' ->
  Permutation (add_all l) (add_all l') /\
  Permutation (system_rows ty (add_all l) sys) (system_rows ty (add_all l') sys).
Proof. exact add_order_permutes_rows_lemma. Qed.
Print Assumptions add_order_permutes_rows.

(* ... and on the EXECUTABLE numeric models (Cal/SolveSimple.v assembly as coded, Cal/CalQI.v: the exact LU model
   of C19 for square systems, the normal-equation oracle LsSpec.ls_solve for over-determined ones), at the
   Gaussian rationals: for EVERY type, all dimensions, every parameter valuation, every list of measured
   standards ms and EVERY permutation ms' of it,
     * every linear system gets the same verdict (insufficient / singular / solved), its assembled rows
       (coefficients and right-hand side, leakage means subtracted) are permuted, and the solution is EQUAL:
       tall systems because A^H A and A^H b are equal (a sum over the rows: OrderProofs.normal_equations_perm);
       square systems because the determinant reported by the LU model is zero for both orders or for neither
       and a non-zero determinant means a unique solution (C19: lu_solves, lu_kernel_trivial,
       q_lu_c_outcome) -- the pivot sequences may differ;
     * the saved error-term vector (unity terms, leakage terms, E12 conversion) is equal.
   Exact arithmetic; the C code solves tall systems by QR, not by normal equations (C19 compares them
   numerically); unknown-parameter (iterative) solving and m_error weights are not in this model. *)
Require Import LV.Base.QcI LV.Cal.Sym LV.Cal.SolveSimple LV.Cal.CalQI LV.Cal.SolveRecovers LV.Cal.EndToEnd LV.Cal.OrderProofs.
Theorem c17_order_irrelevant_model : forall ty mr mc (pval : Z -> qi) (ms ms' : list (mvals qops)),
  Permutation ms ms' ->
  (forall sys, sys_equiv (q_solve_system ty mr mc ms pval sys) (q_solve_system ty mr mc ms' pval sys)) /\
  q_error_terms ty mr mc ms pval = q_error_terms ty mr mc ms' pval.
Proof. exact c17_order_irrelevant_model_lemma. Qed.
Print Assumptions c17_order_irrelevant_model.

(* composed with the add model: the same vnacal_new_add_* calls (arguments and measured values, accepted or
   refused) made in another order give the same saved error terms *)
Theorem c17_order_irrelevant_calls : forall ty mr mc (pval : Z -> qi) (l l' : list (add_args * list qi)),
  Permutation l l' ->
  q_error_terms ty mr mc (measure_all l) pval = q_error_terms ty mr mc (measure_all l') pval.
Proof. exact c17_order_irrelevant_calls_lemma. Qed.
Print Assumptions c17_order_irrelevant_calls.

(* not vacuous: one-port T8, three reflects (square, LU) and four reflects (tall, normal equations) in reverse
   order: different systems, same error terms *)
Example c17_order_irrelevant_model_example :
  Permutation ex_ms (rev ex_ms) /\
  map snd (q_assemble T8 1 1 (rev ex_ms) ex_pval 0) <> map snd (q_assemble T8 1 1 ex_ms ex_pval 0) /\
  q_error_terms T8 1 1 (rev ex_ms) ex_pval = Some (true_terms T8 1 1 ex_ms ex_xs) /\
  length (q_assemble T8 1 1 ex_ms4 ex_pval4 0) = 4%nat /\
  is_some_terms (q_error_terms T8 1 1 ex_ms4 ex_pval4) = true /\
  q_error_terms T8 1 1 (rev ex_ms4) ex_pval4 = q_error_terms T8 1 1 ex_ms4 ex_pval4.
Proof. exact c17_order_irrelevant_model_example_lemma. Qed.

(* ---------------------------------------------------------------------------------- renumbering of the ports *)
(* For EVERY number of ports n, every renumbering p of the ports 0 .. n-1 (with inverse q) and any two S matrices
   whose known-zero cells correspond under it: the connectivity matrix (which decides the equations that are
   generated and the cells that feed the leakage terms) of the renumbered standard is the renumbered
   connectivity matrix.  The arrays set[] the two scans leave are in general NOT renumbered copies
   (connectivity_equivariant_example).  Consequence of C01's connectivity_closed_every_n. *)
Require Import LV.Cal.ConnProofs.
Theorem connectivity_equivariant : forall n s s' (p q : nat -> nat),
  (forall i, (i < n)%nat -> (p i < n)%nat /\ q (p i) = i) ->
  (forall k, (k < n)%nat -> (q k < n)%nat /\ p (q k) = k) ->
  (forall i j, (i < n)%nat -> (j < n)%nat ->
     scell_is_zero (nth (p i * n + p j) s' SNull) = scell_is_zero (nth (i * n + j) s SNull)) ->
  forall i j, (i < n)%nat -> (j < n)%nat ->
    nth (p i * n + p j) (build_connectivity n s') false = nth (i * n + j) (build_connectivity n s) false.
Proof. exact connectivity_equivariant_lemma. Qed.
Print Assumptions connectivity_equivariant.

(* the same with the renumbering given as a list: every permutation of 0 .. n-1 *)
Theorem connectivity_equivariant_perm : forall n s s' (pl : list nat),
  Permutation pl (seq 0 n) ->
  (forall i j, (i < n)%nat -> (j < n)%nat ->
     scell_is_zero (nth (nth i pl 0 * n + nth j pl 0) s' SNull) = scell_is_zero (nth (i * n + j) s SNull)) ->
  forall i j, (i < n)%nat -> (j < n)%nat ->
    nth (nth i pl 0 * n + nth j pl 0) (build_connectivity n s') false = nth (i * n + j) (build_connectivity n s) false.
Proof. exact connectivity_equivariant_perm_lemma. Qed.
Print Assumptions connectivity_equivariant_perm.

Example connectivity_equivariant_example :
  Permutation rot6 (seq 0 6) /\
  (forall i j, (i < 6)%nat -> (j < 6)%nat ->
     scell_is_zero (nth (nth i rot6 0 * 6 + nth j rot6 0) chain6_rot SNull) = scell_is_zero (nth (i * 6 + j) chain6 SNull)) /\
  scan_set 6 chain6_rot <> map (fun k => nth k rot6 0%nat) (scan_set 6 chain6) /\
  build_connectivity 6 chain6_rot <> build_connectivity 6 chain6.
Proof. exact ConnProofs.connectivity_equivariant_example. Qed.

(* ------------------------------------------------------------------------------------------------ *)
(* Matrix algebra only (mathcomp, any field, any n).  None of the following mentions AddModel, the solver or
   the applied S-parameters: they are the identities behind the property, named _algebra. *)
From mathcomp Require Import all_ssreflect all_fingroup all_algebra.
Require LV.Cal.CalAlgebra.
Import GRing.Theory.
Local Open Scope ring_scope.

(* a common scaling (any invertible right factor D) of simultaneous a and b readings: M = B A^-1 is unchanged *)
Theorem ab_scaling_algebra (F : fieldType) (r n : nat) (A D : 'M[F]_n) (B : 'M[F]_(r, n)) :
  A \in unitmx -> D \in unitmx -> (B *m D) *m invmx (A *m D) = B *m invmx A.
Proof. exact: CalAlgebra.ab_scaling. Qed.
Print Assumptions ab_scaling_algebra.
Example ab_scaling_algebra_satisfiable (F : fieldType) (n r : nat) (s : 'S_n) (B : 'M[F]_(r, n)) :
  (B *m perm_mx s) *m invmx (1%:M *m perm_mx s) = B *m invmx 1%:M.
Proof. exact: CalAlgebra.ab_scaling_satisfiable. Qed.

(* permuting the equations leaves the normal equations A^H A x = A^H b unchanged, A^H = the conjugate
   transpose (adjoint) for ANY ring morphism cj of the field: complex conjugation gives the Hermitian
   least-squares problem the C code solves (by QR, not by normal equations: tested only), the identity gives
   the bilinear A^T A.  Says nothing about rounding or about the QR / LU code. *)
Theorem order_irrelevant_normal_algebra (F : fieldType) (cj : {rmorphism F -> F}) (m n : nat) (s : 'S_m)
    (A : 'M[F]_(m, n)) (b : 'M[F]_(m, 1)) :
  CalAlgebra.adjoint cj (row_perm s A) *m row_perm s A = CalAlgebra.adjoint cj A *m A /\
  CalAlgebra.adjoint cj (row_perm s A) *m row_perm s b = CalAlgebra.adjoint cj A *m b.
Proof. exact: CalAlgebra.order_irrelevant_normal_hermitian. Qed.
Print Assumptions order_irrelevant_normal_algebra.

(* ... and the exact solution of a square non-singular system *)
Theorem order_irrelevant_square_algebra (F : fieldType) (n : nat) (s : 'S_n) (A : 'M[F]_n) (b : 'M[F]_(n, 1)) :
  A \in unitmx -> invmx (row_perm s A) *m row_perm s b = invmx A *m b.
Proof. exact: CalAlgebra.order_irrelevant_square. Qed.
Print Assumptions order_irrelevant_square_algebra.
Example order_irrelevant_square_algebra_satisfiable (F : fieldType) (n : nat) (s : 'S_n) (b : 'M[F]_(n, 1)) :
  invmx (row_perm s 1%:M) *m row_perm s b = invmx 1%:M *m b.
Proof. exact: CalAlgebra.order_irrelevant_square_satisfiable. Qed.

(* Conjugation-equivariance of the T-form model equation with FULL n x n error-term matrices (the T16
   form): if M = (Ts S + Ti)(Tx S + Tm)^-1 then the conjugates by any invertible P satisfy the same equation.
   A port renumbering is the case P = a permutation matrix.  This is all that is proved about renumbering:
   it does not mention the solved terms or the applied S, it is not stated for the U / column-system forms,
   and for the diagonal layouts (T8, TE10) only permutation matrices keep the terms diagonal (not proved). *)
Theorem port_renumbering_algebra (F : fieldType) (n : nat) (P Ts Ti Tx Tm S M : 'M[F]_n) :
  P \in unitmx ->
  Tx *m S + Tm \in unitmx ->
  M = (Ts *m S + Ti) *m invmx (Tx *m S + Tm) ->
  P *m M *m invmx P =
    (P *m Ts *m invmx P *m (P *m S *m invmx P) + P *m Ti *m invmx P)
    *m invmx (P *m Tx *m invmx P *m (P *m S *m invmx P) + P *m Tm *m invmx P).
Proof. exact: CalAlgebra.port_renumbering. Qed.
Print Assumptions port_renumbering_algebra.
(* hypotheses met: P a permutation matrix, the ideal VNA, any device *)
Example port_renumbering_algebra_satisfiable (F : fieldType) (n : nat) (s : 'S_n) (S : 'M[F]_n) :
  let P := perm_mx s : 'M[F]_n in
  P *m S *m invmx P =
    (P *m 1%:M *m invmx P *m (P *m S *m invmx P) + P *m 0 *m invmx P)
    *m invmx (P *m 0 *m invmx P *m (P *m S *m invmx P) + P *m 1%:M *m invmx P).
Proof. exact: CalAlgebra.port_renumbering_satisfiable. Qed.

(* ---------------------------------------------------------------------------------------------------------
   Renumbering of the VNA ports ON THE EXECUTABLE LIST MODELS (session 5, coq/Cal/RenumberModel.v,
   RenumberProofs.v).  For the types with one linear system and mr = mc = n (renum_type: T8, TE10, U8, UE10,
   T16, U16), EVERY n, every renumbering p of the ports 0..n-1 (given with its inverse q), every field, every
   parameter valuation and every list ms of measured standards whose records are as _vnacal_new_add_common
   leaves them (meas_wf: every equation inside the matrix, carrying the terms the builder as coded emits):
   the system SolveSimple.assemble builds (as coded: fold over the no-V term threads, leakage means of TE10 /
   UE10 subtracted) from the renumbered standards (renum_mv: given flags, S cells, connectivity, measured
   values permuted cell by cell, equation (r, c) -> (p r, p c) with its terms REBUILT by the term builders as
   coded) is, row by row, the system of the original standards with the columns of the HOMOGENEOUS system
   (hrow: the unity term gets its column back, coefficient = - right-hand side) permuted by perm_index
   (diagonal types: ts/ti/tx/tm[i] -> [p i]; T16/U16: cell (i, j) -> (p i, p j) in each of the four blocks).
   The unity term tm[0] / um[0] of the renumbered system is the ordinary term tm[q 0] of the original one, which
   is why the statement is about the homogeneous rows.
   PARTIAL: the consequences are not proved here -- (a) the solution sets correspond (immediate: reindex the
   sum over the columns), (b) if both calibrations solve, the renumbered error terms are the permuted original
   ones divided by the term that lands on the unity position (needs SolveRecovers.solve_system_recovers_lemma),
   (c) the applied S is the renumbered S (needs the conjugation-equivariance of ApplyModel.apply_fill / q_apply);
   UE14 / E12 (one system per column, the unity term of column c is um[c][c]) are not covered; that
   add_common of the renumbered call returns renum_meas of the original record (up to the order of the
   equations) is checked by the example below and by the tie of checks/C17.py, not proved for all arguments. *)
Require LV.Base.CField LV.Cal.Sym LV.Cal.SolveSimple LV.Cal.CalQI LV.Cal.RenumberModel LV.Cal.RenumberProofs.
Theorem c17_renumbering_permutes_equations_partial :
  forall (K : CField.CField) (ty : caltype) (n : nat) (p q : nat -> nat) (pval : Z -> CField.F K)
         (ms : list (SolveSimple.mvals (Sym.ops_of K))) (sys : nat),
  RenumberModel.renum_type ty = true -> RenumberModel.is_renum n p q ->
  (forall mv, List.In mv ms -> RenumberModel.meas_wf ty n (SolveSimple.mv_meas (Sym.ops_of K) mv)) ->
  List.Forall2
    (fun row' row => forall k : nat, Peano.lt k (RenumberModel.t_terms_of ty n) ->
       RenumberModel.hrow (Sym.ops_of K) (RenumberModel.unity_pos ty n) row' (RenumberModel.perm_index ty n p k) =
       RenumberModel.hrow (Sym.ops_of K) (RenumberModel.unity_pos ty n) row k)
    (SolveSimple.assemble (Sym.ops_of K) ty n n pval (List.map (RenumberModel.renum_mv (Sym.ops_of K) ty n p q) ms) sys)
    (SolveSimple.assemble (Sym.ops_of K) ty n n pval ms sys).
Proof. exact RenumberProofs.renum_assemble_lemma. Qed.
Print Assumptions c17_renumbering_permutes_equations_partial.

(* hypotheses met and conclusion not trivial: TE10 2x2, a through and a reflect on port 1, the two ports
   swapped: the renumbering is a bijection, both records are meas_wf, renum_meas of the reflect on port 1 IS the
   record add_common builds for the reflect on port 2, the unity column 6 (tm[0]) goes to column 7, and the
   homogeneous rows of the two systems differ *)
Example c17_renumbering_permutes_equations_example :
  RenumberModel.is_renum 2%nat RenumberProofs.sw2 RenumberProofs.sw2 /\
  (forall mv, List.In mv RenumberProofs.rn_ms ->
     RenumberModel.meas_wf TE10 2%nat (SolveSimple.mv_meas CalQI.qops mv)) /\
  RenumberProofs.meas_same
    (RenumberModel.renum_meas TE10 2%nat RenumberProofs.sw2 RenumberProofs.sw2 (RenumberProofs.rn_meas (RenumberProofs.rn_refl BinInt.Z.one)))
    (RenumberProofs.rn_meas (RenumberProofs.rn_refl BinInt.Z.two)) = true /\
  RenumberModel.perm_index TE10 2%nat RenumberProofs.sw2 6%nat = 7%nat /\ RenumberModel.unity_pos TE10 2%nat = 6%nat /\
  List.map (fun row => List.map (RenumberModel.hrow CalQI.qops 6%nat row) (List.seq 0%nat 8%nat))
           (SolveSimple.assemble CalQI.qops TE10 2%nat 2%nat RenumberProofs.rn_pval RenumberProofs.rn_ms 0%nat) <>
  List.map (fun row => List.map (RenumberModel.hrow CalQI.qops 6%nat row) (List.seq 0%nat 8%nat))
           (SolveSimple.assemble CalQI.qops TE10 2%nat 2%nat RenumberProofs.rn_pval
              (List.map (RenumberModel.renum_mv CalQI.qops TE10 2%nat RenumberProofs.sw2 RenumberProofs.sw2) RenumberProofs.rn_ms) 0%nat).
Proof. exact RenumberProofs.renum_example_lemma. Qed.


(* ==================================================================================================
   Session 5, second part: renumbering of the VNA ports, from the equations to the results
   (coq/Cal/RenumberResultsModel.v, RenumberResults.v, RenumberResultsEx.v).  Types T8, TE10, U8, UE10, T16, U16
   (RenumberModel.renum_type), square calibrations mr = mc = n, EVERY n, every renumbering p with inverse q.
   With these, c17_renumbering_permutes_equations_partial above is no longer the end of the chain:
     (a0) perm_index is a bijection of the error-term indices; (a) the solution sets of the homogeneous systems correspond;
     (b) solved terms: if the data fit the model and the renumbered system has enough rows and full column rank, the solve
         model returns, for the renumbered standards, the permuted original terms divided by the entry that lands on the
         unity position (renum_terms); (c1) the documented equation of the renumbered data (terms permuted and scaled by any
         common factor ci, leakage terms permuted, M and S renumbered) is ci times the original one, cell (p i, p j) against
         (i, j); (c2) hence vnacal_apply (q_apply: fill functions as coded + LU model) on the renumbered terms and the
         renumbered device measurement returns the renumbered S whenever it reports success, for data that fit the model.
   STILL MISSING (tested by the renumbering pairs of checks/C17.py only): full rank of the renumbered system is a hypothesis
   of (b), not derived from that of the original; (b) is stated on q_solve_system (the one system of these types), the
   wrapper q_error_terms with the permuted leakage terms and the instantiation of (c2) with the output of (b) are not
   stated (the T8 2x2 example does it concretely); (c2) is for data that fit the model, not for arbitrary inputs;
   add_common (renumbered call) = renum_meas (original) for all arguments is the tie renumber_structure_tie, not a theorem;
   UE14 / E12 and rectangular calibrations are outside. *)
Require LV.Cal.RenumberResultsModel LV.Cal.RenumberResults LV.Cal.RenumberResultsEx LV.Cal.ApplyIdentity LV.Cal.ApplyModel LV.Cal.SolveRecovers LV.Base.QcI.

Theorem c17_renumbering_perm_index_bijection :
  forall (ty : caltype) (n : nat) (p q : nat -> nat),
  RenumberModel.renum_type ty = true -> RenumberModel.is_renum n p q -> Peano.lt 0%nat n ->
  RenumberModel.is_renum (RenumberModel.t_terms_of ty n) (RenumberModel.perm_index ty n p) (RenumberModel.perm_index ty n q).
Proof. exact RenumberResults.perm_index_renum_lemma. Qed.
Print Assumptions c17_renumbering_perm_index_bijection.

Theorem c17_renumbering_solution_sets :
  forall (K : CField.CField) (ty : caltype) (n : nat) (p q : nat -> nat) (pval : Z -> CField.F K)
         (ms : list (SolveSimple.mvals (Sym.ops_of K))) (sys : nat) (e : nat -> CField.F K),
  RenumberModel.renum_type ty = true -> RenumberModel.is_renum n p q ->
  (forall mv, List.In mv ms -> RenumberModel.meas_wf ty n (SolveSimple.mv_meas (Sym.ops_of K) mv)) ->
  (RenumberResultsModel.hsat K (RenumberModel.unity_pos ty n) (RenumberModel.t_terms_of ty n)
      (SolveSimple.assemble (Sym.ops_of K) ty n n pval ms sys) e <->
   RenumberResultsModel.hsat K (RenumberModel.unity_pos ty n) (RenumberModel.t_terms_of ty n)
      (SolveSimple.assemble (Sym.ops_of K) ty n n pval (List.map (RenumberModel.renum_mv (Sym.ops_of K) ty n p q) ms) sys)
      (fun k => e (RenumberModel.perm_index ty n q k))).
Proof. exact RenumberResults.renum_solution_sets_lemma. Qed.
Print Assumptions c17_renumbering_solution_sets.

Theorem c17_renumbering_solved_terms :
  forall (ty : caltype) (n : nat) (p q : nat -> nat) (pval : Z -> QcI.qi) (ms : list (SolveSimple.mvals CalQI.qops)),
  RenumberModel.renum_type ty = true -> RenumberModel.is_renum n p q -> Peano.lt 0%nat n ->
  (forall mv, List.In mv ms -> RenumberModel.meas_wf ty n (SolveSimple.mv_meas CalQI.qops mv)) ->
  forall xt : list QcI.qi,
  length xt = SolveSimple.unknowns ty n n ->
  (forall r, List.In r (CalQI.q_assemble ty n n ms pval 0%nat) ->
     SolveRecovers.rdot (SolveSimple.unknowns ty n n) (fst r) xt = snd r) ->
  Peano.le (SolveSimple.unknowns ty n n)
     (length (CalQI.q_assemble ty n n (List.map (RenumberModel.renum_mv CalQI.qops ty n p q) ms) pval 0%nat)) ->
  SolveRecovers.kernel_trivial (SolveSimple.unknowns ty n n)
     (CalQI.q_assemble ty n n (List.map (RenumberModel.renum_mv CalQI.qops ty n p q) ms) pval 0%nat) ->
  RenumberModel.full_terms CalQI.qops ty n xt (RenumberModel.perm_index ty n q (RenumberModel.unity_pos ty n)) <> (@CField.c0 QcI.QIF) ->
  CalQI.q_solve_system ty n n (List.map (RenumberModel.renum_mv CalQI.qops ty n p q) ms) pval 0%nat =
  CalQI.SysOk (CalQI.q_assemble ty n n (List.map (RenumberModel.renum_mv CalQI.qops ty n p q) ms) pval 0%nat)
              (RenumberResultsModel.renum_terms QcI.QIF ty n q xt).
Proof. exact RenumberResults.renum_solved_terms_lemma. Qed.
Print Assumptions c17_renumbering_solved_terms.

Theorem c17_renumbering_documented_equation :
  forall (K : CField.CField) (ty : caltype) (n : nat) (p q : nat -> nat),
  RenumberModel.renum_type ty = true -> RenumberModel.is_renum n p q -> Peano.lt 0%nat n ->
  forall (e e' m m' s s' : list (CField.F K)) (ci : CField.F K),
  (forall k, Peano.lt k (RenumberModel.t_terms_of ty n) ->
     ApplyModel.g (Sym.ops_of K) e' (RenumberModel.perm_index ty n p k) = CField.cmul (ApplyModel.g (Sym.ops_of K) e k) ci) ->
  (ApplyModel.has_leak ty = true -> forall r c, Peano.lt r n -> Peano.lt c n -> r <> c ->
     ApplyModel.el_at (Sym.ops_of K) ty n n e' (ApplyModel.leak_index n (p r) (p c)) =
     ApplyModel.el_at (Sym.ops_of K) ty n n e (ApplyModel.leak_index n r c)) ->
  (forall i j, Peano.lt i n -> Peano.lt j n ->
     ApplyModel.g (Sym.ops_of K) m' (Nat.add (Nat.mul (p i) n) (p j)) = ApplyModel.g (Sym.ops_of K) m (Nat.add (Nat.mul i n) j)) ->
  (forall i j, Peano.lt i n -> Peano.lt j n ->
     ApplyModel.g (Sym.ops_of K) s' (Nat.add (Nat.mul (p i) n) (p j)) = ApplyModel.g (Sym.ops_of K) s (Nat.add (Nat.mul i n) j)) ->
  forall i j, Peano.lt i n -> Peano.lt j n ->
  ApplyIdentity.doc_cell K ty n n e' m' s' (p i) (p j) = CField.cmul (ApplyIdentity.doc_cell K ty n n e m s i j) ci.
Proof. exact RenumberResults.doc_cell_renum_lemma. Qed.
Print Assumptions c17_renumbering_documented_equation.

(* PARTIAL (review round 2, M2): the original side is the documented equation (doc_cell = 0), not q_apply of the original data;
   e' is ANY vector with the permuted-and-scaled property; nothing is said about when the renumbered apply succeeds.
   Full statement wanted: q_apply e m = AOk _ _ s -> q_apply e' (renum m) = AOk _ _ (renum s) for e' = the renumbered solved terms. *)
Theorem c17_renumbering_applied_S_partial :
  forall (ty : caltype) (n : nat) (p q : nat -> nat) (e e' m s : list QcI.qi) (ci : QcI.qi),
  RenumberModel.renum_type ty = true -> RenumberModel.is_renum n p q -> Peano.le 1%nat n ->
  length m = Nat.mul n n -> length s = Nat.mul n n ->
  (forall k, Peano.lt k (RenumberModel.t_terms_of ty n) ->
     ApplyModel.g CalQI.qops e' (RenumberModel.perm_index ty n p k) = CField.cmul (ApplyModel.g CalQI.qops e k) ci) ->
  (ApplyModel.has_leak ty = true -> forall r c, Peano.lt r n -> Peano.lt c n -> r <> c ->
     ApplyModel.el_at CalQI.qops ty n n e' (ApplyModel.leak_index n (p r) (p c)) =
     ApplyModel.el_at CalQI.qops ty n n e (ApplyModel.leak_index n r c)) ->
  (forall i j, Peano.lt i n -> Peano.lt j n -> ApplyIdentity.doc_cell QcI.QIF ty n n e m s i j = @CField.c0 QcI.QIF) ->
  forall a b x, CalQI.q_apply ty n n e' (RenumberModel.renum_cells n q m QcI.qi0) = CalQI.AOk a b x ->
  x = RenumberModel.renum_cells n q s QcI.qi0.
Proof. exact RenumberResults.renum_apply_lemma. Qed.
Print Assumptions c17_renumbering_applied_S_partial.

(* non-vacuity (statements in coq/Cal/RenumberResultsEx.v, decided by vm_compute): T8 2x2, ports swapped, true terms
   Ts = diag(2, 3), Ti = diag(1/2, 1/3), Tx = 0, Tm = diag(1, 5), standards through, (short, i), (i, 1/2), (1/2, short):
   every hypothesis of (a) and (b) holds, renum_terms = [3/5; 2/5; 1/15; 1/10; 0; 0; 1/5] and the solve of the renumbered
   standards returns exactly this vector; a non-symmetric device: q_apply on the renumbered terms (scaled by 1/5) and the
   renumbered measurement returns the renumbered S, which differs from S *)
Example c17_renumbering_results_example :
  ltac:(let T := type of RenumberResultsEx.renum_results_example_lemma in exact T).
Proof. exact RenumberResultsEx.renum_results_example_lemma. Qed.
Example c17_renumbering_applied_S_example :
  ltac:(let T := type of RenumberResultsEx.renum_apply_example_lemma in exact T).
Proof. exact RenumberResultsEx.renum_apply_example_lemma. Qed.

(* ==================================================================================================
   "E12 and UE14 calibrations of the same data correct identically" on the models (coq/Cal/RenumberE12Ue14.v).
   (1) every field, the shapes vnacal_apply accepts with dimensions 1..4 (1x1 .. 4x4 and 2x1: the bound), ALL term vectors,
       matrices and candidate S: the documented E12 expression at the terms convert_ue14_to_e12 (as coded) produces is, cell by
       cell, the documented UE14 expression up to the non-zero factor of its column;
   (2) Gaussian rationals, apply model as coded: whenever vnacal_apply succeeds with the UE14 terms and with the converted E12
       terms on the same matrix, both return the same S;
   (3) every shape, every list of standards: the solve model assembles and solves the same systems for UE14 and E12, and the
       E12 terms it saves are convert_ue14_to_e12 of the UE14 terms;
   together: c17_e12_ue14_correct_identically.  Hypotheses: the um terms and us_c um_cc - ui_c ux_cc are non-zero (the
   conversion divides by them; the C code reports EDOM for um = 0).  Not stated: that one apply succeeds iff the other does. *)
Require LV.Cal.RenumberE12Ue14 LV.Cal.ApplyProofs.

Theorem c17_e12_documented_equation_of_ue14 :
  forall (K : CField.CField) (mr mc : nat) (e m s : list (CField.F K)),
  List.In (mr, mc) RenumberE12Ue14.e12_shapes ->
  length e = ApplyIdentity.nterms UE14 mr mc -> length m = Nat.mul (Nat.max mr mc) (Nat.max mr mc) ->
  length s = Nat.mul (Nat.max mr mc) (Nat.max mr mc) ->
  (forall c r, Peano.lt c mc -> Peano.lt r mr -> RenumberE12Ue14.um14 K mr mc e c r <> CField.c0) ->
  (forall c, Peano.lt c mc -> RenumberE12Ue14.det14 K mr mc e c <> CField.c0) ->
  forall i j, Peano.lt i (Nat.max mr mc) -> Peano.lt j (Nat.max mr mc) ->
    CField.cmul (ApplyIdentity.doc_cell K E12 mr mc (SolveSimple.convert_ue14_to_e12 (Sym.ops_of K) mr mc e) m s i j)
                (RenumberE12Ue14.det14 K mr mc e (RenumberE12Ue14.col_of mc j))
    = CField.cmul (ApplyIdentity.doc_cell K UE14 mr mc e m s i j)
                  (RenumberE12Ue14.um14 K mr mc e (RenumberE12Ue14.col_of mc j) (RenumberE12Ue14.col_of mc j)).
Proof. exact RenumberE12Ue14.e12_doc_identity_lemma. Qed.
Print Assumptions c17_e12_documented_equation_of_ue14.

Theorem c17_e12_ue14_same_systems :
  forall (mr mc : nat) (ms : list (SolveSimple.mvals CalQI.qops)) (pval : Z -> QcI.qi),
  CalQI.q_error_terms E12_UE14 mr mc ms pval =
  match CalQI.q_error_terms UE14 mr mc ms pval with
  | Some e => Some (SolveSimple.convert_ue14_to_e12 CalQI.qops mr mc e) | None => None end.
Proof. exact RenumberE12Ue14.e12_ue14_same_systems. Qed.
Print Assumptions c17_e12_ue14_same_systems.

Theorem c17_e12_ue14_correct_identically :
  forall (mr mc : nat) (ms : list (SolveSimple.mvals CalQI.qops)) (pval : Z -> QcI.qi) (e14 m : list QcI.qi),
  List.In (mr, mc) RenumberE12Ue14.e12_shapes ->
  CalQI.q_error_terms UE14 mr mc ms pval = Some e14 ->
  length e14 = ApplyIdentity.nterms UE14 mr mc -> length m = Nat.mul (Nat.max mr mc) (Nat.max mr mc) ->
  (forall c r, Peano.lt c mc -> Peano.lt r mr -> RenumberE12Ue14.um14 QcI.QIF mr mc e14 c r <> @CField.c0 QcI.QIF) ->
  (forall c, Peano.lt c mc -> RenumberE12Ue14.det14 QcI.QIF mr mc e14 c <> @CField.c0 QcI.QIF) ->
  CalQI.q_error_terms E12_UE14 mr mc ms pval = Some (SolveSimple.convert_ue14_to_e12 CalQI.qops mr mc e14) /\
  forall a b s, CalQI.q_apply UE14 mr mc e14 m = CalQI.AOk a b s ->
  forall a' b' s', CalQI.q_apply E12 mr mc (SolveSimple.convert_ue14_to_e12 CalQI.qops mr mc e14) m = CalQI.AOk a' b' s' -> s' = s.
Proof. exact RenumberE12Ue14.e12_ue14_correct_identically_lemma. Qed.
Print Assumptions c17_e12_ue14_correct_identically.

(* non-vacuity: one-port UE14, um = 2, ui = 1/2, ux = 1/3, us = 1, reflects -1, 1, 1/2, device 1/3 + i/5: the solve model
   returns [1; 1/4; 1/6; 1/2], every hypothesis holds and both apply calls return the device *)
Example c17_e12_ue14_correct_identically_example :
  ltac:(let T := type of RenumberE12Ue14.e12_ue14_correct_identically_example in exact T).
Proof. exact RenumberE12Ue14.e12_ue14_correct_identically_example. Qed.
