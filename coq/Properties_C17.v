(* C17 - equivalent ways of describing the same calibration give the same result: the theorems.
   See docs/design_C17.md. *)
Require Import ZArith List.
Require Import LV.Gen.LayoutGen LV.Cal.TermsModel LV.Cal.AddModel LV.Cal.TermsProofs LV.Cal.C17Proofs.
Import ListNotations.

(* through p1 p2 = line (0,1;1,0) p1 p2 = mapped matrix [0 1; 1 0] with map {p1, p2}: identical
   outcome (acceptance, measurement, S cells, connectivity, equations), for all arguments *)
Theorem through_eq_line_eq_mapped :
  forall ty mr mc merr valid a_given a_rows a_cols b_rows b_cols port1 port2,
    add_through ty mr mc merr valid a_given a_rows a_cols b_rows b_cols port1 port2
    = add_line ty mr mc merr valid a_given a_rows a_cols b_rows b_cols 0 1 1 0 port1 port2
    /\
    add_through ty mr mc merr valid a_given a_rows a_cols b_rows b_cols port1 port2
    = add_mapped_matrix ty mr mc merr valid a_given a_rows a_cols b_rows b_cols
        [0; 1; 1; 0]%Z 2 2 (Some [port1; port2]).
Proof. exact through_eq_line_eq_mapped_lemma. Qed.
Print Assumptions through_eq_line_eq_mapped.

(* Bound in the statement: the 704 configurations of TermsProofs.all_cfgs (8 types, dims 1..4, every
   port set) x the three abbreviated shapes.  Wherever the abbreviated matrix is accepted, its equations
   are equations of the full matrix with identical terms, and for the types other than T16/U16 the two
   equation lists are equal. *)
Theorem full_eq_abbreviated : forall c, In c all_cfgs -> check_abbrev c = true.
Proof. exact full_eq_abbreviated_lemma. Qed.
Print Assumptions full_eq_abbreviated.

(* ------------------------------------------------------------------------------------------------ *)
From mathcomp Require Import all_ssreflect all_fingroup all_algebra.
Require LV.Cal.CalAlgebra.
Import GRing.Theory.
Local Open Scope ring_scope.

(* a common scaling (any invertible right factor D) of simultaneous a and b readings *)
Theorem ab_scaling (F : fieldType) (r n : nat) (A D : 'M[F]_n) (B : 'M[F]_(r, n)) :
  A \in unitmx -> D \in unitmx -> (B *m D) *m invmx (A *m D) = B *m invmx A.
Proof. exact: CalAlgebra.ab_scaling. Qed.
Print Assumptions ab_scaling.

(* order of the standards: permuting the equations leaves the normal equations (least squares) ... *)
Theorem order_irrelevant_normal (F : fieldType) (m n : nat) (s : 'S_m) (A : 'M[F]_(m, n)) (b : 'M[F]_(m, 1)) :
  (row_perm s A)^T *m row_perm s A = A^T *m A /\ (row_perm s A)^T *m row_perm s b = A^T *m b.
Proof. exact: CalAlgebra.order_irrelevant_normal. Qed.
Print Assumptions order_irrelevant_normal.

(* ... and the solution of a square system unchanged *)
Theorem order_irrelevant_square (F : fieldType) (n : nat) (s : 'S_n) (A : 'M[F]_n) (b : 'M[F]_(n, 1)) :
  A \in unitmx -> invmx (row_perm s A) *m row_perm s b = invmx A *m b.
Proof. exact: CalAlgebra.order_irrelevant_square. Qed.
Print Assumptions order_irrelevant_square.

(* consistent renumbering of the VNA ports (any invertible P, in particular a permutation matrix):
   data that fit the model before fit the conjugated model after, so that apply_recovers_T on the
   conjugated data returns the conjugated DUT matrix *)
Theorem port_renumbering (F : fieldType) (n : nat) (P Ts Ti Tx Tm S M : 'M[F]_n) :
  P \in unitmx ->
  Tx *m S + Tm \in unitmx ->
  M = (Ts *m S + Ti) *m invmx (Tx *m S + Tm) ->
  P *m M *m invmx P =
    (P *m Ts *m invmx P *m (P *m S *m invmx P) + P *m Ti *m invmx P)
    *m invmx (P *m Tx *m invmx P *m (P *m S *m invmx P) + P *m Tm *m invmx P).
Proof. exact: CalAlgebra.port_renumbering. Qed.
Print Assumptions port_renumbering.
