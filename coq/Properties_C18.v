(* C18 - measurement-error modelling.
   Theorems only: each is closed by [exact] of a lemma of coq/SelfCal/*.v. *)
Require Import QArith Qcanon List ZArith.
Import ListNotations.
Require Import LV.Base.CField LV.Base.QcI.
Require Import LV.SelfCal.WeightModel LV.SelfCal.WeightProofs LV.SelfCal.WeightQI.
Require Import LV.SelfCal.LsqModel LV.SelfCal.LsqProofs LV.SelfCal.NullGuards.

(* ---- the weight of every equation is the one computed from its own measurement ---- *)
(* form of the source with one running index and the per-system offset in solve_simple *)
Theorem weights_aligned_thm : forall (M R : Type) (wt : M -> R) (r0 : R) (m0 : M)
  (sys : systems M) (s e : nat),
  (s < length sys)%nat -> (e < length (nth s sys []))%nat ->
  weight_simple M R wt r0 false true sys s e = own_weight M R wt m0 sys s e /\
  weight_auto M R wt r0 false sys s e = own_weight M R wt m0 sys s e.
Proof. exact weights_aligned. Qed.
Print Assumptions weights_aligned_thm.

(* every form of the source is right when there is one system (all types but UE14 / E12) *)
Theorem weights_aligned_single_system_thm : forall (M R : Type) (wt : M -> R) (r0 : R) (m0 : M)
  (eqs : list M) (e : nat) (restart offset : bool),
  (e < length eqs)%nat ->
  weight_simple M R wt r0 restart offset [eqs] 0 e = wt (nth e eqs m0) /\
  weight_auto M R wt r0 restart [eqs] 0 e = wt (nth e eqs m0).
Proof. exact weights_aligned_single_system. Qed.
Print Assumptions weights_aligned_single_system_thm.

(* form of the source in which k restarts in every system (candidate D20) *)
Theorem weights_aligned_refuted_simple_thm :
  exists sys s e, (s < length sys)%nat /\ (e < length (nth s sys []))%nat /\
                  w_simple true false sys s e <> w_own sys s e.
Proof. exact weights_aligned_refuted_simple. Qed.
Print Assumptions weights_aligned_refuted_simple_thm.

Theorem weights_aligned_refuted_auto_thm :
  exists sys s e, (s < length sys)%nat /\ (e < length (nth s sys []))%nat /\
                  w_auto true sys s e <> w_own sys s e /\ w_auto true sys s e = 0%nat.
Proof. exact weights_aligned_refuted_auto. Qed.
Print Assumptions weights_aligned_refuted_auto_thm.

Theorem weights_half_repaired_refuted_thm :
  (exists sys s e, (s < length sys)%nat /\ (e < length (nth s sys []))%nat /\
                   w_simple false false sys s e <> w_own sys s e) /\
  (exists sys s e, (s < length sys)%nat /\ (e < length (nth s sys []))%nat /\
                   w_simple true true sys s e <> w_own sys s e).
Proof. exact weights_half_repaired_refuted. Qed.
Print Assumptions weights_half_repaired_refuted_thm.

Theorem weights_aligned_instance_thm :
  let sys := [[5; 7; 9]; [11]; [13; 15]]%nat in
  forallb (fun '(s, e) => Nat.eqb (w_simple false true sys s e) (w_own sys s e) &&
                          Nat.eqb (w_auto false sys s e) (w_own sys s e))
          [(0,0); (0,1); (0,2); (1,0); (2,0); (2,1)]%nat = true.
Proof. exact weights_aligned_instance. Qed.
Print Assumptions weights_aligned_instance_thm.

(* ---- degrees of freedom ---- *)
Theorem dof_count_thm : forall (unknowns : Z) (eq_counts leak_counts : list Z),
  dof unknowns eq_counts leak_counts =
  (2 * (zsum eq_counts - Z.of_nat (length eq_counts) * unknowns) + zsum (map leak_term leak_counts))%Z.
Proof. exact dof_count. Qed.
Print Assumptions dof_count_thm.

Theorem dof_exactly_determined_thm : forall (unknowns : Z) (k : nat),
  dof unknowns (repeat unknowns k) [] = 0%Z.
Proof. exact dof_exactly_determined. Qed.
Print Assumptions dof_exactly_determined_thm.

Theorem dof_instances_thm : dof 7 [16%Z] [] = 18%Z /\ dof 5 [8; 8]%Z [4; 4]%Z = 24%Z.
Proof. exact dof_instances. Qed.
Print Assumptions dof_instances_thm.

(* ---- exact data: the weighted solution is the unweighted one, residual zero ---- *)
Theorem exact_data_weight_free_thm : forall (K : CField) (N : K -> Qc),
  (forall z, (0 <= N z)%Qc) -> (forall z, N z = 0%Qc -> z = c0) -> N c0 = 0%Qc ->
  forall (sys : list (eqn K)) (x0 : list K),
  consistent K sys x0 -> weights_nonzero K sys -> injective K sys x0 ->
  cost K N sys x0 = 0%Qc /\ minimises K N sys x0 /\
  (forall x, length x = length x0 -> minimises K N sys x -> x = x0).
Proof. exact exact_data_weight_free. Qed.
Print Assumptions exact_data_weight_free_thm.

Theorem weighted_equals_unweighted_thm : forall (K : CField) (N : K -> Qc),
  (forall z, (0 <= N z)%Qc) -> (forall z, N z = 0%Qc -> z = c0) -> N c0 = 0%Qc ->
  forall (sys : list (eqn K)) (x0 x : list K),
  consistent K sys x0 -> weights_nonzero K sys -> injective K sys x0 -> length x = length x0 ->
  (minimises K N sys x <-> minimises K N (unweighted K sys) x).
Proof. exact weighted_equals_unweighted. Qed.
Print Assumptions weighted_equals_unweighted_thm.

Theorem exact_data_hypotheses_satisfiable_thm :
  consistent QIF ex_sys ex_x0 /\ weights_nonzero QIF ex_sys /\ injective QIF ex_sys ex_x0.
Proof. exact exact_data_hypotheses_satisfiable. Qed.
Print Assumptions exact_data_hypotheses_satisfiable_thm.

(* ---- save / restore of the V matrices touches only allocated vectors (form with the test
        of vnsm_v_matrices); the form that tests the address of the array element does not
        (candidate D38) ---- *)
Theorem v_matrices_safe_thm : forall stds, save_v_matrices true stds = Ok.
Proof. exact v_matrices_safe. Qed.
Print Assumptions v_matrices_safe_thm.

Theorem v_matrices_safe_refuted_thm : exists stds, save_v_matrices false stds = NullDeref.
Proof. exact v_matrices_safe_refuted. Qed.
Print Assumptions v_matrices_safe_refuted_thm.
