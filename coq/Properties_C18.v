(* C18 - measurement-error modelling.
   Theorems only: each is closed by [exact] of a lemma of coq/SelfCal/*.v. *)
Require Import QArith Qcanon List ZArith.
Import ListNotations.
Require Import LV.Base.CField LV.Base.QcI.
Require Import LV.SelfCal.WeightModel LV.SelfCal.WeightProofs LV.SelfCal.WeightQI.
Require Import LV.SelfCal.LsqModel LV.SelfCal.LsqProofs LV.SelfCal.LsqLinkModel LV.SelfCal.LsqLinkProofs.
Require Import LV.SelfCal.GuardModel LV.SelfCal.GuardProofs.
Require Import LV.SelfCal.C18MErrorModel LV.SelfCal.C18MErrorProofs.
Require Import LV.SelfCal.PvalueModel LV.SelfCal.PvalueProofs LV.SelfCal.PvalueQI.

(* ---- the weight of every equation is the one computed from its own measurement ----
   These theorems are about INDEX ALIGNMENT: which measurement w_vector[i] was computed from and
   which element each consumer reads.  The weight function wt (1 / sqrt(sigma_nf^2 + sigma_tr^2 |m|^2))
   is an abstract Section variable: its formula, and the same expression used as the chi-square
   divisor, appear in no theorem (they are compared numerically by the white-box tie). *)
(* form of the source with one running index and the per-system offset in solve_simple *)
Theorem weights_aligned_thm : forall (M R : Type) (wt : M -> R) (r0 : R) (m0 : M)
  (sys : systems M) (s e : nat),
  (s < length sys)%nat -> (e < length (nth s sys []))%nat ->
  weight_simple M R wt r0 false true sys s e = own_weight M R wt m0 sys s e /\
  weight_auto M R wt r0 false sys s e = own_weight M R wt m0 sys s e.
Proof. exact weights_aligned. Qed.
Print Assumptions weights_aligned_thm.

(* every form of the source is right when there is one system (all types but UE14 / E12) *)
Theorem weights_aligned_single_system_thm : forall (M R : Type) (wt : M -> R) (r0 : R) (m0 : M)
  (eqs : list M) (e : nat) (restart offset : bool),
  (e < length eqs)%nat ->
  weight_simple M R wt r0 restart offset [eqs] 0 e = wt (nth e eqs m0) /\
  weight_auto M R wt r0 restart [eqs] 0 e = wt (nth e eqs m0).
Proof. exact weights_aligned_single_system. Qed.
Print Assumptions weights_aligned_single_system_thm.

(* model variants documenting finding D20 (fixed in /repo): the form of the source in which k
   restarted in every system and solve_simple read without offset *)
Theorem weights_aligned_refuted_simple_thm :
  exists sys s e, (s < length sys)%nat /\ (e < length (nth s sys []))%nat /\
                  w_simple true false sys s e <> w_own sys s e.
Proof. exact weights_aligned_refuted_simple. Qed.
Print Assumptions weights_aligned_refuted_simple_thm.

Theorem weights_aligned_refuted_auto_thm :
  exists sys s e, (s < length sys)%nat /\ (e < length (nth s sys []))%nat /\
                  w_auto true sys s e <> w_own sys s e /\ w_auto true sys s e = 0%nat.
Proof. exact weights_aligned_refuted_auto. Qed.
Print Assumptions weights_aligned_refuted_auto_thm.

Theorem weights_half_repaired_refuted_thm :
  (exists sys s e, (s < length sys)%nat /\ (e < length (nth s sys []))%nat /\
                   w_simple false false sys s e <> w_own sys s e) /\
  (exists sys s e, (s < length sys)%nat /\ (e < length (nth s sys []))%nat /\
                   w_simple true true sys s e <> w_own sys s e).
Proof. exact weights_half_repaired_refuted. Qed.
Print Assumptions weights_half_repaired_refuted_thm.

Theorem weights_aligned_instance_thm :
  let sys := [[5; 7; 9]; [11]; [13; 15]]%nat in
  forallb (fun '(s, e) => Nat.eqb (w_simple false true sys s e) (w_own sys s e) &&
                          Nat.eqb (w_auto false sys s e) (w_own sys s e))
          [(0,0); (0,1); (0,2); (1,0); (2,0); (2,1)]%nat = true.
Proof. exact weights_aligned_instance. Qed.
Print Assumptions weights_aligned_instance_thm.

(* ---- w_offset as the loop of _vnacal_new_solve_simple computes it: advanced by every system's OWN
        equation count (the column systems of a UE14 / E12 calibration may differ in size) ---- *)
Theorem weights_aligned_loop_thm : forall (M R : Type) (wt : M -> R) (r0 : R) (m0 : M)
  (sys : systems M) (s e : nat),
  (s < length sys)%nat -> (e < length (nth s sys []))%nat ->
  weight_simple_loop M R wt r0 sys s e = own_weight M R wt m0 sys s e.
Proof. exact weights_aligned_loop. Qed.
Print Assumptions weights_aligned_loop_thm.

Theorem running_offsets_thm : forall (M : Type) (sys : systems M) (k s : nat),
  (s < length sys)%nat -> nth s (running_offsets M k sys) 0%nat = (k + offset_of M sys s)%nat.
Proof. exact running_offsets_nth. Qed.
Print Assumptions running_offsets_thm.

(* the closed form "sindex * equations" is right exactly when the earlier systems hold s times the
   count of system s; in particular for equally sized systems (which is all the library's own
   tests use) *)
Theorem closed_form_iff_thm : forall (M : Type) (sys : systems M) (s e : nat),
  simple_index_closed M sys s e = simple_index M true sys s e <->
  offset_of M sys s = (s * length (nth s sys []))%nat.
Proof. exact closed_form_iff. Qed.
Print Assumptions closed_form_iff_thm.

Theorem closed_form_equal_sizes_thm : forall (M : Type) (L : nat) (sys : systems M) (s e : nat),
  (forall q, In q sys -> length q = L) -> (s < length sys)%nat ->
  simple_index_closed M sys s e = simple_index M true sys s e.
Proof. exact closed_form_equal_sizes. Qed.
Print Assumptions closed_form_equal_sizes_thm.

(* model variant: with unequal systems the closed form gives an equation another equation's weight,
   or reads beyond the end of the vector, where the loop form is aligned *)
Theorem closed_form_offset_refuted_thm :
  (exists sys s e, (s < length sys)%nat /\ (e < length (nth s sys []))%nat /\
                   w_closed sys s e <> w_own sys s e /\ w_loop sys s e = w_own sys s e) /\
  (exists sys s e, (s < length sys)%nat /\ (e < length (nth s sys []))%nat /\
                   (length (calc_weights nat nat S 0%nat false sys) <= simple_index_closed nat sys s e)%nat /\
                   w_loop sys s e = w_own sys s e).
Proof. exact closed_form_offset_refuted. Qed.
Print Assumptions closed_form_offset_refuted_thm.

Theorem weights_aligned_loop_instance_thm :
  let sys := [[1; 2; 3; 4; 5]; [6; 7; 8; 9]; [10; 11; 12; 13; 14; 15]]%nat in
  forallb (fun s => forallb (fun e => Nat.eqb (w_loop sys s e) (w_own sys s e))
                            (seq 0 (length (nth s sys [])))) (seq 0 (length sys)) = true /\
  running_offsets nat 0 sys = [0; 5; 9]%nat.
Proof. exact weights_aligned_loop_instance. Qed.
Print Assumptions weights_aligned_loop_instance_thm.

(* ---- degrees of freedom and the verdict ---- *)
Theorem dof_count_thm : forall (unknowns : Z) (eq_counts leak_counts : list Z),
  dof unknowns eq_counts leak_counts =
  (2 * (zsum eq_counts - Z.of_nat (length eq_counts) * unknowns) + zsum (map leak_term leak_counts))%Z.
Proof. exact dof_count. Qed.
Print Assumptions dof_count_thm.

Theorem dof_exactly_determined_thm : forall (unknowns : Z) (k : nat),
  dof unknowns (repeat unknowns k) [] = 0%Z.
Proof. exact dof_exactly_determined. Qed.
Print Assumptions dof_exactly_determined_thm.

Theorem dof_instances_thm : dof 7 [16%Z] [] = 18%Z /\ dof 5 [8; 8]%Z [4; 4]%Z = 24%Z.
Proof. exact dof_instances. Qed.
Print Assumptions dof_instances_thm.

(* leakage cells with 0, 1 or more samples ("if (ltp->vnlt_count > 1)"): at most one sample adds
   nothing, more add 2 (n - 1); the cells never take degrees of freedom away *)
Theorem leak_term_cases_thm : forall n : Z,
  ((n <= 1)%Z -> leak_term n = 0%Z) /\ ((1 < n)%Z -> leak_term n = (2 * (n - 1))%Z).
Proof. exact leak_term_cases. Qed.
Print Assumptions leak_term_cases_thm.

Theorem dof_leakage_never_subtracts_thm : forall (unknowns : Z) (eq_counts leak_counts : list Z),
  (dof_systems unknowns eq_counts <= dof unknowns eq_counts leak_counts)%Z.
Proof. exact dof_leakage_never_subtracts. Qed.
Print Assumptions dof_leakage_never_subtracts_thm.

(* vnlt_count = number of standards that measured the cell and have no path between its ports *)
Theorem leak_count_thm : forall stds : list (bool * bool),
  leak_count stds = Z.of_nat (length (filter is_sample stds)).
Proof. exact leak_count_spec. Qed.
Print Assumptions leak_count_thm.

(* every standard connects every pair of ports: no leakage samples, df is that of the systems *)
Theorem dof_all_connected_thm : forall (unknowns : Z) (eq_counts : list Z) (cells : list (list (bool * bool))),
  (forall c, In c cells -> forall gc, In gc c -> snd gc = true) ->
  dof_of_standards unknowns eq_counts cells =
  (2 * (zsum eq_counts - Z.of_nat (length eq_counts) * unknowns))%Z.
Proof. exact dof_all_connected. Qed.
Print Assumptions dof_all_connected_thm.

Theorem exactly_determined_all_connected_never_rejected_thm : forall (tail : Z -> Qc -> Qc) (unknowns : Z)
  (k : nat) (cells : list (list (bool * bool))) (chisq limit : Qc),
  (forall c, In c cells -> forall gc, In gc c -> snd gc = true) -> (limit <= 1)%Qc ->
  dof_of_standards unknowns (repeat unknowns k) cells = 0%Z /\
  rejected (pvalue_of tail (dof_of_standards unknowns (repeat unknowns k) cells) chisq) limit = false.
Proof. exact exactly_determined_all_connected_never_rejected. Qed.
Print Assumptions exactly_determined_all_connected_never_rejected_thm.

(* instances (0, 1, 3 samples) and the unguarded model variant, which subtracts 2 per empty cell *)
Theorem dof_leak_instances_thm :
  dof 5 [7; 7]%Z [0; 0]%Z = 8%Z /\ dof 5 [7; 7]%Z [1; 1]%Z = 8%Z /\ dof 5 [7; 7]%Z [3; 0]%Z = 12%Z /\
  dof_of_standards 5 [7; 7]%Z [[(true, true); (true, true)]; [(true, false); (false, false); (true, true)]] = 8%Z /\
  dof_leakage_unguarded [0; 0]%Z (dof_systems 5 [7; 7]%Z) = 4%Z.
Proof. exact dof_leak_instances. Qed.
Print Assumptions dof_leak_instances_thm.

Theorem dof_leakage_unguarded_thm : forall (l : list Z) (acc : Z),
  dof_leakage_unguarded l acc = (acc + 2 * zsum l - 2 * Z.of_nat (length l))%Z.
Proof. exact dof_leakage_unguarded_acc. Qed.
Print Assumptions dof_leakage_unguarded_thm.

(* "if (df < 1) return 1.0;" (1.0 since fix D59): an exactly determined calibration has p-value 1
   and is not rejected at any admissible limit (0 < limit <= 1), whatever the chi-square tail
   function (a parameter: chisq_pvalue is not modelled) *)
Theorem exactly_determined_never_rejected_thm : forall (tail : Z -> Qc -> Qc) (unknowns : Z) (k : nat)
  (chisq limit : Qc), (limit <= 1)%Qc ->
  pvalue_of tail (dof unknowns (repeat unknowns k) []) chisq = 1%Qc /\
  rejected (pvalue_of tail (dof unknowns (repeat unknowns k) []) chisq) limit = false.
Proof. exact exactly_determined_never_rejected. Qed.
Print Assumptions exactly_determined_never_rejected_thm.

(* ---- exact data with the weights as the code computes and reads them ----
   weighted_system_simple / _auto (LsqLinkModel.v): row e of system s multiplied by the element of
   calc_weights that solve_simple (w_offset + eq_count) / solve_auto (running counter) reads.  For
   data that some x0 fits exactly, full column rank, and a weight function without zeros: x0 is
   the only minimiser, the residual is zero, and the minimisers are those of the problem with all
   weights 1.  The alignment theorem enters through "no row is multiplied by the calloc zero".
   The rows themselves are a parameter (with measurement-error modelling they carry the V-matrix
   factors of the current iteration): the statement is insensitivity to the WEIGHTS, not to V.
   That the QR solve returns the minimiser is C19's subject. *)
Theorem exact_data_simple_weights_as_computed_thm : forall (K : CField) (N : K -> Qc),
  (forall z, (0 <= N z)%Qc) -> (forall z, N z = 0%Qc -> z = c0) -> N c0 = 0%Qc ->
  forall (M : Type) (wt : M -> Qc), (forall m, wt m <> 0%Qc) -> M ->
  forall (rows : nat -> nat -> list K * K) (sys : systems M) (s : nat) (x0 : list K),
  (s < length sys)%nat ->
  let ws := weighted_system_simple K M wt rows sys s in
  consistent K ws x0 -> injective K ws x0 ->
  cost K N ws x0 = 0%Qc /\ minimises K N ws x0 /\
  (forall x, length x = length x0 -> minimises K N ws x -> x = x0) /\
  (forall x, length x = length x0 -> (minimises K N ws x <-> minimises K N (unweighted K ws) x)).
Proof. exact exact_data_simple_weights_as_computed. Qed.
Print Assumptions exact_data_simple_weights_as_computed_thm.

Theorem exact_data_auto_weights_as_computed_thm : forall (K : CField) (N : K -> Qc),
  (forall z, (0 <= N z)%Qc) -> (forall z, N z = 0%Qc -> z = c0) -> N c0 = 0%Qc ->
  forall (M : Type) (wt : M -> Qc), (forall m, wt m <> 0%Qc) -> M ->
  forall (rows : nat -> nat -> list K * K) (sys : systems M) (x0 : list K),
  let ws := weighted_system_auto K M wt rows sys in
  consistent K ws x0 -> injective K ws x0 ->
  cost K N ws x0 = 0%Qc /\ minimises K N ws x0 /\
  (forall x, length x = length x0 -> minimises K N ws x -> x = x0) /\
  (forall x, length x = length x0 -> (minimises K N ws x <-> minimises K N (unweighted K ws) x)).
Proof. exact exact_data_auto_weights_as_computed. Qed.
Print Assumptions exact_data_auto_weights_as_computed_thm.

(* all hypotheses of the link theorem at Q[i]: two systems, weights 1/(m+1), the weights read for
   the second system are those of its own measurements *)
Theorem exact_data_link_hypotheses_satisfiable_thm :
  (forall m, lk_wt m <> 0%Qc) /\ (1 < length lk_sys)%nat /\
  consistent QIF lk_ws ex_x0 /\ injective QIF lk_ws ex_x0 /\
  map (fun e => fst (fst e)) lk_ws = [Q2Qc (1 # 2); Q2Qc (1 # 3); Q2Qc (1 # 7)].
Proof. exact exact_data_link_hypotheses_satisfiable. Qed.
Print Assumptions exact_data_link_hypotheses_satisfiable_thm.

(* ---- the algebra behind it, for an ARBITRARY list of (weight, row, right-hand side): generic
        weighted least squares, not tied to the code (the weights here are free) ---- *)
Theorem lsq_algebra_exact_data_weight_free_thm : forall (K : CField) (N : K -> Qc),
  (forall z, (0 <= N z)%Qc) -> (forall z, N z = 0%Qc -> z = c0) -> N c0 = 0%Qc ->
  forall (sys : list (eqn K)) (x0 : list K),
  consistent K sys x0 -> weights_nonzero K sys -> injective K sys x0 ->
  cost K N sys x0 = 0%Qc /\ minimises K N sys x0 /\
  (forall x, length x = length x0 -> minimises K N sys x -> x = x0).
Proof. exact exact_data_weight_free. Qed.
Print Assumptions lsq_algebra_exact_data_weight_free_thm.

Theorem lsq_algebra_weighted_equals_unweighted_thm : forall (K : CField) (N : K -> Qc),
  (forall z, (0 <= N z)%Qc) -> (forall z, N z = 0%Qc -> z = c0) -> N c0 = 0%Qc ->
  forall (sys : list (eqn K)) (x0 x : list K),
  consistent K sys x0 -> weights_nonzero K sys -> injective K sys x0 -> length x = length x0 ->
  (minimises K N sys x <-> minimises K N (unweighted K sys) x).
Proof. exact weighted_equals_unweighted. Qed.
Print Assumptions lsq_algebra_weighted_equals_unweighted_thm.

Theorem lsq_algebra_hypotheses_satisfiable_thm :
  consistent QIF ex_sys ex_x0 /\ weights_nonzero QIF ex_sys /\ injective QIF ex_sys ex_x0.
Proof. exact exact_data_hypotheses_satisfiable. Qed.
Print Assumptions lsq_algebra_hypotheses_satisfiable_thm.

(* ---- save_v_matrices / restore_v_matrices on checked memory (GuardModel.v): vectors and matrices
        may be absent (NULL) in any pattern; offsets as the code computes them ---- *)
(* save stays inside the buffer of measurement_count * systems * v_cells elements its caller
   allocated, reads only inside existing matrices, never indexes a NULL vector; the buffer then
   holds the existing matrices back to back *)
Theorem save_v_matrices_safe_thm : forall (V : Type) (systems v_cells : nat) (stds : list (vvec V)) (buf : list V),
  (forall vv, In vv stds -> wf_vvec V systems v_cells vv) ->
  length buf = (length stds * systems * v_cells)%nat ->
  save_v_matrices V systems v_cells stds buf =
  MOk (flat_all V stds ++ skipn (length (flat_all V stds)) buf).
Proof. exact save_v_matrices_safe. Qed.
Print Assumptions save_v_matrices_safe_thm.

(* restore after save gives back exactly the saved matrices, whatever was written into the same
   matrices in between (the two walks compute the same offsets), inside all allocations *)
Theorem v_matrices_roundtrip_thm : forall (V : Type) (systems v_cells : nat) (saved now : list (vvec V)) (buf : list V),
  (forall vv, In vv saved -> wf_vvec V systems v_cells vv) ->
  (forall vv, In vv now -> wf_vvec V systems v_cells vv) ->
  Forall2 (same_shape V) saved now ->
  length buf = (length saved * systems * v_cells)%nat ->
  exists buf', save_v_matrices V systems v_cells saved buf = MOk buf' /\ length buf' = length buf /\
               restore_v_matrices V systems v_cells now buf' = MOk saved.
Proof. exact v_matrices_roundtrip. Qed.
Print Assumptions v_matrices_roundtrip_thm.

(* the vectors _vnacal_new_solve_init builds satisfy the well-formedness premise *)
Theorem init_vvec_wf_thm : forall (V : Type) (systems v_cells : nat) (v0 : V) (m_error : bool)
  (unknowns_per_system : nat) (eq_counts : list nat),
  length eq_counts = systems ->
  wf_vvec V systems v_cells (init_vvec V v_cells v0 m_error unknowns_per_system eq_counts).
Proof. exact init_vvec_wf. Qed.
Print Assumptions init_vvec_wf_thm.

(* documents finding D38 (fixed in /repo): the function as it was, testing the address of the
   array element instead of the vector, indexes a NULL vector *)
Theorem save_v_before_D38_faults_thm :
  exists stds buf, (forall vv, In vv stds -> wf_vvec nat 1 4 vv) /\ length buf = (length stds * 1 * 4)%nat /\
                   save_v_matrices_before_D38 nat 1 4 stds buf = MNull.
Proof. exact save_v_before_D38_faults. Qed.
Print Assumptions save_v_before_D38_faults_thm.

(* all premises of the round trip at once: no vector / vector with an absent matrix / two matrices *)
Theorem v_matrices_instance_thm :
  let saved := [None; Some [Some [1; 2]; None]; Some [Some [3; 4]; Some [5; 6]]]%nat in
  let now := [None; Some [Some [0; 0]; None]; Some [Some [9; 9]; Some [8; 8]]]%nat in
  (forall vv, In vv saved -> wf_vvec nat 2 2 vv) /\ (forall vv, In vv now -> wf_vvec nat 2 2 vv) /\
  Forall2 (same_shape nat) saved now /\
  save_v_matrices nat 2 2 saved (repeat 7%nat 12) = MOk [1; 2; 3; 4; 5; 6; 7; 7; 7; 7; 7; 7]%nat /\
  restore_v_matrices nat 2 2 now [1; 2; 3; 4; 5; 6; 7; 7; 7; 7; 7; 7]%nat = MOk saved.
Proof. exact v_matrices_instance. Qed.
Print Assumptions v_matrices_instance_thm.

(* ---- vnacal_new_set_m_error as a state machine over calls (C18MErrorModel.v) ----
   One successful call, on any earlier state (no vector, or the vector left by any earlier call,
   which the code reuses) and whatever malloc returned: the stored vector is what THIS call
   declares; sigma_tr_vector == NULL stores a tracking term of zero. *)
Theorem set_m_error_last_call_wins_thm : forall (R : Type) (r0 : R) (F : nat) (fresh : mvec R)
  (st : option (mvec R)) (nf : list R) (tr : option (list R)),
  state_wf R F st -> call_wf R F (fresh, MSet R nf tr) ->
  set_m_error R r0 true fresh st (MSet R nf tr) = Some (declared R r0 F nf tr).
Proof. exact set_m_error_last_call_wins. Qed.
Print Assumptions set_m_error_last_call_wins_thm.

(* histories: set with / without tracking vector, clear, rejected calls, in any order and number:
   the state is that of the last call that was not rejected *)
Theorem m_error_history_thm : forall (R : Type) (r0 : R) (F : nat) (h : list (mvec R * mcall R))
  (st : option (mvec R)),
  state_wf R F st -> Forall (call_wf R F) h ->
  run R r0 true st h = last_effective R r0 F h st.
Proof. exact run_last_effective. Qed.
Print Assumptions m_error_history_thm.

(* the stored noise / tracking vectors depend only on the last call: two different histories on two
   different structures ending in the same call store the same vector *)
Theorem m_error_depends_only_on_last_call_thm : forall (R : Type) (r0 : R) (F : nat)
  (h1 h2 : list (mvec R * mcall R)) (st1 st2 : option (mvec R)) (fresh1 fresh2 : mvec R)
  (nf : list R) (tr : option (list R)),
  state_wf R F st1 -> state_wf R F st2 -> Forall (call_wf R F) h1 -> Forall (call_wf R F) h2 ->
  call_wf R F (fresh1, MSet R nf tr) -> call_wf R F (fresh2, MSet R nf tr) ->
  run R r0 true st1 (h1 ++ [(fresh1, MSet R nf tr)]) = Some (declared R r0 F nf tr) /\
  run R r0 true st1 (h1 ++ [(fresh1, MSet R nf tr)]) = run R r0 true st2 (h2 ++ [(fresh2, MSet R nf tr)]).
Proof. exact run_depends_only_on_last_call. Qed.
Print Assumptions m_error_depends_only_on_last_call_thm.

Theorem m_error_set_then_set_without_tracking_clears_thm : forall (R : Type) (r0 : R) (F : nat)
  (fresh1 fresh2 : mvec R) (st : option (mvec R)) (nf1 tr1 nf2 : list R),
  state_wf R F st -> call_wf R F (fresh1, MSet R nf1 (Some tr1)) -> call_wf R F (fresh2, MSet R nf2 None) ->
  run R r0 true st [(fresh1, MSet R nf1 (Some tr1)); (fresh2, MSet R nf2 None)] = Some (combine nf2 (repeat r0 F)).
Proof. exact set_then_set_without_tracking_clears. Qed.
Print Assumptions m_error_set_then_set_without_tracking_clears_thm.

Theorem m_error_clear_last_thm : forall (R : Type) (r0 : R) (h : list (mvec R * mcall R)) (st : option (mvec R))
  (fresh : mvec R), run R r0 true st (h ++ [(fresh, MClear R)]) = None.
Proof. exact run_clear_last. Qed.
Print Assumptions m_error_clear_last_thm.

Theorem m_error_invalid_last_thm : forall (R : Type) (r0 : R) (h : list (mvec R * mcall R)) (st : option (mvec R))
  (fresh : mvec R), run R r0 true st (h ++ [(fresh, MInvalid R)]) = run R r0 true st h.
Proof. exact run_invalid_last. Qed.
Print Assumptions m_error_invalid_last_thm.

(* the hypotheses are met by a history with every kind of call *)
Theorem m_error_history_instance_thm :
  let h := [([(91, 92); (93, 94)], MSet nat [1; 2] (Some [3; 4]));
            ([], MInvalid nat);
            ([(95, 96); (97, 98)], MSet nat [5; 6] None)]%nat in
  Forall (call_wf nat 2) h /\
  n_run true None h = Some [(5, 0); (6, 0)]%nat /\
  n_run true None (h ++ [([], MClear nat); ([(81, 82); (83, 84)], MSet nat [7; 8] (Some [9; 10]))])%nat
    = Some [(7, 9); (8, 10)]%nat.
Proof. exact run_instance. Qed.
Print Assumptions m_error_history_instance_thm.

(* model variant without the "always init" loop (vector from calloc, reused): the tracking term of
   an EARLIER call survives a later call with sigma_tr_vector == NULL; a single call agrees *)
Theorem m_error_without_reinit_refuted_thm :
  exists (F : nat) (h : list (mvec nat * mcall nat)),
    Forall (call_wf nat F) h /\
    Forall (fun fc => fst fc = repeat (0, 0)%nat F) h /\
    n_run false None h <> last_effective nat 0%nat F h None /\
    n_run false None h = Some [(5, 3)]%nat /\ last_effective nat 0%nat F h None = Some [(5, 0)]%nat.
Proof. exact without_reinit_keeps_earlier_tracking_refuted. Qed.
Print Assumptions m_error_without_reinit_refuted_thm.

Theorem m_error_without_reinit_single_call_agrees_thm : forall (F : nat) (nf : list nat) (tr : option (list nat)),
  call_wf nat F (repeat (0, 0)%nat F, MSet nat nf tr) ->
  n_run false None [(repeat (0, 0)%nat F, MSet nat nf tr)] = n_run true None [(repeat (0, 0)%nat F, MSet nat nf tr)].
Proof. exact without_reinit_single_call_agrees. Qed.
Print Assumptions m_error_without_reinit_single_call_agrees_thm.

(* ==== vnacal_new_set_m_error with its ARGUMENTS (C18MErrorModel.v, Section Args): validation as coded,
        the three ways of obtaining the values (one point / calibration grid / spline on an own grid;
        the interpolation is an abstract function), any order relation ==== *)
(* THE LAST CALL WINS, for every history: h is any list of calls with any arguments (accepted or
   rejected, any kind of grid, with or without sigma_tr_vector, NULL / NULL) on any earlier state; a call
   that is not rejected then leaves exactly what the same call leaves on a structure that never saw a call
   (whatever malloc returned in either case) *)
Theorem m_error_last_call_wins_thm : forall (R : Type) (r0 : R) (leb ltb : R -> R -> bool)
  (interp : list R -> list R -> R -> R) (env : menv R) (h : list (mvec R * margs R)) (st : option (mvec R))
  (a : margs R) (fresh fresh' : list (R * R)),
  state_wf R (length (en_calf R env)) st -> fresh_ok R env h ->
  length fresh = length (en_calf R env) -> length fresh' = length (en_calf R env) ->
  lower R r0 leb ltb interp env a <> MInvalid R ->
  run_args R r0 leb ltb interp true env st (h ++ [(fresh, a)]) =
  run_args R r0 leb ltb interp true env None [(fresh', a)].
Proof. exact m_error_last_call_wins. Qed.
Print Assumptions m_error_last_call_wins_thm.

Theorem m_error_args_history_thm : forall (R : Type) (r0 : R) (leb ltb : R -> R -> bool)
  (interp : list R -> list R -> R -> R) (env : menv R) (h : list (mvec R * margs R)) (st : option (mvec R)),
  state_wf R (length (en_calf R env)) st -> fresh_ok R env h ->
  run_args R r0 leb ltb interp true env st h =
  last_effective R r0 (length (en_calf R env))
    (map (fun fa : mvec R * margs R => (fst fa, lower R r0 leb ltb interp env (snd fa))) h) st.
Proof. exact run_args_last_effective. Qed.
Print Assumptions m_error_args_history_thm.

(* a call that returns -1 changes nothing (every test precedes the first write) *)
Theorem m_error_rejected_call_ignored_thm : forall (R : Type) (r0 : R) (leb ltb : R -> R -> bool)
  (interp : list R -> list R -> R -> R) (env : menv R) (h : list (mvec R * margs R)) (st : option (mvec R))
  (a : margs R) (fresh : mvec R),
  lower R r0 leb ltb interp env a = MInvalid R ->
  run_args R r0 leb ltb interp true env st (h ++ [(fresh, a)]) = run_args R r0 leb ltb interp true env st h.
Proof. exact m_error_rejected_call_ignored. Qed.
Print Assumptions m_error_rejected_call_ignored_thm.

Theorem m_error_disable_thm : forall (R : Type) (r0 : R) (leb ltb : R -> R -> bool)
  (interp : list R -> list R -> R -> R) (env : menv R) (h : list (mvec R * margs R)) (st : option (mvec R))
  (a : margs R) (fresh : mvec R),
  a_n R a <> 0%nat -> a_nf R a = None -> a_tr R a = None ->
  run_args R r0 leb ltb interp true env st (h ++ [(fresh, a)]) = None.
Proof. exact m_error_disable. Qed.
Print Assumptions m_error_disable_thm.

(* all three kinds of grid, a rejected call, NULL / NULL, a grid that does not cover the calibration range,
   and the model variant without the "always init" loop, in one concrete history *)
Theorem m_error_args_instance_thm :
  let junk := [(91, 92); (93, 94); (95, 96)]%nat in
  let h := [(junk, {| a_fv := Some [5; 40]; a_n := 2; a_nf := Some [1; 2]; a_tr := Some [3; 4] |});
            (junk, {| a_fv := None; a_n := 3; a_nf := Some [1; 0; 2]; a_tr := None |});
            (junk, {| a_fv := None; a_n := 3; a_nf := Some [6; 7; 8]; a_tr := None |})]%nat in
  fresh_ok nat n_env h /\
  n_returns n_env h = [true; false; true] /\
  n_run_args true n_env None (firstn 2 h) = Some [(110, 110); (120, 120); (130, 130)]%nat /\
  n_run_args true n_env None h = Some [(6, 0); (7, 0); (8, 0)]%nat /\
  n_run_args true n_env None (h ++ [(junk, {| a_fv := None; a_n := 1; a_nf := Some [9]; a_tr := Some [4] |})])%nat
    = Some [(9, 4); (9, 4); (9, 4)]%nat /\
  n_run_args true n_env None (h ++ [(junk, {| a_fv := None; a_n := 1%nat; a_nf := None; a_tr := None |})]) = None /\
  n_returns n_env [(junk, {| a_fv := Some [15; 40]; a_n := 2; a_nf := Some [1; 2]; a_tr := None |})]%nat = [false] /\
  n_run_args false n_env None h = Some [(6, 110); (7, 120); (8, 130)]%nat.
Proof. exact run_args_instance. Qed.
Print Assumptions m_error_args_instance_thm.

(* ==== the weight FORMULA and the p-value computation as coded (PvalueModel.v) ==== *)
Local Open Scope Qc_scope.

(* weight2 = |m|^2 tr^2 + nf^2 is positive for sigma_nf > 0 and grows with |m|; the weight
   rsqrt(weight2) falls with |m| for any decreasing rsqrt and never vanishes for any rsqrt with
   rsqrt(a)^2 a = 1; without a tracking term all weights are equal *)
Theorem weight2_pos_thm : forall (C : Type) (N : C -> Qc), (forall z : C, 0 <= N z) ->
  forall (nf tr : Qc) (m : C), 0 < nf -> 0 < weight2 C N nf tr m.
Proof. exact weight2_pos. Qed.
Print Assumptions weight2_pos_thm.

Theorem weight2_monotone_thm : forall (C : Type) (N : C -> Qc) (nf tr : Qc) (m1 m2 : C),
  N m1 <= N m2 -> weight2 C N nf tr m1 <= weight2 C N nf tr m2.
Proof. exact weight2_monotone. Qed.
Print Assumptions weight2_monotone_thm.

Theorem weight_antitone_thm : forall (C : Type) (N : C -> Qc) (rsqrt : Qc -> Qc),
  (forall z : C, 0 <= N z) -> (forall a b : Qc, 0 < a -> a <= b -> rsqrt b <= rsqrt a) ->
  forall (nf tr : Qc) (m1 m2 : C), 0 < nf -> N m1 <= N m2 ->
  weight C N rsqrt nf tr m2 <= weight C N rsqrt nf tr m1.
Proof. exact weight_antitone. Qed.
Print Assumptions weight_antitone_thm.

Theorem weight_without_tracking_thm : forall (C : Type) (N : C -> Qc) (rsqrt : Qc -> Qc) (nf : Qc) (m1 m2 : C),
  weight C N rsqrt nf 0 m1 = weight C N rsqrt nf 0 m2.
Proof. exact weight_without_tracking. Qed.
Print Assumptions weight_without_tracking_thm.

Theorem weight_nonzero_thm : forall (C : Type) (N : C -> Qc) (rsqrt : Qc -> Qc),
  (forall z : C, 0 <= N z) -> (forall a : Qc, 0 < a -> rsqrt a * rsqrt a * a = 1) ->
  forall (nf tr : Qc) (m : C), 0 < nf -> weight C N rsqrt nf tr m <> 0.
Proof. exact weight_nonzero. Qed.
Print Assumptions weight_nonzero_thm.

(* the divisor of the chi-square statistic is the reciprocal square of the weight the solver used *)
Theorem normalised_residual_thm : forall (C : Type) (N : C -> Qc) (rsqrt : Qc -> Qc),
  (forall z : C, 0 <= N z) -> (forall a : Qc, 0 < a -> rsqrt a * rsqrt a * a = 1) ->
  forall (nf tr : Qc) (m : C) (r : Qc), 0 < nf ->
  r / weight2 C N nf tr m = weight C N rsqrt nf tr m * weight C N rsqrt nf tr m * r.
Proof. exact normalised_residual. Qed.
Print Assumptions normalised_residual_thm.

(* ... so that the statistic accumulated over a system is twice the weighted least-squares cost of
   LsqModel for any least-squares form of its equations *)
Theorem chisq_is_twice_cost_thm : forall (K : CField) (N : K -> Qc) (rsqrt : Qc -> Qc),
  (forall z : K, 0 <= N z) -> (forall a : Qc, 0 < a -> rsqrt a * rsqrt a * a = 1) ->
  forall (nf tr : Qc) (x : list K) (off : nat) (es : list (equation K)) (qs : list (eqn K)),
  0 < nf -> Forall2 (lsq_form K N rsqrt nf tr x off) es qs ->
  forall st : Qc * Z,
  fst (fold_left (acc_equation K c0 c1 cadd cmul copp N nf tr x off) es st) = fst st + q_two * cost K N qs x.
Proof. exact chisq_is_twice_cost. Qed.
Print Assumptions chisq_is_twice_cost_thm.

(* the degrees of freedom of calc_stat are WeightModel.dof (dof_count_thm gives the closed form: cells with
   0 or 1 sample contribute 0, a cell with n > 1 samples 2 (n - 1)) of the equation counts and the
   sample counts, whatever the data *)
Theorem calc_stat_df_thm : forall (C : Type) (c0 c1 : C) (cadd cmul : C -> C -> C) (copp : C -> C) (N : C -> Qc)
  (unknowns : nat) (nf tr : Qc) (x : list C) (systems : list (list (equation C))) (leak : option (list (lcell C))),
  snd (calc_stat C c0 c1 cadd cmul copp N unknowns nf tr x systems leak) =
  dof (Z.of_nat unknowns) (map (fun l : list (equation C) => Z.of_nat (length l)) systems)
      match leak with Some cells => map (l_count C) cells | None => [] end.
Proof. exact calc_stat_df. Qed.
Print Assumptions calc_stat_df_thm.

(* EXACT DATA: every residual the code computes is zero and no leakage cell has scatter: the statistic
   is 0, the p-value 1 for EVERY number of equations / samples / degrees of freedom (over-determined
   included), for every sigma_nf, sigma_tr and every exp, erfc, sqrt; never rejected at a limit <= 1 *)
Theorem exact_data_chisq_zero_thm : forall (C : Type) (c0 c1 : C) (cadd cmul : C -> C -> C) (copp : C -> C)
  (N : C -> Qc), N c0 = 0 ->
  forall (unknowns : nat) (nf tr : Qc) (x : list C) (systems : list (list (equation C))) (leak : option (list (lcell C))),
  fits C c0 c1 cadd cmul copp unknowns x systems ->
  match leak with Some cells => Forall (leak_exact C N) cells | None => True end ->
  fst (calc_stat C c0 c1 cadd cmul copp N unknowns nf tr x systems leak) = 0.
Proof. exact exact_data_chisq_zero. Qed.
Print Assumptions exact_data_chisq_zero_thm.

Theorem exact_data_pvalue_one_thm : forall (C : Type) (c0 c1 : C) (cadd cmul : C -> C -> C) (copp : C -> C)
  (N : C -> Qc), N c0 = 0 ->
  forall (exp erfc sqrt : Qc -> Qc) (pi : Qc) (unknowns : nat) (nf tr : Qc) (x : list C)
         (systems : list (list (equation C))) (leak : option (list (lcell C))),
  fits C c0 c1 cadd cmul copp unknowns x systems ->
  match leak with Some cells => Forall (leak_exact C N) cells | None => True end ->
  calc_pvalue C c0 c1 cadd cmul copp N exp erfc sqrt pi unknowns nf tr x systems leak = 1.
Proof. exact exact_data_pvalue_one. Qed.
Print Assumptions exact_data_pvalue_one_thm.

Theorem exact_data_never_rejected_thm : forall (C : Type) (c0 c1 : C) (cadd cmul : C -> C -> C) (copp : C -> C)
  (N : C -> Qc), N c0 = 0 ->
  forall (exp erfc sqrt : Qc -> Qc) (pi : Qc) (st : mstate) (limit : Qc) (findex unknowns : nat) (x : list C)
         (systems : list (list (equation C))) (leak : option (list (lcell C))),
  limit <= 1 -> fits C c0 c1 cadd cmul copp unknowns x systems ->
  match leak with Some cells => Forall (leak_exact C N) cells | None => True end ->
  solve_rejects C c0 c1 cadd cmul copp N exp erfc sqrt pi st limit findex unknowns x systems leak = false.
Proof. exact exact_data_never_rejected. Qed.
Print Assumptions exact_data_never_rejected_thm.

(* a leakage cell all of whose samples are equal (any number of them) has no scatter: Gaussian rationals *)
Theorem equal_samples_leak_exact_thm : forall (l : qi) (n : nat), q_leak_exact (q_leak_of_samples (repeat l n)).
Proof. exact equal_samples_leak_exact. Qed.
Print Assumptions equal_samples_leak_exact_thm.

(* chisq_pvalue(n, 0) = 1 for every n by the "x <= 0" exit; the even-df recurrence agrees with that exit
   when exp 0 = 1 *)
Theorem chisq_pvalue_zero_thm : forall (exp erfc sqrt : Qc -> Qc) (pi : Qc) (n : Z),
  chisq_pvalue exp erfc sqrt pi n 0 = 1.
Proof. exact chisq_pvalue_zero. Qed.
Print Assumptions chisq_pvalue_zero_thm.

Theorem chisq_even_branch_at_zero_thm : forall exp : Qc -> Qc, exp 0 = 1 ->
  forall k : nat, exp (- 0) * even_sum 0 (S k) 0 1 0 = 1.
Proof. exact even_branch_at_zero. Qed.
Print Assumptions chisq_even_branch_at_zero_thm.

(* all hypotheses met at Q[i]: two systems (offsets 0 and 1), negative and right-hand-side terms, leakage
   cells with three equal samples / one / none: statistic 0, df 10; one measurement moved: statistic > 0;
   scattered leakage samples: statistic > 0 *)
Theorem pvalue_hypotheses_satisfiable_thm :
  q_fits 1 ex_x ex_systems /\ Forall q_leak_exact ex_leak /\
  (Qc_eq_bool (fst (q_calc_stat 1 ex_nf ex_tr ex_x ex_systems (Some ex_leak))) 0 = true /\
   snd (q_calc_stat 1 ex_nf ex_tr ex_x ex_systems (Some ex_leak)) = 10%Z /\
   Qc_lt_b 0 (fst (q_calc_stat 1 ex_nf ex_tr ex_x ex_systems_off (Some ex_leak))) = true /\
   snd (q_calc_stat 1 ex_nf ex_tr ex_x ex_systems_off (Some ex_leak)) = 10%Z /\
   Qc_lt_b 0 (fst (q_calc_stat 1 ex_nf ex_tr ex_x ex_systems
                      (Some [q_leak_of_samples [QI (zq 1) (zq 2); QI (zq 1) (zq 3)]]))) = true).
Proof. exact (conj ex_fits (conj ex_leak_exact ex_stat)). Qed.
Print Assumptions pvalue_hypotheses_satisfiable_thm.

Theorem weight2_instance_thm :
  q_weight2 ex_nf ex_tr (qn 1) = Q2Qc (101 # 10000) /\ q_weight2 ex_nf ex_tr (qn 2) = Q2Qc (401 # 10000) /\
  q_weight2 ex_nf 0 (qn 1) = q_weight2 ex_nf 0 (qn 2).
Proof. exact ex_weight2. Qed.
Print Assumptions weight2_instance_thm.

(* exact data with the weight FORMULA (PvalueModel.weight: rsqrt of sigma_nf^2 + sigma_tr^2 |m|^2 of the
   equation's own measurement) indexed as the code indexes it: the link theorems above without the
   abstract "weight function without zeros" -- that premise is discharged by sigma_nf > 0 *)
Theorem exact_data_simple_weight_formula_thm : forall (K : CField) (N : K -> Qc) (rsqrt : Qc -> Qc),
  (forall z : K, 0 <= N z) -> (forall z : K, N z = 0 -> z = c0) -> N c0 = 0 ->
  (forall a : Qc, 0 < a -> rsqrt a * rsqrt a * a = 1) ->
  forall (nf tr : Qc) (rows : nat -> nat -> list K * K) (sys : systems K) (s : nat) (x0 : list K),
  0 < nf -> (s < length sys)%nat ->
  let ws := weighted_system_simple K K (weight K N rsqrt nf tr) rows sys s in
  consistent K ws x0 -> injective K ws x0 ->
  cost K N ws x0 = 0 /\ minimises K N ws x0 /\
  (forall x : list K, length x = length x0 -> minimises K N ws x -> x = x0) /\
  (forall x : list K, length x = length x0 -> minimises K N ws x <-> minimises K N (unweighted K ws) x).
Proof. exact exact_data_simple_weight_formula. Qed.
Print Assumptions exact_data_simple_weight_formula_thm.

Theorem exact_data_auto_weight_formula_thm : forall (K : CField) (N : K -> Qc) (rsqrt : Qc -> Qc),
  (forall z : K, 0 <= N z) -> (forall z : K, N z = 0 -> z = c0) -> N c0 = 0 ->
  (forall a : Qc, 0 < a -> rsqrt a * rsqrt a * a = 1) ->
  forall (nf tr : Qc) (rows : nat -> nat -> list K * K) (sys : systems K) (x0 : list K),
  0 < nf ->
  let ws := weighted_system_auto K K (weight K N rsqrt nf tr) rows sys in
  consistent K ws x0 -> injective K ws x0 ->
  cost K N ws x0 = 0 /\ minimises K N ws x0 /\
  (forall x : list K, length x = length x0 -> minimises K N ws x -> x = x0) /\
  (forall x : list K, length x = length x0 -> minimises K N ws x <-> minimises K N (unweighted K ws) x).
Proof. exact exact_data_auto_weight_formula. Qed.
Print Assumptions exact_data_auto_weight_formula_thm.

(* DISABLING: after any history of calls on any state, NULL / NULL (frequencies >= 1) leaves the state of
   a structure that never had a noise model, and a solve on it multiplies no equation, computes no
   p-value, rejects nothing *)
Theorem disable_restores_thm : forall (C : Type) (c0 c1 : C) (cadd cmul : C -> C -> C) (copp : C -> C)
  (N : C -> Qc) (rsqrt exp erfc sqrt : Qc -> Qc) (pi : Qc) (leb ltb : Qc -> Qc -> bool)
  (interp : list Qc -> list Qc -> Qc -> Qc) (env : menv Qc) (h : list (mvec Qc * margs Qc))
  (st : option (mvec Qc)) (fresh : mvec Qc) (a : margs Qc),
  a_n Qc a <> 0%nat -> a_nf Qc a = None -> a_tr Qc a = None ->
  let after := run_args Qc 0 leb ltb interp true env st (h ++ [(fresh, a)]) in
  let never := run_args Qc 0 leb ltb interp true env None [] in
  after = never /\
  (forall (findex : nat) (m : C), eq_factor C N rsqrt after findex m = 1) /\
  (forall (limit : Qc) (findex unknowns : nat) (x : list C) (systems : list (list (equation C)))
          (leak : option (list (lcell C))),
     solve_pvalue C c0 c1 cadd cmul copp N exp erfc sqrt pi after limit findex unknowns x systems leak = None /\
     solve_rejects C c0 c1 cadd cmul copp N exp erfc sqrt pi after limit findex unknowns x systems leak = false).
Proof. exact disable_restores. Qed.
Print Assumptions disable_restores_thm.

(* ================================================================ session 5, package G:
   the V-matrix machinery of _vnacal_new_solve_simple (SelfCal/VMatrixModel.v) *)
Require Import LV.SelfCal.VMatrixModel LV.SelfCal.ExactOverModel LV.SelfCal.ExactOverProofs LV.SelfCal.ExactOverExample.

(* THE ROW THEOREM.  For every field, every calibration type / dimension the model covers, every
   equation whose standard measured exactly what x predicts (for every v_cell the terms carrying it
   sum to zero at x, V factor and weight left out): the coefficient row the code builds from it with
   ANY V-matrix state (none, identity, any matrix) and ANY weight (or none) has the right length and is
   solved by x. *)
Theorem exact_rows_hold_for_every_v_thm : forall (K : CField) (ofq : Qc -> K) (p : vprob K) (x : list K) (e : veq),
  eq_wf K p e -> eq_exact K ofq p x e ->
  forall (st : vstate K) (sindex : nat) (w : option Qc),
  let rb := build_eq K ofq p st sindex w e in
  length (fst rb) = vp_unknowns p /\ dot K (fst rb) x = snd rb.
Proof. exact row_holds_any_v. Qed.
Print Assumptions exact_rows_hold_for_every_v_thm.

(* EXACT OVER-DETERMINED DATA ARE A FIXED POINT OF THE SOLVE WITH THE MODEL ON.
   For every field with a positive definite squared modulus, every 1/sqrt, every inverse routine and
   every pair of linear solvers that return a least-squares minimiser whenever the matrix has full
   column rank (solver_spec), every problem p (type, dimensions, standards, term lists, noise model
   on or off) and solution xs (one block per system) such that every equation is exact for its block,
   every system has at least as many equations as unknowns, the V update at the truth is regular and
   every coefficient matrix built on a V state the solve can reach has full column rank; for EVERY
   solve state left by an earlier frequency, every et_tolerance, every initial x and every iteration
   limit >= 2: _vnacal_new_solve_simple returns xs, with one or two passes per system (the loop over V
   ends at its second convergence test at the latest). *)
Theorem exact_data_fixed_point_thm : forall (K : CField) (N : K -> Qc) (rsqrt : Qc -> Qc) (ofq : Qc -> K)
  (minv : nat -> list K -> option (list K))
  (solve_sq solve_ls : nat -> list (list K) -> list K -> option (list K)),
  (forall z : K, 0 <= N z) -> (forall z : K, N z = 0 -> z = c0) -> N c0 = 0 ->
  solver_spec K N solve_sq -> solver_spec K N solve_ls ->
  forall (p : vprob K) (xs : list (list K)) (tol : Qc) (limit : nat) (xinit : list K) (st_prev : vstate K),
  blocks_wf K p xs -> data_exact K ofq p xs ->
  (forall es, In es (vp_systems p) -> (vp_unknowns p <= length es)%nat) -> (2 <= limit)%nat ->
  full_rank_on K ofq minv p xs (calc_weights K N rsqrt p) (init_v_matrices K (v_n K p) st_prev) ->
  v_regular K minv p xs ->
  exists st' ns, solve_frequency K N rsqrt ofq minv solve_sq solve_ls tol limit xinit st_prev p
                 = SOk (concat xs, st', ns) /\
                 Forall (fun n => (1 <= n <= 2)%nat) ns /\ length ns = length (vp_systems p).
Proof. exact exact_data_fixed_point_l. Qed.
Print Assumptions exact_data_fixed_point_thm.

(* all premises at Q[i] on the term lists the library builds for a 1 x 1 T8 calibration (four
   reflect standards, 4 equations, 3 unknowns, noise model on, 1 x 1 V matrices that are not 1): the
   equations are well formed and exact for the truth, the model run returns the truth with two
   passes, the unweighted solve returns the same vector *)
Theorem exact_data_fixed_point_instance_thm :
  ex_wf = true /\ ex_exact = true /\ ex_solve_weighted = true /\ ex_solve_plain = true.
Proof. exact exact_data_instance. Qed.
Print Assumptions exact_data_fixed_point_instance_thm.

(* the bound 2 <= limit of exact_data_fixed_point_thm is sharp: with vnacal_new_set_iteration_limit(1)
   the same exact data end in "measurement error model failed to converge" (the first convergence
   test compares the solution with the initial "perfect" error terms) *)
Theorem iteration_limit_one_refuses_exact_data_thm : ex_solve_limit1 = true.
Proof. exact iteration_limit_one_instance. Qed.
Print Assumptions iteration_limit_one_refuses_exact_data_thm.

(* ================================================================ session 5, package G, second round *)
Require Import LV.SelfCal.VMatrixProofs LV.SelfCal.ExactOverPvalue LV.SelfCal.ExactOverPhysical.
Require Import LV.Interp.QOrd LV.Interp.SplineModel.
Require Import LV.SelfCal.VMatrixNoise LV.SelfCal.VMatrixNoiseProofs LV.SelfCal.VMatrixNoiseExample.

(* V IS RE-INITIALISED AT EVERY FREQUENCY.  For every field, solver, tolerance, limit, initial x, every
   list of per-frequency problems and every two solve states with the same pointers NULL (one vector
   entry per standard): the loop over the frequencies that threads the solve state from one frequency
   to the next computes exactly what solving every frequency on the state st' computes -- results
   and the failure that ends the loop.  The result at a frequency does not depend on the frequencies
   solved before it, nor on the contents of the V matrices it inherits. *)
Theorem v_reinit_per_frequency_thm : forall (K : CField) (N : K -> Qc) (rsqrt : Qc -> Qc) (ofq : Qc -> K)
  (minv : nat -> list K -> option (list K))
  (solve_sq solve_ls : nat -> list (list K) -> list K -> option (list K))
  (tol : Qc) (limit : nat) (xinit : list K) (ps : list (vprob K)) (st st' : vstate K),
  (forall p, In p ps -> length (vp_stds p) = length st) -> shape K st = shape K st' ->
  solve_frequencies K N rsqrt ofq minv solve_sq solve_ls tol limit xinit st ps =
  solve_each K N rsqrt ofq minv solve_sq solve_ls tol limit xinit st' ps.
Proof. exact v_reinit_per_frequency_l. Qed.
Print Assumptions v_reinit_per_frequency_thm.

(* MODEL OFF = UNWEIGHTED SOLVE, and BOTH VECTORS NULL RESTORE IT: for every history of
   vnacal_new_set_m_error calls with any arguments on any earlier state that ends with (NULL, NULL),
   a solve whose noise element is read from the stored vector returns what the unweighted solve
   returns (same vector, same failure) *)
Theorem model_off_is_unweighted_thm : forall (K : CField) (N : K -> Qc) (rsqrt : Qc -> Qc) (ofq : Qc -> K)
  (minv : nat -> list K -> option (list K))
  (solve_sq solve_ls : nat -> list (list K) -> list K -> option (list K))
  (p : vprob K) (tol : Qc) (limit : nat) (xinit : list K), vp_noise p = None ->
  x_of K (solve_frequency K N rsqrt ofq minv solve_sq solve_ls tol limit xinit (alloc_v K p) p) =
  plain_systems K ofq solve_sq solve_ls p (vp_systems p).
Proof. exact model_off_is_plain_l. Qed.
Print Assumptions model_off_is_unweighted_thm.

Theorem both_null_restores_thm : forall (K : CField) (N : K -> Qc) (rsqrt : Qc -> Qc) (ofq : Qc -> K)
  (minv : nat -> list K -> option (list K)) (solve_sq solve_ls : nat -> list (list K) -> list K -> option (list K))
  (leb ltb : Qc -> Qc -> bool) (interp : list Qc -> list Qc -> Qc -> Qc) (env : menv Qc)
  (h : list (mvec Qc * margs Qc)) (st : option (mvec Qc)) (fresh : mvec Qc) (a : margs Qc)
  (p : vprob K) (findex : nat) (tol : Qc) (limit : nat) (xinit : list K),
  a_n Qc a <> 0%nat -> a_nf Qc a = None -> a_tr Qc a = None ->
  vp_noise p = noise_at (run_args Qc 0 leb ltb interp true env st (h ++ [(fresh, a)])) findex ->
  x_of K (solve_frequency K N rsqrt ofq minv solve_sq solve_ls tol limit xinit (alloc_v K p) p) =
  plain_systems K ofq solve_sq solve_ls p (vp_systems p).
Proof. exact both_null_restores_l. Qed.
Print Assumptions both_null_restores_thm.

(* THE BRIDGE: exact data fit in the sense of the p-value theorems, on every V state *)
Theorem exact_data_fits_thm : forall (K : CField) (ofq : Qc -> K) (p : vprob K) (xs : list (list K)),
  blocks_wf K p xs -> data_exact K ofq p xs -> forall st : vstate K,
  fits K c0 c1 cadd cmul copp (vp_unknowns p) (concat xs) (pv_systems K p st 0 (vp_systems p)).
Proof. exact exact_data_fits. Qed.
Print Assumptions exact_data_fits_thm.

(* EXACT OVER-DETERMINED DATA ARE NEVER REJECTED, END TO END ON THE MODELS: the solve with the noise
   model on returns the truth, and for the residuals calc_pvalue computes on the V state the solve
   ended with, every sigma_nf / sigma_tr, every exp / erfc / sqrt: the statistic is 0, the p-value is 1
   (for EVERY number of degrees of freedom) and the verdict at any limit <= 1 is "not rejected".
   Premises as in exact_data_fixed_point_thm, plus: leakage cells without scatter. *)
Theorem exact_data_never_rejected_end_to_end_thm : forall (K : CField) (N : K -> Qc) (rsqrt : Qc -> Qc) (ofq : Qc -> K)
  (minv : nat -> list K -> option (list K))
  (solve_sq solve_ls : nat -> list (list K) -> list K -> option (list K))
  (exp erfc sqrt : Qc -> Qc) (pi : Qc),
  (forall z : K, 0 <= N z) -> (forall z : K, N z = 0 -> z = c0) -> N c0 = 0 ->
  solver_spec K N solve_sq -> solver_spec K N solve_ls ->
  forall (p : vprob K) (xs : list (list K)) (tol : Qc) (limit : nat) (xinit : list K) (st_prev : vstate K)
         (leak : option (list (lcell K))) (ms : mstate) (findex : nat) (plimit : Qc),
  blocks_wf K p xs -> data_exact K ofq p xs ->
  (forall es, In es (vp_systems p) -> (vp_unknowns p <= length es)%nat) -> (2 <= limit)%nat ->
  full_rank_on K ofq minv p xs (calc_weights K N rsqrt p) (init_v_matrices K (v_n K p) st_prev) ->
  v_regular K minv p xs ->
  match leak with Some cells => Forall (leak_exact K N) cells | None => True end ->
  plimit <= 1 ->
  exists st' ns,
    solve_frequency K N rsqrt ofq minv solve_sq solve_ls tol limit xinit st_prev p = SOk (concat xs, st', ns) /\
    forall nf tr,
    fst (calc_stat K c0 c1 cadd cmul copp N (vp_unknowns p) nf tr (concat xs)
                   (pv_systems K p st' 0 (vp_systems p)) leak) = 0 /\
    calc_pvalue K c0 c1 cadd cmul copp N exp erfc sqrt pi (vp_unknowns p) nf tr (concat xs)
                (pv_systems K p st' 0 (vp_systems p)) leak = 1 /\
    solve_rejects K c0 c1 cadd cmul copp N exp erfc sqrt pi ms plimit findex (vp_unknowns p) (concat xs)
                  (pv_systems K p st' 0 (vp_systems p)) leak = false.
Proof. exact exact_data_never_rejected_end_to_end_l. Qed.
Print Assumptions exact_data_never_rejected_end_to_end_thm.

(* PHYSICAL EXACTNESS, T8 / TE10 and U8 / UE10, 1 x 1 and 2 x 2 (bounded): measurements of an error
   network of the type -- M (Tx S + Tm) = Ts S + Ti, resp. Um M + Ui = S (Ux M + Us), entrywise --
   make every v_cell group of every equation the library builds (build_terms_t8 / build_terms_u8, tied)
   vanish, for EVERY connectivity pattern and EVERY pattern of S cells entered as the zero parameter *)
Theorem physical_exactness_t8_2x2_thm : forall (K : CField) (ofq : Qc -> K) (conn szero : nat -> bool)
  (m0 m1 m2 m3 s0 s1 s2 s3 ts0 ts1 ti0 ti1 tx0 tx1 tm1 : K),
  let m := [m0; m1; m2; m3] in let s := [s0; s1; s2; s3] in let x := [ts0; ts1; ti0; ti1; tx0; tx1; tm1] in
  (forall c, (c < 4)%nat -> szero c = true -> xg K s c = c0) ->
  t8_relation K 2 m s x ->
  forall r c, (r < 2)%nat -> (c < 2)%nat -> forall v,
  group_res K ofq (Build_vstd K m s [true; true; true; true]) x (build_terms_t8 2 2 r c conn szero) v = c0.
Proof. exact t8_2x2_exact. Qed.
Print Assumptions physical_exactness_t8_2x2_thm.

Theorem physical_exactness_u8_2x2_thm : forall (K : CField) (ofq : Qc -> K) (conn szero : nat -> bool)
  (m0 m1 m2 m3 s0 s1 s2 s3 um1 ui0 ui1 ux0 ux1 us0 us1 : K),
  let m := [m0; m1; m2; m3] in let s := [s0; s1; s2; s3] in let x := [um1; ui0; ui1; ux0; ux1; us0; us1] in
  (forall c, (c < 4)%nat -> szero c = true -> xg K s c = c0) ->
  u8_relation K 2 m s x ->
  forall r c, (r < 2)%nat -> (c < 2)%nat -> forall v,
  group_res K ofq (Build_vstd K m s [true; true; true; true]) x (build_terms_u8 2 2 r c conn szero) v = c0.
Proof. exact u8_2x2_exact. Qed.
Print Assumptions physical_exactness_u8_2x2_thm.

Theorem physical_exactness_t8_1x1_thm : forall (K : CField) (ofq : Qc -> K) (conn szero : nat -> bool)
  (m0 s0 ts0 ti0 tx0 : K),
  (szero 0%nat = true -> s0 = c0) -> t8_relation K 1 [m0] [s0] [ts0; ti0; tx0] ->
  forall v, group_res K ofq (Build_vstd K [m0] [s0] [true]) [ts0; ti0; tx0] (build_terms_t8 1 1 0 0 conn szero) v = c0.
Proof. exact t8_1x1_exact. Qed.
Print Assumptions physical_exactness_t8_1x1_thm.

Theorem physical_exactness_u8_1x1_thm : forall (K : CField) (ofq : Qc -> K) (conn szero : nat -> bool)
  (m0 s0 ui0 ux0 us0 : K),
  (szero 0%nat = true -> s0 = c0) -> u8_relation K 1 [m0] [s0] [ui0; ux0; us0] ->
  forall v, group_res K ofq (Build_vstd K [m0] [s0] [true]) [ui0; ux0; us0] (build_terms_u8 1 1 0 0 conn szero) v = c0.
Proof. exact u8_1x1_exact. Qed.
Print Assumptions physical_exactness_u8_1x1_thm.

(* NOISE VECTORS ON THEIR OWN GRID PASS THROUGH THE GIVEN POINTS: the interpolation of
   C18MErrorModel instantiated with the spline model of property C10 (VMatrixNoise.noise_interp =
   spline_calc once + spline_eval per calibration frequency).  After any history on any well-formed
   state, an accepted call on an own grid of n >= 2 points with gaps >= MIN_DX > 0 stores, at a
   calibration frequency equal to the k-th grid point, exactly sigma_nf[k] and sigma_tr[k]. *)
Theorem stored_noise_at_knot_thm : forall (min_dx : Qc), 0 < min_dx ->
  forall (env : menv Qc) (h : list (mvec Qc * margs Qc)) (st : option (mvec Qc)) (fresh : mvec Qc) (a : margs Qc)
         (fv nf vnf : list Qc) (vtr : option (list Qc)) (j : nat) (k : Z),
  state_wf Qc (length (en_calf Qc env)) st -> fresh_ok Qc env h ->
  length fresh = length (en_calf Qc env) ->
  q_lower min_dx env a = MSet Qc vnf vtr -> a_fv Qc a = Some fv -> a_nf Qc a = Some nf ->
  (2 <= a_n Qc a)%nat -> (a_n Qc a <= length fv)%nat -> (a_n Qc a <= length nf)%nat ->
  match a_tr Qc a with Some tr => (a_n Qc a <= length tr)%nat | None => True end ->
  (forall i, (0 <= i < Z.of_nat (a_n Qc a) - 1)%Z -> min_dx <= gq fv (i + 1) - gq fv i) ->
  (j < length (en_calf Qc env))%nat -> (0 <= k < Z.of_nat (a_n Qc a))%Z ->
  nth j (en_calf Qc env) 0 = gq fv k ->
  exists v, q_run_args min_dx env st (h ++ [(fresh, a)]) = Some v /\
            fst (nth j v (0, 0)) = gq nf k /\
            snd (nth j v (0, 0)) = match a_tr Qc a with Some tr => gq tr k | None => 0 end.
Proof. exact stored_noise_at_knot_l. Qed.
Print Assumptions stored_noise_at_knot_thm.

(* ... and data on a line are reproduced at EVERY calibration frequency, on the grid, between its
   points and outside it (for two points: every data are on a line, package M's sigma_two_points) *)
Theorem stored_noise_linear_thm : forall (min_dx : Qc), 0 < min_dx ->
  forall (env : menv Qc) (h : list (mvec Qc * margs Qc)) (st : option (mvec Qc)) (fresh : mvec Qc) (a : margs Qc)
         (fv nf vnf : list Qc) (vtr : option (list Qc)) (p q : Qc) (j : nat),
  state_wf Qc (length (en_calf Qc env)) st -> fresh_ok Qc env h ->
  length fresh = length (en_calf Qc env) ->
  q_lower min_dx env a = MSet Qc vnf vtr -> a_fv Qc a = Some fv -> a_nf Qc a = Some nf ->
  (2 <= a_n Qc a)%nat -> (a_n Qc a <= length fv)%nat -> (a_n Qc a <= length nf)%nat ->
  (forall i, (0 <= i < Z.of_nat (a_n Qc a) - 1)%Z -> min_dx <= gq fv (i + 1) - gq fv i) ->
  (forall i, (0 <= i < Z.of_nat (a_n Qc a))%Z -> gq nf i = p + q * gq fv i) ->
  (j < length (en_calf Qc env))%nat ->
  exists v, q_run_args min_dx env st (h ++ [(fresh, a)]) = Some v /\
            fst (nth j v (0, 0)) = p + q * nth j (en_calf Qc env) 0.
Proof. exact stored_noise_linear_l. Qed.
Print Assumptions stored_noise_linear_thm.

(* the premises are met: four calibration frequencies, an own grid of four points with curved sigma
   values, after a history with an earlier accepted and a rejected call: the stored vector holds the
   given values at the two calibration frequencies that are grid points, and NOT the chord between them *)
Theorem stored_noise_instance_thm : ex_accepted = true /\ ex_stored_ok = true.
Proof. exact stored_noise_instance. Qed.
Print Assumptions stored_noise_instance_thm.

(* ================================================================ package G, third round (review R3) *)
Require Import LV.Lin.LuQI2 LV.SelfCal.VMatrixQI LV.SelfCal.ExactOverSatisfiable.

(* full_rank_on now binds w_offset to the value the code uses (woff_of: the equations of the systems
   before s); with a free offset the premise was unsatisfiable (weights read beyond the vector are 0).
   CORE FORM of the fixed-point theorem: the solver premise is solver_exact_on -- on the coefficient
   matrices of this solve, a consistent system of full column rank is answered by its solution (what
   solver_spec implies: ExactOverProofs.solver_spec_exact_on); only N 0 = 0 is needed of N. *)
Theorem exact_data_fixed_point_core_thm : forall (K : CField) (N : K -> Qc) (rsqrt : Qc -> Qc) (ofq : Qc -> K)
  (minv : nat -> list K -> option (list K))
  (solve_sq solve_ls : nat -> list (list K) -> list K -> option (list K)),
  N c0 = 0 ->
  forall (p : vprob K) (xs : list (list K)) (tol : Qc) (limit : nat) (xinit : list K) (st_prev : vstate K),
  blocks_wf K p xs -> data_exact K ofq p xs ->
  (forall es, In es (vp_systems p) -> (vp_unknowns p <= length es)%nat) -> (2 <= limit)%nat ->
  full_rank_on K ofq minv p xs (calc_weights K N rsqrt p) (init_v_matrices K (v_n K p) st_prev) ->
  v_regular K minv p xs ->
  solver_exact_on K ofq minv solve_sq solve_ls p xs (calc_weights K N rsqrt p) (init_v_matrices K (v_n K p) st_prev) ->
  exists st' ns, solve_frequency K N rsqrt ofq minv solve_sq solve_ls tol limit xinit st_prev p
                 = SOk (concat xs, st', ns) /\
                 Forall (fun n => (1 <= n <= 2)%nat) ns /\ length ns = length (vp_systems p).
Proof. exact exact_data_fixed_point_core. Qed.
Print Assumptions exact_data_fixed_point_core_thm.

(* SATISFIABLE, by APPLYING the theorem: every premise is proved for the instance ex_on (T8 1 x 1, four
   reflect standards, the library's term lists, noise model on, weights 1/(1 + radicand)):
   ex_blocks, ex_data (from the boolean forms by reflection), ex_counts, ex_full_rank (both V states the
   solve reaches, certificate: the least-squares oracle answers), ex_regular, ex_solver *)
Theorem exact_data_fixed_point_satisfiable : forall (tol : Qc) (limit : nat) (xinit : list qi), (2 <= limit)%nat ->
  exists st' ns, solve_frequency QIF qi_nrm ex_rsqrt qi_of_Qc q_minv q_solve_sq q_solve_ls tol limit xinit (alloc_v QIF ex_on) ex_on
                 = SOk (concat xs0, st', ns) /\
                 Forall (fun n => (1 <= n <= 2)%nat) ns /\ length ns = length (vp_systems ex_on).
Proof.
  intros tol limit xinit Hl.
  exact (exact_data_fixed_point_core_thm QIF qi_nrm ex_rsqrt qi_of_Qc q_minv q_solve_sq q_solve_ls qi_nrm_c0
           ex_on xs0 tol limit xinit (alloc_v QIF ex_on) ex_blocks ex_data ex_counts Hl ex_full_rank ex_regular ex_solver).
Qed.
Print Assumptions exact_data_fixed_point_satisfiable.

(* the end-to-end theorem applied to the same instance: statistic 0, p-value 1, not rejected *)
Theorem exact_data_never_rejected_satisfiable : forall (exp erfc sqrt : Qc -> Qc) (pi tol : Qc) (limit : nat) (xinit : list qi)
  (ms : mstate) (findex : nat) (plimit : Qc), (2 <= limit)%nat -> plimit <= 1 ->
  exists st' ns,
    solve_frequency QIF qi_nrm ex_rsqrt qi_of_Qc q_minv q_solve_sq q_solve_ls tol limit xinit (alloc_v QIF ex_on) ex_on
      = SOk (concat xs0, st', ns) /\
    forall nf tr,
    fst (calc_stat QIF c0 c1 cadd cmul copp qi_nrm (vp_unknowns ex_on) nf tr (concat xs0)
                   (pv_systems QIF ex_on st' 0 (vp_systems ex_on)) None) = 0 /\
    calc_pvalue QIF c0 c1 cadd cmul copp qi_nrm exp erfc sqrt pi (vp_unknowns ex_on) nf tr (concat xs0)
                (pv_systems QIF ex_on st' 0 (vp_systems ex_on)) None = 1 /\
    solve_rejects QIF c0 c1 cadd cmul copp qi_nrm exp erfc sqrt pi ms plimit findex (vp_unknowns ex_on) (concat xs0)
                  (pv_systems QIF ex_on st' 0 (vp_systems ex_on)) None = false.
Proof. exact exact_data_never_rejected_satisfiable_l. Qed.
Print Assumptions exact_data_never_rejected_satisfiable.

(* stored_noise_at_knot_thm APPLIED to the instance of VMatrixNoiseExample (state_wf, fresh_ok, the
   accepted call, lengths, gaps, the knot: all discharged) *)
Theorem stored_noise_at_knot_satisfiable :
  exists v, q_run_args ex_mdx ex_env None (ex_h ++ [(ex_fresh, ex_call)]) = Some v /\
            fst (nth 1 v (0, 0)) = gq ex_nf 1 /\ snd (nth 1 v (0, 0)) = gq ex_tr 1.
Proof.
  exact (stored_noise_at_knot_thm ex_mdx ex_mdx_pos ex_env ex_h None ex_fresh ex_call ex_fv ex_nf _ _ 1%nat 1%Z
           I ex_fresh_ok eq_refl ex_lower_accepts eq_refl eq_refl
           ex_n_ge2 ex_n_le4 ex_n_le4 ex_tr_len ex_gaps ex_j ex_k eq_refl).
Qed.
Print Assumptions stored_noise_at_knot_satisfiable.

(* PHYSICAL EXACTNESS COMPOSED INTO data_exact (2-port T8 / TE10 and U8 / UE10, one system, 7 unknowns):
   a problem all of whose equations are built by build_terms_t8 / _u8 from standards measured through an
   error network with terms x (sd_sk arbitrary) satisfies the premise data_exact of the theorems above *)
Theorem physical_data_exact_t8_2x2_thm : forall (K : CField) (ofq : Qc -> K) (p : vprob K) (es : list veq)
  (ts0 ts1 ti0 ti1 tx0 tx1 tm1 : K),
  let x := [ts0; ts1; ti0; ti1; tx0; tx1; tm1] in
  vp_unknowns p = 7%nat -> vp_systems p = [es] ->
  (forall e, In e es -> from_network_2x2 K build_terms_t8 (t8_relation K) p x e) ->
  data_exact K ofq p [x].
Proof. exact t8_2x2_data_exact. Qed.
Print Assumptions physical_data_exact_t8_2x2_thm.

Theorem physical_data_exact_u8_2x2_thm : forall (K : CField) (ofq : Qc -> K) (p : vprob K) (es : list veq)
  (um1 ui0 ui1 ux0 ux1 us0 us1 : K),
  let x := [um1; ui0; ui1; ux0; ux1; us0; us1] in
  vp_unknowns p = 7%nat -> vp_systems p = [es] ->
  (forall e, In e es -> from_network_2x2 K build_terms_u8 (u8_relation K) p x e) ->
  data_exact K ofq p [x].
Proof. exact u8_2x2_data_exact. Qed.
Print Assumptions physical_data_exact_u8_2x2_thm.

(* ofq (the conversion double -> double complex, a Section variable of VMatrixModel): the theorems above
   hold for EVERY ofq; its intended laws -- ofq 0 = 0, ofq 1 = 1, additive, multiplicative,
   |z ofq(a)|^2 = a^2 |z|^2 -- hold of the conversion qi_of_Qc used by every instance *)
Theorem ofq_instance_laws_thm :
  qi_of_Qc 0 = @c0 QIF /\ qi_of_Qc 1 = @c1 QIF /\
  (forall a b, qi_of_Qc (a + b) = @cadd QIF (qi_of_Qc a) (qi_of_Qc b)) /\
  (forall a b, qi_of_Qc (a * b) = @cmul QIF (qi_of_Qc a) (qi_of_Qc b)) /\
  (forall a (z : qi), qi_nrm (@cmul QIF z (qi_of_Qc a)) = a * a * qi_nrm z).
Proof. exact qi_of_Qc_laws. Qed.
Print Assumptions ofq_instance_laws_thm.
