(* C18 - measurement-error modelling.
   Theorems only: each is closed by [exact] of a lemma of coq/SelfCal/*.v. *)
Require Import QArith Qcanon List ZArith.
Import ListNotations.
Require Import LV.Base.CField LV.Base.QcI.
Require Import LV.SelfCal.WeightModel LV.SelfCal.WeightProofs LV.SelfCal.WeightQI.
Require Import LV.SelfCal.LsqModel LV.SelfCal.LsqProofs LV.SelfCal.LsqLinkModel LV.SelfCal.LsqLinkProofs.
Require Import LV.SelfCal.GuardModel LV.SelfCal.GuardProofs.

(* ---- the weight of every equation is the one computed from its own measurement ----
   These theorems are about INDEX ALIGNMENT: which measurement w_vector[i] was computed from and
   which element each consumer reads.  The weight function wt (1 / sqrt(sigma_nf^2 + sigma_tr^2 |m|^2))
   is an abstract Section variable: its formula, and the same expression used as the chi-square
   divisor, appear in no theorem (they are compared numerically by the white-box tie). *)
(* form of the source with one running index and the per-system offset in solve_simple *)
Theorem weights_aligned_thm : forall (M R : Type) (wt : M -> R) (r0 : R) (m0 : M)
  (sys : systems M) (s e : nat),
  (s < length sys)%nat -> (e < length (nth s sys []))%nat ->
  weight_simple M R wt r0 false true sys s e = own_weight M R wt m0 sys s e /\
  weight_auto M R wt r0 false sys s e = own_weight M R wt m0 sys s e.
Proof. exact weights_aligned. Qed.
Print Assumptions weights_aligned_thm.

(* every form of the source is right when there is one system (all types but UE14 / E12) *)
Theorem weights_aligned_single_system_thm : forall (M R : Type) (wt : M -> R) (r0 : R) (m0 : M)
  (eqs : list M) (e : nat) (restart offset : bool),
  (e < length eqs)%nat ->
  weight_simple M R wt r0 restart offset [eqs] 0 e = wt (nth e eqs m0) /\
  weight_auto M R wt r0 restart [eqs] 0 e = wt (nth e eqs m0).
Proof. exact weights_aligned_single_system. Qed.
Print Assumptions weights_aligned_single_system_thm.

(* model variants documenting finding D20 (fixed in /repo): the form of the source in which k
   restarted in every system and solve_simple read without offset *)
Theorem weights_aligned_refuted_simple_thm :
  exists sys s e, (s < length sys)%nat /\ (e < length (nth s sys []))%nat /\
                  w_simple true false sys s e <> w_own sys s e.
Proof. exact weights_aligned_refuted_simple. Qed.
Print Assumptions weights_aligned_refuted_simple_thm.

Theorem weights_aligned_refuted_auto_thm :
  exists sys s e, (s < length sys)%nat /\ (e < length (nth s sys []))%nat /\
                  w_auto true sys s e <> w_own sys s e /\ w_auto true sys s e = 0%nat.
Proof. exact weights_aligned_refuted_auto. Qed.
Print Assumptions weights_aligned_refuted_auto_thm.

Theorem weights_half_repaired_refuted_thm :
  (exists sys s e, (s < length sys)%nat /\ (e < length (nth s sys []))%nat /\
                   w_simple false false sys s e <> w_own sys s e) /\
  (exists sys s e, (s < length sys)%nat /\ (e < length (nth s sys []))%nat /\
                   w_simple true true sys s e <> w_own sys s e).
Proof. exact weights_half_repaired_refuted. Qed.
Print Assumptions weights_half_repaired_refuted_thm.

Theorem weights_aligned_instance_thm :
  let sys := [[5; 7; 9]; [11]; [13; 15]]%nat in
  forallb (fun '(s, e) => Nat.eqb (w_simple false true sys s e) (w_own sys s e) &&
                          Nat.eqb (w_auto false sys s e) (w_own sys s e))
          [(0,0); (0,1); (0,2); (1,0); (2,0); (2,1)]%nat = true.
Proof. exact weights_aligned_instance. Qed.
Print Assumptions weights_aligned_instance_thm.

(* ---- degrees of freedom and the verdict ---- *)
Theorem dof_count_thm : forall (unknowns : Z) (eq_counts leak_counts : list Z),
  dof unknowns eq_counts leak_counts =
  (2 * (zsum eq_counts - Z.of_nat (length eq_counts) * unknowns) + zsum (map leak_term leak_counts))%Z.
Proof. exact dof_count. Qed.
Print Assumptions dof_count_thm.

Theorem dof_exactly_determined_thm : forall (unknowns : Z) (k : nat),
  dof unknowns (repeat unknowns k) [] = 0%Z.
Proof. exact dof_exactly_determined. Qed.
Print Assumptions dof_exactly_determined_thm.

Theorem dof_instances_thm : dof 7 [16%Z] [] = 18%Z /\ dof 5 [8; 8]%Z [4; 4]%Z = 24%Z.
Proof. exact dof_instances. Qed.
Print Assumptions dof_instances_thm.

(* "if (df < 1) return 1.0;" (1.0 since fix D59): an exactly determined calibration has p-value 1
   and is not rejected at any admissible limit (0 < limit <= 1), whatever the chi-square tail
   function (a parameter: chisq_pvalue is not modelled) *)
Theorem exactly_determined_never_rejected_thm : forall (tail : Z -> Qc -> Qc) (unknowns : Z) (k : nat)
  (chisq limit : Qc), (limit <= 1)%Qc ->
  pvalue_of tail (dof unknowns (repeat unknowns k) []) chisq = 1%Qc /\
  rejected (pvalue_of tail (dof unknowns (repeat unknowns k) []) chisq) limit = false.
Proof. exact exactly_determined_never_rejected. Qed.
Print Assumptions exactly_determined_never_rejected_thm.

(* ---- exact data with the weights as the code computes and reads them ----
   weighted_system_simple / _auto (LsqLinkModel.v): row e of system s multiplied by the element of
   calc_weights that solve_simple (w_offset + eq_count) / solve_auto (running counter) reads.  For
   data that some x0 fits exactly, full column rank, and a weight function without zeros: x0 is
   the only minimiser, the residual is zero, and the minimisers are those of the problem with all
   weights 1.  The alignment theorem enters through "no row is multiplied by the calloc zero".
   The rows themselves are a parameter (with measurement-error modelling they carry the V-matrix
   factors of the current iteration): the statement is insensitivity to the WEIGHTS, not to V.
   That the QR solve returns the minimiser is C19's subject. *)
Theorem exact_data_simple_weights_as_computed_thm : forall (K : CField) (N : K -> Qc),
  (forall z, (0 <= N z)%Qc) -> (forall z, N z = 0%Qc -> z = c0) -> N c0 = 0%Qc ->
  forall (M : Type) (wt : M -> Qc), (forall m, wt m <> 0%Qc) -> M ->
  forall (rows : nat -> nat -> list K * K) (sys : systems M) (s : nat) (x0 : list K),
  (s < length sys)%nat ->
  let ws := weighted_system_simple K M wt rows sys s in
  consistent K ws x0 -> injective K ws x0 ->
  cost K N ws x0 = 0%Qc /\ minimises K N ws x0 /\
  (forall x, length x = length x0 -> minimises K N ws x -> x = x0) /\
  (forall x, length x = length x0 -> (minimises K N ws x <-> minimises K N (unweighted K ws) x)).
Proof. exact exact_data_simple_weights_as_computed. Qed.
Print Assumptions exact_data_simple_weights_as_computed_thm.

Theorem exact_data_auto_weights_as_computed_thm : forall (K : CField) (N : K -> Qc),
  (forall z, (0 <= N z)%Qc) -> (forall z, N z = 0%Qc -> z = c0) -> N c0 = 0%Qc ->
  forall (M : Type) (wt : M -> Qc), (forall m, wt m <> 0%Qc) -> M ->
  forall (rows : nat -> nat -> list K * K) (sys : systems M) (x0 : list K),
  let ws := weighted_system_auto K M wt rows sys in
  consistent K ws x0 -> injective K ws x0 ->
  cost K N ws x0 = 0%Qc /\ minimises K N ws x0 /\
  (forall x, length x = length x0 -> minimises K N ws x -> x = x0) /\
  (forall x, length x = length x0 -> (minimises K N ws x <-> minimises K N (unweighted K ws) x)).
Proof. exact exact_data_auto_weights_as_computed. Qed.
Print Assumptions exact_data_auto_weights_as_computed_thm.

(* all hypotheses of the link theorem at Q[i]: two systems, weights 1/(m+1), the weights read for
   the second system are those of its own measurements *)
Theorem exact_data_link_hypotheses_satisfiable_thm :
  (forall m, lk_wt m <> 0%Qc) /\ (1 < length lk_sys)%nat /\
  consistent QIF lk_ws ex_x0 /\ injective QIF lk_ws ex_x0 /\
  map (fun e => fst (fst e)) lk_ws = [Q2Qc (1 # 2); Q2Qc (1 # 3); Q2Qc (1 # 7)].
Proof. exact exact_data_link_hypotheses_satisfiable. Qed.
Print Assumptions exact_data_link_hypotheses_satisfiable_thm.

(* ---- the algebra behind it, for an ARBITRARY list of (weight, row, right-hand side): generic
        weighted least squares, not tied to the code (the weights here are free) ---- *)
Theorem lsq_algebra_exact_data_weight_free_thm : forall (K : CField) (N : K -> Qc),
  (forall z, (0 <= N z)%Qc) -> (forall z, N z = 0%Qc -> z = c0) -> N c0 = 0%Qc ->
  forall (sys : list (eqn K)) (x0 : list K),
  consistent K sys x0 -> weights_nonzero K sys -> injective K sys x0 ->
  cost K N sys x0 = 0%Qc /\ minimises K N sys x0 /\
  (forall x, length x = length x0 -> minimises K N sys x -> x = x0).
Proof. exact exact_data_weight_free. Qed.
Print Assumptions lsq_algebra_exact_data_weight_free_thm.

Theorem lsq_algebra_weighted_equals_unweighted_thm : forall (K : CField) (N : K -> Qc),
  (forall z, (0 <= N z)%Qc) -> (forall z, N z = 0%Qc -> z = c0) -> N c0 = 0%Qc ->
  forall (sys : list (eqn K)) (x0 x : list K),
  consistent K sys x0 -> weights_nonzero K sys -> injective K sys x0 -> length x = length x0 ->
  (minimises K N sys x <-> minimises K N (unweighted K sys) x).
Proof. exact weighted_equals_unweighted. Qed.
Print Assumptions lsq_algebra_weighted_equals_unweighted_thm.

Theorem lsq_algebra_hypotheses_satisfiable_thm :
  consistent QIF ex_sys ex_x0 /\ weights_nonzero QIF ex_sys /\ injective QIF ex_sys ex_x0.
Proof. exact exact_data_hypotheses_satisfiable. Qed.
Print Assumptions lsq_algebra_hypotheses_satisfiable_thm.

(* ---- save_v_matrices / restore_v_matrices on checked memory (GuardModel.v): vectors and matrices
        may be absent (NULL) in any pattern; offsets as the code computes them ---- *)
(* save stays inside the buffer of measurement_count * systems * v_cells elements its caller
   allocated, reads only inside existing matrices, never indexes a NULL vector; the buffer then
   holds the existing matrices back to back *)
Theorem save_v_matrices_safe_thm : forall (V : Type) (systems v_cells : nat) (stds : list (vvec V)) (buf : list V),
  (forall vv, In vv stds -> wf_vvec V systems v_cells vv) ->
  length buf = (length stds * systems * v_cells)%nat ->
  save_v_matrices V systems v_cells stds buf =
  MOk (flat_all V stds ++ skipn (length (flat_all V stds)) buf).
Proof. exact save_v_matrices_safe. Qed.
Print Assumptions save_v_matrices_safe_thm.

(* restore after save gives back exactly the saved matrices, whatever was written into the same
   matrices in between (the two walks compute the same offsets), inside all allocations *)
Theorem v_matrices_roundtrip_thm : forall (V : Type) (systems v_cells : nat) (saved now : list (vvec V)) (buf : list V),
  (forall vv, In vv saved -> wf_vvec V systems v_cells vv) ->
  (forall vv, In vv now -> wf_vvec V systems v_cells vv) ->
  Forall2 (same_shape V) saved now ->
  length buf = (length saved * systems * v_cells)%nat ->
  exists buf', save_v_matrices V systems v_cells saved buf = MOk buf' /\ length buf' = length buf /\
               restore_v_matrices V systems v_cells now buf' = MOk saved.
Proof. exact v_matrices_roundtrip. Qed.
Print Assumptions v_matrices_roundtrip_thm.

(* the vectors _vnacal_new_solve_init builds satisfy the well-formedness premise *)
Theorem init_vvec_wf_thm : forall (V : Type) (systems v_cells : nat) (v0 : V) (m_error : bool)
  (unknowns_per_system : nat) (eq_counts : list nat),
  length eq_counts = systems ->
  wf_vvec V systems v_cells (init_vvec V v_cells v0 m_error unknowns_per_system eq_counts).
Proof. exact init_vvec_wf. Qed.
Print Assumptions init_vvec_wf_thm.

(* documents finding D38 (fixed in /repo): the function as it was, testing the address of the
   array element instead of the vector, indexes a NULL vector *)
Theorem save_v_before_D38_faults_thm :
  exists stds buf, (forall vv, In vv stds -> wf_vvec nat 1 4 vv) /\ length buf = (length stds * 1 * 4)%nat /\
                   save_v_matrices_before_D38 nat 1 4 stds buf = MNull.
Proof. exact save_v_before_D38_faults. Qed.
Print Assumptions save_v_before_D38_faults_thm.

(* all premises of the round trip at once: no vector / vector with an absent matrix / two matrices *)
Theorem v_matrices_instance_thm :
  let saved := [None; Some [Some [1; 2]; None]; Some [Some [3; 4]; Some [5; 6]]]%nat in
  let now := [None; Some [Some [0; 0]; None]; Some [Some [9; 9]; Some [8; 8]]]%nat in
  (forall vv, In vv saved -> wf_vvec nat 2 2 vv) /\ (forall vv, In vv now -> wf_vvec nat 2 2 vv) /\
  Forall2 (same_shape nat) saved now /\
  save_v_matrices nat 2 2 saved (repeat 7%nat 12) = MOk [1; 2; 3; 4; 5; 6; 7; 7; 7; 7; 7; 7]%nat /\
  restore_v_matrices nat 2 2 now [1; 2; 3; 4; 5; 6; 7; 7; 7; 7; 7; 7]%nat = MOk saved.
Proof. exact v_matrices_instance. Qed.
Print Assumptions v_matrices_instance_thm.
