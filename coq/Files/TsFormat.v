(* Model of convert_value_pair of vnadata_load_touchstone.c as coded, and the complex values a loaded
   object (TsParse.tsobj) denotes.  No proofs in this file.

   The C function turns the two doubles of a value pair into a double complex according to the data format
   of the option line:
       DB:  cexp(LOG10 * v[0] / 20.0 + I * RAD_PER_DEG * v[1])
       MA:  v[0] * cexp(I * RAD_PER_DEG * v[1])
       RI:  v[0] + I * v[1]
   It is modelled over an abstract field K (Base/CField.v) with the operations the C code takes from
   <complex.h> / <math.h> as Section variables: the embedding [ofQ] of the numbers read from the file, the
   imaginary unit [ci], [cexp], and the constants LOG10 (= log 10), RAD_PER_DEG (= pi / 180) and 20.0.
   Nothing is assumed about them here; the laws a theorem needs are Section hypotheses of TsFormatProofs.v.
   After extraction the Section variables are ordinary function arguments: ocaml/drv_tsfmt.ml instantiates
   them with OCaml's binary64 complex arithmetic and checks/C08.py compares the result with the compiled
   convert_value_pair on generated pairs.

   A cell of the parser model (TsParse.cell) keeps the pair as written and a scale (the un-normalisation of
   a version-1 Z/Y/H/G file); [cell_value] is the complex number it stands for and [unnorm_value] is what the
   C code does to the converted value ("If V1, unnormalize the data": vd_data[findex][cell] *= / /= tps_z0). *)
Require Import List NArith ZArith QArith Qcanon Bool.
Import ListNotations.
Require Import LV.Base.CField.
Require Import LV.Files.TsTok LV.Files.TsParse.

Section Convert.
  Variable K : CField.
  Variable ofQ : Qc -> K.
  Variable ci : K.
  Variable cexp : K -> K.
  Variables ln10 rad_per_deg twenty : K.
  Local Open Scope cf_scope.

  Definition convert_value_pair (f : dfmt) (v0 v1 : K) : K :=
    match f with
    | FDB => cexp (ln10 * v0 / twenty + ci * rad_per_deg * v1)
    | FMA => v0 * cexp (ci * rad_per_deg * v1)
    | FRI => v0 + ci * v1
    end.

  (* the value of a finite number; infinities and NaN are given no meaning (the theorems ask for finite cells) *)
  Definition xv (x : xnum) : K := match x with XQ q => ofQ q | _ => 0 end.
  Definition x_fin (x : xnum) : Prop := match x with XQ _ => True | _ => False end.
  Definition cell_fin (c : cell) : Prop := x_fin (c_a c) /\ x_fin (c_b c) /\ x_fin (c_scale c).

  Definition cell_value (f : dfmt) (c : cell) : K :=
    convert_value_pair f (xv (c_a c)) (xv (c_b c)) * xv (c_scale c).

  Definition matrix_values (f : dfmt) (m : list cell) : list K := map (cell_value f) m.
  Definition obj_values (o : tsobj) : list (list K) := map (matrix_values (o_fmt o)) (o_cells o).

  (* "If V1, unnormalize the data", on the converted value of cell number i of a matrix *)
  Definition unnorm_value (t : ptype) (z0 : K) (i : nat) (v : K) : K :=
    match t with
    | PS => v
    | PZ => v * z0
    | PY => v / z0
    | PH => match i with O => v * z0 | 3%nat => v / z0 | _ => v end
    | PG => match i with O => v / z0 | 3%nat => v * z0 | _ => v end
    end.
  Fixpoint unnorm_values (t : ptype) (z0 : K) (i : nat) (l : list K) : list K :=
    match l with
    | [] => []
    | v :: r => unnorm_value t z0 i v :: unnorm_values t z0 (S i) r
    end.
End Convert.
