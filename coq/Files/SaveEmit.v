(* The printing part of vnadata_save_common (vnadata_save.c) as coded, after its checks: the file the
   saver writes as a stream of tokens.  No proofs in this file.

   What a "file" is here
   * Touchstone 1 / 2: the raw token stream of TsTok.v (what the loader's tokenizer makes of the bytes:
     keywords, words, the newline tokens).  Blanks, the padding of print_value ("%-*s") and the blanks
     of a continuation line are not tokens.
   * NPD: the non-comment lines, each a list of fields (what NpdLoad.npd_lines makes of the bytes).  The
     comment lines of print_npd_header ("#NPD", "#", the "# field N: ..." key) are not part of it.

   Numbers.  [D] is the type of a binary64; the texts printf produces for it are Section variables:
     ptext p plus x      print_value(fp, p, plus, pad, x) without its padding
     atext ap zin x      the angle: "%+*.*f" with ap - 1 decimals (ap - 3 for Zin), "%+a" when ap = MAX
     itext n             "%d"
   [val x] is the exact value of x; the comparisons the C code makes on doubles (z0 != 1.0, z0[i] !=
   z0[0]) are comparisons of exact values.  The arithmetic the saver applies before printing
   (cabs, carg, log10, the Zin forms, vnadata_convert) is abstract as well: Section variables.

   Inputs: the object (type, rows, columns, frequencies, z0 vector or per-frequency z0 vectors, data,
   the two precisions), the file type after the file-name decision and the promote flag (as in
   SaveModel.sobj), the format vector as set (PUNDEF = "ri" / "ma" / "dB" without a parameter). *)
Require Import List NArith ZArith QArith Qcanon Bool.
Import ListNotations.
Require Import LV.Files.TsTok LV.Files.TsParse.
Require Import LV.Files.NpdScan LV.Files.SaveModel.

Definition max_prec : Z := 1000.                       (* VNADATA_MAX_PRECISION *)

(* fixed texts *)
Definition b_version : list N := [35;58;118;101;114;115;105;111;110]%N.                 (* #:version *)
Definition b_1_0 : list N := [49;46;48]%N.
Definition b_ports : list N := [35;58;112;111;114;116;115]%N.                            (* #:ports *)
Definition b_frequencies : list N := [35;58;102;114;101;113;117;101;110;99;105;101;115]%N.
Definition b_parameters : list N := [35;58;112;97;114;97;109;101;116;101;114;115]%N.
Definition b_z0 : list N := [35;58;122;48]%N.
Definition b_fprecision : list N := [35;58;102;112;114;101;99;105;115;105;111;110]%N.
Definition b_dprecision : list N := [35;58;100;112;114;101;99;105;115;105;111;110]%N.
Definition b_per_frequency : list N := [80;69;82;45;70;82;69;81;85;69;78;67;89]%N.       (* PER-FREQUENCY *)

(* _vnadata_format_to_name *)
Definition ptype_name (t : ptype) : list N :=
  match t with
  | PUNDEF => [] | PS => [83] | PT => [84] | PU => [85] | PZ => [90] | PY => [89] | PH => [72] | PG => [71]
  | PA => [65] | PB => [66] | PZIN => [90;105;110]
  end%N.
Definition format_name (e : entry) : list N :=
  match e_form e with
  | PRC => [80;82;67] | PRL => [80;82;76] | SRC => [83;82;67] | SRL => [83;82;76]
  | IL => [73;76] | RL => [82;76] | VSWR => [86;83;87;82]
  | RI => ptype_name (e_par e) ++ [114;105]
  | MA => ptype_name (e_par e) ++ [109;97]
  | DB => ptype_name (e_par e) ++ [100;66]
  end%N.
(* _vnadata_update_format_string *)
Fixpoint format_string (l : list entry) : list N :=
  match l with
  | [] => []
  | [e] => format_name e
  | e :: r => format_name e ++ 44%N :: format_string r
  end.

Definition xeqb (a b : xnum) : bool := xle a b && xle b a.          (* C's == on doubles *)

Section Emit.
  Variable D : Type.
  Definition cx : Type := (D * D)%type.
  Record env := mkenv {
    v_d0 : D;                                        (* what an out-of-range index would read: never used on a sized object *)
    v_done : D;                                      (* 1.0 *)
    v_dzero : D;                                     (* 0.0 *)
    v_val : D -> xnum;
    v_ptext : Z -> bool -> D -> list N;
    v_atext : Z -> bool -> D -> list N;
    v_itext : Z -> list N;
    (* arithmetic done before printing *)
    v_mag : cx -> D;                                 (* cabs(v) *)
    v_deg : cx -> D;                                 (* 180.0 / M_PI * carg(v) *)
    v_db : cx -> D;                                  (* 20.0 * log10(cabs(v)) *)
    v_loss : cx -> D;                                (* -20.0 * log10(cabs(v)) *)
    v_vswr : cx -> D;                                (* (1.0 + a) / fabs(1.0 - a), a = cabs(v) *)
    v_zin : form -> D -> cx -> cx;                   (* PRC / PRL / SRC / SRL: the two values printed at frequency f *)
    v_conv : ptype -> ptype -> list cx -> list cx -> list cx }.   (* vnadata_convert on one frequency: from, to, z0, cells *)
  Variable E : env.
  Notation d0 := (v_d0 E). Notation done := (v_done E). Notation dzero := (v_dzero E). Notation val := (v_val E).
  Notation ptext := (v_ptext E). Notation atext := (v_atext E). Notation itext := (v_itext E).
  Notation f_mag := (v_mag E). Notation f_deg := (v_deg E). Notation f_db := (v_db E). Notation f_loss := (v_loss E).
  Notation f_vswr := (v_vswr E). Notation f_zin := (v_zin E). Notation conv := (v_conv E).

  Record mobj := mkmobj {
    m_type : ptype; m_rows : nat; m_ports : nat;
    m_freqs : list D;
    m_z0 : list cx;                                  (* vdi_z0_vector *)
    m_fz0 : option (list (list cx));                 (* Some: VF_PER_F_Z0, one vector per frequency *)
    m_data : list (list cx);                         (* per frequency, row major, rows * ports cells *)
    m_fprec : Z; m_dprec : Z }.

  Definition cx_eqb (a b : cx) : bool := xeqb (val (fst a)) (val (fst b)) && xeqb (val (snd a)) (val (snd b)).
  Definition cone : cx := (done, dzero).
  Definition c0 : cx := (d0, d0).

  (* the abstraction the acceptance model SaveModel.cksave works on *)
  Definition z0_real_pos (o : mobj) : bool :=
    forallb (fun z => xeqb (val (snd z)) xq0 && xlt xq0 (val (fst z))) (firstn (m_ports o) (m_z0 o)).   (* !(creal > 0.0): fix DB93 *)
  Definition z0_equal (o : mobj) : bool :=
    match firstn (m_ports o) (m_z0 o) with [] => true | z :: r => forallb (fun y => cx_eqb y z) r end.
  Definition sobj_of (o : mobj) (ft : filetype) (promote : bool) (fmt : list entry) : sobj :=
    Build_sobj (m_type o) (m_rows o) (m_ports o) (length (m_freqs o))
               (match m_fz0 o with Some _ => true | None => false end)
               (z0_real_pos o) (z0_equal o) ft promote fmt.

  (* vdi_filetype after the checks (promotion of a ".ts" file holding Touchstone 1) *)
  Definition final_filetype (s : sobj) : filetype :=
    match o_filetype s with
    | TS1 => if o_promote s && (Nat.ltb 4 (o_ports s) || negb (o_z0_equal s)) then TS2 else TS1
    | ft => ft
    end.
  (* "fix up any instances of ri, ma and db without parameter types" *)
  Definition resolved (s : sobj) : list entry :=
    map (fun e => Build_entry (resolve (o_type s) e) (e_form e)) (eff_format s).

  (* ---- the data printed for an entry ------------------------------------------------------------ *)
  Definition z0_at (o : mobj) (findex : nat) : list cx :=
    match m_fz0 o with Some l => nth findex l [] | None => m_z0 o end.
  Fixpoint map_i {A B} (f : nat -> A -> B) (i : nat) (l : list A) : list B :=
    match l with [] => [] | x :: r => f i x :: map_i f (S i) r end.
  (* vnadata_convert(vdp, target, t): every frequency with the z0 in force there *)
  Definition convert_obj (o : mobj) (t : ptype) : list (list cx) :=
    if ptype_eqb t (m_type o) then m_data o
    else map_i (fun i m => conv (m_type o) t (z0_at o i) m) 0 (m_data o).
  Definition norm_target (t : ptype) : ptype := match t with PT => PT | PU => PU | _ => PS end.
  (* "If touchstone 1, normalize all system impedances to 1": the object printed from *)
  Definition is_one (z : cx) : bool := cx_eqb z cone.
  Definition normalise (o : mobj) : mobj :=
    let t := norm_target (m_type o) in
    mkmobj t (m_rows o) (m_ports o) (m_freqs o)
           (repeat cone (m_ports o)) None (convert_obj o t) (m_fprec o) (m_dprec o).
  Definition print_obj (ft : filetype) (o : mobj) : mobj :=
    match ft with
    | TS1 => if is_one (hd c0 (m_z0 o)) then o else normalise o
    | _ => o
    end.

  (* ---- number tokens ------------------------------------------------------------------------------ *)
  Definition aprec (o : mobj) : Z := Z.max (m_dprec o) 3.
  (* the two texts printed for one cell in DB / MA / RI form *)
  Definition pair_texts (o : mobj) (f : form) (v : cx) : list (list N) :=
    match f with
    | DB => [ptext (m_dprec o) true (f_db v); atext (aprec o) false (f_deg v)]
    | MA => [ptext (m_dprec o) false (f_mag v); atext (aprec o) false (f_deg v)]
    | _ => [ptext (m_dprec o) true (fst v); ptext (m_dprec o) true (snd v)]
    end.
  Definition zin_texts (o : mobj) (f : form) (freq : D) (v : cx) : list (list N) :=
    match f with
    | MA => [ptext (m_dprec o) false (f_mag v); atext (aprec o) true (f_deg v)]
    | RI => [ptext (m_dprec o) true (fst v); ptext (m_dprec o) true (snd v)]
    | _ => let p := f_zin f freq v in [ptext (m_dprec o) true (fst p); ptext (m_dprec o) true (snd p)]
    end.
  Definition cell (ports : nat) (m : list cx) (r c : nat) : cx := nth (r * ports + c) m c0.

  (* ---- Touchstone ---------------------------------------------------------------------------------- *)
  Definition up (t : list N) : list N := map upcase t.
  Definition nl : rtok := RNl false.
  Definition ts_type_kw (t : ptype) : opkw := match t with PZ => OZ | PY => OY | PH => OH | PG => OG | _ => OS end.
  Definition ts_form_kw (f : form) : opkw := match f with DB => ODB | MA => OMA | _ => ORI end.
  (* "mixed_z0" of print_touchstone_header (ports = vnadata_get_rows) *)
  Definition ts_mixed_z0 (o : mobj) : bool :=
    negb match m_z0 o with [] => true | z :: r => forallb (fun y => cx_eqb y z) (firstn (m_rows o - 1) r) end.
  (* print_touchstone_header; o = the object printed from, z0t = creal of the first z0 of the object saved *)
  Definition ts_header (v2 : bool) (o : mobj) (e : entry) (z0t : D) : list rtok :=
    (if v2 then [RKw KVersion; RWord txt_2_0 false; nl] else []) ++
    [ROption; RWord (opkw_text OHz) true; RWord (opkw_text (ts_type_kw (e_par e))) true;
     RWord (opkw_text (ts_form_kw (e_form e))) true; RWord (opkw_text OR) true;
     RWord (up (ptext (m_dprec o) false z0t)) true; RNl true] ++
    (if v2 then
       [RKw KNumberOfPorts; RWord (itext (Z.of_nat (m_rows o))) false; nl] ++
       (if Nat.eqb (m_rows o) 2 then [RKw KTwoPortOrder; RWord txt_12_21 false; nl] else []) ++
       [RKw KNumberOfFrequencies; RWord (itext (Z.of_nat (length (m_freqs o)))) false; nl] ++
       (if ts_mixed_z0 o
        then RKw KReference :: map (fun z => RWord (up (ptext (m_dprec o) false (fst z))) false) (firstn (m_rows o) (m_z0 o)) ++ [nl]
        else []) ++
       [RKw KNetworkData; nl]
     else []).
  (* the line break before a cell *)
  Definition ts_break (ports r c : nat) : list rtok :=
    if (negb (Nat.eqb c 0) && Nat.eqb (c mod 4) 0) || (negb (Nat.eqb ports 2) && negb (Nat.eqb r 0) && Nat.eqb c 0)
    then [nl] else [].
  Definition ts_cells (v1 : bool) (o : mobj) (rows ports : nat) (f : form) (m : list cx) : list rtok :=
    flat_map (fun r => flat_map (fun c =>
       ts_break ports r c ++
       map (fun t => RWord (up t) false)
           (pair_texts o f (if v1 && Nat.eqb ports 2 then cell ports m c r else cell ports m r c)))
       (seq 0 ports)) (seq 0 rows).
  Definition ts_record (v1 : bool) (o : mobj) (rows ports : nat) (e : entry) (data : list (list cx)) (i : nat) (fq : D) : list rtok :=
    RWord (up (ptext (m_fprec o) false fq)) false :: ts_cells v1 o rows ports (e_form e) (nth i data []) ++ [nl].

  (* ---- NPD ------------------------------------------------------------------------------------------- *)
  Definition npd_header (o : mobj) (l : list entry) : list (list (list N)) :=
    [[b_version; b_1_0];
     [b_ports; itext (Z.of_nat (m_ports o))];
     [b_frequencies; itext (Z.of_nat (length (m_freqs o)))];
     [b_parameters; format_string l];
     b_z0 :: match m_fz0 o with
             | Some _ => [b_per_frequency]
             | None => flat_map (fun z => [ptext (m_dprec o) false (fst z); ptext (m_dprec o) true (snd z) ++ [106%N]])
                                (firstn (m_ports o) (m_z0 o))
             end;
     [b_fprecision; itext (m_fprec o)];
     [b_dprecision; itext (m_dprec o)]].
  (* the fields of one format entry on the data line of one frequency; m = the entry's matrix there *)
  Definition npd_entry_fields (o : mobj) (rows ports : nat) (e : entry) (fq : D) (m : list cx) : list (list N) :=
    match e_par e, e_form e with
    | PS, IL => flat_map (fun r => flat_map (fun c => if Nat.eqb r c then [] else [ptext (m_dprec o) true (f_loss (cell ports m r c))])
                                            (seq 0 ports)) (seq 0 rows)
    | PS, RL => map (fun p => ptext (m_dprec o) true (f_loss (cell ports m p p))) (seq 0 ports)
    | PS, VSWR => map (fun p => ptext (m_dprec o) false (f_vswr (cell ports m p p))) (seq 0 ports)
    | PZIN, f => flat_map (fun p => zin_texts o f fq (nth p m c0)) (seq 0 ports)
    | _, f => flat_map (fun r => flat_map (fun c => pair_texts o f (cell ports m r c)) (seq 0 ports)) (seq 0 rows)
    end.
  Definition npd_line (o : mobj) (l : list entry) (i : nat) (fq : D) : list (list N) :=
    ptext (m_fprec o) false fq ::
    match m_fz0 o with
    | Some zs => flat_map (fun z => [ptext (m_dprec o) true (fst z); ptext (m_dprec o) true (snd z)]) (firstn (m_ports o) (nth i zs []))
    | None => []
    end ++
    flat_map (fun e => npd_entry_fields o (m_rows o) (m_ports o) e fq (nth i (convert_obj o (e_par e)) [])) l.

  (* ---- vnadata_fsave, past the checks ------------------------------------------------------------------ *)
  Inductive saved := STouchstone (s : list rtok) | SNpd (lines : list (list (list N))).

  Definition save_emit (o : mobj) (ft0 : filetype) (promote : bool) (fmt : list entry) : saved :=
    let s := sobj_of o ft0 promote fmt in
    let l := resolved s in
    match final_filetype s with
    | NPD => SNpd (npd_header o l ++ map_i (npd_line o l) 0 (m_freqs o))
    | ft =>
      let v2 := match ft with TS2 => true | _ => false end in
      let p := print_obj ft o in
      let e := hd (Build_entry PS RI) l in
      let data := convert_obj p (e_par e) in
      STouchstone (ts_header v2 p e (fst (hd c0 (m_z0 o))) ++
                   concat (map_i (ts_record (negb v2) p (m_rows o) (m_ports o) e data) 0 (m_freqs o)) ++
                   (if v2 then [RKw KEnd; nl] else []) ++ [REof])
    end.
End Emit.
Arguments mkmobj {D}. Arguments m_type {D}. Arguments m_rows {D}. Arguments m_ports {D}. Arguments m_freqs {D}.
Arguments m_z0 {D}. Arguments m_fz0 {D}. Arguments m_data {D}. Arguments m_fprec {D}. Arguments m_dprec {D}.
Arguments cx_eqb {D}.
Arguments ts_mixed_z0 {D}.
Arguments cone {D}.
Arguments c0 {D}.
Arguments z0_real_pos {D}.
Arguments z0_equal {D}.
Arguments sobj_of {D}.
Arguments z0_at {D}.
Arguments convert_obj {D}.
Arguments is_one {D}.
Arguments normalise {D}.
Arguments print_obj {D}.
Arguments aprec {D}.
Arguments pair_texts {D}.
Arguments zin_texts {D}.
Arguments cell {D}.
Arguments ts_header {D}.
Arguments ts_cells {D}.
Arguments ts_record {D}.
Arguments npd_header {D}.
Arguments npd_entry_fields {D}.
Arguments npd_line {D}.
Arguments save_emit {D}.
Arguments mkenv {D}.
Arguments v_d0 {D}.
Arguments v_done {D}.
Arguments v_dzero {D}.
Arguments v_val {D}.
Arguments v_ptext {D}.
Arguments v_atext {D}.
Arguments v_itext {D}.
Arguments v_mag {D}.
Arguments v_deg {D}.
Arguments v_db {D}.
Arguments v_loss {D}.
Arguments v_vswr {D}.
Arguments v_zin {D}.
Arguments v_conv {D}.
