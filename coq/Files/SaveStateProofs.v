(* vnadata_save / vnadata_fsave / vnadata_cksave leave the file type and the format of the object as they were
   (after fix DA90); as found they did not. *)
Require Import List NArith ZArith Bool Arith Lia.
Import ListNotations.
Require Import LV.Files.TsTok LV.Files.NpdScan LV.Files.NpdLoad LV.Files.SaveModel LV.Files.SaveEmit LV.Files.SaveNpdProofs LV.Files.SaveState.

Lemma resolve_typed : forall t l, existsb is_undef l = false ->
  map (fun e => Build_entry (resolve t e) (e_form e)) l = l.
Proof.
  intros t l. induction l as [| e r IH]; intro H; [reflexivity |]. cbn [existsb] in H. apply orb_false_iff in H as [He Hr].
  cbn [map]. rewrite IH by exact Hr. f_equal. destruct e as [p f]. unfold is_undef, resolve in *. cbn [e_par e_form] in *.
  destruct p; try reflexivity; discriminate.
Qed.

Theorem save_leaves_settings_lemma : forall check i nk v, Forall (fun e => wfu e = true) (v_fmt v) ->
  settings_after check i nk v = v.
Proof.
  intros check i nk [ft fmt] Hwf. unfold settings_after, restore, at_out. cbn [v_ftype v_fmt]. cbn [v_fmt] in Hwf.
  match goal with |- context [if ?c then (_, false) else _] => destruct c end; [reflexivity |].
  destruct (name_filetype nk ft) as [f1 promote].
  assert (R : match fmt with [] => [] | l => match set_format (format_string l) with Some l' => l' | None => fmt end end = fmt).
  { destruct fmt as [| e r]; [reflexivity |]. rewrite set_format_string_u; [reflexivity | discriminate | exact Hwf]. }
  destruct fmt as [| e r].
  - destruct (check || negb _); reflexivity.
  - cbv iota. destruct (check || negb _); cbn [snd fst v_fmt orb]; [reflexivity |].
    destruct (existsb is_undef (e :: r)) eqn:U.
    + rewrite set_format_string_u; [reflexivity | discriminate | exact Hwf].
    + rewrite resolve_typed by exact U. reflexivity.
Qed.

(* as found (before fix DA90): a check on a fresh object changes both settings *)
Lemma save_changed_settings_da90 : exists i nk v, Forall (fun e => wfu e = true) (v_fmt v) /\
  settings_after_da90 true i nk v <> v.
Proof.
  exists (mksinfo PS 2 2 1 false true true), NTs1, (mkvset FAuto []). split; [constructor |]. vm_compute. discriminate.
Qed.
