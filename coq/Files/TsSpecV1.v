(* The version-1 specification of the Touchstone parser model: a well-formed version-1 file
   (TsSpec.v1_wf) loads to TsSpec.v1_result, with corollaries (unit scaling, option-line equivalence,
   irrelevance of the noise lines) and the un-normalisation algebra.

   Nothing here changes the model: TsTok.v, TsParse.v and TsSpec.v are only read. *)
Require Import List NArith ZArith QArith Qcanon Bool Lia.
Import ListNotations.
Require Import LV.Files.TsTok LV.Files.TsParse LV.Files.TsSpec.
Local Open Scope nat_scope.

(* ---- tokens ------------------------------------------------------------------------------------- *)
Lemma classify_double : forall fl t o x,
  f_noconv fl = false -> f_int fl = false -> parse_double t = Some x -> classify fl t o = TDouble x.
Proof. intros fl t o x H1 H2 H3. unfold classify. rewrite H1, H2, H3. reflexivity. Qed.

Lemma classify_opkw : forall o, classify F_NONE (opkw_text o) true = TOp o.
Proof. destruct o; vm_compute; reflexivity. Qed.

Opaque parse_double.

(* ---- 1. the option line -------------------------------------------------------------------------- *)
Lemma pstep_opt_kw : forall h o, o <> OR -> pstep (SOpt h) (RWord (opkw_text o) true) = SOpt (apply_op h o).
Proof.
  intros h o Ho. unfold pstep. cbn [flags_of tok_of]. rewrite classify_opkw.
  destruct o; try reflexivity. congruence.
Qed.

Lemma pstep_opt_R : forall h n, num_ok n -> positive_x (n_val n) ->
  pstep (pstep (SOpt h) (RWord (opkw_text OR) true)) (RWord (n_text n) true) = SOpt (set_z0 h (n_val n)).
Proof.
  intros h n Hn Hp. unfold pstep at 2. cbn [flags_of tok_of]. rewrite classify_opkw. cbn [on_tok].
  unfold pstep. cbn [flags_of tok_of]. rewrite (classify_double F_NONE _ true (n_val n)) by (auto; apply Hn).
  cbn [on_tok]. unfold positive_x in Hp. rewrite Hp. cbn [negb]. reflexivity.
Qed.

Lemma opts_run_v1 : forall fs h, Forall ofield_ok fs ->
  fold_left pstep (render_opts fs) (SOpt h) = SOpt (fold_left apply_ofield fs h).
Proof.
  induction fs as [|f fs IH]; intros h Hok; [reflexivity|].
  inversion Hok as [|? ? Hf Hfs]; subst.
  unfold render_opts. cbn [flat_map]. fold (render_opts fs). rewrite fold_left_app.
  destruct f as [o|n].
  - cbn [render_ofield fold_left apply_ofield]. rewrite pstep_opt_kw.
    + apply IH; assumption.
    + intro E; subst o. exact Hf.
  - destruct Hf as [Hn Hp]. cbn [render_ofield fold_left apply_ofield]. rewrite pstep_opt_R by assumption.
    apply IH; assumption.
Qed.

(* the header of a version-1 file: no keyword line has set anything *)
Definition v1_hdr (h : hdr) : Prop :=
  h_v2 h = false /\ h_ports h = (-1)%Z /\ h_nfreq h = (-1)%Z /\ h_order h = None.

Lemma apply_ofield_keeps : forall f h, v1_hdr h -> v1_hdr (apply_ofield h f).
Proof. intros f h H. destruct f as [o|n]; [destruct o|]; exact H. Qed.

Lemma fold_ofield_keeps : forall fs h, v1_hdr h -> v1_hdr (fold_left apply_ofield fs h).
Proof. induction fs as [|f fs IH]; intros h H; [exact H|]. cbn [fold_left]. apply IH, apply_ofield_keeps, H. Qed.

Lemma opts_hdr_v1 : forall fs, v1_hdr (opts_hdr false fs).
Proof. intros fs. unfold opts_hdr. apply fold_ofield_keeps. repeat split. Qed.

Lemma v1_head_run : forall fs, Forall ofield_ok fs ->
  fold_left pstep ([ROption] ++ render_opts fs ++ [RNl true]) SStart = SBody (opts_hdr false fs).
Proof.
  intros fs Hok. cbn [app fold_left]. rewrite fold_left_app.
  change (pstep SStart ROption) with (SOpt (hdr0 false)).
  rewrite opts_run_v1 by assumption. reflexivity.
Qed.

(* ---- 2. one data line ----------------------------------------------------------------------------- *)
Lemma pstep_wnum_wait : forall h v n, num_ok n -> pstep (SV1Wait h v) (wnum n) = SV1Line h v [n_val n].
Proof.
  intros h v n Hn. unfold pstep, wnum. cbn [flags_of tok_of].
  rewrite (classify_double F_NONE _ false (n_val n)) by (auto; apply Hn). reflexivity.
Qed.

Lemma pstep_wnum_line : forall h v acc n, num_ok n ->
  pstep (SV1Line h v acc) (wnum n) = SV1Line h v (n_val n :: acc).
Proof.
  intros h v acc n Hn. unfold pstep, wnum. cbn [flags_of tok_of].
  rewrite (classify_double F_EOL _ false (n_val n)) by (auto; apply Hn). reflexivity.
Qed.

Lemma pstep_nl_line : forall h v acc,
  pstep (SV1Line h v acc) nl = match v1_line h v (rev acc) with Some v' => SV1Wait h v' | None => SErr EBADMSG end.
Proof. reflexivity. Qed.

Lemma pstep_wnum_body : forall h n, v1_hdr h -> num_ok n ->
  pstep (SBody h) (wnum n) = SV1Line h (mkv1 true 0 false 0 false [] []) [n_val n].
Proof.
  intros h n (H1 & H2 & H3 & H4) Hn. unfold pstep, wnum. cbn [flags_of tok_of].
  rewrite (classify_double F_NONE _ false (n_val n)) by (auto; apply Hn).
  cbn [on_tok body_tok]. unfold after_kw. rewrite H1, H2, H3, H4. reflexivity.
Qed.

Lemma line_fold : forall h v xs acc, Forall num_ok xs ->
  fold_left pstep (map wnum xs) (SV1Line h v acc) = SV1Line h v (rev (map n_val xs) ++ acc).
Proof.
  induction xs as [|x xs IH]; intros acc Hok; [reflexivity|].
  inversion Hok; subst. cbn [map fold_left rev]. rewrite pstep_wnum_line by assumption.
  rewrite IH by assumption. rewrite <- app_assoc. reflexivity.
Qed.

Lemma line_end : forall h v x xs, Forall num_ok xs ->
  fold_left pstep (map wnum xs ++ [nl]) (SV1Line h v [n_val x]) =
  match v1_line h v (map n_val (x :: xs)) with Some v' => SV1Wait h v' | None => SErr EBADMSG end.
Proof.
  intros h v x xs Hok. rewrite fold_left_app, line_fold by assumption. cbn [fold_left].
  rewrite pstep_nl_line. rewrite rev_app_distr, rev_involutive. reflexivity.
Qed.

Lemma v1_line_run : forall h v x xs, Forall num_ok (x :: xs) ->
  fold_left pstep (map wnum (x :: xs) ++ [nl]) (SV1Wait h v) =
  match v1_line h v (map n_val (x :: xs)) with Some v' => SV1Wait h v' | None => SErr EBADMSG end.
Proof.
  intros h v x xs Hok. inversion Hok; subst.
  change (map wnum (x :: xs) ++ [nl]) with (wnum x :: (map wnum xs ++ [nl])).
  cbn [fold_left]. rewrite pstep_wnum_wait by assumption. apply line_end; assumption.
Qed.

(* the very first data line, read from the keyword loop of a version-1 header *)
Lemma v1_first_line_run : forall h x xs, v1_hdr h -> Forall num_ok (x :: xs) ->
  fold_left pstep (map wnum (x :: xs) ++ [nl]) (SBody h) =
  match v1_line h (mkv1 true 0 false 0 false [] []) (map n_val (x :: xs)) with
  | Some v' => SV1Wait h v' | None => SErr EBADMSG end.
Proof.
  intros h x xs Hh Hok. inversion Hok; subst.
  change (map wnum (x :: xs) ++ [nl]) with (wnum x :: (map wnum xs ++ [nl])).
  cbn [fold_left]. rewrite pstep_wnum_body by assumption. apply line_end; assumption.
Qed.

(* ---- list facts ----------------------------------------------------------------------------------- *)
Lemma pairs_of_app : forall k (a b : list xnum), length a = 2 * k -> pairs_of (a ++ b) = pairs_of a ++ pairs_of b.
Proof.
  induction k as [|k IH]; intros a b H.
  - destruct a; [reflexivity|discriminate].
  - destruct a as [|x [|y a]]; try (cbn in H; lia).
    cbn [app pairs_of]. rewrite (IH a b) by (cbn in H; lia). reflexivity.
Qed.

Lemma chunks_S : forall A k n (l : list A), chunks k (S n) l = firstn k l :: chunks k n (skipn k l).
Proof. reflexivity. Qed.

Lemma Forall_firstn : forall A (P : A -> Prop) k l, Forall P l -> Forall P (firstn k l).
Proof.
  intros A P k l H. revert k. induction H as [|x l Hx Hl IH]; intros [|k]; cbn [firstn]; constructor; auto.
Qed.
Lemma Forall_skipn : forall A (P : A -> Prop) k l, Forall P l -> Forall P (skipn k l).
Proof.
  intros A P k l H. revert k. induction H as [|x l Hx Hl IH]; intros [|k]; cbn [skipn]; auto.
Qed.

(* ---- frequencies ---------------------------------------------------------------------------------- *)
Definition fq (h : hdr) (r : num * list num) : xnum := xmul (XQ (h_mult h)) (n_val (fst r)).
Definition fr_ok (h : hdr) (fr : list xnum) (r : num * list num) : Prop :=
  match fr with p :: _ => xle (fq h r) p = false | [] => True end.
Fixpoint chain (h : hdr) (fr : list xnum) (rs : list (num * list num)) : Prop :=
  match rs with
  | [] => True
  | r :: rs' => fr_ok h fr r /\ chain h (fq h r :: fr) rs'
  end.

Lemma v1_freq_some : forall h v r, xlt (n_val (fst r)) xq0 = false -> fr_ok h (v_freqs v) r ->
  v1_freq h v (n_val (fst r)) = Some (fq h r).
Proof.
  intros h v r Hx Hf. unfold v1_freq. rewrite Hx. unfold fr_ok, fq in *.
  destruct (v_freqs v) as [|p ?]; [reflexivity|]. rewrite Hf. reflexivity.
Qed.

Lemma ascending_tail : forall a l, ascending (a :: l) -> ascending l.
Proof. intros a l H i x y Hx Hy. apply (H (S i) x y); assumption. Qed.
Lemma ascending_head : forall a b l, ascending (a :: b :: l) -> xle b a = false.
Proof. intros a b l H. apply (H 0 a b); reflexivity. Qed.

Lemma chain_of_ascending : forall h rs r0 fr, ascending (map (fq h) (r0 :: rs)) -> chain h (fq h r0 :: fr) rs.
Proof.
  induction rs as [|r rs IH]; intros r0 fr H; [exact I|].
  split.
  - unfold fr_ok. apply (ascending_head _ _ _ H).
  - apply IH. apply (ascending_tail _ _ H).
Qed.

Opaque v1_freq.
Opaque fq.

(* ---- the cases of v1_line ------------------------------------------------------------------------- *)
Definition rec_ok (n : nat) (r : num * list num) : Prop :=
  num_ok (fst r) /\ xlt (n_val (fst r)) xq0 = false /\ Forall num_ok (snd r) /\ length (snd r) = 2 * n * n.

(* states between two frequencies and between two rows *)
Definition W (h : hdr) (n row : nat) (fr : list xnum) (ms : list (list cell)) : pst :=
  SV1Wait h (mkv1 false n false row false fr ms).

Ltac destr8 l H :=
  destruct l as [|?a0 [|?a1 [|?a2 [|?a3 [|?a4 [|?a5 [|?a6 [|?a7 [|? ?]]]]]]]]]; try (cbn in H; lia).

(* a 2-port frequency (not the first line of the file) *)
Lemma two_port_line : forall h mb fr ms r, rec_ok 2 r -> fr_ok h fr r ->
  fold_left pstep (v1_record_lines 2 r) (SV1Wait h (mkv1 false 2 mb 0 false fr ms)) =
  SV1Wait h (mkv1 false 2 false 0 false (fq h r :: fr) (v1_cells 2 (map n_val (snd r)) :: ms)).
Proof.
  intros h mb fr ms [x l] (Hx & Hpos & Hl & Hlen) Hf. cbn [fst snd] in *.
  change (v1_record_lines 2 (x, l)) with (map wnum (x :: l) ++ [nl]).
  rewrite v1_line_run by (constructor; assumption).
  pose proof (v1_freq_some h (mkv1 false 2 mb 0 false fr ms) (x, l) Hpos Hf) as HF. cbn [fst] in HF.
  destr8 l Hlen. cbn [map]. unfold v1_line. cbn [v_first v_noise v_row v_ports length Nat.eqb].
  unfold v1_two_port. rewrite HF. reflexivity.
Qed.

(* the first line of a 2-port file *)
Lemma two_port_first : forall h r, v1_hdr h -> rec_ok 2 r ->
  fold_left pstep (v1_record_lines 2 r) (SBody h) =
  SV1Wait h (mkv1 false 2 (negb (is_hg (h_type h))) 0 false [fq h r] [v1_cells 2 (map n_val (snd r))]).
Proof.
  intros h [x l] Hh (Hx & Hpos & Hl & Hlen). cbn [fst snd] in *.
  change (v1_record_lines 2 (x, l)) with (map wnum (x :: l) ++ [nl]).
  rewrite v1_first_line_run by (auto; constructor; assumption).
  pose proof (v1_freq_some h (mkv1 true 0 false 0 false [] []) (x, l) Hpos I) as HF. cbn [fst] in HF.
  destr8 l Hlen. cbn [map]. unfold v1_line. cbn [v_first length Nat.even Nat.ltb Nat.leb Nat.eqb orb].
  unfold v1_two_port. rewrite HF.
  destruct (is_hg (h_type h)); reflexivity.
Qed.

(* a noise line *)
Lemma noise_line_data : forall h mb fr ms l, Forall num_ok l -> length l = 5 ->
  fold_left pstep (map wnum l ++ [nl]) (SV1Wait h (mkv1 false 2 mb 0 false fr ms)) =
  SV1Wait h (mkv1 false 2 false 0 true fr ms).
Proof.
  intros h mb fr ms l Hl Hlen.
  destruct l as [|a0 [|a1 [|a2 [|a3 [|a4 [|? ?]]]]]]; try discriminate Hlen.
  rewrite v1_line_run by assumption. reflexivity.
Qed.
Lemma noise_line_noise : forall h fr ms l, Forall num_ok l -> length l = 5 ->
  fold_left pstep (map wnum l ++ [nl]) (SV1Wait h (mkv1 false 2 false 0 true fr ms)) =
  SV1Wait h (mkv1 false 2 false 0 true fr ms).
Proof.
  intros h fr ms l Hl Hlen.
  destruct l as [|a0 [|a1 [|a2 [|a3 [|a4 [|? ?]]]]]]; try discriminate Hlen.
  rewrite v1_line_run by assumption. reflexivity.
Qed.

(* ---- the general row reader (ports other than 2) -------------------------------------------------- *)
Lemma next_row_line : forall h n k fr m ms x xs, 1 <= k -> k < n -> Forall num_ok (x :: xs) ->
  length (x :: xs) = 2 * n ->
  fold_left pstep (map wnum (x :: xs) ++ [nl]) (W h n k fr (m :: ms)) =
  W h n (if S k =? n then 0 else S k) fr ((m ++ pairs_of (map n_val (x :: xs))) :: ms).
Proof.
  intros h n k fr m ms x xs Hk Hkn Hok Hlen. unfold W. rewrite v1_line_run by assumption.
  unfold v1_line. cbn [v_first v_noise v_row v_ports].
  replace (k =? 0) with false by (symmetry; apply Nat.eqb_neq; lia).
  rewrite map_length, Hlen, Nat.eqb_refl. reflexivity.
Qed.

Lemma rows_run : forall h n fr ms j k l m, 1 <= k -> k + j = n -> Forall num_ok l -> length l = 2 * n * j ->
  fold_left pstep (flat_map (fun row => map wnum row ++ [nl]) (chunks (2 * n) j l))
            (W h n (if k =? n then 0 else k) fr (m :: ms)) =
  W h n 0 fr ((m ++ pairs_of (map n_val l)) :: ms).
Proof.
  intros h n fr ms. induction j as [|j IH]; intros k l m Hk Hn Hok Hlen.
  - replace k with n by lia. rewrite Nat.eqb_refl. destruct l; [|cbn in Hlen; lia].
    cbn [chunks flat_map fold_left map pairs_of]. rewrite app_nil_r. reflexivity.
  - replace (k =? n) with false by (symmetry; apply Nat.eqb_neq; lia).
    rewrite chunks_S. cbn [flat_map]. rewrite fold_left_app.
    assert (Hf : length (firstn (2 * n) l) = 2 * n) by (rewrite firstn_length; nia).
    assert (Hs : length (skipn (2 * n) l) = 2 * n * j) by (rewrite skipn_length; nia).
    assert (Hfo : Forall num_ok (firstn (2 * n) l)) by (apply Forall_firstn; assumption).
    destruct (firstn (2 * n) l) as [|x xs] eqn:E; [cbn in Hf; lia|].
    rewrite next_row_line by (assumption || lia).
    rewrite (IH (S k)) by (try lia; try assumption; apply Forall_skipn; assumption).
    rewrite <- app_assoc. rewrite <- (pairs_of_app n) by (rewrite map_length; exact Hf).
    rewrite <- map_app, <- E, firstn_skipn. reflexivity.
Qed.

(* the first row of a frequency that is not on the first line of the file *)
Lemma first_row_line : forall h n fr ms r xs, 1 <= n -> n <> 2 -> num_ok (fst r) -> Forall num_ok xs ->
  length xs = 2 * n -> xlt (n_val (fst r)) xq0 = false -> fr_ok h fr r ->
  fold_left pstep (map wnum (fst r :: xs) ++ [nl]) (W h n 0 fr ms) =
  W h n (if 1 =? n then 0 else 1) (fq h r :: fr) (pairs_of (map n_val xs) :: ms).
Proof.
  intros h n fr ms r xs Hn1 Hn2 Hx Hok Hlen Hpos Hf. unfold W.
  rewrite v1_line_run by (constructor; assumption).
  unfold v1_line. cbn [v_first v_noise v_row v_ports Nat.eqb].
  replace (n =? 2) with false by (symmetry; apply Nat.eqb_neq; lia).
  rewrite map_length. cbn [length]. rewrite Hlen.
  change (1 + 2 * n) with (S (2 * n)). rewrite Nat.eqb_refl.
  unfold v1_first_row. cbn [map]. rewrite (v1_freq_some h _ r) by assumption.
  rewrite (Nat.eqb_sym n 1). reflexivity.
Qed.

Lemma rec_run_n : forall h n r fr ms, 1 <= n -> n <> 2 -> rec_ok n r -> fr_ok h fr r ->
  fold_left pstep (v1_record_lines n r) (W h n 0 fr ms) =
  W h n 0 (fq h r :: fr) (pairs_of (map n_val (snd r)) :: ms).
Proof.
  intros h n r fr ms Hn1 Hn2 (Hx & Hpos & Hl & Hlen) Hf. unfold v1_record_lines.
  replace (n =? 2) with false by (symmetry; apply Nat.eqb_neq; lia).
  destruct n as [|j]; [lia|]. rewrite chunks_S. set (n := S j) in *.
  rewrite fold_left_app.
  assert (Hfl : length (firstn (2 * n) (snd r)) = 2 * n) by (rewrite firstn_length; nia).
  assert (Hsl : length (skipn (2 * n) (snd r)) = 2 * n * j) by (rewrite skipn_length; nia).
  change (wnum (fst r) :: map wnum (firstn (2 * n) (snd r)) ++ [nl])
    with (map wnum (fst r :: firstn (2 * n) (snd r)) ++ [nl]).
  rewrite first_row_line by (try assumption; try lia; apply Forall_firstn; assumption).
  rewrite (rows_run h n (fq h r :: fr) ms j 1) by (try lia; try assumption; try (subst n; lia); apply Forall_skipn; assumption).
  rewrite <- (pairs_of_app n) by (rewrite map_length; exact Hfl).
  rewrite <- map_app, firstn_skipn. reflexivity.
Qed.

(* the first line of a file with 1 or 3 ports *)
Lemma first_row_first : forall h n r xs, (n = 1 \/ n = 3) -> v1_hdr h -> is_hg (h_type h) = false ->
  num_ok (fst r) -> Forall num_ok xs -> length xs = 2 * n -> xlt (n_val (fst r)) xq0 = false ->
  fold_left pstep (map wnum (fst r :: xs) ++ [nl]) (SBody h) =
  W h n (if 1 =? n then 0 else 1) [fq h r] [pairs_of (map n_val xs)].
Proof.
  intros h n r xs Hn Hh Hhg Hx Hok Hlen Hpos. unfold W.
  rewrite v1_first_line_run by (auto; constructor; assumption).
  pose proof (v1_freq_some h (mkv1 true 0 false 0 false [] []) r Hpos I) as HF.
  unfold v1_line. cbn [v_first]. rewrite map_length. cbn [length]. rewrite Hlen, Hhg.
  destruct Hn; subst n; cbn [Nat.mul Nat.add Nat.even Nat.ltb Nat.leb Nat.eqb orb Nat.sub];
    unfold v1_first_row; cbn [map]; rewrite HF; reflexivity.
Qed.

Lemma rec_first_n : forall h n r, (n = 1 \/ n = 3) -> v1_hdr h -> is_hg (h_type h) = false -> rec_ok n r ->
  fold_left pstep (v1_record_lines n r) (SBody h) = W h n 0 [fq h r] [pairs_of (map n_val (snd r))].
Proof.
  intros h n r Hn Hh Hhg (Hx & Hpos & Hl & Hlen). unfold v1_record_lines.
  replace (n =? 2) with false by (symmetry; apply Nat.eqb_neq; lia).
  destruct n as [|j]; [lia|]. rewrite chunks_S. set (n := S j) in *.
  rewrite fold_left_app.
  assert (Hfl : length (firstn (2 * n) (snd r)) = 2 * n) by (rewrite firstn_length; nia).
  assert (Hsl : length (skipn (2 * n) (snd r)) = 2 * n * j) by (rewrite skipn_length; nia).
  change (wnum (fst r) :: map wnum (firstn (2 * n) (snd r)) ++ [nl])
    with (map wnum (fst r :: firstn (2 * n) (snd r)) ++ [nl]).
  rewrite (first_row_first h n) by (try assumption; apply Forall_firstn; assumption).
  rewrite (rows_run h n [fq h r] [] j 1) by (try lia; try assumption; try (subst n; lia); apply Forall_skipn; assumption).
  rewrite <- (pairs_of_app n) by (rewrite map_length; exact Hfl).
  rewrite <- map_app, firstn_skipn. reflexivity.
Qed.

(* ---- 4 ports: the first line is taken for a 2-port frequency, the second converts ------------------ *)
Lemma four_port_first : forall h r xs, v1_hdr h -> is_hg (h_type h) = false ->
  num_ok (fst r) -> Forall num_ok xs -> length xs = 8 -> xlt (n_val (fst r)) xq0 = false ->
  fold_left pstep (map wnum (fst r :: xs) ++ [nl]) (SBody h) =
  SV1Wait h (mkv1 false 2 true 0 false [fq h r] [v1_cells 2 (map n_val xs)]).
Proof.
  intros h r xs Hh Hhg Hx Hok Hlen Hpos.
  rewrite v1_first_line_run by (auto; constructor; assumption).
  pose proof (v1_freq_some h (mkv1 true 0 false 0 false [] []) r Hpos I) as HF.
  destr8 xs Hlen. cbn [map]. unfold v1_line. cbn [v_first length Nat.even Nat.ltb Nat.leb Nat.eqb orb].
  rewrite Hhg. unfold v1_two_port. rewrite HF. reflexivity.
Qed.

Lemma four_port_convert : forall h fr ms (vs : list xnum) xs, length vs = 8 -> Forall num_ok xs -> length xs = 8 ->
  fold_left pstep (map wnum xs ++ [nl]) (SV1Wait h (mkv1 false 2 true 0 false fr (v1_cells 2 vs :: ms))) =
  W h 4 2 fr ((pairs_of vs ++ pairs_of (map n_val xs)) :: ms).
Proof.
  intros h fr ms vs xs Hvs Hok Hlen. unfold W.
  destr8 vs Hvs. destr8 xs Hlen.
  rewrite v1_line_run by assumption. reflexivity.
Qed.

Lemma rec_first_4 : forall h r, v1_hdr h -> is_hg (h_type h) = false -> rec_ok 4 r ->
  fold_left pstep (v1_record_lines 4 r) (SBody h) = W h 4 0 [fq h r] [pairs_of (map n_val (snd r))].
Proof.
  intros h r Hh Hhg (Hx & Hpos & Hl & Hlen). unfold v1_record_lines.
  change (4 =? 2) with false. cbv iota. change (2 * 4) with 8.
  rewrite (chunks_S _ 8 3), (chunks_S _ 8 2).
  cbn [flat_map]. rewrite fold_left_app, (fold_left_app pstep (map wnum _ ++ [nl])).
  set (l := snd r) in *. change (2 * 4 * 4) with 32 in Hlen.
  assert (H1 : length (firstn 8 l) = 8) by (rewrite firstn_length; lia).
  assert (H2 : length (firstn 8 (skipn 8 l)) = 8) by (rewrite firstn_length, skipn_length; lia).
  assert (H3 : length (skipn 8 (skipn 8 l)) = 2 * 4 * 2) by (rewrite !skipn_length; lia).
  change (wnum (fst r) :: map wnum (firstn 8 l) ++ [nl]) with (map wnum (fst r :: firstn 8 l) ++ [nl]).
  rewrite four_port_first by (try assumption; apply Forall_firstn; assumption).
  rewrite four_port_convert
    by (try assumption; try (rewrite map_length; assumption); apply Forall_firstn, Forall_skipn; assumption).
  change 8 with (2 * 4).
  rewrite (rows_run h 4 [fq h r] [] 2 2) by (try lia; try assumption; apply Forall_skipn, Forall_skipn; assumption).
  rewrite <- (pairs_of_app 4) by (rewrite map_length; exact H1).
  rewrite <- (pairs_of_app 8) by (rewrite app_length, !map_length; change (2 * 4) with 8; lia).
  rewrite <- !map_app, <- app_assoc, !firstn_skipn. reflexivity.
Qed.
