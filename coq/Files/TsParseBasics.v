(* Basic lemmas about the executable Touchstone parser model TsParse.v:
   A. totality (the end of the stream always leaves a terminal state, never the class EINTERNAL),
   B. line breaks (a newline after a newline is free; a newline is free outside a version-1 data line),
   C. well-formedness of every loaded object (a state invariant preserved by pstep).
   No axioms; the models TsTok.v / TsParse.v are used as they are. *)
Require Import List NArith ZArith QArith Qcanon Bool Lia.
Import ListNotations.
Require Import LV.Files.TsTok LV.Files.TsParse.

(* ================================================================================================= *)
(* A. Totality                                                                                        *)
(* ================================================================================================= *)
Definition terminal (s : pst) : Prop := (exists o, s = SDone o) \/ (exists c, s = SErr c).

Lemma terminal_err : forall c, terminal (SErr c).
Proof. intro c; right; exists c; reflexivity. Qed.
Lemma terminal_done : forall o, terminal (SDone o).
Proof. intro o; left; exists o; reflexivity. Qed.

Ltac unfold_parser :=
  repeat progress unfold want_option, body_tok, after_kw, v1_start, arg_tok, v2_tok, after_data_tok, network_data,
         end_tok, eof_tok, noise_tok, v1_wait_tok, v1_line_tok, err.

Ltac term_tac :=
  repeat (match goal with
          | |- terminal (SErr _) => apply terminal_err
          | |- terminal (SDone _) => apply terminal_done
          | |- terminal (match ?x with _ => _ end) => destruct x; simpl
          | |- _ => progress unfold err
          end).

Lemma on_tok_eof_terminal : forall s, terminal (on_tok s TEof).
Proof.
  destruct s; simpl; unfold_parser; simpl; term_tac.
Qed.

Lemma on_tok_error_terminal : forall s, terminal (on_tok s TError).
Proof.
  destruct s; simpl; unfold_parser; simpl; term_tac.
Qed.

Lemma terminal_absorbing : forall s x, terminal s -> pstep s x = s.
Proof.
  intros s x [[o ->] | [c ->]]; unfold pstep; simpl; destruct (tok_of F_NONE x); reflexivity.
Qed.

(* a state is not the error state of class EINTERNAL *)
Definition nei (s : pst) : Prop := forall c, s = SErr c \/ s = SLate c -> c <> EINTERNAL.

Ltac nei_tac :=
  repeat (match goal with
          | H : nei ?s |- nei ?s => exact H
          | |- nei (SErr _) => intros ? [?|?]; congruence
          | |- nei (SLate _) => intros ? [?|?]; congruence
          | |- nei (match ?x with _ => _ end) => destruct x; simpl
          | |- _ => progress unfold err
          | |- nei _ => intros ? [?|?]; discriminate
          end).

Lemma on_tok_nei : forall s t, nei s -> nei (on_tok s t).
Proof.
  intros s t Hs; destruct s; simpl; unfold_parser; simpl; nei_tac.
  all: intros c0 [E|E]; inversion E; subst; apply Hs; auto.
Qed.

Lemma pstep_nei : forall s x, nei s -> nei (pstep s x).
Proof.
  intros s x Hs; unfold pstep; destruct (tok_of (flags_of s) x); [apply on_tok_nei|]; exact Hs.
Qed.

(* the model never produces the class EINTERNAL in a state *)
Lemma no_einternal_state : forall r s, nei s ->
  forall c, fold_left pstep r s = SErr c -> c <> EINTERNAL.
Proof.
  assert (G : forall r s, nei s -> nei (fold_left pstep r s)).
  { induction r as [|x r IH]; intros s Hs; simpl; [exact Hs | apply IH; apply pstep_nei; exact Hs]. }
  intros r s Hs c E. apply (G r s Hs). left; exact E.
Qed.

(* the same as final_tok of TsTokProofs.v; own copy under another name *)
Definition final_rtok (x : rtok) : bool := match x with REof | RErr _ => true | _ => false end.

Lemma pstep_final_terminal : forall s x, final_rtok x = true -> terminal (pstep s x).
Proof.
  intros s x Hx; unfold pstep; destruct x; try discriminate Hx; simpl.
  - apply on_tok_eof_terminal.
  - apply on_tok_error_terminal.
Qed.

Lemma parse_snoc : forall pre last, parse (pre ++ [last]) = pfinish (pstep (fold_left pstep pre SStart) last).
Proof. intros; unfold parse; rewrite fold_left_app; reflexivity. Qed.

Lemma nei_start : nei SStart.
Proof. intros c [H|H]; discriminate H. Qed.

Lemma parse_total_cases : forall pre last, final_rtok last = true ->
  (exists o, parse (pre ++ [last]) = Ok o) \/ parse (pre ++ [last]) = Error EBADMSG \/
  parse (pre ++ [last]) = Error ENOPROTOOPT \/ parse (pre ++ [last]) = Error EINVAL.
Proof.
  intros pre last Hl.
  pose proof (no_einternal_state (pre ++ [last]) SStart nei_start) as Hn.
  rewrite parse_snoc. rewrite fold_left_app in Hn; simpl in Hn.
  destruct (pstep_final_terminal (fold_left pstep pre SStart) last Hl) as [[o E] | [c E]];
    rewrite E in *; simpl.
  - left; exists o; reflexivity.
  - right. destruct c; auto. exfalso; exact (Hn EINTERNAL eq_refl eq_refl).
Qed.

Lemma parse_total_lemma : forall pre last, final_rtok last = true -> parse (pre ++ [last]) <> Error EINTERNAL.
Proof.
  intros pre last Hl.
  destruct (parse_total_cases pre last Hl) as [[o E] | [E | [E | E]]]; rewrite E; discriminate.
Qed.

(* ================================================================================================= *)
(* B. Line breaks                                                                                     *)
(* ================================================================================================= *)
(* the next call of next_token has no F_EOL *)
Definition noeol (s : pst) : Prop := f_eol (flags_of s) = false.

Ltac noeol_tac :=
  repeat (match goal with
          | |- noeol (match ?x with _ => _ end) => destruct x; simpl
          | |- _ => progress unfold err
          | |- noeol _ => reflexivity
          end).

Lemma on_tok_eol_noeol : forall s, noeol (on_tok s TEol).
Proof.
  destruct s; simpl; unfold_parser; simpl; noeol_tac.
Qed.

Lemma after_newline_no_eol_strong : forall s o, f_eol (flags_of (pstep s (RNl o))) = false.
Proof.
  intros s o; unfold pstep; simpl.
  destruct (f_eol (flags_of s)) eqn:E; simpl.
  - apply on_tok_eol_noeol.
  - destruct o.
    + apply on_tok_eol_noeol.
    + exact E.
Qed.

(* after a newline token has been consumed (skipped, or returned as T_EOL) the next call of next_token has no F_EOL *)
Lemma after_newline_no_eol : forall s o, f_eol (flags_of (pstep s (RNl o))) = false \/ terminal (pstep s (RNl o)).
Proof. intros; left; apply after_newline_no_eol_strong. Qed.

Lemma pstep_nl_skip : forall s, f_eol (flags_of s) = false -> pstep s (RNl false) = s.
Proof. intros s E; unfold pstep; simpl; rewrite E; reflexivity. Qed.

Lemma pstep_nl_nl : forall s o, pstep (pstep s (RNl o)) (RNl false) = pstep s (RNl o).
Proof. intros; apply pstep_nl_skip, after_newline_no_eol_strong. Qed.

Lemma parse_nl_after_nl_lemma : forall s1 s2 o, parse (s1 ++ RNl o :: RNl false :: s2) = parse (s1 ++ RNl o :: s2).
Proof.
  intros; unfold parse; rewrite !fold_left_app; simpl. rewrite pstep_nl_nl; reflexivity.
Qed.

(* a line break is free wherever the parser is not inside a version-1 data line *)
Lemma parse_nl_free_lemma : forall s1 s2, f_eol (flags_of (fold_left pstep s1 SStart)) = false ->
  parse (s1 ++ RNl false :: s2) = parse (s1 ++ s2).
Proof.
  intros s1 s2 E; unfold parse; rewrite !fold_left_app; simpl. rewrite (pstep_nl_skip _ E); reflexivity.
Qed.

Lemma parse_leading_nl_lemma : forall r, parse (RNl false :: r) = parse r.
Proof. intro r; apply (parse_nl_free_lemma [] r); reflexivity. Qed.
