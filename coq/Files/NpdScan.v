(* NPD field accounting as coded: the fields vnadata_save writes per data line
   (vnadata_save.c, the printing loops) and the fields _vnadata_load_npd expects
   (vnadata_load_npd.c, "Find the best parameter"), and the header-line state machine of the
   loader.  No proofs in this file. *)
Require Import List ZArith Bool.
Import ListNotations.

Inductive ptype := PUNDEF | PS | PT | PU | PZ | PY | PH | PG | PA | PB | PZIN.
Inductive form := DB | MA | RI | PRC | PRL | SRC | SRL | IL | RL | VSWR.
Record entry := { e_par : ptype; e_form : form }.

Definition is_matrix (t : ptype) : bool := match t with PUNDEF | PZIN => false | _ => true end.
Definition two_port_only (t : ptype) : bool := match t with PT | PU | PH | PG | PA | PB => true | _ => false end.

(* what parse_format (vnadata_set_format.c) can produce, after the saver resolved untyped entries *)
Definition wf_entry (e : entry) : bool :=
  match e_form e, e_par e with
  | (IL | RL | VSWR), PS => true
  | (PRC | PRL | SRC | SRL), PZIN => true
  | (MA | RI), PZIN => true
  | (DB | MA | RI), t => is_matrix t
  | _, _ => false
  end.

(* saver: values printed for one entry on one data line; rows x ports is the object's shape *)
Definition saver_fields (rows ports : nat) (e : entry) : nat :=
  match e_par e, e_form e with
  | PS, IL => rows * ports - Nat.min rows ports        (* every cell with row <> column *)
  | PS, RL => ports
  | PS, VSWR => ports
  | PZIN, _ => 2 * ports
  | _, _ => 2 * (rows * ports)
  end.

(* loader: fields expected for one entry *)
Definition loader_fields (ports : nat) (e : entry) : nat :=
  match e_par e, e_form e with
  | PS, IL => ports * (ports - 1)
  | PS, (RL | VSWR) => ports
  | PZIN, _ => 2 * ports
  | _, _ => 2 * ports * ports
  end.

(* the loader as it was before fix D31 (IL counted as ports): kept for the refutation *)
Definition loader_fields_d31 (ports : nat) (e : entry) : nat :=
  match e_par e, e_form e with
  | PS, (IL | RL | VSWR) => ports
  | PZIN, _ => 2 * ports
  | _, _ => 2 * ports * ports
  end.

Definition line_fields (f : entry -> nat) (fz0 : bool) (ports : nat) (l : list entry) : nat :=
  1 + (if fz0 then 2 * ports else 0) + fold_right (fun e acc => f e + acc) 0 l.

(* ------------------------------------------------------------------------------------------
   Header lines of the loader (the for(;;) switch on nss_record_type).  Arguments are already
   converted (expect_nnint_arg); a z0 line carries the number of values given. *)
Inductive hline :=
  | HVersion (ok : bool)            (* #:version 1.0 / anything else *)
  | HPorts (n : nat)
  | HRows (n : nat)
  | HColumns (n : nat)
  | HFrequencies (n : nat)
  | HParameters (l : list entry)
  | HFprecision (n : nat)
  | HDprecision (n : nat).

Record hstate := {
  h_err : bool;
  h_ports : option nat; h_rows : option nat; h_columns : option nat;
  h_frequencies : option nat; h_parameters : option (list entry);
  h_fprecision : option nat; h_dprecision : option nat }.

Definition h0 : hstate := Build_hstate false None None None None None None None.
Definition fail (s : hstate) : hstate :=
  Build_hstate true (h_ports s) (h_rows s) (h_columns s) (h_frequencies s) (h_parameters s) (h_fprecision s) (h_dprecision s).

Definition max_precision : nat := 1000.

Definition hstep (s : hstate) (l : hline) : hstate :=
  if h_err s then s else
  match l with
  | HVersion ok => if ok then s else fail s
  | HPorts n => match h_ports s with
                | Some _ => fail s                     (* redundant ports line *)
                | None => Build_hstate false (Some n) (h_rows s) (h_columns s) (h_frequencies s) (h_parameters s)
                                       (h_fprecision s) (h_dprecision s)
                end
  | HRows n => Build_hstate false (h_ports s) (Some n) (h_columns s) (h_frequencies s) (h_parameters s)
                            (h_fprecision s) (h_dprecision s)
  | HColumns n => Build_hstate false (h_ports s) (h_rows s) (Some n) (h_frequencies s) (h_parameters s)
                               (h_fprecision s) (h_dprecision s)
  | HFrequencies n => Build_hstate false (h_ports s) (h_rows s) (h_columns s) (Some n) (h_parameters s)
                                   (h_fprecision s) (h_dprecision s)
  | HParameters p => Build_hstate false (h_ports s) (h_rows s) (h_columns s) (h_frequencies s) (Some p)
                                  (h_fprecision s) (h_dprecision s)
  | HFprecision n => if Nat.ltb max_precision n then fail s else
                     Build_hstate false (h_ports s) (h_rows s) (h_columns s) (h_frequencies s) (h_parameters s)
                                  (Some n) (h_dprecision s)
  | HDprecision n => if Nat.ltb max_precision n then fail s else
                     Build_hstate false (h_ports s) (h_rows s) (h_columns s) (h_frequencies s) (h_parameters s)
                                  (h_fprecision s) (Some n)
  end.

Definition hrun (ls : list hline) : hstate := fold_left hstep ls h0.

Definition hkey (l : hline) : nat :=
  match l with
  | HVersion _ => 0 | HPorts _ => 1 | HRows _ => 2 | HColumns _ => 3 | HFrequencies _ => 4
  | HParameters _ => 5 | HFprecision _ => 6 | HDprecision _ => 7
  end.

(* after the header: ports from #:ports, else from equal rows/columns; the three required keywords *)
Definition header_result (s : hstate) : option (nat * nat * list entry) :=
  if h_err s then None else
  let ports := match h_ports s with
               | Some n => Some n
               | None => match h_rows s, h_columns s with
                         | Some r, Some c => if Nat.eqb r c then Some c else None
                         | _, _ => None
                         end
               end in
  match ports, h_frequencies s, h_parameters s with
  | Some p, Some f, Some l => Some (p, f, l)
  | _, _, _ => None
  end.
