(* Totality of the Touchstone loader model on every byte string, composed from the tokenizer and parser
   lemmas (TsTokProofs.v, TsParseBasics.v), and the text-buffer invariant along a whole token stream.

   Nothing here changes the model: TsTok.v and TsParse.v are only read. *)
Require Import List NArith ZArith Bool Lia. Import ListNotations.
Require Import LV.Files.TsTok LV.Files.TsTokProofs LV.Files.TsParse LV.Files.TsParseBasics.

(* ---- the loader answers on every byte string, with an object or one of three error classes ----------- *)
Theorem load_ts_total_lemma : forall bytes,
  (exists o, load_ts bytes = Ok o) \/ load_ts bytes = Error EBADMSG \/ load_ts bytes = Error ENOPROTOOPT \/
  load_ts bytes = Error EINVAL.
Proof.
  intros bytes. unfold load_ts.
  destruct (tok_total_lemma bytes) as (pre & last & E & Hl & _). rewrite E.
  apply parse_total_cases. destruct last; try discriminate Hl; reflexivity.
Qed.

Theorem load_ts_never_internal_lemma : forall bytes, load_ts bytes <> Error EINTERNAL.
Proof.
  intros bytes. destruct (load_ts_total_lemma bytes) as [[o E] | [E | [E | E]]]; rewrite E; discriminate.
Qed.

(* ---- the text buffer along the whole stream ------------------------------------------------------------ *)
(* the scanner keeps one buffer for the whole load: its allocation only grows, and for every token the
   text and its terminating NUL fit (length + 1 <= allocation at the moment end_text writes the NUL) *)
Fixpoint fits (r : list rtok) (a : N) : Prop :=
  match r with
  | [] => True
  | x :: r' =>
      let st := add_chars (rtok_text_length x) (0%N, a) in
      (fst st = N.of_nat (rtok_text_length x) /\ fst st + 1 <= snd st /\ a <= snd st)%N /\ fits r' (snd st)
  end.

Lemma fits_all : forall r a, (0 < a)%N -> fits r a.
Proof.
  induction r as [| x r IH]; intros a Ha; [exact I |].
  cbn [fits]. pose proof (tok_buffer_no_overflow_lemma (rtok_text_length x) a Ha) as H.
  destruct (add_chars (rtok_text_length x) (0%N, a)) as [len' a']. cbn [fst snd].
  destruct H as (H1 & H2 & H3). split; [repeat split; assumption |]. apply IH. lia.
Qed.

Theorem stream_buffer_no_overflow_lemma : forall bytes, fits (tokens bytes) initial_text_allocation.
Proof. intros bytes. apply fits_all. reflexivity. Qed.

Lemma fold_alloc_mono : forall r a, (0 < a)%N ->
  (a <= fold_left (fun a x => alloc_after_text a (rtok_text_length x)) r a)%N.
Proof.
  induction r as [| x r IH]; intros a Ha; [cbn; lia |].
  cbn [fold_left].
  assert (H : (a <= alloc_after_text a (rtok_text_length x))%N).
  { unfold alloc_after_text. pose proof (tok_buffer_no_overflow_lemma (rtok_text_length x) a Ha) as H.
    destruct (add_chars (rtok_text_length x) (0%N, a)) as [len' a']. cbn [snd]. destruct H as (_ & _ & H3). exact H3. }
  specialize (IH (alloc_after_text a (rtok_text_length x)) ltac:(lia)). lia.
Qed.

Theorem final_allocation_bound_lemma : forall bytes, (initial_text_allocation <= final_allocation (tokens bytes))%N.
Proof. intros bytes. unfold final_allocation. apply fold_alloc_mono. reflexivity. Qed.
