(* Equivalent spellings of a Touchstone file load to the same object: corollaries of the two load theorems
   (TsLoadV2.v2_load_lemma, TsLoadV1.v1_load_lemma), of the matrix lemmas (TsMatrix.v), of the option-line
   lemmas (TsSpecV2.v) and of the tokenizer decoration lemmas (TsTokProofs.v) composed with the parser.

   Nothing here changes the model: TsTok.v, TsParse.v and TsSpec.v are only read. *)
Require Import List NArith ZArith QArith Qcanon Bool Lia Permutation. Import ListNotations.
Require Import LV.Files.TsTok LV.Files.TsTokProofs LV.Files.TsParse LV.Files.TsParseBasics LV.Files.TsSpec.
Require Import LV.Files.TsSpecV2 LV.Files.TsMatrix LV.Files.TsLoadV2 LV.Files.TsLoadV1.
Local Open Scope nat_scope.

(* ================================================================================================== *)
(* 1. Version-2 files with the same content                                                            *)
(* ================================================================================================== *)
Definition f_tr (f : v2file) : bool := match f_order f with Some true => true | _ => false end.

(* two records hold the same frequency (after scaling by the unit) and the same matrix *)
Definition rec_equiv (f1 f2 : v2file) (r1 r2 : num * list num) : Prop :=
  xmul (XQ (h_mult (opts_hdr true (f_opts f1)))) (n_val (fst r1)) =
  xmul (XQ (h_mult (opts_hdr true (f_opts f2)))) (n_val (fst r2)) /\
  build_matrix (f_mf f1) (f_tr f1) (f_n f1) (map n_val (snd r1)) =
  build_matrix (f_mf f2) (f_tr f2) (f_n f2) (map n_val (snd r2)).

Definition v2_equiv (f1 f2 : v2file) : Prop :=
  let h1 := opts_hdr true (f_opts f1) in
  let h2 := opts_hdr true (f_opts f2) in
  h_type h1 = h_type h2 /\ h_fmt h1 = h_fmt h2 /\ h_z0 h1 = h_z0 h2 /\ f_n f1 = f_n f2 /\
  option_map (map n_val) (f_ref f1) = option_map (map n_val) (f_ref f2) /\
  Forall2 (rec_equiv f1 f2) (f_records f1) (f_records f2).

Lemma Forall2_same : forall A (R : A -> A -> Prop) l, (forall a, R a a) -> Forall2 R l l.
Proof. intros A R l H. induction l; constructor; auto. Qed.

Lemma Forall2_impl : forall A B (R1 R2 : A -> B -> Prop), (forall a b, R1 a b -> R2 a b) ->
  forall l1 l2, Forall2 R1 l1 l2 -> Forall2 R2 l1 l2.
Proof. intros A B R1 R2 H l1 l2 HF. induction HF; constructor; auto. Qed.

Lemma Forall2_map_eq : forall A B (f g : A -> B) l1 l2, Forall2 (fun a b => f a = g b) l1 l2 -> map f l1 = map g l2.
Proof. intros A B f g l1 l2 H. induction H as [| a b l1 l2 E _ IH]; [reflexivity |]. cbn [map]. rewrite E, IH. reflexivity. Qed.

Lemma v2_equiv_result : forall f1 f2, v2_equiv f1 f2 -> v2_result f1 = v2_result f2.
Proof.
  intros f1 f2 (Ht & Hf & Hz & Hn & Hr & Hrec). unfold v2_result, v2_freqs. fold (f_tr f1) (f_tr f2).
  assert (E1 : map (fun r => xmul (XQ (h_mult (opts_hdr true (f_opts f1)))) (n_val (fst r))) (f_records f1) =
               map (fun r => xmul (XQ (h_mult (opts_hdr true (f_opts f2)))) (n_val (fst r))) (f_records f2)).
  { apply Forall2_map_eq. eapply Forall2_impl; [| exact Hrec]. intros a b [A _]. exact A. }
  assert (E2 : map (fun r => build_matrix (f_mf f1) (f_tr f1) (f_n f1) (map n_val (snd r))) (f_records f1) =
               map (fun r => build_matrix (f_mf f2) (f_tr f2) (f_n f2) (map n_val (snd r))) (f_records f2)).
  { apply Forall2_map_eq. eapply Forall2_impl; [| exact Hrec]. intros a b [_ B]. exact B. }
  rewrite E1, E2, Ht, Hf, Hz, Hn. f_equal.
  destruct (f_ref f1), (f_ref f2); cbn [option_map] in Hr; try discriminate; [injection Hr as Hr; exact Hr | reflexivity].
Qed.

(* the general equivalence: well-formed version-2 files with the same content load to the same object *)
Theorem v2_equiv_load_lemma : forall f1 f2, v2_wf f1 -> v2_wf f2 -> v2_equiv f1 f2 ->
  parse (v2_stream f1) = parse (v2_stream f2) /\ parse (v2_stream f1) = Ok (v2_result f1).
Proof.
  intros f1 f2 H1 H2 He. rewrite (v2_load_lemma f1 H1), (v2_load_lemma f2 H2), (v2_equiv_result f1 f2 He).
  split; reflexivity.
Qed.

(* ---- 1a. the option line: order, defaults, repeated fields ------------------------------------------- *)
(* f with another option line *)
Definition with_opts (f : v2file) (fs : list ofield) : v2file :=
  mkv2file fs (f_ports f) (f_order f) (f_nfreq f) (f_matrix f) (f_ref f) (f_records f) (f_end f).

Lemma same_hdr_equiv : forall f fs, opts_hdr true fs = opts_hdr true (f_opts f) -> v2_equiv (with_opts f fs) f.
Proof.
  intros f fs H. unfold v2_equiv. cbn [with_opts f_opts f_ref f_records]. rewrite H.
  repeat split; try reflexivity.
  apply Forall2_same. intros r. unfold rec_equiv. cbn [with_opts f_opts]. rewrite H. split; reflexivity.
Qed.

Lemma same_hdr_wf : forall f fs, v2_wf f -> Forall ofield_ok fs -> opts_hdr true fs = opts_hdr true (f_opts f) ->
  v2_wf (with_opts f fs).
Proof.
  intros f fs (A1 & A2 & A3 & A4 & A5 & A6 & A7 & A8 & A9 & A10) Hok H.
  unfold v2_wf, v2_freqs, f_pairs, f_mf, f_n in *. cbn [with_opts f_opts f_ports f_order f_nfreq f_matrix f_ref f_records].
  rewrite H.
  split; [exact Hok |]. split; [exact A2 |]. split; [exact A3 |]. split; [exact A4 |]. split; [exact A5 |].
  split; [exact A6 |]. split; [exact A7 |]. split; [exact A8 |]. split; [exact A9 | exact A10].
Qed.

Theorem option_line_equiv_lemma : forall f fs, v2_wf f -> Forall ofield_ok fs ->
  opts_hdr true fs = opts_hdr true (f_opts f) ->
  parse (v2_stream (with_opts f fs)) = parse (v2_stream f).
Proof.
  intros f fs Hwf Hok H.
  apply (v2_equiv_load_lemma (with_opts f fs) f); [apply same_hdr_wf | | apply same_hdr_equiv]; assumption.
Qed.

(* the option fields in any order (each kind at most once) *)
Theorem option_order_load_lemma : forall f fs, v2_wf f -> Permutation (f_opts f) fs -> NoDup (map okind_of (f_opts f)) ->
  parse (v2_stream (with_opts f fs)) = parse (v2_stream f).
Proof.
  intros f fs Hwf HP Hnd. assert (Hok : Forall ofield_ok (f_opts f)) by (destruct Hwf as (A & _); exact A).
  apply option_line_equiv_lemma; [exact Hwf | |].
  - apply Forall_forall. intros x Hx. rewrite Forall_forall in Hok. apply Hok.
    apply (Permutation_in x (Permutation_sym HP) Hx).
  - symmetry. apply option_order_lemma; assumption.
Qed.

(* a field that spells the default value (GHz, S, MA, R 50) may be omitted *)
Theorem option_default_load_lemma : forall f fs1 d fs2, v2_wf f -> f_opts f = fs1 ++ d :: fs2 -> is_default d ->
  ~ In (okind_of d) (map okind_of fs1) ->
  parse (v2_stream (with_opts f (fs1 ++ fs2))) = parse (v2_stream f).
Proof.
  intros f fs1 d fs2 Hwf E Hd Hni. assert (Hok : Forall ofield_ok (f_opts f)) by (destruct Hwf as (A & _); exact A).
  rewrite E in Hok. apply Forall_app in Hok. destruct Hok as [Hok1 Hok2]. inversion Hok2 as [| ? ? Hdok Hok3]; subst.
  apply option_line_equiv_lemma; [exact Hwf | apply Forall_app; split; assumption |].
  rewrite E. symmetry. apply option_default_lemma; assumption.
Qed.

(* of two fields of the same kind the last one wins *)
Theorem option_last_wins_load_lemma : forall f fs1 x fs2 y, v2_wf f -> f_opts f = fs1 ++ x :: fs2 ++ [y] ->
  okind_of x = okind_of y ->
  parse (v2_stream (with_opts f (fs1 ++ fs2 ++ [y]))) = parse (v2_stream f).
Proof.
  intros f fs1 x fs2 y Hwf E Hk. assert (Hok : Forall ofield_ok (f_opts f)) by (destruct Hwf as (A & _); exact A).
  rewrite E in Hok. apply Forall_app in Hok. destruct Hok as [Hok1 Hok2]. inversion Hok2 as [| ? ? Hx Hok3]; subst.
  assert (Hy : ofield_ok y).
  { apply Forall_app in Hok3. destruct Hok3 as [_ Hy]. inversion Hy; assumption. }
  apply option_line_equiv_lemma; [exact Hwf | apply Forall_app; split; assumption |].
  rewrite E. symmetry. apply option_last_wins_lemma; assumption.
Qed.

(* ---- 1b. frequency unit with scaled numbers ----------------------------------------------------------- *)
(* files that differ in the option line's unit and in the spelling of the frequencies (and of any other number),
   the products unit x frequency being equal *)
Definition same_values (r1 r2 : num * list num) : Prop := map n_val (snd r1) = map n_val (snd r2).

Theorem unit_scaling_load_lemma : forall f1 f2, v2_wf f1 -> v2_wf f2 ->
  let h1 := opts_hdr true (f_opts f1) in
  let h2 := opts_hdr true (f_opts f2) in
  h_type h1 = h_type h2 -> h_fmt h1 = h_fmt h2 -> h_z0 h1 = h_z0 h2 ->
  f_n f1 = f_n f2 -> f_order f1 = f_order f2 -> f_mf f1 = f_mf f2 ->
  option_map (map n_val) (f_ref f1) = option_map (map n_val) (f_ref f2) ->
  Forall2 (fun r1 r2 => xmul (XQ (h_mult h1)) (n_val (fst r1)) = xmul (XQ (h_mult h2)) (n_val (fst r2)) /\ same_values r1 r2)
          (f_records f1) (f_records f2) ->
  parse (v2_stream f1) = parse (v2_stream f2).
Proof.
  intros f1 f2 W1 W2 h1 h2 Ht Hf Hz Hn Ho Hm Hr Hrec.
  apply (v2_equiv_load_lemma f1 f2 W1 W2). unfold v2_equiv. fold h1 h2. repeat split; try assumption.
  eapply Forall2_impl; [| exact Hrec]. intros r1 r2 [A B].
  unfold rec_equiv, f_tr. split; [exact A |]. unfold same_values in B. rewrite B, Hn, Ho, Hm. reflexivity.
Qed.

(* the arithmetic behind it: x kHz = 1000 x Hz, and so on, exactly *)
Lemma unit_scale_value : forall (k : Z) (q : Qc), xmul (XQ (qcz k)) (XQ q) = xmul (XQ (qcz 1)) (XQ (qcz k * q)%Qc).
Proof.
  intros k q. unfold xmul. f_equal. change (qcz 1) with 1%Qc. rewrite Qcmult_1_l. reflexivity.
Qed.

(* ---- 1c. Full / Upper / Lower, 12_21 / 21_12 ----------------------------------------------------------- *)
(* the records of f1 list the matrices M_i in the order of f1's [Matrix Format] / [Two-Port Order], those of f2 in
   the order of f2's *)
Definition listing (mf : mfmt) (tr : bool) (n : nat) (M : mat) : list xnum :=
  match mf with
  | MFull => nums_of (full_pairs n (if tr then transposed M else M))
  | MUpper => nums_of (upper_pairs n M)
  | MLower => nums_of (lower_pairs n M)
  end.

Lemma build_listing : forall mf tr n M, (mf <> MFull -> symmetric n M) -> build_matrix mf tr n (listing mf tr n M) = cells_of n M.
Proof.
  intros mf tr n M Hs. destruct mf; cbn [listing].
  - destruct tr; [apply build_full_transposed_lemma | apply build_full_lemma].
  - apply build_upper_lemma. apply Hs. discriminate.
  - apply build_lower_lemma. apply Hs. discriminate.
Qed.

Lemma length_listing : forall mf tr n M,
  length (listing mf tr n M) = 2 * match mf with MFull => n * n | _ => n * (n + 1) / 2 end.
Proof.
  intros mf tr n M. destruct mf; cbn [listing].
  - apply length_full_pairs.
  - apply length_upper_pairs.
  - apply length_lower_pairs.
Qed.

Theorem matrix_format_load_lemma : forall f1 f2 (Ms : list mat), v2_wf f1 -> v2_wf f2 ->
  opts_hdr true (f_opts f1) = opts_hdr true (f_opts f2) -> f_n f1 = f_n f2 ->
  option_map (map n_val) (f_ref f1) = option_map (map n_val) (f_ref f2) ->
  map (fun r => n_val (fst r)) (f_records f1) = map (fun r => n_val (fst r)) (f_records f2) ->
  map (fun r => map n_val (snd r)) (f_records f1) = map (listing (f_mf f1) (f_tr f1) (f_n f1)) Ms ->
  map (fun r => map n_val (snd r)) (f_records f2) = map (listing (f_mf f2) (f_tr f2) (f_n f2)) Ms ->
  (f_mf f1 <> MFull \/ f_mf f2 <> MFull -> Forall (symmetric (f_n f1)) Ms) ->
  parse (v2_stream f1) = parse (v2_stream f2).
Proof.
  intros f1 f2 Ms W1 W2 Hh Hn Hr Hfr H1 H2 Hs.
  apply (v2_equiv_load_lemma f1 f2 W1 W2). unfold v2_equiv. rewrite Hh. repeat split; try assumption.
  unfold rec_equiv. rewrite Hh. rewrite <- Hn in H2 |- *.
  set (n := f_n f1) in *. clearbody n.
  revert Hfr H1 H2 Hs. generalize (f_records f1) (f_records f2) Ms. clear.
  induction l as [| r1 l1 IH]; intros l2 Ms Hfr H1 H2 Hs.
  - destruct l2; [constructor | discriminate].
  - destruct l2 as [| r2 l2]; [discriminate |]. destruct Ms as [| M Ms]; [discriminate |].
    cbn [map] in *. injection Hfr as F1 F2. injection H1 as A1 A2. injection H2 as B1 B2.
    constructor.
    + rewrite F1. split; [reflexivity |]. rewrite A1, B1.
      rewrite !build_listing; [reflexivity | |].
      * intros Hm. assert (HF : Forall (symmetric n) (M :: Ms)) by (apply Hs; right; exact Hm). inversion HF; assumption.
      * intros Hm. assert (HF : Forall (symmetric n) (M :: Ms)) by (apply Hs; left; exact Hm). inversion HF; assumption.
    + apply (IH l2 Ms); try assumption. intros Hm. specialize (Hs Hm). inversion Hs; assumption.
Qed.

(* ================================================================================================== *)
(* 2. Version 1 and version 2 framing of the same data                                                  *)
(* ================================================================================================== *)
(* the type, format, multiplier and R of the option line do not depend on the version *)
Definition hdr_core (h : hdr) := (h_mult h, h_type h, h_fmt h, h_z0 h).

Lemma apply_ofield_core : forall x h h', hdr_core h = hdr_core h' -> hdr_core (apply_ofield h x) = hdr_core (apply_ofield h' x).
Proof.
  intros x h h' H. unfold hdr_core in *. injection H as A B C D.
  destruct x as [o | n]; [destruct o |]; cbn; congruence.
Qed.

Lemma opts_core : forall fs h h', hdr_core h = hdr_core h' ->
  hdr_core (fold_left apply_ofield fs h) = hdr_core (fold_left apply_ofield fs h').
Proof. induction fs as [| x fs IH]; intros h h' H; [exact H |]. cbn [fold_left]. apply IH, apply_ofield_core, H. Qed.

Lemma opts_hdr_core : forall fs, hdr_core (opts_hdr true fs) = hdr_core (opts_hdr false fs).
Proof. intros fs. unfold opts_hdr. apply opts_core. reflexivity. Qed.

(* lists laid out as an n x n grid *)
Lemma firstn_S_nth : forall A (d : A) l i, i < length l -> firstn (S i) l = firstn i l ++ [nth i l d].
Proof.
  intros A d l. induction l as [| a l IH]; intros i H; [cbn in H; lia |].
  destruct i as [| i]; [reflexivity |]. cbn [firstn nth app]. cbn [length] in H. rewrite <- IH by lia. reflexivity.
Qed.

Lemma firstn_add_nth : forall A (d : A) l a m, a + m <= length l ->
  firstn (a + m) l = firstn a l ++ map (fun c => nth (a + c) l d) (seq 0 m).
Proof.
  intros A d l a m. induction m as [| m IH]; intros H.
  - rewrite Nat.add_0_r, app_nil_r. reflexivity.
  - rewrite seq_S, map_app, app_assoc, <- IH by lia. cbn [map Nat.add].
    rewrite Nat.add_succ_r. apply firstn_S_nth. lia.
Qed.

Lemma grid_firstn : forall A (d : A) n l k, k * n <= length l ->
  flat_map (fun r => map (fun c => nth (r * n + c) l d) (seq 0 n)) (seq 0 k) = firstn (k * n) l.
Proof.
  intros A d n l. induction k as [| k IH]; intros H.
  - reflexivity.
  - rewrite seq_S, flat_map_app, IH by (cbn in H; lia). cbn [flat_map Nat.add]. rewrite app_nil_r.
    replace (S k * n) with (k * n + n) by (cbn; lia). symmetry. apply firstn_add_nth. cbn in H; lia.
Qed.

Lemma pairs_of_length : forall k (l : list xnum), length l = 2 * k -> length (pairs_of l) = k.
Proof.
  induction k as [| k IH]; intros l H.
  - destruct l; [reflexivity | discriminate].
  - destruct l as [| a [| b l]]; try (cbn in H; lia). cbn [pairs_of length]. rewrite IH; [reflexivity | cbn in H; lia].
Qed.

Lemma build_full_id : forall n vals, length vals = 2 * (n * n) -> build_matrix MFull false n vals = pairs_of vals.
Proof.
  intros n vals H. unfold build_matrix. cbn [pair_index].
  pose proof (pairs_of_length (n * n) vals H) as HL.
  rewrite (grid_firstn cell cell0 n (pairs_of vals) n) by lia.
  rewrite <- HL. apply firstn_all.
Qed.

Lemma build_21_12_v1 : forall vals, length vals = 8 -> build_matrix MFull true 2 vals = v1_cells 2 vals.
Proof.
  intros vals H.
  destruct vals as [| a0 [| a1 [| a2 [| a3 [| a4 [| a5 [| a6 [| a7 [| ? ?]]]]]]]]]; try discriminate H. reflexivity.
Qed.

(* the version-2 file with the content of a version-1 file: same option line, [Number of Ports], for two ports
   [Two-Port Order] 21_12 (the order of a version-1 line), [Number of Frequencies], Full matrices, no [Reference] *)
Definition v2_of_v1 (g : v1file) (pt nt : inum) (e : bool) : v2file :=
  mkv2file (g_opts g) pt (if (g_ports g =? 2)%nat then Some true else None) nt None None (g_records g) e.

Lemma v2_of_v1_wf : forall g pt nt e, v1_wf g -> inum_ok pt -> i_val pt = Z.of_nat (g_ports g) ->
  inum_ok nt -> i_val nt = Z.of_nat (length (g_records g)) -> v2_wf (v2_of_v1 g pt nt e).
Proof.
  intros g pt nt e (Hopts & Hn & Hhg & Hne & Hrec & Hasc & Hnp & Hnoise) Hpt Hpv Hnt Hnv.
  pose proof (opts_hdr_core (g_opts g)) as Hc. unfold hdr_core in Hc. injection Hc as C1 C2 C3 C4.
  unfold v2_wf, v2_freqs, f_pairs, f_mf, f_n.
  cbn [v2_of_v1 f_opts f_ports f_order f_nfreq f_matrix f_ref f_records]. rewrite Hpv, Nat2Z.id.
  split; [exact Hopts |]. split; [exact Hpt |]. split; [lia |]. split.
  { destruct (Nat.eqb_spec (g_ports g) 2) as [E | E]; split; intros H; try discriminate; try lia; congruence. }
  split; [rewrite C2; intros H; rewrite (Hhg H); reflexivity |].
  split; [exact Hnt |]. split; [exact Hnv |]. split; [exact I |]. split.
  - eapply Forall_impl; [| exact Hrec]. intros r (A & B & C & D).
    repeat split; try assumption. rewrite D. lia.
  - rewrite C1. exact Hasc.
Qed.

Lemma unnormalise_S : forall h m, h_type h = PS -> unnormalise h m = m.
Proof. intros h m H. unfold unnormalise. rewrite H. reflexivity. Qed.

(* the cells of the version-1 object are the un-normalised cells of the version-2 object; everything else agrees *)
Theorem v1_v2_unnormalised_lemma : forall g pt nt e, v1_wf g -> inum_ok pt -> i_val pt = Z.of_nat (g_ports g) ->
  inum_ok nt -> i_val nt = Z.of_nat (length (g_records g)) ->
  exists a b, parse (v1_stream g) = Ok a /\ parse (v2_stream (v2_of_v1 g pt nt e)) = Ok b /\
    o_v2 a = false /\ o_v2 b = true /\
    o_type a = o_type b /\ o_fmt a = o_fmt b /\ o_ports a = o_ports b /\ o_freqs a = o_freqs b /\ o_z0 a = o_z0 b /\
    o_cells a = map (unnormalise (opts_hdr false (g_opts g))) (o_cells b).
Proof.
  intros g pt nt e Hwf Hpt Hpv Hnt Hnv.
  pose proof (v2_of_v1_wf g pt nt e Hwf Hpt Hpv Hnt Hnv) as Hwf2.
  exists (v1_result g), (v2_result (v2_of_v1 g pt nt e)).
  split; [apply v1_load_lemma; exact Hwf |]. split; [apply v2_load_lemma; exact Hwf2 |].
  destruct Hwf as (Hopts & Hn & Hhg & Hne & Hrec & Hasc & Hnp & Hnoise).
  pose proof (opts_hdr_core (g_opts g)) as Hc. unfold hdr_core in Hc. injection Hc as C1 C2 C3 C4.
  unfold v1_result, v2_result, v1_freqs, v2_freqs, f_mf, f_n.
  cbn [v2_of_v1 f_opts f_ports f_order f_nfreq f_matrix f_ref f_records o_v2 o_type o_fmt o_ports o_freqs o_z0 o_cells].
  rewrite Hpv, Nat2Z.id, C1, C2, C3, C4. repeat split; try reflexivity.
  rewrite map_map. apply map_ext_in. intros r Hr. rewrite Forall_forall in Hrec. destruct (Hrec r Hr) as (A & B & C & D).
  f_equal.
  destruct (Nat.eqb_spec (g_ports g) 2) as [E | E].
  - rewrite E in *. symmetry. apply build_21_12_v1. rewrite map_length, D. reflexivity.
  - rewrite TsLoadV1.v1_cells_other by exact E. symmetry. apply build_full_id. rewrite map_length, D. lia.
Qed.

(* S parameters are not normalised: the two framings hold the same data *)
Theorem v1_v2_equiv_lemma : forall g pt nt e, v1_wf g -> inum_ok pt -> i_val pt = Z.of_nat (g_ports g) ->
  inum_ok nt -> i_val nt = Z.of_nat (length (g_records g)) -> h_type (opts_hdr false (g_opts g)) = PS ->
  exists a b, parse (v1_stream g) = Ok a /\ parse (v2_stream (v2_of_v1 g pt nt e)) = Ok b /\ same_data a b.
Proof.
  intros g pt nt e Hwf Hpt Hpv Hnt Hnv HS.
  destruct (v1_v2_unnormalised_lemma g pt nt e Hwf Hpt Hpv Hnt Hnv) as (a & b & Ha & Hb & _ & _ & A1 & A2 & A3 & A4 & A5 & A6).
  exists a, b. split; [exact Ha |]. split; [exact Hb |]. unfold same_data. repeat split; try assumption.
  rewrite A6. rewrite <- (map_id (o_cells b)) at 2. apply map_ext. intros m. apply unnormalise_S. exact HS.
Qed.

(* ---- version 1: option line, unit, noise lines ---------------------------------------------------------- *)
Lemma unnormalise_ext : forall h h' m, h_type h = h_type h' -> h_fmt h = h_fmt h' -> h_z0 h = h_z0 h' ->
  unnormalise h m = unnormalise h' m.
Proof. intros h h' m A B C. unfold unnormalise. rewrite A, B, C. reflexivity. Qed.

(* version-1 files with the same type, format, R, port count, frequencies (unit x number) and values load to the same
   object, whatever the order / defaults of the option line, the unit, the spelling of the numbers and the noise lines *)
Theorem v1_equiv_load_lemma : forall g1 g2, v1_wf g1 -> v1_wf g2 ->
  let h1 := opts_hdr false (g_opts g1) in
  let h2 := opts_hdr false (g_opts g2) in
  h_type h1 = h_type h2 -> h_fmt h1 = h_fmt h2 -> h_z0 h1 = h_z0 h2 -> g_ports g1 = g_ports g2 ->
  Forall2 (fun r1 r2 => xmul (XQ (h_mult h1)) (n_val (fst r1)) = xmul (XQ (h_mult h2)) (n_val (fst r2)) /\ same_values r1 r2)
          (g_records g1) (g_records g2) ->
  parse (v1_stream g1) = parse (v1_stream g2).
Proof.
  intros g1 g2 W1 W2 h1 h2 Ht Hf Hz Hn Hrec.
  rewrite (v1_load_lemma g1 W1), (v1_load_lemma g2 W2). f_equal.
  unfold v1_result, v1_freqs. fold h1 h2. rewrite Ht, Hf, Hz, Hn. f_equal.
  - apply Forall2_map_eq. eapply Forall2_impl; [| exact Hrec]. intros a b [A _]. exact A.
  - apply Forall2_map_eq. eapply Forall2_impl; [| exact Hrec]. intros a b [_ B].
    unfold same_values in B. rewrite B. apply unnormalise_ext; assumption.
Qed.

(* ================================================================================================== *)
(* 3. Decoration of the bytes: case, blanks, comments, blank lines, free line breaks                    *)
(* ================================================================================================== *)
Theorem load_case_insensitive_lemma : forall l1 l2, map upcase l1 = map upcase l2 -> load_ts l1 = load_ts l2.
Proof. intros l1 l2 H. unfold load_ts. rewrite (tok_case_insensitive_lemma l1 l2 H). reflexivity. Qed.

Theorem load_swapcase_lemma : forall l, load_ts (map swapcase l) = load_ts l.
Proof. intros l. unfold load_ts. rewrite (tok_case_map_lemma swapcase l swapcase_upcase). reflexivity. Qed.

Theorem load_blank_lemma : forall pre suf c, is_blank c = true ->
  match state_after pre with Some (m, _) => gap m (map upcase suf) | None => True end ->
  load_ts (pre ++ c :: suf) = load_ts (pre ++ suf).
Proof. intros pre suf c Hb Hs. unfold load_ts. rewrite (tok_decoration_blank_lemma pre suf c Hb Hs). reflexivity. Qed.

Theorem load_comment_lemma : forall pre suf body,
  match state_after pre with Some (MKw _, _) => False | _ => True end ->
  Forall (fun c => c <> 10%N) body -> (suf = [] \/ exists s', suf = 10%N :: s') ->
  load_ts (pre ++ 33%N :: body ++ suf) = load_ts (pre ++ suf).
Proof. intros pre suf body H1 H2 H3. unfold load_ts. rewrite (tok_decoration_comment_lemma pre suf body H1 H2 H3). reflexivity. Qed.

(* an empty line (a newline right after a newline) *)
Theorem load_blank_line_lemma : forall pre suf out o,
  run MNormal false (map upcase pre) = (out ++ [RNl o], Some (MNormal, false)) ->
  load_ts (pre ++ 10%N :: suf) = load_ts (pre ++ suf).
Proof.
  intros pre suf out o H. unfold load_ts.
  destruct (tok_decoration_newline_lemma pre suf _ H) as [E1 E2]. rewrite E1, E2.
  rewrite <- !app_assoc. cbn [app]. apply parse_nl_after_nl_lemma.
Qed.

(* a line break between two tokens wherever the parser is not inside a version-1 data line
   (anywhere in a version-2 file outside the option line, between the lines of a version-1 file, at the start) *)
Theorem load_line_break_lemma : forall pre suf out,
  run MNormal false (map upcase pre) = (out, Some (MNormal, false)) ->
  f_eol (flags_of (fold_left pstep out SStart)) = false ->
  load_ts (pre ++ 10%N :: suf) = load_ts (pre ++ suf).
Proof.
  intros pre suf out H Hf. unfold load_ts.
  destruct (tok_decoration_newline_lemma pre suf _ H) as [E1 E2]. rewrite E1, E2.
  apply parse_nl_free_lemma. exact Hf.
Qed.
