(* Lemmas about Files/TsV2Order.v: the keyword loop of the version-2 reader run on keyword lines in any order
   (accepted and rejected orders), permutation invariance over the accepted orders, and the load theorem for files
   with any accepted keyword order, information blocks and a noise block.  TsTok.v / TsParse.v are only read. *)
Require Import List NArith ZArith QArith Qcanon Bool Lia Permutation. Import ListNotations.
Require Import LV.Files.TsTok LV.Files.TsParse LV.Files.TsParseBasics LV.Files.TsSpec LV.Files.TsSpecV2 LV.Files.TsLoadV2.
Require Import LV.Files.TsV2Order.
Open Scope Z_scope.

Local Opaque parse_double parse_int.

Lemma fold_err : forall l c, fold_left pstep l (SErr c) = SErr c.
Proof. induction l as [| x l IH]; intros c; [reflexivity |]. cbn [fold_left]. rewrite terminal_absorbing by apply terminal_err. apply IH. Qed.

(* ---- one keyword line, accepted or rejected, as the parser model runs it -------------------------------- *)
(* after a [Begin Information] without [End Information] the parser is in SInfo, which treats every token but
   [End Information] as SBody does *)
Definition body_like (s : pst) (h : hdr) : Prop := s = SBody h \/ s = SInfo h.

Lemma sinfo_kw : forall h k, k <> KEndInformation -> pstep (SInfo h) (RKw k) = pstep (SBody h) (RKw k).
Proof. intros h k H. destruct k; try reflexivity. congruence. Qed.

Lemma render_kw_from : forall h k s, body_like s h -> fold_left pstep (render_kw k) s = fold_left pstep (render_kw k) (SBody h).
Proof.
  intros h k s [-> | ->]; [reflexivity |].
  destruct k as [n | o | n | n | m | l | closed]; cbn [render_kw app fold_left]; rewrite sinfo_kw by discriminate; reflexivity.
Qed.

Lemma kw_line_run_body : forall h k, kwline_ok h k ->
  match kw_step h k with
  | Some h' => body_like (fold_left pstep (render_kw k) (SBody h)) h'
  | None => fold_left pstep (render_kw k) (SBody h) = SErr EBADMSG
  end.
Proof.
  intros h k Hok. destruct k as [n | o | n | n | m | l | closed]; cbn [render_kw kw_step kwline_ok] in *.
  - (* ports *)
    cbn [fold_left]. rewrite pstep_kw. cbn [on_tok body_tok].
    destruct (h_ports h =? -1) eqn:Ep.
    + rewrite pstep_word. cbn [flags_of]. rewrite (classify_int _ _ _ Hok). cbn [on_tok arg_tok].
      destruct (i_val n <? 0); [rewrite terminal_absorbing by apply terminal_err; reflexivity |].
      destruct (negb (i_val n =? 2) && is_hg (h_type h)); [rewrite terminal_absorbing by apply terminal_err; reflexivity |].
      left. apply pstep_nl. reflexivity.
    + unfold err. rewrite !terminal_absorbing by apply terminal_err. reflexivity.
  - left. apply kw_order_run.
  - left. apply kw_nfreq_run. exact Hok.
  - cbn [fold_left]. rewrite pstep_kw. cbn [on_tok body_tok].
    rewrite pstep_word. cbn [flags_of]. rewrite (classify_int _ _ _ Hok). cbn [on_tok arg_tok].
    destruct (i_val n <? 0); [rewrite terminal_absorbing by apply terminal_err; reflexivity |].
    left. apply pstep_nl. reflexivity.
  - left. apply kw_matrix_run.
  - (* reference *)
    destruct (h_ports h <? 0) eqn:Ep.
    + cbn [fold_left]. rewrite pstep_kw. cbn [on_tok body_tok]. rewrite Ep. apply fold_err.
    + destruct (h_ref h) as [r |] eqn:Er.
      * cbn [fold_left]. rewrite pstep_kw. cbn [on_tok body_tok]. rewrite Ep, Er. apply fold_err.
      * apply Z.ltb_ge in Ep. destruct (Hok Ep eq_refl) as (Hl & Hp).
        left. apply kw_ref_run; assumption.
  - destruct closed; [left | right]; reflexivity.
Qed.

(* kw_lines_run: the keyword loop on any list of keyword lines: the header kws_run computes if every line is
   accepted, the error EBADMSG as soon as one is rejected *)
Lemma kw_lines_run : forall ks h s, body_like s h -> kws_ok h ks ->
  match kws_run h ks with
  | Some h' => body_like (fold_left pstep (render_kws ks) s) h'
  | None => fold_left pstep (render_kws ks) s = SErr EBADMSG
  end.
Proof.
  induction ks as [| k ks IH]; intros h s Hs Hok; [exact Hs |].
  destruct Hok as [Hk Hr]. unfold render_kws. cbn [flat_map kws_run]. rewrite fold_left_app, (render_kw_from _ _ _ Hs).
  pose proof (kw_line_run_body _ _ Hk) as H1.
  destruct (kw_step h k) as [h' |]; [apply IH; assumption | rewrite H1; apply fold_err].
Qed.

Lemma netdata_from : forall h s, body_like s h -> fold_left pstep [RKw KNetworkData; nl] s = fold_left pstep [RKw KNetworkData; nl] (SBody h).
Proof. intros h s [-> | ->]; reflexivity. Qed.

(* ---- which orders are rejected ---------------------------------------------------------------------------- *)
Lemma kw_step_ports_unset : forall h k h', kw_step h k = Some h' -> (forall n, k <> KLPorts n) -> h_ports h' = h_ports h.
Proof.
  intros h k h' H Hn. destruct k; cbn [kw_step] in H; try (injection H as <-; reflexivity).
  - exfalso. exact (Hn n eq_refl).
  - destruct (i_val n <? 0); [discriminate |]. injection H as <-. reflexivity.
  - destruct (h_ports h <? 0); [discriminate |]. destruct (h_ref h); [discriminate |]. injection H as <-. reflexivity.
Qed.

Lemma kw_step_ports_set : forall h k h', kw_step h k = Some h' -> 0 <= h_ports h -> 0 <= h_ports h'.
Proof.
  intros h k h' H Hp. destruct k; cbn [kw_step] in H; try (injection H as <-; exact Hp).
  - assert (E : (h_ports h =? -1) = false) by (apply Z.eqb_neq; lia). rewrite E in H. discriminate.
  - destruct (i_val n <? 0); [discriminate |]. injection H as <-. exact Hp.
  - destruct (h_ports h <? 0); [discriminate |]. destruct (h_ref h); [discriminate |]. injection H as <-. exact Hp.
Qed.

Lemma kw_step_ref_set : forall h k h', kw_step h k = Some h' -> h_ref h <> None -> h_ref h' <> None.
Proof.
  intros h k h' H Hp. destruct k; cbn [kw_step] in H; try (injection H as <-; exact Hp).
  - destruct (h_ports h =? -1); [| discriminate]. destruct (i_val n <? 0); [discriminate |].
    destruct (negb (i_val n =? 2) && is_hg (h_type h)); [discriminate |]. injection H as <-. exact Hp.
  - destruct (i_val n <? 0); [discriminate |]. injection H as <-. exact Hp.
  - destruct (h_ports h <? 0); [discriminate |]. destruct (h_ref h); [discriminate |]. injection H as <-. discriminate.
Qed.

Lemma kws_run_app : forall a b h, kws_run h (a ++ b) = match kws_run h a with Some h' => kws_run h' b | None => None end.
Proof. induction a as [| k a IH]; intros b h; [reflexivity |]. cbn [app kws_run]. destruct (kw_step h k); [apply IH | reflexivity]. Qed.

(* [Reference] before [Number of Ports] is refused *)
Lemma ref_before_ports_rejected_lemma : forall pre l post h, h_ports h = -1 -> (forall n, ~ In (KLPorts n) pre) ->
  kws_run h (pre ++ KLRef l :: post) = None.
Proof.
  induction pre as [| k pre IH]; intros l post h Hp Hn.
  - cbn [app kws_run kw_step]. rewrite Hp. reflexivity.
  - cbn [app kws_run]. destruct (kw_step h k) as [h' |] eqn:E; [| reflexivity].
    apply IH.
    + rewrite (kw_step_ports_unset _ _ _ E); [exact Hp |]. intros n ->. apply (Hn n). left. reflexivity.
    + intros n Hin. apply (Hn n). right. exact Hin.
Qed.

Lemma kws_run_ports_set : forall ks h h', kws_run h ks = Some h' -> 0 <= h_ports h -> 0 <= h_ports h'.
Proof.
  induction ks as [| k ks IH]; intros h h' H Hp; cbn [kws_run] in H; [injection H as <-; exact Hp |].
  destruct (kw_step h k) as [h1 |] eqn:E; [| discriminate]. apply (IH _ _ H). apply (kw_step_ports_set _ _ _ E Hp).
Qed.
Lemma kws_run_ref_set : forall ks h h', kws_run h ks = Some h' -> h_ref h <> None -> h_ref h' <> None.
Proof.
  induction ks as [| k ks IH]; intros h h' H Hp; cbn [kws_run] in H; [injection H as <-; exact Hp |].
  destruct (kw_step h k) as [h1 |] eqn:E; [| discriminate]. apply (IH _ _ H). apply (kw_step_ref_set _ _ _ E Hp).
Qed.

(* a second [Number of Ports] and a second [Reference] are refused, wherever they stand *)
Lemma ports_twice_rejected_lemma : forall pre n mid m post h, kws_run h (pre ++ KLPorts n :: mid ++ KLPorts m :: post) = None.
Proof.
  intros pre n mid m post h. rewrite kws_run_app. destruct (kws_run h pre) as [h1 |]; [| reflexivity].
  cbn [kws_run]. destruct (kw_step h1 (KLPorts n)) as [h2 |] eqn:E; [| reflexivity].
  rewrite kws_run_app. destruct (kws_run h2 mid) as [h3 |] eqn:E3; [| reflexivity].
  assert (H2 : 0 <= h_ports h2).
  { cbn [kw_step] in E. destruct (h_ports h1 =? -1); [| discriminate]. destruct (i_val n <? 0) eqn:En; [discriminate |].
    destruct (negb (i_val n =? 2) && is_hg (h_type h1)); [discriminate |]. injection E as <-. cbn. apply Z.ltb_ge. exact En. }
  pose proof (kws_run_ports_set _ _ _ E3 H2) as H3.
  cbn [kws_run kw_step]. assert (Q : (h_ports h3 =? -1) = false) by (apply Z.eqb_neq; lia). rewrite Q. reflexivity.
Qed.

Lemma ref_twice_rejected_lemma : forall pre l mid l' post h, kws_run h (pre ++ KLRef l :: mid ++ KLRef l' :: post) = None.
Proof.
  intros pre l mid l' post h. rewrite kws_run_app. destruct (kws_run h pre) as [h1 |]; [| reflexivity].
  cbn [kws_run]. destruct (kw_step h1 (KLRef l)) as [h2 |] eqn:E; [| reflexivity].
  rewrite kws_run_app. destruct (kws_run h2 mid) as [h3 |] eqn:E3; [| reflexivity].
  assert (H2 : h_ref h2 <> None).
  { cbn [kw_step] in E. destruct (h_ports h1 <? 0); [discriminate |]. destruct (h_ref h1); [discriminate |].
    injection E as <-. discriminate. }
  pose proof (kws_run_ref_set _ _ _ E3 H2) as H3.
  cbn [kws_run kw_step]. destruct (h_ports h3 <? 0); [reflexivity |]. destruct (h_ref h3); [reflexivity | congruence].
Qed.

(* ---- permutation invariance over the accepted orders ------------------------------------------------------- *)
(* the assignment a line makes, without the checks *)
Definition kw_apply (h : hdr) (k : kwline) : hdr :=
  match k with
  | KLPorts n => set_ports h (i_val n)
  | KLOrder o => set_order h (Some o)
  | KLNFreq n => set_nfreq h (i_val n)
  | KLNNoise n => set_nnoise h (i_val n)
  | KLMatrix m => set_matrix h m
  | KLRef l => set_ref h (Some (map n_val l))
  | KLInfo _ => h
  end.

Lemma kw_step_apply : forall h k h', kw_step h k = Some h' -> h' = kw_apply h k.
Proof.
  intros h k h' H. destruct k; cbn [kw_step kw_apply] in *; try (injection H as <-; reflexivity).
  - destruct (h_ports h =? -1); [| discriminate]. destruct (i_val n <? 0); [discriminate |].
    destruct (negb (i_val n =? 2) && is_hg (h_type h)); [discriminate |]. injection H as <-. reflexivity.
  - destruct (i_val n <? 0); [discriminate |]. injection H as <-. reflexivity.
  - destruct (h_ports h <? 0); [discriminate |]. destruct (h_ref h); [discriminate |]. injection H as <-. reflexivity.
Qed.

Lemma kws_run_apply : forall ks h h', kws_run h ks = Some h' -> h' = fold_left kw_apply ks h.
Proof.
  induction ks as [| k ks IH]; intros h h' H; cbn [kws_run fold_left] in *; [injection H as <-; reflexivity |].
  destruct (kw_step h k) as [h1 |] eqn:E; [| discriminate]. rewrite <- (kw_step_apply _ _ _ E). apply IH. exact H.
Qed.

Lemma kw_apply_comm : forall h x y, kw_kind x <> kw_kind y -> kw_apply (kw_apply h x) y = kw_apply (kw_apply h y) x.
Proof. intros h x y H. destruct x, y; cbn in H; try (exfalso; apply H; reflexivity); reflexivity. Qed.

Lemma fold_kw_perm : forall l1 l2, Permutation l1 l2 -> NoDup (map kw_kind l1) ->
  forall h, fold_left kw_apply l1 h = fold_left kw_apply l2 h.
Proof.
  induction 1 as [| x l l' HP IH | x y l | l l' l'' HP1 IH1 HP2 IH2]; intros Hnd h.
  - reflexivity.
  - cbn [fold_left]. apply IH. cbn [map] in Hnd. inversion Hnd; assumption.
  - cbn [fold_left]. f_equal. apply kw_apply_comm. cbn [map] in Hnd. inversion Hnd as [| ? ? Hni _]; subst.
    intro E. apply Hni. left. symmetry. exact E.
  - rewrite IH1 by exact Hnd. apply IH2. eapply Permutation_NoDup; [apply Permutation_map; exact HP1 | exact Hnd].
Qed.

Lemma fold_kw_info : forall l h, fold_left kw_apply l h = fold_left kw_apply (filter not_info l) h.
Proof.
  induction l as [| k l IH]; intros h; [reflexivity |]. destruct k; cbn [filter not_info fold_left]; try apply IH.
Qed.

Lemma Permutation_filter' : forall (A : Type) (p : A -> bool) l1 l2, Permutation l1 l2 -> Permutation (filter p l1) (filter p l2).
Proof.
  intros A p l1 l2 H. induction H as [| x l l' HP IH | x y l | l l' l'' HP1 IH1 HP2 IH2]; cbn [filter].
  - constructor.
  - destruct (p x); [constructor |]; exact IH.
  - destruct (p x), (p y); try apply Permutation_refl. apply perm_swap.
  - eapply Permutation_trans; eassumption.
Qed.

(* kw_order_invariance: two orders of the same keyword lines (each kind of line at most once, information blocks
   anywhere and in any number) that the loop accepts leave the same values in the parser's variables *)
Lemma kw_order_invariance_lemma : forall ks1 ks2 h h1 h2, Permutation ks1 ks2 -> NoDup (map kw_kind (filter not_info ks1)) ->
  kws_run h ks1 = Some h1 -> kws_run h ks2 = Some h2 -> h1 = h2.
Proof.
  intros ks1 ks2 h h1 h2 HP Hnd R1 R2.
  rewrite (kws_run_apply _ _ _ R1), (kws_run_apply _ _ _ R2), (fold_kw_info ks1), (fold_kw_info ks2).
  apply fold_kw_perm; [apply Permutation_filter'; exact HP | exact Hnd].
Qed.

(* ---- the data, the noise block and the end ----------------------------------------------------------------- *)
Lemma kw_step_v2 : forall h k h', kw_step h k = Some h' -> h_v2 h' = h_v2 h.
Proof. intros h k h' H. rewrite (kw_step_apply _ _ _ H). destruct k; reflexivity. Qed.
Lemma kws_run_v2 : forall ks h h', kws_run h ks = Some h' -> h_v2 h' = h_v2 h.
Proof.
  induction ks as [| k ks IH]; intros h h' H; cbn [kws_run] in H; [injection H as <-; reflexivity |].
  destruct (kw_step h k) as [h1 |] eqn:E; [| discriminate]. rewrite (IH _ _ H). apply (kw_step_v2 _ _ _ E).
Qed.

Lemma pstep_noise_double : forall h o left j fp n, num_ok n ->
  pstep (SNoise h o left j fp) (wnum n) = noise_tok h o left j fp (TDouble (n_val n)).
Proof. intros. rewrite pstep_wnum. cbn [flags_of]. rewrite (classify_double _ _ _ H). reflexivity. Qed.

Lemma noise_first : forall h o left fp x, (left =? 0)%N = false -> xlt x xq0 = false ->
  match fp with Some p => xlt x p = false | None => True end ->
  noise_tok h o left 0 fp (TDouble x) = SNoise h o left 1 (Some x).
Proof.
  intros h o left fp x Hl Hx Hp. unfold noise_tok. rewrite Hl, Hx.
  destruct fp as [p |]; [rewrite Hp |]; reflexivity.
Qed.
Lemma noise_mid : forall h o left j fp x, (left =? 0)%N = false -> (1 <= j <= 3)%nat ->
  noise_tok h o left j fp (TDouble x) = SNoise h o left (S j) fp.
Proof.
  intros h o left j fp x Hl Hj. unfold noise_tok. rewrite Hl.
  destruct j as [| [| [| [| j]]]]; try lia; reflexivity.
Qed.
Lemma noise_last : forall h o left fp x, (left =? 0)%N = false ->
  noise_tok h o left 4 fp (TDouble x) = SNoise h o (N.pred left) 0 fp.
Proof. intros h o left fp x Hl. unfold noise_tok. rewrite Hl. reflexivity. Qed.

Lemma noise_record_run : forall h o left fp f a b c d, (left =? 0)%N = false ->
  Forall num_ok [f; a; b; c; d] -> xlt (n_val f) xq0 = false ->
  match fp with Some p => xlt (n_val f) p = false | None => True end ->
  fold_left pstep (map wnum [f; a; b; c; d] ++ [nl]) (SNoise h o left 0 fp) = SNoise h o (N.pred left) 0 (Some (n_val f)).
Proof.
  intros h o left fp f a b c d Hl Hn Hf Hp.
  inversion Hn as [| ? ? Nf Hn1]; subst. inversion Hn1 as [| ? ? Na Hn2]; subst. inversion Hn2 as [| ? ? Nb Hn3]; subst.
  inversion Hn3 as [| ? ? Nc Hn4]; subst. inversion Hn4 as [| ? ? Nd _]; subst.
  cbn [map app fold_left].
  rewrite pstep_noise_double, noise_first by assumption.
  rewrite pstep_noise_double, noise_mid by (assumption || lia).
  rewrite pstep_noise_double, noise_mid by (assumption || lia).
  rewrite pstep_noise_double, noise_mid by (assumption || lia).
  rewrite pstep_noise_double, noise_last by assumption.
  apply pstep_nl. reflexivity.
Qed.

Definition last_noise (fp : option xnum) (l : list (list num)) : option xnum :=
  fold_left (fun acc r => match r with f :: _ => Some (n_val f) | [] => acc end) l fp.

Lemma noise_records_run : forall l h o k fp, noise_ok fp l ->
  fold_left pstep (flat_map (fun r => map wnum r ++ [nl]) l) (SNoise h o (N.of_nat (length l) + k) 0 fp) =
  SNoise h o k 0 (last_noise fp l).
Proof.
  induction l as [| r l IH]; intros h o k fp Hok; [reflexivity |].
  cbn [noise_ok] in Hok. destruct r as [| f [| a [| b [| c [| d [| e r]]]]]]; try contradiction.
  destruct Hok as (Hn & Hf & Hp & Hrest).
  assert (Hl : (N.of_nat (length ([f; a; b; c; d] :: l)) + k =? 0)%N = false) by (apply N.eqb_neq; cbn [length]; lia).
  cbn [flat_map]. rewrite fold_left_app, noise_record_run by assumption.
  replace (N.pred (N.of_nat (length ([f; a; b; c; d] :: l)) + k)) with (N.of_nat (length l) + k)%N by (cbn [length]; lia).
  rewrite IH by exact Hrest. reflexivity.
Qed.

Lemma v2g_end_run : forall h o fp (e : bool),
  fold_left pstep ((if e then [RKw KEnd; nl] else []) ++ [REof]) (SNoise h o 0 0 fp) = SDone (finalize h o).
Proof.
  intros h o fp e.
  destruct e; cbn [app fold_left].
  - rewrite pstep_kw. cbn [on_tok]. unfold noise_tok. cbn [N.eqb end_tok]. rewrite pstep_nl by reflexivity.
    unfold pstep. cbn [flags_of tok_of on_tok eof_tok]. reflexivity.
  - unfold pstep. cbn [flags_of tok_of on_tok]. unfold noise_tok. cbn [N.eqb end_tok eof_tok]. reflexivity.
Qed.

(* the end of a file without a noise block, and [Network Data], for either version *)
Lemma v2g_end_run0 : forall h need fr ms (e : bool), h_nnoise h = -1 ->
  fold_left pstep ((if e then [RKw KEnd; nl] else []) ++ [REof]) (SV2 h (mkv2 0 need need [] fr ms)) =
  SDone (finalize h (v2_obj h (mkv2 0 need need [] fr ms))).
Proof.
  intros h need fr ms e Hn.
  destruct e; cbn [app fold_left].
  - rewrite pstep_kw. cbn [on_tok]. unfold v2_tok. cbn [d_left N.eqb]. unfold after_data_tok. rewrite Hn.
    cbn [Z.leb Z.compare end_tok]. rewrite pstep_nl by reflexivity.
    unfold pstep. cbn [flags_of tok_of on_tok eof_tok]. reflexivity.
  - unfold pstep. cbn [flags_of tok_of on_tok]. unfold v2_tok. cbn [d_left N.eqb]. unfold after_data_tok. rewrite Hn.
    cbn [Z.leb Z.compare end_tok eof_tok]. reflexivity.
Qed.

Lemma kw_netdata_run_any : forall h, 0 <= h_ports h <= 46340 -> 0 <= h_nfreq h ->
  (h_ports h = 2 <-> h_order h <> None) ->
  fold_left pstep [RKw KNetworkData; nl] (SBody h) =
  SV2 h (mkv2 (Z.to_N (h_nfreq h)) (need_of h) (need_of h) [] [] []).
Proof.
  intros h [Hp0 Hp1] Hn Hord. cbn [fold_left]. rewrite pstep_kw. cbn [on_tok body_tok]. unfold after_kw.
  replace (h_ports h =? -1) with false by (symmetry; apply Z.eqb_neq; lia).
  rewrite andb_false_r. cbn [andb]. unfold network_data.
  replace (h_ports h <? 0) with false by (symmetry; apply Z.ltb_ge; exact Hp0).
  replace (h_nfreq h <? 0) with false by (symmetry; apply Z.ltb_ge; exact Hn).
  replace (int_max_sqrt <? h_ports h) with false by (symmetry; apply Z.ltb_ge; unfold int_max_sqrt; lia).
  assert (E : ((h_ports h =? 2) && match h_order h with None => true | Some _ => false end = false) /\
              (negb (h_ports h =? 2) && match h_order h with None => false | Some _ => true end = false)).
  { destruct (Z.eqb_spec (h_ports h) 2) as [E2 | E2]; destruct (h_order h) as [o |]; cbn; split; try reflexivity.
    - exfalso. apply (proj1 Hord E2). reflexivity.
    - exfalso. apply E2. apply (proj2 Hord). discriminate. }
  destruct E as [E1 E2]. rewrite E1, E2.
  apply pstep_nl. reflexivity.
Qed.

Lemma head_run_any : forall (v2 : bool) fs, Forall ofield_ok fs ->
  fold_left pstep ([RKw KVersion; RWord (if v2 then txt_2_0 else txt_1_0) false; nl; ROption] ++ render_opts fs ++ [RNl true]) SStart =
  SBody (opts_hdr v2 fs).
Proof.
  intros v2 fs Hok. rewrite fold_left_app.
  replace (fold_left pstep [RKw KVersion; RWord (if v2 then txt_2_0 else txt_1_0) false; nl; ROption] SStart) with (SOpt (hdr0 v2))
    by (destruct v2; reflexivity).
  rewrite fold_left_app, opts_run by assumption. reflexivity.
Qed.

Lemma v2g_noise_start : forall h need fr ms, 0 <= h_nnoise h ->
  fold_left pstep [RKw KNoiseData; nl] (SV2 h (mkv2 0 need need [] fr ms)) =
  SNoise h (v2_obj h (mkv2 0 need need [] fr ms)) (Z.to_N (h_nnoise h)) 0 None.
Proof.
  intros h need fr ms Hn. cbn [fold_left]. rewrite pstep_kw. cbn [on_tok]. unfold v2_tok. cbn [d_left N.eqb].
  unfold after_data_tok. replace (0 <=? h_nnoise h) with true by (symmetry; apply Z.leb_le; exact Hn).
  apply pstep_nl. reflexivity.
Qed.

(* v2g_load: every well-formed version-2 file with its keyword lines in an accepted order, information blocks and
   an optional noise block parses to the object it describes *)
Theorem v2g_load_lemma : forall h f, v2g_wf h f -> parse (v2g_stream h f) = Ok (v2g_result h f).
Proof.
  intros h f (Hopts & Hkok & Hh & Hp & Hord & Hnf & Hrec & Hasc & Hnoise).
  unfold parse, v2g_stream.
  rewrite (app_assoc _ (render_opts (q_opts f))), (app_assoc _ [RNl true]).
  rewrite <- (app_assoc [RKw KVersion; RWord (if q_v2 f then txt_2_0 else txt_1_0) false; nl; ROption]).
  rewrite fold_left_app, head_run_any by assumption.
  rewrite fold_left_app. unfold q_hdr in Hh.
  pose proof (kw_lines_run (q_kws f) _ (SBody (opts_hdr (q_v2 f) (q_opts f))) (or_introl eq_refl) Hkok) as Hrun. rewrite Hh in Hrun.
  rewrite fold_left_app, (netdata_from _ _ Hrun), kw_netdata_run_any; try assumption; try lia.
  change (need_of h) with (h_need h). rewrite Hnf.
  replace (Z.to_N (Z.of_nat (length (q_records f)))) with (N.of_nat (length (q_records f)) + 0)%N by lia.
  rewrite fold_left_app, v2_records_run.
  - unfold noise_part. destruct (0 <=? h_nnoise h) eqn:En.
    + destruct Hnoise as (Hnn & Hnok). apply Z.leb_le in En.
      rewrite <- app_assoc, fold_left_app, v2g_noise_start by exact En.
      rewrite Hnn. replace (Z.to_N (Z.of_nat (length (q_noise f)))) with (N.of_nat (length (q_noise f)) + 0)%N by lia.
      rewrite fold_left_app, noise_records_run by exact Hnok.
      rewrite v2g_end_run. cbn [pfinish]. unfold v2_obj, v2g_result. cbn [d_freqs d_mats].
      rewrite !app_nil_r, <- !map_rev, !rev_involutive. reflexivity.
    + cbn [app]. rewrite v2g_end_run0.
      * cbn [pfinish]. unfold v2_obj, v2g_result. cbn [d_freqs d_mats].
        rewrite !app_nil_r, <- !map_rev, !rev_involutive. reflexivity.
      * apply Z.leb_gt in En.
        (* the loop only stores values >= 0 in number_of_noise_frequencies, so "< 0" is the initial -1 *)
        assert (G : forall ks h0 h1, kws_run h0 ks = Some h1 -> (h_nnoise h0 = -1 \/ 0 <= h_nnoise h0) -> (h_nnoise h1 = -1 \/ 0 <= h_nnoise h1)).
        { induction ks as [| k ks IH]; intros h0 h1 R I; cbn [kws_run] in R; [injection R as <-; exact I |].
          destruct (kw_step h0 k) as [h2 |] eqn:E; [| discriminate]. apply (IH _ _ R).
          destruct k; cbn [kw_step] in E; try (injection E as <-; exact I).
          - destruct (h_ports h0 =? -1); [| discriminate]. destruct (i_val n <? 0); [discriminate |].
            destruct (negb (i_val n =? 2) && is_hg (h_type h0)); [discriminate |]. injection E as <-. exact I.
          - destruct (i_val n <? 0) eqn:Q; [discriminate |]. injection E as <-. right. cbn. apply Z.ltb_ge. exact Q.
          - destruct (h_ports h0 <? 0); [discriminate |]. destruct (h_ref h0); [discriminate |]. injection E as <-. exact I. }
        destruct (G _ _ _ Hh) as [E | E]; [| exact E | lia].
        left. pose proof (opts_hdr_shape (q_v2 f) (q_opts f)) as S. rewrite S. reflexivity.
  - replace (h_need h - 1)%nat with (h_need h - 1)%nat by reflexivity.
    eapply Forall_impl'; [| exact Hrec]. intros r (A & N & B & C). repeat split; try assumption. lia.
  - unfold h_need. lia.
  - apply chain2_start. exact Hasc.
Qed.

(* ---- corollaries ------------------------------------------------------------------------------------------- *)
(* kw_order_load: the same file with its keyword lines in another accepted order loads to the same object *)
Theorem kw_order_load_lemma : forall h1 h2 f1 f2, v2g_wf h1 f1 -> v2g_wf h2 f2 ->
  q_v2 f1 = q_v2 f2 -> q_opts f1 = q_opts f2 -> q_records f1 = q_records f2 ->
  Permutation (q_kws f1) (q_kws f2) -> NoDup (map kw_kind (filter not_info (q_kws f1))) ->
  h1 = h2 /\ parse (v2g_stream h1 f1) = parse (v2g_stream h2 f2) /\ parse (v2g_stream h1 f1) = Ok (v2g_result h1 f1).
Proof.
  intros h1 h2 f1 f2 W1 W2 Ev Eo Er HP Hnd.
  assert (E : h1 = h2).
  { destruct W1 as (_ & _ & R1 & _), W2 as (_ & _ & R2 & _). unfold q_hdr in *. rewrite Eo, Ev in R1.
    exact (kw_order_invariance_lemma _ _ _ _ _ HP Hnd R1 R2). }
  split; [exact E |]. rewrite (v2g_load_lemma _ _ W1), (v2g_load_lemma _ _ W2). split; [| reflexivity].
  subst h2. unfold v2g_result. rewrite Er. reflexivity.
Qed.

(* the noise block is skipped: the file without its [Number of Noise Frequencies] lines and [Noise Data] block is
   well-formed too and loads to the same object *)
Lemma kw_step_nnoise : forall h k v, is_nnoise k = false ->
  kw_step (set_nnoise h v) k = option_map (fun x => set_nnoise x v) (kw_step h k).
Proof.
  intros h k v Hk. destruct k; cbn [kw_step is_nnoise] in *; try reflexivity; try discriminate.
  - cbn [set_nnoise h_ports h_type]. destruct (h_ports h =? -1); [| reflexivity]. destruct (i_val n <? 0); [reflexivity |].
    destruct (negb (i_val n =? 2) && is_hg (h_type h)); reflexivity.
  - cbn [set_nnoise h_ports h_ref]. destruct (h_ports h <? 0); [reflexivity |]. destruct (h_ref h); reflexivity.
Qed.

Lemma kws_run_drop_noise : forall ks h0 h v, kws_run h0 ks = Some h ->
  kws_run (set_nnoise h0 v) (filter (fun k => negb (is_nnoise k)) ks) = Some (set_nnoise h v).
Proof.
  induction ks as [| k ks IH]; intros h0 h v R; cbn [kws_run filter] in *; [injection R as <-; reflexivity |].
  destruct (kw_step h0 k) as [h1 |] eqn:E; [| discriminate].
  destruct (is_nnoise k) eqn:Q; cbn [negb].
  - destruct k; try discriminate Q. cbn [kw_step] in E. destruct (i_val n <? 0); [discriminate |]. injection E as <-.
    rewrite <- (IH _ _ v R). reflexivity.
  - cbn [kws_run]. rewrite (kw_step_nnoise _ _ v Q), E. cbn [option_map]. apply IH. exact R.
Qed.

Lemma kws_ok_drop_noise : forall ks h0 h v, kws_ok h0 ks -> kws_run h0 ks = Some h ->
  kws_ok (set_nnoise h0 v) (filter (fun k => negb (is_nnoise k)) ks).
Proof.
  induction ks as [| k ks IH]; intros h0 h v Hok R; [exact I |]. destruct Hok as [Hk Hr]. cbn [filter kws_run] in *.
  destruct (kw_step h0 k) as [h1 |] eqn:E; [| discriminate].
  destruct (is_nnoise k) eqn:Q; cbn [negb].
  - destruct k; try discriminate Q. cbn [kw_step] in E. destruct (i_val n <? 0); [discriminate |]. injection E as <-.
    replace (set_nnoise h0 v) with (set_nnoise (set_nnoise h0 (i_val n)) v) by reflexivity. apply (IH _ h); assumption.
  - cbn [kws_ok]. split.
    + destruct k; cbn [kwline_ok set_nnoise h_ports h_ref] in *; assumption.
    + rewrite (kw_step_nnoise _ _ v Q), E. cbn [option_map]. apply (IH _ h); assumption.
Qed.

Theorem noise_block_skipped_lemma : forall h f, v2g_wf h f ->
  v2g_wf (set_nnoise h (-1)) (drop_noise f) /\
  parse (v2g_stream (set_nnoise h (-1)) (drop_noise f)) = parse (v2g_stream h f) /\
  parse (v2g_stream h f) = Ok (v2g_result h f).
Proof.
  intros h f W. pose proof W as (Hopts & Hkok & Hh & Hp & Hord & Hnf & Hrec & Hasc & Hnoise).
  assert (W' : v2g_wf (set_nnoise h (-1)) (drop_noise f)).
  { unfold v2g_wf, drop_noise, q_hdr. cbn [q_v2 q_opts q_kws q_records q_noise q_end].
    pose proof (opts_hdr_shape (q_v2 f) (q_opts f)) as S.
    assert (E0 : set_nnoise (opts_hdr (q_v2 f) (q_opts f)) (-1) = opts_hdr (q_v2 f) (q_opts f)) by (rewrite S; reflexivity).
    split; [exact Hopts |]. split; [rewrite <- E0; apply (kws_ok_drop_noise _ _ h); assumption |].
    split; [rewrite <- E0; apply kws_run_drop_noise; exact Hh |].
    cbn [set_nnoise h_ports h_order h_nfreq h_mult h_nnoise Z.leb Z.compare]. unfold h_need in *.
    cbn [set_nnoise h_ports h_matrix]. repeat split; try assumption; try apply Hord; try apply Hp. }
  split; [exact W' |]. rewrite (v2g_load_lemma _ _ W), (v2g_load_lemma _ _ W'). split; reflexivity.
Qed.

Print Assumptions v2g_load_lemma.
Print Assumptions kw_order_load_lemma.
Print Assumptions noise_block_skipped_lemma.
