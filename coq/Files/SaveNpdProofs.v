(* C06 load_save_id, NPD part: the NPD loader model (NpdLoad.v: record_of / hline_step / post_header with account /
   data_line, folded by nstep) run over the lines the saver model writes (SaveEmit.npd_header / npd_line).
   For every object and every non-empty format list whose entries are pair-form (one pair of numbers per cell: matrix
   RI / MA / DB and Zin RI / MA / PRC / PRL / SRC / SRL, i.e. every entry the loader can load), any port count, any
   number of frequencies, z0 vector or per-frequency z0: the loader accepts the file and returns the entry its own
   selection picks with every frequency, z0 and cell as the written texts read back.  Number-text layer: Section
   hypotheses.  The list may also hold IL / RL / VSWR columns (the loader skips them: efields_len, il_length give the field
   offsets) as long as one entry is loadable; a list of ONLY such columns is written but rejected
   (npd_scalar_only_rejected_lemma: known finding DF3).  npd_premises_lemma derives the premises from cksave + wf_obj + the
   invariants of a vnadata_t. *)
Require Import List Arith NArith ZArith QArith Qcanon Bool Lia. Import ListNotations.
Require Import LV.Files.TsTok LV.Files.NpdScan LV.Files.NpdLoad LV.Files.SaveModel LV.Files.SaveProofs LV.Files.SaveEmit.
Local Opaque parse_double parse_int.

(* ---- the format string ------------------------------------------------------------------------------- *)
Definition nocomma (t : list N) : bool := forallb (fun c => negb (c =? 44)%N) t.
Lemma split_comma_word : forall t cur rest, nocomma t = true ->
  split_comma cur (t ++ 44%N :: rest) = (rev cur ++ t) :: split_comma [] rest.
Proof.
  induction t as [| c t IH]; intros cur rest H.
  - cbn. rewrite app_nil_r. reflexivity.
  - cbn in H. apply andb_prop in H as [Hc Ht]. cbn [app split_comma]. destruct (c =? 44)%N; [discriminate |].
    rewrite IH by exact Ht. cbn [rev]. rewrite <- app_assoc. reflexivity.
Qed.
Lemma split_comma_last : forall t cur, nocomma t = true -> split_comma cur t = [rev cur ++ t].
Proof.
  induction t as [| c t IH]; intros cur H.
  - cbn. rewrite app_nil_r. reflexivity.
  - cbn in H. apply andb_prop in H as [Hc Ht]. cbn [split_comma]. destruct (c =? 44)%N; [discriminate |].
    rewrite IH by exact Ht. cbn [rev]. rewrite <- app_assoc. reflexivity.
Qed.

Definition uname (e : entry) : list N := map upcase (format_name e).
(* what vnadata_set_format's parse_format can produce, the untyped "ri" / "ma" / "dB" included *)
Definition wfu (e : entry) : bool :=
  wf_entry e || match e_par e, e_form e with PUNDEF, (RI | MA | DB) => true | _, _ => false end.
Lemma uname_facts_u : forall e, wfu e = true ->
  nocomma (uname e) = true /\ parse_format (uname e) = Some e /\ cstr (format_name e) = format_name e /\
  existsb (fun c => (c =? 127)%N) (format_name e) = false /\ format_name e <> [].
Proof.
  intros [p f] H. destruct p, f; try discriminate H; vm_compute; repeat split; discriminate.
Qed.
Lemma uname_facts : forall e, wf_entry e = true ->
  nocomma (uname e) = true /\ parse_format (uname e) = Some e /\ cstr (format_name e) = format_name e /\
  existsb (fun c => (c =? 127)%N) (format_name e) = false /\ format_name e <> [].
Proof. intros e H. apply uname_facts_u. unfold wfu. rewrite H. reflexivity. Qed.


Lemma cstr_app_nonul : forall a b, cstr a = a -> cstr (a ++ b) = a ++ cstr b.
Proof.
  induction a as [| c a IH]; intros b H; [reflexivity |]. cbn [cstr app] in *. destruct (c =? 0)%N; [discriminate |].
  injection H as H. rewrite IH by exact H. reflexivity.
Qed.

Lemma format_string_cons : forall e e2 r, format_string (e :: e2 :: r) = format_name e ++ 44%N :: format_string (e2 :: r).
Proof. reflexivity. Qed.

Lemma format_string_facts_u : forall l, l <> [] -> Forall (fun e => wfu e = true) l ->
  cstr (format_string l) = format_string l /\ existsb (fun c => (c =? 127)%N) (format_string l) = false /\
  split_comma [] (map upcase (format_string l)) = map uname l.
Proof.
  induction l as [| e r IH]; intros Hne Hwf; [congruence |].
  inversion Hwf as [| ? ? He Hr]; subst. destruct (uname_facts_u e He) as (U1 & U2 & U3 & U4 & U5).
  destruct r as [| e2 r].
  - cbn [format_string map]. repeat split; try assumption. apply (split_comma_last (uname e) []). exact U1.
  - destruct (IH ltac:(discriminate) Hr) as (I1 & I2 & I3). rewrite format_string_cons.
    split; [| split].
    + rewrite cstr_app_nonul by exact U3. cbn [cstr]. change (44 =? 0)%N with false. cbv iota. rewrite I1. reflexivity.
    + rewrite existsb_app, U4. cbn [existsb orb]. change (44 =? 127)%N with false. exact I2.
    + rewrite map_app. cbn [map]. change (upcase 44) with 44%N. fold (uname e).
      rewrite (split_comma_word (uname e) []) by exact U1. rewrite I3. reflexivity.
Qed.

Lemma set_format_string_u : forall l, l <> [] -> Forall (fun e => wfu e = true) l -> set_format (format_string l) = Some l.
Proof.
  intros l Hne Hwf. destruct (format_string_facts_u l Hne Hwf) as (A & B & C).
  unfold set_format. rewrite A, B, C. clear A B C Hne.
  induction Hwf as [| e r He Hr IH]; [reflexivity |]. cbn [map all_some].
  destruct (uname_facts_u e He) as (_ & U2 & _). rewrite U2, IH. reflexivity.
Qed.
Lemma set_format_string : forall l, l <> [] -> Forall (fun e => wf_entry e = true) l -> set_format (format_string l) = Some l.
Proof.
  intros l Hne Hwf. apply set_format_string_u; [exact Hne |]. eapply Forall_impl; [| exact Hwf].
  intros e H. unfold wfu. rewrite H. reflexivity.
Qed.

(* ---- field accounting ----------------------------------------------------------------------------------- *)
Open Scope Z_scope.
Fixpoint sel (ports : Z) (l : list entry) (f0 : Z) (b : option (entry * Z)) (q : nat) : option (entry * Z) * nat :=
  match l with
  | [] => (b, q)
  | e :: r =>
    if (q <? quality e)%nat then sel ports r (f0 + entry_fields ports e) (Some (e, f0)) (quality e)
    else sel ports r (f0 + entry_fields ports e) b q
  end.
Definition sum_fields (ports : Z) (l : list entry) : Z := fold_right (fun e acc => entry_fields ports e + acc) 0 l.
Definition entry_ok (ports : Z) (e : entry) : Prop := e_par e <> PUNDEF /\ (two_port_type (e_par e) = true -> ports = 2).

Lemma entry_fields_nonneg : forall ports e, 0 <= ports -> 0 <= entry_fields ports e.
Proof.
  intros ports [p f] H. unfold entry_fields. cbn [e_par e_form].
  assert (0 <= ports * (ports - 1)) by (destruct (Z.eq_dec ports 0); [subst; lia | apply Z.mul_nonneg_nonneg; lia]).
  assert (0 <= ports * ports) by (apply Z.mul_nonneg_nonneg; lia).
  destruct p, f; lia.
Qed.
Lemma sum_fields_nonneg : forall ports l, 0 <= ports -> 0 <= sum_fields ports l.
Proof. intros. induction l as [| a l IH]; [cbn; lia |]. cbn [sum_fields fold_right]. fold (sum_fields ports l). pose proof (entry_fields_nonneg ports a H). lia. Qed.

Lemma account_run : forall ports l f0 b q, Forall (entry_ok ports) l -> 0 <= ports -> 0 <= f0 -> f0 + sum_fields ports l <= int_max ->
  account ports l (mkplan f0 b q) = Some (mkplan (f0 + sum_fields ports l) (fst (sel ports l f0 b q)) (snd (sel ports l f0 b q))).
Proof.
  intros ports l. induction l as [| e r IH]; intros f0 b q Hok Hp Hf Hs.
  - cbn. rewrite Z.add_0_r. reflexivity.
  - inversion Hok as [| ? ? [Hu H2] Hr]; subst. cbn [sum_fields fold_right] in Hs. fold (sum_fields ports r) in Hs.
    pose proof (entry_fields_nonneg ports e Hp) as He. pose proof (sum_fields_nonneg ports r Hp) as Hsr.
    cbn [account sel pl_fields pl_quality pl_best].
    assert (T : two_port_type (e_par e) && negb (ports =? 2) = false).
    { destruct (two_port_type (e_par e)) eqn:X; [| reflexivity]. rewrite (H2 eq_refl). reflexivity. }
    assert (O : (int_max - f0 <? entry_fields ports e) = false) by (apply Z.ltb_ge; lia).
    cbn [sum_fields fold_right]. fold (sum_fields ports r).
    destruct (e_par e) eqn:Ep; try congruence; rewrite T, O; destruct (q <? quality e)%nat;
      cbn [pl_fields pl_best pl_quality]; rewrite IH by (assumption || lia); rewrite Z.add_assoc; reflexivity.
Qed.

Lemma sel_spec : forall ports l f0 b q,
  sel ports l f0 b q = (b, q) \/
  exists l1 e l2, l = l1 ++ e :: l2 /\ sel ports l f0 b q = (Some (e, f0 + sum_fields ports l1), quality e) /\ (q < quality e)%nat.
Proof.
  intros ports l. induction l as [| e r IH]; intros f0 b q; [left; reflexivity |].
  cbn [sel]. destruct (q <? quality e)%nat eqn:Q.
  - apply Nat.ltb_lt in Q. destruct (IH (f0 + entry_fields ports e) (Some (e, f0)) (quality e)) as [U | (l1 & e' & l2 & A & B & C)].
    + right. exists [], e, r. cbn. rewrite Z.add_0_r. repeat split; assumption.
    + right. exists (e :: l1), e', l2. subst r. cbn [app sum_fields fold_right]. fold (sum_fields ports l1).
      rewrite Z.add_assoc. repeat split; [exact B | lia].
  - destruct (IH (f0 + entry_fields ports e) b q) as [U | (l1 & e' & l2 & A & B & C)]; [left; exact U |].
    right. exists (e :: l1), e', l2. subst r. cbn [app sum_fields fold_right]. fold (sum_fields ports l1).
    rewrite Z.add_assoc. repeat split; assumption.
Qed.
Lemma sel_max : forall ports l f0 b q, (q <= snd (sel ports l f0 b q))%nat /\ forall e, In e l -> (quality e <= snd (sel ports l f0 b q))%nat.
Proof.
  intros ports l. induction l as [| e r IH]; intros f0 b q; [split; [reflexivity | intros ? []] |].
  cbn [sel]. destruct (q <? quality e)%nat eqn:Q.
  - apply Nat.ltb_lt in Q. destruct (IH (f0 + entry_fields ports e) (Some (e, f0)) (quality e)) as [A B].
    split; [lia |]. intros e' [<- | Hin]; [exact A | apply B; exact Hin].
  - apply Nat.ltb_ge in Q. destruct (IH (f0 + entry_fields ports e) b q) as [A B].
    split; [exact A |]. intros e' [<- | Hin]; [lia | apply B; exact Hin].
Qed.

Close Scope Z_scope.
Local Open Scope nat_scope.
Require Import LV.Files.SaveTsLemmas.

Lemma concat_flat_map' : forall A B (f : A -> list (list B)) l, concat (flat_map f l) = flat_map (fun x => concat (f x)) l.
Proof. intros. induction l; simpl; [reflexivity |]. rewrite concat_app, IHl. reflexivity. Qed.

Lemma grid_flat : forall A B (G : A -> list B) (d : A) ports rows (m : list A), length m = rows * ports ->
  flat_map (fun r => flat_map (fun c => G (nth (r * ports + c) m d)) (seq 0 ports)) (seq 0 rows) = flat_map G m.
Proof.
  intros. rewrite (flat_map_concat_map G m), <- (grid_nth A (list B) G d ports rows m H), concat_flat_map'.
  apply flat_map_ext. intro r. rewrite <- flat_map_concat_map. reflexivity.
Qed.

Lemma flat_map_length_const' : forall A B (f : A -> list B) k l, (forall x, length (f x) = k) -> length (flat_map f l) = length l * k.
Proof. intros. induction l; simpl; [reflexivity |]. rewrite app_length, H, IHl. reflexivity. Qed.

Section NPD.
  Variable D : Type.
  Variable E : env D.
  Variable rd : Z -> D -> xnum.
  Variable rda : Z -> bool -> D -> xnum.
  Hypothesis ptext_field : forall p s x, field_double (v_ptext E p s x) = Some (rd p x).
  Hypothesis atext_field : forall ap z x, field_double (v_atext E ap z x) = Some (rda ap z x).
  Hypothesis ptext_cstr : forall p s x, cstr (v_ptext E p s x) = v_ptext E p s x.
  Hypothesis ptext_nohash : forall p s x, hd 0%N (v_ptext E p s x) <> 35%N.
  Hypothesis itext_field : forall z, (0 <= z <= 2147483647)%Z -> field_int (v_itext E z) = Some z.

  (* the values the loader reads for one cell of an entry *)
  Definition pair_vals (o : mobj D) (f : form) (v : cx D) : xnum * xnum :=
    match f with
    | DB => (rd (m_dprec o) (v_db E v), rda (aprec o) false (v_deg E v))
    | MA => (rd (m_dprec o) (v_mag E v), rda (aprec o) false (v_deg E v))
    | _ => (rd (m_dprec o) (fst v), rd (m_dprec o) (snd v))
    end.
  Definition zin_vals (o : mobj D) (f : form) (fq : D) (v : cx D) : xnum * xnum :=
    match f with
    | MA => (rd (m_dprec o) (v_mag E v), rda (aprec o) true (v_deg E v))
    | RI => (rd (m_dprec o) (fst v), rd (m_dprec o) (snd v))
    | _ => (rd (m_dprec o) (fst (v_zin E f fq v)), rd (m_dprec o) (snd (v_zin E f fq v)))
    end.
  Definition entry_texts (o : mobj D) (e : entry) (fq : D) (v : cx D) : list (list N) :=
    match e_par e with PZIN => zin_texts E o (e_form e) fq v | _ => pair_texts E o (e_form e) v end.
  Definition entry_vals (o : mobj D) (e : entry) (fq : D) (v : cx D) : xnum * xnum :=
    match e_par e with PZIN => zin_vals o (e_form e) fq v | _ => pair_vals o (e_form e) v end.
  (* entries whose fields are one pair per cell: every entry the loader can load *)
  Definition pairform (e : entry) : bool :=
    match e_par e, e_form e with
    | PUNDEF, _ => false
    | PZIN, (RI | MA | PRC | PRL | SRC | SRL) => true
    | PZIN, _ => false
    | _, (RI | MA | DB) => true
    | _, _ => false
    end.
  Definition ecells (ports : nat) (e : entry) : nat := match e_par e with PZIN => ports | _ => ports * ports end.

  Lemma entry_texts_pair : forall o e fq v, pairform e = true ->
    exists a b, entry_texts o e fq v = [a; b] /\ field_double a = Some (fst (entry_vals o e fq v)) /\
                field_double b = Some (snd (entry_vals o e fq v)).
  Proof.
    intros o [p f] fq v H. unfold entry_texts, entry_vals. cbn [e_par e_form].
    destruct p, f; try discriminate H; cbn; eexists; eexists; (split; [reflexivity |]); split;
      first [apply ptext_field | apply atext_field].
  Qed.

  Lemma take_pairs_flat : forall o e fq (ms : list (cx D)) rest, pairform e = true ->
    take_pairs (length ms) (flat_map (entry_texts o e fq) ms ++ rest) = Some (map (entry_vals o e fq) ms).
  Proof.
    intros o e fq ms rest H. induction ms as [| v ms IH]; [reflexivity |].
    destruct (entry_texts_pair o e fq v H) as (a & b & T & A & B).
    cbn [flat_map length map]. rewrite T. cbn [app take_pairs]. rewrite A, B, IH. destruct (entry_vals o e fq v); reflexivity.
  Qed.

  Lemma entry_fields_flat : forall o rows ports e fq m, pairform e = true -> length m = ecells ports e ->
    (e_par e <> PZIN -> rows = ports) ->
    npd_entry_fields E o rows ports e fq m = flat_map (entry_texts o e fq) m.
  Proof.
    intros o rows ports [p f] fq m H Hl Hr. unfold npd_entry_fields, entry_texts, ecells in *. cbn [e_par e_form] in *.
    destruct p; try discriminate H;
      try (rewrite (Hr ltac:(discriminate)); destruct f; try discriminate H; unfold cell; apply (grid_flat _ _ _ (c0 E) ports ports m Hl)).
    (* PZIN *)
    rewrite (flat_map_concat_map _ (seq 0 ports)), <- (map_map (fun p => nth p m (c0 E)) (zin_texts E o f fq)).
    rewrite map_nth_seq by lia. rewrite <- Hl, firstn_all, <- flat_map_concat_map. reflexivity.
  Qed.

  Lemma data_line_ok : forall x d F fv Zf zp A B ps C,
    field_double F = Some fv ->
    (if x_fz0 x then (forall rest, take_pairs (Z.to_nat (x_ports x)) (Zf ++ rest) = Some zp) else Zf = [] /\ zp = []) ->
    Z.to_nat (x_first x) = 1 + length Zf + length A ->
    (forall rest, take_pairs (Z.to_nat (x_cells x)) (B ++ rest) = Some ps) ->
    Z.of_nat (length (F :: Zf ++ A ++ B ++ C)) = x_nfields x ->
    data_line x d (F :: Zf ++ A ++ B ++ C) = Some (mknd (nd_left d - 1) (fv :: nd_freqs d) (zp :: nd_fz0 d) (ps :: nd_cells d)).
  Proof.
    intros x d F fv Zf zp A B ps C HF HZ Hfirst HB Hlen. unfold data_line. rewrite Hlen, Z.eqb_refl. cbn [negb]. rewrite HF.
    rewrite Hfirst. replace (1 + length Zf + length A) with (S (length Zf + length A)) by lia. cbn [skipn].
    rewrite app_assoc, skipn_app. rewrite (skipn_all2 (Zf ++ A)) by (rewrite app_length; lia).
    rewrite app_length. replace (length Zf + length A - (length Zf + length A)) with 0 by lia. cbn [skipn app]. rewrite HB.
    destruct (x_fz0 x).
    - rewrite <- app_assoc. rewrite HZ. reflexivity.
    - destruct HZ as [-> ->]. reflexivity.
  Qed.

  (* ---- the header ------------------------------------------------------------------------------------------ *)
  Definition zvals (o : mobj D) (zs : list (cx D)) : list (xnum * xnum) :=
    map (fun z => (rd (m_dprec o) (fst z), rd (m_dprec o) (snd z))) zs.
  Definition per_f (o : mobj D) : bool := match m_fz0 o with Some _ => true | None => false end.
  Definition npd_hdr (o : mobj D) (l : list entry) : nhdr :=
    mknh (Z.of_nat (m_ports o)) (-1) (-1) (Z.of_nat (length (m_freqs o))) (Some l) (Some (m_fprec o)) (Some (m_dprec o))
         (per_f o) (if per_f o then None else Some (zvals o (firstn (m_ports o) (m_z0 o)))).

  Lemma nnint_itext : forall a z, (0 <= z <= 2147483647)%Z -> nnint [a; v_itext E z] = Some z.
  Proof. intros a z H. unfold nnint. rewrite itext_field by exact H. replace (z <? 0)%Z with false by (symmetry; apply Z.ltb_ge; lia). reflexivity. Qed.

  Lemma strip_j_text : forall p s x, field_double (strip_j (v_ptext E p s x ++ [106%N])) = Some (rd p x).
  Proof.
    intros. unfold strip_j. rewrite cstr_app_nonul by apply ptext_cstr. cbn [cstr]. change (106 =? 0)%N with false. cbv iota.
    rewrite rev_app_distr. cbn [rev app]. rewrite rev_involutive. apply ptext_field.
  Qed.
  Lemma z0_values_texts : forall o zs,
    z0_values (flat_map (fun z => [v_ptext E (m_dprec o) false (fst z); v_ptext E (m_dprec o) true (snd z) ++ [106%N]]) zs) = Some (zvals o zs).
  Proof.
    intros o zs. induction zs as [| z zs IH]; [reflexivity |]. cbn [flat_map app z0_values zvals map].
    rewrite ptext_field, strip_j_text. unfold zvals in IH. rewrite IH. reflexivity.
  Qed.

  Definition npd_wf (o : mobj D) : Prop :=
    (1 <= m_ports o)%nat /\ (Z.of_nat (m_ports o) <= 46340)%Z /\ (Z.of_nat (length (m_freqs o)) <= 2147483647)%Z /\
    (1 <= m_fprec o <= 1000)%Z /\ (1 <= m_dprec o <= 1000)%Z /\
    (per_f o = false -> length (m_z0 o) = m_ports o).

  Lemma step_ports : forall h z, n_ports h = (-1)%Z -> (0 <= z <= 2147483647)%Z ->
    nstep (NHeader h) [b_ports; v_itext E z] = NHeader (set_nports h z).
  Proof.
    intros h z Hp Hz. unfold nstep. change (record_of [b_ports; v_itext E z]) with (RecKey NKPorts [b_ports; v_itext E z]).
    cbn [hline_step]. rewrite Hp. cbn [Z.eqb negb]. rewrite nnint_itext by exact Hz. reflexivity.
  Qed.
  Lemma step_freqs : forall h z, (0 <= z <= 2147483647)%Z ->
    nstep (NHeader h) [b_frequencies; v_itext E z] =
    NHeader (mknh (n_ports h) (n_rows h) (n_columns h) z (n_params h) (n_fprec h) (n_dprec h) (n_fz0 h) (n_z0 h)).
  Proof.
    intros h z Hz. unfold nstep. change (record_of [b_frequencies; v_itext E z]) with (RecKey NKFrequencies [b_frequencies; v_itext E z]).
    cbn [hline_step]. rewrite nnint_itext by exact Hz. reflexivity.
  Qed.
  Lemma step_params : forall h l, l <> [] -> Forall (fun e => wf_entry e = true) l ->
    nstep (NHeader h) [b_parameters; format_string l] =
    NHeader (mknh (n_ports h) (n_rows h) (n_columns h) (n_frequencies h) (Some l) (n_fprec h) (n_dprec h) (n_fz0 h) (n_z0 h)).
  Proof.
    intros h l Hne Hwf. unfold nstep. change (record_of [b_parameters; format_string l]) with (RecKey NKParameters [b_parameters; format_string l]).
    cbn [hline_step]. rewrite set_format_string by assumption. reflexivity.
  Qed.
  Lemma step_fprec : forall h z, (1 <= z <= 1000)%Z ->
    nstep (NHeader h) [b_fprecision; v_itext E z] =
    NHeader (mknh (n_ports h) (n_rows h) (n_columns h) (n_frequencies h) (n_params h) (Some z) (n_dprec h) (n_fz0 h) (n_z0 h)).
  Proof.
    intros h z Hz. unfold nstep. change (record_of [b_fprecision; v_itext E z]) with (RecKey NKFprecision [b_fprecision; v_itext E z]).
    cbn [hline_step]. rewrite nnint_itext by lia. replace (z <? 1)%Z with false by (symmetry; apply Z.ltb_ge; lia).
    replace (1000 <? z)%Z with false by (symmetry; apply Z.ltb_ge; lia). reflexivity.
  Qed.
  Lemma step_dprec : forall h z, (1 <= z <= 1000)%Z ->
    nstep (NHeader h) [b_dprecision; v_itext E z] =
    NHeader (mknh (n_ports h) (n_rows h) (n_columns h) (n_frequencies h) (n_params h) (n_fprec h) (Some z) (n_fz0 h) (n_z0 h)).
  Proof.
    intros h z Hz. unfold nstep. change (record_of [b_dprecision; v_itext E z]) with (RecKey NKDprecision [b_dprecision; v_itext E z]).
    cbn [hline_step]. rewrite nnint_itext by lia. replace (z <? 1)%Z with false by (symmetry; apply Z.ltb_ge; lia).
    replace (1000 <? z)%Z with false by (symmetry; apply Z.ltb_ge; lia). reflexivity.
  Qed.
  Lemma step_z0 : forall o h, npd_wf o -> n_ports h = Z.of_nat (m_ports o) ->
    nstep (NHeader h) (b_z0 :: match m_fz0 o with
                                | Some _ => [b_per_frequency]
                                | None => flat_map (fun z => [v_ptext E (m_dprec o) false (fst z); v_ptext E (m_dprec o) true (snd z) ++ [106%N]])
                                                   (firstn (m_ports o) (m_z0 o))
                                end) =
    NHeader (mknh (n_ports h) (n_rows h) (n_columns h) (n_frequencies h) (n_params h) (n_fprec h) (n_dprec h)
                  (if per_f o then true else n_fz0 h)
                  (if per_f o then n_z0 h else Some (zvals o (firstn (m_ports o) (m_z0 o))))).
  Proof.
    intros o h (Hp1 & Hp & Hnf & Hfp & Hdp & Hz) Hports. unfold nstep.
    match goal with |- context [record_of (b_z0 :: ?r)] => change (record_of (b_z0 :: r)) with (RecKey NKZ0 (b_z0 :: r)) end.
    cbn [hline_step]. unfold legacy_ports. rewrite Hports.
    replace (Z.of_nat (m_ports o) <? 0)%Z with false by (symmetry; apply Z.ltb_ge; lia). cbn [andb].
    unfold set_nports. cbn [n_ports n_rows n_columns n_frequencies n_params n_fprec n_dprec n_fz0 n_z0].
    unfold per_f in *. destruct (m_fz0 o) as [zs |].
    - replace (Z.of_nat (m_ports o) <? 0)%Z with false by (symmetry; apply Z.ltb_ge; lia). rewrite <- Hports. reflexivity.
    - specialize (Hz eq_refl).
      assert (Hl : length (firstn (m_ports o) (m_z0 o)) = m_ports o) by (rewrite firstn_length; lia).
      pose proof (z0_values_texts o (firstn (m_ports o) (m_z0 o))) as Hv.
      destruct (firstn (m_ports o) (m_z0 o)) as [| z zl] eqn:Ef; [simpl in Hl; lia |].
      cbn [flat_map app] in *. cbn [length].
      replace (Z.of_nat (m_ports o) <? 0)%Z with false by (symmetry; apply Z.ltb_ge; lia).
      rewrite (flat_map_length_const' _ _ _ 2) by (intro; reflexivity).
      assert (Heq : Z.of_nat (S (S (S (length zl * 2)))) = (1 + 2 * Z.of_nat (m_ports o))%Z) by (simpl in Hl; lia).
      match goal with |- context [(?a =? ?b)%Z] => replace (a =? b)%Z with true by (symmetry; apply Z.eqb_eq; exact Heq) end.
      cbn [tl]. rewrite Hv, <- Hports. reflexivity.
  Qed.

  Lemma header_run : forall o l, npd_wf o -> l <> [] -> Forall (fun e => wf_entry e = true) l ->
    fold_left nstep (npd_header E o l) (NHeader nh0) = NHeader (npd_hdr o l).
  Proof.
    intros o l Hwfo Hne Hwf. pose proof Hwfo as (Hp1 & Hp & Hnf & Hfp & Hdp & Hz). unfold npd_header. cbn [fold_left].
    change (nstep (NHeader nh0) [b_version; b_1_0]) with (NHeader nh0).
    rewrite step_ports by (reflexivity || lia). rewrite step_freqs by lia. rewrite step_params by assumption.
    rewrite (step_z0 o) by (assumption || reflexivity). rewrite step_fprec by lia. rewrite step_dprec by lia.
    unfold npd_hdr, set_nports. cbn [n_ports n_rows n_columns n_frequencies n_params n_fprec n_dprec n_fz0 n_z0 nh0].
    destruct (per_f o); reflexivity.
  Qed.

  (* ---- the data lines ---------------------------------------------------------------------------------------- *)
  Lemma record_of_data : forall f0 rest, hd 0%N f0 <> 35%N -> record_of (f0 :: rest) = RecData (f0 :: rest).
  Proof.
    intros [| c t] rest H; [reflexivity |]. cbn [hd] in H. unfold record_of.
    destruct c as [| p]; [reflexivity |].
    do 6 (try (destruct p as [p | p |]; try reflexivity)). exfalso. apply H. reflexivity.
  Qed.

  Definition pbase (o : mobj D) : Z := if per_f o then (1 + 2 * Z.of_nat (m_ports o))%Z else 1%Z.
  Definition z0opt (o : mobj D) : option (list (xnum * xnum)) :=
    if per_f o then None else Some (zvals o (firstn (m_ports o) (m_z0 o))).
  Definition npd_ctx (o : mobj D) (l l1 : list entry) (e : entry) : nctx :=
    mkctx (Z.of_nat (m_ports o)) (per_f o) (z0opt o) e (pbase o + sum_fields (Z.of_nat (m_ports o)) l1)
          (Z.of_nat (ecells (m_ports o) e)) (pbase o + sum_fields (Z.of_nat (m_ports o)) l) (Z.of_nat (length (m_freqs o)))
          (Some (m_fprec o)) (Some (m_dprec o)).
  (* what the saver's acceptance checks and the invariants of a vnadata_t give for every entry of the list *)
  Definition entry_good (o : mobj D) (e : entry) : Prop :=
    wf_entry e = true /\ (two_port_type (e_par e) = true -> m_ports o = 2) /\ (e_par e <> PZIN -> m_rows o = m_ports o) /\
    forall i, i < length (m_freqs o) -> length (nth i (convert_obj E o (e_par e)) []) = ecells (m_ports o) e.
  Definition fz0_sized (o : mobj D) : Prop :=
    forall zs, m_fz0 o = Some zs -> forall i, i < length (m_freqs o) -> length (nth i zs []) = m_ports o.

  Lemma pairform_facts : forall e, pairform e = true -> wf_entry e = true /\ e_par e <> PUNDEF /\ (0 < quality e).
  Proof. intros [p f] H. destruct p, f; try discriminate H; repeat split; try discriminate; cbn; lia. Qed.

  Lemma wf_entry_facts : forall e, wf_entry e = true -> e_par e <> PUNDEF /\ (0 < quality e -> pairform e = true).
  Proof. intros [p f] H. destruct p, f; try discriminate H; split; try discriminate; cbn; intro Q; try reflexivity; lia. Qed.

  Lemma skip_diag_other : forall A (g : nat -> A) r l, ~ In r l ->
    length (flat_map (fun c => if Nat.eqb r c then [] else [g c]) l) = length l.
  Proof.
    intros A g r l. induction l as [| c l IH]; intro H; [reflexivity |]. cbn [flat_map length].
    destruct (Nat.eqb_spec r c) as [-> | Hn]; [exfalso; apply H; left; reflexivity |].
    cbn [app length]. rewrite IH; [reflexivity |]. intro X. apply H. right. exact X.
  Qed.
  Lemma skip_diag_row : forall A (g : nat -> A) r n, r < n ->
    length (flat_map (fun c => if Nat.eqb r c then [] else [g c]) (seq 0 n)) = n - 1.
  Proof.
    intros A g r n H. replace n with (r + S (n - S r)) at 1 by lia. rewrite seq_app, flat_map_app, app_length. cbn [seq flat_map].
    rewrite Nat.eqb_refl. cbn [app]. rewrite !skip_diag_other; [rewrite !seq_length; lia | |]; rewrite in_seq; lia.
  Qed.
  Lemma il_length : forall A (g : nat -> nat -> A) n,
    length (flat_map (fun r => flat_map (fun c => if Nat.eqb r c then [] else [g r c]) (seq 0 n)) (seq 0 n)) = n * (n - 1).
  Proof.
    intros A g n. assert (G : forall l, (forall r, In r l -> r < n) ->
      length (flat_map (fun r => flat_map (fun c => if Nat.eqb r c then [] else [g r c]) (seq 0 n)) l) = length l * (n - 1)).
    { induction l as [| r l IH]; intro H; [reflexivity |]. cbn [flat_map length]. rewrite app_length, IH by (intros; apply H; right; assumption).
      rewrite (skip_diag_row A (g r) r n) by (apply H; left; reflexivity). lia. }
    rewrite G; [rewrite seq_length; reflexivity |]. intros r Hr. apply in_seq in Hr. lia.
  Qed.

  Lemma pair_fields_Z : forall ports e, pairform e = true ->
    entry_fields (Z.of_nat ports) e = Z.of_nat (2 * ecells ports e) /\
    Z.of_nat (ecells ports e) = match e_par e with PZIN => Z.of_nat ports | _ => (Z.of_nat ports * Z.of_nat ports)%Z end.
  Proof. intros ports [p f] H. unfold entry_fields, ecells. cbn [e_par e_form]. destruct p, f; try discriminate H; split; lia. Qed.

  Definition efields (o : mobj D) (i : nat) (fq : D) (e : entry) : list (list N) :=
    npd_entry_fields E o (m_rows o) (m_ports o) e fq (nth i (convert_obj E o (e_par e)) []).

  Lemma efields_flat : forall o i fq e, entry_good o e -> pairform e = true -> i < length (m_freqs o) ->
    efields o i fq e = flat_map (entry_texts o e fq) (nth i (convert_obj E o (e_par e)) []) /\
    length (efields o i fq e) = 2 * ecells (m_ports o) e.
  Proof.
    intros o i fq e (_ & _ & Hr & Hl) Hp Hi. unfold efields. rewrite entry_fields_flat by (auto).
    split; [reflexivity |]. rewrite (flat_map_length_const' _ _ _ 2).
    - rewrite Hl by exact Hi. lia.
    - intro v. destruct (entry_texts_pair o e fq v Hp) as (a & b & T & _). rewrite T. reflexivity.
  Qed.

  (* the fields the saver writes for an entry are as many as the loader counts for it: every entry parse_format can produce *)
  Lemma efields_len : forall o i fq e, entry_good o e -> i < length (m_freqs o) ->
    Z.of_nat (length (efields o i fq e)) = entry_fields (Z.of_nat (m_ports o)) e.
  Proof.
    intros o i fq e He Hi. destruct (pairform e) eqn:Hp.
    - destruct (efields_flat o i fq e He Hp Hi) as [_ L]. rewrite L. destruct (pair_fields_Z (m_ports o) e Hp) as [A _]. rewrite A. reflexivity.
    - destruct He as (Hw & _ & Hr & _). unfold efields, npd_entry_fields, entry_fields. destruct e as [p f]. cbn [e_par e_form] in *.
      destruct p, f; try discriminate Hw; try discriminate Hp; rewrite ?(Hr ltac:(discriminate)).
      + rewrite il_length. destruct (m_ports o) as [| n]; [reflexivity |]. rewrite Nat2Z.inj_mul. f_equal. lia.
      + rewrite map_length, seq_length. reflexivity.
      + rewrite map_length, seq_length. reflexivity.
  Qed.

  Lemma sum_efields : forall o i fq l, Forall (entry_good o) l -> i < length (m_freqs o) ->
    Z.of_nat (length (flat_map (efields o i fq) l)) = sum_fields (Z.of_nat (m_ports o)) l.
  Proof.
    intros o i fq l H Hi. induction H as [| e r He Hr IH]; [reflexivity |].
    cbn [flat_map sum_fields fold_right]. fold (sum_fields (Z.of_nat (m_ports o)) r). rewrite app_length, Nat2Z.inj_add, IH.
    rewrite (efields_len o i fq e He Hi). reflexivity.
  Qed.

  Definition zline (o : mobj D) (i : nat) : list (list N) :=
    match m_fz0 o with
    | Some zs => flat_map (fun z => [v_ptext E (m_dprec o) true (fst z); v_ptext E (m_dprec o) true (snd z)]) (firstn (m_ports o) (nth i zs []))
    | None => []
    end.
  Definition zvals_at (o : mobj D) (i : nat) : list (xnum * xnum) :=
    match m_fz0 o with Some zs => zvals o (nth i zs []) | None => [] end.

  Lemma take_pairs_z : forall o zs rest,
    take_pairs (length zs) (flat_map (fun z => [v_ptext E (m_dprec o) true (fst z); v_ptext E (m_dprec o) true (snd z)]) zs ++ rest) = Some (zvals o zs).
  Proof.
    intros o zs rest. induction zs as [| z zs IH]; [reflexivity |]. cbn [flat_map app length take_pairs zvals map].
    rewrite !ptext_field. unfold zvals in IH. rewrite IH. reflexivity.
  Qed.

  Lemma line_step : forall o l l1 e l2 d i fq, l = l1 ++ e :: l2 -> Forall (entry_good o) l -> pairform e = true -> fz0_sized o ->
    i < length (m_freqs o) -> (0 < nd_left d)%Z ->
    nstep (NData (npd_ctx o l l1 e) d) (npd_line E o l i fq) =
    NData (npd_ctx o l l1 e) (mknd (nd_left d - 1) (rd (m_fprec o) fq :: nd_freqs d) (zvals_at o i :: nd_fz0 d)
                                    (map (entry_vals o e fq) (nth i (convert_obj E o (e_par e)) []) :: nd_cells d)).
  Proof.
    intros o l l1 e l2 d i fq Hl Hgood Hpe Hfz Hi Hleft. unfold nstep, npd_line.
    rewrite record_of_data by apply ptext_nohash. unfold data_step.
    replace (nd_left d <=? 0)%Z with false by (symmetry; apply Z.leb_gt; exact Hleft).
    fold (zline o i). change (fun e0 => npd_entry_fields E o (m_rows o) (m_ports o) e0 fq (nth i (convert_obj E o (e_par e0)) []))
      with (efields o i fq).
    assert (Hg1 : Forall (entry_good o) l1 /\ entry_good o e /\ Forall (entry_good o) l2).
    { subst l. apply Forall_app in Hgood as [A B]. inversion B; subst. split; [exact A | split; assumption]. }
    destruct Hg1 as (G1 & Ge & G2).
    rewrite Hl at 2. rewrite flat_map_app. cbn [flat_map].
    destruct (efields_flat o i fq e Ge Hpe Hi) as [Fe Le].
    rewrite (data_line_ok _ d _ (rd (m_fprec o) fq) (zline o i) (zvals_at o i) _ (efields o i fq e)
               (map (entry_vals o e fq) (nth i (convert_obj E o (e_par e)) []))); [reflexivity | apply ptext_field | | | |].
    - cbn [npd_ctx x_fz0 x_ports]. unfold per_f, zline, zvals_at. destruct (m_fz0 o) as [zs |] eqn:Ez; [| split; reflexivity].
      intro rest. rewrite Nat2Z.id. specialize (Hfz zs Ez i Hi). rewrite <- Hfz at 1. rewrite <- Hfz, firstn_all. apply take_pairs_z.
    - cbn [npd_ctx x_first]. rewrite <- (sum_efields o i fq l1 G1 Hi).
      assert (Z.of_nat (length (zline o i)) = (pbase o - 1)%Z).
      { unfold zline, pbase, per_f. destruct (m_fz0 o) as [zs |] eqn:Ez; [| reflexivity].
        rewrite (flat_map_length_const' _ _ _ 2) by (intro; reflexivity). rewrite firstn_length, (Hfz zs Ez i Hi). lia. }
      lia.
    - intro rest. cbn [npd_ctx x_cells]. rewrite Nat2Z.id. destruct Ge as (_ & _ & _ & Hlen). rewrite <- (Hlen i Hi), Fe.
      apply take_pairs_flat. exact Hpe.
    - cbn [npd_ctx x_nfields]. rewrite <- (sum_efields o i fq l Hgood Hi). rewrite Hl.
      rewrite flat_map_app. cbn [flat_map length]. rewrite !app_length.
      assert (Z.of_nat (length (zline o i)) = (pbase o - 1)%Z).
      { unfold zline, pbase, per_f. destruct (m_fz0 o) as [zs |] eqn:Ez; [| reflexivity].
        rewrite (flat_map_length_const' _ _ _ 2) by (intro; reflexivity). rewrite firstn_length, (Hfz zs Ez i Hi). lia. }
      lia.
  Qed.

  Definition cells_at (o : mobj D) (e : entry) (i : nat) (fq : D) : list (xnum * xnum) :=
    map (entry_vals o e fq) (nth i (convert_obj E o (e_par e)) []).

  Lemma lines_run : forall o l l1 e l2, l = l1 ++ e :: l2 -> Forall (entry_good o) l -> pairform e = true -> fz0_sized o ->
    forall fs i d, i + length fs = length (m_freqs o) -> nd_left d = Z.of_nat (length fs) ->
    fold_left nstep (map_i (npd_line E o l) i fs) (NData (npd_ctx o l l1 e) d) =
    NData (npd_ctx o l l1 e)
          (mknd 0 (rev (map (rd (m_fprec o)) fs) ++ nd_freqs d) (rev (map_i (fun k _ => zvals_at o k) i fs) ++ nd_fz0 d)
                (rev (map_i (cells_at o e) i fs) ++ nd_cells d)).
  Proof.
    intros o l l1 e l2 Hl Hgood Hpe Hfz fs. induction fs as [| fq fs IH]; intros i d Hi Hleft.
    - cbn. destruct d. cbn in *. subst. reflexivity.
    - cbn [map_i fold_left length] in *. rewrite (line_step o l l1 e l2 d i fq Hl Hgood Hpe Hfz) by lia.
      rewrite IH by (cbn [nd_left]; lia). cbn [nd_freqs nd_fz0 nd_cells map rev]. rewrite <- !app_assoc. reflexivity.
  Qed.

  (* the object the NPD loader returns *)
  Definition npd_loaded (o : mobj D) (e : entry) : nobj :=
    mknobj (e_par e) (e_form e) (match e_par e with PZIN => 1 | _ => Z.of_nat (m_ports o) end)%Z (Z.of_nat (m_ports o))
           (map (rd (m_fprec o)) (m_freqs o)) (z0opt o)
           (if per_f o then Some (map_i (fun k _ => zvals_at o k) 0 (m_freqs o)) else None)
           (map_i (cells_at o e) 0 (m_freqs o)) (Some (m_fprec o)) (Some (m_dprec o)).

  Theorem npd_load_save_lemma : forall o l, npd_wf o -> Exists (fun e => pairform e = true) l -> Forall (entry_good o) l -> fz0_sized o -> m_freqs o <> [] ->
    (pbase o + sum_fields (Z.of_nat (m_ports o)) l <= 2147483647)%Z ->
    exists l1 e l2, l = l1 ++ e :: l2 /\
      fst (sel (Z.of_nat (m_ports o)) l (pbase o) None 0) = Some (e, (pbase o + sum_fields (Z.of_nat (m_ports o)) l1)%Z) /\
      nfinish (fold_left nstep (npd_header E o l ++ map_i (npd_line E o l) 0 (m_freqs o)) (NHeader nh0)) = NOk (npd_loaded o e).
  Proof.
    intros o l Hwfo Hex Hgood Hfz Hfne Hfit. pose proof Hwfo as (Hp1 & Hp & Hnf & Hfp & Hdp & Hz).
    assert (Hne : l <> []) by (intro X; subst l; inversion Hex).
    assert (Hwfe : Forall (fun e => wf_entry e = true) l).
    { eapply Forall_impl; [| exact Hgood]. intros e (Hpf & _). exact Hpf. }
    assert (Hok : Forall (entry_ok (Z.of_nat (m_ports o))) l).
    { eapply Forall_impl; [| exact Hgood]. intros e (Hpf & H2 & _). split; [apply (wf_entry_facts e Hpf) |].
      intro X. rewrite (H2 X). reflexivity. }
    (* the entry the loader picks *)
    destruct (sel_spec (Z.of_nat (m_ports o)) l (pbase o) None 0) as [U | (l1 & e & l2 & Hl & Hs & Hq)].
    { exfalso. apply Exists_exists in Hex as (e0 & Hin & Hpf).
      destruct (sel_max (Z.of_nat (m_ports o)) l (pbase o) None 0) as [_ M]. specialize (M e0 Hin).
      rewrite U in M. cbn [snd] in M. destruct (pairform_facts e0 Hpf) as (_ & _ & Q). lia. }
    exists l1, e, l2. split; [exact Hl |]. split; [rewrite Hs; reflexivity |].
    rewrite fold_left_app, header_run by assumption.
    (* post_header *)
    assert (Hpb : (1 <= pbase o)%Z) by (unfold pbase; destruct (per_f o); lia).
    assert (Hge : entry_good o e) by (subst l; apply Forall_app in Hgood as [_ B]; inversion B; assumption).
    assert (Hpe : pairform e = true) by (destruct Hge as (Hw & _); apply (wf_entry_facts e Hw); lia).
    assert (Hph : post_header (npd_hdr o l) = inr (npd_ctx o l l1 e)).
    { unfold post_header, legacy_ports, npd_hdr. cbn [n_ports n_rows n_columns n_frequencies n_params n_fz0 n_z0 n_fprec n_dprec].
      replace (Z.of_nat (m_ports o) <? 0)%Z with false by (symmetry; apply Z.ltb_ge; lia). cbn [andb].
      replace (Z.of_nat (length (m_freqs o)) <? 0)%Z with false by (symmetry; apply Z.ltb_ge; lia).
      replace (per_f o && ((int_max - 1) / 2 <? Z.of_nat (m_ports o))%Z) with false
        by (symmetry; apply andb_false_iff; right; apply Z.ltb_ge; unfold int_max; change ((2147483647 - 1) / 2)%Z with 1073741823%Z; lia).
      fold (pbase o). rewrite account_run; try assumption; try lia; try (unfold int_max; lia).
      rewrite Hs. cbn [fst snd pl_best pl_fields]. unfold npd_ctx, z0opt.
      destruct (pair_fields_Z (m_ports o) e Hpe) as [_ C]. rewrite C.
      replace (Z.of_nat (m_ports o) <? 0)%Z with false by (symmetry; apply Z.ltb_ge; lia). reflexivity. }
    (* the lines *)
    destruct (m_freqs o) as [| fq fs] eqn:Efs; [congruence |]. cbn [map_i fold_left].
    assert (Hfirst : nstep (NHeader (npd_hdr o l)) (npd_line E o l 0 fq) =
                     nstep (NData (npd_ctx o l l1 e) (mknd (Z.of_nat (length (m_freqs o))) [] [] [])) (npd_line E o l 0 fq)).
    { unfold nstep, npd_line. rewrite record_of_data by apply ptext_nohash. rewrite Hph. reflexivity. }
    rewrite Hfirst.
    assert (Hlen : length (m_freqs o) = S (length fs)) by (rewrite Efs; reflexivity).
    rewrite (line_step o l l1 e l2 _ 0 fq Hl Hgood Hpe Hfz) by (rewrite ?Hlen; cbn [nd_left length]; lia).
    rewrite (lines_run o l l1 e l2 Hl Hgood Hpe Hfz fs 1) by (cbn [nd_left length]; lia).
    cbn [nfinish nd_left Z.eqb]. f_equal. unfold obj_of, npd_loaded. cbn [npd_ctx x_best x_ports x_z0 x_fz0 x_nfreq x_fprec x_dprec nd_freqs nd_fz0 nd_cells].
    rewrite Efs. cbn [map map_i]. rewrite !rev_app_distr. cbn [rev app]. rewrite !rev_involutive.
    replace (0 <? Z.of_nat (length (fq :: fs)))%Z with true by (symmetry; apply Z.ltb_lt; cbn [length]; lia).
    rewrite andb_true_r.
    replace (Z.of_nat (m_ports o) =? 0)%Z with false by (symmetry; apply Z.eqb_neq; lia). rewrite andb_false_r.
    unfold z0opt. change (map (entry_vals o e fq) (nth 0 (convert_obj E o (e_par e)) [])) with (cells_at o e 0 fq).
    destruct (e_par e), (per_f o); reflexivity.
  Qed.

  (* ---- the boundary (known finding DF3): a list with ONLY IL / RL / VSWR columns is written but cannot be loaded ------ *)
  Lemma sel_none : forall ports l f0, Forall (fun e => quality e = 0) l -> sel ports l f0 None 0 = (None, 0).
  Proof.
    intros ports l. induction l as [| e r IH]; intros f0 H; [reflexivity |]. inversion H as [| ? ? Q Hr]; subst.
    cbn [sel]. rewrite Q. cbn [Nat.ltb Nat.leb]. apply IH. exact Hr.
  Qed.
  Lemma fold_nerr : forall ls c, fold_left nstep ls (NErr c) = NErr c.
  Proof. induction ls; intros; [reflexivity |]. cbn [fold_left nstep]. apply IHls. Qed.

  Theorem npd_scalar_only_rejected_lemma : forall o l, npd_wf o -> l <> [] -> Forall (entry_good o) l ->
    Forall (fun e => quality e = 0) l -> m_freqs o <> [] ->
    (pbase o + sum_fields (Z.of_nat (m_ports o)) l <= 2147483647)%Z ->
    nfinish (fold_left nstep (npd_header E o l ++ map_i (npd_line E o l) 0 (m_freqs o)) (NHeader nh0)) = NError NEBADMSG.
  Proof.
    intros o l Hwfo Hne Hgood Hq Hfne Hfit. pose proof Hwfo as (Hp1 & Hp & Hnf & Hfp & Hdp & Hz).
    assert (Hwfe : Forall (fun e => wf_entry e = true) l).
    { eapply Forall_impl; [| exact Hgood]. intros e (Hpf & _). exact Hpf. }
    assert (Hok : Forall (entry_ok (Z.of_nat (m_ports o))) l).
    { eapply Forall_impl; [| exact Hgood]. intros e (Hpf & H2 & _). split; [apply (wf_entry_facts e Hpf) |].
      intro X. rewrite (H2 X). reflexivity. }
    rewrite fold_left_app, header_run by assumption.
    assert (Hpb : (1 <= pbase o)%Z) by (unfold pbase; destruct (per_f o); lia).
    assert (Hph : post_header (npd_hdr o l) = inl NEBADMSG).
    { unfold post_header, legacy_ports, npd_hdr. cbn [n_ports n_rows n_columns n_frequencies n_params n_fz0 n_z0 n_fprec n_dprec].
      replace (Z.of_nat (m_ports o) <? 0)%Z with false by (symmetry; apply Z.ltb_ge; lia). cbn [andb].
      replace (Z.of_nat (length (m_freqs o)) <? 0)%Z with false by (symmetry; apply Z.ltb_ge; lia).
      replace (per_f o && ((int_max - 1) / 2 <? Z.of_nat (m_ports o))%Z) with false
        by (symmetry; apply andb_false_iff; right; apply Z.ltb_ge; unfold int_max; change ((2147483647 - 1) / 2)%Z with 1073741823%Z; lia).
      fold (pbase o). rewrite account_run; try assumption; try lia; try (unfold int_max; lia).
      rewrite sel_none by exact Hq. cbn [fst snd pl_best].
      replace (Z.of_nat (m_ports o) <? 0)%Z with false by (symmetry; apply Z.ltb_ge; lia). reflexivity. }
    destruct (m_freqs o) as [| fq fs] eqn:Efs; [congruence |]. cbn [map_i fold_left].
    assert (Hfirst : nstep (NHeader (npd_hdr o l)) (npd_line E o l 0 fq) = NErr NEBADMSG).
    { unfold nstep, npd_line. rewrite record_of_data by apply ptext_nohash. rewrite Hph. reflexivity. }
    rewrite Hfirst, fold_nerr. reflexivity.
  Qed.

  (* ---- the premises from the acceptance checks and the invariants of a vnadata_t ----------------------------------- *)
  (* vnadata_convert of a matrix object: a matrix of the same size, or one input impedance per port *)
  Definition conv_shape : Prop :=
    forall a b z m, is_matrix a = true -> length (v_conv E a b z m) = match b with PZIN => length z | _ => length m end.
  Definition mobj_inv (o : mobj D) : Prop :=
    (per_f o = false -> length (m_z0 o) = m_ports o) /\ length (m_data o) = length (m_freqs o) /\
    Forall (fun m => length m = m_rows o * m_ports o) (m_data o) /\
    (Z.of_nat (m_ports o) <= 46340)%Z /\ (Z.of_nat (length (m_freqs o)) <= 2147483647)%Z /\
    (1 <= m_fprec o <= 1000)%Z /\ (1 <= m_dprec o <= 1000)%Z /\ fz0_sized o.

  Lemma nth_map_i_len : forall A B (f : nat -> A -> list B) (l : list A) k i d, i < length l ->
    nth i (map_i f k l) [] = f (k + i) (nth i l d).
  Proof.
    intros A B f l. induction l as [| x l IH]; intros k i d H; [simpl in H; lia |].
    destruct i; cbn [map_i nth]; [rewrite Nat.add_0_r; reflexivity |]. replace (k + S i) with (S k + i) by lia. apply IH. simpl in H. lia.
  Qed.

  Theorem npd_premises_lemma : forall o ft0 promote fmt,
    mobj_inv o -> conv_shape -> wf_obj (sobj_of E o ft0 promote fmt) = true -> cksave (sobj_of E o ft0 promote fmt) = true ->
    final_filetype (sobj_of E o ft0 promote fmt) = NPD ->
    Forall (fun e => wf_entry e = true) (resolved (sobj_of E o ft0 promote fmt)) ->
    npd_wf o /\ Forall (entry_good o) (resolved (sobj_of E o ft0 promote fmt)) /\ fz0_sized o /\ m_freqs o <> [] /\
    resolved (sobj_of E o ft0 promote fmt) <> [].
  Proof.
    intros o ft0 promote fmt (Hz & Hd & Hm & H46 & Hnf & Hfp & Hdp & Hfz) Hcs Hwfo Hck Hfin Hwfe.
    set (s := sobj_of E o ft0 promote fmt) in *.
    unfold cksave, cksave_gen in Hck.
    apply andb_prop in Hck as [Hck Hconv]. apply andb_prop in Hck as [Hck _]. apply andb_prop in Hck as [Hck Hfreq].
    apply andb_prop in Hck as [Hty Hports].
    change (o_ports s) with (m_ports o) in *. change (o_freqs s) with (length (m_freqs o)) in *. change (o_type s) with (m_type o) in *.
    apply Nat.leb_le in Hports.
    assert (Hf0 : m_freqs o <> []) by (intro X; rewrite X in Hfreq; discriminate).
    assert (Hne : resolved s <> []).
    { unfold resolved, eff_format. destruct (o_format s); discriminate. }
    split; [unfold npd_wf; repeat split; assumption || lia |].
    split; [| repeat split; assumption].
    unfold resolved in *. unfold convertible_check in Hconv. rewrite forallb_forall in Hconv. rewrite Forall_forall in Hwfe.
    apply Forall_forall. intros e' Hin'. specialize (Hwfe e' Hin'). apply in_map_iff in Hin' as (e & <- & Hin). specialize (Hconv e Hin).
    cbn [e_par e_form] in *. change (o_type s) with (m_type o) in *. change (o_ports s) with (m_ports o) in *.
    set (p := resolve (m_type o) e) in *.
    assert (Hu : p <> PUNDEF) by (destruct (wf_entry_facts _ Hwfe) as [X _]; exact X). clearbody p.
    apply andb_prop in Hconv as [Hmat H2]. cbn [negb orb] in H2.
    assert (Hrows : p <> PZIN -> m_rows o = m_ports o).
    { intro Hnz. assert (Hpm : is_matrix p = true).
      { destruct p; try reflexivity; congruence. }
      rewrite Hpm in Hmat. cbn [negb orb] in Hmat. unfold wf_obj, wf_dims in Hwfo.
      change (o_type s) with (m_type o) in Hwfo. change (o_rows s) with (m_rows o) in Hwfo. change (o_ports s) with (m_ports o) in Hwfo.
      destruct (m_type o); try discriminate Hmat; try (apply Nat.eqb_eq; exact Hwfo);
        apply andb_prop in Hwfo as [A B]; apply Nat.eqb_eq in A, B; congruence. }
    split; [exact Hwfe |]. split.
    { intro X. assert (Y : two_port_only p = true) by (destruct p; try discriminate X; reflexivity).
      rewrite Y in H2. cbn [negb orb] in H2. apply Nat.eqb_eq. exact H2. }
    split; [exact Hrows |].
    intros i Hi. cbn [e_par]. unfold convert_obj. destruct (ptype_eqb p (m_type o)) eqn:Ept.
    - assert (Hpt : p = m_type o) by (destruct p, (m_type o); try discriminate Ept; reflexivity).
      rewrite Forall_forall in Hm. rewrite (Hm (nth i (m_data o) [])) by (apply nth_In; lia).
      unfold ecells. cbn [e_par]. destruct (ptype_eqb p PZIN) eqn:Ez.
      + assert (p = PZIN) by (destruct p; try discriminate Ez; reflexivity). rewrite H. unfold wf_obj, wf_dims in Hwfo.
        change (o_type s) with (m_type o) in Hwfo. change (o_rows s) with (m_rows o) in Hwfo. rewrite <- Hpt, H in Hwfo.
        apply Nat.eqb_eq in Hwfo. rewrite Hwfo. lia.
      + assert (Hnz : p <> PZIN) by (intro X; rewrite X in Ez; discriminate). rewrite (Hrows Hnz). destruct p; try reflexivity; congruence.
    - assert (Htm : is_matrix (m_type o) = true).
      { destruct (is_matrix p) eqn:Pm; [cbn [negb orb] in Hmat; exact Hmat |].
        (* p is Zin (not PUNDEF): a Zin entry of a non-Zin object: the object is a matrix, as it is not PUNDEF *)
        destruct (m_type o) eqn:Et; try reflexivity; [discriminate Hty |].
        destruct p; try discriminate Pm; try congruence; discriminate Ept. }
      rewrite (nth_map_i_len _ _ _ _ 0 i []) by lia. rewrite Hcs by exact Htm. cbn [Nat.add].
      assert (Hrc : m_rows o = m_ports o).
      { unfold wf_obj, wf_dims in Hwfo. change (o_type s) with (m_type o) in Hwfo. change (o_rows s) with (m_rows o) in Hwfo.
        change (o_ports s) with (m_ports o) in Hwfo.
        destruct (m_type o); try discriminate Htm; try (apply Nat.eqb_eq; exact Hwfo);
          apply andb_prop in Hwfo as [A B]; apply Nat.eqb_eq in A, B; congruence. }
      unfold ecells. cbn [e_par]. destruct p; try congruence; try (rewrite Forall_forall in Hm; rewrite (Hm (nth i (m_data o) [])) by (apply nth_In; lia); rewrite Hrc; reflexivity).
      unfold z0_at. unfold per_f in Hz. unfold fz0_sized in Hfz. destruct (m_fz0 o) as [zs |]; [apply (Hfz zs eq_refl i Hi) | apply Hz; reflexivity].
  Qed.

  (* at maximum precision in rectangular form a cell reads back as the saved value *)
  Lemma entry_vals_exact : forall (val : D -> xnum) o e fq v, (forall x, rd (m_dprec o) x = val x) -> e_form e = RI ->
    entry_vals o e fq v = (val (fst v), val (snd v)).
  Proof. intros val o [p f] fq v H Hri. cbn [e_form] in Hri. subst f. unfold entry_vals, zin_vals, pair_vals. cbn [e_par e_form]. rewrite !H. destruct p; reflexivity. Qed.
End NPD.
