(* Lemmas about the executable Touchstone tokenizer model of TsTok.v: totality and shape of the raw
   token stream, case insensitivity, prefix decomposition ([run] / [scan_app]), invariance under
   decoration (blanks, comments, newlines), the text buffer bound, and totality of [pull_all]. *)
Require Import List NArith ZArith Bool Lia.
Require Import LV.Files.TsTok.
Import ListNotations.
Open Scope N_scope.

(* ---- character facts -------------------------------------------------------------------------- *)
Lemma blank_cases : forall c, is_blank c = true -> c = 9 \/ c = 11 \/ c = 12 \/ c = 13 \/ c = 32.
Proof.
  intros c H. unfold is_blank, is_space in H.
  apply andb_true_iff in H. destruct H as [H1 H2].
  apply negb_true_iff in H2. apply N.eqb_neq in H2.
  apply orb_true_iff in H1. destruct H1 as [H1 | H1].
  - apply N.eqb_eq in H1. lia.
  - apply andb_true_iff in H1. destruct H1 as [Ha Hb].
    apply N.leb_le in Ha. apply N.leb_le in Hb. lia.
Qed.

Lemma upcase_blank : forall c, is_blank c = true -> upcase c = c.
Proof.
  intros c H. apply blank_cases in H.
  destruct H as [-> | [-> | [-> | [-> | ->]]]]; reflexivity.
Qed.

Lemma upcase_eq_10 : forall c, upcase c = 10 -> c = 10.
Proof.
  intros c. unfold upcase, is_lower.
  destruct (97 <=? c) eqn:E1; destruct (c <=? 122) eqn:E2; cbn [andb]; intros H; try exact H.
  apply N.leb_le in E1. apply N.leb_le in E2. lia.
Qed.

Lemma map_upcase_no_nl : forall body,
  Forall (fun c => c <> 10) body -> Forall (fun c => c <> 10) (map upcase body).
Proof.
  intros body H. induction H as [| c body Hc _ IH]; cbn [map]; constructor.
  - intros E. apply Hc. apply upcase_eq_10. exact E.
  - exact IH.
Qed.

(* ---- 1. totality / shape ---------------------------------------------------------------------- *)
Definition final_tok (x : rtok) : bool := match x with REof | RErr _ => true | _ => false end.

Definition good (s : list rtok) : Prop :=
  exists pre last, s = pre ++ [last] /\ final_tok last = true /\ Forall (fun x => final_tok x = false) pre.

Lemma good_single : forall x, final_tok x = true -> good [x].
Proof. intros x H. exists [], x. repeat split; [exact H | constructor]. Qed.

Lemma good_cons : forall x s, final_tok x = false -> good s -> good (x :: s).
Proof.
  intros x s Hx (pre & last & -> & Hl & Hp).
  exists (x :: pre), last. repeat split; [exact Hl | constructor; assumption].
Qed.

Lemma scan_total : forall l m opt, exists pre last,
  scan m opt l = pre ++ [last] /\ final_tok last = true /\ Forall (fun x => final_tok x = false) pre.
Proof.
  intros l. change (forall m opt, good (scan m opt l)).
  induction l as [| c r IH]; intros m opt.
  - destruct m; cbn [scan];
      repeat (apply good_cons; [reflexivity |]); apply good_single; reflexivity.
  - destruct m; cbn [scan];
      repeat match goal with
             | |- context [if ?b then _ else _] => destruct b
             | |- context [match keyword_of ?t with _ => _ end] => destruct (keyword_of t)
             end;
      repeat (apply good_cons; [reflexivity |]);
      first [apply IH | apply good_single; reflexivity].
Qed.

Lemma tok_total_lemma : forall l, exists pre last,
  tokens l = pre ++ [last] /\ final_tok last = true /\ Forall (fun x => final_tok x = false) pre.
Proof. intros l. unfold tokens. apply scan_total. Qed.

(* ---- 2. case insensitivity -------------------------------------------------------------------- *)
Lemma tok_case_insensitive_lemma : forall l1 l2, map upcase l1 = map upcase l2 -> tokens l1 = tokens l2.
Proof. intros l1 l2 H. unfold tokens. rewrite H. reflexivity. Qed.

Lemma tok_case_map_lemma : forall (f : N -> N) l, (forall c, upcase (f c) = upcase c) -> tokens (map f l) = tokens l.
Proof.
  intros f l H. apply tok_case_insensitive_lemma.
  rewrite map_map. apply map_ext. exact H.
Qed.

Definition swapcase (c : N) : N := if is_lower c then c - 32 else if is_upper c then c + 32 else c.

Lemma swapcase_upcase : forall c, upcase (swapcase c) = upcase c.
Proof.
  intros c. unfold swapcase, upcase, is_lower, is_upper.
  destruct (N.leb_spec 97 c); destruct (N.leb_spec c 122);
    destruct (N.leb_spec 65 c); destruct (N.leb_spec c 90); cbn [andb];
  repeat match goal with
         | |- context [?a <=? ?b] => destruct (N.leb_spec a b)
         end; cbn [andb]; lia.
Qed.

(* ---- 3. prefix decomposition ------------------------------------------------------------------ *)
(* one character of the scanner: the tokens emitted and the next state (None: an error token ended the stream) *)
Definition step_normal (opt : bool) (c : N) : list rtok * option (mode * bool) :=
  if c =? 10 then ([RNl opt], Some (MNormal, false))
  else if c =? 33 then ([], Some (MComment, opt))
  else if c =? 35 then ([ROption], Some (MNormal, true))
  else if c =? 91 then ([], Some (MKw [], opt))
  else if is_word_start c then ([], Some (MWord [c], opt))
  else if is_space c then ([], Some (MNormal, opt))
  else ([RErr (EChar c)], None).

Definition step (m : mode) (opt : bool) (c : N) : list rtok * option (mode * bool) :=
  match m with
  | MNormal => step_normal opt c
  | MComment => if c =? 10 then ([RNl opt], Some (MNormal, false)) else ([], Some (MComment, opt))
  | MWord acc => if is_in_word c then ([], Some (MWord (c :: acc), opt))
                 else let (o, s) := step_normal opt c in (RWord (rev acc) opt :: o, s)
  | MKw acc =>
      if c =? 93 then match keyword_of (rev acc) with
                      | Some k => ([RKw k], Some (MNormal, opt))
                      | None => ([RErr (EKeyword (rev acc))], None)
                      end
      else if c =? 10 then ([RErr (EBrace (rev acc))], None)
      else ([], Some (MKw (c :: acc), opt))
  end.

(* what the scanner has emitted after reading a prefix, and the state it is in
   (None: an error token ended the stream) *)
Fixpoint run (m : mode) (opt : bool) (l : list N) : list rtok * option (mode * bool) :=
  match l with
  | [] => ([], Some (m, opt))
  | c :: r => match step m opt c with
              | (out, Some (m', opt')) => let (out2, s) := run m' opt' r in (out ++ out2, s)
              | (out, None) => (out, None)
              end
  end.

Lemma scan_step : forall m opt c r,
  scan m opt (c :: r) = match step m opt c with
                        | (out, Some (m', opt')) => out ++ scan m' opt' r
                        | (out, None) => out
                        end.
Proof.
  intros m opt c r. destruct m; cbn [scan]; unfold step, step_normal;
    repeat match goal with
           | |- context [if ?b then _ else _] => destruct b
           | |- context [match keyword_of ?t with _ => _ end] => destruct (keyword_of t)
           end; reflexivity.
Qed.

Lemma scan_app : forall pre m opt suf,
  scan m opt (pre ++ suf) = match run m opt pre with
                            | (out, Some (m', opt')) => out ++ scan m' opt' suf
                            | (out, None) => out
                            end.
Proof.
  induction pre as [| c pre IH]; intros m opt suf.
  - reflexivity.
  - cbn [app run]. rewrite scan_step.
    destruct (step m opt c) as [out [[m' opt'] |]]; [| reflexivity].
    rewrite IH. destruct (run m' opt' pre) as [out2 [[m2 opt2] |]].
    + rewrite app_assoc. reflexivity.
    + reflexivity.
Qed.

(* ---- 4. decoration, local --------------------------------------------------------------------- *)
(* positions where white space may be inserted *)
Definition gap (m : mode) (r : list N) : Prop :=
  match m with
  | MNormal | MComment => True
  | MWord _ => match r with [] => True | c :: _ => is_in_word c = false end
  | MKw _ => False
  end.

Lemma scan_word_end : forall acc opt c r, is_in_word c = false ->
  scan (MWord acc) opt (c :: r) = RWord (rev acc) opt :: scan MNormal opt (c :: r).
Proof.
  intros acc opt c r H.
  change (scan (MWord acc) opt (c :: r))
    with (if is_in_word c then scan (MWord (c :: acc)) opt r
          else RWord (rev acc) opt :: scan MNormal opt (c :: r)).
  rewrite H. reflexivity.
Qed.

Lemma scan_word_gap : forall acc opt r, gap (MWord acc) r ->
  scan (MWord acc) opt r = RWord (rev acc) opt :: scan MNormal opt r.
Proof.
  intros acc opt r Hg. destruct r as [| c r].
  - reflexivity.
  - apply scan_word_end. exact Hg.
Qed.

Lemma scan_blank : forall m opt c r, is_blank c = true -> gap m r -> scan m opt (c :: r) = scan m opt r.
Proof.
  intros m opt c r Hb Hg. apply blank_cases in Hb.
  destruct m as [| | acc | acc].
  - destruct Hb as [-> | [-> | [-> | [-> | ->]]]]; reflexivity.
  - destruct Hb as [-> | [-> | [-> | [-> | ->]]]]; reflexivity.
  - rewrite (scan_word_gap acc opt r Hg).
    destruct Hb as [-> | [-> | [-> | [-> | ->]]]];
      (rewrite scan_word_end; [reflexivity | reflexivity]).
  - destruct Hg.
Qed.

Lemma scan_comment_body : forall body opt r, Forall (fun c => c <> 10) body ->
  scan MComment opt (body ++ r) = scan MComment opt r.
Proof.
  intros body opt r H. induction H as [| c body Hc _ IH].
  - reflexivity.
  - cbn [app scan]. apply N.eqb_neq in Hc. rewrite Hc. exact IH.
Qed.

Lemma scan_comment_end : forall opt r, (r = [] \/ exists r', r = 10 :: r') ->
  scan MComment opt r = scan MNormal opt r.
Proof. intros opt r [-> | [r' ->]]; reflexivity. Qed.

Lemma scan_comment : forall m opt body r, (forall acc, m <> MKw acc) -> Forall (fun c => c <> 10%N) body ->
  (r = [] \/ exists r', r = 10%N :: r') -> scan m opt (33%N :: body ++ r) = scan m opt r.
Proof.
  intros m opt body r Hm Hb Hr. destruct m as [| | acc | acc].
  - change (scan MNormal opt (33 :: body ++ r)) with (scan MComment opt (body ++ r)).
    rewrite scan_comment_body by exact Hb. apply scan_comment_end. exact Hr.
  - change (scan MComment opt (33 :: body ++ r)) with (scan MComment opt (body ++ r)).
    apply scan_comment_body. exact Hb.
  - rewrite scan_word_end by reflexivity.
    change (scan MNormal opt (33 :: body ++ r)) with (scan MComment opt (body ++ r)).
    rewrite scan_comment_body by exact Hb. rewrite scan_comment_end by exact Hr.
    symmetry. apply scan_word_gap.
    destruct Hr as [-> | [r' ->]]; [exact I | reflexivity].
  - exfalso. exact (Hm acc eq_refl).
Qed.

Lemma scan_newline : forall r, scan MNormal false (10%N :: r) = RNl false :: scan MNormal false r.
Proof. reflexivity. Qed.

(* ---- 5. decoration lifted to whole inputs ----------------------------------------------------- *)
Definition state_after (pre : list N) := snd (run MNormal false (map upcase pre)).

Lemma tok_decoration_blank_lemma : forall pre suf c, is_blank c = true ->
  match state_after pre with Some (m, _) => gap m (map upcase suf) | None => True end ->
  tokens (pre ++ c :: suf) = tokens (pre ++ suf).
Proof.
  intros pre suf c Hb Hs. unfold tokens, state_after in *.
  rewrite !map_app. cbn [map]. rewrite (upcase_blank c Hb). rewrite !scan_app.
  destruct (run MNormal false (map upcase pre)) as [out [[m o] |]]; cbn [snd] in Hs.
  - rewrite scan_blank by assumption. reflexivity.
  - reflexivity.
Qed.

Lemma tok_decoration_comment_lemma : forall pre suf body,
  match state_after pre with Some (MKw _, _) => False | _ => True end ->
  Forall (fun c => c <> 10%N) body -> (suf = [] \/ exists s', suf = 10%N :: s') ->
  tokens (pre ++ 33%N :: body ++ suf) = tokens (pre ++ suf).
Proof.
  intros pre suf body Hs Hb Hsuf. unfold tokens, state_after in *.
  rewrite !map_app. cbn [map]. rewrite map_app.
  change (upcase 33) with 33. rewrite !scan_app.
  destruct (run MNormal false (map upcase pre)) as [out [[m o] |]]; cbn [snd] in Hs.
  - rewrite scan_comment; [reflexivity | | |].
    + intros acc E. subst m. exact Hs.
    + apply map_upcase_no_nl. exact Hb.
    + destruct Hsuf as [-> | [s' ->]]; [left; reflexivity | right; eexists; reflexivity].
  - reflexivity.
Qed.

(* a newline inserted between tokens outside the option line adds exactly one raw token RNl false
   and changes nothing else *)
Lemma tok_decoration_newline_lemma : forall pre suf out,
  run MNormal false (map upcase pre) = (out, Some (MNormal, false)) ->
  tokens (pre ++ 10%N :: suf) = out ++ RNl false :: scan MNormal false (map upcase suf) /\
  tokens (pre ++ suf) = out ++ scan MNormal false (map upcase suf).
Proof.
  intros pre suf out H. unfold tokens. rewrite !map_app. cbn [map].
  change (upcase 10) with 10. rewrite !scan_app, H. rewrite scan_newline. split; reflexivity.
Qed.

(* ---- 6. concrete instances -------------------------------------------------------------------- *)
(* "# GHz S RI R 50\n" and "1 2 3\n" *)
Definition ex_line1 : list N := [35;32;71;72;122;32;83;32;82;73;32;82;32;53;48].
Definition ex_line2 : list N := [49;32;50;32;51].
Definition ex_plain : list N := ex_line1 ++ [10] ++ ex_line2 ++ [10].
(* "#  ghZ\tS RI R 50 ! a Comment [x\n1 2  3\n" *)
Definition ex_comment_body : list N := [32;97;32;67;111;109;109;101;110;116;32;91;120].
Definition ex_decorated : list N :=
  [35;32;32;103;104;90;9;83;32;82;73;32;82;32;53;48;32] ++ 33 :: ex_comment_body ++ [10;49;32;50;32;32;51;10].

Example ex_plain_tokens :
  tokens ex_plain =
  [ROption; RWord [71;72;90] true; RWord [83] true; RWord [82;73] true; RWord [82] true; RWord [53;48] true;
   RNl true; RWord [49] false; RWord [50] false; RWord [51] false; RNl false; REof].
Proof. vm_compute. reflexivity. Qed.

(* blanks, a comment and case changes inserted: the same raw tokens *)
Example ex_decorated_tokens : tokens ex_decorated = tokens ex_plain.
Proof. vm_compute. reflexivity. Qed.

(* an instance of tok_decoration_blank_lemma whose side condition holds: a tab after "# GHz" *)
Example ex_blank_hyp :
  is_blank 9 = true /\
  state_after [35;32;71;72;122] = Some (MWord [90;72;71], true) /\
  gap (MWord [90;72;71]) (map upcase (32 :: 83 :: ex_line2)).
Proof. vm_compute. repeat split. Qed.
Example ex_blank_concl :
  tokens ([35;32;71;72;122] ++ 9 :: 32 :: 83 :: ex_line2) = tokens ([35;32;71;72;122] ++ 32 :: 83 :: ex_line2).
Proof. vm_compute. reflexivity. Qed.
Example ex_blank_by_lemma :
  tokens ([35;32;71;72;122] ++ 9 :: 32 :: 83 :: ex_line2) = tokens ([35;32;71;72;122] ++ 32 :: 83 :: ex_line2).
Proof. apply tok_decoration_blank_lemma; vm_compute; reflexivity. Qed.

(* an instance of tok_decoration_comment_lemma: a comment right after the "50" of the option line *)
Example ex_comment_by_lemma :
  tokens (ex_line1 ++ 33 :: ex_comment_body ++ 10 :: ex_line2 ++ [10]) = tokens (ex_line1 ++ 10 :: ex_line2 ++ [10]).
Proof.
  apply tok_decoration_comment_lemma.
  - vm_compute. exact I.
  - unfold ex_comment_body. repeat constructor; discriminate.
  - right. eexists. reflexivity.
Qed.
Example ex_comment_concl :
  tokens (ex_line1 ++ 33 :: ex_comment_body ++ 10 :: ex_line2 ++ [10]) = tokens ex_plain.
Proof. vm_compute. reflexivity. Qed.

(* a blank inside a word is NOT a decoration: the side condition of the blank lemma matters *)
Example ex_blank_in_word_differs :
  tokens ([35;32;71] ++ 32 :: [72;122]) <> tokens ([35;32;71] ++ [72;122]).
Proof. vm_compute. discriminate. Qed.

(* an instance of tok_decoration_newline_lemma: an empty line between the data lines *)
Example ex_newline_hyp :
  run MNormal false (map upcase (ex_line1 ++ [10])) =
  ([ROption; RWord [71;72;90] true; RWord [83] true; RWord [82;73] true; RWord [82] true; RWord [53;48] true; RNl true],
   Some (MNormal, false)).
Proof. vm_compute. reflexivity. Qed.
Example ex_newline_concl :
  tokens ((ex_line1 ++ [10]) ++ 10 :: ex_line2 ++ [10]) =
  [ROption; RWord [71;72;90] true; RWord [83] true; RWord [82;73] true; RWord [82] true; RWord [53;48] true; RNl true]
  ++ RNl false :: scan MNormal false (map upcase (ex_line2 ++ [10])).
Proof. exact (proj1 (tok_decoration_newline_lemma _ _ _ ex_newline_hyp)). Qed.

(* ---- 7. text buffer --------------------------------------------------------------------------- *)
(* add_char keeps length + 1 <= allocation, so text[length] = c and the final text[length] = NUL
   stay inside the block *)
Lemma add_char_invariant : forall len alloc, (0 < alloc)%N -> (len + 1 <= alloc)%N ->
  let (len', alloc') := add_char (len, alloc) in
  (len' = len + 1)%N /\ (len < alloc')%N /\ (len' + 1 <= alloc')%N /\ (alloc <= alloc')%N.
Proof.
  intros len alloc Ha Hl. unfold add_char.
  destruct (N.leb_spec alloc (len + 1)); lia.
Qed.

Lemma add_chars_invariant : forall n len alloc, (0 < alloc)%N -> (len + 1 <= alloc)%N ->
  let (len', alloc') := add_chars n (len, alloc) in
  (len' = len + N.of_nat n) /\ (len' + 1 <= alloc')%N /\ (alloc <= alloc')%N.
Proof.
  induction n as [| n IH]; intros len alloc Ha Hl.
  - cbn [add_chars]. rewrite N.add_0_r. repeat split; [exact Hl | lia].
  - cbn [add_chars].
    pose proof (add_char_invariant len alloc Ha Hl) as H1.
    destruct (add_char (len, alloc)) as [len1 alloc1].
    destruct H1 as (E1 & _ & L1 & A1).
    assert (Ha1 : 0 < alloc1) by lia.
    pose proof (IH len1 alloc1 Ha1 L1) as H2.
    destruct (add_chars n (len1, alloc1)) as [len2 alloc2].
    destruct H2 as (E2 & L2 & A2).
    rewrite Nat2N.inj_succ. repeat split; lia.
Qed.

Lemma tok_buffer_no_overflow_lemma : forall n alloc, (0 < alloc)%N ->
  let (len', alloc') := add_chars n (0%N, alloc) in
  (len' = N.of_nat n) /\ (len' + 1 <= alloc')%N /\ (alloc <= alloc')%N.
Proof.
  intros n alloc Ha.
  assert (Hl : 0 + 1 <= alloc) by lia.
  pose proof (add_chars_invariant n 0 alloc Ha Hl) as H.
  destruct (add_chars n (0, alloc)) as [len' alloc'].
  destruct H as (E & L & A). repeat split; [| exact L | exact A].
  rewrite E. apply N.add_0_l.
Qed.

(* ---- 8. pull ---------------------------------------------------------------------------------- *)
Lemma pull_all_total : forall fl r, exists pre last,
  pull_all fl r = pre ++ [last] /\ (last = TEof \/ last = TError).
Proof.
  intros fl r. induction r as [| x r (pre & last & E & Hl)].
  - exists [], TEof. split; [reflexivity | left; reflexivity].
  - cbn [pull_all]. destruct (tok_of fl x) as [t |].
    + destruct t;
        try (exists [], TEof; split; [reflexivity | left; reflexivity]);
        try (exists [], TError; split; [reflexivity | right; reflexivity]);
        match goal with
        | |- exists _ _, ?t :: _ = _ /\ _ =>
            exists (t :: pre), last; split; [rewrite E; reflexivity | exact Hl]
        end.
    + exists pre, last. split; assumption.
Qed.
