(* The version-2 load theorem of the Touchstone parser model: the raw token stream of every well-formed
   abstract version-2 file (TsSpec.v2_wf: any number of ports up to 46340, any number of frequency
   records, Full / Upper / Lower, with or without [Two-Port Order], [Matrix Format], [Reference], [End])
   parses to TsSpec.v2_result.  The records are handled by induction over the record list.

   Nothing here changes the model: TsTok.v, TsParse.v and TsSpec.v are only read. *)
Require Import List NArith ZArith QArith Qcanon Bool Lia. Import ListNotations.
Require Import LV.Files.TsTok LV.Files.TsParse LV.Files.TsSpec LV.Files.TsSpecV2.

Local Opaque parse_double parse_int.

(* ---- the header ------------------------------------------------------------------------------------ *)
Lemma opts_hdr_shape : forall v2 fs,
  opts_hdr v2 fs = mkhdr v2 (h_mult (opts_hdr v2 fs)) (h_type (opts_hdr v2 fs)) (h_fmt (opts_hdr v2 fs))
                         (h_z0 (opts_hdr v2 fs)) (-1) None (-1) (-1) MFull None.
Proof.
  intros v2 fs. unfold opts_hdr.
  destruct (opts_keep fs (hdr0 v2)) as (A1 & A2 & A3 & A4 & A5 & A6 & A7 & _).
  destruct (fold_left apply_ofield fs (hdr0 v2)); cbn in *; subst; reflexivity.
Qed.

Lemma v2_head_run : forall fs, Forall ofield_ok fs ->
  fold_left pstep ([RKw KVersion; RWord txt_2_0 false; nl; ROption] ++ render_opts fs ++ [RNl true]) SStart =
  SBody (opts_hdr true fs).
Proof.
  intros fs Hok. rewrite fold_left_app.
  change (fold_left pstep [RKw KVersion; RWord txt_2_0 false; nl; ROption] SStart) with (SOpt (hdr0 true)).
  rewrite fold_left_app, opts_run by assumption. reflexivity.
Qed.

Lemma kw_ports_run : forall h n, h_ports h = (-1)%Z -> inum_ok n -> (0 <= i_val n)%Z ->
  (is_hg (h_type h) = true -> i_val n = 2%Z) ->
  fold_left pstep [RKw KNumberOfPorts; RWord (i_text n) false; nl] (SBody h) = SBody (set_ports h (i_val n)).
Proof.
  intros h n Hp Hn H0 Hhg. cbn [fold_left]. rewrite pstep_kw. cbn [on_tok body_tok]. rewrite Hp. cbn [Z.eqb Pos.eqb].
  rewrite pstep_word. cbn [flags_of]. rewrite (classify_int _ _ _ Hn). cbn [on_tok arg_tok].
  replace (i_val n <? 0)%Z with false by (symmetry; apply Z.ltb_ge; exact H0).
  replace (negb (i_val n =? 2)%Z && is_hg (h_type h)) with false.
  - apply pstep_nl. reflexivity.
  - destruct (is_hg (h_type h)); [| rewrite andb_false_r; reflexivity].
    rewrite (Hhg eq_refl). reflexivity.
Qed.

Lemma kw_order_run : forall h (o : bool),
  fold_left pstep [RKw KTwoPortOrder; RWord (if o then txt_21_12 else txt_12_21) false; nl] (SBody h) =
  SBody (set_order h (Some o)).
Proof. intros h [|]; reflexivity. Qed.

Lemma kw_nfreq_run : forall h n, inum_ok n ->
  fold_left pstep [RKw KNumberOfFrequencies; RWord (i_text n) false; nl] (SBody h) = SBody (set_nfreq h (i_val n)).
Proof.
  intros h n Hn. cbn [fold_left]. rewrite pstep_kw. cbn [on_tok body_tok].
  rewrite pstep_word. cbn [flags_of]. rewrite (classify_int _ _ _ Hn). cbn [on_tok arg_tok].
  apply pstep_nl. reflexivity.
Qed.

Lemma kw_matrix_run : forall h m,
  fold_left pstep [RKw KMatrixFormat; RWord (mfmt_text m) false; nl] (SBody h) = SBody (set_matrix h m).
Proof. intros h [| |]; reflexivity. Qed.

Lemma pstep_wnum : forall s n, pstep s (wnum n) = on_tok s (classify (flags_of s) (n_text n) false).
Proof. reflexivity. Qed.

Definition pos_num (n : num) : Prop := num_ok n /\ positive_x (n_val n).

Lemma ref_values_run : forall h l acc, l <> [] -> Forall pos_num l ->
  fold_left pstep (map wnum l) (SRef h (length l) acc) = SBody (set_ref h (Some (rev acc ++ map n_val l))).
Proof.
  intros h l. induction l as [| x l IH]; intros acc Hne Hok; [congruence |].
  inversion Hok as [| ? ? [Hx Hp] Hl]; subst.
  cbn [map fold_left length]. rewrite pstep_wnum. cbn [flags_of].
  rewrite (classify_double _ _ _ Hx). cbn [on_tok]. unfold positive_x in Hp. rewrite Hp. cbn [negb].
  destruct l as [| y l].
  - cbn [length map fold_left rev]. reflexivity.
  - cbn [length] in *. rewrite IH by (congruence || assumption).
    cbn [rev]. rewrite <- app_assoc. reflexivity.
Qed.

Lemma kw_ref_run : forall h l, (0 <= h_ports h)%Z -> h_ref h = None -> length l = Z.to_nat (h_ports h) ->
  Forall pos_num l ->
  fold_left pstep (RKw KReference :: map wnum l ++ [nl]) (SBody h) = SBody (set_ref h (Some (map n_val l))).
Proof.
  intros h l H0 Hr Hlen Hok. cbn [fold_left]. rewrite pstep_kw. cbn [on_tok body_tok].
  replace (h_ports h <? 0)%Z with false by (symmetry; apply Z.ltb_ge; exact H0).
  rewrite Hr, <- Hlen. rewrite fold_left_app.
  destruct l as [| x l].
  - reflexivity.
  - change (length (x :: l)) with (S (length l)). cbv iota.
    change (S (length l)) with (length (x :: l)).
    rewrite ref_values_run by (congruence || assumption). reflexivity.
Qed.

(* ---- [Network Data] ---------------------------------------------------------------------------------- *)
Definition need_of (h : hdr) : nat :=
  let n := Z.to_nat (h_ports h) in
  S (2 * match h_matrix h with MFull => n * n | _ => n * (n + 1) / 2 end).

Lemma kw_netdata_run : forall h, h_v2 h = true -> (0 <= h_ports h <= 46340)%Z -> (0 <= h_nfreq h)%Z ->
  ((h_ports h = 2)%Z <-> h_order h <> None) ->
  fold_left pstep [RKw KNetworkData; nl] (SBody h) =
  SV2 h (mkv2 (Z.to_N (h_nfreq h)) (need_of h) (need_of h) [] [] []).
Proof.
  intros h Hv [Hp0 Hp1] Hn Hord. cbn [fold_left]. rewrite pstep_kw. cbn [on_tok body_tok]. unfold after_kw.
  rewrite Hv. cbn [negb andb]. unfold network_data.
  replace (h_ports h <? 0)%Z with false by (symmetry; apply Z.ltb_ge; exact Hp0).
  replace (h_nfreq h <? 0)%Z with false by (symmetry; apply Z.ltb_ge; exact Hn).
  replace (int_max_sqrt <? h_ports h)%Z with false by (symmetry; apply Z.ltb_ge; unfold int_max_sqrt; lia).
  assert (E : ((h_ports h =? 2)%Z && match h_order h with None => true | Some _ => false end = false) /\
              (negb (h_ports h =? 2)%Z && match h_order h with None => false | Some _ => true end = false)).
  { destruct (Z.eqb_spec (h_ports h) 2) as [E2 | E2]; destruct (h_order h) as [o |]; cbn; split; try reflexivity.
    - exfalso. apply (proj1 Hord E2). reflexivity.
    - exfalso. apply E2. apply (proj2 Hord). discriminate. }
  destruct E as [E1 E2]. rewrite E1, E2.
  apply pstep_nl. reflexivity.
Qed.

(* ---- one frequency record -------------------------------------------------------------------------- *)
Definition fqv (h : hdr) (r : num * list num) : xnum := xmul (XQ (h_mult h)) (n_val (fst r)).
Definition bm (h : hdr) (r : num * list num) : list cell :=
  build_matrix (h_matrix h) (v2_transpose h) (Z.to_nat (h_ports h)) (map n_val (snd r)).

Lemma pstep_v2_double : forall h d n, num_ok n -> pstep (SV2 h d) (wnum n) = v2_tok h d (TDouble (n_val n)).
Proof.
  intros h d n Hn. rewrite pstep_wnum. cbn [flags_of]. rewrite (classify_double _ _ _ Hn). reflexivity.
Qed.

(* the values that follow the frequency: the last one completes the record *)
Lemma v2_values_run : forall h xs left need c cur fr ms, (left =? 0)%N = false -> xs <> [] -> Forall num_ok xs ->
  fold_left pstep (map wnum xs) (SV2 h (mkv2 left need (length xs) (c :: cur) fr ms)) =
  SV2 h (v2_complete h (mkv2 left need 0 [] fr ms) (rev (map n_val xs) ++ c :: cur) (N.pred left)).
Proof.
  intros h xs. induction xs as [| x xs IH]; intros left need c cur fr ms Hl Hne Hok; [congruence |].
  inversion Hok as [| ? ? Hx Hxs]; subst.
  cbn [map fold_left length]. rewrite pstep_v2_double by assumption.
  unfold v2_tok at 1. cbn [d_left d_cur d_togo d_need d_freqs d_mats]. rewrite Hl.
  destruct xs as [| y xs].
  - cbn [length Nat.sub fold_left map rev app]. reflexivity.
  - change (S (length (y :: xs)) - 1)%nat with (S (length xs)). cbv iota.
    change (S (length xs)) with (length (y :: xs)).
    rewrite IH by (congruence || assumption). cbn [rev map]. rewrite <- !app_assoc. reflexivity.
Qed.

Definition fr_ok2 (h : hdr) (fr : list xnum) (r : num * list num) : Prop :=
  match fr with p :: _ => xle (fqv h r) p = false | [] => True end.

Lemma v2_record_run : forall h left need fr ms r, (left =? 0)%N = false -> need = S (length (snd r)) ->
  num_ok (fst r) -> xlt (n_val (fst r)) xq0 = false -> Forall num_ok (snd r) -> fr_ok2 h fr r ->
  fold_left pstep (wnum (fst r) :: map wnum (snd r) ++ [nl]) (SV2 h (mkv2 left need need [] fr ms)) =
  SV2 h (mkv2 (N.pred left) need need [] (fqv h r :: fr) (bm h r :: ms)).
Proof.
  intros h left need fr ms [x xs] Hl Hneed Hx Hnn Hxs Hf. cbn [fst snd] in *.
  cbn [fold_left]. rewrite pstep_v2_double by assumption.
  unfold v2_tok. cbn [d_left d_cur d_togo d_need d_freqs d_mats]. rewrite Hl. rewrite Hnn.
  assert (E : match fr with prev :: _ => xle (xmul (XQ (h_mult h)) (n_val x)) prev | [] => false end = false)
    by (destruct fr; [reflexivity | exact Hf]).
  rewrite E. change (xmul (XQ (h_mult h)) (n_val x)) with (fqv h (x, xs)).
  rewrite fold_left_app. subst need.
  destruct xs as [| y ys].
  - cbn [length Nat.sub map fold_left]. rewrite pstep_nl by reflexivity.
    unfold v2_complete, bm. cbn [d_need d_freqs d_mats rev app tl map snd]. reflexivity.
  - change (S (length (y :: ys)) - 1)%nat with (S (length ys)). cbv iota.
    change (S (length ys)) with (length (y :: ys)).
    rewrite v2_values_run by (assumption || congruence).
    cbn [fold_left]. rewrite pstep_nl by reflexivity.
    unfold v2_complete, bm. cbn [d_need d_freqs d_mats snd].
    rewrite rev_app_distr. cbn [rev app tl]. rewrite rev_involutive. reflexivity.
Qed.

Fixpoint chain2 (h : hdr) (fr : list xnum) (rs : list (num * list num)) : Prop :=
  match rs with
  | [] => True
  | r :: rs' => fr_ok2 h fr r /\ chain2 h (fqv h r :: fr) rs'
  end.

Lemma chain2_of_ascending : forall h rs r0 fr, ascending (map (fqv h) (r0 :: rs)) -> chain2 h (fqv h r0 :: fr) rs.
Proof.
  induction rs as [| r rs IH]; intros r0 fr H; [exact I |].
  split.
  - unfold fr_ok2. apply (H 0%nat (fqv h r0) (fqv h r)); reflexivity.
  - apply IH. intros i a b Ha Hb. apply (H (S i) a b); assumption.
Qed.

Lemma chain2_start : forall h rs, ascending (map (fqv h) rs) -> chain2 h [] rs.
Proof.
  intros h [| r rs] H; [exact I |]. split; [exact I |]. apply chain2_of_ascending. exact H.
Qed.

Definition rec_ok2 (k : nat) (r : num * list num) : Prop :=
  num_ok (fst r) /\ xlt (n_val (fst r)) xq0 = false /\ Forall num_ok (snd r) /\ length (snd r) = k.

Lemma v2_records_run : forall h need rs k fr ms, Forall (rec_ok2 (need - 1)) rs -> (1 <= need)%nat -> chain2 h fr rs ->
  fold_left pstep (flat_map (fun r => wnum (fst r) :: map wnum (snd r) ++ [nl]) rs)
            (SV2 h (mkv2 (N.of_nat (length rs) + k) need need [] fr ms)) =
  SV2 h (mkv2 k need need [] (rev (map (fqv h) rs) ++ fr) (rev (map (bm h) rs) ++ ms)).
Proof.
  intros h need rs. induction rs as [| r rs IH]; intros k fr ms Hok Hneed Hch.
  - reflexivity.
  - inversion Hok as [| ? ? (Hx & Hnn & Hxs & Hlen) Hrs]; subst. destruct Hch as [Hf Hch].
    cbn [flat_map]. rewrite fold_left_app.
    rewrite v2_record_run; try assumption.
    + replace (N.pred (N.of_nat (length (r :: rs)) + k)) with (N.of_nat (length rs) + k)%N by (cbn [length]; lia).
      rewrite IH by assumption. cbn [map rev]. rewrite <- !app_assoc. reflexivity.
    + apply N.eqb_neq. cbn [length]. lia.
    + lia.
Qed.

(* ---- the end of the file ----------------------------------------------------------------------------- *)
Lemma v2_end_run : forall h need fr ms (e : bool), h_v2 h = true -> h_nnoise h = (-1)%Z ->
  fold_left pstep ((if e then [RKw KEnd; nl] else []) ++ [REof]) (SV2 h (mkv2 0 need need [] fr ms)) =
  SDone (v2_obj h (mkv2 0 need need [] fr ms)).
Proof.
  intros h need fr ms e Hv Hn.
  assert (F : forall o, finalize h o = o) by (intro o; unfold finalize; rewrite Hv; reflexivity).
  destruct e; cbn [app fold_left].
  - rewrite pstep_kw. cbn [on_tok]. unfold v2_tok. cbn [d_left N.eqb]. unfold after_data_tok. rewrite Hn.
    cbn [Z.leb Z.compare end_tok]. rewrite pstep_nl by reflexivity.
    unfold pstep. cbn [flags_of tok_of on_tok eof_tok]. rewrite F. reflexivity.
  - unfold pstep. cbn [flags_of tok_of on_tok]. unfold v2_tok. cbn [d_left N.eqb]. unfold after_data_tok. rewrite Hn.
    cbn [Z.leb Z.compare end_tok eof_tok]. rewrite F. reflexivity.
Qed.

(* ---- the theorem -------------------------------------------------------------------------------------- *)
Definition v2_hfin (f : v2file) : hdr :=
  let h := opts_hdr true (f_opts f) in
  mkhdr true (h_mult h) (h_type h) (h_fmt h) (h_z0 h) (i_val (f_ports f)) (f_order f) (i_val (f_nfreq f)) (-1) (f_mf f)
        (option_map (map n_val) (f_ref f)).

Lemma Forall_impl' : forall A (P Q : A -> Prop) l, (forall a, P a -> Q a) -> Forall P l -> Forall Q l.
Proof. intros A P Q l H HF. induction HF; constructor; auto. Qed.

Theorem v2_load_lemma : forall f, v2_wf f -> parse (v2_stream f) = Ok (v2_result f).
Proof.
  intros f (Hopts & Hpi & Hpr & Hord & Hhg & Hni & Hnv & Href & Hrec & Hasc).
  unfold parse, v2_stream.
  (* option line *)
  rewrite !app_assoc. rewrite <- (app_assoc _ (render_opts (f_opts f)) [RNl true]).
  repeat rewrite <- app_assoc.
  rewrite (app_assoc [RKw KVersion; RWord txt_2_0 false; nl; ROption]), (app_assoc _ [RNl true]).
  rewrite <- (app_assoc [RKw KVersion; RWord txt_2_0 false; nl; ROption]).
  rewrite fold_left_app, v2_head_run by assumption.
  pose proof (opts_hdr_shape true (f_opts f)) as Hs.
  unfold v2_result, v2_freqs in *.
  set (h0 := opts_hdr true (f_opts f)) in *.
  set (m := h_mult h0) in *. set (t := h_type h0) in *. set (fm := h_fmt h0) in *. set (z := h_z0 h0) in *.
  clearbody m t fm z. rewrite Hs. clear Hs. clearbody h0.
  (* [Number of Ports] *)
  rewrite fold_left_app, kw_ports_run; try assumption; try reflexivity; try lia.
  unfold set_ports. cbn [h_v2 h_mult h_type h_fmt h_z0 h_order h_nfreq h_nnoise h_matrix h_ref].
  (* [Two-Port Order] *)
  rewrite fold_left_app.
  assert (E1 : fold_left pstep
                 match f_order f with
                 | Some o => [RKw KTwoPortOrder; RWord (if o then txt_21_12 else txt_12_21) false; nl]
                 | None => []
                 end (SBody (mkhdr true m t fm z (i_val (f_ports f)) None (-1) (-1) MFull None)) =
               SBody (mkhdr true m t fm z (i_val (f_ports f)) (f_order f) (-1) (-1) MFull None)).
  { destruct (f_order f) as [o |]; [rewrite kw_order_run |]; reflexivity. }
  rewrite E1. clear E1.
  (* [Number of Frequencies] *)
  rewrite fold_left_app, kw_nfreq_run by assumption.
  unfold set_nfreq. cbn [h_v2 h_mult h_type h_fmt h_z0 h_ports h_order h_nnoise h_matrix h_ref].
  (* [Matrix Format] *)
  rewrite fold_left_app.
  assert (E2 : fold_left pstep
                 match f_matrix f with Some m0 => [RKw KMatrixFormat; RWord (mfmt_text m0) false; nl] | None => [] end
                 (SBody (mkhdr true m t fm z (i_val (f_ports f)) (f_order f) (i_val (f_nfreq f)) (-1) MFull None)) =
               SBody (mkhdr true m t fm z (i_val (f_ports f)) (f_order f) (i_val (f_nfreq f)) (-1) (f_mf f) None)).
  { unfold f_mf. destruct (f_matrix f) as [m0 |]; [rewrite kw_matrix_run |]; reflexivity. }
  rewrite E2. clear E2.
  (* [Reference] *)
  rewrite fold_left_app.
  assert (E3 : fold_left pstep
                 match f_ref f with Some l => RKw KReference :: map wnum l ++ [nl] | None => [] end
                 (SBody (mkhdr true m t fm z (i_val (f_ports f)) (f_order f) (i_val (f_nfreq f)) (-1) (f_mf f) None)) =
               SBody (mkhdr true m t fm z (i_val (f_ports f)) (f_order f) (i_val (f_nfreq f)) (-1) (f_mf f)
                            (option_map (map n_val) (f_ref f)))).
  { destruct (f_ref f) as [l |]; [| reflexivity]. destruct Href as [Hl Hp].
    rewrite kw_ref_run; try reflexivity; cbn [h_ports]; try lia; assumption. }
  rewrite E3. clear E3.
  (* [Network Data] *)
  set (h := mkhdr true m t fm z (i_val (f_ports f)) (f_order f) (i_val (f_nfreq f)) (-1) (f_mf f)
                  (option_map (map n_val) (f_ref f))).
  rewrite fold_left_app, kw_netdata_run; try reflexivity; try (cbn [h h_ports h_nfreq]; lia); try exact Hord.
  (* the records *)
  change (h_nfreq h) with (i_val (f_nfreq f)). rewrite Hnv.
  replace (Z.to_N (Z.of_nat (length (f_records f)))) with (N.of_nat (length (f_records f)) + 0)%N by lia.
  rewrite fold_left_app.
  assert (Hneed : need_of h = S (2 * f_pairs f)).
  { unfold need_of, f_pairs, f_n. reflexivity. }
  rewrite v2_records_run.
  - rewrite v2_end_run by reflexivity.
    cbn [pfinish]. unfold v2_obj. cbn [d_freqs d_mats]. rewrite !app_nil_r, <- !map_rev, !rev_involutive.
    f_equal. unfold z0_list, h. cbn [h_v2 h_type h_fmt h_ports h_ref h_z0]. fold (f_n f).
    destruct (f_ref f); reflexivity.
  - rewrite Hneed. cbn [Nat.sub]. rewrite Nat.sub_0_r.
    eapply Forall_impl'; [| exact Hrec]. intros r (A & N & B & C). repeat split; assumption.
  - rewrite Hneed. lia.
  - apply chain2_start. exact Hasc.
Qed.
