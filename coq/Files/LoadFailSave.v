(* The saver's view (SaveModel.sobj) of an object the Touchstone / NPD loader models return, for the statement
   "a loaded object with >= 1 port and >= 1 frequency is accepted by vnadata_cksave".  The z0 tests are made as
   the C code makes them on doubles: "creal(z0) <= 0.0" (false for a NaN) and "z0[i] != z0[0]" (true for a NaN).
   The file type the saver works with depends on the class of the save NAME (vnadata_save.c, "Set the file type").
   No proofs in this file. *)
Require Import List NArith ZArith Bool.
Import ListNotations.
Require Import LV.Files.TsTok LV.Files.TsParse LV.Files.NpdScan LV.Files.SaveModel.
Require LV.Files.NpdLoad.

Definition ts_ptype (t : TsParse.ptype) : NpdScan.ptype :=
  match t with TsParse.PS => NpdScan.PS | TsParse.PY => NpdScan.PY | TsParse.PZ => NpdScan.PZ
             | TsParse.PH => NpdScan.PH | TsParse.PG => NpdScan.PG end.
Definition ts_form (f : dfmt) : form := match f with FDB => DB | FMA => MA | FRI => RI end.
(* C: a != b on doubles *)
Definition xneq (a b : xnum) : bool := negb (xle a b && xle b a).
Definition z0_pos (l : list xnum) : bool := forallb (fun z => negb (xle z xq0)) l.
Definition z0_equal (l : list xnum) : bool :=
  match l with [] => true | z :: r => forallb (fun y => negb (xneq y z)) r end.

(* the loader's own test (after fix DB93): x > 0.0, which also excludes a NaN *)
Definition z0_gt0 (l : list xnum) : bool := forallb (fun z => xlt xq0 z) l.

(* the class of the file name given to vnadata_save / vnadata_cksave (_vnadata_parse_filename) *)
Inductive nameclass := NameTs | NameSnp | NameNpd | NameOther.
(* "Set the file type" of vnadata_save_common: a .ts name on a Touchstone 1 object keeps version 1 and allows the
   promotion; any other recognised suffix replaces the object's file type; an unrecognised one keeps it *)
Definition save_filetype (nc : nameclass) (v2 : bool) : filetype * bool :=
  match nc, v2 with
  | NameTs, false => (TS1, true)
  | NameTs, true => (TS2, false)
  | NameSnp, _ => (TS1, false)
  | NameNpd, _ => (NPD, false)
  | NameOther, v => (if v then TS2 else TS1, false)
  end.

(* a loaded Touchstone object as the loader leaves it (format = the single entry of _vnadata_set_simple_format),
   saved under a name of class nc *)
Definition ts_sobj (nc : nameclass) (o : tsobj) : sobj :=
  {| o_type := ts_ptype (TsParse.o_type o); o_rows := TsParse.o_ports o; o_ports := TsParse.o_ports o;
     o_freqs := length (TsParse.o_freqs o); o_per_f_z0 := false;
     o_z0_real_pos := z0_pos (TsParse.o_z0 o); o_z0_equal := z0_equal (TsParse.o_z0 o);
     o_filetype := fst (save_filetype nc (TsParse.o_v2 o)); o_promote := snd (save_filetype nc (TsParse.o_v2 o));
     o_format := [Build_entry (ts_ptype (TsParse.o_type o)) (ts_form (TsParse.o_fmt o))] |}.

(* an NPD object with the format vector [fmt] ([] = the default of vnadata_set_format(vdp, NULL)) *)
Definition npd_sobj (fmt : list entry) (o : NpdLoad.nobj) : sobj :=
  {| o_type := NpdLoad.b_type o; o_rows := Z.to_nat (NpdLoad.b_rows o); o_ports := Z.to_nat (NpdLoad.b_columns o);
     o_freqs := length (NpdLoad.b_freqs o);
     o_per_f_z0 := match NpdLoad.b_fz0 o with Some _ => true | None => false end;
     o_z0_real_pos := true; o_z0_equal := true;            (* not looked at for the NPD file type *)
     o_filetype := NPD; o_promote := false; o_format := fmt |}.
