(* The saver's view (SaveModel.sobj) of an object the Touchstone / NPD loader models return, for the statement
   "a loaded object with >= 1 port and >= 1 frequency is accepted by vnadata_cksave".  The z0 tests are made as
   the C code makes them on doubles: "creal(z0) <= 0.0" (false for a NaN) and "z0[i] != z0[0]" (true for a NaN).
   [promote]: the save name ends in .ts, so that a Touchstone 1 object may be promoted to version 2.
   No proofs in this file. *)
Require Import List NArith ZArith Bool.
Import ListNotations.
Require Import LV.Files.TsTok LV.Files.TsParse LV.Files.NpdScan LV.Files.SaveModel.
Require LV.Files.NpdLoad.

Definition ts_ptype (t : TsParse.ptype) : NpdScan.ptype :=
  match t with TsParse.PS => NpdScan.PS | TsParse.PY => NpdScan.PY | TsParse.PZ => NpdScan.PZ
             | TsParse.PH => NpdScan.PH | TsParse.PG => NpdScan.PG end.
Definition ts_form (f : dfmt) : form := match f with FDB => DB | FMA => MA | FRI => RI end.
(* C: a != b on doubles *)
Definition xneq (a b : xnum) : bool := negb (xle a b && xle b a).
Definition z0_pos (l : list xnum) : bool := forallb (fun z => negb (xle z xq0)) l.
Definition z0_equal (l : list xnum) : bool :=
  match l with [] => true | z :: r => forallb (fun y => negb (xneq y z)) r end.

(* as the loader leaves it: format = the single entry of _vnadata_set_simple_format *)
Definition ts_sobj (promote : bool) (o : tsobj) : sobj :=
  {| o_type := ts_ptype (TsParse.o_type o); o_rows := TsParse.o_ports o; o_ports := TsParse.o_ports o;
     o_freqs := length (TsParse.o_freqs o); o_per_f_z0 := false;
     o_z0_real_pos := z0_pos (TsParse.o_z0 o); o_z0_equal := z0_equal (TsParse.o_z0 o);
     o_filetype := if TsParse.o_v2 o then TS2 else TS1; o_promote := promote;
     o_format := [Build_entry (ts_ptype (TsParse.o_type o)) (ts_form (TsParse.o_fmt o))] |}.

(* an NPD object with the format vector [fmt] ([] = the default of vnadata_set_format(vdp, NULL)) *)
Definition npd_sobj (fmt : list entry) (o : NpdLoad.nobj) : sobj :=
  {| o_type := NpdLoad.b_type o; o_rows := Z.to_nat (NpdLoad.b_rows o); o_ports := Z.to_nat (NpdLoad.b_columns o);
     o_freqs := length (NpdLoad.b_freqs o);
     o_per_f_z0 := match NpdLoad.b_fz0 o with Some _ => true | None => false end;
     o_z0_real_pos := true; o_z0_equal := true;            (* not looked at for the NPD file type *)
     o_filetype := NPD; o_promote := false; o_format := fmt |}.
