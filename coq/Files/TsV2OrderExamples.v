(* Concrete version-2 files with shuffled keyword lines, information blocks and a noise block, for the non-vacuity
   Examples of the keyword-order theorems (all checked by computation). *)
Require Import List NArith ZArith QArith Qcanon Bool String Ascii Lia Permutation. Import ListNotations.
Require Import LV.Files.TsTok LV.Files.TsParse LV.Files.TsSpec LV.Files.TsExamples LV.Files.TsV2Order LV.Files.TsV2OrderProofs.
Local Open Scope string_scope.

Definition exg_opts : list ofield := [OFKw OMHz; OFKw OS; OFKw ORI; OFR (numd "50")].
Definition exg_records : list (num * list num) :=
  [(numd "100", map numd ["0.5"; "0.25"; "0.01"; "-0.02"; "2.5"; "1.5"; "-0.125"; "0.75"]);
   (numd "200", map numd ["0.5"; "0.5"; "0.02"; "-0.03"; "2.25"; "1.25"; "-0.25"; "0.5"])].
Definition exg_noise : list (list num) := [map numd ["100"; "1.1"; "0.5"; "20"; "0.3"]; map numd ["200"; "1.3"; "0.4"; "30"; "0.4"]].
(* order A: frequencies, an information block, matrix format, ports, noise frequencies, reference, two-port order, an open
   information block; order B: the same lines in another order *)
Definition exg_kws_a : list kwline :=
  [KLNFreq (inumd "2"); KLInfo true; KLMatrix MFull; KLPorts (inumd "2"); KLNNoise (inumd "2");
   KLRef [numd "50"; numd "75"]; KLOrder true; KLInfo false].
Definition exg_kws_b : list kwline :=
  [KLInfo false; KLPorts (inumd "2"); KLOrder true; KLInfo true; KLRef [numd "50"; numd "75"]; KLNNoise (inumd "2");
   KLNFreq (inumd "2"); KLMatrix MFull].
(* rejected: [Reference] before [Number of Ports] *)
Definition exg_kws_bad : list kwline :=
  [KLNFreq (inumd "2"); KLRef [numd "50"; numd "75"]; KLPorts (inumd "2"); KLOrder true; KLNNoise (inumd "2"); KLMatrix MFull].
Definition exg_a : v2gfile := mkv2g true exg_opts exg_kws_a exg_records exg_noise true.
Definition exg_b : v2gfile := mkv2g true exg_opts exg_kws_b exg_records exg_noise false.
Definition hdr_of (f : v2gfile) : hdr := match q_hdr f with Some h => h | None => hdr0 true end.

Definition exg_a_bytes : list N := file_of
  ["[Version] 2.0"; "# MHz S RI R 50"; "[Number of Frequencies] 2"; "[Begin Information]"; "[End Information]";
   "[Matrix Format] Full"; "[Number of Ports] 2"; "[Number of Noise Frequencies] 2"; "[Reference] 50 75";
   "[Two-Port Order] 21_12"; "[Begin Information]"; "[Network Data]";
   "100 0.5 0.25 0.01 -0.02 2.5 1.5 -0.125 0.75"; "200 0.5 0.5 0.02 -0.03 2.25 1.25 -0.25 0.5";
   "[Noise Data]"; "100 1.1 0.5 20 0.3"; "200 1.3 0.4 30 0.4"; "[End]"].

(* a "[Version] 1.0" file that carries version-2 keywords (Z parameters, R 50): read by the version-2 reader, un-normalised *)
Definition exh_opts : list ofield := [OFKw OHz; OFKw OZ; OFKw ORI; OFR (numd "50")].
Definition exh_kws : list kwline := [KLNFreq (inumd "1"); KLPorts (inumd "1")].
Definition exh : v2gfile := mkv2g false exh_opts exh_kws [(numd "1000", map numd ["1.5"; "-0.5"])] [] true.
Definition exh_bytes : list N := file_of
  ["[Version] 1.0"; "# Hz Z RI R 50"; "[Number of Frequencies] 1"; "[Number of Ports] 1"; "[Network Data]"; "1000 1.5 -0.5"; "[End]"].

Local Close Scope string_scope.

Ltac kwok_steps :=
  cbn [kws_ok];
  repeat match goal with
         | |- _ /\ _ => split
         | |- True => exact I
         | |- kwline_ok _ _ => cbn [kwline_ok]; try exact I; try (vm_compute; reflexivity)
         | |- match kw_step ?h ?k with _ => _ end =>
             let x := eval vm_compute in (kw_step h k) in
             replace (kw_step h k) with x by (vm_compute; reflexivity); cbv iota
         | |- _ -> _ -> _ => intros _ _
         | |- Forall _ _ => repeat constructor; vm_compute; reflexivity
         | |- _ = _ => vm_compute; reflexivity
         end.

Lemma exg_a_wf : v2g_wf (hdr_of exg_a) exg_a.
Proof.
  unfold v2g_wf. cbn [exg_a q_v2 q_opts q_kws q_records q_noise q_end].
  split; [unfold exg_opts; wf_steps |].
  split; [unfold exg_kws_a; kwok_steps |].
  split; [vm_compute; reflexivity |].
  split; [vm_compute; split; discriminate |].
  split; [vm_compute; split; [discriminate | reflexivity] |].
  split; [vm_compute; reflexivity |].
  split; [unfold exg_records; cbn [map]; wf_steps |].
  split; [apply ascendingb_sound; vm_compute; reflexivity |].
  replace (0 <=? h_nnoise (hdr_of exg_a))%Z with true by (vm_compute; reflexivity).
  split; [vm_compute; reflexivity |]. unfold exg_noise. cbn [map noise_ok]. wf_steps.
Qed.

Lemma exg_b_wf : v2g_wf (hdr_of exg_b) exg_b.
Proof.
  unfold v2g_wf. cbn [exg_b q_v2 q_opts q_kws q_records q_noise q_end].
  split; [unfold exg_opts; wf_steps |].
  split; [unfold exg_kws_b; kwok_steps |].
  split; [vm_compute; reflexivity |].
  split; [vm_compute; split; discriminate |].
  split; [vm_compute; split; [discriminate | reflexivity] |].
  split; [vm_compute; reflexivity |].
  split; [unfold exg_records; cbn [map]; wf_steps |].
  split; [apply ascendingb_sound; vm_compute; reflexivity |].
  replace (0 <=? h_nnoise (hdr_of exg_b))%Z with true by (vm_compute; reflexivity).
  split; [vm_compute; reflexivity |]. unfold exg_noise. cbn [map noise_ok]. wf_steps.
Qed.

Lemma exg_perm : Permutation exg_kws_a exg_kws_b /\ NoDup (map kw_kind (filter not_info exg_kws_a)).
Proof.
  split.
  - apply NoDup_Permutation.
    + unfold exg_kws_a. repeat constructor; cbn [In]; intuition discriminate.
    + unfold exg_kws_b. repeat constructor; cbn [In]; intuition discriminate.
    + intros x. unfold exg_kws_a, exg_kws_b. cbn [In]. intuition.
  - vm_compute. repeat constructor; cbn; intuition discriminate.
Qed.

Lemma exg_rejected : kws_run (opts_hdr true exg_opts) exg_kws_bad = None /\ Permutation (filter not_info exg_kws_a) exg_kws_bad.
Proof.
  split; [vm_compute; reflexivity |]. apply NoDup_Permutation.
  - vm_compute. repeat constructor; cbn [In]; intuition discriminate.
  - unfold exg_kws_bad. repeat constructor; cbn [In]; intuition discriminate.
  - intros x. unfold exg_kws_a, exg_kws_bad. cbn [filter not_info In]. intuition.
Qed.

Lemma exg_a_stream : tokens exg_a_bytes = v2g_stream (hdr_of exg_a) exg_a.
Proof. vm_compute. reflexivity. Qed.

(* the file loads; the object: S, RI, 2 ports, 100 and 200 MHz, reference 50 and 75 ohm, 21_12 order undone *)
Lemma exg_a_object :
  match load_ts exg_a_bytes with
  | Ok o => o = v2g_result (hdr_of exg_a) exg_a /\ o_ports o = 2%nat /\
            xsview (o_freqs o) = [inl (100000000 # 1); inl (200000000 # 1)] /\
            xsview (o_z0 o) = [inl (50 # 1); inl (75 # 1)] /\
            cview (nth 1 (nth 0 (o_cells o) []) cell0) = (inl (5 # 2), inl (3 # 2), inl (1 # 1)) /\
            cview (nth 2 (nth 0 (o_cells o) []) cell0) = (inl (1 # 100), inl (-1 # 50), inl (1 # 1))
  | Error _ => False
  end.
Proof.
  unfold load_ts. rewrite exg_a_stream, (v2g_load_lemma _ _ exg_a_wf). split; [reflexivity |].
  vm_compute. repeat split; reflexivity.
Qed.

Lemma exh_wf : v2g_wf (hdr_of exh) exh.
Proof.
  unfold v2g_wf. cbn [exh q_v2 q_opts q_kws q_records q_noise q_end].
  split; [unfold exh_opts; wf_steps |].
  split; [unfold exh_kws; kwok_steps |].
  split; [vm_compute; reflexivity |].
  split; [vm_compute; split; discriminate |].
  split; [vm_compute; split; [discriminate | intro H; exfalso; apply H; reflexivity] |].
  split; [vm_compute; reflexivity |].
  split; [cbn [map]; wf_steps |].
  split; [apply ascendingb_sound; vm_compute; reflexivity |].
  replace (0 <=? h_nnoise (hdr_of exh))%Z with false by (vm_compute; reflexivity). reflexivity.
Qed.
Lemma exh_stream : tokens exh_bytes = v2g_stream (hdr_of exh) exh.
Proof. vm_compute. reflexivity. Qed.
(* file type Touchstone 1, Z parameters, the cell 1.5 - 0.5 i un-normalised by R = 50 to 75 - 25 i *)
Definition exh_object_stmt : Prop :=
  match load_ts exh_bytes with
  | Ok o => o = v2g_result (hdr_of exh) exh /\ o_v2 o = false /\ o_type o = PZ /\ o_ports o = 1%nat /\
            cview (nth 0 (nth 0 (o_cells o) []) cell0) = (inl (75 # 1), inl (-25 # 1), inl (1 # 1))
  | Error _ => False
  end.
Lemma exh_object : exh_object_stmt.
Proof.
  unfold exh_object_stmt, load_ts. rewrite exh_stream, (v2g_load_lemma _ _ exh_wf). split; [reflexivity |].
  vm_compute. repeat split; reflexivity.
Qed.
