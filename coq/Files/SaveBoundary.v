(* The boundary of C06's Touchstone load theorems (premise freqs_readable), known finding DA91: the saver accepts and
   writes objects whose frequencies do not read back strictly ascending - two frequencies that print as the same text at
   fprecision, descending frequencies - and the Touchstone loader model refuses the file ("frequencies must be in
   increasing order", EBADMSG).  Closed witnesses on a toy number type: a binary64 is one of six named values whose
   texts are fixed decimal strings (V1a and V1b are different values that print alike, as 1.00000001e9 and
   1.00000002e9 do at seven digits). *)
Require Import List NArith ZArith QArith Qcanon Bool. Import ListNotations.
Require Import LV.Files.TsTok LV.Files.TsParse.
Require Import LV.Files.NpdScan LV.Files.SaveModel LV.Files.SaveEmit.

Inductive tv := V0 | V1a | V1b | V2 | V50 | VHalf.
Definition tv_text (x : tv) : list N :=
  match x with
  | V0 => [48] | V1a => [49] | V1b => [49] | V2 => [50] | V50 => [53;48] | VHalf => [48;46;53]
  end%N.
Definition tv_val (x : tv) : xnum :=
  match x with
  | V0 => XQ (Q2Qc 0) | V1a => XQ (Q2Qc 1) | V1b => XQ (Q2Qc (1000001 # 1000000)) | V2 => XQ (Q2Qc 2)
  | V50 => XQ (Q2Qc 50) | VHalf => XQ (Q2Qc (1 # 2))
  end.
Definition tv_itext (z : Z) : list N := match z with 1%Z => [49] | 2%Z => [50] | 3%Z => [51] | _ => [48] end%N.
Definition Etv : env tv :=
  mkenv V0 V1a V0 tv_val (fun _ _ x => tv_text x) (fun _ _ x => tv_text x) tv_itext
        (fun v => fst v) (fun v => snd v) (fun v => fst v) (fun v => fst v) (fun v => fst v) (fun _ _ v => v)
        (fun _ _ _ m => m).

(* a one-port S object at two frequencies *)
Definition one_port (f1 f2 : tv) : mobj tv :=
  mkmobj PS 1 1 [f1; f2] [(V50, V0)] None [[(VHalf, V0)]; [(VHalf, V0)]] 7 6.

Definition saved_stream (o : mobj tv) (ft : filetype) : list rtok :=
  match save_emit Etv o ft false [] with STouchstone st => st | SNpd _ => [] end.

(* accepted by the checks, written, refused by the loader: same text at fprecision / descending; both file versions *)
Lemma unreadable_frequencies_witnesses :
  cksave (sobj_of Etv (one_port V1a V1b) TS2 false []) = true /\ parse (saved_stream (one_port V1a V1b) TS2) = Error EBADMSG /\
  cksave (sobj_of Etv (one_port V1a V1b) TS1 false []) = true /\ parse (saved_stream (one_port V1a V1b) TS1) = Error EBADMSG /\
  cksave (sobj_of Etv (one_port V2 V1a) TS2 false []) = true /\ parse (saved_stream (one_port V2 V1a) TS2) = Error EBADMSG /\
  (* the control: ascending frequencies load *)
  (exists o, parse (saved_stream (one_port V1a V2) TS2) = Ok o).
Proof. repeat split; try (vm_compute; reflexivity). eexists. vm_compute. reflexivity. Qed.
