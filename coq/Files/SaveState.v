(* The settings of a vnadata_t that vnadata_save_common touches (vdi_filetype, the format vector / string) as a
   state: [at_out] = what the code has done to them when it reaches `out:` (file type from the file name, promotion of a
   ".ts" Touchstone 1 object, default format, parameter types of "ri" / "ma" / "dB" filled in), as coded; [restore] = the
   statements fix DA90 adds at `out:` (vdi_filetype = filetype0; vnadata_set_format(format0) when the format was
   touched).  Model only; the theorems are in SaveStateProofs below the definitions would break the rule, so they are in
   Files/SaveStateProofs.v. *)
Require Import List NArith ZArith Bool Arith.
Import ListNotations.
Require Import LV.Files.TsTok LV.Files.NpdScan LV.Files.NpdLoad LV.Files.SaveModel LV.Files.SaveEmit.

Inductive ftset := FAuto | FSet (f : filetype).                 (* vdi_filetype; FAuto = VNADATA_FILETYPE_AUTO *)
Inductive namekind := NAuto | NTs1 | NTs2 | NNpd.              (* _vnadata_parse_filename(filename) *)
Record vset := mkvset { v_ftype : ftset; v_fmt : list entry }.  (* what vnadata_get_filetype / vnadata_get_format show *)

(* the data part of the object, as the acceptance checks see it *)
Record sinfo := mksinfo { i_type : ptype; i_rows : nat; i_ports : nat; i_freqs : nat;
                          i_perf : bool; i_realpos : bool; i_equal : bool }.

(* "Set the file type": the new vdi_filetype and promote_ts2 *)
Definition name_filetype (nk : namekind) (f : ftset) : ftset * bool :=
  match nk, f with
  | NTs2, FSet TS1 => (FSet TS1, true)
  | NTs1, _ => (FSet TS1, false)
  | NTs2, _ => (FSet TS2, false)
  | NNpd, _ => (FSet NPD, false)
  | NAuto, FAuto => (FSet NPD, false)
  | NAuto, f => (f, false)
  end.
Definition to_ft (f : ftset) : filetype := match f with FSet x => x | FAuto => NPD end.
Definition info_sobj (i : sinfo) (ft : filetype) (promote : bool) (fmt : list entry) : sobj :=
  Build_sobj (i_type i) (i_rows i) (i_ports i) (i_freqs i) (i_perf i) (i_realpos i) (i_equal i) ft promote fmt.
(* the Touchstone checks that come before the Touchstone 1 constraints *)
Definition pre_ts_checks (s : sobj) : bool :=
  let l := eff_format s in
  Nat.leb (length l) 1 && forallb (fun e => ts_param (resolve (o_type s) e) && ri_ma_db (e_form e)) (firstn 1 l) &&
  negb (o_per_f_z0 s) && o_z0_real_pos s.
Definition is_undef (e : entry) : bool := match e_par e with PUNDEF => true | _ => false end.

(* settings when the code reaches `out:`, and the flag format_changed of fix DA90; check = vnadata_cksave *)
Definition at_out (check : bool) (i : sinfo) (nk : namekind) (v : vset) : vset * bool :=
  if (match i_type i with PUNDEF => true | _ => false end) || Nat.ltb (i_ports i) 1 || Nat.eqb (i_freqs i) 0 then (v, false)
  else
    let (f1, promote) := name_filetype nk (v_ftype v) in
    let defaulted := match v_fmt v with [] => true | _ => false end in
    let fmt1 := if defaulted then [Build_entry (i_type i) RI] else v_fmt v in
    let s := info_sobj i (to_ft f1) promote fmt1 in
    let promoted := match to_ft f1 with
                    | TS1 => pre_ts_checks s && promote && (Nat.ltb 4 (i_ports i) || negb (i_equal i))
                    | _ => false
                    end in
    let f2 := if promoted then FSet TS2 else f1 in
    if check || negb (filetype_checks s && convertible_check true s) then (mkvset f2 fmt1, defaulted)
    else (mkvset f2 (map (fun e => Build_entry (resolve (i_type i) e) (e_form e)) fmt1), defaulted || existsb is_undef fmt1).

(* fix DA90 at `out:`: filetype0 and format0 were taken on entry *)
Definition restore (v0 : vset) (cur : vset * bool) : vset :=
  mkvset (v_ftype v0)
         (if snd cur then
            match v_fmt v0 with
            | [] => []                                                       (* vnadata_set_format(vdp, NULL) *)
            | l => match set_format (format_string l) with Some l' => l' | None => v_fmt (fst cur) end
            end
          else v_fmt (fst cur)).

(* the settings a call leaves behind: after the fix, and as found *)
Definition settings_after (check : bool) (i : sinfo) (nk : namekind) (v : vset) : vset := restore v (at_out check i nk v).
Definition settings_after_da90 (check : bool) (i : sinfo) (nk : namekind) (v : vset) : vset := fst (at_out check i nk v).
