(* cksave accepts iff save gets past its checks and conversions (model of vnadata_save_common). *)
Require Import List Bool Arith Lia.
Import ListNotations.
Require Import LV.Files.NpdScan LV.Files.SaveModel.

Lemma convert_ok_entry : forall t rows ports p,
  wf_dims t rows ports = true ->
  t <> PUNDEF -> p <> PUNDEF ->
  negb (is_matrix p) || is_matrix t = true ->
  negb (two_port_only p) || Nat.eqb ports 2 = true ->
  convert_ok t rows ports p = true.
Proof.
  intros t rows ports p Hwf Ht Hp Hm H2.
  destruct t; try congruence; destruct p; try congruence;
    cbn in Hm, H2, Hwf |- *; try discriminate; try reflexivity;
    repeat match goal with
           | H : _ && _ = true |- _ => apply andb_true_iff in H; destruct H
           | H : Nat.eqb _ _ = true |- _ => apply Nat.eqb_eq in H
           end; subst; try reflexivity; try (rewrite Nat.eqb_refl; reflexivity).
Qed.

Definition wf_fmt (e : entry) : bool :=
  match e_par e with PUNDEF => ri_ma_db (e_form e) | _ => wf_entry e end.

Lemma resolve_not_undef : forall t e, t <> PUNDEF -> resolve t e <> PUNDEF.
Proof. intros t e Ht. unfold resolve. destruct (e_par e); congruence. Qed.

Lemma norm_steps : forall t rows ports p,
  wf_dims t rows ports = true -> t <> PUNDEF ->
  ts_param p = true -> p <> PUNDEF ->
  negb (is_matrix p) || is_matrix t = true ->
  negb (two_port_only p) || Nat.eqb ports 2 = true ->
  let norm := match t with PT => PT | PU => PU | _ => PS end in
  convert_ok t rows ports norm = true /\ convert_ok norm rows ports p = true.
Proof.
  intros t rows ports p Hwf Ht Hts Hp Hm H2.
  destruct t; try congruence; destruct p; try congruence;
    cbn in Hts, Hm, H2, Hwf |- *; try discriminate;
    repeat match goal with
           | H : _ && _ = true |- _ => apply andb_true_iff in H; destruct H
           | H : Nat.eqb _ _ = true |- _ => apply Nat.eqb_eq in H
           end; subst; split; try reflexivity; try (rewrite Nat.eqb_refl; reflexivity).
Qed.

Lemma cksave_implies_conversions : forall z0_one o,
  wf_obj o = true -> cksave o = true -> save_conversions z0_one o = true.
Proof.
  intros z0_one o Hwf Hck. unfold cksave, cksave_gen in Hck.
  repeat (apply andb_true_iff in Hck; destruct Hck as [Hck ?]).
  assert (Ht : o_type o <> PUNDEF) by (intro E; rewrite E in Hck; discriminate Hck).
  unfold wf_obj in Hwf. unfold convertible_check in *. unfold save_conversions.
  rename H into Hconv. rename H0 into Hft.
  rewrite forallb_forall in Hconv.
  destruct (ts1_kept o && negb z0_one) eqn:Ek.
  - (* Touchstone 1 kept, z0[0] != 1: at most one entry, of a Touchstone parameter type *)
    apply andb_true_iff in Ek. destruct Ek as [Ek _]. unfold ts1_kept in Ek.
    destruct (o_filetype o) eqn:Eft; try discriminate Ek.
    unfold filetype_checks in Hft. rewrite Eft in Hft.
    repeat (apply andb_true_iff in Hft; destruct Hft as [Hft ?]).
    destruct (eff_format o) as [|e [|e' l']] eqn:El; cbn [length] in Hft; try discriminate Hft.
    + exfalso. unfold eff_format in El. destruct (o_format o); discriminate El.
    + match goal with Hf : forallb _ (firstn 1 [e]) = true |- _ =>
        cbn [firstn forallb] in Hf; rewrite andb_true_r in Hf; apply andb_true_iff in Hf; destruct Hf as [Hts _] end.
      specialize (Hconv e (or_introl eq_refl)). cbv zeta in Hconv.
      apply andb_true_iff in Hconv. destruct Hconv as [Hm H2'].
      cbn [negb orb] in H2'.
      destruct (norm_steps (o_type o) (o_rows o) (o_ports o) (resolve (o_type o) e) Hwf Ht Hts
                  (resolve_not_undef _ _ Ht) Hm H2') as [A B].
      cbn [map forallb]. rewrite A, B. reflexivity.
  - (* every other case: conversions from the object's own data *)
    rewrite forallb_forall. intros p Hin. apply in_map_iff in Hin. destruct Hin as (e & <- & Hin).
    specialize (Hconv e Hin). cbv zeta in Hconv. apply andb_true_iff in Hconv. destruct Hconv as [Hm H2'].
    cbn [negb orb] in H2'. apply convert_ok_entry; auto using resolve_not_undef.
Qed.

Lemma cksave_iff_save_lemma : forall z0_one o, wf_obj o = true -> cksave o = save z0_one o.
Proof.
  intros z0_one o Hwf. unfold save, save_gen. fold cksave.
  destruct (cksave o) eqn:E; [|reflexivity].
  now rewrite (cksave_implies_conversions z0_one o Hwf E).
Qed.

(* before fix D32 the check accepted what the conversion then refused: 3x3 S data, format "Hri", NPD *)
Definition d32_witness : sobj :=
  Build_sobj PS 3 3 1 false true true NPD false [Build_entry PH RI].

Lemma cksave_d32_refuted : exists o, wf_obj o = true /\ cksave_d32 o = true /\ forall z0_one, save_d32 z0_one o = false.
Proof. exists d32_witness. split; [reflexivity |]. split; [reflexivity |]. intros []; reflexivity. Qed.

Example cksave_example :
  cksave (Build_sobj PZ 2 2 3 false true true TS1 false [Build_entry PUNDEF RI]) = true /\
  save false (Build_sobj PZ 2 2 3 false true true TS1 false [Build_entry PUNDEF RI]) = true /\
  cksave d32_witness = false.
Proof. repeat split; reflexivity. Qed.
