(* The inverse grammar of the Touchstone parser model: raw token streams of well-formed version-2 and
   version-1 files, built from their abstract content, and the object each must load to.
   Definitions only (no proofs): the statements proved about them are in TsSpecV2.v / TsSpecV1.v.

   A stream is what TsTok.tokens yields for an undecorated file with one item per line (the
   tokenizer theorems of TsTokProofs.v say which decorations leave the stream unchanged); the
   newline tokens are included. *)
Require Import List NArith ZArith QArith Qcanon Bool.
Import ListNotations.
Require Import LV.Files.TsTok LV.Files.TsParse.

(* a number as spelled in the file: its (upper-cased) text and the value strtod gives it *)
Record num := mknum { n_text : list N; n_val : xnum }.
Definition num_ok (n : num) : Prop := parse_double (n_text n) = Some (n_val n).
Record inum := mkinum { i_text : list N; i_val : Z }.
Definition inum_ok (n : inum) : Prop := parse_int (i_text n) = Some (i_val n).
Definition positive_x (x : xnum) : Prop := xlt xq0 x = true.        (* what "R x" and [Reference] accept: x > 0.0 (fix DB93) *)

(* ---- the option line ------------------------------------------------------------------------ *)
Inductive ofield := OFKw (o : opkw) | OFR (n : num).
Inductive okind := KUnit | KType | KFmt | KR.
Definition okind_of (f : ofield) : okind :=
  match f with
  | OFKw (OHz | OKHz | OMHz | OGHz | OTHz) => KUnit
  | OFKw (OS | OY | OZ | OH | OG) => KType
  | OFKw (ODB | OMA | ORI) => KFmt
  | OFKw OR => KR                                      (* excluded by ofield_ok *)
  | OFR _ => KR
  end.
Definition ofield_ok (f : ofield) : Prop :=
  match f with
  | OFKw OR => False
  | OFKw _ => True
  | OFR n => num_ok n /\ positive_x (n_val n)
  end.
Definition render_ofield (f : ofield) : list rtok :=
  match f with
  | OFKw o => [RWord (opkw_text o) true]
  | OFR n => [RWord (opkw_text OR) true; RWord (n_text n) true]
  end.
Definition render_opts (fs : list ofield) : list rtok := flat_map render_ofield fs.
Definition apply_ofield (h : hdr) (f : ofield) : hdr :=
  match f with
  | OFKw o => apply_op h o
  | OFR n => set_z0 h (n_val n)
  end.
Definition opts_hdr (v2 : bool) (fs : list ofield) : hdr := fold_left apply_ofield fs (hdr0 v2).
(* a field that spells the default value *)
Definition is_default (f : ofield) : Prop :=
  match f with
  | OFKw OGHz | OFKw OS | OFKw OMA => True
  | OFR n => n_val n = XQ (qcz 50)
  | _ => False
  end.

Definition wnum (n : num) : rtok := RWord (n_text n) false.
Definition nl : rtok := RNl false.

(* ---- version 2 ------------------------------------------------------------------------------ *)
Record v2file := mkv2file {
  f_opts : list ofield;
  f_ports : inum;
  f_order : option bool;                       (* [Two-Port Order]: Some true = 21_12 *)
  f_nfreq : inum;
  f_matrix : option mfmt;                      (* None: no [Matrix Format] line *)
  f_ref : option (list num);                   (* [Reference] *)
  f_records : list (num * list num);           (* frequency, then the values of its pairs in file order *)
  f_end : bool }.                              (* [End] present *)

Definition mfmt_text (m : mfmt) : list N :=
  match m with MFull => txt_full | MUpper => txt_upper | MLower => txt_lower end.
Definition f_mf (f : v2file) : mfmt := match f_matrix f with Some m => m | None => MFull end.
Definition f_n (f : v2file) : nat := Z.to_nat (i_val (f_ports f)).
Definition f_pairs (f : v2file) : nat :=
  match f_mf f with MFull => f_n f * f_n f | _ => f_n f * (f_n f + 1) / 2 end.

Definition v2_stream (f : v2file) : list rtok :=
  [RKw KVersion; RWord txt_2_0 false; nl; ROption] ++ render_opts (f_opts f) ++ [RNl true] ++
  [RKw KNumberOfPorts; RWord (i_text (f_ports f)) false; nl] ++
  match f_order f with
  | Some o => [RKw KTwoPortOrder; RWord (if o then txt_21_12 else txt_12_21) false; nl]
  | None => []
  end ++
  [RKw KNumberOfFrequencies; RWord (i_text (f_nfreq f)) false; nl] ++
  match f_matrix f with Some m => [RKw KMatrixFormat; RWord (mfmt_text m) false; nl] | None => [] end ++
  match f_ref f with Some l => RKw KReference :: map wnum l ++ [nl] | None => [] end ++
  [RKw KNetworkData; nl] ++
  flat_map (fun r => wnum (fst r) :: map wnum (snd r) ++ [nl]) (f_records f) ++
  (if f_end f then [RKw KEnd; nl] else []) ++ [REof].

Definition ascending (l : list xnum) : Prop :=
  forall i a b, nth_error l i = Some a -> nth_error l (S i) = Some b -> xle b a = false.

Definition v2_freqs (f : v2file) : list xnum :=
  map (fun r => xmul (XQ (h_mult (opts_hdr true (f_opts f)))) (n_val (fst r))) (f_records f).

Definition v2_wf (f : v2file) : Prop :=
  Forall ofield_ok (f_opts f) /\
  inum_ok (f_ports f) /\ (0 <= i_val (f_ports f) <= 46340)%Z /\
  ((i_val (f_ports f) = 2)%Z <-> f_order f <> None) /\
  (is_hg (h_type (opts_hdr true (f_opts f))) = true -> (i_val (f_ports f) = 2)%Z) /\
  inum_ok (f_nfreq f) /\ i_val (f_nfreq f) = Z.of_nat (length (f_records f)) /\
  match f_ref f with
  | Some l => length l = f_n f /\ Forall (fun n => num_ok n /\ positive_x (n_val n)) l
  | None => True
  end /\
  Forall (fun r => num_ok (fst r) /\ xlt (n_val (fst r)) xq0 = false /\ Forall num_ok (snd r) /\
                   length (snd r) = (2 * f_pairs f)%nat) (f_records f) /\
  ascending (v2_freqs f).

Definition v2_result (f : v2file) : tsobj :=
  let h := opts_hdr true (f_opts f) in
  mkobj true (h_type h) (h_fmt h) (f_n f) (v2_freqs f)
        (match f_ref f with Some l => map n_val l | None => repeat (h_z0 h) (f_n f) end)
        (map (fun r => build_matrix (f_mf f) (match f_order f with Some true => true | _ => false end) (f_n f)
                                    (map n_val (snd r))) (f_records f)).

(* ---- version 1 ------------------------------------------------------------------------------ *)
Record v1file := mkv1file {
  g_opts : list ofield;
  g_ports : nat;                               (* 1 .. 4 *)
  g_records : list (num * list num);           (* frequency, then 2 * ports * ports values in file order *)
  g_noise : list (list num) }.                 (* noise lines of five values (2-port files) *)

Fixpoint chunks {A} (k : nat) (n : nat) (l : list A) : list (list A) :=   (* n chunks of k elements *)
  match n with
  | O => []
  | S n' => firstn k l :: chunks k n' (skipn k l)
  end.
(* the data lines of one frequency: a 2-port matrix on one line, otherwise one row per line *)
Definition v1_record_lines (n : nat) (r : num * list num) : list rtok :=
  if (n =? 2)%nat then wnum (fst r) :: map wnum (snd r) ++ [nl]
  else
    match chunks (2 * n) n (snd r) with
    | row0 :: rows => (wnum (fst r) :: map wnum row0 ++ [nl]) ++ flat_map (fun row => map wnum row ++ [nl]) rows
    | [] => []
    end.
Definition v1_stream (g : v1file) : list rtok :=
  [ROption] ++ render_opts (g_opts g) ++ [RNl true] ++
  flat_map (v1_record_lines (g_ports g)) (g_records g) ++
  flat_map (fun l => map wnum l ++ [nl]) (g_noise g) ++ [REof].

Definition v1_freqs (g : v1file) : list xnum :=
  map (fun r => xmul (XQ (h_mult (opts_hdr false (g_opts g)))) (n_val (fst r))) (g_records g).

Definition v1_wf (g : v1file) : Prop :=
  Forall ofield_ok (g_opts g) /\
  (1 <= g_ports g <= 4)%nat /\
  (is_hg (h_type (opts_hdr false (g_opts g))) = true -> g_ports g = 2%nat) /\
  g_records g <> [] /\
  Forall (fun r => num_ok (fst r) /\ xlt (n_val (fst r)) xq0 = false /\ Forall num_ok (snd r) /\
                   length (snd r) = (2 * g_ports g * g_ports g)%nat) (g_records g) /\
  ascending (v1_freqs g) /\
  (g_noise g <> [] -> g_ports g = 2%nat) /\
  Forall (fun l => Forall num_ok l /\ length l = 5%nat) (g_noise g).

(* cells in the order the loader stores them: a 2-port line is N11 N21 N12 N22 *)
Definition v1_cells (n : nat) (vals : list xnum) : list cell :=
  match n, pairs_of vals with
  | 2%nat, [p0; p1; p2; p3] => [p0; p2; p1; p3]
  | _, ps => ps
  end.
Definition v1_result (g : v1file) : tsobj :=
  let h := opts_hdr false (g_opts g) in
  mkobj false (h_type h) (h_fmt h) (g_ports g) (v1_freqs g) (repeat (h_z0 h) (g_ports g))
        (map (fun r => unnormalise h (v1_cells (g_ports g) (map n_val (snd r)))) (g_records g)).

(* two objects hold the same network data (the file type, Touchstone 1 or 2, aside) *)
Definition same_data (a b : tsobj) : Prop :=
  o_type a = o_type b /\ o_fmt a = o_fmt b /\ o_ports a = o_ports b /\ o_freqs a = o_freqs b /\
  o_z0 a = o_z0 b /\ o_cells a = o_cells b.
