(* Model of the Touchstone parser _vnadata_load_touchstone / load_touchstone1 / parse_data_line /
   parse_value_pair of vnadata_load_touchstone.c as coded, over the raw token stream of TsTok.v.
   No proofs in this file.

   The parser is an automaton [pstep] over raw tokens.  A state is a program point at which the C code
   is about to call next_token(flags) together with the values of its variables; [flags_of] gives the
   flags of that call; [on_tok s t] is everything the C code does with the returned token t up to the
   next call of next_token (or up to its return).  Where the C code examines the current token again
   without reading a new one (e.g. the keyword loop falling through to the data reader) the model
   delegates within the same step.  A raw newline that next_token(flags) skips leaves the state
   unchanged.  The result is read off the state reached at the end of the stream ([pfinish]).

   Numbers are exact rationals, infinities and NaN ([xnum]); C's comparisons and the multiplications /
   divisions by the frequency multiplier and by R are done on those (no rounding).  A cell keeps the
   pair as written for MA and DB (the transcendental conversion is left to the reader of the model's
   output); the un-normalisation of a version-1 Z/Y/H/G file is applied to the real and imaginary
   part (RI), to the magnitude (MA) or recorded as a factor (DB).

   Not modelled: allocation failure (ENOMEM), the message texts, warnings, the line counter. *)
Require Import List NArith ZArith QArith Qcanon Bool.
Import ListNotations.
Require Import LV.Files.TsTok.
Open Scope Z_scope.

(* ---- arithmetic on xnum ------------------------------------------------------------------------ *)
Definition qcz (z : Z) : Qc := Q2Qc (inject_Z z).
Definition xq0 : xnum := XQ (qcz 0).
Definition xq1 : xnum := XQ (qcz 1).
Definition qc_is0 (q : Qc) : bool := Qeq_bool q 0.
Definition qc_neg (q : Qc) : bool := (Qnum (this q) <? 0)%Z.

Definition xmul (a b : xnum) : xnum :=
  match a, b with
  | XNaN, _ => XNaN
  | _, XNaN => XNaN
  | XInf s, XInf t => XInf (xorb s t)
  | XInf s, XQ q => if qc_is0 q then XNaN else XInf (xorb s (qc_neg q))
  | XQ q, XInf s => if qc_is0 q then XNaN else XInf (xorb s (qc_neg q))
  | XQ p, XQ q => XQ (p * q)%Qc
  end.
Definition xdiv (a b : xnum) : xnum :=
  match a, b with
  | XNaN, _ => XNaN
  | _, XNaN => XNaN
  | XInf _, XInf _ => XNaN
  | XInf s, XQ q => XInf (xorb s (qc_neg q))
  | XQ _, XInf _ => xq0
  | XQ p, XQ q => if qc_is0 q then (if qc_is0 p then XNaN else XInf (qc_neg p)) else XQ (p / q)%Qc
  end.
(* a <= b and a < b as C compares doubles: false when either is a NaN *)
Definition xle (a b : xnum) : bool :=
  match a, b with
  | XNaN, _ => false
  | _, XNaN => false
  | XInf true, _ => true
  | XInf false, XInf false => true
  | XInf false, _ => false
  | XQ _, XInf s => negb s
  | XQ p, XQ q => Qle_bool p q
  end.
Definition xlt (a b : xnum) : bool :=
  match a, b with
  | XNaN, _ => false
  | _, XNaN => false
  | XInf true, XInf true => false
  | XInf true, _ => true
  | XInf false, _ => false
  | XQ _, XInf s => negb s
  | XQ p, XQ q => negb (Qle_bool q p)
  end.

(* ---- parser variables --------------------------------------------------------------------------- *)
Inductive ptype := PS | PY | PZ | PH | PG.
Inductive dfmt := FDB | FMA | FRI.
Inductive mfmt := MFull | MUpper | MLower.
Inductive eclass := EBADMSG | ENOPROTOOPT | EINVAL | EINTERNAL.

Record hdr := mkhdr {
  h_v2 : bool;                 (* version == 2 *)
  h_mult : Qc;                 (* tps_frequency_multiplier *)
  h_type : ptype;              (* tps_parameter_type *)
  h_fmt : dfmt;                (* tps_data_format *)
  h_z0 : xnum;                 (* tps_z0 *)
  h_ports : Z;                 (* tps_ports, -1 = not given *)
  h_order : option bool;       (* two_port_order: Some false = 12_21, Some true = 21_12 *)
  h_nfreq : Z;                 (* number_of_frequencies, -1 = not given (any int can be given, as coded) *)
  h_nnoise : Z;                (* number_of_noise_frequencies, -1 = not given *)
  h_matrix : mfmt;
  h_ref : option (list xnum) }.

Definition hdr0 (v2 : bool) : hdr :=
  mkhdr v2 (qcz 1000000000) PS FMA (XQ (qcz 50)) (-1) None (-1) (-1) MFull None.
Definition set_mult h m := mkhdr (h_v2 h) m (h_type h) (h_fmt h) (h_z0 h) (h_ports h) (h_order h) (h_nfreq h) (h_nnoise h) (h_matrix h) (h_ref h).
Definition set_type h t := mkhdr (h_v2 h) (h_mult h) t (h_fmt h) (h_z0 h) (h_ports h) (h_order h) (h_nfreq h) (h_nnoise h) (h_matrix h) (h_ref h).
Definition set_fmt h f := mkhdr (h_v2 h) (h_mult h) (h_type h) f (h_z0 h) (h_ports h) (h_order h) (h_nfreq h) (h_nnoise h) (h_matrix h) (h_ref h).
Definition set_z0 h z := mkhdr (h_v2 h) (h_mult h) (h_type h) (h_fmt h) z (h_ports h) (h_order h) (h_nfreq h) (h_nnoise h) (h_matrix h) (h_ref h).
Definition set_ports h p := mkhdr (h_v2 h) (h_mult h) (h_type h) (h_fmt h) (h_z0 h) p (h_order h) (h_nfreq h) (h_nnoise h) (h_matrix h) (h_ref h).
Definition set_order h o := mkhdr (h_v2 h) (h_mult h) (h_type h) (h_fmt h) (h_z0 h) (h_ports h) o (h_nfreq h) (h_nnoise h) (h_matrix h) (h_ref h).
Definition set_nfreq h n := mkhdr (h_v2 h) (h_mult h) (h_type h) (h_fmt h) (h_z0 h) (h_ports h) (h_order h) n (h_nnoise h) (h_matrix h) (h_ref h).
Definition set_nnoise h n := mkhdr (h_v2 h) (h_mult h) (h_type h) (h_fmt h) (h_z0 h) (h_ports h) (h_order h) (h_nfreq h) n (h_matrix h) (h_ref h).
Definition set_matrix h m := mkhdr (h_v2 h) (h_mult h) (h_type h) (h_fmt h) (h_z0 h) (h_ports h) (h_order h) (h_nfreq h) (h_nnoise h) m (h_ref h).
Definition set_ref h r := mkhdr (h_v2 h) (h_mult h) (h_type h) (h_fmt h) (h_z0 h) (h_ports h) (h_order h) (h_nfreq h) (h_nnoise h) (h_matrix h) r.

Definition apply_op (h : hdr) (o : opkw) : hdr :=
  match o with
  | OHz => set_mult h (qcz 1)
  | OKHz => set_mult h (qcz 1000)
  | OMHz => set_mult h (qcz 1000000)
  | OGHz => set_mult h (qcz 1000000000)
  | OTHz => set_mult h (qcz 1000000000000)
  | OS => set_type h PS | OY => set_type h PY | OZ => set_type h PZ | OH => set_type h PH | OG => set_type h PG
  | ODB => set_fmt h FDB | OMA => set_fmt h FMA | ORI => set_fmt h FRI
  | OR => h
  end.

(* ---- the loaded object -------------------------------------------------------------------------- *)
(* value of a cell = conv fmt (c_a, c_b) * c_scale with conv RI (a,b) = a + ib, conv MA (m,d) = m cexp(i pi d/180),
   conv DB (x,d) = 10^(x/20) cexp(i pi d/180) *)
Record cell := mkcell { c_a : xnum; c_b : xnum; c_scale : xnum }.
Record tsobj := mkobj {
  o_v2 : bool;                 (* vdi_filetype: Touchstone 2 / Touchstone 1 *)
  o_type : ptype;
  o_fmt : dfmt;
  o_ports : nat;
  o_freqs : list xnum;         (* in Hz *)
  o_z0 : list xnum;            (* one (real) reference impedance per port *)
  o_cells : list (list cell) } (* per frequency, row major, ports * ports cells *).

Definition scale_cell (f : dfmt) (op : xnum -> xnum -> xnum) (z0 : xnum) (c : cell) : cell :=
  match f with
  | FRI => mkcell (op (c_a c) z0) (op (c_b c) z0) (c_scale c)
  | FMA => mkcell (op (c_a c) z0) (c_b c) (c_scale c)
  | FDB => mkcell (c_a c) (c_b c) (op (c_scale c) z0)
  end.
Fixpoint map_index {A} (f : nat -> A -> A) (i : nat) (l : list A) : list A :=
  match l with
  | [] => []
  | x :: r => f i x :: map_index f (S i) r
  end.
(* "If V1, unnormalize the data" *)
Definition unnormalise (h : hdr) (m : list cell) : list cell :=
  let f := h_fmt h in
  let z := h_z0 h in
  match h_type h with
  | PS => m
  | PZ => map (scale_cell f xmul z) m
  | PY => map (scale_cell f xdiv z) m
  | PH => map_index (fun i c => match i with O => scale_cell f xmul z c | 3%nat => scale_cell f xdiv z c | _ => c end) 0 m
  | PG => map_index (fun i c => match i with O => scale_cell f xdiv z c | 3%nat => scale_cell f xmul z c | _ => c end) 0 m
  end.
Definition finalize (h : hdr) (o : tsobj) : tsobj :=
  if h_v2 h then o
  else mkobj (o_v2 o) (o_type o) (o_fmt o) (o_ports o) (o_freqs o) (o_z0 o) (map (unnormalise h) (o_cells o)).

Fixpoint pairs_of (l : list xnum) : list cell :=
  match l with
  | a :: b :: r => mkcell a b xq1 :: pairs_of r
  | _ => []
  end.

(* position in the file's order of the pair that ends up in cell (r, c) of an n x n matrix *)
Fixpoint upper_off (n i : nat) : nat := match i with O => O | S k => (upper_off n k + (n - k))%nat end.
Definition pair_index (mf : mfmt) (transpose : bool) (n r c : nat) : nat :=
  match mf with
  | MFull => if transpose then (c * n + r)%nat else (r * n + c)%nat
  | MUpper => let i := Nat.min r c in let j := Nat.max r c in (upper_off n i + (j - i))%nat
  | MLower => let i := Nat.max r c in let j := Nat.min r c in (i * (i + 1) / 2 + j)%nat
  end.
Definition cell0 : cell := mkcell xq0 xq0 xq1.
Definition build_matrix (mf : mfmt) (transpose : bool) (n : nat) (vals : list xnum) : list cell :=
  let ps := pairs_of vals in
  flat_map (fun r => map (fun c => nth (pair_index mf transpose n r c) ps cell0) (seq 0 n)) (seq 0 n).

(* ---- automaton states --------------------------------------------------------------------------- *)
Inductive argkind := APorts | AOrder | ANFreq | ANNoise | AMatrix.

Record v2st := mkv2 {
  d_left : N;                  (* frequencies still to read, the current one included *)
  d_need : nat;                (* numbers per frequency: 1 + 2 * expected_pairs *)
  d_togo : nat;                (* numbers of the current frequency still to read *)
  d_cur : list xnum;           (* values of the current frequency read so far, reversed *)
  d_freqs : list xnum;         (* reversed *)
  d_mats : list (list cell) }. (* reversed *)

Record v1st := mkv1 {
  v_first : bool;              (* the first data line has not been seen: ports unknown *)
  v_ports : nat;
  v_maybe4 : bool;
  v_row : nat;                 (* row of the current matrix expected next; 0: a new frequency *)
  v_noise : bool;              (* reading (and discarding) noise lines *)
  v_freqs : list xnum;         (* reversed *)
  v_mats : list (list cell) }. (* reversed; the head is the matrix being filled when v_row > 0 *)

Inductive pst :=
  | SStart
  | SVersionArg
  | SWantOption (v2 : bool)
  | SOpt (h : hdr)
  | SOptR (h : hdr)
  | SBody (h : hdr)
  | SArg (h : hdr) (a : argkind)
  | SRef (h : hdr) (left : nat) (acc : list xnum)
  | SInfo (h : hdr)
  | SV2 (h : hdr) (d : v2st)
  | SNoise (h : hdr) (o : tsobj) (left : N) (j : nat) (fprev : option xnum)
  | SEof (h : hdr) (o : tsobj)
  | SV1Wait (h : hdr) (v : v1st)
  | SV1Line (h : hdr) (v : v1st) (acc : list xnum)
  | SDone (o : tsobj)
  | SErr (c : eclass)
  | SLate (c : eclass).       (* refused with class c, but only after the next token has been read (next_token(F_NONE)) *)

Definition flags_of (s : pst) : flags :=
  match s with
  | SVersionArg => F_NOCONV
  | SArg _ APorts | SArg _ ANFreq | SArg _ ANNoise => F_INT
  | SArg _ AOrder | SArg _ AMatrix => F_NOCONV
  | SV1Line _ _ _ => F_EOL
  | _ => F_NONE
  end.

Definition err : pst := SErr EBADMSG.

Definition txt_2_0 : list N := [50;46;48]%N.
Definition txt_1_0 : list N := [49;46;48]%N.
Definition txt_12_21 : list N := [49;50;95;50;49]%N.
Definition txt_21_12 : list N := [50;49;95;49;50]%N.
Definition txt_full : list N := [70;85;76;76]%N.
Definition txt_upper : list N := [85;80;80;69;82]%N.
Definition txt_lower : list N := [76;79;87;69;82]%N.

Definition z0_list (h : hdr) (n : nat) : list xnum :=
  match h_ref h with
  | Some l => l
  | None => repeat (h_z0 h) n
  end.

(* ---- end of the file -------------------------------------------------------------------------------- *)
Definition eof_tok (h : hdr) (o : tsobj) (t : token) : pst :=
  match t with TEof => SDone (finalize h o) | _ => err end.
Definition end_tok (h : hdr) (o : tsobj) (t : token) : pst :=
  match t with TKw KEnd => SEof h o | _ => eof_tok h o t end.

(* "Parse and discard noise data" of the version-2 reader *)
Definition noise_tok (h : hdr) (o : tsobj) (left : N) (j : nat) (fprev : option xnum) (t : token) : pst :=
  if (left =? 0)%N then end_tok h o t
  else
    let k := N.pred left in
    match t with
    | TDouble x =>
      match j with
      | O => if xlt x xq0 then err
             else if match fprev with Some p => xlt x p | None => false end then err
             else SNoise h o left 1 (Some x)
      | S (S (S (S _))) => SNoise h o k 0 fprev
      | S j' => SNoise h o left (S (S j')) fprev
      end
    | _ => err
    end.
Definition after_data_tok (h : hdr) (o : tsobj) (t : token) : pst :=
  if 0 <=? h_nnoise h then
    match t with TKw KNoiseData => SNoise h o (Z.to_N (h_nnoise h)) 0 None | _ => err end
  else end_tok h o t.

(* ---- version 2 network data ----------------------------------------------------------------------- *)
Definition v2_obj (h : hdr) (d : v2st) : tsobj :=
  let n := Z.to_nat (h_ports h) in
  mkobj (h_v2 h) (h_type h) (h_fmt h) n (rev (d_freqs d)) (z0_list h n) (rev (d_mats d)).
Definition v2_transpose (h : hdr) : bool := match h_order h with Some true => true | _ => false end.
Definition v2_complete (h : hdr) (d : v2st) (cur : list xnum) (k : N) : v2st :=
  (* cur (reversed) holds the frequency and all the pairs of one frequency *)
  let vals := tl (rev cur) in
  mkv2 k (d_need d) (d_need d) [] (d_freqs d)
       (build_matrix (h_matrix h) (v2_transpose h) (Z.to_nat (h_ports h)) vals :: d_mats d).
Definition v2_tok (h : hdr) (d : v2st) (t : token) : pst :=
  if (d_left d =? 0)%N then after_data_tok h (v2_obj h d) t
  else
    let k := N.pred (d_left d) in
    match t with
    | TDouble x =>
      match d_cur d with
      | [] =>                                             (* the frequency *)
        let f := xmul (XQ (h_mult h)) x in
        if xlt x xq0 then err                               (* "frequency cannot be negative" (fix DF13) *)
        else if match d_freqs d with prev :: _ => xle f prev | [] => false end then err
        else
          let d' := mkv2 (d_left d) (d_need d) (d_togo d - 1) [x] (f :: d_freqs d) (d_mats d) in
          match (d_togo d - 1)%nat with
          | O => SV2 h (v2_complete h d' [x] k)
          | _ => SV2 h d'
          end
      | cur =>
        match (d_togo d - 1)%nat with
        | O => SV2 h (v2_complete h d (x :: cur) k)
        | g => SV2 h (mkv2 (d_left d) (d_need d) g (x :: cur) (d_freqs d) (d_mats d))
        end
      end
    | _ => err
    end.
Definition int_max_sqrt : Z := 46340.
Definition network_data (h : hdr) : pst :=
  let p := h_ports h in
  if p <? 0 then err
  else if h_nfreq h <? 0 then err
  else if (p =? 2) && match h_order h with None => true | Some _ => false end then err
  else if negb (p =? 2) && match h_order h with None => false | Some _ => true end then err
  else if int_max_sqrt <? p then SLate EINVAL              (* vnadata_init refuses rows * columns > INT_MAX: called after the next token *)
  else
    let n := Z.to_nat p in
    let pairs := match h_matrix h with MFull => (n * n)%nat | _ => (n * (n + 1) / 2)%nat end in
    let need := S (2 * pairs) in
    SV2 h (mkv2 (Z.to_N (h_nfreq h)) need need [] [] []).

(* ---- version 1 data lines --------------------------------------------------------------------------- *)
Definition v1_obj (h : hdr) (v : v1st) : tsobj :=
  mkobj (h_v2 h) (h_type h) (h_fmt h) (v_ports v) (rev (v_freqs v)) (repeat (h_z0 h) (v_ports v)) (rev (v_mats v)).

Definition v1_freq (h : hdr) (v : v1st) (x : xnum) : option xnum :=
  if xlt x xq0 then None
  else
    let f := xmul (XQ (h_mult h)) x in
    match v_freqs v with
    | prev :: _ => if xle f prev then None else Some f
    | [] => Some f
    end.

(* one frequency of a 2-port file: N11 N21 N12 N22 *)
Definition v1_two_port (h : hdr) (v : v1st) (maybe4 : bool) (vals : list xnum) : option v1st :=
  match vals with
  | x :: r =>
    match v1_freq h v x, pairs_of r with
    | Some f, [p0; p1; p2; p3] => Some (mkv1 false 2 maybe4 0 false (f :: v_freqs v) ([p0; p2; p1; p3] :: v_mats v))
    | _, _ => None
    end
  | [] => None
  end.
(* first row of a frequency of an n-port file, n <> 2 *)
Definition v1_first_row (h : hdr) (v : v1st) (n : nat) (vals : list xnum) : option v1st :=
  match vals with
  | x :: r =>
    match v1_freq h v x with
    | Some f => Some (mkv1 false n false (if (n =? 1)%nat then 0 else 1)%nat false (f :: v_freqs v) (pairs_of r :: v_mats v))
    | None => None
    end
  | [] => None
  end.
Definition v1_next_row (v : v1st) (vals : list xnum) : option v1st :=
  match v_mats v with
  | m :: ms => Some (mkv1 false (v_ports v) false (if (S (v_row v) =? v_ports v)%nat then 0 else S (v_row v))%nat false
                          (v_freqs v) ((m ++ pairs_of vals) :: ms))
  | [] => None
  end.
Definition is_hg (t : ptype) : bool := match t with PH | PG => true | _ => false end.

(* everything load_touchstone1 does with one complete data line *)
Definition v1_line (h : hdr) (v : v1st) (vals : list xnum) : option v1st :=
  let n := length vals in
  if v_first v then
    if Nat.even n || (n <? 3)%nat then None
    else if (n =? 5)%nat then Some (mkv1 false 2 false 0 true [] [])          (* noise parameters only *)
    else if is_hg (h_type h) then (if (n =? 9)%nat then v1_two_port h v false vals else None)
    else if (n =? 9)%nat then v1_two_port h v true vals
    else v1_first_row h v ((n - 1) / 2) vals
  else if v_noise v then
    if (n =? 5)%nat then Some v else None
  else if (v_row v =? 0)%nat then
    if (v_ports v =? 2)%nat then
      if (n =? 9)%nat then v1_two_port h v false vals
      else if (n =? 5)%nat then Some (mkv1 false (v_ports v) false 0 true (v_freqs v) (v_mats v))
      else if v_maybe4 v && (n =? 8)%nat then
        (* the first line was row 1 of a 4-port matrix: undo the transposition, go on with row 2 *)
        match v_mats v with
        | [p0; p2; p1; p3] :: ms => Some (mkv1 false 4 false 2 false (v_freqs v) (([p0; p1; p2; p3] ++ pairs_of vals) :: ms))
        | _ => None
        end
      else None
    else
      if (n =? 1 + 2 * v_ports v)%nat then v1_first_row h v (v_ports v) vals
      else if (n =? 5)%nat then Some (mkv1 false (v_ports v) false 0 true (v_freqs v) (v_mats v))
      else None
  else
    if (n =? 2 * v_ports v)%nat then v1_next_row v vals else None.

(* the token that follows a complete data line (read with F_NONE) *)
Definition v1_wait_tok (h : hdr) (v : v1st) (t : token) : pst :=
  match t with
  | TDouble x => SV1Line h v [x]
  | _ => if v_noise v || (v_row v =? 0)%nat then eof_tok h (v1_obj h v) t else err
  end.
Definition v1_start (h : hdr) (t : token) : pst :=
  match t with
  | TDouble x => SV1Line h (mkv1 true 0 false 0 false [] []) [x]
  | _ => err
  end.
(* parse_data_line: tokens read with F_EOL *)
Definition v1_line_tok (h : hdr) (v : v1st) (acc : list xnum) (t : token) : pst :=
  match t with
  | TDouble x => SV1Line h v (x :: acc)
  | TEol => match v1_line h v (rev acc) with Some v' => SV1Wait h v' | None => err end
  | TEof => match v1_line h v (rev acc) with Some v' => v1_wait_tok h v' TEof | None => err end
  | _ => err
  end.

(* ---- keyword section --------------------------------------------------------------------------------- *)
Definition after_kw (h : hdr) (t : token) : pst :=
  if negb (h_v2 h) && (h_ports h =? -1) && (h_nfreq h =? -1) && match h_order h with None => true | Some _ => false end
  then v1_start h t
  else match t with TKw KNetworkData => network_data h | _ => err end.

Definition body_tok (h : hdr) (t : token) : pst :=
  match t with
  | TKw KNumberOfPorts => if h_ports h =? -1 then SArg h APorts else err
  | TKw KTwoPortOrder => SArg h AOrder
  | TKw KNumberOfFrequencies => SArg h ANFreq
  | TKw KNumberOfNoiseFrequencies => SArg h ANNoise
  | TKw KReference =>
      if h_ports h <? 0 then err
      else match h_ref h with
           | Some _ => err
           | None => match Z.to_nat (h_ports h) with
                     | O => SBody (set_ref h (Some []))
                     | n => SRef h n []
                     end
           end
  | TKw KMatrixFormat => SArg h AMatrix
  | TKw KMixedModeOrder => err
  | TKw KBeginInformation => SInfo h
  | _ => after_kw h t
  end.

Definition arg_tok (h : hdr) (a : argkind) (t : token) : pst :=
  match a, t with
  | APorts, TInt z => if z <? 0 then err
                      else if negb (z =? 2) && is_hg (h_type h) then err
                      else SBody (set_ports h z)
  | AOrder, TWord w => if bytes_eqb w txt_12_21 then SBody (set_order h (Some false))
                       else if bytes_eqb w txt_21_12 then SBody (set_order h (Some true))
                       else err
  | ANFreq, TInt z => SBody (set_nfreq h z)
  | ANNoise, TInt z => if z <? 0 then err else SBody (set_nnoise h z)
  | AMatrix, TWord w => if bytes_eqb w txt_full then SBody (set_matrix h MFull)
                        else if bytes_eqb w txt_upper then SBody (set_matrix h MUpper)
                        else if bytes_eqb w txt_lower then SBody (set_matrix h MLower)
                        else err
  | _, _ => err
  end.

Definition want_option (v2 : bool) (t : token) : pst :=
  match t with TOption => SOpt (hdr0 v2) | _ => err end.

(* ---- one token ------------------------------------------------------------------------------------ *)
Definition on_tok (s : pst) (t : token) : pst :=
  match s with
  | SStart => match t with TKw KVersion => SVersionArg | _ => want_option false t end
  | SVersionArg =>
      match t with
      | TWord w => if bytes_eqb w txt_2_0 then SWantOption true
                   else if bytes_eqb w txt_1_0 then SWantOption false
                   else SErr ENOPROTOOPT
      | _ => err
      end
  | SWantOption v2 => want_option v2 t
  | SOpt h =>
      match t with
      | TOp OR => SOptR h
      | TOp o => SOpt (apply_op h o)
      | TEol => SBody h
      | TEof => body_tok h TEof
      | _ => err
      end
  | SOptR h =>
      match t with
      | TDouble x => if negb (xlt xq0 x) then err else SOpt (set_z0 h x)      (* !(x > 0.0): fix DB93 *)
      | _ => err
      end
  | SBody h => body_tok h t
  | SArg h a => arg_tok h a t
  | SRef h nleft acc =>
      match nleft, t with
      | S k, TDouble x =>
          if negb (xlt xq0 x) then err
          else match k with
               | O => SBody (set_ref h (Some (rev (x :: acc))))
               | _ => SRef h k (x :: acc)
               end
      | _, _ => err
      end
  | SInfo h => match t with TKw KEndInformation => SBody h | _ => body_tok h t end
  | SV2 h d => v2_tok h d t
  | SNoise h o nleft j fprev => noise_tok h o nleft j fprev t
  | SEof h o => eof_tok h o t
  | SV1Wait h v => v1_wait_tok h v t
  | SV1Line h v acc => v1_line_tok h v acc t
  | SDone o => SDone o
  | SErr c => SErr c
  | SLate c => match t with TError => err | _ => SErr c end     (* the scan of that token failed: EBADMSG *)
  end.

Definition pstep (s : pst) (x : rtok) : pst :=
  match tok_of (flags_of s) x with
  | None => s
  | Some t => on_tok s t
  end.

Inductive result := Ok (o : tsobj) | Error (c : eclass).
Definition pfinish (s : pst) : result :=
  match s with
  | SDone o => Ok o
  | SErr c => Error c
  | _ => Error EINTERNAL          (* never for a stream that ends with REof or an error token: parse_total *)
  end.

Definition parse (r : list rtok) : result := pfinish (fold_left pstep r SStart).
Definition load_ts (bytes : list N) : result := parse (tokens bytes).
