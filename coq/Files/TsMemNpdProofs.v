(* Proofs about the pointer-level model of the NPD loader's own buffers (TsMemNpd.v), variant NFixed: the
   invariant NInv (ledger = exactly the blocks the scanner state points to; text: size <= allocation, the first size
   bytes initialised, NULL iff allocation 0; field vector: count <= allocation, NULL iff allocation 0) and, after a
   line has been scanned, Scanned (the field vector holds the offsets of the fields, every field and its NUL lie
   inside the text of the line) are preserved by every line whatever request fails; the field accounting of the
   loader keeps every field index of a data line inside the line (post_header_bounds); out: empties the ledger.
   Nothing here changes a model. *)
Require Import List NArith ZArith Bool Lia Arith.
Import ListNotations.
Require Import LV.Files.TsTok LV.Files.NpdScan LV.Files.NpdLoad LV.Files.NpdLoadProofs LV.Files.NpdWf LV.Mem.Alloc LV.Mem.AllocProofs LV.Mem.PropList LV.Mem.Owned LV.Mem.PropListProofs.
Require Import LV.Files.TsMem LV.Files.TsMemProofs LV.Files.TsMemNpd.
Open Scope Z_scope.

(* ==================================================================================================== *)

(* ---- ledger ------------------------------------------------------------------------------------------------ *)
Definition nblocks (m : nmem) : list block_id := olist (n_text m) ++ olist (n_fld m) ++ olist (n_z0 m).
Definition NLed (m : nmem) (s : astate) : Prop :=
  wf s /\ NoDup (nblocks m) /\ (forall x, In x (ids s) <-> In x (nblocks m)).

(* offsets of the fields of a line in nss_text: every field is followed by its NUL *)
Fixpoint offs (base : nat) (line : list (list N)) : list nat :=
  match line with [] => [] | f :: r => base :: offs (base + length f + 1) r end.
Fixpoint total (base : nat) (line : list (list N)) : nat :=
  match line with [] => base | f :: r => total (base + length f + 1) r end.

Definition NText (m : nmem) : Prop :=
  arr_ok (n_tarr m) /\ Z.of_nat (n_size m) <= calloc (n_tarr m) /\ initp (n_tarr m) (n_size m) /\
  (n_text m = None -> calloc (n_tarr m) = 0).
Definition NFld (m : nmem) : Prop :=
  arr_ok (n_farr m) /\ Z.of_nat (n_count m) <= calloc (n_farr m) /\ (n_fld m = None -> calloc (n_farr m) = 0).
(* the fields of [pre] have been scanned into the buffers *)
Definition Scanned (m : nmem) (pre : list (list N)) : Prop :=
  n_count m = length pre /\ n_size m = total 0 pre /\
  forall i, (i < length pre)%nat -> nth_error (cells (n_farr m)) i = Some (Init (Z.of_nat (nth i (offs 0 pre) 0%nat))).
Definition NInv (m : nmem) (s : astate) : Prop := NLed m s /\ NText m /\ NFld m.

Lemma offs_length : forall line b, length (offs b line) = length line.
Proof. induction line; intros; simpl; auto. Qed.
Lemma offs_app : forall pre b f, offs b (pre ++ [f]) = offs b pre ++ [total b pre].
Proof. induction pre; intros; simpl; auto. rewrite IHpre. reflexivity. Qed.
Lemma total_app : forall pre b f, total b (pre ++ [f]) = (total b pre + length f + 1)%nat.
Proof. induction pre; intros; simpl; auto. Qed.
Lemma total_ge : forall line b, (b <= total b line)%nat.
Proof. induction line; intros; simpl; auto. specialize (IHline (b + length a + 1)%nat). lia. Qed.
(* field i ends (with its NUL) inside the text of the line *)
Lemma offs_bound : forall line b i, (i < length line)%nat ->
  (b <= nth i (offs b line) 0 /\ nth i (offs b line) 0 + length (nth i line []) + 1 <= total b line)%nat.
Proof.
  induction line as [|f r IH]; intros b i Hi; simpl in *; [lia|].
  destruct i.
  - pose proof (total_ge r (b + length f + 1)). lia.
  - destruct (IH (b + length f + 1)%nat i ltac:(lia)). lia.
Qed.

Lemma nled_text_live : forall m s b, NLed m s -> n_text m = Some b -> In b (ids s).
Proof. intros m s b (_&_&Hiff) H. apply Hiff. unfold nblocks. rewrite H. left; reflexivity. Qed.
Lemma nled_fld_live : forall m s b, NLed m s -> n_fld m = Some b -> In b (ids s).
Proof. intros m s b (_&_&Hiff) H. apply Hiff. unfold nblocks. rewrite H. apply in_or_app; right. left; reflexivity. Qed.
Lemma nled_z0_live : forall m s b, NLed m s -> n_z0 m = Some b -> In b (ids s).
Proof. intros m s b (_&_&Hiff) H. apply Hiff. unfold nblocks. rewrite H. apply in_or_app; right. apply in_or_app; right. left; reflexivity. Qed.
Lemma nled_same_ptrs : forall m m' s, NLed m s -> n_text m' = n_text m -> n_fld m' = n_fld m -> n_z0 m' = n_z0 m -> NLed m' s.
Proof. unfold NLed, nblocks; intros m m' s H A B C. rewrite A, B, C. exact H. Qed.
Lemma nled_same_ids : forall m s s', NLed m s -> wf s' -> ids s' = ids s -> NLed m s'.
Proof. intros m s s' (Hw&Hnd&Hiff) Hw' He. unfold NLed. rewrite He. auto. Qed.

(* a pointer of the state replaced by a fresh block (realloc; malloc when it was NULL) *)
Lemma nled_swap : forall (pre : list block_id) (old : option block_id) (post : list block_id) s s' b,
  wf s -> NoDup (pre ++ olist old ++ post) -> (forall x, In x (ids s) <-> In x (pre ++ olist old ++ post)) ->
  wf s' -> ~ In b (ids s) ->
  (forall x, In x (ids s') <-> x = b \/ (In x (ids s) /\ Some x <> old)) ->
  NoDup (pre ++ [b] ++ post) /\ (forall x, In x (ids s') <-> In x (pre ++ [b] ++ post)).
Proof.
  intros pre old post s s' b Hw Hnd Hiff Hw' Hnb Hi'.
  assert (Hpp : NoDup (pre ++ post) /\ forall x, In x (pre ++ post) <-> (In x (ids s) /\ Some x <> old)).
  { destruct old as [o|]; simpl in *.
    - pose proof (NoDup_remove_2 _ _ _ Hnd) as Hno.
      split; [eapply NoDup_remove_1; eauto|]. intro x. split.
      + intro Hx. split.
        * apply Hiff. apply in_app_or in Hx. apply in_or_app. destruct Hx; [left; auto | right; right; auto].
        * intro E; inversion E; subst. contradiction.
      + intros [A B]. apply Hiff in A. apply in_app_or in A. apply in_or_app. destruct A as [A|[A|A]]; [left; auto | subst; congruence | right; auto].
    - split; [exact Hnd|]. intro x. rewrite Hiff. split; [intro; split; [auto|discriminate] | tauto]. }
  destruct Hpp as (Hnd'&Hpp). split.
  - apply NoDup_app_inv' in Hnd'. destruct Hnd' as (A&B&C).
    apply NoDup_app_intro'; auto.
    + simpl. constructor; auto. intro Hin. apply Hnb. apply (Hpp b). apply in_or_app; right; exact Hin.
    + intros x Hx [He|Hin]; [subst; apply Hnb; apply (Hpp x); apply in_or_app; left; exact Hx | eapply C; eauto].
  - intro x. rewrite Hi'. rewrite <- (Hpp x). rewrite !in_app_iff. simpl. intuition (subst; auto).
Qed.

(* ==================================================================================================== *)

Definition same_fz (m m' : nmem) : Prop :=
  n_fld m' = n_fld m /\ n_farr m' = n_farr m /\ n_count m' = n_count m /\ n_z0 m' = n_z0 m /\
  (n_z0n m' = n_z0n m /\ n_log m' = n_log m).
Definition same_tz (m m' : nmem) : Prop :=
  n_text m' = n_text m /\ n_tarr m' = n_tarr m /\ n_size m' = n_size m /\ n_z0 m' = n_z0 m /\
  (n_z0n m' = n_z0n m /\ n_log m' = n_log m).
Definition same_z (m m' : nmem) : Prop := n_z0 m' = n_z0 m /\ (n_z0n m' = n_z0n m /\ n_log m' = n_log m).
Ltac szt := unfold same_z, same_fz, same_tz in *; simpl in *; intuition congruence.
Lemma same_fz_refl : forall m, same_fz m m. Proof. unfold same_fz; repeat split; reflexivity. Qed.
Lemma same_fz_trans : forall a b c, same_fz a b -> same_fz b c -> same_fz a c.
Proof. unfold same_fz; intros a b c (A1&A2&A3&A4&A5&A6) (B1&B2&B3&B4&B5&B6). repeat split; congruence. Qed.

Lemma ninv_same_ids : forall m s s', NInv m s -> wf s' -> ids s' = ids s -> NInv m s'.
Proof. intros m s s' (L&T&F) Hw He. split; [eapply nled_same_ids; eauto | auto]. Qed.

Lemma safe_add_char_n : forall m c s, NInv m s ->
  safe (add_char_n m c) s (fun o s' =>
    match o with
    | None => NInv m s'
    | Some m' => NInv m' s' /\ n_size m' = S (n_size m) /\ same_fz m m'
    end).
Proof.
  intros m c s HI. unfold add_char_n. apply safe_bind.
  set (na := Z.max 81 (2 * calloc (n_tarr m))).
  assert (H1 : safe (if calloc (n_tarr m) <=? Z.of_nat (n_size m)
                     then p <- realloc (n_text m) na;;
                          match p with
                          | Some b => ret (Some (nset_text m (Some b) (grow (n_tarr m) na) (n_size m)))
                          | None => ret None
                          end
                     else ret (Some m)) s
                (fun o s1 => match o with
                             | None => NInv m s1
                             | Some m' => NInv m' s1 /\ n_size m' = n_size m /\ Z.of_nat (n_size m) < calloc (n_tarr m') /\ same_fz m m'
                             end)).
  { pose proof HI as HI0. destruct HI as (L&T&F). pose proof L as (Hw&Hnd&Hiff). destruct T as (Ta&Tl&Ti&Tn).
    destruct (Z.leb_spec (calloc (n_tarr m)) (Z.of_nat (n_size m))).
    - apply safe_bind. eapply safe_weaken; [apply safe_realloc; [exact Hw|]|].
      { intros b Hb. eapply nled_text_live; eauto. }
      intros [b|] s1 [Hw1 Hp].
      + destruct Hp as (Hb&Hnb&Hfr&Hi1). apply safe_ret.
        assert (Hna : calloc (n_tarr m) <= na /\ Z.of_nat (n_size m) < na) by (unfold na, arr_ok in *; lia).
        destruct (grow_ok _ (n_tarr m) na Ta ltac:(lia)) as (Ga&Gc&Gi).
        split; [|split; [reflexivity|split; [unfold nset_text; cbn [n_tarr]; rewrite Gc; lia | szt]]].
        split; [|split; [|exact F]].
        * destruct (nled_swap [] (n_text m) (olist (n_fld m) ++ olist (n_z0 m)) s s1 b Hw Hnd Hiff Hw1 Hnb Hi1) as (A&B).
          split; [exact Hw1|]. split; [exact A | exact B].
        * unfold NText, nset_text; cbn [n_tarr n_size n_text]. split; [exact Ga|]. split; [rewrite Gc; lia|].
          split; [apply Gi; exact Ti | discriminate].
      + destruct Hp as (Hids&_). apply safe_ret. eapply ninv_same_ids; eauto.
    - apply safe_ret. split; [exact HI0|]. split; [reflexivity|]. split; [lia | apply same_fz_refl]. }
  eapply safe_weaken; [exact H1|]. clear H1.
  intros [m'|] s1; [|intro H; apply safe_ret; exact H].
  intros (HI'&Hl&Hroom&Hs). destruct HI' as (L&T&F). destruct T as (Ta&Tl&Ti&Tn).
  destruct (n_text m') as [b|] eqn:Eb; [|rewrite Tn in Hroom by reflexivity; lia].
  apply safe_bind. apply safe_touch; [eapply nled_text_live; eauto|].
  apply safe_bind.
  destruct (wr_spec _ (n_tarr m') (n_size m') c Ta) as (a'&Hwr&Ha'&Hc'&Hlen'&Hsame&Hoth).
  { unfold arr_ok in Ta. lia. }
  eapply safe_lift; [exact Hwr|]. apply safe_ret.
  split; [|split; [simpl; lia|]].
  - split; [eapply nled_same_ptrs; eauto|]. split; [|exact F].
    unfold NText; simpl. split; [exact Ha'|]. split; [rewrite Hc'; lia|]. split; [eapply wr_initp_ext; eauto | discriminate].
  - szt.
Qed.

Lemma safe_add_chars_n : forall t m s, NInv m s ->
  safe (add_chars_n m t) s (fun r s' => NInv (snd r) s' /\ same_fz m (snd r) /\
                                        (fst r = true -> n_size (snd r) = (n_size m + length t)%nat)).
Proof.
  induction t as [|c t IH]; intros m s HI; simpl.
  - apply safe_ret. split; [exact HI|]. split; [apply same_fz_refl | simpl; lia].
  - apply safe_bind. eapply safe_weaken; [apply safe_add_char_n; exact HI|].
    intros [m'|] s1 H.
    + destruct H as (HI'&Hsz&Hs). eapply safe_weaken; [apply IH; exact HI'|].
      intros r s2 (H2&Hs2&Hz). split; [exact H2|]. split; [eapply same_fz_trans; eauto|]. intro Ht. rewrite (Hz Ht). lia.
    + apply safe_ret. split; [exact H|]. split; [apply same_fz_refl | simpl; discriminate].
Qed.

Lemma safe_start_field_n : forall m s, NInv m s ->
  safe (start_field_n m) s (fun o s' =>
    match o with
    | None => NInv m s'
    | Some m' => NInv m' s' /\ same_tz m m' /\ n_count m' = n_count m /\ Z.of_nat (n_count m) < calloc (n_farr m') /\
                 nth_error (cells (n_farr m')) (n_count m) = Some (Init (Z.of_nat (n_size m))) /\
                 (forall j, (j < n_count m)%nat -> nth_error (cells (n_farr m')) j = nth_error (cells (n_farr m)) j)
    end).
Proof.
  intros m s HI. unfold start_field_n. apply safe_bind.
  set (na := Z.max 9 (2 * calloc (n_farr m))).
  assert (H1 : safe (if calloc (n_farr m) <=? Z.of_nat (n_count m)
                     then p <- realloc (n_fld m) (4 * na);;
                          match p with
                          | Some b => ret (Some (nset_fld m (Some b) (grow (n_farr m) na) (n_count m)))
                          | None => ret None
                          end
                     else ret (Some m)) s
                (fun o s1 => match o with
                             | None => NInv m s1
                             | Some m' => NInv m' s1 /\ same_tz m m' /\ n_count m' = n_count m /\ Z.of_nat (n_count m) < calloc (n_farr m') /\
                                          (forall j, (j < n_count m)%nat -> nth_error (cells (n_farr m')) j = nth_error (cells (n_farr m)) j)
                             end)).
  { pose proof HI as HI0. destruct HI as (L&T&F). pose proof L as (Hw&Hnd&Hiff). destruct F as (Fa&Fl&Fn).
    destruct (Z.leb_spec (calloc (n_farr m)) (Z.of_nat (n_count m))).
    - apply safe_bind. eapply safe_weaken; [apply safe_realloc; [exact Hw|]|].
      { intros b Hb. eapply nled_fld_live; eauto. }
      intros [b|] s1 [Hw1 Hp].
      + destruct Hp as (Hb&Hnb&Hfr&Hi1). apply safe_ret.
        assert (Hna : calloc (n_farr m) <= na /\ Z.of_nat (n_count m) < na) by (unfold na, arr_ok in *; lia).
        destruct (grow_ok _ (n_farr m) na Fa ltac:(lia)) as (Ga&Gc&Gi).
        split; [|split; [szt|split; [reflexivity|split; [unfold nset_fld; cbn [n_farr]; rewrite Gc; lia|]]]].
        * split; [|split; [exact T|]].
          -- destruct (nled_swap (olist (n_text m)) (n_fld m) (olist (n_z0 m)) s s1 b Hw Hnd Hiff Hw1 Hnb Hi1) as (A&B).
             split; [exact Hw1|]. split; [exact A | exact B].
          -- unfold NFld, nset_fld; cbn [n_farr n_count n_fld]. split; [exact Ga|]. split; [rewrite Gc; lia | discriminate].
        * intros j Hj. simpl. rewrite nth_error_app1; auto. unfold arr_ok in Fa. lia.
      + destruct Hp as (Hids&_). apply safe_ret. eapply ninv_same_ids; eauto.
    - apply safe_ret. split; [exact HI0|]. split; [szt|]. split; [reflexivity|]. split; [lia | auto]. }
  eapply safe_weaken; [exact H1|]. clear H1.
  intros [m'|] s1; [|intro H; apply safe_ret; exact H].
  intros (HI'&Hs&Hc&Hroom&Hold). destruct HI' as (L&T&F). destruct F as (Fa&Fl&Fn).
  destruct (n_fld m') as [b|] eqn:Eb; [|rewrite Fn in Hroom by reflexivity; lia].
  apply safe_bind. apply safe_touch; [eapply nled_fld_live; eauto|].
  apply safe_bind.
  destruct (wr_spec _ (n_farr m') (n_count m') (Z.of_nat (n_size m')) Fa) as (a'&Hwr&Ha'&Hc'&Hlen'&Hsame&Hoth).
  { unfold arr_ok in Fa. lia. }
  eapply safe_lift; [exact Hwr|]. apply safe_ret.
  destruct Hs as (S1&S2&S3&S4&S5).
  split; [|split; [szt|split; [simpl; auto|split; [simpl; rewrite Hc'; lia|split]]]].
  - split; [eapply nled_same_ptrs; eauto|]. split; [exact T|].
    unfold NFld; simpl. split; [exact Ha'|]. split; [rewrite Hc'; lia | try rewrite Eb; discriminate].
  - simpl. rewrite <- Hc, <- S3. exact Hsame.
  - intros j Hj. simpl. rewrite Hoth by lia. apply Hold; exact Hj.
Qed.

(* ==================================================================================================== *)


Lemma safe_end_field_fixed : forall m s, NInv m s -> Z.of_nat (n_count m) < calloc (n_farr m) ->
  safe (end_field_n NFixed m) s (fun r s' => NInv (snd r) s' /\ same_z m (snd r) /\
    (fst r = true -> n_size (snd r) = S (n_size m) /\ n_count (snd r) = S (n_count m) /\ n_farr (snd r) = n_farr m)).
Proof.
  intros m s HI Hroom. unfold end_field_n. apply safe_bind. eapply safe_weaken; [apply safe_add_char_n; exact HI|].
  intros [m'|] s1 H.
  - destruct H as (HI'&Hsz&(S1&S2&S3&S4&S5)). apply safe_ret. simpl.
    split; [|split; [szt|intros _; split; [exact Hsz|split; [congruence|exact S2]]]].
    destruct HI' as (L&T&F). split; [eapply nled_same_ptrs; eauto|]. split; [exact T|].
    destruct F as (Fa&Fl&Fn). unfold NFld; simpl. split; [exact Fa|]. split; [|exact Fn].
    (* room for the count: the offset cell of this field was stored by start_field *)
    rewrite S2, S3 in *. lia.
  - apply safe_ret. simpl. split; [exact H|]. split; [szt | discriminate].
Qed.

Lemma rd_val : forall A (a : carray A) i v, arr_ok a -> nth_error (cells a) i = Some (Init v) ->
  rd a (Z.of_nat i) = Alloc.Ok v.
Proof.
  intros A a i v Hok Hn. unfold rd, arr_ok in *.
  assert (Hi : (i < length (cells a))%nat) by (apply nth_error_Some; congruence).
  replace ((Z.of_nat i <? 0) || (calloc a <=? Z.of_nat i)) with false.
  2:{ symmetry. apply orb_false_iff. split; [apply Z.ltb_ge; lia | apply Z.leb_gt; lia]. }
  rewrite Nat2Z.id, Hn. reflexivity.
Qed.

Lemma scanned_app : forall m m' pre f,
  Scanned m pre -> n_count m' = S (n_count m) -> n_size m' = (n_size m + length f + 1)%nat ->
  nth_error (cells (n_farr m')) (n_count m) = Some (Init (Z.of_nat (n_size m))) ->
  (forall j, (j < n_count m)%nat -> nth_error (cells (n_farr m')) j = nth_error (cells (n_farr m)) j) ->
  Scanned m' (pre ++ [f]).
Proof.
  intros m m' pre f (Sc&Ss&Si) Hc Hs Hcell Hold. unfold Scanned.
  rewrite app_length, offs_app, total_app. simpl. split; [lia|]. split; [lia|].
  intros i Hi. destruct (Nat.eq_dec i (length pre)) as [->|Hne].
  - rewrite app_nth2 by (rewrite offs_length; lia). rewrite offs_length, Nat.sub_diag. simpl.
    rewrite <- Sc, <- Ss. exact Hcell.
  - rewrite app_nth1 by (rewrite offs_length; lia). rewrite Hold by lia. apply Si. lia.
Qed.

Lemma safe_field_fixed : forall f m s pre, NInv m s -> Scanned m pre ->
  safe (field_n NFixed m f) s (fun r s' => NInv (snd r) s' /\ same_z m (snd r) /\ (fst r = true -> Scanned (snd r) (pre ++ [f]))).
Proof.
  intros f m s pre HI HS. unfold field_n. apply safe_bind.
  eapply safe_weaken; [apply safe_start_field_n; exact HI|].
  intros [m1|] s1 H.
  - destruct H as (HI1&(T1&T2&T3&T4&T5)&Hc1&Hroom&Hcell&Hold).
    apply safe_bind. eapply safe_weaken; [apply safe_add_chars_n; exact HI1|].
    intros [ok m2] s2 (HI2&(F1&F2&F3&F4&F5)&Hsz). simpl in *. destruct ok; simpl.
    + eapply safe_weaken; [apply safe_end_field_fixed; [exact HI2 | rewrite F2, F3, Hc1; exact Hroom]|].
      intros [ok3 m3] s3 (HI3&(Z1&Z2)&H3). simpl in *.
      split; [exact HI3|]. split; [szt|]. intro Hok. destruct (H3 Hok) as (A&B&C).
      eapply scanned_app; eauto.
      * rewrite B, F3, Hc1. reflexivity.
      * rewrite A, (Hsz eq_refl), T3. lia.
      * rewrite C, F2. exact Hcell.
      * intros j Hj. rewrite C, F2. apply Hold; exact Hj.
    + apply safe_ret. simpl. split; [exact HI2|]. split; [szt | discriminate].
  - apply safe_ret. simpl. split; [exact H|]. split; [szt | discriminate].
Qed.

Lemma safe_fields_fixed : forall fs m s pre, NInv m s -> Scanned m pre ->
  safe (fields_n NFixed m fs) s (fun r s' => NInv (snd r) s' /\ same_z m (snd r) /\ (fst r = true -> Scanned (snd r) (pre ++ fs))).
Proof.
  induction fs as [|f fs IH]; intros m s pre HI HS; simpl.
  - apply safe_ret. simpl. split; [exact HI|]. split; [szt|]. intros _. rewrite app_nil_r. exact HS.
  - apply safe_bind. eapply safe_weaken; [apply safe_field_fixed; eauto|].
    intros [ok m1] s1 (HI1&(Z1&Z2)&H1). simpl in *. destruct ok.
    + eapply safe_weaken; [apply (IH m1 s1 (pre ++ [f])); [exact HI1 | apply H1; reflexivity]|].
      intros r s2 (HI2&(Y1&Y2)&H2). split; [exact HI2|]. split; [szt|].
      intro Hok. rewrite <- app_assoc in H2. apply H2. exact Hok.
    + apply safe_ret. simpl. split; [exact HI1|]. split; [szt | discriminate].
Qed.

Lemma safe_scan_line_fixed : forall line m s, NInv m s ->
  safe (scan_line_n NFixed m line) s (fun r s' => NInv (snd r) s' /\ same_z m (snd r) /\ (fst r = true -> Scanned (snd r) line)).
Proof.
  intros line m s HI. unfold scan_line_n.
  eapply safe_weaken; [apply (safe_fields_fixed line _ s [])|].
  - destruct HI as (L&T&F). split; [eapply nled_same_ptrs; eauto|]. split.
    + destruct T as (Ta&Tl&Ti&Tn). unfold NText; simpl. split; [exact Ta|]. split; [unfold arr_ok in Ta; lia|].
      split; [intros i Hi; lia | exact Tn].
    + destruct F as (Fa&Fl&Fn). unfold NFld; simpl. split; [exact Fa|]. split; [unfold arr_ok in Fa; lia | exact Fn].
  - unfold Scanned; simpl. split; [reflexivity|]. split; [reflexivity | intros i Hi; lia].
  - intros r s' (A&B&C). split; [exact A|]. split; [exact B | exact C].
Qed.

(* ---- FIELD(i) ---------------------------------------------------------------------------------------------------- *)
Lemma safe_read_field : forall m s line i n, NInv m s -> Scanned m line -> (i < length line)%nat ->
  (nth i (offs 0 line) 0 + n <= n_size m)%nat ->
  safe (read_field_n m i n) s (fun _ s' => s' = s).
Proof.
  intros m s line i n (L&T&F) (Sc&Ss&Si) Hi Hn. unfold read_field_n.
  destruct T as (Ta&Tl&Ti&Tn). destruct F as (Fa&Fl&Fn).
  destruct (offs_bound line 0 i Hi) as (_&Hb). rewrite <- Ss in Hb.
  destruct (n_fld m) as [bf|] eqn:Ef; [|rewrite Fn in Fl by reflexivity; lia].
  destruct (n_text m) as [bt|] eqn:Et; [|rewrite Tn in Tl by reflexivity; lia].
  apply safe_bind. apply safe_touch; [eapply nled_fld_live; eauto|].
  apply safe_bind. eapply safe_lift; [apply rd_val; [exact Fa | apply Si; exact Hi]|].
  apply safe_bind. apply safe_touch; [eapply nled_text_live; eauto|].
  eapply safe_lift; [|reflexivity].
  apply (rd_seq_ok _ (n_tarr m) (n_size m) Ta Ti); [unfold arr_ok in Ta; lia | exact Hn].
Qed.

Lemma safe_read_str : forall m s line i, NInv m s -> Scanned m line -> (i < length line)%nat ->
  safe (read_str_n m line i) s (fun _ s' => s' = s).
Proof.
  intros m s line i HI HS Hi. unfold read_str_n. eapply safe_read_field; eauto.
  destruct (offs_bound line 0 i Hi) as (_&Hb). destruct HS as (_&Ss&_). rewrite Ss. lia.
Qed.

Lemma safe_read_strs : forall n m s line lo, NInv m s -> Scanned m line -> (lo + n <= length line)%nat ->
  safe (read_strs_n m line lo n) s (fun _ s' => s' = s).
Proof.
  induction n; intros m s line lo HI HS Hn; simpl.
  - apply safe_ret; reflexivity.
  - apply safe_bind. eapply safe_weaken; [apply safe_read_str; eauto; lia|].
    intros u s1 He. rewrite He. apply IHn; auto. lia.
Qed.

(* the NUL before field s (s >= 1) lies inside the text *)
Lemma offs_pos : forall line i, (1 <= i < length line)%nat -> (1 <= nth i (offs 0 line) 0)%nat.
Proof.
  intros [|f r] i Hi; simpl in *; [lia|]. destruct i; [lia|].
  destruct (offs_bound r (length f + 1)%nat i ltac:(lia)). lia.
Qed.

Lemma safe_join : forall n m s line k, NInv m s -> Scanned m line -> (1 <= k)%nat -> (k + n <= length line)%nat ->
  safe (join_n m k n) s (fun m' s' => s' = s /\ NInv m' s' /\ Scanned m' line /\ same_z m m').
Proof.
  induction n; intros m s line k HI HS Hk Hn; simpl.
  - apply safe_ret. split; [reflexivity|]. split; [exact HI|]. split; [exact HS | split; auto].
  - pose proof HI as (L&T&F). pose proof HS as (Sc&Ss&Si).
    destruct T as (Ta&Tl&Ti&Tn). destruct F as (Fa&Fl&Fn).
    assert (Hi : (k < length line)%nat) by lia.
    destruct (offs_bound line 0 k Hi) as (_&Hb). rewrite <- Ss in Hb.
    pose proof (offs_pos line k ltac:(lia)) as Hp.
    destruct (n_fld m) as [bf|] eqn:Ef; [|rewrite Fn in Fl by reflexivity; lia].
    destruct (n_text m) as [bt|] eqn:Et; [|rewrite Tn in Tl by reflexivity; lia].
    apply safe_bind. apply safe_touch; [eapply nled_fld_live; eauto|].
    apply safe_bind. eapply safe_lift; [apply rd_val; [exact Fa | apply Si; exact Hi]|].
    apply safe_bind. apply safe_touch; [eapply nled_text_live; eauto|].
    apply safe_bind.
    set (o := nth k (offs 0 line) 0%nat) in *.
    replace (Z.of_nat o - 1) with (Z.of_nat (o - 1)) by lia.
    destruct (wr_spec _ (n_tarr m) (o - 1)%nat 44%N Ta) as (a'&Hwr&Ha'&Hc'&Hlen'&Hsame&Hoth).
    { unfold arr_ok in Ta. lia. }
    eapply safe_lift; [exact Hwr|].
    eapply safe_weaken; [apply (IHn _ s line (S k))|].
    + split; [eapply nled_same_ptrs; [exact L | simpl; auto | simpl; auto | simpl; auto]|]. split; [|unfold NFld; simpl; repeat split; auto; try (rewrite Ef; discriminate)].
      unfold NText; simpl. split; [exact Ha'|]. split; [rewrite Hc'; exact Tl|]. split; [|try rewrite Et; discriminate].
      intros j Hj. destruct (Nat.eq_dec j (o - 1)) as [->|Hne]; [eauto|]. rewrite Hoth by assumption. apply Ti; assumption.
    + unfold Scanned; simpl. auto.
    + lia.
    + lia.
    + intros m' s' (A&B&C&(D1&D2)). split; [exact A|]. split; [exact B|]. split; [exact C|]. split; simpl in *; congruence.
Qed.

(* ==================================================================================================== *)

(* ---- the field accounting keeps every field index of a data line inside the line ---------------------------------- *)
Definition plan_ok (ports : Z) (p : plan) : Prop :=
  match pl_best p with
  | Some (e, f) => 0 <= f /\ f + entry_fields ports e <= pl_fields p /\ (0 < quality e)%nat
  | None => True
  end.

Lemma entry_fields_nonneg : forall ports e, 0 <= ports -> 0 <= entry_fields ports e.
Proof. intros ports e Hp. unfold entry_fields. destruct (e_par e), (e_form e); nia. Qed.

Lemma account_bounds : forall ports l p p', 0 <= ports -> 0 <= pl_fields p -> plan_ok ports p ->
  account ports l p = Some p' -> plan_ok ports p' /\ pl_fields p <= pl_fields p'.
Proof.
  intros ports l. induction l as [|e l IH]; intros p p' Hp H0 Hok H.
  - cbn in H. injection H as <-. split; [exact Hok | lia].
  - cbn [account] in H. pose proof (entry_fields_nonneg ports e Hp) as Hef.
    assert (Hgo : forall pb, 
              (int_max - pl_fields p <? entry_fields ports e) = false ->
              account ports l (mkplan (pl_fields p + entry_fields ports e)
                 (pl_best (if (pl_quality p <? quality e)%nat then mkplan (pl_fields p) (Some (e, pl_fields p)) (quality e) else p))
                 pb) = Some p' -> plan_ok ports p' /\ pl_fields p <= pl_fields p').
    { intros pb _ Ha. apply IH in Ha; try exact Hp; cbn [pl_fields]; try lia.
      - destruct Ha as (A&B). cbn [pl_fields] in B. split; [exact A | lia].
      - unfold plan_ok; cbn [pl_best pl_fields]. destruct (pl_quality p <? quality e)%nat eqn:Eq; cbn [pl_best].
        + apply Nat.ltb_lt in Eq. split; [lia|]. split; [lia | lia].
        + unfold plan_ok in Hok. destruct (pl_best p) as [[e0 f0]|]; [|exact I]. destruct Hok as (A&B&C). split; [lia|]. split; [lia | exact C]. }
    destruct (e_par e) eqn:Ee; try discriminate H;
      (destruct (two_port_type _ && negb (ports =? 2)); [discriminate H|]);
      (destruct (int_max - pl_fields p <? entry_fields ports e) eqn:Ei; [discriminate H|]);
      eapply Hgo; eauto.
Qed.

Definition ctx_bounds (x : nctx) : Prop :=
  0 <= x_ports x /\ 1 <= x_nfields x /\ (x_fz0 x = true -> 1 + 2 * x_ports x <= x_nfields x) /\
  0 <= x_first x /\ 0 <= x_cells x /\ x_first x + 2 * x_cells x <= x_nfields x.

Lemma quality_fields : forall ports e, 0 <= ports -> (0 < quality e)%nat ->
  entry_fields ports e = 2 * (match e_par e with PZIN => ports | _ => ports * ports end).
Proof. intros ports e Hp Hq. unfold quality, entry_fields in *. destruct (e_par e), (e_form e); try lia. Qed.

Lemma post_header_bounds : forall h x, post_header h = inr x -> ctx_bounds x.
Proof.
  intros h x H. unfold post_header in H.
  destruct (legacy_ports h) as [p|]; [|discriminate]. destruct (p <? 0) eqn:E0; [discriminate|]. apply Z.ltb_ge in E0.
  destruct (n_frequencies h <? 0); [discriminate|]. destruct (n_params h) as [l|]; [|discriminate].
  destruct (n_fz0 h && ((int_max - 1) / 2 <? p)); [discriminate|].
  destruct (account p l _) as [pl|] eqn:Ea; [|discriminate].
  apply account_bounds in Ea; try exact I; try assumption; [|cbn [pl_fields]; destruct (n_fz0 h); lia].
  destruct Ea as (Hok&Hmono). cbn [pl_fields] in Hmono. unfold plan_ok in Hok.
  destruct (pl_best pl) as [[e first]|]; [|discriminate]. injection H as <-.
  destruct Hok as (A&B&C). rewrite (quality_fields p e E0 C) in B.
  unfold ctx_bounds; cbn [x_ports x_nfields x_fz0 x_first x_cells].
  split; [exact E0|]. split; [destruct (n_fz0 h); lia|]. split; [intro Hf; rewrite Hf in Hmono; lia|].
  split; [exact A|]. split; [destruct (e_par e); nia | exact B].
Qed.

(* ---- the loader's accesses --------------------------------------------------------------------------------------------- *)
Lemma safe_classify : forall m s line, NInv m s -> Scanned m line -> line <> [] ->
  safe (classify_n m line) s (fun m' s' => s' = s /\ NInv m' s' /\ Scanned m' line /\ same_z m m').
Proof.
  intros m s line HI HS Hne. unfold classify_n. destruct line as [|f0 rest]; [congruence|].
  apply safe_bind.
  assert (Hrd : safe (match f0 with
                      | 35%N :: _ => read_str_n m (f0 :: rest) 0
                      | _ => read_field_n m 0 1
                      end) s (fun _ s' => s' = s)).
  { assert (H1 : safe (read_field_n m 0 1) s (fun _ s' => s' = s)).
    { eapply safe_read_field; eauto; simpl; [lia|]. destruct HS as (_&Ss&_). rewrite Ss. simpl.
      pose proof (total_ge rest (length f0 + 1)%nat). lia. }
    destruct f0 as [|c f0']; [exact H1|].
    destruct c as [|p]; [exact H1|].
    do 6 (destruct p as [p|p|]; try exact H1). apply safe_read_str; auto. simpl; lia. }
  eapply safe_weaken; [exact Hrd|]. intros u s1 He. rewrite He.
  destruct (record_of (f0 :: rest)) as [k flds|flds|];
    try (apply safe_ret; split; [reflexivity|]; split; [exact HI|]; split; [exact HS | split; auto]).
  destruct k; try (apply safe_ret; split; [reflexivity|]; split; [exact HI|]; split; [exact HS | split; auto]).
  destruct rest as [|f1 rest']; [simpl; apply safe_ret; split; [reflexivity|]; split; [exact HI|]; split; [exact HS | split; auto]|].
  apply safe_join; auto. simpl. lia.
Qed.

Lemma safe_z0_alloc : forall m p s, NInv m s -> n_z0 m = None ->
  safe (z0_alloc_n m p) s (fun o s' =>
    match o with
    | None => NInv m s'
    | Some m' => NInv m' s' /\ n_z0 m' <> None /\ n_text m' = n_text m /\ n_tarr m' = n_tarr m /\ n_size m' = n_size m /\
                 n_fld m' = n_fld m /\ n_farr m' = n_farr m /\ n_count m' = n_count m /\ n_log m' = n_log m
    end).
Proof.
  intros m p s HI Hz. unfold z0_alloc_n. pose proof HI as (L&T&F). pose proof L as (Hw&Hnd&Hiff).
  apply safe_bind. eapply safe_weaken; [apply safe_malloc; exact Hw|].
  intros [b|] s1 (Hw1&H1).
  - destruct H1 as (Hb&Hnb&Hids&_). apply safe_ret.
    split; [|simpl; repeat split; auto; discriminate].
    split; [|split; [exact T | exact F]].
    unfold nblocks in *. rewrite Hz in *. simpl in *. rewrite app_nil_r in *.
    destruct (nled_swap (olist (n_text m) ++ olist (n_fld m)) None [] s s1 b Hw) as (A&B).
    + simpl. rewrite app_nil_r. exact Hnd.
    + simpl. intro x. rewrite app_nil_r. apply Hiff.
    + exact Hw1.
    + exact Hnb.
    + intro x. rewrite Hids. simpl. split; [intros [E|E]; [left; auto | right; split; [auto | discriminate]] | intros [E|[E _]]; auto].
    + unfold NLed, nblocks; simpl. split; [exact Hw1|]. rewrite <- app_assoc in A, B. simpl in A, B. split; [exact A | exact B].
  - destruct H1 as (Hids&_). apply safe_ret. eapply ninv_same_ids; eauto.
Qed.

Lemma scanned_same : forall m m' line, Scanned m line -> n_farr m' = n_farr m -> n_count m' = n_count m -> n_size m' = n_size m -> Scanned m' line.
Proof. unfold Scanned; intros m m' line H A B C. rewrite A, B, C. exact H. Qed.

Lemma safe_touch_z0 : forall m s, NInv m s -> n_z0 m <> None -> safe (touch (n_z0 m)) s (fun _ s' => s' = s).
Proof.
  intros m s (L&_) Hz. destruct (n_z0 m) as [b|] eqn:E; [|congruence].
  apply safe_touch; [eapply nled_z0_live; eauto | reflexivity].
Qed.

Definition hm_post (m : nmem) (line : list (list N)) (o : option nmem) (s' : astate) : Prop :=
  match o with
  | None => NInv m s'
  | Some m' => NInv m' s' /\ Scanned m' line /\ (n_z0 m <> None -> n_z0 m' <> None) /\ n_log m' = n_log m
  end.

Lemma safe_header_mem : forall h k line m s, NInv m s -> Scanned m line -> line <> [] ->
  safe (header_mem h k line m) s (hm_post m line).
Proof.
  intros h k line m s HI HS Hne. unfold header_mem.
  assert (Hdone : hm_post m line (Some m) s) by (simpl; auto).
  assert (Hdef : safe ((if (2 <=? length line)%nat then read_str_n m line 1 else ret tt);;; ret (Some m)) s (hm_post m line)).
  { apply safe_bind. destruct (2 <=? length line)%nat eqn:E.
    - apply Nat.leb_le in E. eapply safe_weaken; [apply safe_read_str; auto; lia|]. intros u s1 He. rewrite He. apply safe_ret. exact Hdone.
    - apply safe_ret. apply safe_ret. exact Hdone. }
  destruct k; try exact Hdef.
  - (* parameters *)
    apply safe_bind. destruct line as [|f0 [|f1 rest]]; try (apply safe_ret; apply safe_ret; exact Hdone).
    eapply safe_weaken; [eapply safe_read_field; eauto; simpl; try lia|].
    + destruct HS as (_&Ss&_). rewrite Ss. simpl.
      pose proof (total_ge rest (length f0 + 1 + length f1 + 1)%nat). lia.
    + intros u s1 He. rewrite He. apply safe_ret. exact Hdone.
  - (* z0 *)
    destruct (legacy_ports h) as [p|]; [|apply safe_ret; exact Hdone].
    destruct (p <? 0); [apply safe_ret; exact Hdone|].
    destruct (length line =? 2)%nat eqn:E2.
    { apply Nat.eqb_eq in E2. apply safe_bind. eapply safe_weaken; [apply safe_read_str; auto; lia|].
      intros u s1 He. rewrite He. apply safe_ret. exact Hdone. }
    destruct (Z.of_nat (length line) =? 1 + 2 * p); [|apply safe_ret; exact Hdone].
    apply safe_bind.
    assert (Ha : safe (match n_z0 m with Some _ => ret (Some m) | None => z0_alloc_n m p end) s
                   (fun o s1 => match o with
                                | None => NInv m s1
                                | Some m' => NInv m' s1 /\ Scanned m' line /\ n_z0 m' <> None /\ n_log m' = n_log m
                                end)).
    { destruct (n_z0 m) as [b|] eqn:Ez.
      - apply safe_ret. split; [exact HI|]. split; [exact HS | split; [rewrite Ez; discriminate | reflexivity]].
      - eapply safe_weaken; [apply safe_z0_alloc; auto|]. intros [m'|] s1 H; [|exact H].
        destruct H as (A&B&C1&C2&C3&C4&C5&C6&C7). split; [exact A|]. split; [eapply scanned_same; eauto | split; [exact B | exact C7]]. }
    eapply safe_weaken; [exact Ha|]. intros [m'|] s1 H; [|apply safe_ret; exact H].
    destruct H as (A&B&C&C').  apply safe_bind.
    destruct line as [|f0 rest]; [congruence|].
    eapply safe_weaken; [apply safe_read_strs; eauto; simpl; lia|]. intros u s2 He. rewrite He.
    apply safe_bind. eapply safe_weaken; [apply safe_touch_z0; eauto|]. intros u2 s3 He3. rewrite He3.
    apply safe_ret. simpl. auto.
Qed.

Lemma safe_post_header_mem : forall x m s line, NInv m s -> Scanned m line ->
  safe (post_header_mem x m) s (fun o s' =>
    match o with
    | None => NInv m s'
    | Some m' => NInv m' s' /\ Scanned m' line /\ (x_fz0 x = true -> n_z0 m' <> None) /\ n_log m' = n_log m
    end).
Proof.
  intros x m s line HI HS. unfold post_header_mem. destruct (n_z0 m) as [b|] eqn:Ez.
  - apply safe_bind. apply safe_touch; [destruct HI as (L&_); eapply nled_z0_live; eauto|].
    apply safe_ret. assert (He : s = s) by reflexivity.  split; [exact HI|]. split; [exact HS | split; [intros _; rewrite Ez; discriminate | reflexivity]].
  - destruct (x_fz0 x) eqn:Ef.
    + eapply safe_weaken; [apply safe_z0_alloc; auto|]. intros [m'|] s1 H; [|exact H].
      destruct H as (A&B&C1&C2&C3&C4&C5&C6&C7). split; [exact A|]. split; [eapply scanned_same; eauto | split; [intros _; exact B | exact C7]].
    + apply safe_ret. split; [exact HI|]. split; [exact HS | split; [discriminate | reflexivity]].
Qed.

Lemma safe_data_mem : forall x d line m s, NInv m s -> Scanned m line -> ctx_bounds x ->
  (x_fz0 x = true -> n_z0 m <> None) ->
  safe (data_mem x d line m) s (fun _ s' => s' = s).
Proof.
  intros x d line m s HI HS (B1&B2&B3&B4&B5&B6) Hz. unfold data_mem.
  destruct ((nd_left d <=? 0) || negb (Z.of_nat (length line) =? x_nfields x)) eqn:E; [apply safe_ret; reflexivity|].
  apply orb_false_iff in E. destruct E as (_&E). apply negb_false_iff, Z.eqb_eq in E.
  apply safe_bind. eapply safe_weaken; [apply safe_read_str; auto; lia|]. intros u s1 He. rewrite He.
  apply safe_bind.
  assert (Hf : safe (if x_fz0 x then read_strs_n m line 1 (2 * Z.to_nat (x_ports x));;; touch (n_z0 m) else ret tt) s (fun _ s' => s' = s)).
  { destruct (x_fz0 x) eqn:Ef; [|apply safe_ret; reflexivity].
    specialize (B3 eq_refl). apply safe_bind. eapply safe_weaken; [apply safe_read_strs; auto; lia|].
    intros u1 s2 He2. rewrite He2. apply safe_touch_z0; auto. }
  eapply safe_weaken; [exact Hf|]. intros u2 s3 He3. rewrite He3.
  apply safe_read_strs; auto. lia.
Qed.

(* ==================================================================================================== *)

Definition NLink (st : nmst) (m : nmem) : Prop :=
  match st with
  | NRun (NData x d) => ctx_bounds x /\ (x_fz0 x = true -> n_z0 m <> None)
  | _ => True
  end.
Definition LogOk (m : nmem) : Prop := forallb prec_ok (n_log m) = true.
Definition NSInv (st : nmst * nmem) (s : astate) : Prop := NInv (snd st) s /\ NLink (fst st) (snd st) /\ LogOk (snd st).

Lemma data_step_ctx : forall x d r, match data_step x d r with NData x' _ => x' = x | NErr _ => True | NHeader _ => False end.
Proof.
  intros x d r. unfold data_step. destruct r; try exact I.
  destruct (nd_left d <=? 0); [exact I|]. destruct (data_line x d fields); [reflexivity | exact I].
Qed.

Lemma nlink_data_step : forall x d r m, ctx_bounds x -> (x_fz0 x = true -> n_z0 m <> None) -> NLink (NRun (data_step x d r)) m.
Proof.
  intros x d r m Hb Hz. pose proof (data_step_ctx x d r) as H. destruct (data_step x d r); simpl; auto.
  subst. auto.
Qed.

Lemma ninv_nlog : forall m s e, NInv m s -> NInv (nlog m e) s.
Proof. intros m s e (L&T&F). split; [eapply nled_same_ptrs; eauto | split; [exact T | exact F]]. Qed.
Lemma scanned_nlog : forall m line e, Scanned m line -> Scanned (nlog m e) line.
Proof. intros m line e H. exact H. Qed.

Lemma logok_nlog : forall m e, LogOk m -> forallb prec_ok e = true -> LogOk (nlog m e).
Proof.
  intros m e H He. unfold LogOk, nlog in *; simpl. rewrite forallb_app, H, andb_true_r.
  rewrite forallb_forall in *. intros x Hx. apply He. apply in_rev. exact Hx.
Qed.
Lemma logok_same : forall m m', n_log m' = n_log m -> LogOk m -> LogOk m'.
Proof. unfold LogOk; intros m m' E H. rewrite E. exact H. Qed.
Lemma calls_prec_ok : forall l, forallb prec_ok (map NCall l) = true.
Proof. induction l; simpl; auto. Qed.
Lemma header_events_ok : forall k f, forallb prec_ok (header_events k f) = true.
Proof.
  intros k f. unfold header_events. destruct k; try reflexivity.
  - destruct f as [|a [|b [|c r]]]; try reflexivity. destruct (set_format b); reflexivity.
  - destruct (nnint f) as [z|]; [|reflexivity]. destruct ((z <? 1) || (1000 <? z)) eqn:E; [reflexivity|].
    apply orb_false_iff in E. destruct E as [E _]. simpl. rewrite andb_true_r. apply Z.leb_le. apply Z.ltb_ge in E. exact E.
  - destruct (nnint f) as [z|]; [|reflexivity]. destruct ((z <? 1) || (1000 <? z)) eqn:E; [reflexivity|].
    apply orb_false_iff in E. destruct E as [E _]. simpl. rewrite andb_true_r. apply Z.leb_le. apply Z.ltb_ge in E. exact E.
Qed.
Lemma init_events_ok : forall x, forallb prec_ok (init_events x) = true.
Proof. intro x. unfold init_events. apply calls_prec_ok. Qed.
Lemma data_events_ok : forall x d l, forallb prec_ok (data_events x d l) = true.
Proof. intros. unfold data_events. apply calls_prec_ok. Qed.

Lemma nsinv_intro : forall st m s, NInv m s -> NLink st m -> LogOk m -> NSInv (st, m) s.
Proof. intros; split; [assumption | split; assumption]. Qed.

Lemma safe_nmstep : forall st line s, NSInv st s -> line <> [] ->
  safe (nmstep NFixed st line) s (fun st' s' => NSInv st' s').
Proof.
  intros [ms m] line s (HI&HL&HG) Hne. simpl in HI, HL, HG. unfold nmstep; cbn [fst snd].
  destruct ms as [p|]; [|apply safe_ret; apply nsinv_intro; auto].
  destruct p as [h|x d|c]; [| |apply safe_ret; apply nsinv_intro; auto].
  - (* header *)
    apply safe_bind. eapply safe_weaken; [apply safe_scan_line_fixed; exact HI|].
    intros [ok m1] s1 (HI1&(Z1&Z2&Z3)&HS1). cbn [fst snd] in *. destruct ok; cbn [negb fst snd].
    2:{ apply safe_ret. apply nsinv_intro; [exact HI1 | exact I | eapply logok_same; eauto]. }
    specialize (HS1 eq_refl). apply safe_bind.
    eapply safe_weaken; [apply safe_classify; eauto|].
    intros m2 s2 (He&HI2&HS2&(Y1&Y2&Y3)). subst s2.
    assert (HG2 : LogOk m2) by (eapply logok_same; [|exact HG]; congruence).
    destruct (record_of line) as [k flds|flds|] eqn:Er.
    + apply safe_bind. eapply safe_weaken; [apply safe_header_mem; eauto|].
      intros [m3|] s3 H; apply safe_ret.
      * destruct H as (A&B&C&C'). assert (HG3 : LogOk m3) by (eapply logok_same; eauto).
        unfold nstep; rewrite ?Er.
        destruct (hline_step h k flds); (apply nsinv_intro; [try apply ninv_nlog; exact A | exact I | try (apply logok_nlog; [exact HG3 | apply header_events_ok]); exact HG3]).
      * apply nsinv_intro; [exact H | exact I | exact HG2].
    + destruct (post_header h) as [c|x] eqn:Ep.
      * apply safe_ret. apply nsinv_intro; [exact HI2| |exact HG2]. unfold nstep; rewrite ?Er, ?Ep. exact I.
      * assert (HG2' : LogOk (nlog m2 (init_events x))) by (apply logok_nlog; [exact HG2 | apply init_events_ok]).
        apply safe_bind. eapply safe_weaken; [apply (safe_post_header_mem x _ s1 line); [apply ninv_nlog; exact HI2 | apply scanned_nlog; exact HS2]|].
        intros [m3|] s3 H; [|apply safe_ret; apply nsinv_intro; [exact H | exact I | exact HG2']].
        destruct H as (A&B&C&C'). pose proof (post_header_bounds h x Ep) as Hb.
        assert (HG3 : LogOk m3) by (eapply logok_same; eauto).
        apply safe_bind. eapply safe_weaken; [apply safe_data_mem; eauto|].
        intros u s4 He4. rewrite He4. apply safe_ret. apply nsinv_intro; [apply ninv_nlog; exact A| |apply logok_nlog; [exact HG3 | apply data_events_ok]].
        unfold nstep; rewrite ?Er, ?Ep. apply nlink_data_step; auto.
    + apply safe_ret. apply nsinv_intro; [exact HI2| |exact HG2]. unfold nstep; rewrite ?Er. exact I.
  - (* data *)
    apply safe_bind. eapply safe_weaken; [apply safe_scan_line_fixed; exact HI|].
    intros [ok m1] s1 (HI1&(Z1&Z2&Z3)&HS1). cbn [fst snd] in *. destruct ok; cbn [negb fst snd].
    2:{ apply safe_ret. apply nsinv_intro; [exact HI1 | exact I | eapply logok_same; eauto]. }
    specialize (HS1 eq_refl). apply safe_bind.
    eapply safe_weaken; [apply safe_classify; eauto|].
    intros m2 s2 (He&HI2&HS2&(Y1&Y2&Y3)). subst s2.
    assert (HG2 : LogOk m2) by (eapply logok_same; [|exact HG]; congruence).
    destruct HL as (Hb&Hz).
    assert (Hz2 : x_fz0 x = true -> n_z0 m2 <> None) by (intro Hf; rewrite Y1, Z1; auto).
    apply safe_bind.
    assert (Hd : safe (match record_of line with RecData _ => data_mem x d line m2 | _ => ret tt end) s1 (fun _ s' => s' = s1)).
    { destruct (record_of line); try (apply safe_ret; reflexivity). apply safe_data_mem; auto. }
    eapply safe_weaken; [exact Hd|]. intros u s3 He3. rewrite He3. apply safe_ret.
    apply nsinv_intro.
    + destruct (record_of line); try apply ninv_nlog; exact HI2.
    + apply nlink_data_step; auto. destruct (record_of line); exact Hz2.
    + destruct (record_of line); try (apply logok_nlog; [exact HG2 | apply data_events_ok]); exact HG2.
Qed.

Lemma safe_nmrun : forall lines st s, NSInv st s -> Forall (fun l => l <> []) lines ->
  safe (nmrun NFixed lines st) s (fun st' s' => NSInv st' s').
Proof.
  induction lines as [|l r IH]; intros st s H Hf; simpl.
  - apply safe_ret; exact H.
  - inversion Hf; subst. apply safe_bind. eapply safe_weaken; [apply safe_nmstep; eauto|]. intros st' s' H'. apply IH; auto.
Qed.

Lemma safe_nfinish_mem : forall st s, NSInv st s -> safe (nfinish_mem st) s (fun st' s' => NInv (snd st') s' /\ LogOk (snd st')).
Proof.
  intros [ms m] s (HI&HL&HG). unfold nfinish_mem; cbn [fst snd] in *.
  destruct ms as [[h|x d|c]|]; try (apply safe_ret; split; [exact HI | exact HG]).
  destruct (post_header h) as [c|x]; [apply safe_ret; split; [exact HI | exact HG]|].
  pose proof (ninv_nlog m s (init_events x) HI) as HI0.
  assert (HG0 : LogOk (nlog m (init_events x))) by (apply logok_nlog; [exact HG | apply init_events_ok]).
  set (m0 := nlog m (init_events x)) in *.
  apply safe_bind.
  unfold post_header_mem. destruct (n_z0 m0) as [b|] eqn:Ez.
  - apply safe_bind. apply safe_touch; [destruct HI0 as (L&_); eapply nled_z0_live; eauto|]. apply safe_ret. apply safe_ret. split; [exact HI0 | exact HG0].
  - destruct (x_fz0 x).
    + eapply safe_weaken; [apply safe_z0_alloc; auto|]. intros [m'|] s1 H; apply safe_ret; cbn [snd].
      * destruct H as (A&_&_&_&_&_&_&_&C7). split; [exact A | eapply logok_same; eauto].
      * split; [exact H | exact HG0].
    + apply safe_ret. apply safe_ret. split; [exact HI0 | exact HG0].
Qed.

Lemma safe_ncleanup : forall m s, NInv m s -> safe (ncleanup m) s (fun _ s' => live s' = []).
Proof.
  intros m s ((Hw&Hnd&Hiff)&_). unfold ncleanup, nblocks in *.
  assert (Hfree : forall p s0 (Q : unit -> astate -> Prop), wf s0 -> (forall b, p = Some b -> In b (ids s0)) ->
            (forall s1, wf s1 -> (forall x, In x (ids s1) <-> In x (ids s0) /\ Some x <> p) -> Q tt s1) ->
            safe (free p) s0 Q).
  { intros [b|] s0 Q Hw0 Hin HQ.
    - eapply safe_weaken; [apply safe_free; [exact Hw0 | apply Hin; reflexivity]|].
      intros [] s1 (Hw1&_&Hi1). apply HQ; auto. intro x. rewrite Hi1. split; intros [A B]; split; auto; congruence.
    - exists tt, s0. split; [reflexivity|]. apply HQ; auto. intro x; split; [intro; split; [auto|discriminate] | tauto]. }
  destruct (n_text m) as [bt|]; destruct (n_fld m) as [bf|]; destruct (n_z0 m) as [bz|]; simpl in *;
    repeat match goal with H : NoDup (_ :: _) |- _ => inversion H; clear H; subst end; simpl in *.
  all: apply safe_bind; apply Hfree; [exact Hw | intros b Hb; inversion Hb; subst; apply Hiff; simpl; tauto |].
  all: intros s1 Hw1 Hi1; apply safe_bind; apply Hfree; [exact Hw1 | intros b Hb; inversion Hb; (subst; apply Hi1; split; [apply Hiff; simpl; tauto | intro E; inversion E; subst; simpl in *; tauto]) |].
  all: intros s2 Hw2 Hi2; apply Hfree; [exact Hw2 | intros b Hb; inversion Hb; (subst; apply Hi2; split; [apply Hi1; split; [apply Hiff; simpl; tauto | intro E; inversion E; subst; simpl in *; tauto] | intro E; inversion E; subst; simpl in *; tauto]) |].
  all: intros s3 Hw3 Hi3; apply ids_nil_live_nil; intros x Hx; apply Hi3 in Hx; destruct Hx as [Hx N3]; apply Hi2 in Hx; destruct Hx as [Hx N2];
       apply Hi1 in Hx; destruct Hx as [Hx N1]; apply Hiff in Hx; simpl in Hx; intuition (subst; congruence).
Qed.

Theorem npd_mem_safe_lemma : forall bytes k,
  safe (mem_load_npd NFixed bytes) (start k)
       (fun r s' => live s' = [] /\ forallb prec_ok (nr_calls (snd r)) = true).
Proof.
  intros bytes k. unfold mem_load_npd. apply safe_bind.
  eapply safe_weaken; [apply safe_nmrun; [|apply npd_lines_nonempty]|].
  - split; simpl; [|split; [exact I | reflexivity]]. split; [|split].
    + unfold NLed, nblocks; simpl. split; [apply wf_start|]. split; [constructor | intro x; tauto].
    + unfold NText, arr_ok; simpl. split; [reflexivity|]. split; [lia|]. split; [intros i Hi; lia | reflexivity].
    + unfold NFld, arr_ok; simpl. split; [reflexivity|]. split; [lia | reflexivity].
  - intros st s1 H. apply safe_bind. eapply safe_weaken; [apply safe_nfinish_mem; exact H|].
    intros st' s2 (HI&HG). apply safe_bind. eapply safe_weaken; [apply safe_ncleanup; exact HI|].
    intros u s3 Hl. apply safe_ret. split; [exact Hl|]. cbn [snd nreport_of nr_calls].
    unfold LogOk in HG. rewrite forallb_forall in *. intros x Hx. apply HG. apply in_rev. exact Hx.
Qed.

Theorem npd_no_fault_lemma : forall bytes k f, mem_load_npd NFixed bytes (start k) <> Fault f.
Proof. intros bytes k f H. destruct (npd_mem_safe_lemma bytes k) as (a&s'&He&_). congruence. Qed.

Theorem npd_no_leak_lemma : forall bytes k r s', mem_load_npd NFixed bytes (start k) = Alloc.Ok (r, s') -> live s' = [].
Proof. intros bytes k r s' H. destruct (npd_mem_safe_lemma bytes k) as (a&s2&He&Hl&_). rewrite H in He. inversion He; subst. exact Hl. Qed.

(* every precision the loader has stored is >= 1 (fix DB91) *)
Theorem npd_precisions_ok_lemma : forall bytes k r s', mem_load_npd NFixed bytes (start k) = Alloc.Ok (r, s') -> forallb prec_ok (nr_calls (snd r)) = true.
Proof. intros bytes k r s' H. destruct (npd_mem_safe_lemma bytes k) as (a&s2&He&_&Hp). rewrite H in He. inversion He; subst. exact Hp. Qed.

(* as found (before fix DB90): '#:ports' followed by a 73-character argument; the third request (the realloc that makes
   room for the NUL of that argument, at exactly 81 bytes) fails, end_field ignores it, expect_nnint_arg reads the
   argument as a string: one byte past the block *)
Definition db90_bytes : list N := [35;58;112;111;114;116;115;32]%N ++ repeat 49%N 73 ++ [10%N].
Theorem npd_end_field_orig_refuted_lemma :
  exists bytes k, mem_load_npd NOrig bytes (start (Some k)) = Fault OOB.
Proof. exists db90_bytes, 2%nat. vm_compute. reflexivity. Qed.

(* the same input and failure point with the fix: -1 / ENOMEM, nothing left *)
Theorem npd_end_field_fixed_example_lemma :
  exists rep s, mem_load_npd NFixed db90_bytes (start (Some 2%nat)) = Alloc.Ok ((NMENOMEM, rep), s) /\ live s = [].
Proof. eexists; eexists. vm_compute. split; reflexivity. Qed.
