(* C06 load_save_id, Touchstone part: the loader model (TsParse.parse) applied to the token stream the
   saver model (SaveEmit.save_emit) writes returns the object described by [ts_loaded]: type, format,
   ports, frequencies, reference impedances and every cell as the texts written for them read back.
   Number-text layer: Section hypotheses (what printf / strtod / strtol guarantee), never axioms. *)
Require Import List Arith NArith ZArith QArith Qcanon Bool Lia. Import ListNotations.
Require Import LV.Files.TsTok LV.Files.TsParse LV.Files.TsParseBasics LV.Files.TsSpec LV.Files.TsSpecV2 LV.Files.TsLoadV2.
Require Import LV.Files.TsSpecV1 LV.Files.TsLoadV1 LV.Files.TsEquiv LV.Files.SaveTsLemmas.
Require Import LV.Files.NpdScan LV.Files.SaveModel LV.Files.SaveProofs LV.Files.SaveEmit.

Local Opaque parse_double parse_int.
Local Open Scope nat_scope.

Lemma map_flat_map : forall A B C (g : B -> C) (f : A -> list B) l, map g (flat_map f l) = flat_map (fun x => map g (f x)) l.
Proof. intros. induction l; simpl; [reflexivity |]. rewrite map_app, IHl. reflexivity. Qed.
Lemma strip_flat_map : forall A (f : A -> list rtok) l, strip (flat_map f l) = flat_map (fun x => strip (f x)) l.
Proof. intros. induction l; simpl; [reflexivity |]. rewrite strip_app, IHl. reflexivity. Qed.
Lemma strip_words : forall l, strip (map wnum l) = map wnum l.
Proof. induction l; simpl; [reflexivity |]. unfold strip in *. simpl. rewrite IHl. reflexivity. Qed.
Lemma strip_cons_keep : forall x l, is_nlf x = false -> strip (x :: l) = x :: strip l.
Proof. intros x l H. unfold strip. cbn [filter]. rewrite H. reflexivity. Qed.
Lemma strip_cons : forall x l, strip (x :: l) = (if is_nlf x then [] else [x]) ++ strip l.
Proof. intros x l. unfold strip. cbn [filter]. destruct (is_nlf x); reflexivity. Qed.
Lemma strip_nil : strip [] = [].
Proof. reflexivity. Qed.
Lemma strip_cons_nl : forall l, strip (RNl false :: l) = strip l.
Proof. reflexivity. Qed.
Lemma strip_map_word : forall A (g : A -> list N) b l, strip (map (fun z => RWord (g z) b) l) = map (fun z => RWord (g z) b) l.
Proof. intros. induction l; [reflexivity |]. cbn [map]. rewrite strip_cons_keep by reflexivity. rewrite IHl. reflexivity. Qed.
Lemma map_i_length : forall A B (f : nat -> A -> B) l i, length (map_i f i l) = length l.
Proof. induction l; intros; simpl; [reflexivity |]. rewrite IHl. reflexivity. Qed.
Lemma map_i_map : forall A B C (g : B -> C) (f : nat -> A -> B) l i, map g (map_i f i l) = map_i (fun k x => g (f k x)) i l.
Proof. induction l; intros; simpl; [reflexivity |]. rewrite IHl. reflexivity. Qed.
Lemma map_i_ext : forall A B (f g : nat -> A -> B) l i, (forall k x, f k x = g k x) -> map_i f i l = map_i g i l.
Proof. induction l; intros; simpl; [reflexivity |]. rewrite H, (IHl _ H). reflexivity. Qed.
Lemma Forall_map_i : forall A B (P : B -> Prop) (f : nat -> A -> B) l i, (forall k x, In x l -> P (f k x)) -> Forall P (map_i f i l).
Proof. induction l; intros; simpl; constructor; [apply H; left; reflexivity |]. apply IHl. intros. apply H. right. assumption. Qed.

Lemma skipn_nth_cons : forall A i (l : list A) d, i < length l -> skipn i l = nth i l d :: skipn (S i) l.
Proof. induction i; intros [| x l] d H; simpl in H; try lia; [reflexivity |]. cbn [skipn nth]. apply IHi. lia. Qed.

Lemma xmul_one_l : forall x, xmul (XQ (qcz 1)) x = x.
Proof.
  intros [q | s |].
  - cbn. f_equal. change (qcz 1) with 1%Qc. apply Qcmult_1_l.
  - destruct s; vm_compute; reflexivity.
  - reflexivity.
Qed.

Lemma xeqb_eq : forall a b, xeqb a b = true -> a = b.
Proof.
  intros [p | [] |] [q | [] |] H; unfold xeqb in H; cbn in H; try discriminate; try reflexivity.
  apply andb_prop in H as [H1 H2]. apply Qle_bool_iff in H1, H2. f_equal. apply Qc_is_canon. apply Qle_antisym; assumption.
Qed.

Definition exact_prec (p : Z) : bool := (p =? max_prec)%Z || (17 <=? p)%Z.

Section TS.
  Variable D : Type.
  Variable E : env D.
  Variable rd : Z -> D -> xnum.                    (* strtod of what print_value wrote for x at precision p *)
  Variable rda : Z -> bool -> D -> xnum.           (* strtod of the angle text *)
  Hypothesis ptext_word : forall p s x, parse_double (up (v_ptext E p s x)) = Some (rd p x).
  Hypothesis atext_word : forall ap z x, parse_double (up (v_atext E ap z x)) = Some (rda ap z x).
  Hypothesis itext_int : forall z, (0 <= z <= 2147483647)%Z -> parse_int (v_itext E z) = Some z.
  (* a value that is > 0 reads back > 0 *)
  Hypothesis rd_sign : forall p x, xlt xq0 (v_val E x) = true -> xlt xq0 (rd p x) = true.

  Definition pnum (p : Z) (s : bool) (x : D) : num := mknum (up (v_ptext E p s x)) (rd p x).
  Definition anum (ap : Z) (z : bool) (x : D) : num := mknum (up (v_atext E ap z x)) (rda ap z x).
  Lemma pnum_ok : forall p s x, num_ok (pnum p s x). Proof. intros. apply ptext_word. Qed.
  Lemma anum_ok : forall p s x, num_ok (anum p s x). Proof. intros. apply atext_word. Qed.

  Definition pair_nums (o : mobj D) (f : form) (v : cx D) : list num :=
    match f with
    | DB => [pnum (m_dprec o) true (v_db E v); anum (aprec o) false (v_deg E v)]
    | MA => [pnum (m_dprec o) false (v_mag E v); anum (aprec o) false (v_deg E v)]
    | _ => [pnum (m_dprec o) true (fst v); pnum (m_dprec o) true (snd v)]
    end.
  (* the cell the loader holds for a cell written in form f: the pair as read, scale 1 *)
  Definition loaded_cell (o : mobj D) (f : form) (v : cx D) : TsParse.cell :=
    match f with
    | DB => mkcell (rd (m_dprec o) (v_db E v)) (rda (aprec o) false (v_deg E v)) xq1
    | MA => mkcell (rd (m_dprec o) (v_mag E v)) (rda (aprec o) false (v_deg E v)) xq1
    | _ => mkcell (rd (m_dprec o) (fst v)) (rd (m_dprec o) (snd v)) xq1
    end.
  Lemma pair_nums_texts : forall o f v, map wnum (pair_nums o f v) = map (fun t => RWord (up t) false) (pair_texts E o f v).
  Proof. intros o [] v; reflexivity. Qed.
  Lemma pair_nums_ok : forall o f v, Forall num_ok (pair_nums o f v).
  Proof. intros o [] v; repeat constructor; try apply pnum_ok; apply anum_ok. Qed.
  Lemma pair_nums_length : forall o f v, length (pair_nums o f v) = 2.
  Proof. intros o [] v; reflexivity. Qed.
  Lemma pairs_of_pair_nums : forall o f v rest,
    pairs_of (map n_val (pair_nums o f v) ++ rest) = loaded_cell o f v :: pairs_of rest.
  Proof. intros o [] v rest; reflexivity. Qed.

  (* the numbers of one frequency in file order; tr: the 2-port Touchstone 1 column-major order *)
  Definition cell_nums (o : mobj D) (rows ports : nat) (f : form) (tr : bool) (m : list (cx D)) : list num :=
    flat_map (fun r => flat_map (fun c => pair_nums o f (if tr then cell E ports m c r else cell E ports m r c)) (seq 0 ports)) (seq 0 rows).

  Lemma strip_break : forall ports r c, strip (ts_break ports r c) = [].
  Proof. intros. unfold ts_break. destruct (_ || _); reflexivity. Qed.

  Lemma strip_ts_cells : forall v1 o rows ports f m,
    strip (ts_cells E v1 o rows ports f m) = map wnum (cell_nums o rows ports f (v1 && Nat.eqb ports 2) m).
  Proof.
    intros. unfold ts_cells, cell_nums. rewrite strip_flat_map, map_flat_map. apply flat_map_ext. intro r.
    rewrite strip_flat_map, map_flat_map. apply flat_map_ext. intro c.
    rewrite strip_app, strip_break. cbn [app]. rewrite <- pair_nums_texts, strip_words. reflexivity.
  Qed.

  Lemma cell_nums_ok : forall o rows ports f tr m, Forall num_ok (cell_nums o rows ports f tr m).
  Proof.
    intros. unfold cell_nums. apply Forall_flat_map, Forall_forall. intros r _. apply Forall_flat_map, Forall_forall. intros c _.
    apply pair_nums_ok.
  Qed.
  Lemma flat_map_length_const : forall A B (f : A -> list B) k l, (forall x, length (f x) = k) -> length (flat_map f l) = length l * k.
  Proof. intros. induction l; simpl; [reflexivity |]. rewrite app_length, H, IHl. reflexivity. Qed.
  Lemma cell_nums_length : forall o rows ports f tr m, length (cell_nums o rows ports f tr m) = 2 * (rows * ports).
  Proof.
    intros. unfold cell_nums. rewrite (flat_map_length_const _ _ _ (ports * 2)).
    - rewrite seq_length. lia.
    - intro r. rewrite (flat_map_length_const _ _ _ 2); [rewrite seq_length; reflexivity |]. intro c. apply pair_nums_length.
  Qed.

  Lemma pairs_of_flat : forall A o f (g : A -> cx D) l rest,
    pairs_of (map n_val (flat_map (fun x => pair_nums o f (g x)) l) ++ rest) = map (fun x => loaded_cell o f (g x)) l ++ pairs_of rest.
  Proof.
    intros. induction l as [| x l IH]; [reflexivity |]. cbn [flat_map map]. rewrite map_app, <- app_assoc, pairs_of_pair_nums, IH. reflexivity.
  Qed.
  Lemma pairs_of_cell_nums : forall o rows ports f m, length m = rows * ports ->
    pairs_of (map n_val (cell_nums o rows ports f false m)) = map (loaded_cell o f) m.
  Proof.
    intros o rows ports f m H. unfold cell_nums. cbv iota.
    transitivity (flat_map (fun r => map (fun c => loaded_cell o f (cell E ports m r c)) (seq 0 ports)) (seq 0 rows)).
    - generalize (seq 0 rows). intro rs. induction rs as [| r rs IH]; [reflexivity |].
      cbn [flat_map]. rewrite map_app, pairs_of_flat, IH. reflexivity.
    - unfold cell. apply grid_nth. exact H.
  Qed.

  (* ---- what the acceptance checks guarantee for a Touchstone file type -------------------------------- *)
  Definition ts_facts (s : sobj) (e : entry) : Prop :=
    resolved s = [e] /\ (e_par e = PS \/ e_par e = PZ \/ e_par e = PY \/ e_par e = PH \/ e_par e = PG) /\
    ri_ma_db (e_form e) = true /\ is_matrix (o_type s) = true /\
    o_per_f_z0 s = false /\ o_z0_real_pos s = true /\ o_rows s = o_ports s /\ 1 <= o_ports s /\ o_freqs s <> 0 /\
    (two_port_only (e_par e) = true -> o_ports s = 2) /\
    (o_filetype s = TS1 -> (o_ports s <= 4 \/ o_promote s = true) /\ (o_z0_equal s = true \/ o_promote s = true)).

  Lemma cksave_ts_facts : forall s, wf_obj s = true -> cksave s = true -> o_filetype s <> NPD -> exists e, ts_facts s e.
  Proof.
    intros s Hwf Hck Hft. unfold cksave, cksave_gen in Hck.
    apply andb_prop in Hck as [Hck Hconv]. apply andb_prop in Hck as [Hck Hfc]. apply andb_prop in Hck as [Hck Hfreq].
    apply andb_prop in Hck as [Hck Hports].
    unfold filetype_checks in Hfc. unfold convertible_check in Hconv. unfold ts_facts, resolved.
    assert (Hl : exists e0, eff_format s = [e0]).
    { destruct (eff_format s) as [| e0 [| e1 l]] eqn:El; try (eexists; reflexivity).
      - unfold eff_format in El; destruct (o_format s); discriminate.
      - destruct (o_filetype s); try congruence; cbn in Hfc; discriminate. }
    destruct Hl as [e0 El]. rewrite El in *. exists (Build_entry (resolve (o_type s) e0) (e_form e0)).
    cbn [map e_par e_form forallb firstn length] in *. rewrite andb_true_r in Hconv.
    apply andb_prop in Hconv as [Hm H2].
    assert (Hts : ts_param (resolve (o_type s) e0) = true /\ ri_ma_db (e_form e0) = true /\ negb (o_per_f_z0 s) = true /\ o_z0_real_pos s = true /\
                  (o_filetype s = TS1 -> ((o_ports s <=? 4) || o_promote s) && (o_z0_equal s || o_promote s) = true)).
    { destruct (o_filetype s) eqn:Ef; try congruence.
      - apply andb_prop in Hfc as [Hfc T1]. apply andb_prop in Hfc as [Hfc Z]. apply andb_prop in Hfc as [Hfc Pz].
        apply andb_prop in Hfc as [_ Hfc]. rewrite andb_true_r in Hfc. apply andb_prop in Hfc as [Tp Rf].
        repeat split; try assumption. intros _. exact T1.
      - apply andb_prop in Hfc as [Hfc T1]. apply andb_prop in Hfc as [Hfc Z]. apply andb_prop in Hfc as [Hfc Pz].
        apply andb_prop in Hfc as [_ Hfc]. rewrite andb_true_r in Hfc. apply andb_prop in Hfc as [Tp Rf].
        repeat split; try assumption. intro; discriminate. }
    destruct Hts as (Ht & Hf & Hz & Hrp & H1).
    assert (Hnu : o_type s <> PUNDEF) by (destruct (o_type s); try discriminate; discriminate Hck).
    assert (Hr : resolve (o_type s) e0 <> PUNDEF) by (apply resolve_not_undef; exact Hnu).
    split; [reflexivity |]. split.
    { destruct (resolve (o_type s) e0); try discriminate Ht; try congruence; tauto. }
    split; [exact Hf |].
    assert (Hmat : is_matrix (o_type s) = true).
    { destruct (resolve (o_type s) e0); try discriminate Ht; try congruence; cbn in Hm; exact Hm. }
    split; [exact Hmat |].
    split; [destruct (o_per_f_z0 s); [discriminate | reflexivity] |].
    split; [exact Hrp |].
    unfold wf_obj, wf_dims in Hwf.
    split.
    { destruct (o_type s); try discriminate Hmat; try (apply Nat.eqb_eq; exact Hwf);
        apply andb_prop in Hwf; destruct Hwf as [A B]; apply Nat.eqb_eq in A, B; congruence. }
    split; [apply Nat.leb_le; exact Hports |].
    split; [intro Hz0; rewrite Hz0 in Hfreq; discriminate |].
    split.
    { intro H2p. rewrite H2p in H2. cbn in H2. apply Nat.eqb_eq. exact H2. }
    intro Ef. specialize (H1 Ef). apply andb_prop in H1. destruct H1 as [A B].
    apply orb_prop in A. apply orb_prop in B. split.
    - destruct A as [A | A]; [left; apply Nat.leb_le; exact A | right; exact A].
    - exact B.
  Qed.

  (* ---- the abstract version-2 file the saver writes ------------------------------------------------------ *)
  Definition ts_ptype (t : NpdScan.ptype) : TsParse.ptype :=
    match t with PZ => TsParse.PZ | PY => TsParse.PY | PH => TsParse.PH | PG => TsParse.PG | _ => TsParse.PS end.
  Definition ts_dfmt (f : form) : dfmt := match f with DB => FDB | MA => FMA | _ => FRI end.
  Definition rec_of (o : mobj D) (rows ports : nat) (f : form) (tr : bool) (data : list (list (cx D))) (i : nat) (fq : D) : num * list num :=
    (pnum (m_fprec o) false fq, cell_nums o rows ports f tr (nth i data [])).
  Definition ts_opts (o : mobj D) (e : entry) (z0t : D) : list ofield :=
    [OFKw OHz; OFKw (ts_type_kw (e_par e)); OFKw (ts_form_kw (e_form e)); OFR (pnum (m_dprec o) false z0t)].
  Definition v2_of (o : mobj D) (e : entry) : v2file :=
    mkv2file (ts_opts o e (fst (hd (c0 E) (m_z0 o))))
      (mkinum (v_itext E (Z.of_nat (m_rows o))) (Z.of_nat (m_rows o)))
      (if Nat.eqb (m_rows o) 2 then Some false else None)
      (mkinum (v_itext E (Z.of_nat (length (m_freqs o)))) (Z.of_nat (length (m_freqs o))))
      None
      (if ts_mixed_z0 E o then Some (map (fun z => pnum (m_dprec o) false (fst z)) (firstn (m_rows o) (m_z0 o))) else None)
      (map_i (rec_of o (m_rows o) (m_ports o) (e_form e) false (convert_obj E o (e_par e))) 0 (m_freqs o))
      true.

  (* the object the version-2 loader returns *)
  Definition ts2_loaded (o : mobj D) (e : entry) : tsobj :=
    mkobj true (ts_ptype (e_par e)) (ts_dfmt (e_form e)) (m_rows o)
      (map (rd (m_fprec o)) (m_freqs o))
      (if ts_mixed_z0 E o then map (fun z => rd (m_dprec o) (fst z)) (firstn (m_rows o) (m_z0 o))
       else repeat (rd (m_dprec o) (fst (hd (c0 E) (m_z0 o)))) (m_rows o))
      (map (map (loaded_cell o (e_form e))) (convert_obj E o (e_par e))).

  (* invariants of a vnadata_t the model object must have (vnadata_init / resize establish them) *)
  Definition mobj_wf (o : mobj D) : Prop :=
    length (m_z0 o) = m_ports o /\ length (m_data o) = length (m_freqs o) /\
    Forall (fun m => length m = m_rows o * m_ports o) (m_data o) /\
    (Z.of_nat (m_rows o) <= 46340)%Z /\ (Z.of_nat (length (m_freqs o)) <= 2147483647)%Z.
  (* the frequencies as written at fprecision read back non-negative and strictly ascending (the loaders insist on it) *)
  Definition freqs_readable (o : mobj D) : Prop :=
    Forall (fun f => xlt (rd (m_fprec o) f) xq0 = false) (m_freqs o) /\ ascending (map (rd (m_fprec o)) (m_freqs o)).
  (* vnadata_convert between matrix types keeps the number of cells *)
  Definition conv_keeps_length : Prop :=
    forall a b z m, is_matrix a = true -> is_matrix b = true -> length (v_conv E a b z m) = length m.

  Lemma strip_records : forall o rows ports e data fs i,
    strip (concat (map_i (ts_record E false o rows ports e data) i fs)) =
    strip (flat_map (fun r => wnum (fst r) :: map wnum (snd r) ++ [TsSpec.nl]) (map_i (rec_of o rows ports (e_form e) false data) i fs)).
  Proof.
    intros o rows ports e data fs. induction fs as [| fq fs IH]; intros i; [reflexivity |].
    cbn [map_i concat flat_map]. rewrite !strip_app, IH. f_equal.
    unfold ts_record, rec_of. cbn [fst snd].
    change (RWord (up (v_ptext E (m_fprec o) false fq)) false) with (wnum (pnum (m_fprec o) false fq)).
    change (?x :: ?l) with ([x] ++ l). rewrite !strip_app, strip_ts_cells. cbn [andb]. rewrite strip_words. reflexivity.
  Qed.

  Lemma convert_obj_wf : forall o t, conv_keeps_length -> mobj_wf o -> is_matrix (m_type o) = true -> is_matrix t = true ->
    length (convert_obj E o t) = length (m_freqs o) /\ Forall (fun m => length m = m_rows o * m_ports o) (convert_obj E o t).
  Proof.
    intros o t Hc (Hz & Hd & Hm & _) Ht1 Ht2. unfold convert_obj. destruct (ptype_eqb t (m_type o)); [split; assumption |].
    split; [rewrite map_i_length; exact Hd |].
    apply Forall_map_i. intros k x Hin. rewrite Hc by assumption. rewrite Forall_forall in Hm. apply Hm. exact Hin.
  Qed.

  Lemma nth_map_i_rec : forall A B (f : nat -> A -> B) l i k d, k < length l -> nth k (map_i f i l) (f (i + k) d) = f (i + k) (nth k l d).
  Proof.
    induction l as [| x l IH]; intros i k d H; [simpl in H; lia |].
    destruct k; cbn [map_i nth]; [rewrite Nat.add_0_r; reflexivity |].
    replace (i + S k) with (S i + k) by lia. apply IH. simpl in H. lia.
  Qed.

  (* cells of the records = the loaded cells of the data, frequency by frequency *)
  Lemma records_cells : forall o n f data fs i, Forall (fun m => length m = n * n) data -> i + length fs = length data ->
    map (fun r => build_matrix MFull false n (map n_val (snd r))) (map_i (rec_of o n n f false data) i fs) =
    map (map (loaded_cell o f)) (skipn i data).
  Proof.
    intros o n f data fs. induction fs as [| fq fs IH]; intros i Hd Hl.
    - cbn. rewrite skipn_all2 by (simpl in Hl; lia). reflexivity.
    - cbn [map_i map]. cbn [length] in Hl.
      assert (Hi : i < length data) by lia.
      rewrite IH by (assumption || lia).
      rewrite (skipn_nth_cons _ i data []) by exact Hi. cbn [map]. f_equal.
      unfold rec_of. cbn [snd].
      assert (Hlen : length (nth i data []) = n * n) by (rewrite Forall_forall in Hd; apply Hd; apply nth_In; exact Hi).
      rewrite build_full_id by (rewrite map_length, cell_nums_length; lia).
      apply pairs_of_cell_nums. exact Hlen.
  Qed.

  Lemma freqs_of_records : forall o rows ports f tr data fs i,
    map (fun r => xmul (XQ (qcz 1)) (n_val (fst r))) (map_i (rec_of o rows ports f tr data) i fs) = map (rd (m_fprec o)) fs.
  Proof.
    intros o rows ports f tr data fs. induction fs as [| fq fs IH]; intro i; [reflexivity |].
    cbn [map_i map]. rewrite IH. unfold rec_of at 1. cbn [fst pnum n_val]. rewrite xmul_one_l. reflexivity.
  Qed.

  Lemma parse_v2_strip' : forall x y a b,
    x = [RKw KVersion; RWord txt_2_0 false; RNl false; ROption] ++ a ->
    y = [RKw KVersion; RWord txt_2_0 false; RNl false; ROption] ++ b -> strip a = strip b -> parse x = parse y.
  Proof. intros; subst; apply parse_v2_strip; assumption. Qed.

  Theorem ts2_load_save_lemma : forall o ft0 promote fmt,
    conv_keeps_length -> mobj_wf o -> wf_obj (sobj_of E o ft0 promote fmt) = true ->
    cksave (sobj_of E o ft0 promote fmt) = true -> final_filetype (sobj_of E o ft0 promote fmt) = TS2 -> freqs_readable o ->
    exists st e, resolved (sobj_of E o ft0 promote fmt) = [e] /\ save_emit E o ft0 promote fmt = STouchstone st /\
                 parse st = Ok (ts2_loaded o e).
  Proof.
    intros o ft0 promote fmt Hconv Hwf Hwfo Hck Hfin Hfr.
    set (s := sobj_of E o ft0 promote fmt) in *.
    assert (Hnpd : o_filetype s <> NPD).
    { intro X. unfold final_filetype in Hfin. rewrite X in Hfin. discriminate. }
    destruct (cksave_ts_facts s Hwfo Hck Hnpd) as [e F].
    destruct F as (Hres & Hpar & Hform & Hmat & Hpf & Hrp & Hrows & Hp1 & Hf0 & H2p & _).
    change (o_rows s) with (m_rows o) in *. change (o_ports s) with (m_ports o) in *.
    change (o_type s) with (m_type o) in *. change (o_freqs s) with (length (m_freqs o)) in *.
    eexists. exists e. split; [exact Hres |]. split.
    { unfold save_emit. fold s. rewrite Hfin, Hres. cbn [hd print_obj]. reflexivity. }
    transitivity (parse (v2_stream (v2_of o e))).
    - eapply parse_v2_strip'.
      + unfold ts_header. cbn [app]. reflexivity.
      + unfold v2_stream. cbn [app]. reflexivity.
      + cbn [f_opts f_ports f_order f_nfreq f_matrix f_ref f_records f_end v2_of i_text].
        cbn [render_opts ts_opts flat_map render_ofield app negb].
        unfold nl, TsSpec.nl.
        destruct (m_rows o =? 2); destruct (ts_mixed_z0 E o);
          repeat (rewrite ?strip_app, ?strip_cons, ?strip_nil); cbn [is_nlf app];
          rewrite ?strip_records, ?strip_map_word, ?strip_words, ?map_map, ?app_nil_r, <- ?app_assoc; cbn [app]; reflexivity.
    - assert (Hn : f_n (v2_of o e) = m_rows o) by (unfold f_n; cbn; apply Nat2Z.id).
      assert (Hh : opts_hdr true (f_opts (v2_of o e)) =
                   mkhdr true (qcz 1) (ts_ptype (e_par e)) (ts_dfmt (e_form e)) (rd (m_dprec o) (fst (hd (c0 E) (m_z0 o)))) (-1) None (-1) (-1) MFull None).
      { cbn [v2_of f_opts]. unfold opts_hdr, ts_opts. cbn [fold_left apply_ofield pnum n_val].
        destruct Hpar as [P | [P | [P | [P | P]]]]; rewrite P; destruct (e_form e); try discriminate Hform; reflexivity. }
      destruct Hwf as (Hz & Hd & Hm & Hr46 & Hnf).
      destruct (convert_obj_wf o (e_par e) Hconv (conj Hz (conj Hd (conj Hm (conj Hr46 Hnf)))) Hmat) as [Hcl Hcm].
      { destruct Hpar as [P | [P | [P | [P | P]]]]; rewrite P; reflexivity. }
      destruct Hfr as [Hfnn Hasc].
      assert (Hpos : forall z, In z (firstn (m_rows o) (m_z0 o)) -> xlt xq0 (rd (m_dprec o) (fst z)) = true).
      { intros z Hin. apply rd_sign. unfold s, sobj_of, z0_real_pos in Hrp. cbn [o_z0_real_pos] in Hrp.
        rewrite forallb_forall in Hrp. rewrite Hrows in Hin. specialize (Hrp z Hin).
        apply andb_prop in Hrp as [_ Hrp]. exact Hrp. }
      rewrite v2_load_lemma.
      + f_equal. unfold v2_result, ts2_loaded. rewrite Hh, Hn. cbn [h_type h_fmt h_z0 h_mult]. f_equal.
        * unfold v2_freqs. rewrite Hh. cbn [h_mult v2_of f_records]. apply freqs_of_records.
        * cbn [v2_of f_ref]. destruct (ts_mixed_z0 E o); [| reflexivity]. rewrite map_map. reflexivity.
        * cbn [v2_of f_records f_matrix f_order f_mf]. 
          assert (X : (if m_rows o =? 2 then Some false else None) = Some true -> False) by (destruct (m_rows o =? 2); discriminate).
          replace (match (if m_rows o =? 2 then Some false else None) with Some true => true | _ => false end) with false
            by (destruct (m_rows o =? 2); reflexivity).
          rewrite <- Hrows. rewrite records_cells; [reflexivity | | rewrite Hcl; reflexivity].
          eapply Forall_impl; [| exact Hcm]. cbv beta. intros m Hm'. rewrite Hm', Hrows. reflexivity.
      + unfold v2_wf. rewrite Hh, Hn. cbn [h_type h_mult v2_of f_opts f_ports f_order f_nfreq f_ref f_records i_val i_text].
        split.
        { unfold ts_opts. constructor; [exact I |]. constructor; [cbn; destruct (e_par e); exact I |].
          constructor; [cbn; destruct (e_form e); exact I |]. constructor; [| constructor]. split; [apply pnum_ok |].
          unfold positive_x. cbn [pnum n_val]. destruct (m_z0 o) as [| z0 zr] eqn:Ez; [simpl in Hz; lia |].
          apply (Hpos z0). destruct (m_rows o); [lia |]. left. reflexivity. }
        cbn [i_val i_text]. split; [unfold inum_ok; cbn [i_val i_text]; apply itext_int; lia |]. split; [lia |].
        split.
        { split; intro X.
          - assert (m_rows o = 2) by lia. rewrite H. discriminate.
          - destruct (Nat.eqb_spec (m_rows o) 2) as [Y | Y]; [lia | congruence]. }
        split.
        { intro X. rewrite Hrows. rewrite H2p; [reflexivity |].
          destruct Hpar as [P | [P | [P | [P | P]]]]; rewrite P in *; try discriminate X; reflexivity. }
        split; [unfold inum_ok; cbn [i_val i_text]; apply itext_int; lia |]. split; [rewrite map_i_length; reflexivity |].
        split.
        { destruct (ts_mixed_z0 E o); [| exact I]. split.
          - rewrite map_length, firstn_length, Hz, Hrows. lia.
          - apply Forall_forall. intros n Hin. apply in_map_iff in Hin. destruct Hin as (z & <- & Hin).
            split; [apply pnum_ok | apply (Hpos z Hin)]. }
        split.
        { apply Forall_map_i. intros k fq Hin. unfold rec_of. cbn [fst snd pnum n_val].
          split; [apply pnum_ok |]. split; [rewrite Forall_forall in Hfnn; apply Hfnn; exact Hin |].
          split; [apply cell_nums_ok |]. rewrite cell_nums_length. unfold f_pairs, f_mf. rewrite Hn. cbn [v2_of f_matrix]. rewrite Hrows. reflexivity. }
        unfold v2_freqs. rewrite Hh. cbn [h_mult v2_of f_records]. rewrite freqs_of_records. exact Hasc.
  Qed.

  (* save_denotes, Touchstone 2: up to line breaks the stream written IS the stream TsSpec prescribes for the abstract
     version-2 file of the object, and that file is well formed *)
  Lemma ts2_save_denotes_lemma : forall o ft0 promote fmt,
    conv_keeps_length -> mobj_wf o -> wf_obj (sobj_of E o ft0 promote fmt) = true ->
    cksave (sobj_of E o ft0 promote fmt) = true -> final_filetype (sobj_of E o ft0 promote fmt) = TS2 -> freqs_readable o ->
    exists st e, resolved (sobj_of E o ft0 promote fmt) = [e] /\ save_emit E o ft0 promote fmt = STouchstone st /\
                 strip st = strip (v2_stream (v2_of o e)) /\ v2_wf (v2_of o e).
  Proof.
    intros o ft0 promote fmt Hconv Hwf Hwfo Hck Hfin Hfr.
    set (s := sobj_of E o ft0 promote fmt) in *.
    assert (Hnpd : o_filetype s <> NPD).
    { intro X. unfold final_filetype in Hfin. rewrite X in Hfin. discriminate. }
    destruct (cksave_ts_facts s Hwfo Hck Hnpd) as [e F].
    destruct F as (Hres & Hpar & Hform & Hmat & Hpf & Hrp & Hrows & Hp1 & Hf0 & H2p & _).
    change (o_rows s) with (m_rows o) in *. change (o_ports s) with (m_ports o) in *.
    change (o_type s) with (m_type o) in *. change (o_freqs s) with (length (m_freqs o)) in *.
    eexists. exists e. split; [exact Hres |]. split.
    { unfold save_emit. fold s. rewrite Hfin, Hres. cbn [hd print_obj]. reflexivity. }
    split.
    { unfold ts_header, v2_stream. cbn [app].
      cbn [f_opts f_ports f_order f_nfreq f_matrix f_ref f_records f_end v2_of i_text].
        cbn [render_opts ts_opts flat_map render_ofield app negb].
        unfold nl, TsSpec.nl.
        destruct (m_rows o =? 2); destruct (ts_mixed_z0 E o);
          repeat (rewrite ?strip_app, ?strip_cons, ?strip_nil); cbn [is_nlf app];
          rewrite ?strip_records, ?strip_map_word, ?strip_words, ?map_map, ?app_nil_r, <- ?app_assoc; cbn [app]; reflexivity. }
    assert (Hn : f_n (v2_of o e) = m_rows o) by (unfold f_n; cbn; apply Nat2Z.id).
      assert (Hh : opts_hdr true (f_opts (v2_of o e)) =
                   mkhdr true (qcz 1) (ts_ptype (e_par e)) (ts_dfmt (e_form e)) (rd (m_dprec o) (fst (hd (c0 E) (m_z0 o)))) (-1) None (-1) (-1) MFull None).
      { cbn [v2_of f_opts]. unfold opts_hdr, ts_opts. cbn [fold_left apply_ofield pnum n_val].
        destruct Hpar as [P | [P | [P | [P | P]]]]; rewrite P; destruct (e_form e); try discriminate Hform; reflexivity. }
      destruct Hwf as (Hz & Hd & Hm & Hr46 & Hnf).
      destruct (convert_obj_wf o (e_par e) Hconv (conj Hz (conj Hd (conj Hm (conj Hr46 Hnf)))) Hmat) as [Hcl Hcm].
      { destruct Hpar as [P | [P | [P | [P | P]]]]; rewrite P; reflexivity. }
      destruct Hfr as [Hfnn Hasc].
      assert (Hpos : forall z, In z (firstn (m_rows o) (m_z0 o)) -> xlt xq0 (rd (m_dprec o) (fst z)) = true).
      { intros z Hin. apply rd_sign. unfold s, sobj_of, z0_real_pos in Hrp. cbn [o_z0_real_pos] in Hrp.
        rewrite forallb_forall in Hrp. rewrite Hrows in Hin. specialize (Hrp z Hin).
        apply andb_prop in Hrp as [_ Hrp]. exact Hrp. }
      unfold v2_wf. rewrite Hh, Hn. cbn [h_type h_mult v2_of f_opts f_ports f_order f_nfreq f_ref f_records i_val i_text].
        split.
        { unfold ts_opts. constructor; [exact I |]. constructor; [cbn; destruct (e_par e); exact I |].
          constructor; [cbn; destruct (e_form e); exact I |]. constructor; [| constructor]. split; [apply pnum_ok |].
          unfold positive_x. cbn [pnum n_val]. destruct (m_z0 o) as [| z0 zr] eqn:Ez; [simpl in Hz; lia |].
          apply (Hpos z0). destruct (m_rows o); [lia |]. left. reflexivity. }
        cbn [i_val i_text]. split; [unfold inum_ok; cbn [i_val i_text]; apply itext_int; lia |]. split; [lia |].
        split.
        { split; intro X.
          - assert (m_rows o = 2) by lia. rewrite H. discriminate.
          - destruct (Nat.eqb_spec (m_rows o) 2) as [Y | Y]; [lia | congruence]. }
        split.
        { intro X. rewrite Hrows. rewrite H2p; [reflexivity |].
          destruct Hpar as [P | [P | [P | [P | P]]]]; rewrite P in *; try discriminate X; reflexivity. }
        split; [unfold inum_ok; cbn [i_val i_text]; apply itext_int; lia |]. split; [rewrite map_i_length; reflexivity |].
        split.
        { destruct (ts_mixed_z0 E o); [| exact I]. split.
          - rewrite map_length, firstn_length, Hz, Hrows. lia.
          - apply Forall_forall. intros n Hin. apply in_map_iff in Hin. destruct Hin as (z & <- & Hin).
            split; [apply pnum_ok | apply (Hpos z Hin)]. }
        split.
        { apply Forall_map_i. intros k fq Hin. unfold rec_of. cbn [fst snd pnum n_val].
          split; [apply pnum_ok |]. split; [rewrite Forall_forall in Hfnn; apply Hfnn; exact Hin |].
          split; [apply cell_nums_ok |]. rewrite cell_nums_length. unfold f_pairs, f_mf. rewrite Hn. cbn [v2_of f_matrix]. rewrite Hrows. reflexivity. }
        unfold v2_freqs. rewrite Hh. cbn [h_mult v2_of f_records]. rewrite freqs_of_records. exact Hasc.
  Qed.



  (* ======== Touchstone 1 ======================================================================================= *)
  Definition ts1_z0t (o : mobj D) : D := fst (hd (c0 E) (m_z0 o)).
  (* o: the object saved; p: the object printed from (print_obj: o itself or its normalised copy) *)
  Definition v1_of (o p : mobj D) (e : entry) : v1file :=
    mkv1file (ts_opts p e (ts1_z0t o)) (m_ports o)
             (map_i (rec_of p (m_ports o) (m_ports o) (e_form e) (Nat.eqb (m_ports o) 2) (convert_obj E p (e_par e))) 0 (m_freqs o))
             [].
  Definition ts1_hdr (o p : mobj D) (e : entry) : hdr :=
    mkhdr false (qcz 1) (ts_ptype (e_par e)) (ts_dfmt (e_form e)) (rd (m_dprec p) (ts1_z0t o)) (-1) None (-1) (-1) MFull None.
  (* the object the version-1 loader returns: the cells as read, un-normalised by R as the loader does *)
  Definition ts1_loaded (o p : mobj D) (e : entry) : tsobj :=
    mkobj false (ts_ptype (e_par e)) (ts_dfmt (e_form e)) (m_ports o)
      (map (rd (m_fprec p)) (m_freqs o))
      (repeat (rd (m_dprec p) (ts1_z0t o)) (m_ports o))
      (map (fun m => unnormalise (ts1_hdr o p e) (map (loaded_cell p (e_form e)) m)) (convert_obj E p (e_par e))).

  Lemma ts1_records_lines : forall p n e data fs i, 1 <= n <= 4 -> ri_ma_db (e_form e) = true ->
    concat (map_i (ts_record E true p n n e data) i fs) =
    flat_map (v1_record_lines n) (map_i (rec_of p n n (e_form e) (Nat.eqb n 2) data) i fs).
  Proof.
    intros p n e data fs. induction fs as [| fq fs IH]; intros i Hn Hf; [reflexivity |].
    cbn [map_i concat flat_map]. rewrite IH by assumption. f_equal.
    assert (C : n = 1 \/ n = 2 \/ n = 3 \/ n = 4) by lia.
    destruct e as [ep ef]; cbn [e_form] in *. destruct C as [-> | [-> | [-> | ->]]]; destruct ef; try discriminate Hf; reflexivity.
  Qed.

  Lemma v1_cells_cell_nums : forall p n f m, 1 <= n <= 4 -> length m = n * n ->
    v1_cells n (map n_val (cell_nums p n n f (Nat.eqb n 2) m)) = map (loaded_cell p f) m.
  Proof.
    intros p n f m Hn Hl. destruct (Nat.eq_dec n 2) as [-> | Hne].
    - destruct m as [| a [| b [| c [| d [| x m]]]]]; try discriminate Hl. destruct f; reflexivity.
    - rewrite v1_cells_other by exact Hne. replace (Nat.eqb n 2) with false by (symmetry; apply Nat.eqb_neq; exact Hne).
      apply pairs_of_cell_nums. exact Hl.
  Qed.

  Lemma records_cells1 : forall p h n f data fs i, 1 <= n <= 4 -> Forall (fun m => length m = n * n) data -> i + length fs = length data ->
    map (fun r => unnormalise h (v1_cells n (map n_val (snd r)))) (map_i (rec_of p n n f (Nat.eqb n 2) data) i fs) =
    map (fun m => unnormalise h (map (loaded_cell p f) m)) (skipn i data).
  Proof.
    intros p h n f data fs. induction fs as [| fq fs IH]; intros i Hn Hd Hl.
    - cbn. rewrite skipn_all2 by (simpl in Hl; lia). reflexivity.
    - cbn [map_i map]. cbn [length] in Hl. assert (Hi : i < length data) by lia.
      rewrite IH by (assumption || lia). rewrite (skipn_nth_cons _ i data []) by exact Hi. cbn [map]. f_equal.
      unfold rec_of. cbn [snd]. rewrite v1_cells_cell_nums; [reflexivity | exact Hn |].
      rewrite Forall_forall in Hd. apply Hd. apply nth_In. exact Hi.
  Qed.

  (* the object printed from keeps shape, frequencies and precisions, and is a sized matrix object *)
  Lemma print_obj_facts : forall o, conv_keeps_length -> mobj_wf o -> is_matrix (m_type o) = true ->
    let p := print_obj E TS1 o in
    m_rows p = m_rows o /\ m_ports p = m_ports o /\ m_freqs p = m_freqs o /\ m_fprec p = m_fprec o /\ m_dprec p = m_dprec o /\
    is_matrix (m_type p) = true /\ mobj_wf p.
  Proof.
    intros o Hc Hwf Hm. cbn zeta. unfold print_obj. destruct (is_one E (hd (c0 E) (m_z0 o))).
    - repeat split; try reflexivity; try assumption; apply Hwf.
    - unfold normalise. cbn [m_rows m_ports m_freqs m_fprec m_dprec m_type].
      assert (Ht : is_matrix (norm_target (m_type o)) = true) by (destruct (m_type o); reflexivity).
      destruct (convert_obj_wf o (norm_target (m_type o)) Hc Hwf Hm Ht) as [A B].
      destruct Hwf as (Hz & Hd & Hdm & H46 & Hnf).
      repeat split; try reflexivity; try assumption.
      unfold mobj_wf. cbn [m_z0 m_data m_rows m_ports m_freqs]. rewrite repeat_length. repeat split; assumption.
  Qed.

  Lemma opts_hdr_v1 : forall o p e, (e_par e = PS \/ e_par e = PZ \/ e_par e = PY \/ e_par e = PH \/ e_par e = PG) ->
    ri_ma_db (e_form e) = true -> opts_hdr false (ts_opts p e (ts1_z0t o)) = ts1_hdr o p e.
  Proof.
    intros o p e Hpar Hform. unfold opts_hdr, ts_opts, ts1_hdr. cbn [fold_left apply_ofield pnum n_val].
    destruct Hpar as [P | [P | [P | [P | P]]]]; rewrite P; destruct (e_form e); try discriminate Hform; reflexivity.
  Qed.

  Theorem ts1_load_save_lemma : forall o ft0 promote fmt,
    conv_keeps_length -> mobj_wf o -> wf_obj (sobj_of E o ft0 promote fmt) = true ->
    cksave (sobj_of E o ft0 promote fmt) = true -> final_filetype (sobj_of E o ft0 promote fmt) = TS1 -> freqs_readable o ->
    exists st e, resolved (sobj_of E o ft0 promote fmt) = [e] /\ save_emit E o ft0 promote fmt = STouchstone st /\
                 st = v1_stream (v1_of o (print_obj E TS1 o) e) /\ v1_wf (v1_of o (print_obj E TS1 o) e) /\
                 parse st = Ok (ts1_loaded o (print_obj E TS1 o) e).
  Proof.
    intros o ft0 promote fmt Hconv Hwf Hwfo Hck Hfin Hfr.
    set (s := sobj_of E o ft0 promote fmt) in *.
    assert (Hft : o_filetype s = TS1).
    { unfold final_filetype in Hfin. destruct (o_filetype s); try discriminate; reflexivity. }
    assert (Hnpd : o_filetype s <> NPD) by (rewrite Hft; discriminate).
    destruct (cksave_ts_facts s Hwfo Hck Hnpd) as [e F].
    destruct F as (Hres & Hpar & Hform & Hmat & Hpf & Hrp & Hrows & Hp1 & Hf0 & H2p & H1).
    destruct (H1 Hft) as [H4 Heq].
    assert (Hp4 : o_ports s <= 4).
    { destruct H4 as [H4 | H4]; [exact H4 |]. unfold final_filetype in Hfin. rewrite Hft, H4 in Hfin. cbn [andb] in Hfin.
      destruct (4 <? o_ports s) eqn:X; cbn [orb] in Hfin; [discriminate |]. apply Nat.ltb_ge in X. exact X. }
    change (o_rows s) with (m_rows o) in *. change (o_ports s) with (m_ports o) in *.
    change (o_type s) with (m_type o) in *. change (o_freqs s) with (length (m_freqs o)) in *.
    destruct (print_obj_facts o Hconv Hwf Hmat) as (Pr & Pp & Pf & Pfp & Pdp & Pm & Pwf).
    set (p := print_obj E TS1 o) in *.
    assert (Hn : 1 <= m_ports o <= 4) by lia.
    assert (Hem : is_matrix (e_par e) = true) by (destruct Hpar as [P | [P | [P | [P | P]]]]; rewrite P; reflexivity).
    destruct (convert_obj_wf p (e_par e) Hconv Pwf Pm Hem) as [Hcl Hcm].
    rewrite Pf in Hcl. rewrite Pr, Pp, Hrows in Hcm.
    destruct Hwf as (Hz & Hd & Hm & Hr46 & Hnf). destruct Hfr as [Hfnn Hasc].
    assert (Hstream : ts_header E false p e (ts1_z0t o) ++
                      concat (map_i (ts_record E true p (m_rows o) (m_ports o) e (convert_obj E p (e_par e))) 0 (m_freqs o)) ++ [] ++ [REof]
                      = v1_stream (v1_of o p e)).
    { unfold v1_stream, v1_of. cbn [g_opts g_ports g_records g_noise flat_map app].
      rewrite Hrows, ts1_records_lines by assumption. reflexivity. }
    assert (Hwf1 : v1_wf (v1_of o p e)).
    { unfold v1_wf, v1_freqs. cbn [v1_of g_opts g_ports g_records g_noise]. rewrite !(opts_hdr_v1 o p e Hpar Hform). cbn [ts1_hdr h_type h_mult].
      split.
      { unfold ts_opts. constructor; [exact I |]. constructor; [cbn; destruct (e_par e); exact I |].
        constructor; [cbn; destruct (e_form e); exact I |]. constructor; [| constructor]. split; [apply pnum_ok |].
        unfold positive_x. cbn [pnum n_val]. apply rd_sign. unfold ts1_z0t.
        unfold s, sobj_of, z0_real_pos in Hrp. cbn [o_z0_real_pos] in Hrp. rewrite forallb_forall in Hrp.
        destruct (m_z0 o) as [| z0 zr] eqn:Ez; [simpl in Hz; lia |]. cbn [hd].
        assert (Hin : In z0 (firstn (m_ports o) (z0 :: zr))) by (destruct (m_ports o); [lia | left; reflexivity]).
        specialize (Hrp z0 Hin). apply andb_prop in Hrp as [_ Hrp]. exact Hrp. }
      split; [exact Hn |].
      split.
      { intro X. apply H2p. destruct Hpar as [P | [P | [P | [P | P]]]]; rewrite P in *; try discriminate X; reflexivity. }
      split.
      { destruct (m_freqs o); [exfalso; apply Hf0; reflexivity | discriminate]. }
      split.
      { apply Forall_map_i. intros k fq Hin. unfold rec_of. cbn [fst snd pnum n_val].
        split; [apply pnum_ok |]. split; [rewrite Pfp; rewrite Forall_forall in Hfnn; apply Hfnn; exact Hin |].
        split; [apply cell_nums_ok |]. rewrite cell_nums_length. lia. }
      split.
      { rewrite freqs_of_records, Pfp. exact Hasc. }
      split; [intro X; exfalso; apply X; reflexivity | constructor]. }
    eexists. exists e. split; [exact Hres |]. split.
    { unfold save_emit. fold s. rewrite Hfin, Hres. cbn [hd negb]. fold p. reflexivity. }
    split; [exact Hstream |]. split; [exact Hwf1 |].
    change (fst (hd (c0 E) (m_z0 o))) with (ts1_z0t o). rewrite Hstream, v1_load_lemma by exact Hwf1.
    f_equal. unfold v1_result, ts1_loaded, v1_freqs. cbn [v1_of g_opts g_ports g_records]. rewrite !(opts_hdr_v1 o p e Hpar Hform).
    cbn [ts1_hdr h_type h_fmt h_z0 h_mult]. f_equal.
    - apply freqs_of_records.
    - fold (ts1_hdr o p e). rewrite records_cells1; [reflexivity | exact Hn | exact Hcm | rewrite Hcl; reflexivity].
  Qed.

  (* ---- maximum precision / 17 digits: the loaded object IS the saved one ---------------------------------- *)
  Hypothesis num_rt : forall p x, exact_prec p = true -> rd p x = v_val E x.

  Definition exact_cell (v : cx D) : TsParse.cell := mkcell (v_val E (fst v)) (v_val E (snd v)) xq1.

  Lemma mixed_false_z0 : forall o, length (m_z0 o) = m_rows o -> 1 <= m_rows o -> ts_mixed_z0 E o = false ->
    repeat (v_val E (fst (hd (c0 E) (m_z0 o)))) (m_rows o) = map (fun z => v_val E (fst z)) (firstn (m_rows o) (m_z0 o)).
  Proof.
    intros o Hl H1 Hm. unfold ts_mixed_z0 in Hm. destruct (m_z0 o) as [| z r]; [simpl in Hl; lia |].
    cbn [hd]. apply Bool.negb_false_iff in Hm. rewrite forallb_forall in Hm.
    destruct (m_rows o) as [| n]; [lia |]. cbn [firstn repeat map Nat.sub] in *. f_equal. rewrite Nat.sub_0_r in Hm.
    simpl in Hl. assert (Hn : n = length r) by lia. subst n. rewrite firstn_all in *.
    clear Hl H1. induction r as [| y r IH]; [reflexivity |]. cbn [length repeat map]. f_equal.
    - assert (X : cx_eqb E y z = true) by (apply Hm; left; reflexivity).
      unfold cx_eqb in X. apply andb_prop in X as [X _]. apply xeqb_eq in X. symmetry. exact X.
    - apply IH. intros x Hx. apply Hm. right. exact Hx.
  Qed.

  Lemma ts2_loaded_exact : forall o e, exact_prec (m_fprec o) = true -> exact_prec (m_dprec o) = true -> e_form e = RI ->
    length (m_z0 o) = m_rows o -> 1 <= m_rows o ->
    ts2_loaded o e = mkobj true (ts_ptype (e_par e)) FRI (m_rows o) (map (v_val E) (m_freqs o))
                           (map (fun z => v_val E (fst z)) (firstn (m_rows o) (m_z0 o)))
                           (map (map exact_cell) (convert_obj E o (e_par e))).
  Proof.
    intros o e Hf Hd Hri Hl H1. unfold ts2_loaded. rewrite Hri. cbn [ts_dfmt]. f_equal.
    - apply map_ext. intro x. apply num_rt. exact Hf.
    - destruct (ts_mixed_z0 E o) eqn:Em.
      + apply map_ext. intro z. apply num_rt. exact Hd.
      + rewrite num_rt by exact Hd. apply mixed_false_z0; assumption.
    - apply map_ext. intro m. apply map_ext. intro v. unfold loaded_cell, exact_cell. rewrite !num_rt by exact Hd. reflexivity.
  Qed.

  (* Touchstone 1, S parameters (no un-normalisation), maximum precision, RI: the loaded object IS the saved one *)
  Lemma print_obj_S_data : forall o, m_type o = PS -> convert_obj E (print_obj E TS1 o) PS = m_data o.
  Proof.
    intros o Ht. unfold print_obj. destruct (is_one E (hd (c0 E) (m_z0 o))).
    - unfold convert_obj. rewrite Ht. reflexivity.
    - unfold normalise, convert_obj. cbn [m_type m_data]. rewrite Ht. reflexivity.
  Qed.

  Lemma ts1_loaded_exact_S : forall o e, exact_prec (m_fprec (print_obj E TS1 o)) = true -> exact_prec (m_dprec (print_obj E TS1 o)) = true ->
    m_type o = PS -> e_par e = PS -> e_form e = RI ->
    ts1_loaded o (print_obj E TS1 o) e =
    mkobj false TsParse.PS FRI (m_ports o) (map (v_val E) (m_freqs o)) (repeat (v_val E (ts1_z0t o)) (m_ports o))
          (map (map exact_cell) (m_data o)).
  Proof.
    intros o e Hf Hd Ht Hp Hri. unfold ts1_loaded. rewrite Hp, Hri. cbn [ts_ptype ts_dfmt]. rewrite print_obj_S_data by exact Ht.
    f_equal.
    - apply map_ext. intro x. apply num_rt. exact Hf.
    - rewrite num_rt by exact Hd. reflexivity.
    - apply map_ext. intro m. rewrite unnormalise_S by (unfold ts1_hdr; cbn [h_type]; rewrite Hp; reflexivity). apply map_ext. intro v.
      unfold loaded_cell, exact_cell. rewrite !num_rt by exact Hd. reflexivity.
  Qed.
End TS.

(* ---- Touchstone 1 (partial): the data lines of one frequency are those of TsSpec's version-1 grammar ------- *)
Section TS1.
  Variable D : Type.
  Variable E : env D.
  Variable rd : Z -> D -> xnum.
  Variable rda : Z -> bool -> D -> xnum.

  Lemma ts1_record_lines_lemma : forall o n e data i fq, 1 <= n <= 4 -> ri_ma_db (e_form e) = true ->
    ts_record E true o n n e data i fq = v1_record_lines n (rec_of D E rd rda o n n (e_form e) (Nat.eqb n 2) data i fq).
  Proof.
    intros o n e data i fq Hn Hf.
    assert (C : n = 1 \/ n = 2 \/ n = 3 \/ n = 4) by lia.
    destruct e as [ep ef]; cbn [e_form] in *. destruct C as [-> | [-> | [-> | ->]]]; destruct ef; try discriminate Hf; reflexivity.
  Qed.
End TS1.
