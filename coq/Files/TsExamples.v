(* Concrete well-formed files for the non-vacuity Examples of Properties_C08.v / Properties_C09.v: abstract
   files (TsSpec.v2file / v1file), the bytes of their plain spelling, and decorated / re-spelled variants.
   Everything here is checked by computation (vm_compute); no statement about all files is made here. *)
Require Import List NArith ZArith QArith Qcanon Bool String Ascii Lia. Import ListNotations.
Require Import LV.Files.TsTok LV.Files.TsTokProofs LV.Files.TsParse LV.Files.TsSpec LV.Files.TsMatrix LV.Files.TsEquiv.
Local Open Scope string_scope.

Definition bytes (s : string) : list N := map N_of_ascii (list_ascii_of_string s).
Definition file_of (l : list string) : list N := flat_map (fun s => (bytes s ++ [10%N])%list) l.
(* a number / an integer as spelled: the (upper-cased) text and the value the model's strtod / strtol gives it *)
Definition numd (s : string) : num :=
  let t := map upcase (bytes s) in mknum t (match parse_double t with Some x => x | None => XNaN end).
Definition inumd (s : string) : inum :=
  let t := map upcase (bytes s) in mkinum t (match parse_int t with Some z => z | None => (-1)%Z end).

Definition tab : string := String (ascii_of_nat 9) EmptyString.
Definition cr : string := String (ascii_of_nat 13) EmptyString.

Fixpoint ascendingb (l : list xnum) : bool :=
  match l with
  | a :: (b :: _) as t => negb (xle b a) && ascendingb t
  | _ => true
  end.
Lemma ascendingb_sound : forall l, ascendingb l = true -> ascending l.
Proof.
  induction l as [| a l IH]; intros H i x y Hx Hy; [destruct i; discriminate |].
  destruct l as [| b l]; [destruct i as [| [| i]]; discriminate |].
  cbn [ascendingb] in H. apply andb_true_iff in H. destruct H as [H1 H2].
  destruct i as [| i].
  - cbn in Hx, Hy. injection Hx as <-. injection Hy as <-. apply negb_true_iff. exact H1.
  - apply (IH H2 i x y); assumption.
Qed.


(* ---- comparing objects by computation ----------------------------------------------------------------------
   Two Qc numbers that are equal need not be convertible (the proofs of canonicity differ syntactically), so
   computed objects are compared through their "views" (the reduced fractions), which determine them. *)
Definition xview (x : xnum) : Q + (bool + unit) :=
  match x with XQ q => inl (this q) | XInf b => inr (inl b) | XNaN => inr (inr tt) end.
Lemma xview_inj : forall x y, xview x = xview y -> x = y.
Proof.
  intros [q | b |] [q' | b' |] H; try discriminate H; try reflexivity.
  - injection H as H. f_equal. apply Qc_is_canon. rewrite H. reflexivity.
  - injection H as H. rewrite H. reflexivity.
Qed.
Lemma map_inj : forall A B (f : A -> B), (forall a b, f a = f b -> a = b) -> forall l1 l2, map f l1 = map f l2 -> l1 = l2.
Proof.
  intros A B f Hf. induction l1 as [| a l1 IH]; intros [| b l2] H; try discriminate H; [reflexivity |].
  cbn [map] in H. injection H as H1 H2. rewrite (Hf a b H1), (IH l2 H2). reflexivity.
Qed.
Definition cview (c : cell) := (xview (c_a c), xview (c_b c), xview (c_scale c)).
Lemma cview_inj : forall a b, cview a = cview b -> a = b.
Proof.
  intros [a1 a2 a3] [b1 b2 b3] H. unfold cview in H. cbn in H. injection H as H1 H2 H3.
  rewrite (xview_inj _ _ H1), (xview_inj _ _ H2), (xview_inj _ _ H3). reflexivity.
Qed.
Definition xsview (l : list xnum) := map xview l.
Definition mview (m : list cell) := map cview m.
Definition msview (l : list (list cell)) := map mview l.
Lemma xsview_inj : forall a b, xsview a = xsview b -> a = b.
Proof. apply map_inj, xview_inj. Qed.
Lemma mview_inj : forall a b, mview a = mview b -> a = b.
Proof. apply map_inj, cview_inj. Qed.
Lemma msview_inj : forall a b, msview a = msview b -> a = b.
Proof. apply map_inj, mview_inj. Qed.
Definition oview (o : tsobj) := (o_v2 o, o_type o, o_fmt o, o_ports o, xsview (o_freqs o), xsview (o_z0 o), msview (o_cells o)).
Lemma oview_inj : forall a b, oview a = oview b -> a = b.
Proof.
  intros [a1 a2 a3 a4 a5 a6 a7] [b1 b2 b3 b4 b5 b6 b7] H. unfold oview in H. cbn [o_v2 o_type o_fmt o_ports o_freqs o_z0 o_cells] in H.
  injection H as H1 H2 H3 H4 H5 H6 H7. subst.
  rewrite (xsview_inj _ _ H5), (xsview_inj _ _ H6), (msview_inj _ _ H7). reflexivity.
Qed.
Definition rview (r : result) := match r with Ok o => inl (oview o) | Error c => inr c end.
Lemma rview_inj : forall a b, rview a = rview b -> a = b.
Proof.
  intros [a | c] [b | c'] H; try discriminate H.
  - apply (f_equal (fun r => match r with inl v => v | inr _ => oview a end)) in H. rewrite (oview_inj _ _ H). reflexivity.
  - cbn in H. congruence.
Qed.
Ltac by_view :=
  first [ apply rview_inj | apply oview_inj | apply msview_inj | apply mview_inj | apply xsview_inj | apply cview_inj
        | apply xview_inj ]; vm_compute; reflexivity.

(* ---- a 3-port version-2 file: MHz, RI, R 75, [Matrix Format] Upper, two frequencies ------------------- *)
Definition ex2_upper : v2file :=
  mkv2file [OFKw OMHz; OFKw OS; OFKw ORI; OFR (numd "75")] (inumd "3") None (inumd "2") (Some MUpper) None
    [(numd "100", [numd "1.1"; numd "0.12"; numd "1.2"; numd "0.13"; numd "1.3"; numd "0.14"; numd "-1.4"; numd "0.15"; numd "1.5"; numd "0.16"; numd "1.6"; numd "0.17"]);
     (numd "250.5", [numd "2.1"; numd "0.22"; numd "2.2"; numd "0.23"; numd "2.3"; numd "0.24"; numd "-2.4"; numd "0.25"; numd "2.5"; numd "0.26"; numd "2.6"; numd "0.27"])] true.

Definition ex2_opts_permuted : list ofield := [OFR (numd "75"); OFKw ORI; OFKw OMHz; OFKw OS].
Definition ex2_upper_bytes : list N := file_of
  ["[Version] 2.0"; "# MHZ S RI R 75"; "[Number of Ports] 3"; "[Number of Frequencies] 2"; "[Matrix Format] UPPER";
   "[Network Data]";
   "100 1.1 0.12 1.2 0.13 1.3 0.14 -1.4 0.15 1.5 0.16 1.6 0.17";
   "250.5 2.1 0.22 2.2 0.23 2.3 0.24 -2.4 0.25 2.5 0.26 2.6 0.27";
   "[End]"].

(* the same data: GHz with scaled frequencies, the option fields in another order with the default S omitted,
   [Matrix Format] Lower *)
Definition ex2_lower : v2file :=
  mkv2file [OFKw ORI; OFR (numd "75.0"); OFKw OGHz] (inumd "3") None (inumd "2") (Some MLower) None
    [(numd "0.1", [numd "1.1"; numd "0.12"; numd "1.2"; numd "0.13"; numd "-1.4"; numd "0.15"; numd "1.3"; numd "0.14"; numd "1.5"; numd "0.16"; numd "1.6"; numd "0.17"]);
     (numd "0.2505", [numd "2.1"; numd "0.22"; numd "2.2"; numd "0.23"; numd "-2.4"; numd "0.25"; numd "2.3"; numd "0.24"; numd "2.5"; numd "0.26"; numd "2.6"; numd "0.27"])] false.
(* the same data, Full, Hz *)
Definition ex2_full : v2file :=
  mkv2file [OFKw OHz; OFKw ORI; OFR (numd "7.5e1")] (inumd "3") None (inumd "2") None None
    [(numd "1e8", [numd "1.1"; numd "0.12"; numd "1.2"; numd "0.13"; numd "1.3"; numd "0.14"; numd "1.2"; numd "0.13"; numd "-1.4"; numd "0.15"; numd "1.5"; numd "0.16"; numd "1.3"; numd "0.14"; numd "1.5"; numd "0.16"; numd "1.6"; numd "0.17"]);
     (numd "250500000", [numd "2.1"; numd "0.22"; numd "2.2"; numd "0.23"; numd "2.3"; numd "0.24"; numd "2.2"; numd "0.23"; numd "-2.4"; numd "0.25"; numd "2.5"; numd "0.26"; numd "2.3"; numd "0.24"; numd "2.5"; numd "0.26"; numd "2.6"; numd "0.27"])] true.

(* ex2_lower as a file might spell it: mixed case, comments, blank lines, tabs, CR LF, the records broken over lines *)
Definition ex2_lower_decorated : list N := file_of
  ["! a comment first"; ""; "[version] 2.0 ! trailing comment"; ("#  ri r 75.0" ++ tab ++ "GHz   ! [x] # y")%string;
   ("[Number Of Ports]   3" ++ cr)%string; ""; "[number of frequencies] 2"; "[matrix format] lower";
   "[NETWORK DATA]"; "! data";
   "0.1"; "1.1 0.12";
   "   1.2 0.13 -1.4 0.15   ! row 2";
   "";
   "1.3 0.14 1.5 0.16 1.6 0.17";
   "0.2505 2.1 0.22"; ("2.2 0.23 -2.4 0.25" ++ tab)%string; "2.3 0.24 2.5 0.26 2.6 0.27"].

(* ---- a 2-port version-1 file with noise lines: GHz, S, MA, R 50 ------------------------------------------ *)
Definition ex1_two : v1file :=
  mkv1file [OFKw OGHz; OFKw OS; OFKw OMA; OFR (numd "50")] 2
    [(numd "1", [numd "0.9"; numd "-10"; numd "0.1"; numd "80"; numd "0.05"; numd "85"; numd "0.8"; numd "-20"]);
     (numd "2.5", [numd "0.85"; numd "-15"; numd "0.12"; numd "75"; numd "0.06"; numd "80"; numd "0.75"; numd "-25"])]
    [[numd "1"; numd "2.1"; numd "0.3"; numd "40"; numd "0.5"]; [numd "2.5"; numd "2.4"; numd "0.35"; numd "45"; numd "0.6"]].
Definition ex1_two_bytes : list N := file_of
  ["# GHZ S MA R 50"; "1 0.9 -10 0.1 80 0.05 85 0.8 -20"; "2.5 0.85 -15 0.12 75 0.06 80 0.75 -25"; "1 2.1 0.3 40 0.5"; "2.5 2.4 0.35 45 0.6"].
(* its version-2 framing: [Two-Port Order] 21_12 *)
Definition ex_two : inum := inumd "2".
Definition ex1_two_as_v2 : v2file := v2_of_v1 ex1_two ex_two ex_two true.
Definition ex1_two_as_v2_bytes : list N := file_of
  ["[Version] 2.0"; "# GHZ S MA R 50"; "[Number of Ports] 2"; "[Two-Port Order] 21_12"; "[Number of Frequencies] 2";
   "[Network Data]"; "1 0.9 -10 0.1 80 0.05 85 0.8 -20"; "2.5 0.85 -15 0.12 75 0.06 80 0.75 -25"; "[End]"].

(* ---- a 4-port version-1 file: kHz, Z, RI, R 50 (normalised impedances); its first line looks like a 2-port line --- *)
Definition ex1_four : v1file :=
  mkv1file [OFKw OKHz; OFKw OZ; OFKw ORI] 4
    [(numd "10", [numd "1.01"; numd "-0.03"; numd "1.02"; numd "-0.04"; numd "1.03"; numd "-0.05"; numd "1.04"; numd "-0.06"; numd "1.05"; numd "-0.07"; numd "1.06"; numd "-0.08"; numd "1.07"; numd "-0.09"; numd "1.08"; numd "-0.10"; numd "1.09"; numd "-0.11"; numd "1.10"; numd "-0.12"; numd "1.11"; numd "-0.13"; numd "1.12"; numd "-0.14"; numd "1.13"; numd "-0.15"; numd "1.14"; numd "-0.16"; numd "1.15"; numd "-0.17"; numd "1.16"; numd "-0.18"]);
     (numd "20", [numd "2.01"; numd "-0.04"; numd "2.02"; numd "-0.05"; numd "2.03"; numd "-0.06"; numd "2.04"; numd "-0.07"; numd "2.05"; numd "-0.08"; numd "2.06"; numd "-0.09"; numd "2.07"; numd "-0.10"; numd "2.08"; numd "-0.11"; numd "2.09"; numd "-0.12"; numd "2.10"; numd "-0.13"; numd "2.11"; numd "-0.14"; numd "2.12"; numd "-0.15"; numd "2.13"; numd "-0.16"; numd "2.14"; numd "-0.17"; numd "2.15"; numd "-0.18"; numd "2.16"; numd "-0.19"])]
    [].
Definition ex1_four_bytes : list N := file_of
  ["# KHZ Z RI";
   "10 1.01 -0.03 1.02 -0.04 1.03 -0.05 1.04 -0.06"; "1.05 -0.07 1.06 -0.08 1.07 -0.09 1.08 -0.10"; "1.09 -0.11 1.10 -0.12 1.11 -0.13 1.12 -0.14"; "1.13 -0.15 1.14 -0.16 1.15 -0.17 1.16 -0.18";
   "20 2.01 -0.04 2.02 -0.05 2.03 -0.06 2.04 -0.07"; "2.05 -0.08 2.06 -0.09 2.07 -0.10 2.08 -0.11"; "2.09 -0.12 2.10 -0.13 2.11 -0.14 2.12 -0.15"; "2.13 -0.16 2.14 -0.17 2.15 -0.18 2.16 -0.19"].
Definition ex1_four_as_v2 : v2file := v2_of_v1 ex1_four (inumd "4") (inumd "2") false.

(* ================================================================================================== *)
(* Facts about the examples (all by computation)                                                        *)
(* ================================================================================================== *)
Require Import LV.Files.TsLoadV2 LV.Files.TsLoadV1.
Local Close Scope string_scope.

Ltac wf_steps :=
  repeat match goal with
         | |- _ /\ _ => split
         | |- Forall _ (snd _) => cbn [snd]
         | |- Forall _ [] => constructor
         | |- Forall _ (_ :: _) => constructor
         | |- True => exact I
         | |- _ :: _ <> [] => discriminate
         | |- ascending _ => apply ascendingb_sound; vm_compute; reflexivity
         | |- num_ok _ => vm_compute; reflexivity
         | |- inum_ok _ => vm_compute; reflexivity
         | |- positive_x _ => vm_compute; reflexivity
         | |- ofield_ok _ => cbn [ofield_ok]
         | |- (_ <= _)%Z => vm_compute; discriminate
         | |- (_ <= _)%nat => vm_compute; lia
         | |- _ <-> _ => vm_compute; split; [discriminate | intros H; exfalso; apply H; reflexivity] || (vm_compute; split; [reflexivity | discriminate])
         | |- _ = _ => vm_compute; reflexivity
         | |- _ -> _ => vm_compute; (discriminate || (intros; reflexivity) || congruence)
         end.

Lemma ex2_upper_wf : v2_wf ex2_upper.
Proof. unfold v2_wf. cbn [ex2_upper f_opts f_ports f_order f_nfreq f_matrix f_ref f_records]. wf_steps. Qed.
Lemma ex2_lower_wf : v2_wf ex2_lower.
Proof. unfold v2_wf. cbn [ex2_lower f_opts f_ports f_order f_nfreq f_matrix f_ref f_records]. wf_steps. Qed.
Lemma ex2_full_wf : v2_wf ex2_full.
Proof. unfold v2_wf. cbn [ex2_full f_opts f_ports f_order f_nfreq f_matrix f_ref f_records]. wf_steps. Qed.

(* the bytes of the plain spelling tokenize to the stream of the abstract file *)
Lemma ex2_upper_stream : tokens ex2_upper_bytes = v2_stream ex2_upper.
Proof. vm_compute. reflexivity. Qed.

Lemma ex2_upper_loads : load_ts ex2_upper_bytes = Ok (v2_result ex2_upper).
Proof. unfold load_ts. rewrite ex2_upper_stream. apply v2_load_lemma, ex2_upper_wf. Qed.

(* what it loads to: S, RI, 3 ports, 100 MHz and 250.5 MHz in Hz, R 75 on each port, two symmetric 3 x 3 matrices *)
Lemma ex2_upper_object :
  match load_ts ex2_upper_bytes with
  | Ok o => o_v2 o = true /\ o_type o = PS /\ o_fmt o = FRI /\ o_ports o = 3%nat /\
            xsview (o_freqs o) = [inl (100000000 # 1); inl (250500000 # 1)] /\
            xsview (o_z0 o) = [inl (75 # 1); inl (75 # 1); inl (75 # 1)] /\
            map (@List.length cell) (o_cells o) = [9%nat; 9%nat] /\
            nth 5 (nth 0 (o_cells o) []) cell0 = nth 7 (nth 0 (o_cells o) []) cell0 /\
            cview (nth 5 (nth 0 (o_cells o) []) cell0) = (inl (3 # 2), inl (4 # 25), inl (1 # 1))
  | Error _ => False
  end.
Proof. vm_compute. repeat split; reflexivity. Qed.

Lemma ex2_equiv_upper_lower : v2_equiv ex2_upper ex2_lower.
Proof.
  unfold v2_equiv. cbn [ex2_upper ex2_lower f_opts f_ref f_records]. repeat split; try (vm_compute; reflexivity); try by_view.
  repeat constructor; by_view.
Qed.
Lemma ex2_equiv_upper_full : v2_equiv ex2_upper ex2_full.
Proof.
  unfold v2_equiv. cbn [ex2_upper ex2_full f_opts f_ref f_records]. repeat split; try (vm_compute; reflexivity); try by_view.
  repeat constructor; by_view.
Qed.

(* the decorated GHz / Lower spelling loads to the same object as the plain MHz / Upper spelling *)
Lemma ex2_decorated_same : load_ts ex2_lower_decorated = load_ts ex2_upper_bytes.
Proof. by_view. Qed.

(* the matrices of the example, for matrix_format_load_lemma *)
Definition mat_of_full (n : nat) (vals : list xnum) : mat :=
  fun r c => (nth (2 * (r * n + c)) vals xq0, nth (2 * (r * n + c) + 1) vals xq0).
Definition ex2_Ms : list mat := map (fun r => mat_of_full 3 (map n_val (snd r))) (f_records ex2_full).

Lemma ex2_Ms_symmetric : Forall (symmetric 3) ex2_Ms.
Proof.
  repeat constructor; intros r c Hr Hc;
    destruct r as [| [| [| r]]]; destruct c as [| [| [| c]]]; try lia; vm_compute; reflexivity.
Qed.
Lemma ex2_listings :
  map (fun r => map n_val (snd r)) (f_records ex2_upper) = map (listing (f_mf ex2_upper) (f_tr ex2_upper) (f_n ex2_upper)) ex2_Ms /\
  map (fun r => map n_val (snd r)) (f_records ex2_lower) = map (listing (f_mf ex2_lower) (f_tr ex2_lower) (f_n ex2_lower)) ex2_Ms /\
  map (fun r => map n_val (snd r)) (f_records ex2_full) = map (listing (f_mf ex2_full) (f_tr ex2_full) (f_n ex2_full)) ex2_Ms.
Proof. vm_compute. repeat split; reflexivity. Qed.

(* ---- version 1 ------------------------------------------------------------------------------------------ *)
Lemma ex1_two_wf : v1_wf ex1_two.
Proof. unfold v1_wf. cbn [ex1_two g_opts g_ports g_records g_noise]. wf_steps. Qed.
Lemma ex1_four_wf : v1_wf ex1_four.
Proof. unfold v1_wf. cbn [ex1_four g_opts g_ports g_records g_noise]. wf_steps. Qed.

Lemma ex1_two_stream : tokens ex1_two_bytes = v1_stream ex1_two.
Proof. vm_compute. reflexivity. Qed.
Lemma ex1_four_stream : tokens ex1_four_bytes = v1_stream ex1_four.
Proof. vm_compute. reflexivity. Qed.
Lemma ex1_two_as_v2_stream : tokens ex1_two_as_v2_bytes = v2_stream ex1_two_as_v2.
Proof. vm_compute. reflexivity. Qed.

Lemma ex1_two_loads : load_ts ex1_two_bytes = Ok (v1_result ex1_two).
Proof. unfold load_ts. rewrite ex1_two_stream. apply v1_load_lemma, ex1_two_wf. Qed.
Lemma ex1_four_loads : load_ts ex1_four_bytes = Ok (v1_result ex1_four).
Proof. unfold load_ts. rewrite ex1_four_stream. apply v1_load_lemma, ex1_four_wf. Qed.

(* the 4-port file: 4 ports, two frequencies in Hz, 16 cells each, impedances multiplied by R = 50 *)
Lemma ex1_four_object :
  match load_ts ex1_four_bytes with
  | Ok o => o_v2 o = false /\ o_type o = PZ /\ o_fmt o = FRI /\ o_ports o = 4%nat /\
            xsview (o_freqs o) = [inl (10000 # 1); inl (20000 # 1)] /\ xsview (o_z0 o) = repeat (inl (50 # 1)) 4 /\
            map (@List.length cell) (o_cells o) = [16%nat; 16%nat] /\
            cview (nth 1 (nth 0 (o_cells o) []) cell0) = (inl (51 # 1), inl (- 2 # 1), inl (1 # 1)) /\
            cview (nth 15 (nth 1 (o_cells o) []) cell0) = (inl (108 # 1), inl (- 19 # 2), inl (1 # 1))
  | Error _ => False
  end.
Proof. vm_compute. repeat split; reflexivity. Qed.

(* the two framings of the 2-port data, loaded from bytes, hold the same data *)
Lemma ex1_two_framings :
  match load_ts ex1_two_bytes, load_ts ex1_two_as_v2_bytes with
  | Ok a, Ok b => same_data a b /\ o_v2 a = false /\ o_v2 b = true /\ o_ports a = 2%nat /\ List.length (o_cells a) = 2%nat
  | _, _ => False
  end.
Proof. vm_compute. repeat split; reflexivity. Qed.

Lemma ex1_two_v2_hyps :
  inum_ok ex_two /\ i_val ex_two = Z.of_nat (g_ports ex1_two) /\
  i_val ex_two = Z.of_nat (List.length (g_records ex1_two)) /\ h_type (opts_hdr false (g_opts ex1_two)) = PS.
Proof. vm_compute. repeat split; reflexivity. Qed.

Require Import Permutation.
Lemma ex2_option_perm : Permutation (f_opts ex2_upper) ex2_opts_permuted /\ NoDup (map okind_of (f_opts ex2_upper)).
Proof.
  split.
  - unfold ex2_opts_permuted. cbn [ex2_upper f_opts].
    set (r := OFR (numd "75")).
    apply (Permutation_trans (l' := [OFKw OMHz; OFKw OS; r; OFKw ORI])); [apply perm_skip, perm_skip, perm_swap |].
    apply (Permutation_trans (l' := [OFKw OMHz; r; OFKw OS; OFKw ORI])); [apply perm_skip, perm_swap |].
    apply (Permutation_trans (l' := [r; OFKw OMHz; OFKw OS; OFKw ORI])); [apply perm_swap |].
    apply perm_skip. apply (Permutation_trans (l' := [OFKw OMHz; OFKw ORI; OFKw OS])); [apply perm_skip, perm_swap |].
    apply (Permutation_trans (l' := [OFKw ORI; OFKw OMHz; OFKw OS])); [apply perm_swap | apply Permutation_refl].
  - vm_compute. repeat constructor; simpl; intuition discriminate.
Qed.

(* the instances quoted by Properties_C08.v *)
Lemma v2_load_instance_all :
  v2_wf ex2_upper /\ tokens ex2_upper_bytes = v2_stream ex2_upper /\ load_ts ex2_upper_bytes = Ok (v2_result ex2_upper).
Proof. split; [exact ex2_upper_wf |]. split; [exact ex2_upper_stream | exact ex2_upper_loads]. Qed.

Lemma v1_load_instance_all :
  v1_wf ex1_two /\ tokens ex1_two_bytes = v1_stream ex1_two /\ load_ts ex1_two_bytes = Ok (v1_result ex1_two) /\
  v1_wf ex1_four /\ tokens ex1_four_bytes = v1_stream ex1_four /\ load_ts ex1_four_bytes = Ok (v1_result ex1_four).
Proof.
  split; [exact ex1_two_wf |]. split; [exact ex1_two_stream |]. split; [exact ex1_two_loads |].
  split; [exact ex1_four_wf |]. split; [exact ex1_four_stream | exact ex1_four_loads].
Qed.

Lemma v2_same_content_instance_all :
  v2_wf ex2_upper /\ v2_wf ex2_lower /\ v2_wf ex2_full /\ v2_equiv ex2_upper ex2_lower /\ v2_equiv ex2_upper ex2_full.
Proof.
  split; [exact ex2_upper_wf |]. split; [exact ex2_lower_wf |]. split; [exact ex2_full_wf |].
  split; [exact ex2_equiv_upper_lower | exact ex2_equiv_upper_full].
Qed.

Lemma matrix_format_instance_all :
  Forall (symmetric 3) ex2_Ms /\
  map (fun r => map n_val (snd r)) (f_records ex2_upper) = map (listing (f_mf ex2_upper) (f_tr ex2_upper) (f_n ex2_upper)) ex2_Ms /\
  map (fun r => map n_val (snd r)) (f_records ex2_lower) = map (listing (f_mf ex2_lower) (f_tr ex2_lower) (f_n ex2_lower)) ex2_Ms /\
  map (fun r => map n_val (snd r)) (f_records ex2_full) = map (listing (f_mf ex2_full) (f_tr ex2_full) (f_n ex2_full)) ex2_Ms.
Proof. split; [exact ex2_Ms_symmetric | exact ex2_listings]. Qed.

Lemma v1_v2_equiv_instance_all :
  v1_wf ex1_two /\
  (inum_ok ex_two /\ i_val ex_two = Z.of_nat (g_ports ex1_two) /\
   i_val ex_two = Z.of_nat (List.length (g_records ex1_two)) /\ h_type (opts_hdr false (g_opts ex1_two)) = PS) /\
  tokens ex1_two_as_v2_bytes = v2_stream (v2_of_v1 ex1_two ex_two ex_two true) /\
  match load_ts ex1_two_bytes, load_ts ex1_two_as_v2_bytes with
  | Ok a, Ok b => same_data a b /\ o_v2 a = false /\ o_v2 b = true /\ o_ports a = 2%nat /\ List.length (o_cells a) = 2%nat
  | _, _ => False
  end.
Proof.
  split; [exact ex1_two_wf |]. split; [exact ex1_two_v2_hyps |]. split; [exact ex1_two_as_v2_stream | exact ex1_two_framings].
Qed.

(* ---- inputs for Properties_C09.v ---------------------------------------------------------------------------- *)
Require LV.Files.NpdLoad.
Local Open Scope string_scope.
Definition ex_version3 : list N := bytes "[Version] 3.0".
(* '[Number of Ports] 65536': vnadata_init refuses rows * columns > INT_MAX with a usage error (finding DF11) *)
Definition ex_many_ports : list N := file_of
  ["[Version] 2.0"; "# Hz S RI R 50"; "[Number of Ports] 65536"; "[Number of Frequencies] 0"; "[Network Data]"; "[End]"].
Definition ex_npd_bytes : list N := file_of
  ["#NPD"; "#:version 1.0"; "#:ports 2"; "#:frequencies 2"; "#:parameters Sri,IL"; "#:z0 50 0j 75 -1j";
   "# a comment"; "1e9 0.1 0.2 0.3 0.4 0.5 0.6 0.7 0.8 1.5 2.5"; "2e9 1.1 1.2 1.3 1.4 1.5 1.6 1.7 1.8 3.5 4.5"].
(* '#:parameters bogus': vnadata_set_format reports a usage error (finding DF7) *)
Definition ex_npd_bogus : list N := file_of ["#:ports 1"; "#:frequencies 1"; "#:parameters bogus"; "1e9 1 2"].
Local Close Scope string_scope.

Lemma ex_ts_outcomes :
  (exists o, load_ts ex2_upper_bytes = Ok o) /\
  load_ts (firstn 150 ex2_upper_bytes) = Error EBADMSG /\
  load_ts ex_version3 = Error ENOPROTOOPT.
Proof. split; [eexists; exact ex2_upper_loads |]. vm_compute. split; reflexivity. Qed.
Lemma ts_einval_reachable : exists b, load_ts b = Error EINVAL.
Proof. exists ex_many_ports. vm_compute. reflexivity. Qed.

Lemma ex_npd_outcomes :
  (exists o, NpdLoad.load_npd ex_npd_bytes = NpdLoad.NOk o /\ NpdLoad.b_rows o = 2%Z /\ NpdLoad.b_columns o = 2%Z /\
             List.length (NpdLoad.b_freqs o) = 2%nat /\ List.length (NpdLoad.b_cells o) = 2%nat) /\
  NpdLoad.load_npd (firstn 120 ex_npd_bytes) = NpdLoad.NError NpdLoad.NEBADMSG.
Proof. split; [eexists; vm_compute; repeat split; reflexivity | vm_compute; reflexivity]. Qed.
Lemma npd_einval_reachable : exists b, NpdLoad.load_npd b = NpdLoad.NError NpdLoad.NEINVAL.
Proof. exists ex_npd_bogus. vm_compute. reflexivity. Qed.

(* '#:parameters' with spaces or commas *)
Local Open Scope string_scope.
Definition ex_npd_params_spaces : list N := file_of
  ["#:ports 1"; "#:frequencies 1"; "#:parameters Sri  Zma"; "1e9 0.5 0.25 50 0"].
Definition ex_npd_params_commas : list N := file_of
  ["#:ports 1"; "#:frequencies 1"; "#:parameters Sri,Zma"; "1e9 0.5 0.25 50 0"].
Local Close Scope string_scope.
Lemma ex_npd_params :
  NpdLoad.npd_lines ex_npd_params_spaces <> NpdLoad.npd_lines ex_npd_params_commas /\
  map NpdLoad.record_of (NpdLoad.npd_lines ex_npd_params_spaces) = map NpdLoad.record_of (NpdLoad.npd_lines ex_npd_params_commas) /\
  NpdLoad.load_npd ex_npd_params_spaces = NpdLoad.load_npd ex_npd_params_commas /\
  (exists o, NpdLoad.load_npd ex_npd_params_spaces = NpdLoad.NOk o).
Proof. split; [vm_compute; discriminate |]. split; [vm_compute; reflexivity |]. split; [vm_compute; reflexivity |]. eexists. vm_compute. reflexivity. Qed.

(* the plain spelling of TsRender.v for the examples *)
Require Import LV.Files.TsRender.
Ltac texts_steps :=
  repeat match goal with
         | |- _ /\ _ => split
         | |- Forall _ (snd _) => cbn [snd]
         | |- Forall _ [] => constructor
         | |- Forall _ (_ :: _) => constructor
         | |- True => exact I
         | |- ofield_text_ok _ => cbn [ofield_text_ok]
         | |- num_text_ok _ => vm_compute; repeat split; reflexivity
         | |- text_ok _ => vm_compute; repeat split; reflexivity
         end.
Lemma ex_texts_ok : v2_texts_ok ex2_upper /\ v1_texts_ok ex1_two /\ v1_texts_ok ex1_four.
Proof.
  split; [| split].
  - unfold v2_texts_ok. cbn [ex2_upper f_opts f_ports f_nfreq f_ref f_records]. texts_steps.
  - unfold v1_texts_ok. cbn [ex1_two g_opts g_records g_noise]. texts_steps.
  - unfold v1_texts_ok. cbn [ex1_four g_opts g_records g_noise]. texts_steps.
Qed.
(* the rendering has a blank after every token, the example bytes do not: different bytes, the same tokens *)
Lemma ex_render_same_tokens :
  render_stream (v2_body ex2_upper) <> ex2_upper_bytes /\ tokens (render_stream (v2_body ex2_upper)) = tokens ex2_upper_bytes /\
  tokens (render_stream (v1_body ex1_four)) = tokens ex1_four_bytes.
Proof. split; [vm_compute; discriminate |]. split; vm_compute; reflexivity. Qed.

(* a version-1 sweep that starts at DC: the first frequency is exactly 0 (only negative frequencies are invalid) *)
Local Open Scope string_scope.
Definition ex1_dc : v1file :=
  mkv1file [OFKw OHz; OFKw OS; OFKw ORI; OFR (numd "50")] 1
    [(numd "0", [numd "0.5"; numd "0.25"]); (numd "1e9", [numd "0.4"; numd "0.3"])] [].
Definition ex1_dc_bytes : list N := file_of ["# HZ S RI R 50"; "0 0.5 0.25"; "1e9 0.4 0.3"].
Local Close Scope string_scope.
Lemma ex1_dc_wf : v1_wf ex1_dc.
Proof. unfold v1_wf. cbn [ex1_dc g_opts g_ports g_records g_noise]. wf_steps. Qed.
Lemma ex1_dc_start :
  v1_wf ex1_dc /\ tokens ex1_dc_bytes = v1_stream ex1_dc /\ load_ts ex1_dc_bytes = Ok (v1_result ex1_dc) /\
  xsview (o_freqs (v1_result ex1_dc)) = [inl (0 # 1); inl (1000000000 # 1)].
Proof.
  split; [exact ex1_dc_wf |]. split; [vm_compute; reflexivity |]. split; [| vm_compute; reflexivity].
  unfold load_ts. replace (tokens ex1_dc_bytes) with (v1_stream ex1_dc) by (vm_compute; reflexivity).
  apply v1_load_lemma, ex1_dc_wf.
Qed.
