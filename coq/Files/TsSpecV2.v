Require Import List NArith ZArith QArith Qcanon Bool Lia Permutation. Import ListNotations.
Require Import LV.Files.TsTok LV.Files.TsParse LV.Files.TsSpec.

Local Opaque parse_double parse_int.

(* ---- helpers ---------------------------------------------------------------------------------- *)
Lemma pstep_word : forall s t o, pstep s (RWord t o) = on_tok s (classify (flags_of s) t o).
Proof. reflexivity. Qed.
Lemma pstep_kw : forall s k, pstep s (RKw k) = on_tok s (TKw k).
Proof. reflexivity. Qed.
Lemma pstep_nl : forall s, f_eol (flags_of s) = false -> pstep s nl = s.
Proof. intros s H. unfold pstep, nl, tok_of. rewrite H. reflexivity. Qed.

Lemma classify_double : forall t o x, parse_double t = Some x -> classify F_NONE t o = TDouble x.
Proof. intros t o x H. unfold classify, F_NONE. cbn [f_noconv f_int]. rewrite H. reflexivity. Qed.
Lemma classify_int : forall t o z, parse_int t = Some z -> classify F_INT t o = TInt z.
Proof. intros t o z H. unfold classify, F_INT. cbn [f_noconv f_int]. rewrite H. reflexivity. Qed.
Lemma classify_noconv : forall t, classify F_NOCONV t false = TWord t.
Proof. reflexivity. Qed.

(* ---- 1. the option line ----------------------------------------------------------------------- *)
Lemma opkw_word : forall o, classify F_NONE (opkw_text o) true = TOp o.
Proof. destruct o; vm_compute; reflexivity. Qed.

Lemma ofield_run : forall f h, ofield_ok f ->
  fold_left pstep (render_ofield f) (SOpt h) = SOpt (apply_ofield h f).
Proof.
  intros [o | n] h Hok.
  - cbn [render_ofield fold_left]. rewrite pstep_word. change (flags_of (SOpt h)) with F_NONE. rewrite opkw_word.
    destruct o; simpl in Hok; try contradiction; reflexivity.
  - destruct Hok as [Hn Hp]. cbn [render_ofield fold_left]. rewrite (pstep_word (SOpt h)). change (flags_of (SOpt h)) with F_NONE.
    rewrite opkw_word. cbn [on_tok]. rewrite pstep_word. change (flags_of (SOptR h)) with F_NONE.
    rewrite (classify_double _ _ _ Hn). cbn [on_tok]. unfold positive_x in Hp. rewrite Hp. cbn [negb]. reflexivity.
Qed.

Lemma opts_run : forall fs h, Forall ofield_ok fs ->
  fold_left pstep (render_opts fs) (SOpt h) = SOpt (fold_left apply_ofield fs h).
Proof.
  induction fs as [| f fs IH]; intros h H.
  - reflexivity.
  - inversion H as [| ? ? Hf Hfs]; subst. unfold render_opts in *. simpl flat_map.
    rewrite fold_left_app, (ofield_run _ _ Hf). simpl fold_left at 2. apply IH; assumption.
Qed.

(* fields of different kinds write different components of the header *)
Lemma apply_ofield_comm : forall h x y, okind_of x <> okind_of y ->
  apply_ofield (apply_ofield h x) y = apply_ofield (apply_ofield h y) x.
Proof.
  intros h [ox | nx] [oy | ny] H; try destruct ox; try destruct oy; simpl in H;
    try (exfalso; apply H; reflexivity); reflexivity.
Qed.

Lemma fold_ofield_perm : forall fs1 fs2, Permutation fs1 fs2 -> NoDup (map okind_of fs1) ->
  forall h, fold_left apply_ofield fs1 h = fold_left apply_ofield fs2 h.
Proof.
  induction 1 as [| x l l' HP IH | x y l | l l' l'' HP1 IH1 HP2 IH2]; intros Hnd h.
  - reflexivity.
  - simpl. apply IH. simpl in Hnd. inversion Hnd; assumption.
  - simpl. f_equal. apply apply_ofield_comm. simpl in Hnd. inversion Hnd as [| ? ? Hni _]; subst.
    intro E. apply Hni. left. symmetry. exact E.
  - rewrite IH1 by assumption. apply IH2.
    eapply Permutation_NoDup; [ apply Permutation_map; exact HP1 | exact Hnd ].
Qed.

Lemma option_order_lemma : forall v2 fs1 fs2, Permutation fs1 fs2 -> NoDup (map okind_of fs1) ->
  Forall ofield_ok fs1 -> opts_hdr v2 fs1 = opts_hdr v2 fs2.
Proof. intros v2 fs1 fs2 HP Hnd _. unfold opts_hdr. apply fold_ofield_perm; assumption. Qed.

(* what a run of option fields leaves alone *)
Lemma apply_ofield_keep : forall h f,
  let h' := apply_ofield h f in
  h_v2 h' = h_v2 h /\ h_ports h' = h_ports h /\ h_order h' = h_order h /\ h_nfreq h' = h_nfreq h /\
  h_nnoise h' = h_nnoise h /\ h_matrix h' = h_matrix h /\ h_ref h' = h_ref h /\
  (okind_of f <> KUnit -> h_mult h' = h_mult h) /\ (okind_of f <> KType -> h_type h' = h_type h) /\
  (okind_of f <> KFmt -> h_fmt h' = h_fmt h) /\ (okind_of f <> KR -> h_z0 h' = h_z0 h).
Proof.
  intros h [o | n]; [ destruct o |]; simpl; repeat split; intros; try reflexivity;
    exfalso; apply H; reflexivity.
Qed.

Lemma opts_keep : forall fs h,
  let h' := fold_left apply_ofield fs h in
  h_v2 h' = h_v2 h /\ h_ports h' = h_ports h /\ h_order h' = h_order h /\ h_nfreq h' = h_nfreq h /\
  h_nnoise h' = h_nnoise h /\ h_matrix h' = h_matrix h /\ h_ref h' = h_ref h /\
  (~ In KUnit (map okind_of fs) -> h_mult h' = h_mult h) /\ (~ In KType (map okind_of fs) -> h_type h' = h_type h) /\
  (~ In KFmt (map okind_of fs) -> h_fmt h' = h_fmt h) /\ (~ In KR (map okind_of fs) -> h_z0 h' = h_z0 h).
Proof.
  induction fs as [| f fs IH]; intros h.
  - simpl. repeat split; reflexivity.
  - simpl fold_left. specialize (IH (apply_ofield h f)).
    destruct IH as (A1 & A2 & A3 & A4 & A5 & A6 & A7 & A8 & A9 & A10 & A11).
    destruct (apply_ofield_keep h f) as (B1 & B2 & B3 & B4 & B5 & B6 & B7 & B8 & B9 & B10 & B11).
    cbv zeta. simpl map. simpl In.
    repeat split; try congruence; intros Hn.
    + rewrite A8, B8; auto. 
    + rewrite A9, B9; auto.
    + rewrite A10, B10; auto.
    + rewrite A11, B11; auto.
Qed.

Lemma apply_default_id : forall h f, is_default f -> ofield_ok f ->
  match okind_of f with
  | KUnit => h_mult h = h_mult (hdr0 true)
  | KType => h_type h = PS
  | KFmt => h_fmt h = FMA
  | KR => h_z0 h = XQ (qcz 50)
  end -> apply_ofield h f = h.
Proof.
  intros h [o | n] Hd Hok; [ destruct o; simpl in Hd; try contradiction | ]; simpl; intros E;
    destruct h; simpl in *; subst; try reflexivity.
  rewrite Hd. reflexivity.
Qed.

Lemma option_default_lemma : forall v2 fs1 f fs2, is_default f -> ofield_ok f ->
  ~ In (okind_of f) (map okind_of fs1) ->
  opts_hdr v2 (fs1 ++ f :: fs2) = opts_hdr v2 (fs1 ++ fs2).
Proof.
  intros v2 fs1 f fs2 Hd Hok Hni. unfold opts_hdr. rewrite !fold_left_app. cbn [fold_left].
  rewrite apply_default_id; auto.
  destruct (opts_keep fs1 (hdr0 v2)) as (_ & _ & _ & _ & _ & _ & _ & A8 & A9 & A10 & A11).
  destruct (okind_of f); [ rewrite A8 | rewrite A9 | rewrite A10 | rewrite A11 ]; auto.
Qed.

(* headers that agree except for the component of kind k *)
Definition eqoff (k : okind) (a b : hdr) : Prop :=
  h_v2 a = h_v2 b /\ h_ports a = h_ports b /\ h_order a = h_order b /\ h_nfreq a = h_nfreq b /\
  h_nnoise a = h_nnoise b /\ h_matrix a = h_matrix b /\ h_ref a = h_ref b /\
  (k <> KUnit -> h_mult a = h_mult b) /\ (k <> KType -> h_type a = h_type b) /\
  (k <> KFmt -> h_fmt a = h_fmt b) /\ (k <> KR -> h_z0 a = h_z0 b).

Lemma eqoff_apply_same : forall h f, eqoff (okind_of f) (apply_ofield h f) h.
Proof. intros h f. exact (apply_ofield_keep h f). Qed.

Lemma eqoff_step : forall k a b g, eqoff k a b -> eqoff k (apply_ofield a g) (apply_ofield b g).
Proof.
  intros k a b g (A1 & A2 & A3 & A4 & A5 & A6 & A7 & A8 & A9 & A10 & A11).
  destruct a, b; simpl in *; subst.
  destruct g as [o | n]; [ destruct o |]; simpl; unfold eqoff; simpl; repeat split; auto.
Qed.

Lemma eqoff_fold : forall k gs a b, eqoff k a b -> eqoff k (fold_left apply_ofield gs a) (fold_left apply_ofield gs b).
Proof. induction gs as [| g gs IH]; intros a b H; simpl; auto using eqoff_step. Qed.

Lemma eqoff_final : forall a b f, ofield_ok f -> eqoff (okind_of f) a b -> apply_ofield a f = apply_ofield b f.
Proof.
  intros a b f Hok (A1 & A2 & A3 & A4 & A5 & A6 & A7 & A8 & A9 & A10 & A11).
  destruct a, b; simpl in *; subst.
  destruct f as [o | n]; [ destruct o; simpl in Hok; try contradiction |]; simpl in *;
    unfold set_mult, set_type, set_fmt, set_z0; simpl; f_equal;
    first [ apply A8 | apply A9 | apply A10 | apply A11 ]; discriminate.
Qed.

(* the hypothesis "no field of that kind in fs2" of the draft statement is not needed *)
Lemma option_last_wins_lemma : forall v2 fs1 f fs2 f', okind_of f = okind_of f' -> ofield_ok f -> ofield_ok f' ->
  opts_hdr v2 (fs1 ++ f :: fs2 ++ [f']) = opts_hdr v2 (fs1 ++ fs2 ++ [f']).
Proof.
  intros v2 fs1 f fs2 f' Hk _ Hok'. unfold opts_hdr. rewrite !fold_left_app. cbn [fold_left]. rewrite !fold_left_app. cbn [fold_left].
  apply eqoff_final; auto. apply eqoff_fold. rewrite <- Hk. apply eqoff_apply_same.
Qed.
