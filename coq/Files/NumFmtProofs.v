(* Lemmas about the print_value model: the printed text denotes exactly the digit string that
   printf produced, scaled by the right power of ten; the fixed buffers are large enough. *)
Require Import List ZArith Ascii Bool Lia.
Import ListNotations.
Require Import LV.Files.NumFmtModel.
Open Scope Z_scope.
Ltac Zify.zify_post_hook ::= Z.div_mod_to_equations.
Arguments digit_char _ : simpl never.
Arguments is_digit _ : simpl never.
Arguments digit_val _ : simpl never.

Definition lt10 (ds : list nat) : Prop := Forall (fun d => (d < 10)%nat) ds.

Lemma digit_char_is_digit : forall d, (d < 10)%nat -> is_digit (digit_char d) = true.
Proof. intros d H. do 10 (destruct d as [|d]; [reflexivity|]). lia. Qed.

Lemma digit_char_val : forall d, (d < 10)%nat -> digit_val (digit_char d) = Z.of_nat d.
Proof. intros d H. do 10 (destruct d as [|d]; [reflexivity|]). lia. Qed.

Definition starts_nondigit (r : text) : Prop :=
  match r with [] => True | c :: _ => is_digit c = false end.

Lemma span_cons : forall c r,
  span_digits (c :: r) = if is_digit c then let (a, b) := span_digits r in (c :: a, b) else ([], c :: r).
Proof. reflexivity. Qed.

Lemma span_digits_chars : forall l r, lt10 l -> starts_nondigit r ->
  span_digits (chars l ++ r) = (chars l, r).
Proof.
  induction l as [|d l IH]; intros r Hl Hr.
  - cbn [chars map app]. destruct r as [|c r]; [reflexivity|]. rewrite span_cons. cbn in Hr. now rewrite Hr.
  - cbn [chars map app]. rewrite span_cons. inversion Hl; subst. rewrite digit_char_is_digit by assumption.
    fold (chars l). rewrite IH by assumption. reflexivity.
Qed.

Lemma num_of_chars_acc : forall l acc, lt10 l ->
  fold_left (fun a c => 10 * a + digit_val c) (chars l) acc =
  fold_left (fun a d => 10 * a + Z.of_nat d) l acc.
Proof.
  induction l as [|d l IH]; intros acc Hl; [reflexivity|].
  cbn [chars map fold_left]. inversion Hl; subst. rewrite digit_char_val by assumption. apply IH; assumption.
Qed.

Lemma num_of_chars : forall l, lt10 l -> num_of (chars l) = digits_value l.
Proof. intros. apply num_of_chars_acc; assumption. Qed.

Lemma chars_app : forall a b, chars (a ++ b) = chars a ++ chars b.
Proof. intros. apply map_app. Qed.

Lemma chars_length : forall a, length (chars a) = length a.
Proof. intros. apply map_length. Qed.

Lemma spaces_nondigit : forall k, starts_nondigit (spaces k).
Proof. destruct k; [exact I|reflexivity]. Qed.

Lemma all_blank_spaces : forall k, all_blank (spaces k) = true.
Proof. induction k; [reflexivity|]. cbn [spaces repeat all_blank forallb]. fold (spaces k). fold (all_blank (spaces k)). now rewrite IHk. Qed.

(* --- the exponent text ------------------------------------------------------------------ *)
Lemma exp_digits_lt10 : forall a, 0 <= a < 1000 -> lt10 (exp_digits a).
Proof.
  intros a H. unfold exp_digits, lt10.
  destruct (a <? 10) eqn:E1; [apply Z.ltb_lt in E1|apply Z.ltb_ge in E1].
  - apply Forall_cons; [lia|apply Forall_cons; [lia|apply Forall_nil]].
  - destruct (a <? 100) eqn:E2; [apply Z.ltb_lt in E2|apply Z.ltb_ge in E2].
    + apply Forall_cons; [lia|apply Forall_cons; [lia|apply Forall_nil]].
    + apply Forall_cons; [lia|apply Forall_cons; [lia|apply Forall_cons; [lia|apply Forall_nil]]].
Qed.

Lemma exp_digits_value : forall a, 0 <= a < 1000 -> digits_value (exp_digits a) = a.
Proof.
  intros a H. unfold exp_digits, digits_value.
  destruct (a <? 10) eqn:E1; [apply Z.ltb_lt in E1|apply Z.ltb_ge in E1]; cbn [fold_left].
  - rewrite !Z2Nat.id by lia. lia.
  - destruct (a <? 100) eqn:E2; [apply Z.ltb_lt in E2|apply Z.ltb_ge in E2]; cbn [fold_left];
      rewrite !Z2Nat.id by lia; lia.
Qed.

Lemma exp_digits_nonempty : forall a, exp_digits a <> [].
Proof. intros a. unfold exp_digits. destruct (a <? 10); [discriminate|]. destruct (a <? 100); discriminate. Qed.

Lemma parse_exp_text : forall e k, -1000 < e < 1000 ->
  parse_exp (exp_text e ++ spaces k) = (e, spaces k).
Proof.
  intros e k He. unfold exp_text, parse_exp.
  change (("e"%char :: (if e <? 0 then "-"%char else "+"%char) :: chars (exp_digits (Z.abs e))) ++ spaces k)
    with ("e"%char :: (if e <? 0 then "-"%char else "+"%char) :: (chars (exp_digits (Z.abs e)) ++ spaces k)).
  cbv beta iota. change (Ascii.eqb "e" "e") with true. cbv beta iota. simpl orb. cbv iota.
  assert (Ha : 0 <= Z.abs e < 1000) by lia.
  destruct (e <? 0) eqn:E; [apply Z.ltb_lt in E|apply Z.ltb_ge in E]; unfold parse_sign; simpl Ascii.eqb; cbv iota;
    rewrite span_digits_chars by (auto using exp_digits_lt10, spaces_nondigit);
    pose proof (exp_digits_nonempty (Z.abs e)) as Hne;
    destruct (chars (exp_digits (Z.abs e))) eqn:Hc;
    try (exfalso; apply Hne; destruct (exp_digits (Z.abs e)); [reflexivity|discriminate]);
    rewrite <- Hc; rewrite num_of_chars by (apply exp_digits_lt10; assumption);
    rewrite exp_digits_value by assumption; f_equal; lia.
Qed.

(* --- before ------------------------------------------------------------------------------ *)
Lemma c_mod3_is_mod : forall t, c_mod3 t = t mod 3.
Proof. intros t. unfold c_mod3. destruct (0 <=? t) eqn:E; [reflexivity|]. apply Z.leb_gt in E. lia. Qed.

Lemma before_range : forall p ex, (1 <= p)%nat ->
  0 <= before p ex <= 3 /\ before p ex <= Z.of_nat p /\ ((3 <= p)%nat -> 1 <= before p ex) /\
  ((p = 1)%nat -> before p ex = 1).
Proof.
  intros p ex Hp. unfold before.
  destruct p as [|[|[|p]]]; try lia; rewrite ?c_mod3_is_mod; repeat split; try lia.
Qed.

Lemma engineering_exponent : forall p ex, (3 <= p)%nat -> (ex - (before p ex - 1)) mod 3 = 0.
Proof.
  intros p ex Hp. unfold before. destruct p as [|[|[|p]]]; try lia. rewrite c_mod3_is_mod. lia.
Qed.

(* --- the main statement ----------------------------------------------------------------- *)
Lemma parse_sign_digit : forall c r, is_digit c = true -> parse_sign (c :: r) = (false, c :: r).
Proof.
  intros c r H. unfold parse_sign.
  destruct (Ascii.eqb_spec c "-"%char) as [->|_]; [discriminate H|].
  destruct (Ascii.eqb_spec c "+"%char) as [->|_]; [discriminate H|]. reflexivity.
Qed.

Lemma firstn_skipn_len : forall (ds : list nat) b, (b <= length ds)%nat ->
  firstn (length ds - b) (skipn b ds) = skipn b ds.
Proof. intros. apply firstn_all2. rewrite skipn_length. lia. Qed.

Lemma In_firstn' : forall (A : Type) (x : A) n l, In x (firstn n l) -> In x l.
Proof. intros A x n l H. rewrite <- (firstn_skipn n l). apply in_or_app. now left. Qed.

Lemma lt10_firstn : forall ds b, lt10 ds -> lt10 (firstn b ds).
Proof. intros ds b H. unfold lt10 in *. rewrite Forall_forall in *. intros x Hx. apply H. eapply In_firstn'; eauto. Qed.

Lemma In_skipn : forall (A : Type) (x : A) n l, In x (skipn n l) -> In x l.
Proof. intros A x n l H. rewrite <- (firstn_skipn n l). apply in_or_app. now right. Qed.

Lemma lt10_skipn : forall ds b, lt10 ds -> lt10 (skipn b ds).
Proof. intros ds b H. unfold lt10 in *. rewrite Forall_forall in *. intros x Hx. apply H. eapply In_skipn; eauto. Qed.

(* body = digits with the point moved, then the exponent or blanks; parse it without sign *)
Lemma parse_body : forall (pad : bool) (ds : list nat) (ex : Z) (k : nat),
  ds <> [] -> lt10 ds -> -990 <= ex <= 990 ->
  let p := length ds in
  let b := Z.to_nat (before p ex) in
  let ex' := ex - (before p ex - 1) in
  let body : text := chars (firstn b ds) ++
    (if (Nat.ltb 0 (p - b)) || (ex' =? 0) then "."%char :: chars (firstn (p - b) (skipn b ds)) else @nil ascii) ++
    (if negb (ex' =? 0) then exp_text ex' else if pad then spaces 4 else @nil ascii) in
  exists rest,
    (let (ip, r1) := span_digits (body ++ spaces k) in
     let '(fp, r2) := match r1 with
                      | c :: r => if Ascii.eqb c "."%char then span_digits r else (@nil ascii, r1)
                      | [] => (@nil ascii, r1)
                      end in
     match ip ++ fp with
     | [] => None
     | m => let (e, r3) := parse_exp r2 in
            Some ({| d_neg := false; d_mant := num_of m; d_exp10 := e - Z.of_nat (length fp) |}, r3)
     end) = Some ({| d_neg := false; d_mant := digits_value ds; d_exp10 := ex - Z.of_nat p + 1 |}, rest)
    /\ all_blank rest = true
    /\ (exists c r, body = c :: r /\ (is_digit c = true \/ c = "."%char)).
Proof.
  intros pad ds ex k Hne Hl Hex p b ex' body.
  assert (Hp : (1 <= p)%nat) by (unfold p; destruct ds; [congruence|simpl; lia]).
  destruct (before_range p ex Hp) as (Hb03 & Hbp & Hb3 & Hb1).
  assert (Hbn : (b <= p)%nat) by (unfold b; lia).
  assert (Hbz : Z.of_nat b = before p ex) by (unfold b; lia).
  assert (Hex' : -1000 < ex' < 1000) by (unfold ex'; lia).
  assert (Hfs : firstn (p - b) (skipn b ds) = skipn b ds) by (apply firstn_skipn_len; exact Hbn).
  assert (Hcat : chars (firstn b ds) ++ chars (skipn b ds) = chars ds)
    by (rewrite <- chars_app, firstn_skipn; reflexivity).
  assert (Hdsne : chars ds <> []) by (destruct ds; [congruence|discriminate]).
  set (tail := if negb (ex' =? 0) then exp_text ex' else if pad then spaces 4 else []) in *.
  assert (Htail_nd : starts_nondigit (tail ++ spaces k)).
  { unfold tail. destruct (ex' =? 0); simpl negb; cbv iota.
    - destruct pad; simpl; [reflexivity|apply spaces_nondigit].
    - simpl. reflexivity. }
  assert (Hparse_tail : exists rest, parse_exp (tail ++ spaces k) = (ex', rest) /\ all_blank rest = true).
  { unfold tail. destruct (ex' =? 0) eqn:E0; simpl negb; cbv iota.
    - apply Z.eqb_eq in E0. rewrite E0.
      destruct pad.
      + exists (spaces 4 ++ spaces k). split; [reflexivity|].
        unfold all_blank. rewrite forallb_app. fold (all_blank (spaces 4)). fold (all_blank (spaces k)).
        now rewrite !all_blank_spaces.
      + exists (spaces k). split; [|apply all_blank_spaces].
        destruct k; reflexivity.
    - exists (spaces k). split; [apply parse_exp_text; exact Hex'|apply all_blank_spaces]. }
  destruct Hparse_tail as (rest & Hpt & Hblank).
  exists rest.
  destruct ((Nat.ltb 0 (p - b)) || (ex' =? 0)) eqn:Edot.
  - (* the point is printed *)
    unfold body. rewrite Hfs. fold tail.
    rewrite <- !app_assoc. cbn [app].
    rewrite span_digits_chars by (auto using lt10_firstn; simpl; reflexivity).
    change (Ascii.eqb "." ".") with true. cbv iota.
    rewrite span_digits_chars by (auto using lt10_skipn).
    rewrite Hcat. destruct (chars ds) eqn:Hc; [congruence|]. rewrite <- Hc.
    match goal with |- context [parse_exp ?t] => change (parse_exp t) with (parse_exp (tail ++ spaces k)) end.
    rewrite Hpt. rewrite num_of_chars by assumption. rewrite chars_length, skipn_length.
    split; [|split; [exact Hblank|]].
    + do 3 f_equal. fold p. unfold ex'. clearbody p b. lia.
    + destruct (firstn b ds) as [|d0 l0] eqn:Hf0.
      * simpl. eauto.
      * simpl. exists (digit_char d0). eexists. split; [reflexivity|left].
        apply digit_char_is_digit.
        assert (Hin : In d0 ds) by (apply (In_firstn' _ d0 b); rewrite Hf0; now left).
        unfold lt10 in Hl. rewrite Forall_forall in Hl. auto.
  - (* no point: all digits before it, exponent not zero *)
    apply orb_false_iff in Edot. destruct Edot as [E1 E2].
    apply Nat.ltb_ge in E1. assert (Hbp' : b = p) by lia.
    unfold tail in Hpt. rewrite E2 in Hpt. cbn [negb] in Hpt. cbv iota in Hpt.
    unfold body. rewrite E2. cbn [negb]. cbv iota.
    replace (firstn b ds) with ds by (rewrite Hbp'; symmetry; apply firstn_all2; fold p; lia).
    rewrite <- app_assoc. cbn [app].
    assert (Htl : exists c r, exp_text ex' ++ spaces k = c :: r /\ Ascii.eqb c "."%char = false /\ is_digit c = false).
    { unfold exp_text. cbn [app]. eexists. eexists. split; [reflexivity|]. split; reflexivity. }
    destruct Htl as (c & r & Htl & Hcd & Hnd).
    rewrite span_digits_chars by (auto; rewrite Htl; exact Hnd).
    rewrite Htl, Hcd. rewrite <- Htl.
    rewrite app_nil_r. destruct (chars ds) eqn:Hc; [congruence|]. rewrite <- Hc.
    rewrite Hpt. rewrite num_of_chars by assumption.
    split; [|split; [exact Hblank|]].
    + do 3 f_equal. cbn [length]. fold p. unfold ex'. clearbody p b. lia.
    + destruct ds as [|d0 l0]; [congruence|]. cbn [chars map app]. exists (digit_char d0). eexists. split; [reflexivity|left].
      apply digit_char_is_digit. inversion Hl; assumption.
Qed.

Lemma parse_sign_body : forall c r, (is_digit c = true \/ c = "."%char) -> parse_sign (c :: r) = (false, c :: r).
Proof. intros c r [H| ->]; [apply parse_sign_digit; exact H|reflexivity]. Qed.

(* eng_value: for every sign, digit string, exponent and precision p = length ds >= 1 the text that
   print_value produces parses, by the loaders' number grammar, to exactly
   (-1)^neg * digits * 10^(ex - p + 1); what follows the number is blank padding only. *)
Lemma eng_value_lemma : forall (plus pad neg : bool) (ds : list nat) (ex : Z),
  ds <> [] -> lt10 ds -> -990 <= ex <= 990 ->
  exists rest,
    parse_decimal (print_value plus pad neg ds ex) =
      Some ({| d_neg := neg; d_mant := digits_value ds; d_exp10 := ex - Z.of_nat (length ds) + 1 |}, rest)
    /\ all_blank rest = true.
Proof.
  intros plus pad neg ds ex Hne Hl Hex.
  set (core := print_core plus pad neg ds ex).
  set (k := if pad then (length ds + 5 + (if plus then 1 else 0) - length core)%nat else 0%nat).
  assert (Hpv : print_value plus pad neg ds ex = core ++ spaces k).
  { unfold print_value, k. fold core. destruct pad; [reflexivity|]. cbn [spaces repeat]. now rewrite app_nil_r. }
  rewrite Hpv. unfold core, print_core.
  destruct (parse_body pad ds ex k Hne Hl Hex) as (rest & Hparse & Hblank & (c & r & Hbody & Hc)).
  exists rest. split; [|exact Hblank].
  match type of Hbody with ?B = _ => set (body := B) in * end.
  unfold parse_decimal.
  destruct (plus || neg) eqn:Esign.
  - (* a sign character is printed *)
    rewrite <- app_assoc. cbn [app]. destruct neg.
    + unfold parse_sign. change (Ascii.eqb "-" "-") with true. cbv iota.
      destruct (span_digits (body ++ spaces k)) as [ip r1] eqn:Hs.
      assert (Hfin : forall (fp r2 : text),
        match ip ++ fp with
        | [] => None
        | m => let (e, r3) := parse_exp r2 in
               Some ({| d_neg := false; d_mant := num_of m; d_exp10 := e - Z.of_nat (length fp) |}, r3)
        end = Some ({| d_neg := false; d_mant := digits_value ds; d_exp10 := ex - Z.of_nat (length ds) + 1 |}, rest) ->
        match ip ++ fp with
        | [] => None
        | m => let (e, r3) := parse_exp r2 in
               Some ({| d_neg := true; d_mant := num_of m; d_exp10 := e - Z.of_nat (length fp) |}, r3)
        end = Some ({| d_neg := true; d_mant := digits_value ds; d_exp10 := ex - Z.of_nat (length ds) + 1 |}, rest)).
      { intros fp r2 H. destruct (ip ++ fp); [discriminate H|].
        destruct (parse_exp r2) as [e r3]. inversion H; subst. reflexivity. }
      destruct r1 as [|c0 r0].
      * apply Hfin. exact Hparse.
      * destruct (Ascii.eqb c0 "."%char).
        -- destruct (span_digits r0) as [fp r2]. apply Hfin. exact Hparse.
        -- apply Hfin. exact Hparse.
    + unfold parse_sign. change (Ascii.eqb "+" "-") with false. change (Ascii.eqb "+" "+") with true. cbv iota.
      exact Hparse.
  - (* no sign character: the value is not negative and the text starts with a digit or the point *)
    apply orb_false_iff in Esign. destruct Esign as [_ ->]. cbn [app].
    rewrite Hbody. cbn [app]. rewrite parse_sign_body by exact Hc.
    rewrite Hbody in Hparse. cbn [app] in Hparse. exact Hparse.
Qed.

(* buffers_fit: neither buf1 (the sprintf text) nor buf2 (the engineering text, before the final
   fprintf) exceeds char buf[MAX(precision, 1) + 8] including the terminating NUL. *)
Lemma exp_text_length : forall e, -1000 < e < 1000 -> (length (exp_text e) <= 5)%nat.
Proof.
  intros e H. unfold exp_text. cbn [length]. rewrite chars_length. unfold exp_digits.
  destruct (Z.abs e <? 10); [cbn [length]; lia|]. destruct (Z.abs e <? 100); cbn [length]; lia.
Qed.

Lemma buffers_fit_lemma : forall (plus pad neg : bool) (ds : list nat) (ex : Z),
  ds <> [] -> -990 <= ex <= 990 ->
  (length (print_core plus pad neg ds ex) + 1 <= buffer_size (length ds))%nat /\
  (sprintf_e_length neg (length ds) ex + 1 <= buffer_size (length ds))%nat.
Proof.
  intros plus pad neg ds ex Hne Hex.
  set (p := length ds).
  assert (Hp : (1 <= p)%nat) by (unfold p; destruct ds; [congruence|cbn [length]; lia]).
  destruct (before_range p ex Hp) as (Hb03 & Hbp & Hb3 & Hb1).
  split.
  - unfold print_core. fold p. set (b := Z.to_nat (before p ex)).
    assert (Hbn : (b <= p)%nat) by (unfold b; lia).
    rewrite !app_length, !chars_length. rewrite firstn_length_le by (fold p; exact Hbn).
    assert (H1 : (length (if plus || neg then [if neg then "-"%char else "+"%char] else []) <= 1)%nat)
      by (destruct (plus || neg); cbn [length]; lia).
    set (ex' := ex - (before p ex - 1)).
    assert (Hex' : -1000 < ex' < 1000) by (unfold ex'; lia).
    assert (H2 : (length (if Nat.ltb 0 (p - b) || (ex' =? 0)%Z
                          then "."%char :: chars (firstn (p - b) (skipn b ds)) else []) <= 1 + (p - b))%nat).
    { destruct (Nat.ltb 0 (p - b) || (ex' =? 0)%Z); cbn [length]; [|lia].
      rewrite chars_length, firstn_length. lia. }
    assert (H3 : (length (if negb (ex' =? 0)%Z then exp_text ex'
                          else if pad then spaces 4 else []) <= 5)%nat).
    { destruct (ex' =? 0); cbn [negb]; cbv iota.
      - destruct pad; cbn [spaces repeat length]; lia.
      - apply exp_text_length. exact Hex'. }
    unfold buffer_size. lia.
  - unfold sprintf_e_length, buffer_size. fold p.
    destruct neg; destruct (Nat.eqb p 1) eqn:E; destruct (Z.abs ex <? 100)%Z; try apply Nat.eqb_eq in E; lia.
Qed.

(* non-vacuity and concrete instances *)
Example eng_value_example :
  print_value true true true [5;3;0;7;8;4]%nat (-1) =
    ["-";"5";"3";"0";".";"7";"8";"4";"e";"-";"0";"3"]%char /\
  parse_decimal (print_value true true true [5;3;0;7;8;4]%nat (-1)) =
    Some ({| d_neg := true; d_mant := 530784; d_exp10 := -6 |}, []).
Proof. split; reflexivity. Qed.
