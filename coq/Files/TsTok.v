(* Byte-level model of the Touchstone tokenizer of vnadata_load_touchstone.c (next_char, next_token,
   convert_int, convert_double) as coded.  No proofs in this file.

   Bytes are N below 256 (C locale).  next_char upper-cases every byte it reads and is the only
   reader, hence [tokens l = scan MNormal false (map upcase l)].

   The tokenizer is split in two layers:
   * [scan]: a structurally recursive automaton over the bytes producing the *raw* token stream,
     which does not depend on the flags next_token is called with: every newline outside a comment
     is a raw token [RNl opt] (opt = the option-line flag tps_in_option_line at that point), a word
     is [RWord text opt] with its text not yet converted;
   * [tok_of fl x] / [pull fl r]: what one call next_token(fl) makes of the raw tokens: a newline is
     T_EOL if (fl & F_EOL) or the option-line flag is set and is skipped otherwise; a word is
     converted according to F_NOCONV / F_INT (strtol base 0, then strtod, each with full
     consumption), then looked up among the option keywords when on the option line.
   The raw stream ends with [REof] or with an error token (next_token returned -1: the caller stops).

   Number grammar covered (on upper-cased text; a word can hold only alphanumerics and + , - . _):
     strtol base 0:  [+-]? ( 0X hex+ | 0 oct* | [1-9] dec* )        value saturated to long, narrowed to int
     strtod       :  [+-]? ( INF | INFINITY | NAN
                           | 0X ( hex+ [. hex*] | . hex+ ) [ P [+-]? dec+ ]
                           | ( dec+ [. dec*] | . dec+ ) [ E [+-]? dec+ ] )
   which is everything glibc's strtod accepts in the C locale out of such a word ("NAN(...)" cannot
   occur: parentheses end a word).  The value is the exact rational, except that magnitudes that
   round to infinity (>= 2^1024 - 2^970) or to zero (<= 2^-1075) in binary64 are [XInf] / 0. *)
Require Import List NArith ZArith QArith Qcanon Bool.
Import ListNotations.
Open Scope N_scope.

(* ---- characters (C locale) ------------------------------------------------------------------ *)
Definition is_lower (c : N) : bool := (97 <=? c) && (c <=? 122).
Definition is_upper (c : N) : bool := (65 <=? c) && (c <=? 90).
Definition is_digit (c : N) : bool := (48 <=? c) && (c <=? 57).
Definition upcase (c : N) : N := if is_lower c then c - 32 else c.
Definition is_alnum (c : N) : bool := is_digit c || is_upper c || is_lower c.
Definition is_alpha (c : N) : bool := is_upper c || is_lower c.
Definition is_space (c : N) : bool := (c =? 32) || ((9 <=? c) && (c <=? 13)).
Definition is_blank (c : N) : bool := is_space c && negb (c =? 10).       (* white space that is not a newline *)
Definition is_word_start (c : N) : bool := is_alnum c || (c =? 43) || (c =? 45) || (c =? 46).
Definition is_in_word (c : N) : bool :=
  is_alnum c || (c =? 43) || (c =? 44) || (c =? 45) || (c =? 46) || (c =? 95).

Fixpoint bytes_eqb (a b : list N) : bool :=
  match a, b with
  | [], [] => true
  | x :: a', y :: b' => (x =? y) && bytes_eqb a' b'
  | _, _ => false
  end.

(* ---- keywords ------------------------------------------------------------------------------- *)
Inductive kw := KBeginInformation | KEndInformation | KMatrixFormat | KMixedModeOrder | KNetworkData
  | KNoiseData | KNumberOfFrequencies | KNumberOfNoiseFrequencies | KNumberOfPorts | KReference
  | KTwoPortOrder | KVersion | KEnd.

(* the upper-case spellings next_token compares with (strcmp after a switch on the length) *)
Definition kw_text (k : kw) : list N :=
  match k with
  | KEnd => [69;78;68]
  | KVersion => [86;69;82;83;73;79;78]
  | KReference => [82;69;70;69;82;69;78;67;69]
  | KNoiseData => [78;79;73;83;69;32;68;65;84;65]
  | KNetworkData => [78;69;84;87;79;82;75;32;68;65;84;65]
  | KMatrixFormat => [77;65;84;82;73;88;32;70;79;82;77;65;84]
  | KTwoPortOrder => [84;87;79;45;80;79;82;84;32;79;82;68;69;82]
  | KNumberOfPorts => [78;85;77;66;69;82;32;79;70;32;80;79;82;84;83]
  | KEndInformation => [69;78;68;32;73;78;70;79;82;77;65;84;73;79;78]
  | KMixedModeOrder => [77;73;88;69;68;45;77;79;68;69;32;79;82;68;69;82]
  | KBeginInformation => [66;69;71;73;78;32;73;78;70;79;82;77;65;84;73;79;78]
  | KNumberOfFrequencies => [78;85;77;66;69;82;32;79;70;32;70;82;69;81;85;69;78;67;73;69;83]
  | KNumberOfNoiseFrequencies => [78;85;77;66;69;82;32;79;70;32;78;79;73;83;69;32;70;82;69;81;85;69;78;67;73;69;83]
  end.
Definition all_kw : list kw :=
  [KEnd; KVersion; KReference; KNoiseData; KNetworkData; KMatrixFormat; KTwoPortOrder; KNumberOfPorts;
   KEndInformation; KMixedModeOrder; KBeginInformation; KNumberOfFrequencies; KNumberOfNoiseFrequencies].
Definition keyword_of (t : list N) : option kw := find (fun k => bytes_eqb t (kw_text k)) all_kw.

(* ---- raw tokens ------------------------------------------------------------------------------ *)
(* the errors of next_token; the keyword errors carry the text accumulated in tps_text *)
Inductive terr := EBrace (text : list N) | EKeyword (text : list N) | EChar (c : N).
Inductive rtok :=
  | RNl (opt : bool)
  | ROption
  | RKw (k : kw)
  | RWord (text : list N) (opt : bool)
  | REof
  | RErr (e : terr).

Inductive mode := MNormal | MComment | MWord (acc : list N) | MKw (acc : list N).

(* the scanner over upper-cased bytes; [acc] holds the text read so far in reverse *)
Fixpoint scan (m : mode) (opt : bool) (l : list N) {struct l} : list rtok :=
  match l with
  | [] => match m with
          | MNormal | MComment => [REof]
          | MWord acc => [RWord (rev acc) opt; REof]
          | MKw acc => [RErr (EBrace (rev acc))]             (* missing closing brace of keyword *)
          end
  | c :: r =>
    let normal (_ : unit) :=                                 (* the main switch of next_token on tps_char = c *)
      if c =? 10 then RNl opt :: scan MNormal false r
      else if c =? 33 then scan MComment opt r                (* ! *)
      else if c =? 35 then ROption :: scan MNormal true r     (* # *)
      else if c =? 91 then scan (MKw []) opt r                (* [ *)
      else if is_word_start c then scan (MWord [c]) opt r
      else if is_space c then scan MNormal opt r
      else [RErr (EChar c)] in
    match m with
    | MNormal => normal tt
    | MComment => if c =? 10 then RNl opt :: scan MNormal false r else scan MComment opt r
    | MWord acc => if is_in_word c then scan (MWord (c :: acc)) opt r else RWord (rev acc) opt :: normal tt
    | MKw acc =>
        if c =? 93 then match keyword_of (rev acc) with
                        | Some k => RKw k :: scan MNormal opt r
                        | None => [RErr (EKeyword (rev acc))]  (* unknown keyword *)
                        end
        else if c =? 10 then [RErr (EBrace (rev acc))]
        else scan (MKw (c :: acc)) opt r
    end
  end.

Definition tokens (l : list N) : list rtok := scan MNormal false (map upcase l).

(* ---- the text buffer (start_text / add_char / end_text) ------------------------------------------ *)
(* add_char: "if (tps_text_length + 1 >= tps_text_allocation) allocation *= 2", then text[length++] = c.
   A state is (length, allocation); start_text resets the length, the allocation is kept for the
   whole load (initially VNADATA_LOAD_INITIAL_TEXT_ALLOCATION = 64). *)
Definition initial_text_allocation : N := 64.
Definition add_char (st : N * N) : N * N :=
  let (len, alloc) := st in
  if alloc <=? len + 1 then (len + 1, 2 * alloc) else (len + 1, alloc).
Fixpoint add_chars (n : nat) (st : N * N) : N * N :=
  match n with O => st | S k => add_chars k (add_char st) end.
(* allocation after a text of n characters was accumulated, starting from allocation a *)
Definition alloc_after_text (a : N) (n : nat) : N := snd (add_chars n (0, a)).
Definition rtok_text_length (x : rtok) : nat :=
  match x with
  | RWord t _ => length t
  | RKw k => length (kw_text k)
  | RErr (EBrace t) | RErr (EKeyword t) => length t
  | _ => O
  end.
(* tps_text_allocation when the stream has been read to its end *)
Definition final_allocation (r : list rtok) : N :=
  fold_left (fun a x => alloc_after_text a (rtok_text_length x)) r initial_text_allocation.

(* ---- numbers --------------------------------------------------------------------------------- *)
(* a C double as far as the loader can tell: an exact rational, an infinity or a NaN *)
Inductive xnum := XQ (q : Qc) | XInf (neg : bool) | XNaN.

Definition digit_val (c : N) : Z := Z.of_N (c - 48).
Definition is_hex (c : N) : bool := is_digit c || ((65 <=? c) && (c <=? 70)).
Definition hex_val (c : N) : Z := if is_digit c then Z.of_N (c - 48) else Z.of_N (c - 55).
Definition is_oct (c : N) : bool := (48 <=? c) && (c <=? 55).

Fixpoint span (p : N -> bool) (l : list N) : list N * list N :=
  match l with
  | c :: r => if p c then let (a, b) := span p r in (c :: a, b) else ([], l)
  | [] => ([], [])
  end.
Definition val_of (base : Z) (dv : N -> Z) (ds : list N) : Z := fold_left (fun acc c => (base * acc + dv c)%Z) ds 0%Z.

Definition split_sign (t : list N) : bool * list N :=
  match t with
  | 45 :: r => (true, r)
  | 43 :: r => (false, r)
  | _ => (false, t)
  end.

(* strtol(text, &end, 0) with end at the terminating NUL: the magnitude, or None *)
Definition int_magnitude (t : list N) : option Z :=
  match t with
  | 48 :: 88 :: c :: r =>                                     (* 0X *)
      if is_hex c then (if forallb is_hex r then Some (val_of 16 hex_val (c :: r)) else None)
      else None                                               (* only the "0" is consumed *)
  | 48 :: r => if forallb is_oct r then Some (val_of 8 digit_val r) else None
  | c :: r => if is_digit c && forallb is_digit r then Some (val_of 10 digit_val (c :: r)) else None
  | [] => None
  end.
Definition long_max : Z := 9223372036854775807%Z.
(* (int)strtol(...): saturation to long, then the implementation-defined narrowing (wrap) to 32 bits *)
Definition narrow_int (v : Z) : Z :=
  let s := Z.max (- long_max - 1) (Z.min long_max v) in
  let w := (s mod 4294967296)%Z in
  if (w >=? 2147483648)%Z then (w - 4294967296)%Z else w.
Definition parse_int (t : list N) : option Z :=
  let (neg, r) := split_sign t in
  match int_magnitude r with
  | Some m => Some (narrow_int (if neg then - m else m)%Z)
  | None => None
  end.

(* m * base^e as a double: exact unless it rounds to infinity or to zero *)
Definition two_pow (e : Z) : Q := if (0 <=? e)%Z then inject_Z (2 ^ e) else / inject_Z (2 ^ (- e)).
Definition inf_threshold : Q := inject_Z (2 ^ 1024 - 2 ^ 970).
Definition zero_threshold : Q := / inject_Z (2 ^ 1075).
Definition classify_mag (neg : bool) (q : Q) : xnum :=      (* q >= 0 *)
  if Qle_bool inf_threshold q then XInf neg
  else if Qle_bool q zero_threshold then XQ (Q2Qc 0)
  else XQ (Q2Qc (if neg then - q else q)).
Definition scaled (neg : bool) (m : Z) (ndigits : Z) (base : Z) (e : Z) (hi lo : Z) : xnum :=
  (* m >= 0 has at most ndigits digits in the base; exponents beyond hi / below lo need no arithmetic *)
  if (m =? 0)%Z then XQ (Q2Qc 0)
  else if (hi <? e)%Z then XInf neg
  else if (e + ndigits <? lo)%Z then XQ (Q2Qc 0)
  else classify_mag neg (if (0 <=? e)%Z then inject_Z (m * base ^ e) else inject_Z m / inject_Z (base ^ (- e))).

(* optional exponent "E[+-]?dec+" / "P[+-]?dec+" at the very end of the text: Some e, or None when text remains *)
Definition parse_exponent (mark : N) (t : list N) : option Z :=
  match t with
  | [] => Some 0%Z
  | c :: r => if c =? mark then
                let (neg, ds) := split_sign r in
                match ds with
                | [] => None
                | _ => if forallb is_digit ds then Some (let v := val_of 10 digit_val ds in if neg then (- v)%Z else v) else None
                end
              else None
  end.

(* digits [. digits] with at least one digit, then the exponent *)
Definition parse_mantissa (isd : N -> bool) (t : list N) : option (list N * list N * list N) :=
  let (ip, r1) := span isd t in
  match r1 with
  | 46 :: r2 => let (fp, r3) := span isd r2 in
                match ip, fp with [], [] => None | _, _ => Some (ip, fp, r3) end
  | _ => match ip with [] => None | _ => Some (ip, [], r1) end
  end.

Definition txt_inf : list N := [73;78;70].
Definition txt_infinity : list N := [73;78;70;73;78;73;84;89].
Definition txt_nan : list N := [78;65;78].

Definition parse_double (t : list N) : option xnum :=
  let (neg, r) := split_sign t in
  if bytes_eqb r txt_inf || bytes_eqb r txt_infinity then Some (XInf neg)
  else if bytes_eqb r txt_nan then Some XNaN
  else
    let hex := match r with
               | 48 :: 88 :: r' =>
                   match parse_mantissa is_hex r' with
                   | Some (ip, fp, rest) =>
                       match parse_exponent 80 rest with
                       | Some e => Some (Some (scaled neg (val_of 16 hex_val (ip ++ fp)) (4 * Z.of_nat (length (ip ++ fp)))
                                                        2 (e - 4 * Z.of_nat (length fp)) 1100 (-1100)))
                       | None => Some None                   (* 0X1P: the exponent is not consumed *)
                       end
                   | None => Some None                       (* "0X" without a hexadecimal digit: only "0" is consumed *)
                   end
               | _ => None
               end in
    match hex with
    | Some res => res
    | None =>
        match parse_mantissa is_digit r with
        | Some (ip, fp, rest) =>
            match parse_exponent 69 rest with
            | Some e => Some (scaled neg (val_of 10 digit_val (ip ++ fp)) (Z.of_nat (length (ip ++ fp)))
                                     10 (e - Z.of_nat (length fp)) 400 (-400))
            | None => None
            end
        | None => None
        end
    end.

(* ---- tokens as next_token returns them ------------------------------------------------------- *)
Inductive opkw := OHz | OKHz | OMHz | OGHz | OTHz | OS | OY | OZ | OH | OG | ODB | OMA | ORI | OR.
Inductive token :=
  | TKw (k : kw) | TOp (o : opkw) | TOption | TWord (text : list N) | TInt (z : Z) | TDouble (x : xnum)
  | TEol | TEof | TError.

Record flags := { f_noconv : bool; f_int : bool; f_eol : bool }.
Definition F_NONE := Build_flags false false false.
Definition F_NOCONV := Build_flags true false false.
Definition F_INT := Build_flags false true false.
Definition F_EOL := Build_flags false false true.

Definition opkw_text (o : opkw) : list N :=
  match o with
  | OG => [71] | OH => [72] | OR => [82] | OS => [83] | OY => [89] | OZ => [90]
  | ODB => [68;66] | OHz => [72;90] | OMA => [77;65] | ORI => [82;73]
  | OGHz => [71;72;90] | OKHz => [75;72;90] | OMHz => [77;72;90] | OTHz => [84;72;90]
  end.
Definition all_opkw : list opkw := [OG; OH; OR; OS; OY; OZ; ODB; OHz; OMA; ORI; OGHz; OKHz; OMHz; OTHz].
Definition opkw_of (t : list N) : option opkw := find (fun o => bytes_eqb t (opkw_text o)) all_opkw.

Definition classify (fl : flags) (text : list N) (opt : bool) : token :=
  let word := if opt then match opkw_of text with Some o => TOp o | None => TWord text end else TWord text in
  if f_noconv fl then word
  else
    match (if f_int fl then parse_int text else None) with
    | Some z => TInt z
    | None => match parse_double text with
              | Some x => TDouble x
              | None => word
              end
    end.

(* what one call next_token(fl) makes of the raw token at the head of the stream; None: skipped *)
Definition tok_of (fl : flags) (x : rtok) : option token :=
  match x with
  | RNl o => if f_eol fl || o then Some TEol else None
  | ROption => Some TOption
  | RKw k => Some (TKw k)
  | RWord t o => Some (classify fl t o)
  | REof => Some TEof
  | RErr _ => Some TError
  end.

(* next_token(fl): the token and the rest of the stream (end of file and errors are sticky) *)
Fixpoint pull (fl : flags) (r : list rtok) : token * list rtok :=
  match r with
  | [] => (TEof, [])
  | x :: r' => match tok_of fl x with
               | None => pull fl r'
               | Some TEof => (TEof, r)
               | Some TError => (TError, r)
               | Some t => (t, r')
               end
  end.

(* the tokens a caller sees when it calls next_token with the same flags until T_EOF or -1 *)
Fixpoint pull_all (fl : flags) (r : list rtok) : list token :=
  match r with
  | [] => [TEof]
  | x :: r' => match tok_of fl x with
               | None => pull_all fl r'
               | Some TEof => [TEof]
               | Some TError => [TError]
               | Some t => t :: pull_all fl r'
               end
  end.
