(* The version-1 load theorem of the Touchstone parser model: the raw token stream of every well-formed
   abstract version-1 file (TsSpec.v1_wf: 1 to 4 ports, one or more frequency records, optional noise
   lines after a 2-port file) parses to TsSpec.v1_result.  Induction over the record list on top of the
   per-record lemmas of TsSpecV1.v (the first record is special: the port count is inferred from it, and a
   4-port file is first taken for a 2-port file).

   Nothing here changes the model: TsTok.v, TsParse.v and TsSpec.v are only read. *)
Require Import List NArith ZArith QArith Qcanon Bool Lia. Import ListNotations.
Require Import LV.Files.TsTok LV.Files.TsParse LV.Files.TsSpec LV.Files.TsSpecV1.
Local Open Scope nat_scope.

Lemma v1_cells_other : forall n vals, n <> 2 -> v1_cells n vals = pairs_of vals.
Proof. intros n vals H. unfold v1_cells. destruct n as [| [| [| n]]]; try reflexivity. congruence. Qed.

Definition cells1 (n : nat) (r : num * list num) : list cell := v1_cells n (map n_val (snd r)).

(* ---- the records after the first --------------------------------------------------------------------- *)
Lemma recs_run_n : forall h n rs fr ms, 1 <= n -> n <> 2 -> Forall (rec_ok n) rs -> chain h fr rs ->
  fold_left pstep (flat_map (v1_record_lines n) rs) (W h n 0 fr ms) =
  W h n 0 (rev (map (fq h) rs) ++ fr) (rev (map (cells1 n) rs) ++ ms).
Proof.
  intros h n rs. induction rs as [| r rs IH]; intros fr ms H1 H2 Hok Hch.
  - reflexivity.
  - inversion Hok as [| ? ? Hr Hrs]; subst. destruct Hch as [Hf Hch].
    cbn [flat_map]. rewrite fold_left_app, rec_run_n by assumption.
    rewrite IH by assumption. cbn [map rev]. rewrite <- !app_assoc.
    unfold cells1 at 3. rewrite v1_cells_other by assumption. reflexivity.
Qed.

Lemma recs_run_2 : forall h rs mb fr ms, Forall (rec_ok 2) rs -> chain h fr rs ->
  fold_left pstep (flat_map (v1_record_lines 2) rs) (SV1Wait h (mkv1 false 2 mb 0 false fr ms)) =
  SV1Wait h (mkv1 false 2 (match rs with [] => mb | _ => false end) 0 false
                  (rev (map (fq h) rs) ++ fr) (rev (map (cells1 2) rs) ++ ms)).
Proof.
  intros h rs. induction rs as [| r rs IH]; intros mb fr ms Hok Hch.
  - reflexivity.
  - inversion Hok as [| ? ? Hr Hrs]; subst. destruct Hch as [Hf Hch].
    cbn [flat_map]. rewrite fold_left_app, two_port_line by assumption.
    rewrite IH by assumption. cbn [map rev]. rewrite <- !app_assoc.
    destruct rs; reflexivity.
Qed.

(* ---- noise lines ----------------------------------------------------------------------------------------- *)
Definition noise_ok (l : list num) : Prop := Forall num_ok l /\ length l = 5.

Lemma noise_run_noise : forall h fr ms ls, Forall noise_ok ls ->
  fold_left pstep (flat_map (fun l => map wnum l ++ [nl]) ls) (SV1Wait h (mkv1 false 2 false 0 true fr ms)) =
  SV1Wait h (mkv1 false 2 false 0 true fr ms).
Proof.
  intros h fr ms ls H. induction H as [| l ls [Hl Hlen] _ IH]; [reflexivity |].
  cbn [flat_map]. rewrite fold_left_app, noise_line_noise by assumption. exact IH.
Qed.

Lemma noise_run : forall h mb fr ms ls, Forall noise_ok ls -> exists mb' nz,
  fold_left pstep (flat_map (fun l => map wnum l ++ [nl]) ls) (SV1Wait h (mkv1 false 2 mb 0 false fr ms)) =
  SV1Wait h (mkv1 false 2 mb' 0 nz fr ms).
Proof.
  intros h mb fr ms ls H. destruct H as [| l ls [Hl Hlen] Hls].
  - exists mb, false. reflexivity.
  - exists false, true. cbn [flat_map]. rewrite fold_left_app, noise_line_data by assumption.
    apply noise_run_noise. exact Hls.
Qed.

(* ---- the end of the file ----------------------------------------------------------------------------------- *)
Lemma v1_eof : forall h n mb nz fr ms, h_v2 h = false ->
  pfinish (pstep (SV1Wait h (mkv1 false n mb 0 nz fr ms)) REof) =
  Ok (mkobj false (h_type h) (h_fmt h) n (rev fr) (repeat (h_z0 h) n) (map (unnormalise h) (rev ms))).
Proof.
  intros h n mb nz fr ms Hv. unfold pstep. cbn [flags_of tok_of on_tok v1_wait_tok v_noise v_row Nat.eqb].
  rewrite orb_true_r. cbn [eof_tok pfinish]. unfold finalize, v1_obj. rewrite Hv. reflexivity.
Qed.

Lemma rev_tail_single : forall A (f : (num * list num) -> A) r0 rs, rev (rev (map f rs) ++ [f r0]) = map f (r0 :: rs).
Proof. intros. rewrite rev_app_distr, rev_involutive. reflexivity. Qed.

Transparent fq.
Lemma v1_freqs_fq : forall g, v1_freqs g = map (fq (opts_hdr false (g_opts g))) (g_records g).
Proof. reflexivity. Qed.
Opaque fq.

(* ---- the theorem ---------------------------------------------------------------------------------------------- *)
Theorem v1_load_lemma : forall g, v1_wf g -> parse (v1_stream g) = Ok (v1_result g).
Proof.
  intros g (Hopts & Hn & Hhg & Hne & Hrec & Hasc & Hnp & Hnoise).
  unfold parse, v1_stream.
  rewrite !app_assoc. rewrite <- (app_assoc [ROption]).
  rewrite fold_left_app. rewrite <- app_assoc, fold_left_app. rewrite v1_head_run by assumption.
  unfold v1_result. rewrite v1_freqs_fq in *.
  pose proof (opts_hdr_v1 (g_opts g)) as Hh.
  set (h := opts_hdr false (g_opts g)) in *. clearbody h.
  assert (Hv : h_v2 h = false) by (destruct Hh as (A & _); exact A).
  destruct (g_records g) as [| r0 rs] eqn:Er; [congruence |]. clear Hne.
  assert (Hrec' : Forall (rec_ok (g_ports g)) (r0 :: rs)).
  { clear -Hrec. induction Hrec as [| r l (A & B & C & D) _ IH]; constructor; [| exact IH].
    repeat split; assumption. }
  clear Hrec. inversion Hrec' as [| ? ? Hr0 Hrs]; subst.
  pose proof (chain_of_ascending h rs r0 [] Hasc) as Hch.
  cbn [flat_map]. rewrite !fold_left_app.
  assert (Hnz : Forall noise_ok (g_noise g)) by exact Hnoise.
  destruct (Nat.eq_dec (g_ports g) 2) as [E2 | E2].
  - (* two ports *)
    rewrite E2 in *. rewrite two_port_first by assumption.
    rewrite recs_run_2 by assumption.
    destruct (noise_run h (match rs with [] => negb (is_hg (h_type h)) | _ => false end)
                        (rev (map (fq h) rs) ++ [fq h r0]) (rev (map (cells1 2) rs) ++ [cells1 2 r0]) (g_noise g) Hnz)
      as (mb' & nz & En).
    fold (cells1 2 r0). rewrite En. cbn [fold_left]. rewrite v1_eof by assumption.
    rewrite !rev_tail_single. rewrite map_map. reflexivity.
  - (* 1, 3 or 4 ports: no noise lines *)
    assert (Hno : g_noise g = []).
    { destruct (g_noise g) as [| l ls]; [reflexivity |]. exfalso. apply E2, Hnp. discriminate. }
    rewrite Hno. cbn [flat_map fold_left].
    assert (Hg : is_hg (h_type h) = false).
    { destruct (is_hg (h_type h)) eqn:E; [| reflexivity]. exfalso. apply E2, Hhg. reflexivity. }
    assert (Hfirst : fold_left pstep (v1_record_lines (g_ports g) r0) (SBody h) =
                     W h (g_ports g) 0 [fq h r0] [pairs_of (map n_val (snd r0))]).
    { destruct (Nat.eq_dec (g_ports g) 4) as [E4 | E4].
      - rewrite E4 in *. apply rec_first_4; assumption.
      - apply rec_first_n; try assumption. lia. }
    rewrite Hfirst. rewrite recs_run_n by (assumption || lia).
    unfold W. rewrite v1_eof by assumption.
    rewrite <- (v1_cells_other (g_ports g)) by assumption. fold (cells1 (g_ports g) r0).
    rewrite !rev_tail_single. rewrite map_map. reflexivity.
Qed.
