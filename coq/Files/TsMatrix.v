(* Lemmas about [build_matrix] of TsParse.v: the Full / Upper / Lower spellings of a symmetric matrix and
   the 12_21 / 21_12 spellings of any matrix in a Touchstone-2 [Network Data] record give the same cells.

   A matrix is a function [M r c] giving the pair of numbers of cell (r, c).  [full_pairs], [upper_pairs]
   and [lower_pairs] list the pairs in the order in which a file of that format lists them, [nums_of]
   flattens the pairs to the numbers of the record, and [cells_of] is the expected result (row major).
   All statements are proved for every n (no bound on the number of ports). *)
Require Import List NArith ZArith QArith Qcanon Bool Lia Arith. Import ListNotations.
Require Import LV.Files.TsTok LV.Files.TsParse.
Local Open Scope nat_scope.

Definition mat := nat -> nat -> xnum * xnum.                      (* M r c = (first number, second number) of the pair *)
Definition cells_of (n : nat) (M : mat) : list cell :=               (* row major *)
  flat_map (fun r => map (fun c => mkcell (fst (M r c)) (snd (M r c)) xq1) (seq 0 n)) (seq 0 n).
Definition nums_of (l : list (xnum * xnum)) : list xnum := flat_map (fun p => [fst p; snd p]) l.
Definition full_pairs (n : nat) (M : mat) : list (xnum * xnum) := flat_map (fun r => map (fun c => M r c) (seq 0 n)) (seq 0 n).
Definition upper_pairs (n : nat) (M : mat) : list (xnum * xnum) := flat_map (fun r => map (fun c => M r c) (seq r (n - r))) (seq 0 n).
Definition lower_pairs (n : nat) (M : mat) : list (xnum * xnum) := flat_map (fun r => map (fun c => M r c) (seq 0 (S r))) (seq 0 n).
Definition symmetric (n : nat) (M : mat) : Prop := forall r c, (r < n)%nat -> (c < n)%nat -> M r c = M c r.
Definition transposed (M : mat) : mat := fun r c => M c r.

(* ---- generic list facts ------------------------------------------------------------------------- *)

(* rows [row 0], [row 1], ... laid end to end; [off r] is where row r starts *)
Section Rows.
  Variable A : Type.
  Variable row : nat -> list A.
  Variable off : nat -> nat.
  Hypothesis off0 : off 0 = 0.
  Hypothesis offS : forall r, off (S r) = off r + length (row r).

  Lemma length_flat_rows : forall r, length (flat_map row (seq 0 r)) = off r.
  Proof.
    induction r as [|r IH].
    - simpl. symmetry. exact off0.
    - rewrite seq_S, flat_map_app, app_length, IH. simpl. rewrite app_nil_r, offS. reflexivity.
  Qed.

  Lemma nth_flat_rows : forall n r j d, r < n -> j < length (row r) ->
    nth (off r + j) (flat_map row (seq 0 n)) d = nth j (row r) d.
  Proof.
    intros n r j d Hr Hj.
    replace n with (r + S (n - S r)) by lia.
    rewrite seq_app, flat_map_app.
    rewrite app_nth2; rewrite length_flat_rows; [|lia].
    replace (off r + j - off r) with j by lia.
    simpl. rewrite app_nth1 by assumption. reflexivity.
  Qed.
End Rows.

Lemma nth_map_seq : forall (A : Type) (f : nat -> A) a k j d, j < k -> nth j (map f (seq a k)) d = f (a + j).
Proof.
  intros A f a k j d H.
  rewrite (nth_indep _ d (f 0)) by (rewrite map_length, seq_length; exact H).
  rewrite map_nth, seq_nth by exact H. reflexivity.
Qed.

Lemma flat_map_ext_in' : forall (A B : Type) (f g : A -> list B) l,
  (forall a, In a l -> f a = g a) -> flat_map f l = flat_map g l.
Proof.
  induction l as [|x l IH]; intros H; simpl.
  - reflexivity.
  - rewrite (H x) by (left; reflexivity). rewrite IH; [reflexivity|].
    intros a Ha. apply H. right. exact Ha.
Qed.

Lemma grid_ext : forall (B : Type) (f g : nat -> nat -> B) n,
  (forall r c, r < n -> c < n -> f r c = g r c) ->
  flat_map (fun r => map (fun c => f r c) (seq 0 n)) (seq 0 n) =
  flat_map (fun r => map (fun c => g r c) (seq 0 n)) (seq 0 n).
Proof.
  intros B f g n H. apply flat_map_ext_in'. intros r Hr. apply map_ext_in. intros c Hc.
  apply in_seq in Hr. apply in_seq in Hc. apply H; lia.
Qed.

(* ---- pairs_of / nums_of -------------------------------------------------------------------------- *)

Definition cell_of_pair (p : xnum * xnum) : cell := mkcell (fst p) (snd p) xq1.

Lemma pairs_of_nums_of : forall l, pairs_of (nums_of l) = map (fun p => mkcell (fst p) (snd p) xq1) l.
Proof.
  induction l as [|p l IH]; simpl.
  - reflexivity.
  - fold (nums_of l). rewrite IH. reflexivity.
Qed.

Lemma length_nums_of : forall l, length (nums_of l) = 2 * length l.
Proof. induction l as [|p l IH]; simpl; [reflexivity|]. fold (nums_of l). rewrite IH. lia. Qed.

Lemma nth_cells : forall i l, nth i (map (fun p => mkcell (fst p) (snd p) xq1) l) cell0 = cell_of_pair (nth i l (xq0, xq0)).
Proof. intros i l. change cell0 with (cell_of_pair (xq0, xq0)). apply (map_nth cell_of_pair). Qed.

(* ---- where the pair of cell (r, c) sits in each format ------------------------------------------ *)

Lemma nth_full_pairs : forall n M r c d, r < n -> c < n -> nth (r * n + c) (full_pairs n M) d = M r c.
Proof.
  intros n M r c d Hr Hc. unfold full_pairs.
  rewrite (nth_flat_rows _ (fun r => map (fun c => M r c) (seq 0 n)) (fun r => r * n)).
  - rewrite nth_map_seq by exact Hc. reflexivity.
  - reflexivity.
  - intros k. rewrite map_length, seq_length. simpl. lia.
  - exact Hr.
  - rewrite map_length, seq_length. exact Hc.
Qed.

Lemma nth_upper_pairs : forall n M i j d, i <= j -> j < n -> nth (upper_off n i + (j - i)) (upper_pairs n M) d = M i j.
Proof.
  intros n M i j d Hij Hj. unfold upper_pairs.
  rewrite (nth_flat_rows _ (fun r => map (fun c => M r c) (seq r (n - r))) (upper_off n)).
  - rewrite nth_map_seq by lia. f_equal. lia.
  - reflexivity.
  - intros k. rewrite map_length, seq_length. reflexivity.
  - lia.
  - rewrite map_length, seq_length. lia.
Qed.

Definition tri (i : nat) : nat := i * (i + 1) / 2.

Lemma tri_S : forall i, tri (S i) = tri i + S i.
Proof.
  intros i. unfold tri.
  replace (S i * (S i + 1)) with (i * (i + 1) + S i * 2) by ring.
  rewrite Nat.div_add by discriminate. reflexivity.
Qed.

Lemma nth_lower_pairs : forall n M i j d, j <= i -> i < n -> nth (i * (i + 1) / 2 + j) (lower_pairs n M) d = M i j.
Proof.
  intros n M i j d Hij Hi. unfold lower_pairs. change (i * (i + 1) / 2) with (tri i).
  rewrite (nth_flat_rows _ (fun r => map (fun c => M r c) (seq 0 (S r))) tri).
  - rewrite nth_map_seq by lia. reflexivity.
  - reflexivity.
  - intros k. rewrite map_length, seq_length. apply tri_S.
  - exact Hi.
  - rewrite map_length, seq_length. lia.
Qed.

(* ---- build_matrix -------------------------------------------------------------------------------- *)

Lemma build_full_lemma : forall n M, build_matrix MFull false n (nums_of (full_pairs n M)) = cells_of n M.
Proof.
  intros n M. unfold build_matrix, cells_of. rewrite pairs_of_nums_of.
  apply grid_ext. intros r c Hr Hc. simpl pair_index.
  rewrite nth_cells, nth_full_pairs by assumption. reflexivity.
Qed.

(* 21_12: the file lists the pairs column by column *)
Lemma build_full_transposed_lemma : forall n M, build_matrix MFull true n (nums_of (full_pairs n (transposed M))) = cells_of n M.
Proof.
  intros n M. unfold build_matrix, cells_of. rewrite pairs_of_nums_of.
  apply grid_ext. intros r c Hr Hc. simpl pair_index.
  rewrite nth_cells, nth_full_pairs by assumption. reflexivity.
Qed.

Lemma build_upper_lemma : forall n M tr, symmetric n M -> build_matrix MUpper tr n (nums_of (upper_pairs n M)) = cells_of n M.
Proof.
  intros n M tr Hs. unfold build_matrix, cells_of. rewrite pairs_of_nums_of.
  apply grid_ext. intros r c Hr Hc. unfold pair_index.
  rewrite nth_cells, nth_upper_pairs by lia.
  destruct (le_lt_dec r c) as [H|H].
  - rewrite Nat.min_l, Nat.max_r by lia. reflexivity.
  - rewrite Nat.min_r, Nat.max_l by lia. rewrite (Hs c r) by assumption. reflexivity.
Qed.

Lemma build_lower_lemma : forall n M tr, symmetric n M -> build_matrix MLower tr n (nums_of (lower_pairs n M)) = cells_of n M.
Proof.
  intros n M tr Hs. unfold build_matrix, cells_of. rewrite pairs_of_nums_of.
  apply grid_ext. intros r c Hr Hc. unfold pair_index.
  rewrite nth_cells, nth_lower_pairs by lia.
  destruct (le_lt_dec r c) as [H|H].
  - rewrite Nat.min_l, Nat.max_r by lia. rewrite (Hs c r) by assumption. reflexivity.
  - rewrite Nat.min_r, Nat.max_l by lia. reflexivity.
Qed.

(* hence: Full, Upper and Lower spellings of a symmetric matrix, and 12_21 / 21_12 spellings of any matrix,
   give the same cells *)
Theorem matrix_format_equiv_lemma : forall n M tr tr', symmetric n M ->
  build_matrix MUpper tr n (nums_of (upper_pairs n M)) = build_matrix MFull false n (nums_of (full_pairs n M)) /\
  build_matrix MLower tr' n (nums_of (lower_pairs n M)) = build_matrix MFull false n (nums_of (full_pairs n M)).
Proof.
  intros n M tr tr' Hs. rewrite build_full_lemma. split.
  - apply build_upper_lemma. exact Hs.
  - apply build_lower_lemma. exact Hs.
Qed.

Theorem two_port_order_equiv_lemma : forall n M,
  build_matrix MFull true n (nums_of (full_pairs n (transposed M))) = build_matrix MFull false n (nums_of (full_pairs n M)).
Proof. intros n M. rewrite build_full_lemma. apply build_full_transposed_lemma. Qed.

(* ---- lengths -------------------------------------------------------------------------------------- *)

Lemma length_full_pairs : forall n M, length (nums_of (full_pairs n M)) = (2 * (n * n))%nat.
Proof.
  intros n M. rewrite length_nums_of. f_equal. unfold full_pairs.
  apply (length_flat_rows _ (fun r => map (fun c => M r c) (seq 0 n)) (fun r => r * n)).
  - reflexivity.
  - intros k. rewrite map_length, seq_length. simpl. lia.
Qed.

Lemma upper_off_closed : forall n i, i <= n -> 2 * upper_off n i + i * i = 2 * n * i + i.
Proof.
  intros n i. induction i as [|k IH]; intros H.
  - simpl. lia.
  - simpl upper_off. specialize (IH ltac:(lia)). nia.
Qed.

Lemma upper_off_full : forall n, upper_off n n = n * (n + 1) / 2.
Proof.
  intros n. pose proof (upper_off_closed n n (le_n n)) as H.
  replace (n * (n + 1)) with (upper_off n n * 2) by nia.
  rewrite Nat.div_mul by discriminate. reflexivity.
Qed.

Lemma length_upper_pairs : forall n M, length (nums_of (upper_pairs n M)) = (2 * (n * (n + 1) / 2))%nat.
Proof.
  intros n M. rewrite length_nums_of. f_equal. unfold upper_pairs.
  rewrite <- upper_off_full.
  apply (length_flat_rows _ (fun r => map (fun c => M r c) (seq r (n - r))) (upper_off n)).
  - reflexivity.
  - intros k. rewrite map_length, seq_length. reflexivity.
Qed.

Lemma length_lower_pairs : forall n M, length (nums_of (lower_pairs n M)) = (2 * (n * (n + 1) / 2))%nat.
Proof.
  intros n M. rewrite length_nums_of. f_equal. unfold lower_pairs.
  change (n * (n + 1) / 2) with (tri n).
  apply (length_flat_rows _ (fun r => map (fun c => M r c) (seq 0 (S r))) tri).
  - reflexivity.
  - intros k. rewrite map_length, seq_length. apply tri_S.
Qed.

Lemma build_matrix_length : forall mf tr n vals, length (build_matrix mf tr n vals) = (n * n)%nat.
Proof.
  intros mf tr n vals. unfold build_matrix.
  apply (length_flat_rows _
           (fun r => map (fun c => nth (pair_index mf tr n r c) (pairs_of vals) cell0) (seq 0 n))
           (fun r => r * n)).
  - reflexivity.
  - intros k. rewrite map_length, seq_length. simpl. lia.
Qed.

(* ---- a concrete 3 x 3 symmetric matrix ------------------------------------------------------------ *)

Definition xz (z : Z) : xnum := XQ (Q2Qc (inject_Z z)).
(* M r c = (10 * min r c + max r c, 100 + that): symmetric *)
Definition ex3 : mat := fun r c =>
  let k := Z.of_nat (10 * Nat.min r c + Nat.max r c) in (xz k, xz (100 + k)%Z).

Example build_upper_3 :
  build_matrix MUpper false 3
    [xz 0; xz 100; xz 1; xz 101; xz 2; xz 102;
                   xz 11; xz 111; xz 12; xz 112;
                                  xz 22; xz 122]
  = [mkcell (xz 0) (xz 100) xq1; mkcell (xz 1) (xz 101) xq1; mkcell (xz 2) (xz 102) xq1;
     mkcell (xz 1) (xz 101) xq1; mkcell (xz 11) (xz 111) xq1; mkcell (xz 12) (xz 112) xq1;
     mkcell (xz 2) (xz 102) xq1; mkcell (xz 12) (xz 112) xq1; mkcell (xz 22) (xz 122) xq1].
Proof. vm_compute. reflexivity. Qed.

Example build_upper_3_formats :
  nums_of (upper_pairs 3 ex3) =
    [xz 0; xz 100; xz 1; xz 101; xz 2; xz 102; xz 11; xz 111; xz 12; xz 112; xz 22; xz 122] /\
  build_matrix MUpper false 3 (nums_of (upper_pairs 3 ex3)) = cells_of 3 ex3 /\
  build_matrix MLower false 3 (nums_of (lower_pairs 3 ex3)) = cells_of 3 ex3 /\
  build_matrix MFull false 3 (nums_of (full_pairs 3 ex3)) = cells_of 3 ex3 /\
  build_matrix MFull true 3 (nums_of (full_pairs 3 (transposed ex3))) = cells_of 3 ex3.
Proof. vm_compute. repeat split; reflexivity. Qed.

Print Assumptions matrix_format_equiv_lemma.
Print Assumptions two_port_order_equiv_lemma.
Print Assumptions build_matrix_length.
Print Assumptions length_upper_pairs.
Print Assumptions length_lower_pairs.
