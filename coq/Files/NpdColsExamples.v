(* A concrete NPD header for the '#:z0' order statements of Files/NpdColsProofs.v (checked by computation). *)
Require Import List NArith ZArith Bool String Ascii.
Import ListNotations.
Require Import LV.Files.TsTok LV.Files.NpdScan LV.Files.NpdLoad LV.Files.NpdCols.
Local Open Scope string_scope.

(* an accepted header with '#:z0' after the port count, and the same lines with '#:z0' moved to the end *)
Example z0_order_example :
  let b s := map (fun c => N.of_nat (Ascii.nat_of_ascii c)) (String.list_ascii_of_string s) in
  let ports := (NKPorts, [b "#:ports"; b "2"]) in
  let freqs := (NKFrequencies, [b "#:frequencies"; b "3"]) in
  let z0 := (NKZ0, [b "#:z0"; b "50"; b "0j"; b "75"; b "-1.5j"]) in
  let pars := (NKParameters, [b "#:parameters"; b "Sri,Sma"]) in
  alike (hdr_run nh0 [ports; z0; freqs; pars]) (hdr_run nh0 [ports; freqs; pars; z0]) /\
  (exists h, hdr_run nh0 [ports; z0; freqs; pars] = inr h /\ n_ports h = 2%Z /\ n_frequencies h = 3%Z /\
             option_map (@List.length _) (n_z0 h) = Some 2%nat) /\
  hdr_run nh0 [z0; ports; freqs; pars] = inl NEBADMSG.
Proof. vm_compute. split; [reflexivity |]. split; [eexists; repeat split |]; reflexivity. Qed.

