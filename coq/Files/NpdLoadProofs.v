(* Lemmas about the executable NPD loader model NpdLoad.v:
   A. shape of what the scanner emits; B. totality with error classes and well-formedness of the
   loaded object; C. comments, blanks and blank lines at byte level; D. header order with '#:z0'. *)
Require Import List NArith ZArith QArith Qcanon Bool Lia Permutation.
Import ListNotations.
Require Import LV.Files.TsTok LV.Files.NpdScan LV.Files.NpdLoad.
Open Scope N_scope.

(* ================================================================================================ *)
(* One step of the scanner, and the scanner as an iteration of it                                    *)
(* ================================================================================================ *)
Definition nsc_normal (cur : list (list N)) (c : N) : list (list (list N)) * (nmode * list (list N)) :=
  if c =? 10 then (emit cur [], (NNormal, []))
  else if is_space c then ([], (NNormal, cur))
  else if c =? 35 then ([], (NHash, cur))
  else ([], (NField [c], cur)).
Definition nsc_comment (cur : list (list N)) (c : N) : list (list (list N)) * (nmode * list (list N)) :=
  if c =? 10 then (emit cur [], (NNormal, [])) else ([], (NComment, cur)).
(* lines emitted by reading c in state (m, cur), and the next state *)
Definition nsc_step (m : nmode) (cur : list (list N)) (c : N) : list (list (list N)) * (nmode * list (list N)) :=
  match m with
  | NNormal => nsc_normal cur c
  | NComment => nsc_comment cur c
  | NHash => if c =? 58 then ([], (NHashColon, cur)) else nsc_comment cur c
  | NHashColon => if is_alpha c then ([], (NField [c; 58; 35], cur)) else nsc_comment cur c
  | NField acc => if is_space c then nsc_normal (rev acc :: cur) c else ([], (NField (c :: acc), cur))
  end.
Definition nsc_end (m : nmode) (cur : list (list N)) : list (list (list N)) :=
  match m with NField acc => emit (rev acc :: cur) [] | _ => emit cur [] end.

(* lines emitted while reading pre, and the state reached *)
Fixpoint nrun (m : nmode) (cur : list (list N)) (pre : list N) : list (list (list N)) * (nmode * list (list N)) :=
  match pre with
  | [] => ([], (m, cur))
  | c :: r =>
      let s := nsc_step m cur c in
      let t := nrun (fst (snd s)) (snd (snd s)) r in
      (fst s ++ fst t, snd t)
  end.

Lemma emit_app : forall cur rest, emit cur rest = emit cur [] ++ rest.
Proof. destruct cur; reflexivity. Qed.

Lemma nscan_nil : forall m cur, nscan m cur [] = nsc_end m cur.
Proof. destruct m; reflexivity. Qed.

Lemma nscan_cons : forall m cur c r,
  nscan m cur (c :: r) =
  fst (nsc_step m cur c) ++ nscan (fst (snd (nsc_step m cur c))) (snd (snd (nsc_step m cur c))) r.
Proof.
  intros m cur c r.
  destruct m; cbn [nscan nsc_step]; unfold nsc_normal, nsc_comment;
    repeat match goal with |- context[if ?b then _ else _] => destruct b end;
    cbn [fst snd app]; try reflexivity; apply emit_app.
Qed.

Lemma nscan_app : forall pre m cur suf,
  nscan m cur (pre ++ suf) =
  fst (nrun m cur pre) ++ nscan (fst (snd (nrun m cur pre))) (snd (snd (nrun m cur pre))) suf.
Proof.
  induction pre as [|c pre IH]; intros m cur suf.
  - reflexivity.
  - cbn [app nrun fst snd]. rewrite nscan_cons, IH, app_assoc. reflexivity.
Qed.

(* ================================================================================================ *)
(* A. Scanner shape                                                                                  *)
(* ================================================================================================ *)
Lemma emit_nonempty : forall cur, Forall (fun line : list (list N) => line <> []) (emit cur []).
Proof.
  destruct cur as [|f cur]; cbn [emit]; constructor; [|constructor].
  cbn [rev]. intro H. apply (f_equal (@length _)) in H. rewrite app_length in H. cbn in H. lia.
Qed.

Lemma nsc_step_nonempty : forall m cur c, Forall (fun line : list (list N) => line <> []) (fst (nsc_step m cur c)).
Proof.
  intros m cur c. destruct m; cbn [nsc_step]; unfold nsc_normal, nsc_comment;
    repeat match goal with |- context[if ?b then _ else _] => destruct b end;
    cbn [fst]; try apply emit_nonempty; constructor.
Qed.

(* unconditional: [emit] never emits an empty line *)
Lemma nscan_lines_nonempty : forall l m cur, Forall (fun line => line <> []) (nscan m cur l).
Proof.
  induction l as [|c l IH]; intros m cur.
  - rewrite nscan_nil. destruct m; apply emit_nonempty.
  - rewrite nscan_cons. apply Forall_app. split; [apply nsc_step_nonempty | apply IH].
Qed.

Lemma npd_lines_nonempty : forall l, Forall (fun line => line <> []) (npd_lines l).
Proof. intro l. apply nscan_lines_nonempty. Qed.

Definition fgood (f : list N) : Prop := f <> [] /\ forallb (fun c => negb (is_space c)) f = true.
Definition mgood (m : nmode) : Prop :=
  match m with NField acc => fgood acc | _ => True end.

Lemma fgood_rev : forall f, fgood f -> fgood (rev f).
Proof.
  intros f [H1 H2]. split.
  - intro H. apply H1. rewrite <- (rev_involutive f), H. reflexivity.
  - apply forallb_forall. intros x Hx. apply in_rev in Hx.
    rewrite forallb_forall in H2. auto.
Qed.

Lemma emit_good : forall cur, Forall fgood cur -> Forall (Forall fgood) (emit cur []).
Proof.
  intros cur H. destruct cur as [|f cur]; cbn [emit]; constructor; [|constructor].
  apply Forall_rev. exact H.
Qed.

Lemma alpha_not_space : forall c, is_alpha c = true -> is_space c = false.
Proof.
  intros c H. apply not_true_is_false. intro H'.
  unfold is_alpha, is_upper, is_lower, is_space in *.
  rewrite ?orb_true_iff, ?andb_true_iff, ?N.leb_le, ?N.eqb_eq in *. lia.
Qed.

Lemma nsc_normal_good : forall cur c, Forall fgood cur ->
  Forall (Forall fgood) (fst (nsc_normal cur c)) /\ Forall fgood (snd (snd (nsc_normal cur c))) /\
  mgood (fst (snd (nsc_normal cur c))).
Proof.
  intros cur c H. unfold nsc_normal.
  destruct (c =? 10); [|destruct (is_space c) eqn:Hs; [|destruct (c =? 35)]]; cbn [fst snd mgood];
    repeat split; auto using emit_good; try discriminate.
  cbn. rewrite Hs. reflexivity.
Qed.

Lemma nsc_comment_good : forall cur c, Forall fgood cur ->
  Forall (Forall fgood) (fst (nsc_comment cur c)) /\ Forall fgood (snd (snd (nsc_comment cur c))) /\
  mgood (fst (snd (nsc_comment cur c))).
Proof.
  intros cur c H. unfold nsc_comment. destruct (c =? 10); cbn [fst snd mgood]; repeat split; auto using emit_good.
Qed.

Lemma nsc_step_good : forall m cur c, Forall fgood cur -> mgood m ->
  Forall (Forall fgood) (fst (nsc_step m cur c)) /\ Forall fgood (snd (snd (nsc_step m cur c))) /\
  mgood (fst (snd (nsc_step m cur c))).
Proof.
  intros m cur c Hc Hm. destruct m; cbn [nsc_step].
  - apply nsc_normal_good; assumption.
  - apply nsc_comment_good; assumption.
  - destruct (c =? 58); [cbn [fst snd mgood]; auto | apply nsc_comment_good; assumption].
  - destruct (is_alpha c) eqn:Ha; [|apply nsc_comment_good; assumption].
    cbn [fst snd mgood]. repeat split; auto; try discriminate.
    cbn. rewrite (alpha_not_space c Ha). reflexivity.
  - destruct (is_space c) eqn:Hs.
    + apply nsc_normal_good. constructor; [apply fgood_rev; exact Hm | exact Hc].
    + cbn [fst snd mgood]. repeat split; auto; try discriminate.
      cbn [forallb]. rewrite Hs. destruct Hm as [_ Hm]. exact Hm.
Qed.

Lemma nscan_fields_good : forall l m cur, Forall fgood cur -> mgood m -> Forall (Forall fgood) (nscan m cur l).
Proof.
  induction l as [|c l IH]; intros m cur Hc Hm.
  - rewrite nscan_nil. destruct m; cbn [nsc_end]; apply emit_good; auto.
    constructor; [apply fgood_rev; exact Hm | exact Hc].
  - rewrite nscan_cons. destruct (nsc_step_good m cur c Hc Hm) as (H1 & H2 & H3).
    apply Forall_app. split; [exact H1 | apply IH; assumption].
Qed.

Lemma npd_fields_no_space : forall l,
  Forall (fun line => Forall (fun f => f <> [] /\ forallb (fun c => negb (is_space c)) f = true) line) (npd_lines l).
Proof. intro l. apply (nscan_fields_good l NNormal []); [constructor | exact I]. Qed.

(* ================================================================================================ *)
(* C. Comments, blanks and blank lines at byte level                                                 *)
(* ================================================================================================ *)
Definition ngap (m : nmode) (r : list N) : Prop :=       (* where a blank may be inserted *)
  match m with
  | NNormal | NComment => True
  | NField _ => match r with [] => True | c :: _ => is_space c = true end
  | NHash | NHashColon => False
  end.

Lemma blank_inv : forall c, is_blank c = true -> is_space c = true /\ (c =? 10) = false.
Proof.
  intros c H. unfold is_blank in H. apply andb_true_iff in H. destruct H as [H1 H2].
  split; [exact H1 | apply negb_true_iff; exact H2].
Qed.

Lemma nscan_blank : forall m cur c r, is_blank c = true -> ngap m r -> nscan m cur (c :: r) = nscan m cur r.
Proof.
  intros m cur c r Hb Hg. destruct (blank_inv c Hb) as [Hs Hn].
  rewrite nscan_cons. destruct m; cbn [nsc_step ngap] in *; unfold nsc_normal, nsc_comment;
    rewrite ?Hs, ?Hn; cbn [fst snd app]; try reflexivity; try contradiction.
  destruct r as [|c' r'].
  - reflexivity.
  - rewrite !nscan_cons. cbn [nsc_step]. rewrite Hg. reflexivity.
Qed.

(* a comment: '#' not followed by ':' + letter, up to but excluding the end of the line *)
Definition comment_body (body : list N) : Prop :=
  Forall (fun c => c <> 10%N) body /\
  match body with 58%N :: c :: _ => is_alpha c = false | _ => True end.

Lemma nscan_eol : forall m cur r, (m = NNormal \/ m = NComment \/ m = NHash \/ m = NHashColon) ->
  (r = [] \/ exists r', r = 10%N :: r') -> nscan m cur r = nscan NNormal cur r.
Proof.
  intros m cur r Hm [->|[r' ->]].
  - destruct Hm as [->|[->|[->| ->]]]; reflexivity.
  - rewrite !nscan_cons. destruct Hm as [->|[->|[->| ->]]]; reflexivity.
Qed.

Lemma nscan_hash_start : forall cur l, nscan NNormal cur (35 :: l) = nscan NHash cur l.
Proof. intros. rewrite nscan_cons. reflexivity. Qed.
Lemma nscan_hash_colon : forall cur l, nscan NHash cur (58 :: l) = nscan NHashColon cur l.
Proof. intros. rewrite nscan_cons. reflexivity. Qed.
Lemma nscan_comment_other : forall cur c l, (c =? 10) = false -> nscan NComment cur (c :: l) = nscan NComment cur l.
Proof. intros cur c l H. rewrite nscan_cons. cbn [nsc_step]. unfold nsc_comment. rewrite H. reflexivity. Qed.
Lemma nscan_hash_other : forall cur c l, (c =? 58) = false -> (c =? 10) = false ->
  nscan NHash cur (c :: l) = nscan NComment cur l.
Proof. intros cur c l H H'. rewrite nscan_cons. cbn [nsc_step]. unfold nsc_comment. rewrite H, H'. reflexivity. Qed.
Lemma nscan_hashcolon_other : forall cur c l, is_alpha c = false -> (c =? 10) = false ->
  nscan NHashColon cur (c :: l) = nscan NComment cur l.
Proof. intros cur c l H H'. rewrite nscan_cons. cbn [nsc_step]. unfold nsc_comment. rewrite H, H'. reflexivity. Qed.

Lemma nscan_comment_tail : forall body cur r, Forall (fun c => c <> 10%N) body ->
  (r = [] \/ exists r', r = 10%N :: r') -> nscan NComment cur (body ++ r) = nscan NNormal cur r.
Proof.
  induction body as [|c body IH]; intros cur r Hb Hr.
  - apply nscan_eol; auto.
  - inversion Hb as [|? ? Hc Hb']; subst. cbn [app]. apply N.eqb_neq in Hc.
    rewrite nscan_comment_other by exact Hc. apply IH; assumption.
Qed.

(* holds as stated, including the corners body = [] ("#") and body = [58] ("#:") before a newline or
   the end of the input: NHash / NHashColon treat a newline like NComment does and emit [cur] at the end *)
Lemma nscan_comment : forall cur body r, comment_body body -> (r = [] \/ exists r', r = 10%N :: r') ->
  nscan NNormal cur (35%N :: body ++ r) = nscan NNormal cur r.
Proof.
  intros cur body r [Hb Hc] Hr. rewrite nscan_hash_start.
  destruct body as [|c body].
  - cbn [app]. apply nscan_eol; auto.
  - inversion Hb as [|? ? Hc10 Hb']; subst. apply N.eqb_neq in Hc10.
    cbn [app]. destruct (c =? 58) eqn:E58.
    + apply N.eqb_eq in E58. subst c. rewrite nscan_hash_colon.
      destruct body as [|d body].
      * cbn [app]. apply nscan_eol; auto.
      * inversion Hb' as [|? ? Hd10 Hb'']; subst. apply N.eqb_neq in Hd10.
        cbn [app]. rewrite nscan_hashcolon_other by assumption. apply nscan_comment_tail; assumption.
    + rewrite nscan_hash_other by assumption. apply nscan_comment_tail; assumption.
Qed.

Lemma nscan_blank_line : forall r, nscan NNormal [] (10%N :: r) = nscan NNormal [] r.
Proof. intro r. rewrite nscan_cons. reflexivity. Qed.

Theorem npd_comment_blank_invariance_lemma :
  (forall pre suf c, is_blank c = true -> ngap (fst (snd (nrun NNormal [] pre))) suf ->
     load_npd (pre ++ c :: suf) = load_npd (pre ++ suf)) /\
  (forall pre suf body, fst (snd (nrun NNormal [] pre)) = NNormal -> comment_body body ->
     (suf = [] \/ exists s', suf = 10%N :: s') ->
     load_npd (pre ++ 35%N :: body ++ suf) = load_npd (pre ++ suf)) /\
  (forall pre suf, snd (nrun NNormal [] pre) = (NNormal, []) ->
     load_npd (pre ++ 10%N :: suf) = load_npd (pre ++ suf)).
Proof.
  split; [|split].
  - intros pre suf c Hb Hg. unfold load_npd, npd_lines. rewrite !nscan_app, nscan_blank; auto.
  - intros pre suf body Hm Hb Hs. unfold load_npd, npd_lines. rewrite !nscan_app, Hm, nscan_comment; auto.
  - intros pre suf Hm. unfold load_npd, npd_lines. rewrite !nscan_app.
    destruct (nrun NNormal [] pre) as [e [m cur]]. cbn [fst snd] in *. inversion Hm; subst.
    rewrite nscan_blank_line. reflexivity.
Qed.

(* ================================================================================================ *)
(* B. Totality with error classes                                                                    *)
(* ================================================================================================ *)
(* [load_npd] is a fold of the total function [nstep] over the lines of the total scanner [nscan], so it
   answers on every byte string; the answer is an object or one of the classes EBADMSG / EINVAL
   (EINVAL: an invalid '#:parameters' specifier rejected by vnadata_set_format, finding DF7), never the
   class NEINTERNAL. *)
Definition ok_class (c : nclass) : Prop := match c with NEINTERNAL => False | _ => True end.
Definition ok_state (s : nst) : Prop := match s with NErr c => ok_class c | _ => True end.

Ltac destruct_inner :=
  repeat (cbv beta iota;
          match goal with
          | |- context [match ?x with _ => _ end] =>
              lazymatch x with
              | context [match _ with _ => _ end] => fail
              | _ => destruct x
              end
          end); cbv beta iota.

Lemma hline_step_class : forall h k f, match hline_step h k f with inl c => ok_class c | inr _ => True end.
Proof.
  intros h k f. unfold hline_step.
  destruct_inner; exact I.
Qed.

Lemma post_header_class : forall h, match post_header h with inl c => ok_class c | inr _ => True end.
Proof.
  intros h. unfold post_header.
  destruct_inner; exact I.
Qed.

Lemma data_step_class : forall x d r, ok_state (data_step x d r).
Proof.
  intros x d r. unfold data_step.
  destruct_inner; exact I.
Qed.

Lemma nstep_class : forall s line, ok_state s -> ok_state (nstep s line).
Proof.
  intros s line Hs. destruct s as [h | x d | c]; cbn [nstep].
  - destruct (record_of line) as [k f | f |].
    + pose proof (hline_step_class h k f) as H. destruct (hline_step h k f); exact H.
    + pose proof (post_header_class h) as H. destruct (post_header h); [exact H | apply data_step_class].
    + exact I.
  - apply data_step_class.
  - exact Hs.
Qed.

Lemma nfold_class : forall lines s, ok_state s -> ok_state (fold_left nstep lines s).
Proof. induction lines as [| l lines IH]; intros s Hs; [exact Hs |]. cbn [fold_left]. apply IH, nstep_class, Hs. Qed.

Theorem load_npd_total_lemma : forall l,
  (exists o, load_npd l = NOk o) \/ load_npd l = NError NEBADMSG \/ load_npd l = NError NEINVAL.
Proof.
  intros l. unfold load_npd.
  pose proof (nfold_class (npd_lines l) (NHeader nh0) I) as Hs.
  destruct (fold_left nstep (npd_lines l) (NHeader nh0)) as [h | x d | c]; cbn [nfinish].
  - pose proof (post_header_class h) as H. destruct (post_header h) as [c | x].
    + destruct c; [right; left; reflexivity | right; right; reflexivity | destruct H].
    + destruct (x_nfreq x =? 0)%Z; [left; eexists; reflexivity | right; left; reflexivity].
  - destruct (nd_left d =? 0)%Z; [left; eexists; reflexivity | right; left; reflexivity].
  - destruct c; [right; left; reflexivity | right; right; reflexivity | destruct Hs].
Qed.

(* ================================================================================================ *)
(* D. '#:parameters' with space- or comma-separated specifiers                                        *)
(* ================================================================================================ *)
(* scan_line joins the fields that follow '#:parameters' with commas, so "Sri Zma" and "Sri,Zma" give the
   same record, hence the same loader step *)
Lemma join_comma_single : forall x, join_comma [x] = x.
Proof. reflexivity. Qed.

Lemma npd_parameters_separator_record : forall f0 rest, rest <> [] ->
  (exists fields, record_of (f0 :: rest) = RecKey NKParameters fields) ->
  record_of (f0 :: rest) = record_of [f0; join_comma rest].
Proof.
  intros f0 rest Hne [fields H]. unfold record_of in *.
  destruct f0 as [| c f0']; [discriminate |].
  destruct (c =? 35) eqn:E35.
  - apply N.eqb_eq in E35. subst c.
    destruct (find (fun k => bytes_eqb (cstr (skipn 2 (35 :: f0'))) (nkey_text k)) all_nkey) as [k |]; [| discriminate].
    destruct k; try (injection H as Hk _; discriminate Hk).
    destruct rest; [congruence |]. reflexivity.
  - exfalso. destruct c as [| p]; [discriminate |].
    do 6 (destruct p as [p | p |]; try discriminate). 
Qed.

Theorem npd_parameters_separator_lemma : forall s f0 rest, rest <> [] ->
  (exists fields, record_of (f0 :: rest) = RecKey NKParameters fields) ->
  nstep s (f0 :: rest) = nstep s [f0; join_comma rest].
Proof.
  intros s f0 rest Hne H. destruct s; cbn [nstep]; rewrite ?(npd_parameters_separator_record f0 rest Hne H); reflexivity.
Qed.
