(* Lemmas about Files/NpdCols.v: RI / MA / dB columns of the same numbers convert alike; the '#:z0' header line
   commutes with every header line that does not fix the dimensions, and is refused before the port count. *)
Require Import List NArith ZArith QArith Qcanon Bool Lia.
Import ListNotations.
Require Import LV.Base.CField.
Require Import LV.Files.TsTok LV.Files.NpdScan LV.Files.NpdLoad LV.Files.NpdCols.

Section Laws.
  Variable K : CField.
  Add Field Kf_npd : (cth K).
  Variable ci : K.
  Variable cexp pow10 log10 : K -> K.
  Variables twenty pi c180 : K.
  Local Open Scope cf_scope.
  Hypothesis twenty_nz : twenty <> 0.

  (* as TsFormatProofs.same_number: x + i y = m e^(i a pi / 180), d = 20 log10 m, pow10 (log10 m) = m *)
  Definition npd_same_number (x y m a d : K) : Prop :=
    x + ci * y = m * cexp (ci * pi / c180 * a) /\ d = twenty * log10 m /\ pow10 (log10 m) = m.

  Lemma npd_convert_equiv_lemma : forall x y m a d, npd_same_number x y m a d ->
    npd_convert K ci cexp pow10 twenty pi c180 RI x y = npd_convert K ci cexp pow10 twenty pi c180 MA m a /\
    npd_convert K ci cexp pow10 twenty pi c180 DB d a = npd_convert K ci cexp pow10 twenty pi c180 MA m a.
  Proof.
    intros x y m a d (H1 & H2 & H3). cbn [npd_convert]. split; [rewrite H1; reflexivity |].
    replace (d / twenty) with (log10 m) by (rewrite H2; field; exact twenty_nz). rewrite H3. reflexivity.
  Qed.
End Laws.

(* ---- '#:z0' among the header lines ------------------------------------------------------------------------- *)
Lemma legacy_ports_indep : forall h p r c f pa fp dp fz z,
  h = mknh p r c f pa fp dp fz z -> legacy_ports h = legacy_ports (mknh p r c (-1) None None None false None).
Proof. intros; subst; reflexivity. Qed.

(* the z0 line and a line that does not fix the dimensions (version, frequencies, parameters, fprecision,
   dprecision) in either order: both orders are refused, or both give the same header state *)
Lemma z0_commutes_lemma : forall h k f fz, dims_key k = false ->
  alike (hdr_run h [(NKZ0, fz); (k, f)]) (hdr_run h [(k, f); (NKZ0, fz)]).
Proof.
  intros [p r c fq pa fp dp fz0 z0] k f fz Hk.
  destruct k; try discriminate Hk; cbn [hdr_run];
    unfold hline_step, legacy_ports; cbn [hline_step legacy_ports n_ports n_rows n_columns n_frequencies n_params n_fprec n_dprec n_fz0 n_z0 set_nports];
    repeat match goal with
           | |- context [match ?x with _ => _ end] =>
               match x with
               | context [match _ with _ => _ end] => fail 1
               | _ => destruct x eqn:?; unfold legacy_ports; cbn [alike hline_step legacy_ports n_ports n_rows n_columns n_frequencies n_params n_fprec n_dprec n_fz0 n_z0 set_nports]
               end
           | |- context [if ?x then _ else _] =>
               match x with
               | context [if _ then _ else _] => fail 1
               | _ => destruct x eqn:?; unfold legacy_ports; cbn [alike hline_step legacy_ports n_ports n_rows n_columns n_frequencies n_params n_fprec n_dprec n_fz0 n_z0 set_nports]
               end
           end; try exact I; try reflexivity; try congruence.
Qed.

(* '#:z0' needs the port count: before '#:ports' (or both legacy '#:rows' and '#:columns') it is refused ... *)
Lemma z0_before_ports_rejected_lemma : forall h fz, n_ports h = (-1)%Z -> (n_rows h = (-1)%Z \/ n_columns h = (-1)%Z) ->
  hline_step h NKZ0 fz = inl NEBADMSG.
Proof.
  intros h fz Hp [Hr | Hc]; unfold hline_step, legacy_ports; rewrite Hp; [rewrite Hr | rewrite Hc]; cbn;
    [| destruct (0 <=? n_rows h)%Z]; reflexivity.
Qed.

(* ... and a '#:ports' line after an accepted '#:z0' line is refused (the z0 line has fixed the port count) *)
Lemma ports_after_z0_rejected_lemma : forall h fz h' f, hline_step h NKZ0 fz = inr h' -> hline_step h' NKPorts f = inl NEBADMSG.
Proof.
  intros h fz h' f H. assert (Hp : (0 <= n_ports h')%Z).
  { unfold hline_step in H. destruct (legacy_ports h) as [p |]; [| discriminate].
    destruct (p <? 0)%Z eqn:E; [discriminate |]. apply Z.ltb_ge in E.
    destruct fz as [| a [| b [| c r]]].
    - change (Z.of_nat (length (@nil (list N)))) with 0%Z in H. destruct (0 =? 1 + 2 * p)%Z eqn:Q; [apply Z.eqb_eq in Q; lia | discriminate].
    - cbn [length] in H. destruct (Z.of_nat 1 =? 1 + 2 * p)%Z; [| discriminate].
      destruct (z0_values (tl [a])); [| discriminate]. injection H as <-. exact E.
    - destruct (bytes_eqb (map upcase (cstr b)) txt_per_frequency); [| discriminate]. injection H as <-. exact E.
    - destruct (Z.of_nat (length (a :: b :: c :: r)) =? 1 + 2 * p)%Z; [| discriminate].
      destruct (z0_values (tl (a :: b :: c :: r))); [| discriminate]. injection H as <-. exact E. }
  unfold hline_step. replace (n_ports h' =? -1)%Z with false by (symmetry; apply Z.eqb_neq; lia). reflexivity.
Qed.

Print Assumptions npd_convert_equiv_lemma.
Print Assumptions z0_commutes_lemma.
Print Assumptions z0_before_ports_rejected_lemma.
Print Assumptions ports_after_z0_rejected_lemma.
