(* Every object the Touchstone parser model returns is self-consistent: as many matrices as frequencies, every
   matrix ports x ports cells, one reference impedance per port, two ports for H and G parameters.
   A state invariant preserved by every token, for all token streams (well formed or not).

   Nothing here changes the model: TsTok.v and TsParse.v are only read. *)
Require Import List NArith ZArith QArith Qcanon Bool Lia Arith. Import ListNotations.
Require Import LV.Files.TsTok LV.Files.TsTokProofs LV.Files.TsParse LV.Files.TsParseBasics LV.Files.TsMatrix.
Local Open Scope nat_scope.

Definition sq_all (n : nat) (ms : list (list cell)) : Prop := Forall (fun m => length m = n * n) ms.

Definition obj_wf (o : tsobj) : Prop :=
  length (o_cells o) = length (o_freqs o) /\ sq_all (o_ports o) (o_cells o) /\
  length (o_z0 o) = o_ports o /\ (is_hg (o_type o) = true -> o_ports o = 2).

(* ---- finalize keeps the shape ------------------------------------------------------------------------------- *)
Lemma map_index_length : forall A (f : nat -> A -> A) l i, length (map_index f i l) = length l.
Proof. induction l as [| x l IH]; intros i; [reflexivity |]. cbn [map_index length]. rewrite IH. reflexivity. Qed.

Lemma unnormalise_length : forall h m, length (unnormalise h m) = length m.
Proof. intros h m. unfold unnormalise. destruct (h_type h); rewrite ?map_length, ?map_index_length; reflexivity. Qed.

Lemma sq_all_map : forall n f ms, (forall m, length (f m) = length m) -> sq_all n ms -> sq_all n (map f ms).
Proof.
  intros n f ms Hf H. induction H as [| m ms Hm _ IH]; [constructor |]. cbn [map]. constructor; [rewrite Hf; exact Hm | exact IH].
Qed.

Lemma finalize_wf : forall h o, obj_wf o -> obj_wf (finalize h o).
Proof.
  intros h o (A & B & C & D). unfold finalize. destruct (h_v2 h); [repeat split; assumption |].
  unfold obj_wf. cbn [o_cells o_freqs o_ports o_z0 o_type]. rewrite map_length.
  repeat split; try assumption. apply sq_all_map; [apply unnormalise_length | exact B].
Qed.

Lemma sq_all_rev : forall n ms, sq_all n ms -> sq_all n (rev ms).
Proof. intros n ms H. apply Forall_rev. exact H. Qed.

(* ---- header invariant ---------------------------------------------------------------------------------------- *)
Definition hdr_inv (h : hdr) : Prop :=
  (is_hg (h_type h) = true -> h_ports h = 2%Z \/ h_ports h = (-1)%Z) /\
  match h_ref h with Some l => (0 <= h_ports h)%Z /\ length l = Z.to_nat (h_ports h) | None => True end.

Definition v2inv (h : hdr) (d : v2st) : Prop :=
  sq_all (Z.to_nat (h_ports h)) (d_mats d) /\
  ((d_cur d = [] /\ length (d_freqs d) = length (d_mats d)) \/
   (d_cur d <> [] /\ length (d_freqs d) = S (length (d_mats d)) /\ d_left d <> 0%N)).

Definition v1core (h : hdr) (v : v1st) : Prop :=
  let n := v_ports v in
  1 <= n /\ length (v_freqs v) = length (v_mats v) /\
  (is_hg (h_type h) = true -> n = 2 /\ v_maybe4 v = false) /\
  (v_maybe4 v = true -> n = 2 /\ v_row v = 0 /\ length (v_mats v) = 1) /\
  (v_noise v = true -> v_row v = 0) /\
  match v_row v with
  | O => sq_all n (v_mats v)
  | k => exists m ms, v_mats v = m :: ms /\ length m = k * n /\ sq_all n ms /\ k < n
  end.

Definition v1inv (h : hdr) (v : v1st) : Prop :=
  if v_first v then v_freqs v = [] /\ v_mats v = [] else v1core h v.

Definition inv (s : pst) : Prop :=
  match s with
  | SStart | SVersionArg | SWantOption _ | SErr _ | SLate _ => True
  | SOpt h | SOptR h => h_ports h = (-1)%Z /\ h_ref h = None
  | SBody h | SInfo h => hdr_inv h
  | SArg h a => hdr_inv h /\ (a = APorts -> h_ports h = (-1)%Z)
  | SRef h nleft acc => hdr_inv h /\ h_ref h = None /\ (0 <= h_ports h)%Z /\ length acc + nleft = Z.to_nat (h_ports h)
  | SV2 h d => hdr_inv h /\ (0 <= h_ports h)%Z /\ v2inv h d
  | SNoise _ o _ _ _ | SEof _ o | SDone o => obj_wf o
  | SV1Wait h v => v_first v = false /\ v1core h v
  | SV1Line h v _ => v1inv h v
  end.

(* ---- the end of the file ---------------------------------------------------------------------------------------- *)
Lemma inv_eof_tok : forall h o t, obj_wf o -> inv (eof_tok h o t).
Proof. intros h o t H. unfold eof_tok. destruct t; try exact I. apply finalize_wf, H. Qed.

Lemma inv_end_tok : forall h o t, obj_wf o -> inv (end_tok h o t).
Proof.
  intros h o t H. unfold end_tok. destruct t as [k | | | | | | | |]; try (apply inv_eof_tok; exact H).
  destruct k; try (apply inv_eof_tok; exact H). exact H.
Qed.

Lemma inv_noise_tok : forall h o nleft j fp t, obj_wf o -> inv (noise_tok h o nleft j fp t).
Proof.
  intros h o nleft j fp t H. unfold noise_tok. destruct (nleft =? 0)%N; [apply inv_end_tok; exact H |].
  destruct t; try exact I. destruct j as [| [| [| [| [| j]]]]]; try exact H.
  destruct (xlt x xq0); [exact I |]. destruct (match fp with Some p => xlt x p | None => false end); [exact I | exact H].
Qed.

Lemma inv_after_data_tok : forall h o t, obj_wf o -> inv (after_data_tok h o t).
Proof.
  intros h o t H. unfold after_data_tok. destruct (0 <=? h_nnoise h)%Z; [| apply inv_end_tok; exact H].
  destruct t as [k | | | | | | | |]; try exact I. destruct k; try exact I. exact H.
Qed.

(* ---- version 2 ---------------------------------------------------------------------------------------------------- *)
Lemma v2_obj_wf : forall h d, hdr_inv h -> (0 <= h_ports h)%Z -> v2inv h d -> d_cur d = [] -> obj_wf (v2_obj h d).
Proof.
  intros h d [Hhg Href] H0 [Hsq Hc] Hcur. destruct Hc as [[_ Hl] | [Hne _]]; [| congruence].
  unfold obj_wf, v2_obj. cbn [o_cells o_freqs o_ports o_z0 o_type]. rewrite !rev_length.
  split; [symmetry; exact Hl |]. split; [apply sq_all_rev; exact Hsq |]. split.
  - unfold z0_list. destruct (h_ref h) as [l |]; [destruct Href as [_ E]; exact E | apply repeat_length].
  - intros G. destruct (Hhg G) as [E | E]; [rewrite E; reflexivity | lia].
Qed.

Lemma v2_complete_inv : forall h d cur k, sq_all (Z.to_nat (h_ports h)) (d_mats d) ->
  length (d_freqs d) = S (length (d_mats d)) -> v2inv h (v2_complete h d cur k).
Proof.
  intros h d cur k Hsq Hl. unfold v2inv, v2_complete. cbn [d_mats d_cur d_freqs d_left]. split.
  - constructor; [apply build_matrix_length | exact Hsq].
  - left. split; [reflexivity |]. cbn [length]. exact Hl.
Qed.

Lemma inv_v2_tok : forall h d t, hdr_inv h -> (0 <= h_ports h)%Z -> v2inv h d -> inv (v2_tok h d t).
Proof.
  intros h d t Hh H0 Hd. unfold v2_tok. destruct (d_left d =? 0)%N eqn:El.
  - apply inv_after_data_tok. apply v2_obj_wf; try assumption.
    destruct Hd as [_ [[E _] | [_ [_ N]]]]; [exact E |]. apply N.eqb_eq in El. congruence.
  - apply N.eqb_neq in El. destruct t; try exact I.
    destruct Hd as [Hsq Hc]. destruct (d_cur d) as [| c cur] eqn:Ec.
    + destruct Hc as [[_ Hl] | [N _]]; [| congruence].
      destruct (xlt x xq0); [exact I |].
      destruct (match d_freqs d with prev :: _ => xle (xmul (XQ (h_mult h)) x) prev | [] => false end); [exact I |].
      destruct (d_togo d - 1) eqn:Et; cbn [inv].
      * split; [exact Hh |]. split; [exact H0 |]. apply v2_complete_inv; cbn [d_mats d_freqs length]; [exact Hsq | lia].
      * split; [exact Hh |]. split; [exact H0 |]. split; [exact Hsq |]. right. cbn [d_cur d_freqs d_mats d_left length].
        split; [discriminate |]. split; [lia | exact El].
    + destruct Hc as [[N _] | [_ [Hl _]]]; [discriminate |].
      destruct (d_togo d - 1) eqn:Et; cbn [inv].
      * split; [exact Hh |]. split; [exact H0 |]. apply v2_complete_inv; assumption.
      * split; [exact Hh |]. split; [exact H0 |]. split; [exact Hsq |]. right. cbn [d_cur d_freqs d_mats d_left].
        split; [discriminate |]. split; assumption.
Qed.

Lemma inv_network_data : forall h, hdr_inv h -> inv (network_data h).
Proof.
  intros h Hh. unfold network_data.
  destruct (h_ports h <? 0)%Z eqn:E0; [exact I |]. apply Z.ltb_ge in E0.
  repeat match goal with |- inv (if ?b then _ else _) => destruct b; [exact I |] end.
  cbn [inv]. split; [exact Hh |]. split; [exact E0 |]. split; [constructor |]. left. split; reflexivity.
Qed.

(* ---- version 1 ---------------------------------------------------------------------------------------------------- *)
Lemma pairs_of_length : forall k (l : list xnum), length l = 2 * k -> length (pairs_of l) = k.
Proof.
  induction k as [| k IH]; intros l H.
  - destruct l; [reflexivity | discriminate].
  - destruct l as [| a [| b l]]; try (cbn in H; lia). cbn [pairs_of length]. rewrite IH; [reflexivity | cbn in H; lia].
Qed.

Lemma v1_obj_wf : forall h v, v1core h v -> v_row v = 0 -> obj_wf (v1_obj h v).
Proof.
  intros h v (H1 & Hl & Hhg & _ & _ & Hrow) Hr. rewrite Hr in Hrow.
  unfold obj_wf, v1_obj. cbn [o_cells o_freqs o_ports o_z0 o_type]. rewrite !rev_length.
  split; [symmetry; exact Hl |]. split; [apply sq_all_rev; exact Hrow |]. split; [apply repeat_length |].
  intros G. apply (Hhg G).
Qed.

Lemma inv_v1_wait_tok : forall h v t, v_first v = false -> v1core h v -> inv (v1_wait_tok h v t).
Proof.
  intros h v t Hf Hc. unfold v1_wait_tok.
  assert (E : forall t', inv (if v_noise v || (v_row v =? 0) then eof_tok h (v1_obj h v) t' else err)).
  { intros t'. destruct (v_noise v || (v_row v =? 0)) eqn:E; [| exact I].
    apply inv_eof_tok, v1_obj_wf; [exact Hc |].
    apply orb_true_iff in E. destruct E as [E | E]; [| apply Nat.eqb_eq; exact E].
    destruct Hc as (_ & _ & _ & _ & Hn & _). exact (Hn E). }
  destruct t; try apply E. cbn [inv]. unfold v1inv. rewrite Hf. exact Hc.
Qed.

(* the frequency and the four pairs of a 2-port line *)
Lemma v1_two_port_inv : forall h v mb vals v', v1inv h v -> (v_first v = false -> v_ports v = 2 /\ v_row v = 0) ->
  (mb = true -> v_first v = true /\ is_hg (h_type h) = false) ->
  v1_two_port h v mb vals = Some v' -> v_first v' = false /\ v1core h v'.
Proof.
  intros h v mb vals v' Hv Hn Hmb H. unfold v1_two_port in H.
  destruct vals as [| x r]; [discriminate |]. destruct (v1_freq h v x) as [f |]; [| discriminate].
  destruct (pairs_of r) as [| p0 [| p1 [| p2 [| p3 [| ? ?]]]]]; try discriminate. injection H as <-.
  split; [reflexivity |]. unfold v1core. cbn [v_ports v_freqs v_mats v_maybe4 v_noise v_row length].
  unfold v1inv in Hv. destruct (v_first v) eqn:Ef.
  - destruct Hv as [E1 E2]. rewrite E1, E2. cbn [length].
    split; [lia |]. split; [reflexivity |]. split.
    { intros G. split; [reflexivity |]. destruct mb; [| reflexivity]. destruct (Hmb eq_refl) as [_ N]. congruence. }
    split; [intros _; repeat split; reflexivity |]. split; [discriminate |]. constructor; [reflexivity | constructor].
  - destruct (Hn eq_refl) as [E2 Er]. destruct Hv as (H1 & Hl & Hhg & Hm4 & Hnz & Hrow). rewrite Er, E2 in Hrow.
    split; [lia |]. split; [lia |]. split.
    { intros G. split; [reflexivity |]. destruct mb; [| reflexivity]. destruct (Hmb eq_refl) as [N _]. congruence. }
    split; [intros E; destruct (Hmb E) as [N _]; congruence |]. split; [discriminate |].
    constructor; [reflexivity | exact Hrow].
Qed.

Lemma v1_first_row_inv : forall h v n vals v', v1inv h v -> (v_first v = false -> v_ports v = n /\ v_row v = 0) ->
  1 <= n -> length vals = 1 + 2 * n -> (is_hg (h_type h) = true -> False) ->
  v1_first_row h v n vals = Some v' -> v_first v' = false /\ v1core h v'.
Proof.
  intros h v n vals v' Hv Hn H1 Hlen Hnhg H. unfold v1_first_row in H.
  destruct vals as [| x r]; [discriminate |]. destruct (v1_freq h v x) as [f |]; [| discriminate]. injection H as <-.
  assert (Hp : length (pairs_of r) = n) by (apply pairs_of_length; cbn [length] in Hlen; lia).
  assert (Hold : length (v_freqs v) = length (v_mats v) /\ sq_all n (v_mats v)).
  { unfold v1inv in Hv. destruct (v_first v) eqn:Ef.
    - destruct Hv as [E1 E2]. rewrite E1, E2. split; [reflexivity | constructor].
    - destruct (Hn eq_refl) as [E2 Er]. destruct Hv as (_ & Hl & _ & _ & _ & Hrow). rewrite Er, E2 in Hrow. split; assumption. }
  destruct Hold as [Hl Hsq].
  split; [reflexivity |]. unfold v1core. cbn [v_ports v_freqs v_mats v_maybe4 v_noise v_row length].
  split; [exact H1 |]. split; [lia |]. split; [intros G; destruct (Hnhg G) |]. split; [discriminate |]. split; [discriminate |].
  destruct (n =? 1) eqn:E1.
  - apply Nat.eqb_eq in E1. constructor; [rewrite Hp, E1; reflexivity | exact Hsq].
  - apply Nat.eqb_neq in E1. exists (pairs_of r), (v_mats v). repeat split; try assumption; lia.
Qed.

Lemma odd_half : forall n, Nat.even n = false -> n = 1 + 2 * ((n - 1) / 2).
Proof.
  intros n H. destruct (Nat.Even_or_Odd n) as [[k E] | [k E]].
  - rewrite E in H. rewrite Nat.even_mul in H. discriminate H.
  - rewrite E. replace (2 * k + 1 - 1) with (k * 2) by lia. rewrite Nat.div_mul by discriminate. lia.
Qed.

Lemma v1_line_inv : forall h v vals v', v1inv h v -> v1_line h v vals = Some v' -> v_first v' = false /\ v1core h v'.
Proof.
  intros h v vals v' Hv H. unfold v1_line in H. set (n := length vals) in *.
  destruct (v_first v) eqn:Ef.
  - (* the first line of the file *)
    destruct (Nat.even n || (n <? 3)) eqn:E0; [discriminate |]. apply orb_false_iff in E0. destruct E0 as [Ee E3].
    apply Nat.ltb_ge in E3.
    destruct (n =? 5) eqn:E5.
    { injection H as <-. split; [reflexivity |]. unfold v1core. cbn.
      repeat split; try lia; try discriminate; try reflexivity. constructor. }
    destruct (is_hg (h_type h)) eqn:Eg.
    { destruct (n =? 9); [| discriminate]. apply (v1_two_port_inv h v false vals v' Hv); try assumption; congruence. }
    destruct (n =? 9) eqn:E9.
    { apply (v1_two_port_inv h v true vals v' Hv); try assumption; [congruence |]. intros _. split; [exact Ef | exact Eg]. }
    apply Nat.eqb_neq in E5. apply Nat.eqb_neq in E9. pose proof (odd_half n Ee) as Hh.
    apply (v1_first_row_inv h v ((n - 1) / 2) vals v' Hv); try assumption; try congruence; try lia.
  - unfold v1inv in Hv. rewrite Ef in Hv. pose proof Hv as Hv0.
    destruct Hv as (H1 & Hl & Hhg & Hm4 & Hnz & Hrow).
    destruct (v_noise v) eqn:En.
    { destruct (n =? 5); [| discriminate]. injection H as <-. split; [exact Ef | exact Hv0]. }
    destruct (v_row v =? 0) eqn:Er.
    + apply Nat.eqb_eq in Er.
      assert (Hv1 : v1inv h v) by (unfold v1inv; rewrite Ef; exact Hv0).
      destruct (v_ports v =? 2) eqn:E2.
      * apply Nat.eqb_eq in E2.
        destruct (n =? 9). { apply (v1_two_port_inv h v false vals v' Hv1); try assumption; [tauto | discriminate]. }
        destruct (n =? 5).
        { injection H as <-. split; [reflexivity |]. unfold v1core. cbn [v_ports v_freqs v_mats v_maybe4 v_noise v_row].
          rewrite Er in Hrow. repeat split; try assumption; try discriminate; try tauto;
            try (intros G; destruct (Hhg G) as [A _]; congruence). }
        destruct (v_maybe4 v && (n =? 8)) eqn:E8; [| discriminate]. apply andb_true_iff in E8. destruct E8 as [Em E8].
        apply Nat.eqb_eq in E8. destruct (Hm4 Em) as (_ & _ & L1).
        destruct (v_mats v) as [| [| p0 [| p2 [| p1 [| p3 [| ? ?]]]]] ms]; try discriminate. injection H as <-.
        destruct ms; [| discriminate L1].
        split; [reflexivity |]. unfold v1core. cbn [v_ports v_freqs v_mats v_maybe4 v_noise v_row].
        split; [lia |]. split; [exact Hl |]. split.
        { intros G. destruct (Hhg G) as [_ N]. congruence. }
        split; [discriminate |]. split; [discriminate |].
        eexists _, []. split; [reflexivity |]. split; [| split; [constructor | lia]].
        cbn [length]. rewrite (pairs_of_length 4) by (fold n; lia). reflexivity.
      * apply Nat.eqb_neq in E2.
        destruct (n =? 1 + 2 * v_ports v) eqn:E1.
        { apply Nat.eqb_eq in E1. apply (v1_first_row_inv h v (v_ports v) vals v' Hv1); try assumption; try tauto;
            try (intros G; destruct (Hhg G) as [A _]; congruence). }
        destruct (n =? 5); [| discriminate].
        injection H as <-. split; [reflexivity |]. unfold v1core. cbn [v_ports v_freqs v_mats v_maybe4 v_noise v_row].
        rewrite Er in Hrow. repeat split; try assumption; try discriminate; try tauto;
          try (intros G; destruct (Hhg G) as [A _]; congruence).
    + apply Nat.eqb_neq in Er. destruct (n =? 2 * v_ports v) eqn:E2; [| discriminate]. apply Nat.eqb_eq in E2.
      unfold v1_next_row in H. destruct (v_row v) as [| k] eqn:Ek; [congruence |].
      destruct Hrow as (m & ms & Em & Lm & Hsq & Hk). rewrite Em in H.
      assert (Lp : length (m ++ pairs_of vals) = S (S k) * v_ports v).
      { rewrite app_length, (pairs_of_length (v_ports v)) by (fold n; lia). rewrite Lm. lia. }
      destruct (S (S k) =? v_ports v) eqn:Es; injection H as <-;
        (split; [reflexivity |]); unfold v1core; cbn [v_ports v_freqs v_mats v_maybe4 v_noise v_row];
        (split; [exact H1 |]); (split; [rewrite Hl, Em; reflexivity |]);
        (split; [intros G; destruct (Hhg G) as [A B]; split; [exact A | reflexivity] |]);
        (split; [discriminate |]); (split; [discriminate |]).
      * apply Nat.eqb_eq in Es. constructor; [| exact Hsq]. rewrite Lp, Es. reflexivity.
      * apply Nat.eqb_neq in Es. exists (m ++ pairs_of vals), ms. split; [reflexivity |]. split; [exact Lp | split; [exact Hsq | lia]].
Qed.

Lemma inv_v1_line_tok : forall h v acc t, v1inv h v -> inv (v1_line_tok h v acc t).
Proof.
  intros h v acc t Hv. unfold v1_line_tok. destruct t; try exact I.
  - exact Hv.
  - destruct (v1_line h v (rev acc)) as [v' |] eqn:E; [| exact I]. exact (v1_line_inv h v _ v' Hv E).
  - destruct (v1_line h v (rev acc)) as [v' |] eqn:E; [| exact I].
    destruct (v1_line_inv h v _ v' Hv E) as [A B]. apply inv_v1_wait_tok; assumption.
Qed.

Lemma inv_v1_start : forall h t, inv (v1_start h t).
Proof. intros h t. unfold v1_start. destruct t; try exact I. cbn. split; reflexivity. Qed.

(* ---- the keyword section ----------------------------------------------------------------------------------------- *)
Lemma inv_after_kw : forall h t, hdr_inv h -> inv (after_kw h t).
Proof.
  intros h t Hh. unfold after_kw.
  destruct (negb (h_v2 h) && (h_ports h =? -1)%Z && (h_nfreq h =? -1)%Z && match h_order h with None => true | Some _ => false end).
  - apply inv_v1_start.
  - destruct t as [k | | | | | | | |]; try exact I. destruct k; try exact I. apply inv_network_data, Hh.
Qed.

Lemma hdr_inv_same : forall h h', h_type h' = h_type h -> h_ports h' = h_ports h -> h_ref h' = h_ref h -> hdr_inv h -> hdr_inv h'.
Proof. intros h h' A B C H. unfold hdr_inv in *. rewrite A, B, C. exact H. Qed.

Lemma inv_body_tok : forall h t, hdr_inv h -> inv (body_tok h t).
Proof.
  intros h t Hh. unfold body_tok. destruct t as [k | | | | | | | |]; try (apply inv_after_kw; exact Hh).
  destruct k; try (apply inv_after_kw; exact Hh); cbn [inv]; try (split; [exact Hh | discriminate]); try exact Hh; try exact I.
  - (* [Number of Ports] *)
    destruct (h_ports h =? -1)%Z eqn:E; [| exact I]. apply Z.eqb_eq in E. split; [exact Hh | intros _; exact E].
  - (* [Reference] *)
    destruct (h_ports h <? 0)%Z eqn:E0; [exact I |]. apply Z.ltb_ge in E0.
    destruct (h_ref h) eqn:Er; [exact I |].
    destruct (Z.to_nat (h_ports h)) eqn:En; cbn [inv].
    + destruct Hh as [A _]. split; [exact A |]. cbn [set_ref h_ref h_ports]. split; [exact E0 | symmetry; exact En].
    + split; [exact Hh |]. split; [exact Er |]. split; [exact E0 |]. rewrite En. reflexivity.
Qed.

Lemma inv_arg_tok : forall h a t, hdr_inv h -> (a = APorts -> h_ports h = (-1)%Z) -> inv (arg_tok h a t).
Proof.
  intros h a t Hh Ha. unfold arg_tok.
  destruct a; destruct t; try exact I;
    repeat match goal with |- inv (if ?b then _ else _) => destruct b eqn:?; try exact I end;
    cbn [inv]; try (apply (hdr_inv_same h); [reflexivity | reflexivity | reflexivity | exact Hh]).
  (* ports *)
  destruct Hh as [_ Hr]. rewrite (Ha eq_refl) in Hr. unfold hdr_inv. cbn [set_ports h_type h_ports h_ref]. split.
  - intros G. rewrite G in *. rewrite andb_true_r in Heqb0. apply negb_false_iff, Z.eqb_eq in Heqb0. left. exact Heqb0.
  - destruct (h_ref h) as [l |]; [| exact I]. lia.
Qed.

(* ---- one token, one raw token, a whole stream ---------------------------------------------------------------------- *)
Lemma on_tok_inv : forall s t, inv s -> inv (on_tok s t).
Proof.
  intros s t Hs. destruct s; cbn [on_tok].
  - (* SStart *) destruct t as [k | | | | | | | |]; try exact I; [destruct k; exact I | cbn; split; reflexivity].
  - (* SVersionArg *) destruct t; try exact I. repeat match goal with |- inv (if ?b then _ else _) => destruct b end; exact I.
  - (* SWantOption *) destruct t; try exact I. cbn. split; reflexivity.
  - (* SOpt *) destruct Hs as [Hp Hr].
    assert (Hh : hdr_inv h) by (unfold hdr_inv; rewrite Hp, Hr; split; [intros _; right; reflexivity | exact I]).
    destruct t as [| o | | | | | | |]; try exact I.
    + destruct o; cbn [inv apply_op]; split; assumption.
    + exact Hh.
    + apply inv_body_tok, Hh.
  - (* SOptR *) destruct t; try exact I. destruct (negb (xlt xq0 x)); [exact I | exact Hs].
  - (* SBody *) apply inv_body_tok, Hs.
  - (* SArg *) destruct Hs as [Hh Ha]. apply inv_arg_tok; assumption.
  - (* SRef *) destruct Hs as (Hh & Hr & H0 & Hl).
    destruct left as [| k]; [exact I |]. destruct t; try exact I. destruct (negb (xlt xq0 x)); [exact I |].
    destruct k; cbn [inv].
    + destruct Hh as [A _]. split; [exact A |]. cbn [set_ref h_ref h_ports]. split; [exact H0 |].
      rewrite rev_length. cbn [length]. lia.
    + split; [exact Hh |]. split; [exact Hr |]. split; [exact H0 |]. cbn [length]. lia.
  - (* SInfo *) destruct t as [k | | | | | | | |]; try (apply inv_body_tok; exact Hs).
    destruct k; try (apply inv_body_tok; exact Hs). exact Hs.
  - (* SV2 *) destruct Hs as (Hh & H0 & Hd). apply inv_v2_tok; assumption.
  - (* SNoise *) apply inv_noise_tok, Hs.
  - (* SEof *) apply inv_eof_tok, Hs.
  - (* SV1Wait *) destruct Hs as [Hf Hc]. apply inv_v1_wait_tok; assumption.
  - (* SV1Line *) apply inv_v1_line_tok, Hs.
  - exact Hs.
  - exact I.
  - destruct t; exact I.
Qed.

Lemma pstep_inv : forall s x, inv s -> inv (pstep s x).
Proof. intros s x Hs. unfold pstep. destruct (tok_of (flags_of s) x); [apply on_tok_inv |]; exact Hs. Qed.

Lemma fold_inv : forall r s, inv s -> inv (fold_left pstep r s).
Proof. induction r as [| x r IH]; intros s Hs; [exact Hs |]. cbn [fold_left]. apply IH, pstep_inv, Hs. Qed.

Theorem parse_ok_wf_lemma : forall r o, parse r = Ok o -> obj_wf o.
Proof.
  intros r o H. unfold parse in H. pose proof (fold_inv r SStart I) as Hi.
  destruct (fold_left pstep r SStart); try discriminate H. injection H as <-. exact Hi.
Qed.

Theorem load_ts_ok_wf_lemma : forall bytes o, load_ts bytes = Ok o -> obj_wf o.
Proof. intros bytes o H. exact (parse_ok_wf_lemma _ o H). Qed.
