(* The destination after vnadata_load: every call the loaders make on it is an operation of the container model
   (or, for the two precisions of an NPD file, a direct store), so the container invariant of property C15
   (DataProofs.Inv: allocations cover the logical sizes, everything outside the logical box holds its initial
   value, type / dimension rule, valid save options) holds after EVERY outcome - success, every syntax error,
   every injected allocation failure - provided no '#:fprecision 0' / '#:dprecision 0' was stored; an object is
   untouched in shape, mode and content when no vnadata_init / vnadata_resize / vnadata_add_frequency was reached.
   Nothing here changes a model. *)
Require Import List NArith ZArith Bool Lia.
Import ListNotations.
Require LV.Data.DataModel LV.Data.DataProofs.
Require Import LV.Files.TsTok LV.Files.TsParse LV.Mem.Alloc LV.Files.TsMem LV.Files.NpdScan LV.Files.NpdLoad LV.Files.TsMemNpd.
Require Import LV.Files.LoadFail.
Require LV.Files.TsMemNpdProofs.
Open Scope Z_scope.

Section DestProofs.
Variable V : Type.
Variables vzero vdef vany : V.
Notation vd := (DataModel.vd V).
Notation Inv := (DataProofs.Inv V vzero vdef).
Notation dop_apply := (dop_apply V vzero vdef vany).
Notation run_calls := (run_calls V vzero vdef vany).
Notation ndop_apply := (ndop_apply V vzero vdef vany).
Notation run_ncalls := (run_ncalls V vzero vdef vany).

Lemma dop_apply_inv : forall d o, Inv d -> Inv (dop_apply d o).
Proof. intros d o H. destruct o; exact (DataProofs.step_inv V vzero vdef d _ H). Qed.

Lemma run_calls_inv : forall l d, Inv d -> Inv (run_calls d l).
Proof. induction l as [|o l IH]; intros d H; simpl; [exact H|]. apply IH. apply dop_apply_inv. exact H. Qed.

Lemma ndop_apply_inv : forall d o, Inv d -> prec_ok o = true -> Inv (ndop_apply d o).
Proof.
  intros d o H Hp. destruct o as [c|v|v]; simpl in *.
  - apply dop_apply_inv; exact H.
  - apply Z.leb_le in Hp. unfold DataProofs.Inv, DataProofs.Clean, DataModel.cells, DataModel.ports in *. simpl. intuition.
  - apply Z.leb_le in Hp. unfold DataProofs.Inv, DataProofs.Clean, DataModel.cells, DataModel.ports in *. simpl. intuition.
Qed.

Lemma run_ncalls_inv : forall l d, Inv d -> forallb prec_ok l = true -> Inv (run_ncalls d l).
Proof.
  induction l as [|o l IH]; intros d H Hp; simpl in *; [exact H|]. apply andb_true_iff in Hp. destruct Hp as [A B].
  apply IH; [apply ndop_apply_inv; assumption | exact B].
Qed.

(* ---- Touchstone: after every outcome ---------------------------------------------------------------------------------- *)
Theorem ts_dest_usable_lemma : forall name_ft bytes k d d',
  Inv d -> ts_dest V vzero vdef vany name_ft bytes k d = Some d' -> Inv d'.
Proof.
  intros name_ft bytes k d d' H E. unfold ts_dest in E.
  destruct (mem_load_ts bytes (start k)) as [[[r rep] s]|f]; [|discriminate].
  injection E as <-. apply run_calls_inv. exact H.
Qed.

(* ---- NPD ------------------------------------------------------------------------------------------------------------------- *)
Theorem npd_dest_usable_lemma : forall name_ft bytes k d,
  Inv d -> exists d', npd_dest V vzero vdef vany name_ft bytes k d = Some d' /\ Inv d'.
Proof.
  intros name_ft bytes k d H. unfold npd_dest.
  pose proof (LV.Files.TsMemNpdProofs.npd_no_fault_lemma bytes k) as Hnf.
  pose proof (LV.Files.TsMemNpdProofs.npd_precisions_ok_lemma bytes k) as Hp.
  destruct (mem_load_npd NFixed bytes (start k)) as [[[r rep] s]|f]; [|exfalso; exact (Hnf f eq_refl)].
  eexists; split; [reflexivity|]. apply run_ncalls_inv; [apply run_calls_inv; exact H | exact (Hp _ _ eq_refl)].
Qed.

(* ---- unchanged unless re-initialised ----------------------------------------------------------------------------------------- *)
(* shape, mode and contents: everything but the save options *)
Definition same_object (a b : vd) : Prop :=
  DataModel.ty V a = DataModel.ty V b /\ DataModel.rows V a = DataModel.rows V b /\ DataModel.cols V a = DataModel.cols V b /\
  DataModel.freqs V a = DataModel.freqs V b /\ DataModel.p_alloc V a = DataModel.p_alloc V b /\
  DataModel.f_alloc V a = DataModel.f_alloc V b /\ DataModel.m_alloc V a = DataModel.m_alloc V b /\
  DataModel.per_f V a = DataModel.per_f V b /\ DataModel.z0v V a = DataModel.z0v V b /\ DataModel.z0vv V a = DataModel.z0vv V b /\
  DataModel.fv V a = DataModel.fv V b /\ DataModel.dat V a = DataModel.dat V b.
Definition meta_call (o : dop) : bool := match o with DFiletype _ | DFormat => true | _ => false end.

Lemma same_object_refl : forall a, same_object a a.
Proof. intro a; unfold same_object; repeat split; reflexivity. Qed.

Lemma meta_call_same : forall d o, meta_call o = true -> same_object (dop_apply d o) d.
Proof.
  intros d o H. destruct o; try discriminate; simpl.
  - unfold DataModel.set_filetype. destruct ((0 <=? k) && (k <=? 3)); simpl; unfold same_object; simpl; repeat split; reflexivity.
  - unfold same_object; simpl; repeat split; reflexivity.
Qed.

Lemma run_meta_same : forall l d, forallb meta_call l = true -> same_object (run_calls d l) d.
Proof.
  induction l as [|o l IH]; intros d H; simpl in *; [apply same_object_refl|].
  apply andb_true_iff in H. destruct H as [A B].
  pose proof (IH (dop_apply d o) B) as H1. pose proof (meta_call_same d o A) as H2.
  unfold same_object in *. intuition congruence.
Qed.
(* ---- what IS left in the destination after a failed load ---------------------------------------------------------------- *)
(* type, rows, columns and number of frequencies are those left by the LAST call that can change the shape
   (vnadata_init, vnadata_resize, vnadata_add_frequency); every later call keeps them *)
Definition dims (d : vd) := (DataModel.ty V d, DataModel.rows V d, DataModel.cols V d, DataModel.freqs V d).

Lemma nonshape_dims : forall d o, shape_call o = false -> dims (dop_apply d o) = dims d.
Proof.
  intros d o H. destruct o; try discriminate; unfold dims; simpl.
  - unfold DataModel.set_filetype. destruct ((0 <=? k) && (k <=? 3)); reflexivity.
  - reflexivity.
  - unfold DataModel.set_all_z0, DataModel.convert_to_z0. destruct (DataModel.per_f V d); simpl;
      match goal with |- context [if ?c then _ else _] => destruct c end; reflexivity.
  - unfold DataModel.set_z0_vector, DataModel.convert_to_z0. destruct (DataModel.per_f V d); simpl;
      match goal with |- context [if ?c then _ else _] => destruct c end; reflexivity.
  - unfold DataModel.set_frequency. destruct (negb (DataModel.in_range i (DataModel.freqs V d))); [reflexivity|].
    match goal with |- context [if ?c then _ else _] => destruct c end; reflexivity.
  - unfold DataModel.set_fz0_vector. destruct (negb (DataModel.in_range i (DataModel.freqs V d))); [reflexivity|].
    unfold DataModel.convert_to_fz0. destruct (DataModel.per_f V d); simpl;
      match goal with |- context [if ?c then _ else _] => destruct c end; reflexivity.
Qed.

Lemma run_nonshape_dims : forall l d, forallb (fun o => negb (shape_call o)) l = true -> dims (run_calls d l) = dims d.
Proof.
  induction l as [|o l IH]; intros d H; simpl in *; [reflexivity|].
  apply andb_true_iff in H. destruct H as [A B]. rewrite (IH _ B). apply nonshape_dims. apply negb_true_iff. exact A.
Qed.

Theorem dest_shape_last_call_lemma : forall l1 o l2 d,
  forallb (fun c => negb (shape_call c)) l2 = true ->
  dims (run_calls d (l1 ++ o :: l2)) = dims (dop_apply (run_calls d l1) o).
Proof.
  intros l1 o l2 d H. unfold LoadFail.run_calls. rewrite fold_left_app. simpl.
  apply (run_nonshape_dims l2 _ H).
Qed.

End DestProofs.

(* before fix DB91 '#:fprecision 0' was accepted (hline_step_asfound) and stored without the test of
   vnadata_set_fprecision (which refuses precision < 1): that store breaks the container invariant; since the fix
   the same file is refused *)
Definition prec0_bytes : list N :=
  [35;58;102;112;114;101;99;105;115;105;111;110;32;48;10;                       (* #:fprecision 0 *)
   35;58;112;111;114;116;115;32;49;10;                                          (* #:ports 1 *)
   35;58;102;114;101;113;117;101;110;99;105;101;115;32;49;10;                   (* #:frequencies 1 *)
   35;58;112;97;114;97;109;101;116;101;114;115;32;83;114;105;10;                (* #:parameters Sri *)
   49;32;48;46;53;32;48;46;50;53;10]%N.                                         (* 1 0.5 0.25 *)
Theorem npd_precision_asfound_refuted_lemma :
  (exists h', hline_step_asfound nh0 NKFprecision (hd [] (npd_lines prec0_bytes)) = inr h' /\ n_fprec h' = Some 0) /\
  (~ DataProofs.Inv unit tt tt (ndop_apply unit tt tt tt harness_dest (NFprec 0))) /\
  load_npd prec0_bytes = NError NEBADMSG.
Proof.
  split; [eexists; split; vm_compute; reflexivity|]. split; [|vm_compute; reflexivity].
  unfold DataProofs.Inv. simpl. intros (_&_&_&_&_&H&_). lia.
Qed.

(* the harness destination satisfies the invariant; a load that fails before vnadata_init leaves it as it was *)
Theorem harness_dest_inv_lemma : DataProofs.Inv unit tt tt harness_dest.
Proof. apply (DataProofs.step_inv unit tt tt (DataModel.vd_alloc unit tt tt) (DataModel.OInit unit 4 3 3 2)). apply DataProofs.inv_alloc. Qed.
