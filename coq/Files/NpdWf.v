(* Every object the NPD loader model returns is self-consistent: a known parameter type, dimensions that fit it
   (1 x ports for Zin, ports x ports otherwise, 2 x 2 for the two-port-only types), as many cell rows (and
   per-frequency z0 rows) as frequencies, every row complete.  For all inputs (well formed or not).

   Nothing here changes the model: NpdLoad.v is only read. *)
Require Import List NArith ZArith QArith Qcanon Bool Lia. Import ListNotations.
Require Import LV.Files.TsTok LV.Files.NpdScan LV.Files.NpdLoad.
Local Open Scope Z_scope.

Definition nobj_wf (o : nobj) : Prop :=
  b_type o <> PUNDEF /\ 0 <= b_columns o /\
  (match b_type o with PZIN => b_rows o = 1 | _ => b_rows o = b_columns o end) /\
  (two_port_type (b_type o) = true -> b_columns o = 2) /\
  length (b_cells o) = length (b_freqs o) /\
  Forall (fun m => length m = Z.to_nat (b_rows o * b_columns o)) (b_cells o) /\
  match b_fz0 o with Some l => length l = length (b_freqs o) | None => True end.

(* ---- the plan of the field accounting ---------------------------------------------------------------------------- *)
Definition good_entry (ports : Z) (e : entry) : Prop :=
  e_par e <> PUNDEF /\ (two_port_type (e_par e) = true -> ports = 2).
Definition good_plan (ports : Z) (p : plan) : Prop :=
  match pl_best p with Some (e, _) => good_entry ports e | None => True end.

Lemma account_good : forall ports l p p', good_plan ports p -> account ports l p = Some p' -> good_plan ports p'.
Proof.
  intros ports l. induction l as [| e l IH]; intros p p' Hp H.
  - cbn in H. injection H as <-. exact Hp.
  - cbn [account] in H.
    assert (G : e_par e <> PUNDEF -> (two_port_type (e_par e) && negb (ports =? 2)) = false -> good_entry ports e).
    { intros A B. split; [exact A |]. intros T. rewrite T in B. cbn in B. apply negb_false_iff, Z.eqb_eq in B. exact B. }
    destruct (e_par e) eqn:Ee; try discriminate H;
      (destruct (two_port_type _ && negb (ports =? 2)) eqn:E2; [discriminate H |]);
      (destruct (int_max - pl_fields p <? entry_fields ports e); [discriminate H |]);
      (eapply IH; [| exact H]); unfold good_plan; cbn [pl_best];
      (destruct (pl_quality p <? quality e)%nat; [cbn [pl_best]; apply G; [discriminate | reflexivity] | exact Hp]).
Qed.

(* ---- the context computed after the header ------------------------------------------------------------------------- *)
Definition ctx_ok (x : nctx) : Prop :=
  0 <= x_ports x /\ good_entry (x_ports x) (x_best x) /\
  x_cells x = (match e_par (x_best x) with PZIN => x_ports x | _ => x_ports x * x_ports x end).

Lemma post_header_ok : forall h x, post_header h = inr x -> ctx_ok x.
Proof.
  intros h x H. unfold post_header in H.
  destruct (legacy_ports h) as [p |]; [| discriminate]. destruct (p <? 0) eqn:E0; [discriminate |]. apply Z.ltb_ge in E0.
  destruct (n_frequencies h <? 0); [discriminate |]. destruct (n_params h) as [l |]; [| discriminate].
  destruct (n_fz0 h && ((int_max - 1) / 2 <? p)); [discriminate |].
  destruct (account p l _) as [pl |] eqn:Ea; [| discriminate].
  apply account_good in Ea; [| exact I]. unfold good_plan in Ea.
  destruct (pl_best pl) as [[e first] |]; [| discriminate]. injection H as <-.
  unfold ctx_ok. cbn [x_ports x_best x_cells]. repeat split; try assumption; apply Ea.
Qed.

(* ---- data lines -------------------------------------------------------------------------------------------------------- *)
Lemma take_pairs_length : forall n fields l, take_pairs n fields = Some l -> length l = n.
Proof.
  induction n as [| n IH]; intros fields l H.
  - cbn in H. injection H as <-. reflexivity.
  - cbn [take_pairs] in H. destruct fields as [| a [| b r]]; try discriminate.
    destruct (field_double a); [| discriminate]. destruct (field_double b); [| discriminate].
    destruct (take_pairs n r) as [l' |] eqn:E; [| discriminate]. injection H as <-. cbn [length]. rewrite (IH r l' E). reflexivity.
Qed.

Definition data_ok (x : nctx) (d : ndata) : Prop :=
  length (nd_cells d) = length (nd_freqs d) /\ length (nd_fz0 d) = length (nd_freqs d) /\
  Forall (fun m => length m = Z.to_nat (x_cells x)) (nd_cells d).

Lemma data_line_ok : forall x d fields d', data_ok x d -> data_line x d fields = Some d' -> data_ok x d'.
Proof.
  intros x d fields d' (A & B & C) H. unfold data_line in H.
  destruct (negb (Z.of_nat (length fields) =? x_nfields x)); [discriminate |].
  destruct fields as [| f0 rest]; [discriminate |]. destruct (field_double f0); [| discriminate].
  destruct (if x_fz0 x then take_pairs (Z.to_nat (x_ports x)) rest else Some []) as [z |]; [| discriminate].
  destruct (take_pairs (Z.to_nat (x_cells x)) _) as [c |] eqn:Ec; [| discriminate]. injection H as <-.
  unfold data_ok. cbn [nd_cells nd_freqs nd_fz0 length]. repeat split; try lia.
  constructor; [exact (take_pairs_length _ _ _ Ec) | exact C].
Qed.

Lemma obj_of_wf : forall x d, ctx_ok x -> data_ok x d -> nobj_wf (obj_of x d).
Proof.
  intros x d (H0 & [Hu Ht] & Hc) (A & B & C). unfold nobj_wf, obj_of.
  cbn [b_type b_columns b_rows b_cells b_freqs b_fz0]. rewrite !rev_length.
  split; [exact Hu |]. split; [exact H0 |]. split; [destruct (e_par (x_best x)); reflexivity |].
  split; [exact Ht |]. split; [exact A |]. split.
  - apply Forall_rev. rewrite Hc in C.
    destruct (e_par (x_best x)); try exact C. rewrite Z.mul_1_l. exact C.
  - destruct (x_fz0 x && (0 <? x_nfreq x)); [rewrite rev_length; exact B | exact I].
Qed.

(* ---- the loader ---------------------------------------------------------------------------------------------------------- *)
Definition nst_ok (s : nst) : Prop :=
  match s with NData x d => ctx_ok x /\ data_ok x d | _ => True end.

Lemma data_step_ok : forall x d r, ctx_ok x -> data_ok x d -> nst_ok (data_step x d r).
Proof.
  intros x d r Hx Hd. unfold data_step. destruct r as [k f | f |]; try exact I.
  destruct (nd_left d <=? 0); [exact I |]. destruct (data_line x d f) as [d' |] eqn:E; [| exact I].
  split; [exact Hx | exact (data_line_ok x d f d' Hd E)].
Qed.

Lemma data0_ok : forall x n, data_ok x (mknd n [] [] []).
Proof. intros x n. repeat split; constructor. Qed.

Lemma nstep_ok : forall s line, nst_ok s -> nst_ok (nstep s line).
Proof.
  intros s line Hs. destruct s as [h | x d | c]; cbn [nstep].
  - destruct (record_of line) as [k f | f |]; try exact I.
    + destruct (hline_step h k f); exact I.
    + destruct (post_header h) as [c | x] eqn:E; [exact I |].
      apply data_step_ok; [exact (post_header_ok h x E) | apply data0_ok].
  - destruct Hs as [Hx Hd]. apply data_step_ok; assumption.
  - exact I.
Qed.

Lemma nfold_ok : forall lines s, nst_ok s -> nst_ok (fold_left nstep lines s).
Proof. induction lines as [| l lines IH]; intros s Hs; [exact Hs |]. cbn [fold_left]. apply IH, nstep_ok, Hs. Qed.

Theorem load_npd_ok_wf_lemma : forall bytes o, load_npd bytes = NOk o -> nobj_wf o.
Proof.
  intros bytes o H. unfold load_npd in H.
  pose proof (nfold_ok (npd_lines bytes) (NHeader nh0) I) as Hs.
  destruct (fold_left nstep (npd_lines bytes) (NHeader nh0)) as [h | x d | c]; cbn [nfinish] in H.
  - destruct (post_header h) as [c | x] eqn:E; [discriminate |].
    destruct (x_nfreq x =? 0); [| discriminate]. injection H as <-.
    apply obj_of_wf; [exact (post_header_ok h x E) | apply data0_ok].
  - destruct (nd_left d =? 0); [| discriminate]. injection H as <-. destruct Hs as [Hx Hd]. apply obj_of_wf; assumption.
  - discriminate.
Qed.
