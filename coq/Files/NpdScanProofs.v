(* Lemmas about the NPD field accounting and the header state machine. *)
Require Import List ZArith Bool Lia Permutation.
Import ListNotations.
Require Import LV.Files.NpdScan.

(* every entry the saver can print occupies as many fields as the loader expects for it *)
Lemma saver_fields_eq_loader_fields_entry : forall rows ports e,
  wf_entry e = true -> (is_matrix (e_par e) = true -> rows = ports) ->
  saver_fields rows ports e = loader_fields ports e.
Proof.
  intros rows ports [t f] Hwf Hsq. cbn [e_par e_form] in *.
  destruct t, f; try discriminate Hwf; cbn [saver_fields loader_fields e_par e_form];
    try rewrite (Hsq eq_refl); try reflexivity; try (rewrite Nat.mul_assoc; reflexivity).
  (* IL *)
  rewrite Nat.min_id. destruct ports; [reflexivity|].
  rewrite Nat.mul_sub_distr_l. rewrite Nat.mul_1_r. reflexivity.
Qed.

Lemma saver_fields_eq_loader_fields_line : forall fz0 rows ports l,
  forallb wf_entry l = true ->
  (existsb (fun e => is_matrix (e_par e)) l = true -> rows = ports) ->
  line_fields (saver_fields rows ports) fz0 ports l = line_fields (loader_fields ports) fz0 ports l.
Proof.
  intros fz0 rows ports l Hwf Hsq. unfold line_fields. f_equal.
  induction l as [|e l IH]; [reflexivity|].
  cbn [forallb] in Hwf. apply andb_true_iff in Hwf. destruct Hwf as [He Hl].
  cbn [fold_right]. rewrite IH.
  - rewrite saver_fields_eq_loader_fields_entry; [reflexivity|exact He|].
    intros Hm. apply Hsq. cbn [existsb]. rewrite Hm. reflexivity.
  - exact Hl.
  - intros Hm. apply Hsq. cbn [existsb]. rewrite Hm. apply orb_true_r.
Qed.

(* the count used before fix D31 disagrees with the saver: 3-port IL *)
Lemma d31_refuted : exists ports e, wf_entry e = true /\ saver_fields ports ports e <> loader_fields_d31 ports e.
Proof. exists 3, (Build_entry PS IL). split; [reflexivity|]. cbv. discriminate. Qed.

Example fields_example :
  line_fields (saver_fields 3 3) false 3 [Build_entry PS IL; Build_entry PS RI] = 25 /\
  line_fields (loader_fields 3) false 3 [Build_entry PS IL; Build_entry PS RI] = 25 /\
  line_fields (loader_fields_d31 3) false 3 [Build_entry PS IL; Build_entry PS RI] = 22.
Proof. repeat split; reflexivity. Qed.

(* ---- header lines in any order ------------------------------------------------------------ *)
(* two states are alike when both are error states or they are equal: once an error is recorded the
   loader stops, so the other fields of an error state are never looked at *)
Definition heq (s1 s2 : hstate) : Prop := (h_err s1 = true /\ h_err s2 = true) \/ s1 = s2.

Lemma heq_refl : forall s, heq s s.
Proof. intros; right; reflexivity. Qed.

Lemma heq_trans : forall a b c, heq a b -> heq b c -> heq a c.
Proof.
  intros a b c [[H1 H2]|H] [[H3 H4]|H'].
  - left; auto.
  - subst. left; auto.
  - subst. left; auto.
  - subst. right; reflexivity.
Qed.

Lemma hstep_err : forall s l, h_err s = true -> hstep s l = s.
Proof. intros s l H. unfold hstep. now rewrite H. Qed.

Lemma hstep_heq : forall s1 s2 l, heq s1 s2 -> heq (hstep s1 l) (hstep s2 l).
Proof.
  intros s1 s2 l [[H1 H2]|H].
  - rewrite !hstep_err by assumption. left; auto.
  - subst. apply heq_refl.
Qed.

Lemma fold_heq : forall l s1 s2, heq s1 s2 -> heq (fold_left hstep l s1) (fold_left hstep l s2).
Proof. induction l as [|x l IH]; intros s1 s2 H; [exact H|]. cbn [fold_left]. apply IH. apply hstep_heq. exact H. Qed.

Lemma hstep_comm : forall s a b, hkey a <> hkey b -> heq (hstep (hstep s a) b) (hstep (hstep s b) a).
Proof.
  intros [err po ro co fo pa fp dp] a b H.
  destruct a as [ok|n|n|n|n|l|n|n], b as [ok'|n'|n'|n'|n'|l'|n'|n']; try (exfalso; apply H; reflexivity); clear H;
    destruct err, po;
    try destruct ok; try destruct ok';
    unfold hstep, fail; cbn [h_err h_ports h_rows h_columns h_frequencies h_parameters h_fprecision h_dprecision];
    repeat match goal with
           | |- context [Nat.ltb max_precision ?k] => destruct (Nat.ltb max_precision k);
               cbn [h_err h_ports h_rows h_columns h_frequencies h_parameters h_fprecision h_dprecision]
           end;
    first [right; reflexivity | left; split; reflexivity].
Qed.

Lemma fold_hstep_perm : forall l1 l2, Permutation l1 l2 -> NoDup (map hkey l1) ->
  forall s, heq (fold_left hstep l1 s) (fold_left hstep l2 s).
Proof.
  intros l1 l2 HP. induction HP as [|x l l' HP IH|x y l|l l' l'' HP1 IH1 HP2 IH2]; intros Hnd s.
  - apply heq_refl.
  - cbn [fold_left]. apply IH. cbn [map] in Hnd. now inversion Hnd.
  - cbn [fold_left]. apply fold_heq. apply hstep_comm.
    cbn [map] in Hnd. inversion Hnd as [|k ks Hnin _]; subst. intros E. apply Hnin. left. symmetry. exact E.
  - eapply heq_trans; [apply IH1; exact Hnd|]. apply IH2.
    eapply Permutation_NoDup; [apply Permutation_map; exact HP1|exact Hnd].
Qed.

Lemma header_result_heq : forall s1 s2, heq s1 s2 -> header_result s1 = header_result s2.
Proof. intros s1 s2 [[H1 H2]|H]; [unfold header_result; now rewrite H1, H2|now subst]. Qed.

Lemma npd_header_order_lemma : forall l1 l2, Permutation l1 l2 -> NoDup (map hkey l1) ->
  header_result (hrun l1) = header_result (hrun l2).
Proof. intros l1 l2 HP Hnd. unfold hrun. apply header_result_heq. apply fold_hstep_perm; assumption. Qed.

Example header_order_example :
  header_result (hrun [HDprecision 6; HParameters [Build_entry PS RI]; HFrequencies 2; HPorts 3; HVersion true]) =
  Some (3, 2, [Build_entry PS RI]) /\
  header_result (hrun [HVersion true; HPorts 3; HFrequencies 2; HParameters [Build_entry PS RI]; HDprecision 6]) =
  Some (3, 2, [Build_entry PS RI]).
Proof. split; reflexivity. Qed.

(* duplicates do matter (the hypothesis NoDup is needed): a repeated #:ports is an error wherever it stands,
   and of two #:frequencies lines the last one wins *)
Example header_duplicates :
  header_result (hrun [HPorts 1; HFrequencies 1; HFrequencies 2; HParameters []]) <>
  header_result (hrun [HPorts 1; HFrequencies 2; HFrequencies 1; HParameters []]).
Proof. cbv. discriminate. Qed.
