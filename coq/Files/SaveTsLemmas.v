(* Lemmas for the Touchstone part of C06's load_save_id: the token stream the saver model
   (SaveEmit.v) writes is, up to line breaks the version-2 reader ignores, the stream of a well-formed
   abstract file of TsSpec.v, whose load is given by TsLoadV2.v2_load_lemma / TsLoadV1.v1_load_lemma. *)
Require Import List Arith NArith ZArith QArith Qcanon Bool Lia. Import ListNotations.
Require Import LV.Files.TsTok LV.Files.TsParse LV.Files.TsParseBasics.
Definition zone2 (s : pst) : Prop :=
  match s with
  | SOpt h | SOptR h | SBody h | SArg h _ | SRef h _ _ | SInfo h => h_v2 h = true
  | SV2 _ _ | SNoise _ _ _ _ _ | SEof _ _ | SDone _ | SErr _ | SLate _ => True
  | _ => False
  end.

Lemma zone2_noeol : forall s, zone2 s -> f_eol (flags_of s) = false.
Proof. intros [] H; simpl in *; try contradiction; try reflexivity. destruct a; reflexivity. Qed.

Ltac brk :=
  repeat match goal with
         | |- context [if ?b then _ else _] => destruct b
         | |- context [match ?x with _ => _ end] => destruct x
         end.

Lemma zone2_after_data : forall h o t, zone2 (after_data_tok h o t).
Proof. intros. unfold after_data_tok, end_tok, eof_tok. brk; exact I. Qed.
Lemma zone2_noise : forall h o l j fp t, zone2 (noise_tok h o l j fp t).
Proof. intros. unfold noise_tok, end_tok, eof_tok. brk; exact I. Qed.
Lemma zone2_v2tok : forall h d t, zone2 (v2_tok h d t).
Proof. intros. unfold v2_tok. destruct (d_left d =? 0)%N; [apply zone2_after_data|]. brk; exact I. Qed.
Lemma zone2_netdata : forall h, zone2 (network_data h).
Proof. intros. unfold network_data. brk; exact I. Qed.
Lemma zone2_after_kw : forall h t, h_v2 h = true -> zone2 (after_kw h t).
Proof. intros h t H. unfold after_kw. rewrite H. cbn [negb andb]. destruct t; try exact I. destruct k; try exact I. apply zone2_netdata. Qed.
Lemma zone2_body : forall h t, h_v2 h = true -> zone2 (body_tok h t).
Proof.
  intros h t H. unfold body_tok. destruct t; try (apply zone2_after_kw; exact H).
  destruct k; try (apply zone2_after_kw; exact H); cbn; try exact H; try exact I.
  - brk; cbn; try exact I; exact H.
  - brk; cbn; try exact I; exact H.
Qed.
Lemma zone2_on_tok : forall s t, zone2 s -> zone2 (on_tok s t).
Proof.
  intros s t H. destruct s; cbn [zone2] in H; try contradiction; cbn [on_tok].
  - destruct t; try exact I. destruct o; cbn; exact H || exact I. 
    + cbn. exact H.
    + apply zone2_body; exact H.
  - destruct t; try exact I. brk; cbn; exact H || exact I.
  - apply zone2_body; exact H.
  - unfold arg_tok. brk; cbn; exact H || exact I.
  - brk; cbn; exact H || exact I.
  - destruct t; try (apply zone2_body; exact H). destruct k; try (apply zone2_body; exact H). exact H.
  - apply zone2_v2tok.
  - apply zone2_noise.
  - unfold eof_tok; brk; exact I.
  - exact I.
  - exact I.
  - destruct t; exact I.
Qed.

Lemma zone2_pstep : forall s x, zone2 s -> zone2 (pstep s x).
Proof. intros s x H. unfold pstep. destruct (tok_of (flags_of s) x); [apply zone2_on_tok|]; exact H. Qed.

Definition is_nlf (x : rtok) : bool := match x with RNl false => true | _ => false end.
Definition strip (r : list rtok) : list rtok := filter (fun x => negb (is_nlf x)) r.

Lemma zone2_strip : forall r s, zone2 s -> fold_left pstep r s = fold_left pstep (strip r) s.
Proof.
  induction r as [| x r IH]; intros s H; [reflexivity |].
  cbn [strip filter]. destruct (is_nlf x) eqn:E; cbn [negb fold_left].
  - destruct x; try discriminate. destruct opt; try discriminate.
    rewrite pstep_nl_skip by (apply zone2_noeol; exact H). apply IH; exact H.
  - apply IH. apply zone2_pstep; exact H.
Qed.

Lemma strip_app : forall a b, strip (a ++ b) = strip a ++ strip b.
Proof. intros. apply filter_app. Qed.

(* two version-2 streams that differ only in their line breaks after the option keyword parse alike *)
Lemma parse_v2_strip : forall a b, strip a = strip b ->
  parse ([RKw KVersion; RWord txt_2_0 false; RNl false; ROption] ++ a) = parse ([RKw KVersion; RWord txt_2_0 false; RNl false; ROption] ++ b).
Proof.
  intros a b H. unfold parse. rewrite !fold_left_app.
  change (fold_left pstep [RKw KVersion; RWord txt_2_0 false; RNl false; ROption] SStart) with (SOpt (hdr0 true)).
  rewrite (zone2_strip a), (zone2_strip b) by reflexivity. rewrite H. reflexivity.
Qed.

Local Open Scope nat_scope.
(* ---- lists ---------------------------------------------------------------------------------------- *)
Lemma map_nth_seq : forall A (d : A) (l : list A) n, n <= length l -> map (fun c => nth c l d) (seq 0 n) = firstn n l.
Proof.
  intros A d. induction l as [| x l IH]; intros n H.
  - simpl in H. assert (n = 0) by lia. subst. reflexivity.
  - destruct n; [reflexivity |]. simpl in H. cbn [seq map firstn nth]. f_equal.
    rewrite <- seq_shift, map_map. cbn [nth]. apply IH. lia.
Qed.

Lemma nth_skipn' : forall A (d : A) k (l : list A) j, nth (k + j) l d = nth j (skipn k l) d.
Proof. intros A d. induction k as [| k IH]; intros l j; [reflexivity |]. destruct l; [destruct j; reflexivity |]. simpl. apply IH. Qed.

Lemma grid_nth : forall A B (g : A -> B) (d : A) ports rows (m : list A), length m = rows * ports ->
  flat_map (fun r => map (fun c => g (nth (r * ports + c) m d)) (seq 0 ports)) (seq 0 rows) = map g m.
Proof.
  intros A B g d ports. induction rows as [| rows IH]; intros m H.
  - destruct m; [reflexivity | discriminate].
  - transitivity (map g (firstn ports m ++ skipn ports m)); [| rewrite firstn_skipn; reflexivity]. rewrite map_app.
    cbn [seq flat_map]. f_equal.
    + cbn [Nat.mul Nat.add]. rewrite <- map_map with (f := fun c => nth c m d) (g := g). rewrite map_nth_seq by (simpl in H; lia). reflexivity.
    + rewrite <- seq_shift. rewrite flat_map_concat_map, map_map, <- flat_map_concat_map.
      rewrite <- (IH (skipn ports m)) by (rewrite skipn_length; simpl in H; lia).
      apply flat_map_ext. intro r. apply map_ext. intro c. f_equal.
      replace (S r * ports + c) with (ports + (r * ports + c)) by (simpl; lia). apply nth_skipn'.
Qed.
