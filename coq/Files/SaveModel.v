(* Acceptance model of vnadata_save_common (vnadata_save.c): the checks that vnadata_cksave
   performs and the conversions that vnadata_save / vnadata_fsave perform afterwards.
   Allocation and I/O failures are outside the model.  No proofs in this file. *)
Require Import List Bool Arith.
Import ListNotations.
Require Import LV.Files.NpdScan.

Inductive filetype := TS1 | TS2 | NPD.

Record sobj := {
  o_type : ptype; o_rows : nat; o_ports : nat; o_freqs : nat;
  o_per_f_z0 : bool;          (* VF_PER_F_Z0 *)
  o_z0_real_pos : bool;       (* every z0 has zero imaginary and positive real part *)
  o_z0_equal : bool;          (* all ports have the same z0 *)
  o_filetype : filetype;      (* after the file-name / set_filetype decision *)
  o_promote : bool;           (* .ts name with Touchstone 1 set: may promote to version 2 *)
  o_format : list entry }.    (* vdi_format_vector; PUNDEF = "ri"/"ma"/"dB" without a type *)

(* validate_type of vnadata_alloc.c: what vnadata_init / resize accept *)
Definition wf_dims (t : ptype) (rows ports : nat) : bool :=
  match t with
  | PUNDEF => true
  | PS | PZ | PY => Nat.eqb rows ports
  | PZIN => Nat.eqb rows 1
  | _ => Nat.eqb rows 2 && Nat.eqb ports 2
  end.
Definition wf_obj (o : sobj) : bool := wf_dims (o_type o) (o_rows o) (o_ports o).

Definition resolve (t : ptype) (e : entry) : ptype := match e_par e with PUNDEF => t | p => p end.
Definition is_power (t : ptype) : bool := match t with PS | PT | PU => true | _ => false end.
Definition ts_param (t : ptype) : bool := match t with PUNDEF | PS | PZ | PY | PH | PG => true | _ => false end.
Definition ri_ma_db (f : form) : bool := match f with DB | MA | RI => true | _ => false end.

(* an empty format vector is replaced by [type, RI] before the checks *)
Definition eff_format (o : sobj) : list entry :=
  match o_format o with [] => [Build_entry (o_type o) RI] | l => l end.

Definition filetype_checks (o : sobj) : bool :=
  let l := eff_format o in
  match o_filetype o with
  | NPD => forallb (fun e => negb ((match e_form e with DB => true | _ => false end) && negb (is_power (resolve (o_type o) e)))
                             && negb ((match e_form e with IL => true | _ => false end) && Nat.ltb (o_ports o) 2)) l
  | ft =>
    Nat.leb (length l) 1 &&
    forallb (fun e => ts_param (resolve (o_type o) e) && ri_ma_db (e_form e)) (firstn 1 l) &&
    negb (o_per_f_z0 o) && o_z0_real_pos o &&
    match ft with
    | TS1 => (Nat.leb (o_ports o) 4 || o_promote o) && (o_z0_equal o || o_promote o)
    | _ => true
    end
  end.

(* the loop "make sure the parameter data is convertible"; [two_port] selects the code after fix D32 *)
Definition convertible_check (two_port : bool) (o : sobj) : bool :=
  forallb (fun e => let p := resolve (o_type o) e in
                    (negb (is_matrix p) || is_matrix (o_type o)) &&
                    (negb two_port || negb (two_port_only p) || Nat.eqb (o_ports o) 2)) (eff_format o).

Definition cksave_gen (two_port : bool) (o : sobj) : bool :=
  negb (match o_type o with PUNDEF => true | _ => false end) &&
  Nat.leb 1 (o_ports o) && negb (Nat.eqb (o_freqs o) 0) &&
  filetype_checks o && convertible_check two_port o.

Definition cksave := cksave_gen true.
Definition cksave_d32 := cksave_gen false.      (* the code before fix D32 *)

(* vnadata_convert: table entry valid and input dimensions as the conversion group requires *)
Definition ptype_eqb (a b : ptype) : bool :=
  match a, b with
  | PUNDEF, PUNDEF | PS, PS | PT, PT | PU, PU | PZ, PZ | PY, PY | PH, PH | PG, PG | PA, PA | PB, PB | PZIN, PZIN => true
  | _, _ => false
  end.

Definition convert_ok (from : ptype) (rows cols : nat) (to : ptype) : bool :=
  if ptype_eqb from to then true else
  match from, to with
  | PUNDEF, _ | _, PUNDEF | PZIN, _ => false
  | _, _ => if two_port_only from || two_port_only to then Nat.eqb rows 2 && Nat.eqb cols 2
            else Nat.eqb rows cols
  end.

(* what save does after the checks: the Touchstone 1 normalisation copy (to S, T or U) - only when the file stays
   Touchstone 1 (no promotion to version 2) and z0[0] != 1.0 ([z0_one] = the test z0_vector[0] == 1.0) - then one
   conversion per entry with an explicit parameter type, from the (possibly replaced) data *)
Definition ts1_kept (o : sobj) : bool :=
  match o_filetype o with
  | TS1 => negb (o_promote o && (Nat.ltb 4 (o_ports o) || negb (o_z0_equal o)))
  | _ => false
  end.
Definition save_conversions (z0_one : bool) (o : sobj) : bool :=
  let t := o_type o in
  let norm := match t with PT => PT | PU => PU | _ => PS end in
  let l := eff_format o in
  let resolved := map (fun e => resolve t e) l in
  if ts1_kept o && negb z0_one
  then convert_ok t (o_rows o) (o_ports o) norm &&
       forallb (fun p => convert_ok norm (o_rows o) (o_ports o) p) resolved
  else forallb (fun p => convert_ok t (o_rows o) (o_ports o) p) resolved.

Definition save_gen (two_port z0_one : bool) (o : sobj) : bool := cksave_gen two_port o && save_conversions z0_one o.
Definition save := save_gen true.
Definition save_d32 := save_gen false.
