(* Touchstone 1 normalisation identity, two-port Z parameters, over an abstract complex field (exact arithmetic) and on
   the two-port functions translate/conv2.py regenerates from /repo/src/vnaconv_ztos.c / vnaconv_stoz.c (LV.Gen, C04):
   what vnadata_save writes for a Touchstone 1 Z file with all reference impedances equal to a real R is
   stoz (ztos Z R R) 1 1 (convert to S with the object's z0, set all z0 to 1, convert back); the loader multiplies every
   cell by R (TsParse.unnormalise, PZ): the product is Z again.  Y / H / G: not done (see docs/design_C06.md). *)
Require Import List.
Require Import LV.Base.CField LV.Conv.ConvRel LV.Conv.ConvTac.
Require Import LV.Gen.Conv2_s LV.Gen.Conv2_z.
Local Open Scope cf_scope.

Section N.
  Variable K : CField.
  Add Field Kf_norm : (cth K).
  Variable R k : K.
  Hypothesis H2 : char_ok K.
  (* R is real and positive in the sense of CField.z0_ok: R = k * k with k = ksq R <> 0, cj R = R; the same for 1 *)
  Hypothesis HRk : R = k * k.
  Hypothesis Hk : k <> 0.
  Hypothesis HcR : cj R = R.
  Hypothesis Hks : ksq R = k.
  Hypothesis Hc1 : cj (@c1 K) = @c1 K.
  Hypothesis Hk1 : ksq (@c1 K) = @c1 K.

  Lemma mul_nz : forall x y : K, x <> 0 -> y <> 0 -> x * y <> 0.
  Proof. intros x y Hx Hy H. apply Hy. transitivity ((1 / x) * (x * y)); [field; exact Hx | rewrite H; ring]. Qed.

  Lemma one_nz : @c1 K <> @c0 K.
  Proof. intro H. apply H2. unfold two. rewrite H. ring. Qed.

  (* TsParse.unnormalise for PZ on a 2 x 2 matrix: every cell times R *)
  Definition unnorm_z (m : m2 K) : m2 K := M2 (m11 m * R) (m12 m * R) (m21 m * R) (m22 m * R).

  Theorem norm_identity_z_lemma : forall a b c d : K, (a + R) * (d + R) - b * c <> 0 ->
    unnorm_z (stoz K (ztos K (M2 a b c d) R R) 1 1) = M2 a b c d.
  Proof.
    intros a b c d Hd. unfold unnorm_z, stoz, ztos. cbn [m11 m12 m21 m22]. rewrite ?HcR, ?Hks, ?Hc1, ?Hk1. subst R.
    f_equal; field; repeat split; try assumption; try exact one_nz;
      match goal with |- ?P <> 0 =>
        replace P with ((1 + 1) * (1 + 1) * (k * k * k * k) * ((a + k * k) * (d + k * k) - b * c)) by ring end;
      fold (@two K); repeat first [assumption | exact H2 | apply mul_nz].
  Qed.
End N.
