(* RI vs MA vs DB: lemmas about Files/TsFormat.v (convert_value_pair as coded over an abstract field).

   The operations the C code takes from <complex.h> / <math.h> are Section variables; the laws used are Section
   hypotheses (no Axiom): cexp turns sums into products, pow10 t = cexp (LOG10 * t), RAD_PER_DEG = pi / 180,
   20 is not zero, and the embedding of the file's numbers respects 1, products and quotients.
   TsFormatReal.v instantiates all of them with the real and complex numbers of the standard library /
   Coquelicot, TsFormatProofs.trivial_instance with the Gaussian rationals (closed under the global context). *)
Require Import List NArith ZArith QArith Qcanon Bool Lia Arith.
Import ListNotations.
Require Import LV.Base.CField LV.Base.QcI.
Require Import LV.Files.TsTok LV.Files.TsParse LV.Files.TsSpec LV.Files.TsMatrix LV.Files.TsLoadV2 LV.Files.TsLoadV1.
Require Import LV.Files.TsFormat.

(* ---- list facts --------------------------------------------------------------------------------------- *)
Lemma map_flat_map' : forall (A B C : Type) (f : B -> C) (g : A -> list B) l,
  map f (flat_map g l) = flat_map (fun x => map f (g x)) l.
Proof. induction l as [| x l IH]; cbn; [reflexivity |]. rewrite map_app, IH. reflexivity. Qed.

Lemma Forall2_nth : forall (A B : Type) (R : A -> B -> Prop) l1 l2 i d1 d2,
  Forall2 R l1 l2 -> (i < length l1)%nat -> R (nth i l1 d1) (nth i l2 d2).
Proof.
  intros A B R l1 l2 i d1 d2 H. revert i. induction H as [| a b l1 l2 Hab H IH]; intros i Hi; cbn in Hi; [lia |].
  destruct i as [| i]; cbn; [exact Hab | apply IH; lia].
Qed.

Lemma Forall2_length' : forall (A B : Type) (R : A -> B -> Prop) l1 l2, Forall2 R l1 l2 -> length l1 = length l2.
Proof. intros A B R l1 l2 H. induction H; cbn; congruence. Qed.

(* ---- where build_matrix looks: always inside the list of pairs ------------------------------------------ *)
Definition pair_count (mf : mfmt) (n : nat) : nat := match mf with MFull => n * n | _ => n * (n + 1) / 2 end.

Lemma upper_off_mono : forall n i j, (i <= j)%nat -> (upper_off n i <= upper_off n j)%nat.
Proof. intros n i j H. induction H; [lia |]. cbn [upper_off]. lia. Qed.

Lemma tri_mono : forall i j, (i <= j)%nat -> (tri i <= tri j)%nat.
Proof. intros i j H. induction H; [lia |]. rewrite tri_S. lia. Qed.

Lemma pair_index_bound : forall mf tr n r c, (r < n)%nat -> (c < n)%nat -> (pair_index mf tr n r c < pair_count mf n)%nat.
Proof.
  intros mf tr n r c Hr Hc. destruct mf; cbn [pair_index pair_count].
  - destruct tr; nia.
  - rewrite <- upper_off_full.
    set (i := Nat.min r c). set (j := Nat.max r c).
    assert (Hi : (i <= j)%nat) by (unfold i, j; lia). assert (Hj : (j < n)%nat) by (unfold j; lia).
    pose proof (upper_off_mono n (S i) n ltac:(lia)) as H. cbn [upper_off] in H. lia.
  - set (i := Nat.max r c). set (j := Nat.min r c).
    assert (Hi : (j <= i)%nat) by (unfold i, j; lia). assert (Hj : (i < n)%nat) by (unfold i; lia).
    change (i * (i + 1) / 2)%nat with (tri i). change (n * (n + 1) / 2)%nat with (tri n).
    pose proof (tri_mono (S i) n ltac:(lia)) as H. rewrite tri_S in H. lia.
Qed.

Lemma length_pairs_of : forall l k, length l = (2 * k)%nat -> length (pairs_of l) = k.
Proof.
  intros l k. revert l. induction k as [| k IH]; intros l H.
  - destruct l; [reflexivity | discriminate].
  - destruct l as [| a [| b l]]; cbn in H; try lia. cbn [pairs_of length]. f_equal. apply IH. lia.
Qed.

Section Laws.
  Variable K : CField.
  Add Field Kf_fmt : (cth K).
  Variable ofQ : Qc -> K.
  Variable ci : K.
  Variable cexp : K -> K.
  Variables ln10 rad_per_deg twenty : K.
  Variables pi c180 : K.
  Variables pow10 log10 : K -> K.
  Local Open Scope cf_scope.

  Hypothesis cexp_add : forall u v : K, cexp (u + v) = cexp u * cexp v.
  Hypothesis pow10_cexp : forall t : K, pow10 t = cexp (ln10 * t).
  Hypothesis rad_def : rad_per_deg = pi / c180.
  Hypothesis twenty_nz : twenty <> 0.
  Hypothesis ofQ_1 : ofQ (qcz 1) = 1.
  Hypothesis ofQ_mul : forall p q : Qc, ofQ (p * q)%Qc = ofQ p * ofQ q.
  Hypothesis ofQ_div : forall p q : Qc, qc_is0 q = false -> ofQ (p / q)%Qc = ofQ p / ofQ q.
  Hypothesis ofQ_nz : forall q : Qc, qc_is0 q = false -> ofQ q <> 0.

  Notation conv := (convert_value_pair K ci cexp ln10 rad_per_deg twenty).
  Notation cv := (cell_value K ofQ ci cexp ln10 rad_per_deg twenty).
  Notation mv := (matrix_values K ofQ ci cexp ln10 rad_per_deg twenty).
  Notation ov := (obj_values K ofQ ci cexp ln10 rad_per_deg twenty).
  Notation val := (xv K ofQ).

  (* ---- one pair ------------------------------------------------------------------------------------- *)
  (* the RI pair (x, y), the MA pair (m, a) and the DB pair (d, a) spell the same complex number:
     x + i y = m e^(i a pi/180), d = 20 log10 m, and m is in the range of pow10 (i.e. positive) *)
  Definition same_number (x y m a d : K) : Prop :=
    x + ci * y = m * cexp (ci * (pi / c180) * a) /\ d = twenty * log10 m /\ pow10 (log10 m) = m.

  Lemma convert_ri_ma : forall x y m a d, same_number x y m a d -> conv FRI x y = conv FMA m a.
  Proof. intros x y m a d (H & _ & _). cbn [convert_value_pair]. rewrite rad_def. exact H. Qed.

  Lemma convert_db_ma : forall x y m a d, same_number x y m a d -> conv FDB d a = conv FMA m a.
  Proof.
    intros x y m a d (_ & Hd & Hm). cbn [convert_value_pair]. rewrite cexp_add. f_equal.
    replace (ln10 * d / twenty) with (ln10 * log10 m) by (rewrite Hd; field; exact twenty_nz).
    rewrite <- pow10_cexp. exact Hm.
  Qed.

  Lemma convert_equiv : forall x y m a d, same_number x y m a d ->
    conv FRI x y = conv FMA m a /\ conv FDB d a = conv FMA m a /\ conv FRI x y = conv FDB d a.
  Proof.
    intros x y m a d H. pose proof (convert_ri_ma _ _ _ _ _ H) as H1. pose proof (convert_db_ma _ _ _ _ _ H) as H2.
    repeat split; congruence.
  Qed.

  (* ---- cells ---------------------------------------------------------------------------------------- *)
  Definition cell_equiv (f1 f2 : dfmt) (c1 c2 : cell) : Prop := cell_fin c1 /\ cell_fin c2 /\ cv f1 c1 = cv f2 c2.
  (* the value lists of two records (2 numbers per pair) spell the same complex numbers *)
  Definition vals_equiv (f1 f2 : dfmt) (l1 l2 : list xnum) : Prop := Forall2 (cell_equiv f1 f2) (pairs_of l1) (pairs_of l2).

  Lemma cv_pair : forall f a b, cv f (mkcell (XQ a) (XQ b) xq1) = conv f (ofQ a) (ofQ b).
  Proof. intros f a b. unfold cell_value. cbn [c_a c_b c_scale xv xq1]. rewrite ofQ_1. ring. Qed.

  (* the three spellings of a list of complex numbers, pair by pair *)
  Inductive same_numbers : list xnum -> list xnum -> list xnum -> Prop :=
  | sn_nil : same_numbers [] [] []
  | sn_cons : forall x y m a d r1 r2 r3,
      same_number (ofQ x) (ofQ y) (ofQ m) (ofQ a) (ofQ d) -> same_numbers r1 r2 r3 ->
      same_numbers (XQ x :: XQ y :: r1) (XQ m :: XQ a :: r2) (XQ d :: XQ a :: r3).

  Lemma fin_pair : forall a b, cell_fin (mkcell (XQ a) (XQ b) xq1).
  Proof. intros; repeat split. Qed.

  Lemma same_numbers_equiv : forall ri ma db, same_numbers ri ma db ->
    vals_equiv FRI FMA ri ma /\ vals_equiv FDB FMA db ma /\ vals_equiv FRI FDB ri db.
  Proof.
    intros ri ma db H. unfold vals_equiv. induction H as [| x y m a d r1 r2 r3 Hn H (IH1 & IH2 & IH3)].
    - repeat split; constructor.
    - destruct (convert_equiv _ _ _ _ _ Hn) as (E1 & E2 & E3).
      cbn [pairs_of]. repeat split; constructor; try assumption;
        (split; [apply fin_pair | split; [apply fin_pair |]]); rewrite !cv_pair; assumption.
  Qed.

  Lemma vals_equiv_length : forall f1 f2 l1 l2, vals_equiv f1 f2 l1 l2 -> length (pairs_of l1) = length (pairs_of l2).
  Proof. intros f1 f2 l1 l2 H. exact (Forall2_length' _ _ _ _ _ H). Qed.

  (* ---- version 2: the placed matrix ------------------------------------------------------------------- *)
  Lemma build_matrix_values : forall f1 f2 mf tr n l1 l2, vals_equiv f1 f2 l1 l2 -> length l1 = (2 * pair_count mf n)%nat ->
    mv f1 (build_matrix mf tr n l1) = mv f2 (build_matrix mf tr n l2) /\
    Forall cell_fin (build_matrix mf tr n l1) /\ Forall cell_fin (build_matrix mf tr n l2).
  Proof.
    intros f1 f2 mf tr n l1 l2 He Hl. pose proof (length_pairs_of _ _ Hl) as Hp.
    assert (Hin : forall r c, (r < n)%nat -> (c < n)%nat ->
              cell_equiv f1 f2 (nth (pair_index mf tr n r c) (pairs_of l1) cell0) (nth (pair_index mf tr n r c) (pairs_of l2) cell0)).
    { intros r c Hr Hc. apply Forall2_nth; [exact He |]. rewrite Hp. apply pair_index_bound; assumption. }
    unfold matrix_values, build_matrix. rewrite !map_flat_map'. split; [| split].
    - rewrite (flat_map_ext_in' _ _ _ (fun r => map (fun c => cv f1 (nth (pair_index mf tr n r c) (pairs_of l1) cell0)) (seq 0 n)))
        by (intros; apply map_map).
      rewrite (flat_map_ext_in' _ _ (fun x => map (cv f2) _) (fun r => map (fun c => cv f2 (nth (pair_index mf tr n r c) (pairs_of l2) cell0)) (seq 0 n)))
        by (intros; apply map_map).
      apply (grid_ext K). intros r c Hr Hc. exact (proj2 (proj2 (Hin r c Hr Hc))).
    - apply Forall_forall. intros x Hx. apply in_flat_map in Hx. destruct Hx as (r & Hr & Hx).
      apply in_map_iff in Hx. destruct Hx as (c & <- & Hc). apply in_seq in Hr. apply in_seq in Hc.
      exact (proj1 (Hin r c ltac:(lia) ltac:(lia))).
    - apply Forall_forall. intros x Hx. apply in_flat_map in Hx. destruct Hx as (r & Hr & Hx).
      apply in_map_iff in Hx. destruct Hx as (c & <- & Hc). apply in_seq in Hr. apply in_seq in Hc.
      exact (proj1 (proj2 (Hin r c ltac:(lia) ltac:(lia)))).
  Qed.

  (* ---- version 1: the line order and the un-normalisation ---------------------------------------------- *)
  Lemma v1_cells_values : forall f1 f2 n l1 l2, vals_equiv f1 f2 l1 l2 ->
    Forall2 (cell_equiv f1 f2) (v1_cells n l1) (v1_cells n l2).
  Proof.
    intros f1 f2 n l1 l2 H. unfold vals_equiv in H. unfold v1_cells.
    revert H. generalize (pairs_of l1), (pairs_of l2). intros p1 p2 H.
    destruct n as [| [| [| n]]]; try exact H.
    destruct H as [| a0 b0 p1 p2 E0 H]; [constructor |].
    destruct H as [| a1 b1 p1 p2 E1 H]; [repeat (apply Forall2_cons; [assumption |]); apply Forall2_nil |].
    destruct H as [| a2 b2 p1 p2 E2 H]; [repeat (apply Forall2_cons; [assumption |]); apply Forall2_nil |].
    destruct H as [| a3 b3 p1 p2 E3 H]; [repeat (apply Forall2_cons; [assumption |]); apply Forall2_nil |].
    destruct H; repeat (apply Forall2_cons; [assumption |]); try apply Forall2_nil; assumption.
  Qed.

  Lemma cv_scale_mul : forall f c z, cell_fin c ->
    cv f (scale_cell f xmul (XQ z) c) = cv f c * ofQ z /\ cell_fin (scale_cell f xmul (XQ z) c).
  Proof.
    intros f [a b s] z (Ha & Hb & Hs). cbn [c_a c_b c_scale] in *.
    destruct a as [a | |], b as [b | |], s as [s | |]; try contradiction.
    destruct f; unfold cell_value, scale_cell; cbn [c_a c_b c_scale xmul xv convert_value_pair];
      rewrite ?ofQ_mul; (split; [ring | repeat split]).
  Qed.

  Lemma cv_scale_div : forall f c z, cell_fin c -> qc_is0 z = false ->
    cv f (scale_cell f xdiv (XQ z) c) = cv f c / ofQ z /\ cell_fin (scale_cell f xdiv (XQ z) c).
  Proof.
    intros f [a b s] z (Ha & Hb & Hs) Hz. cbn [c_a c_b c_scale] in *.
    destruct a as [a | |], b as [b | |], s as [s | |]; try contradiction.
    pose proof (ofQ_nz z Hz) as Hn.
    destruct f; unfold cell_value, scale_cell; cbn [c_a c_b c_scale xdiv xv convert_value_pair]; rewrite Hz;
      cbn [xv]; rewrite ?ofQ_div by exact Hz; (split; [field; exact Hn | repeat split]).
  Qed.

  Notation unv := (unnorm_values K).

  Lemma map_index_hg : forall f (g1 g3 : cell -> cell) (u1 u3 : K -> K) m i,
    (forall c, cell_fin c -> cv f (g1 c) = u1 (cv f c)) -> (forall c, cell_fin c -> cv f (g3 c) = u3 (cv f c)) ->
    Forall cell_fin m ->
    map (cv f) (map_index (fun i c => match i with O => g1 c | 3%nat => g3 c | _ => c end) i m) =
    (fix go (i : nat) (l : list K) : list K :=
       match l with [] => [] | v :: r => match i with O => u1 v | 3%nat => u3 v | _ => v end :: go (S i) r end) i (map (cv f) m).
  Proof.
    intros f g1 g3 u1 u3 m. induction m as [| c m IH]; intros i H1 H3 Hf; [reflexivity |].
    inversion Hf as [| ? ? Hc Hm]; subst. cbn [map_index map]. rewrite IH by assumption. f_equal.
    destruct i as [| [| [| [| i]]]]; auto.
  Qed.

  (* the model's scaled cells denote what the C code computes: the converted value times / over R *)
  Lemma unnormalise_values : forall h z m, h_z0 h = XQ z -> qc_is0 z = false -> Forall cell_fin m ->
    mv (h_fmt h) (unnormalise h m) = unv (h_type h) (ofQ z) 0 (mv (h_fmt h) m).
  Proof.
    intros h z m Hz Hn Hf. unfold unnormalise, matrix_values. rewrite Hz.
    assert (Gm : forall i l, unv PZ (ofQ z) i l = map (fun v => v * ofQ z) l)
      by (intros i l; revert i; induction l; intros; cbn; [| rewrite IHl]; reflexivity).
    assert (Gd : forall i l, unv PY (ofQ z) i l = map (fun v => v / ofQ z) l)
      by (intros i l; revert i; induction l; intros; cbn; [| rewrite IHl]; reflexivity).
    assert (Gs : forall i l, unv PS (ofQ z) i l = l)
      by (intros i l; revert i; induction l; intros; cbn; [| rewrite IHl]; reflexivity).
    destruct (h_type h).
    - rewrite Gs. reflexivity.
    - rewrite Gd, !map_map. apply map_ext_in. intros c Hc.
      apply (cv_scale_div _ _ _ (proj1 (Forall_forall _ _) Hf c Hc) Hn).
    - rewrite Gm, !map_map. apply map_ext_in. intros c Hc.
      apply (cv_scale_mul _ _ _ (proj1 (Forall_forall _ _) Hf c Hc)).
    - rewrite (map_index_hg (h_fmt h) _ _ (fun v => v * ofQ z) (fun v => v / ofQ z)); try assumption.
      + generalize (map (cv (h_fmt h)) m). generalize 0%nat. intros i l. revert i.
        induction l as [| v l IH]; intros i; cbn; [reflexivity |]. rewrite IH. reflexivity.
      + intros c Hc. apply cv_scale_mul. exact Hc.
      + intros c Hc. apply cv_scale_div; assumption.
    - rewrite (map_index_hg (h_fmt h) _ _ (fun v => v / ofQ z) (fun v => v * ofQ z)); try assumption.
      + generalize (map (cv (h_fmt h)) m). generalize 0%nat. intros i l. revert i.
        induction l as [| v l IH]; intros i; cbn; [reflexivity |]. rewrite IH. reflexivity.
      + intros c Hc. apply cv_scale_div; assumption.
      + intros c Hc. apply cv_scale_mul. exact Hc.
  Qed.

  Lemma Forall2_values : forall f1 f2 m1 m2, Forall2 (cell_equiv f1 f2) m1 m2 ->
    mv f1 m1 = mv f2 m2 /\ Forall cell_fin m1 /\ Forall cell_fin m2.
  Proof.
    intros f1 f2 m1 m2 H. induction H as [| a b m1 m2 (Ha & Hb & E) H (IH1 & IH2 & IH3)].
    - repeat split; constructor.
    - unfold matrix_values in *. cbn [map]. rewrite E, IH1. repeat split; constructor; assumption.
  Qed.

  (* ---- whole files -------------------------------------------------------------------------------------- *)
  (* two abstract files that differ only in the data format of the option line and in the spelling of the values *)
  Definition same_but_format (h1 h2 : hdr) (rs1 rs2 : list (num * list num)) : Prop :=
    h_mult h1 = h_mult h2 /\ h_type h1 = h_type h2 /\ h_z0 h1 = h_z0 h2 /\
    Forall2 (fun r1 r2 => n_val (fst r1) = n_val (fst r2) /\
                          vals_equiv (h_fmt h1) (h_fmt h2) (map n_val (snd r1)) (map n_val (snd r2))) rs1 rs2.

  Definition same_meta (a b : tsobj) : Prop :=
    o_v2 a = o_v2 b /\ o_type a = o_type b /\ o_ports a = o_ports b /\ o_freqs a = o_freqs b /\ o_z0 a = o_z0 b.

  Lemma v2_result_values : forall f1 f2 : v2file, v2_wf f1 -> v2_wf f2 ->
    same_but_format (opts_hdr true (f_opts f1)) (opts_hdr true (f_opts f2)) (f_records f1) (f_records f2) ->
    f_n f1 = f_n f2 -> f_order f1 = f_order f2 -> f_mf f1 = f_mf f2 ->
    option_map (map n_val) (f_ref f1) = option_map (map n_val) (f_ref f2) ->
    same_meta (v2_result f1) (v2_result f2) /\ ov (v2_result f1) = ov (v2_result f2).
  Proof.
    intros f1 f2 W1 W2 (Hm & Ht & Hz & Hr) Hn Ho Hmf Href.
    destruct W1 as (_ & _ & _ & _ & _ & _ & _ & _ & Hrec1 & _).
    unfold same_meta, obj_values, v2_result, v2_freqs.
    cbn [o_v2 o_type o_ports o_freqs o_z0 o_fmt o_cells].
    rewrite Hm, Ht, Hz, Hn, Ho, Hmf.
    assert (Ez : match f_ref f1 with Some l => map n_val l | None => repeat (h_z0 (opts_hdr true (f_opts f2))) (f_n f2) end =
                 match f_ref f2 with Some l => map n_val l | None => repeat (h_z0 (opts_hdr true (f_opts f2))) (f_n f2) end).
    { destruct (f_ref f1), (f_ref f2); cbn in Href; congruence. }
    rewrite Ez. repeat split; try reflexivity.
    - clear Hrec1. induction Hr as [| r1 r2 rs1 rs2 (E & _) _ IH]; [reflexivity |]. cbn [map]. rewrite E, IH. reflexivity.
    - rewrite !map_map. revert Hrec1. induction Hr as [| r1 r2 rs1 rs2 (_ & E) _ IH]; intros Hrec1; [reflexivity |].
      inversion Hrec1 as [| ? ? (_ & _ & _ & Hl) Hrec1']; subst. cbn [map]. rewrite IH by assumption. f_equal.
      apply build_matrix_values; [exact E |]. rewrite map_length, Hl. unfold f_pairs, pair_count.
      rewrite <- Hmf, <- Hn. destruct (f_mf f1); reflexivity.
  Qed.

  Lemma v1_result_values : forall g1 g2 : v1file, v1_wf g1 -> v1_wf g2 ->
    same_but_format (opts_hdr false (g_opts g1)) (opts_hdr false (g_opts g2)) (g_records g1) (g_records g2) ->
    g_ports g1 = g_ports g2 ->
    forall z, h_z0 (opts_hdr false (g_opts g1)) = XQ z ->
    same_meta (v1_result g1) (v1_result g2) /\ ov (v1_result g1) = ov (v1_result g2).
  Proof.
    intros g1 g2 W1 W2 (Hm & Ht & Hz & Hr) Hn z Hz1.
    assert (Hpos : qc_is0 z = false).
    { destruct W1 as (Hopts & _). clear - Hopts Hz1.
      (* R is positive: the option line refuses R <= 0, and the default is 50 *)
      unfold opts_hdr in Hz1. revert Hz1.
      assert (G : forall fs h, Forall ofield_ok fs -> (h_z0 h = XQ z -> qc_is0 z = false) ->
                  h_z0 (fold_left apply_ofield fs h) = XQ z -> qc_is0 z = false).
      { induction fs as [| f fs IH]; intros h Hok Hh; [exact Hh |].
        inversion Hok as [| ? ? Hf Hfs]; subst. cbn [fold_left]. apply IH; [exact Hfs |].
        destruct f as [o | n]; cbn [apply_ofield].
        - destruct o; cbn; exact Hh.
        - cbn [set_z0 h_z0]. intros E. destruct Hf as (_ & Hp). unfold positive_x in Hp. rewrite E in Hp.
          cbn [xlt xq0] in Hp. unfold qc_is0. destruct (Qeq_bool z 0) eqn:Q; [| reflexivity].
          apply Qeq_bool_iff in Q. exfalso.
          assert (T : Qle_bool z (qcz 0) = true).
          { apply Qle_bool_iff. rewrite Q. vm_compute. discriminate. }
          rewrite T in Hp. discriminate. }
      apply G; [exact Hopts |]. cbn. intros E. injection E as <-. reflexivity. }
    unfold same_meta, obj_values, v1_result, v1_freqs.
    cbn [o_v2 o_type o_ports o_freqs o_z0 o_fmt o_cells].
    rewrite Hm, Ht, Hz, Hn. repeat split; try reflexivity.
    - induction Hr as [| r1 r2 rs1 rs2 (E & _) _ IH]; [reflexivity |]. cbn [map]. rewrite E, IH. reflexivity.
    - rewrite !map_map. induction Hr as [| r1 r2 rs1 rs2 (_ & E) _ IH]; [reflexivity |].
      cbn [map]. rewrite IH. f_equal.
      destruct (Forall2_values _ _ _ _ (v1_cells_values _ _ (g_ports g2) _ _ E)) as (E1 & F1 & F2).
      rewrite (unnormalise_values _ z) by (assumption || congruence).
      rewrite (unnormalise_values _ z) by (assumption || congruence).
      rewrite Ht, E1. reflexivity.
  Qed.
  (* ---- the three spellings of one data set ---------------------------------------------------------------- *)
  Inductive same_records : list (num * list num) -> list (num * list num) -> list (num * list num) -> Prop :=
  | sr_nil : same_records [] [] []
  | sr_cons : forall r1 r2 r3 l1 l2 l3,
      n_val (fst r1) = n_val (fst r2) -> n_val (fst r3) = n_val (fst r2) ->
      same_numbers (map n_val (snd r1)) (map n_val (snd r2)) (map n_val (snd r3)) ->
      same_records l1 l2 l3 -> same_records (r1 :: l1) (r2 :: l2) (r3 :: l3).

  Lemma same_records_split : forall l1 l2 l3, same_records l1 l2 l3 ->
    Forall2 (fun r1 r2 => n_val (fst r1) = n_val (fst r2) /\ vals_equiv FRI FMA (map n_val (snd r1)) (map n_val (snd r2))) l1 l2 /\
    Forall2 (fun r1 r2 => n_val (fst r1) = n_val (fst r2) /\ vals_equiv FDB FMA (map n_val (snd r1)) (map n_val (snd r2))) l3 l2.
  Proof.
    intros l1 l2 l3 H. induction H as [| r1 r2 r3 l1 l2 l3 E1 E3 Hn H (IH1 & IH3)]; [split; constructor |].
    destruct (same_numbers_equiv _ _ _ Hn) as (A & B & _). split; constructor; auto.
  Qed.

  Definition hdr_same_but_fmt (h1 h2 : hdr) : Prop := h_mult h1 = h_mult h2 /\ h_type h1 = h_type h2 /\ h_z0 h1 = h_z0 h2.

  Theorem format_equiv_v2_lemma : forall fr fm fd : v2file, v2_wf fr -> v2_wf fm -> v2_wf fd ->
    let hr := opts_hdr true (f_opts fr) in let hm := opts_hdr true (f_opts fm) in let hd := opts_hdr true (f_opts fd) in
    h_fmt hr = FRI -> h_fmt hm = FMA -> h_fmt hd = FDB -> hdr_same_but_fmt hr hm -> hdr_same_but_fmt hd hm ->
    f_n fr = f_n fm -> f_n fd = f_n fm -> f_order fr = f_order fm -> f_order fd = f_order fm ->
    f_mf fr = f_mf fm -> f_mf fd = f_mf fm ->
    option_map (map n_val) (f_ref fr) = option_map (map n_val) (f_ref fm) ->
    option_map (map n_val) (f_ref fd) = option_map (map n_val) (f_ref fm) ->
    same_records (f_records fr) (f_records fm) (f_records fd) ->
    exists o_ri o_ma o_db, parse (v2_stream fr) = Ok o_ri /\ parse (v2_stream fm) = Ok o_ma /\ parse (v2_stream fd) = Ok o_db /\
      same_meta o_ri o_ma /\ same_meta o_db o_ma /\ ov o_ri = ov o_ma /\ ov o_db = ov o_ma.
  Proof.
    intros fr fm fd Wr Wm Wd hr hm hd Fr Fm Fd (A1 & A2 & A3) (B1 & B2 & B3) N1 N3 O1 O3 M1 M3 R1 R3 Hrec.
    destruct (same_records_split _ _ _ Hrec) as (S1 & S3).
    exists (v2_result fr), (v2_result fm), (v2_result fd).
    rewrite !v2_load_lemma by assumption.
    destruct (v2_result_values fr fm Wr Wm) as (X1 & X2); try assumption.
    { unfold same_but_format. fold hr hm. rewrite Fr, Fm. repeat split; assumption. }
    destruct (v2_result_values fd fm Wd Wm) as (Y1 & Y2); try assumption.
    { unfold same_but_format. fold hd hm. rewrite Fd, Fm. repeat split; assumption. }
    repeat (split; [reflexivity || assumption |]); assumption.
  Qed.

  Theorem format_equiv_v1_lemma : forall gr gm gd : v1file, v1_wf gr -> v1_wf gm -> v1_wf gd ->
    let hr := opts_hdr false (g_opts gr) in let hm := opts_hdr false (g_opts gm) in let hd := opts_hdr false (g_opts gd) in
    h_fmt hr = FRI -> h_fmt hm = FMA -> h_fmt hd = FDB -> hdr_same_but_fmt hr hm -> hdr_same_but_fmt hd hm ->
    g_ports gr = g_ports gm -> g_ports gd = g_ports gm ->
    x_fin (h_z0 hm) ->
    same_records (g_records gr) (g_records gm) (g_records gd) ->
    exists o_ri o_ma o_db, parse (v1_stream gr) = Ok o_ri /\ parse (v1_stream gm) = Ok o_ma /\ parse (v1_stream gd) = Ok o_db /\
      same_meta o_ri o_ma /\ same_meta o_db o_ma /\ ov o_ri = ov o_ma /\ ov o_db = ov o_ma.
  Proof.
    intros gr gm gd Wr Wm Wd hr hm hd Fr Fm Fd (A1 & A2 & A3) (B1 & B2 & B3) N1 N3 Hz Hrec.
    destruct (same_records_split _ _ _ Hrec) as (S1 & S3).
    exists (v1_result gr), (v1_result gm), (v1_result gd).
    rewrite !v1_load_lemma by assumption.
    destruct (h_z0 hm) as [z | |] eqn:Ez; try contradiction.
    assert (SB1 : same_but_format (opts_hdr false (g_opts gr)) (opts_hdr false (g_opts gm)) (g_records gr) (g_records gm)).
    { unfold same_but_format. fold hr hm. rewrite Fr, Fm. repeat split; congruence || assumption. }
    assert (SB3 : same_but_format (opts_hdr false (g_opts gd)) (opts_hdr false (g_opts gm)) (g_records gd) (g_records gm)).
    { unfold same_but_format. fold hd hm. rewrite Fd, Fm. repeat split; congruence || assumption. }
    destruct (v1_result_values gr gm Wr Wm SB1 N1 z A3) as (X1 & X2).
    destruct (v1_result_values gd gm Wd Wm SB3 N3 z B3) as (Y1 & Y2).
    repeat (split; [reflexivity || assumption |]); assumption.
  Qed.
End Laws.

(* ---- the laws as one proposition, and the theorems stated with it -------------------------------------------- *)
Definition fmt_laws (K : CField) (ofQ : Qc -> K) (ci : K) (cexp : K -> K) (ln10 rad_per_deg twenty pi c180 : K)
                    (pow10 : K -> K) : Prop :=
  (forall u v : K, cexp (cadd u v) = cmul (cexp u) (cexp v)) /\
  (forall t : K, pow10 t = cexp (cmul ln10 t)) /\
  rad_per_deg = cdiv pi c180 /\
  twenty <> c0 /\
  ofQ (qcz 1) = c1 /\
  (forall p q : Qc, ofQ (p * q)%Qc = cmul (ofQ p) (ofQ q)) /\
  (forall p q : Qc, qc_is0 q = false -> ofQ (p / q)%Qc = cdiv (ofQ p) (ofQ q)) /\
  (forall q : Qc, qc_is0 q = false -> ofQ q <> c0).

Section Stated.
  Variable K : CField.
  Variable ofQ : Qc -> K.
  Variable ci : K.
  Variable cexp : K -> K.
  Variables ln10 rad_per_deg twenty pi c180 : K.
  Variables pow10 log10 : K -> K.
  Hypothesis L : fmt_laws K ofQ ci cexp ln10 rad_per_deg twenty pi c180 pow10.

  Theorem convert_equiv_thm : forall x y m a d : K, same_number K ci cexp twenty pi c180 pow10 log10 x y m a d ->
    convert_value_pair K ci cexp ln10 rad_per_deg twenty FRI x y = convert_value_pair K ci cexp ln10 rad_per_deg twenty FMA m a /\
    convert_value_pair K ci cexp ln10 rad_per_deg twenty FDB d a = convert_value_pair K ci cexp ln10 rad_per_deg twenty FMA m a /\
    convert_value_pair K ci cexp ln10 rad_per_deg twenty FRI x y = convert_value_pair K ci cexp ln10 rad_per_deg twenty FDB d a.
  Proof. destruct L as (L1 & L2 & L3 & L4 & _). exact (convert_equiv K ci cexp ln10 rad_per_deg twenty pi c180 pow10 log10 L1 L2 L3 L4). Qed.

  Theorem format_equiv_v2_thm : forall fr fm fd : v2file, v2_wf fr -> v2_wf fm -> v2_wf fd ->
    let hr := opts_hdr true (f_opts fr) in let hm := opts_hdr true (f_opts fm) in let hd := opts_hdr true (f_opts fd) in
    h_fmt hr = FRI -> h_fmt hm = FMA -> h_fmt hd = FDB -> hdr_same_but_fmt hr hm -> hdr_same_but_fmt hd hm ->
    f_n fr = f_n fm -> f_n fd = f_n fm -> f_order fr = f_order fm -> f_order fd = f_order fm ->
    f_mf fr = f_mf fm -> f_mf fd = f_mf fm ->
    option_map (map n_val) (f_ref fr) = option_map (map n_val) (f_ref fm) ->
    option_map (map n_val) (f_ref fd) = option_map (map n_val) (f_ref fm) ->
    same_records K ofQ ci cexp twenty pi c180 pow10 log10 (f_records fr) (f_records fm) (f_records fd) ->
    exists o_ri o_ma o_db, parse (v2_stream fr) = Ok o_ri /\ parse (v2_stream fm) = Ok o_ma /\ parse (v2_stream fd) = Ok o_db /\
      same_meta o_ri o_ma /\ same_meta o_db o_ma /\
      obj_values K ofQ ci cexp ln10 rad_per_deg twenty o_ri = obj_values K ofQ ci cexp ln10 rad_per_deg twenty o_ma /\
      obj_values K ofQ ci cexp ln10 rad_per_deg twenty o_db = obj_values K ofQ ci cexp ln10 rad_per_deg twenty o_ma.
  Proof.
    destruct L as (L1 & L2 & L3 & L4 & L5 & _).
    exact (format_equiv_v2_lemma K ofQ ci cexp ln10 rad_per_deg twenty pi c180 pow10 log10 L1 L2 L3 L4 L5).
  Qed.

  Theorem format_equiv_v1_thm : forall gr gm gd : v1file, v1_wf gr -> v1_wf gm -> v1_wf gd ->
    let hr := opts_hdr false (g_opts gr) in let hm := opts_hdr false (g_opts gm) in let hd := opts_hdr false (g_opts gd) in
    h_fmt hr = FRI -> h_fmt hm = FMA -> h_fmt hd = FDB -> hdr_same_but_fmt hr hm -> hdr_same_but_fmt hd hm ->
    g_ports gr = g_ports gm -> g_ports gd = g_ports gm -> x_fin (h_z0 hm) ->
    same_records K ofQ ci cexp twenty pi c180 pow10 log10 (g_records gr) (g_records gm) (g_records gd) ->
    exists o_ri o_ma o_db, parse (v1_stream gr) = Ok o_ri /\ parse (v1_stream gm) = Ok o_ma /\ parse (v1_stream gd) = Ok o_db /\
      same_meta o_ri o_ma /\ same_meta o_db o_ma /\
      obj_values K ofQ ci cexp ln10 rad_per_deg twenty o_ri = obj_values K ofQ ci cexp ln10 rad_per_deg twenty o_ma /\
      obj_values K ofQ ci cexp ln10 rad_per_deg twenty o_db = obj_values K ofQ ci cexp ln10 rad_per_deg twenty o_ma.
  Proof.
    destruct L as (L1 & L2 & L3 & L4 & L5 & L6 & L7 & L8).
    exact (format_equiv_v1_lemma K ofQ ci cexp ln10 rad_per_deg twenty pi c180 pow10 log10 L1 L2 L3 L4 L5 L6 L7 L8).
  Qed.

  (* the cells of the parser model denote what the C code computes: convert_value_pair, then "*= R" / "/= R" *)
  Theorem unnormalise_values_thm : forall (h : hdr) (z : Qc) (m : list cell), h_z0 h = XQ z -> qc_is0 z = false ->
    Forall cell_fin m ->
    matrix_values K ofQ ci cexp ln10 rad_per_deg twenty (h_fmt h) (unnormalise h m) =
    unnorm_values K (h_type h) (ofQ z) 0 (matrix_values K ofQ ci cexp ln10 rad_per_deg twenty (h_fmt h) m).
  Proof.
    destruct L as (L1 & L2 & L3 & L4 & L5 & L6 & L7 & L8).
    exact (unnormalise_values K ofQ ci cexp ln10 rad_per_deg twenty pi c180 L3 L6 L7 L8).
  Qed.
End Stated.

(* ---- the laws are consistent: the Gaussian rationals with cexp = pow10 = 1 (closed under the global context;
        the instance with the real exponential is Files/TsFormatReal.v) ------------------------------------------ *)
Definition qi_ofQ (q : Qc) : QIF := QI q 0.
Lemma trivial_instance :
  fmt_laws QIF qi_ofQ qiI (fun _ => qi1) qi0 (qi_ofQ (qcz 1)) (qi_ofQ (qcz 20)) (qi_ofQ (qcz 180)) (qi_ofQ (qcz 180)) (fun _ => qi1).
Proof.
  unfold fmt_laws. cbn [cadd cmul cdiv c0 c1 QIF F].
  split; [intros; apply qi_eq; cbn; ring |].
  split; [reflexivity |].
  split; [apply qi_eq; vm_compute; reflexivity |].
  split; [intro H; apply (f_equal qre) in H; vm_compute in H; discriminate |].
  split; [apply qi_eq; vm_compute; reflexivity |].
  split; [intros p q; apply qi_eq; cbn; ring |].
  split.
  - intros p q Hq. assert (Hn : q <> 0%Qc).
    { intro E. subst q. vm_compute in Hq. discriminate. }
    assert (Hn2 : (q * q + 0 * 0)%Qc <> 0%Qc).
    { intro E. apply Hn. replace (q * q + 0 * 0)%Qc with (q * q)%Qc in E by ring.
      destruct (Qcmult_integral _ _ E); assumption. }
    apply qi_eq; unfold qi_ofQ, qi_div, qi_inv, qi_mul, qi_nrm; cbn [qre qim]; field; auto.
  - intros q Hq E. apply (f_equal qre) in E. cbn in E. subst q. vm_compute in Hq. discriminate.
Qed.
Print Assumptions format_equiv_v2_thm.
Print Assumptions format_equiv_v1_thm.
Print Assumptions trivial_instance.
