(* Non-vacuity of the premises of C06's load_save_id theorems (Files/SaveEmitProofs.v): a concrete
   3-port S object with unequal real reference impedances saved as Touchstone 2 "ri" through a ".ts"
   name with Touchstone 1 set (promotion), numbers = integers.  Only the premises that constrain the
   object are instantiated; the number-text layer stays a Section hypothesis of the theorems. *)
Require Import List Arith NArith ZArith QArith Qcanon Bool Lia. Import ListNotations.
Require Import LV.Files.TsTok LV.Files.TsParse LV.Files.TsSpec.
Require Import LV.Files.NpdScan LV.Files.SaveModel LV.Files.SaveEmit LV.Files.SaveEmitProofs.

Definition xz (z : Z) : xnum := XQ (qcz z).
Definition E0 : env Z :=
  mkenv 0%Z 1%Z 0%Z xz (fun _ _ _ => []) (fun _ _ _ => []) (fun _ => [])
        (fun v => fst v) (fun v => snd v) (fun v => fst v) (fun v => fst v) (fun v => fst v) (fun _ _ v => v)
        (fun _ _ _ m => m).
Definition cz (a b : Z) : cx Z := (a, b).
Definition o3 : mobj Z :=
  mkmobj PS 3 3 [1000; 2000]%Z [cz 50 0; cz 75 0; cz 50 0] None
         [[cz 1 2; cz 3 4; cz 5 6; cz 7 8; cz 9 10; cz 11 12; cz 13 14; cz 15 16; cz 17 18];
          [cz 2 1; cz 4 3; cz 6 5; cz 8 7; cz 10 9; cz 12 11; cz 14 13; cz 16 15; cz 18 17]] 1000 1000.

Lemma premises_instance :
  conv_keeps_length Z E0 /\ mobj_wf Z o3 /\
  wf_obj (sobj_of E0 o3 TS1 true [Build_entry PUNDEF RI]) = true /\
  cksave (sobj_of E0 o3 TS1 true [Build_entry PUNDEF RI]) = true /\
  final_filetype (sobj_of E0 o3 TS1 true [Build_entry PUNDEF RI]) = TS2 /\
  freqs_readable Z (fun _ x => xz x) o3 /\
  exact_prec (m_fprec o3) = true /\ exact_prec (m_dprec o3) = true.
Proof.
  split; [intros a b z m _ _; reflexivity |].
  split; [unfold mobj_wf; cbn; repeat split; try lia; repeat constructor |].
  split; [vm_compute; reflexivity |]. split; [vm_compute; reflexivity |]. split; [vm_compute; reflexivity |].
  split; [| split; vm_compute; reflexivity].
  split; [repeat constructor |].
  intros i a b Ha Hb. destruct i as [| [| i]]; cbn in Ha, Hb; try discriminate.
  inversion Ha; inversion Hb; subst. vm_compute. reflexivity.
Qed.
