(* Byte-level model of the NPD loader vnadata_load_npd.c as coded (with fixes DT1, DT2 and DB91):
   scan_line (white-space splitting, '#' comments, '#:keyword' fields, the joining of the
   '#:parameters' fields), the record types, the header loop, the field accounting, the data lines.
   parse_format of vnadata_set_format.c is included because the loader's outcome depends on it.
   No proofs in this file.

   [nscan] is a structurally recursive automaton over the bytes; it yields the non-empty lines, each a
   list of fields (byte lists, in order), exactly as successive calls of scan_line find them.  The C
   code looks at a field as a C string: [cstr] cuts it at the first NUL byte.
   The loader is an automaton [nstep] over those lines: the C code processes one record, then scans the
   next line, so an error in an earlier record wins over an unknown keyword further down. *)
Require Import List NArith ZArith QArith Qcanon Bool.
Import ListNotations.
Require Import LV.Files.TsTok LV.Files.NpdScan.
Open Scope N_scope.

(* ---- scan_line ------------------------------------------------------------------------------- *)
Inductive nmode := NNormal | NComment | NHash | NHashColon | NField (acc : list N).

Definition emit (cur : list (list N)) (rest : list (list (list N))) : list (list (list N)) :=
  match cur with [] => rest | _ => rev cur :: rest end.

(* cur: fields of the current line, reversed; acc: bytes of the current field, reversed *)
Fixpoint nscan (m : nmode) (cur : list (list N)) (l : list N) {struct l} : list (list (list N)) :=
  match l with
  | [] => match m with
          | NField acc => emit (rev acc :: cur) []
          | _ => emit cur []
          end
  | c :: r =>
    let normal (cur : list (list N)) :=
      if c =? 10 then emit cur (nscan NNormal [] r)
      else if is_space c then nscan NNormal cur r
      else if c =? 35 then nscan NHash cur r
      else nscan (NField [c]) cur r in
    let comment (_ : unit) :=                                  (* skip to the end of the line *)
      if c =? 10 then emit cur (nscan NNormal [] r) else nscan NComment cur r in
    match m with
    | NNormal => normal cur
    | NComment => comment tt
    | NHash => if c =? 58 then nscan NHashColon cur r else comment tt
    | NHashColon => if is_alpha c then nscan (NField [c; 58; 35]) cur r else comment tt
    | NField acc => if is_space c then normal (rev acc :: cur) else nscan (NField (c :: acc)) cur r
    end
  end.
Definition npd_lines (l : list N) : list (list (list N)) := nscan NNormal [] l.

Fixpoint cstr (l : list N) : list N :=
  match l with
  | [] => []
  | c :: r => if c =? 0 then [] else c :: cstr r
  end.

(* ---- record types ----------------------------------------------------------------------------- *)
Inductive nkey := NKVersion | NKRows | NKColumns | NKPorts | NKFrequencies | NKParameters | NKFprecision
  | NKDprecision | NKZ0.
Definition nkey_text (k : nkey) : list N :=
  match k with
  | NKVersion => [118;101;114;115;105;111;110]
  | NKRows => [114;111;119;115]
  | NKColumns => [99;111;108;117;109;110;115]
  | NKPorts => [112;111;114;116;115]
  | NKFrequencies => [102;114;101;113;117;101;110;99;105;101;115]
  | NKParameters => [112;97;114;97;109;101;116;101;114;115]
  | NKFprecision => [102;112;114;101;99;105;115;105;111;110]
  | NKDprecision => [100;112;114;101;99;105;115;105;111;110]
  | NKZ0 => [122;48]
  end.
Definition all_nkey : list nkey :=
  [NKVersion; NKRows; NKColumns; NKPorts; NKFrequencies; NKParameters; NKFprecision; NKDprecision; NKZ0].

Inductive nrec := RecKey (k : nkey) (fields : list (list N)) | RecData (fields : list (list N)) | RecBad.

Fixpoint join_comma (l : list (list N)) : list N :=
  match l with
  | [] => []
  | [x] => x
  | x :: r => x ++ 44 :: join_comma r
  end.

(* the record scan_line reports for a line; the fields of '#:parameters' after the first are joined with commas *)
Definition record_of (line : list (list N)) : nrec :=
  match line with
  | [] => RecBad
  | f0 :: rest =>
    match f0 with
    | 35 :: _ =>
      match find (fun k => bytes_eqb (cstr (skipn 2 f0)) (nkey_text k)) all_nkey with
      | Some NKParameters => RecKey NKParameters (match rest with [] => [f0] | _ => [f0; join_comma rest] end)
      | Some k => RecKey k line
      | None => RecBad
      end
    | _ => RecData line
    end
  end.

(* ---- numbers ----------------------------------------------------------------------------------- *)
Definition is_nchar (c : N) : bool := is_alnum c || (c =? 95).
(* "NAN(n-char-sequence)" can occur in an NPD field *)
Definition nan_paren (t : list N) : bool :=
  let (_, r) := split_sign t in
  match r with
  | 78 :: 65 :: 78 :: 40 :: r' =>
      let (_, r'') := span is_nchar r' in
      match r'' with [41] => true | _ => false end
  | _ => false
  end.
Definition field_double (f : list N) : option xnum :=
  let t := map upcase (cstr f) in
  if nan_paren t then Some XNaN else parse_double t.
Definition field_int (f : list N) : option Z := parse_int (map upcase (cstr f)).

(* ---- parse_format (vnadata_set_format.c), on the upper-cased specifier -------------------------- *)
Definition coords (t : ptype) (s : list N) : option entry :=
  match s with
  | [] => Some (Build_entry t RI)
  | [68; 66] => match t with PZIN => None | _ => Some (Build_entry t DB) end
  | [77; 65] => Some (Build_entry t MA)
  | [82; 73] => Some (Build_entry t RI)
  | _ => None
  end.
Definition parse_format (s : list N) : option entry :=
  match s with
  | [] => None
  | 65 :: r => coords PA r
  | 66 :: r => coords PB r
  | 68 :: _ => coords PUNDEF s
  | 71 :: r => coords PG r
  | 72 :: r => coords PH r
  | [73; 76] => Some (Build_entry PS IL)
  | 77 :: _ => coords PUNDEF s
  | [80; 82; 67] => Some (Build_entry PZIN PRC)
  | [80; 82; 76] => Some (Build_entry PZIN PRL)
  | [82; 76] => Some (Build_entry PS RL)
  | 82 :: _ => coords PUNDEF s
  | [83; 82; 67] => Some (Build_entry PZIN SRC)
  | [83; 82; 76] => Some (Build_entry PZIN SRL)
  | 83 :: r => coords PS r
  | 84 :: r => coords PT r
  | 85 :: r => coords PU r
  | [86; 83; 87; 82] => Some (Build_entry PS VSWR)
  | 89 :: r => coords PY r
  | 90 :: 73 :: 78 :: r => coords PZIN r
  | 90 :: r => coords PZ r
  | _ => None
  end.
Fixpoint split_comma (cur : list N) (s : list N) : list (list N) :=
  match s with
  | [] => [rev cur]
  | c :: r => if c =? 44 then rev cur :: split_comma [] r else split_comma (c :: cur) r
  end.
Fixpoint all_some {A} (l : list (option A)) : option (list A) :=
  match l with
  | [] => Some []
  | Some x :: r => match all_some r with Some r' => Some (x :: r') | None => None end
  | None :: _ => None
  end.
(* vnadata_set_format(FIELD 1): None = usage error (EINVAL) *)
Definition set_format (f : list N) : option (list entry) :=
  let s := cstr f in
  if existsb (fun c => c =? 127) s then None
  else all_some (map parse_format (split_comma [] (map upcase s))).

(* ---- the loader --------------------------------------------------------------------------------- *)
Inductive nclass := NEBADMSG | NEINVAL | NEINTERNAL.

Record nhdr := mknh {
  n_ports : Z; n_rows : Z; n_columns : Z; n_frequencies : Z;       (* -1: not given *)
  n_params : option (list entry);
  n_fprec : option Z; n_dprec : option Z;
  n_fz0 : bool;
  n_z0 : option (list (xnum * xnum)) }.
Definition nh0 : nhdr := mknh (-1) (-1) (-1) (-1) None None None false None.

Definition txt_1_0 : list N := [49;46;48].
Definition txt_per_frequency : list N := [80;69;82;45;70;82;69;81;85;69;78;67;89].
Definition int_max : Z := 2147483647.

(* expect_nnint_arg *)
Definition nnint (fields : list (list N)) : option Z :=
  match fields with
  | [_; a] => match field_int a with Some z => if (z <? 0)%Z then None else Some z | None => None end
  | _ => None
  end.

(* strip a final 'j' (strrchr(field, 'j') with nothing after it) *)
Definition strip_j (f : list N) : list N :=
  let s := cstr f in
  match rev s with
  | 106 :: r => rev r
  | _ => s
  end.
Fixpoint z0_values (fields : list (list N)) : option (list (xnum * xnum)) :=
  match fields with
  | [] => Some []
  | re :: im :: r =>
      match field_double re, field_double (strip_j im), z0_values r with
      | Some a, Some b, Some l => Some ((a, b) :: l)
      | _, _, _ => None
      end
  | _ => None
  end.
Definition legacy_ports (h : nhdr) : option Z :=               (* None: rows and columns differ *)
  if (n_ports h <? 0)%Z && (0 <=? n_rows h)%Z && (0 <=? n_columns h)%Z then
    if (n_rows h =? n_columns h)%Z then Some (n_columns h) else None
  else Some (n_ports h).
Definition set_nports (h : nhdr) (p : Z) : nhdr :=
  mknh p (n_rows h) (n_columns h) (n_frequencies h) (n_params h) (n_fprec h) (n_dprec h) (n_fz0 h) (n_z0 h).

(* one header record; inl = the error *)
Definition hline_step (h : nhdr) (k : nkey) (fields : list (list N)) : nclass + nhdr :=
  match k with
  | NKVersion =>
      match fields with
      | _ :: v :: _ => if bytes_eqb (cstr v) txt_1_0 then inr h else inl NEBADMSG
      | _ => inl NEBADMSG
      end
  | NKPorts =>
      if negb (n_ports h =? -1)%Z then inl NEBADMSG
      else match nnint fields with Some z => inr (set_nports h z) | None => inl NEBADMSG end
  | NKRows =>
      match nnint fields with
      | Some z => inr (mknh (n_ports h) z (n_columns h) (n_frequencies h) (n_params h) (n_fprec h) (n_dprec h) (n_fz0 h) (n_z0 h))
      | None => inl NEBADMSG
      end
  | NKColumns =>
      match nnint fields with
      | Some z => inr (mknh (n_ports h) (n_rows h) z (n_frequencies h) (n_params h) (n_fprec h) (n_dprec h) (n_fz0 h) (n_z0 h))
      | None => inl NEBADMSG
      end
  | NKFrequencies =>
      match nnint fields with
      | Some z => inr (mknh (n_ports h) (n_rows h) (n_columns h) z (n_params h) (n_fprec h) (n_dprec h) (n_fz0 h) (n_z0 h))
      | None => inl NEBADMSG
      end
  | NKParameters =>
      match fields with
      | [_; a] => match set_format a with
                  | Some l => inr (mknh (n_ports h) (n_rows h) (n_columns h) (n_frequencies h) (Some l) (n_fprec h) (n_dprec h) (n_fz0 h) (n_z0 h))
                  | None => inl NEINVAL
                  end
      | _ => inl NEBADMSG
      end
  | NKFprecision =>
      match nnint fields with
      | Some z => if (z <? 1)%Z || (1000 <? z)%Z then inl NEBADMSG
                  else inr (mknh (n_ports h) (n_rows h) (n_columns h) (n_frequencies h) (n_params h) (Some z) (n_dprec h) (n_fz0 h) (n_z0 h))
      | None => inl NEBADMSG
      end
  | NKDprecision =>
      match nnint fields with
      | Some z => if (z <? 1)%Z || (1000 <? z)%Z then inl NEBADMSG
                  else inr (mknh (n_ports h) (n_rows h) (n_columns h) (n_frequencies h) (n_params h) (n_fprec h) (Some z) (n_fz0 h) (n_z0 h))
      | None => inl NEBADMSG
      end
  | NKZ0 =>
      match legacy_ports h with
      | None => inl NEBADMSG
      | Some p =>
        if (p <? 0)%Z then inl NEBADMSG
        else
          let h := set_nports h p in
          match fields with
          | [_; a] =>
              if bytes_eqb (map upcase (cstr a)) txt_per_frequency
              then inr (mknh (n_ports h) (n_rows h) (n_columns h) (n_frequencies h) (n_params h) (n_fprec h) (n_dprec h) true (n_z0 h))
              else inl NEBADMSG                               (* 2 <> 1 + 2 * ports *)
          | _ =>
              if (Z.of_nat (length fields) =? 1 + 2 * p)%Z then
                match z0_values (tl fields) with
                | Some l => inr (mknh (n_ports h) (n_rows h) (n_columns h) (n_frequencies h) (n_params h) (n_fprec h) (n_dprec h) (n_fz0 h) (Some l))
                | None => inl NEBADMSG
                end
              else inl NEBADMSG
          end
      end
  end.

(* the two precision records before fix DB91: 0 was accepted and stored *)
Definition hline_step_asfound (h : nhdr) (k : nkey) (fields : list (list N)) : nclass + nhdr :=
  match k with
  | NKFprecision =>
      match nnint fields with
      | Some z => if (1000 <? z)%Z then inl NEBADMSG
                  else inr (mknh (n_ports h) (n_rows h) (n_columns h) (n_frequencies h) (n_params h) (Some z) (n_dprec h) (n_fz0 h) (n_z0 h))
      | None => inl NEBADMSG
      end
  | NKDprecision =>
      match nnint fields with
      | Some z => if (1000 <? z)%Z then inl NEBADMSG
                  else inr (mknh (n_ports h) (n_rows h) (n_columns h) (n_frequencies h) (n_params h) (n_fprec h) (Some z) (n_fz0 h) (n_z0 h))
      | None => inl NEBADMSG
      end
  | _ => hline_step h k fields
  end.

(* field accounting ("Find the best parameter") *)
Definition two_port_type (t : ptype) : bool := match t with PT | PU | PH | PG | PA | PB => true | _ => false end.
Definition entry_fields (ports : Z) (e : entry) : Z :=
  match e_par e, e_form e with
  | PS, IL => (ports * (ports - 1))%Z
  | PS, (RL | VSWR) => ports
  | PZIN, _ => (2 * ports)%Z
  | _, _ => (2 * ports * ports)%Z
  end.
Definition quality (e : entry) : nat :=
  match e_par e, e_form e with
  | PZIN, RI => 3 | PZIN, (PRC | PRL | SRC | SRL) => 2 | PZIN, MA => 1 | PZIN, _ => 0
  | _, RI => 6 | _, MA => 5 | _, DB => 4 | _, _ => 0
  end%nat.

Record plan := mkplan { pl_fields : Z; pl_best : option (entry * Z) (* the entry loaded and its first field *); pl_quality : nat }.
Fixpoint account (ports : Z) (l : list entry) (p : plan) : option plan :=
  match l with
  | [] => Some p
  | e :: r =>
    match e_par e with
    | PUNDEF => None
    | t =>
      if two_port_type t && negb (ports =? 2)%Z then None
      else
        let q := quality e in
        let p' := if (pl_quality p <? q)%nat then mkplan (pl_fields p) (Some (e, pl_fields p)) q else p in
        let f := entry_fields ports e in
        if (int_max - pl_fields p <? f)%Z then None
        else account ports r (mkplan (pl_fields p + f)%Z (pl_best p') (pl_quality p'))
    end
  end.

Record nctx := mkctx {
  x_ports : Z; x_fz0 : bool; x_z0 : option (list (xnum * xnum));
  x_best : entry; x_first : Z; x_cells : Z; x_nfields : Z; x_nfreq : Z;
  x_fprec : option Z; x_dprec : option Z }.

(* the loaded object: cells as written (a pair per cell, to be read according to the entry) *)
Record nobj := mknobj {
  b_type : ptype; b_form : form; b_rows : Z; b_columns : Z;
  b_freqs : list xnum;
  b_z0 : option (list (xnum * xnum));                  (* from '#:z0' (None: the default 50) *)
  b_fz0 : option (list (list (xnum * xnum)));          (* per frequency *)
  b_cells : list (list (xnum * xnum));
  b_fprec : option Z; b_dprec : option Z }.

Definition post_header (h : nhdr) : nclass + nctx :=
  match legacy_ports h with
  | None => inl NEBADMSG
  | Some p =>
    if (p <? 0)%Z then inl NEBADMSG
    else if (n_frequencies h <? 0)%Z then inl NEBADMSG
    else match n_params h with
         | None => inl NEBADMSG
         | Some l =>
           if n_fz0 h && ((int_max - 1) / 2 <? p)%Z then inl NEBADMSG
           else
             match account p l (mkplan (if n_fz0 h then 1 + 2 * p else 1)%Z None 0) with
             | None => inl NEBADMSG
             | Some pl =>
               match pl_best pl with
               | None => inl NEBADMSG
               | Some (e, first) =>
                 let cells := match e_par e with PZIN => p | _ => (p * p)%Z end in
                 inr (mkctx p (n_fz0 h) (n_z0 h) e first cells (pl_fields pl) (n_frequencies h) (n_fprec h) (n_dprec h))
               end
             end
         end
  end.

Fixpoint take_pairs (n : nat) (fields : list (list N)) : option (list (xnum * xnum)) :=
  match n with
  | O => Some []
  | S k =>
    match fields with
    | a :: b :: r =>
        match field_double a, field_double b, take_pairs k r with
        | Some x, Some y, Some l => Some ((x, y) :: l)
        | _, _, _ => None
        end
    | _ => None
    end
  end.

Record ndata := mknd { nd_left : Z; nd_freqs : list xnum; nd_fz0 : list (list (xnum * xnum)); nd_cells : list (list (xnum * xnum)) }.

Definition data_line (x : nctx) (d : ndata) (fields : list (list N)) : option ndata :=
  if negb (Z.of_nat (length fields) =? x_nfields x)%Z then None
  else
    match fields with
    | f0 :: rest =>
      match field_double f0 with
      | None => None
      | Some f =>
        let zs := if x_fz0 x then take_pairs (Z.to_nat (x_ports x)) rest else Some [] in
        match zs, take_pairs (Z.to_nat (x_cells x)) (skipn (Z.to_nat (x_first x)) fields) with
        | Some z, Some c => Some (mknd (nd_left d - 1)%Z (f :: nd_freqs d) (z :: nd_fz0 d) (c :: nd_cells d))
        | _, _ => None
        end
      end
    | [] => None
    end.

Definition obj_of (x : nctx) (d : ndata) : nobj :=
  let zin := match e_par (x_best x) with PZIN => true | _ => false end in
  mknobj (e_par (x_best x)) (e_form (x_best x)) (if zin then 1 else x_ports x)%Z (x_ports x)
         (rev (nd_freqs d))
         (match x_z0 x with
          | Some l => Some (if zin && (x_ports x =? 0)%Z then [(XQ (Q2Qc 0), XQ (Q2Qc 0))] else l)
          | None => None
          end)
         (if x_fz0 x && (0 <? x_nfreq x)%Z then Some (rev (nd_fz0 d)) else None)
         (rev (nd_cells d)) (x_fprec x) (x_dprec x).

Inductive nst := NHeader (h : nhdr) | NData (x : nctx) (d : ndata) | NErr (c : nclass).

Definition data_step (x : nctx) (d : ndata) (r : nrec) : nst :=
  match r with
  | RecData fields =>
      if (nd_left d <=? 0)%Z then NErr NEBADMSG                   (* extra lines at end of input *)
      else match data_line x d fields with Some d' => NData x d' | None => NErr NEBADMSG end
  | _ => NErr NEBADMSG
  end.

Definition nstep (s : nst) (line : list (list N)) : nst :=
  match s with
  | NErr c => NErr c
  | NHeader h =>
      match record_of line with
      | RecBad => NErr NEBADMSG
      | RecKey k fields => match hline_step h k fields with inl c => NErr c | inr h' => NHeader h' end
      | RecData fields =>
          match post_header h with
          | inl c => NErr c
          | inr x => data_step x (mknd (x_nfreq x) [] [] []) (RecData fields)
          end
      end
  | NData x d => data_step x d (record_of line)
  end.

Inductive nresult := NOk (o : nobj) | NError (c : nclass).
Definition nfinish (s : nst) : nresult :=
  match s with
  | NErr c => NError c
  | NHeader h =>
      match post_header h with
      | inl c => NError c
      | inr x => if (x_nfreq x =? 0)%Z then NOk (obj_of x (mknd 0 [] [] [])) else NError NEBADMSG
      end
  | NData x d => if (nd_left d =? 0)%Z then NOk (obj_of x d) else NError NEBADMSG
  end.

Definition load_npd (bytes : list N) : nresult := nfinish (fold_left nstep (npd_lines bytes) (NHeader nh0)).
